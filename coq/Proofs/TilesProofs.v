(** Lemmas for property C04, tilings part.  Both kinds of tiling are reduced to
    one axis and to a boundary function [B : Z -> Z] (tile [i] is [B i, B (i+1))). *)
From Coq Require Import ZArith List Bool Lia ZifyBool.
From OG Require Import Base.Result Base.ListSel Model.Roi Model.Tiles.
Import ListNotations.
Open Scope Z_scope.

(** * Monotone boundaries: existence and uniqueness of the tile holding a pixel *)
Definition bounds (k : Z) (B : Z -> Z) : Prop := forall i, 0 <= i < k -> B i <= B (i + 1).

Lemma bounds_mono k B : bounds k B -> forall i j, 0 <= i <= j -> j <= k -> B i <= B j.
Proof.
  intros HB i j Hij Hjk.
  assert (H : forall d, 0 <= d -> forall i, 0 <= i -> i + d <= k -> B i <= B (i + d)).
  { apply (natlike_ind (fun d => forall i, 0 <= i -> i + d <= k -> B i <= B (i + d))).
    - intros; rewrite Z.add_0_r; lia.
    - intros d Hd IH i0 Hi0 Hk.
      specialize (IH i0 Hi0 ltac:(lia)).
      specialize (HB (i0 + d) ltac:(lia)).
      replace (i0 + Z.succ d) with (i0 + d + 1) by lia. lia. }
  specialize (H (j - i) ltac:(lia) i ltac:(lia) ltac:(lia)).
  replace (i + (j - i)) with j in H by lia. exact H.
Qed.

Lemma bounds_unique k B p i j :
  bounds k B -> 0 <= i < k -> 0 <= j < k ->
  B i <= p < B (i + 1) -> B j <= p < B (j + 1) -> i = j.
Proof.
  intros HB Hi Hj Pi Pj.
  destruct (Z.lt_trichotomy i j) as [L | [E | L]]; auto.
  - pose proof (bounds_mono k B HB (i + 1) j ltac:(lia) ltac:(lia)). lia.
  - pose proof (bounds_mono k B HB (j + 1) i ltac:(lia) ltac:(lia)). lia.
Qed.

Lemma bounds_exists B : forall k, 0 <= k -> forall p, B 0 <= p < B k ->
  exists i, 0 <= i < k /\ B i <= p < B (i + 1).
Proof.
  apply (natlike_ind (fun k => forall p, B 0 <= p < B k -> exists i, 0 <= i < k /\ B i <= p < B (i + 1))).
  - intros; lia.
  - intros k Hk IH p Hp.
    destruct (Z_lt_le_dec p (B k)) as [L | G].
    + destruct (IH p ltac:(lia)) as (i & Hi & Pi). exists i; split; [lia | exact Pi].
    + exists k. replace (k + 1) with (Z.succ k) by lia. lia.
Qed.

(** * Index normalisation *)
Definition wrap_idx (S i : Z) : Z := if i <? 0 then S + i else i.

Lemma norm_ss_int i S : norm_ss (SInt i) S = (wrap_idx S i, wrap_idx S i + 1).
Proof. reflexivity. Qed.

Lemma norm_ss_mk a b n : 0 <= a -> 0 <= b -> norm_ss (mk_sl (a, b)) n = (a, b).
Proof.
  intros Ha Hb. unfold norm_ss, mk_sl, norm_slice, wrap_neg, fill; simpl.
  destruct (Z.geb_spec a 0); destruct (Z.geb_spec b 0); try lia; reflexivity.
Qed.

(** * The regular axis *)
Lemma cdiv_spec N n : 0 < n -> (cdiv N n - 1) * n < N <= cdiv N n * n.
Proof.
  intros Hn. unfold cdiv.
  pose proof (Z.div_mod (- N) n ltac:(lia)) as E.
  pose proof (Z.mod_pos_bound (- N) n Hn) as R.
  set (q := (- N) / n) in *. set (r := (- N) mod n) in *. nia.
Qed.

Lemma cdiv_nonneg N n : 0 < n -> 0 <= N -> 0 <= cdiv N n.
Proof. intros Hn HN. pose proof (cdiv_spec N n Hn). nia. Qed.

Lemma cdiv_pos N n : 0 < n -> 0 < N -> 0 < cdiv N n.
Proof. intros Hn HN. pose proof (cdiv_spec N n Hn). nia. Qed.

Lemma cdiv_zero n : 0 < n -> cdiv 0 n = 0.
Proof. intros Hn. pose proof (cdiv_spec 0 n Hn). nia. Qed.

Lemma lt_cdiv N n i : 0 < n -> (i * n < N <-> i < cdiv N n).
Proof. intros Hn. pose proof (cdiv_spec N n Hn). split; intros; nia. Qed.

Definition regB (N n i : Z) : Z := Z.min (i * n) N.

Lemma regB_0 N n : 0 <= N -> regB N n 0 = 0.
Proof. unfold regB; lia. Qed.

Lemma regB_S N n : 0 < n -> regB N n (cdiv N n) = N.
Proof. intros Hn. pose proof (cdiv_spec N n Hn). unfold regB; lia. Qed.

Lemma regB_inner N n i : 0 < n -> i < cdiv N n -> regB N n i = i * n.
Proof. intros Hn Hi. apply (lt_cdiv N n i Hn) in Hi. unfold regB; lia. Qed.

Lemma regB_strict N n i : 0 < n -> 0 <= i < cdiv N n -> regB N n i < regB N n (i + 1).
Proof.
  intros Hn Hi. rewrite (regB_inner N n i) by lia.
  pose proof (proj2 (lt_cdiv N n i Hn) ltac:(lia)). unfold regB. nia.
Qed.

Lemma tiles_slice_spec N n a b : 0 < n -> 0 <= N -> 0 <= a ->
  tiles_slice (a, b) N n =
    if (a <? cdiv N n) && (b <=? cdiv N n) then Ok (a * n, regB N n b) else Err EIndex.
Proof.
  intros Hn HN Ha. unfold tiles_slice, regB; simpl.
  pose proof (lt_cdiv N n a Hn) as La.
  pose proof (lt_cdiv N n (b - 1) Hn) as Lb.
  destruct (Z.ltb_spec a (cdiv N n)); destruct (Z.leb_spec b (cdiv N n)); simpl;
    destruct (Z.leb_spec 0 (a * n)); destruct (Z.ltb_spec (a * n) N);
    destruct (Z.ltb_spec (b * n) (N + n)); simpl; try reflexivity; try nia.
Qed.

(** tile_sz in terms of the boundaries *)
Lemma tile_sz_spec N n i : 0 < n -> 0 < N ->
  let S := cdiv N n in
  let j := wrap_idx S i in
  tile_sz i S n N = if (0 <=? j) && (j <? S) then Ok (regB N n (j + 1) - regB N n j) else Err EIndex.
Proof.
  intros Hn HN S j. unfold tile_sz. fold (wrap_idx S i). fold j.
  pose proof (cdiv_spec N n Hn) as CS. fold S in CS.
  assert (HS : 0 < S) by (unfold S; apply cdiv_pos; lia).
  destruct (Z.leb_spec 0 j); destruct (Z.ltb_spec j (S - 1)); simpl.
  - destruct (Z.ltb_spec j S); [|lia].
    rewrite (regB_inner N n j), (regB_inner N n (j + 1)) by (fold S; lia). f_equal; lia.
  - destruct (Z.eqb_spec j (S - 1)).
    + destruct (Z.ltb_spec j S); [|lia].
      rewrite (regB_inner N n j) by (fold S; lia). replace (j + 1) with S by lia.
      unfold S at 1. rewrite regB_S by lia. reflexivity.
    + destruct (Z.ltb_spec j S); [lia | reflexivity].
  - destruct (Z.eqb_spec j (S - 1)); [lia | reflexivity].
  - destruct (Z.eqb_spec j (S - 1)); [lia | reflexivity].
Qed.

(** the divisor used by [locate] finds the tile *)
Lemma locate_div N n p : 0 < n -> 0 <= p < N ->
  let S := cdiv N n in
  let m := regB N n 1 - regB N n 0 in
  0 <= p / m < S /\ regB N n (p / m) <= p < regB N n (p / m + 1).
Proof.
  intros Hn Hp S m.
  pose proof (cdiv_spec N n Hn) as CS. fold S in CS.
  assert (HS : 0 < S) by (unfold S; apply cdiv_pos; lia).
  unfold m, regB. replace (0 * n) with 0 by lia. replace (1 * n) with n by lia.
  rewrite (Z.min_l 0 N) by lia. rewrite Z.sub_0_r.
  destruct (Z_le_gt_dec n N) as [L | G].
  - rewrite (Z.min_l n N) by lia.
    pose proof (Z.div_mod p n ltac:(lia)) as E.
    pose proof (Z.mod_pos_bound p n Hn) as R.
    set (q := p / n) in *. set (r := p mod n) in *.
    assert (0 <= q) by nia.
    assert (q < S) by nia.
    split; [lia|]. nia.
  - rewrite (Z.min_r n N) by lia.
    assert (S = 1) by nia.
    rewrite (Z.div_small p N) by lia. nia.
Qed.

(** * The variable axis: offsets are prefix sums *)
Definition tot (l : list Z) : Z := fold_right Z.add 0 l.

Lemma fold_left_add l : forall a, fold_left Z.add l a = a + tot l.
Proof. induction l as [|c l IH]; intros a; simpl; [lia | rewrite IH; lia]. Qed.

Lemma sumZ_tot l : sumZ l = tot l.
Proof. unfold sumZ; rewrite fold_left_add; lia. Qed.

Lemma tot_cons c l : tot (c :: l) = c + tot l.
Proof. reflexivity. Qed.

Lemma tot_app a b : tot (a ++ b) = tot a + tot b.
Proof. induction a; simpl; lia. Qed.

Definition nonneg (ch : list Z) : Prop := Forall (fun c => 0 <= c) ch.

Lemma tot_nonneg ch : nonneg ch -> 0 <= tot ch.
Proof. induction 1; simpl; lia. Qed.

(** prefix sums without wrap-around *)
Fixpoint psum (acc : Z) (l : list Z) : list Z :=
  match l with
  | [] => []
  | c :: r => (acc + c) :: psum (acc + c) r
  end.

Lemma wrap64_id x : - two63 <= x < two63 -> wrap64 x = x.
Proof. intros H. unfold wrap64. rewrite Z.mod_small; unfold two63 in *; lia. Qed.

Lemma cumsum_pure ch : forall acc, 0 <= acc -> nonneg ch -> acc + tot ch < two63 ->
  cumsum acc ch = psum acc ch.
Proof.
  induction ch as [|c r IH]; intros acc Ha Hn Hs; simpl; [reflexivity|].
  inversion Hn as [|? ? Hc Hr]; subst. simpl in Hs.
  pose proof (tot_nonneg r Hr).
  rewrite wrap64_id by (unfold two63 in *; lia).
  f_equal. apply IH; [lia | assumption | lia].
Qed.

Lemma fits_all ch : nonneg ch -> tot ch < two63 -> forallb fits64 ch = true.
Proof.
  induction 1 as [|c r Hc Hr IH]; intros Hs; simpl; [reflexivity|].
  simpl in Hs. pose proof (tot_nonneg r Hr).
  rewrite IH by lia. unfold fits64, two63 in *.
  destruct (Z.leb_spec (-9223372036854775808) c); destruct (Z.ltb_spec c 9223372036854775808);
    simpl; try reflexivity; lia.
Qed.

Lemma vt_offsets_ok ch : nonneg ch -> tot ch < two63 -> vt_offsets ch = Ok (0 :: psum 0 ch).
Proof.
  intros Hn Hs. unfold vt_offsets. rewrite fits_all by assumption.
  rewrite cumsum_pure by (try assumption; lia). reflexivity.
Qed.

Lemma vt_offsets_err ch : forallb fits64 ch = false -> vt_offsets ch = Err EOther.
Proof. intros H; unfold vt_offsets; rewrite H; reflexivity. Qed.

Lemma length_psum ch : forall acc, length (psum acc ch) = length ch.
Proof. induction ch; intros; simpl; auto. Qed.

Lemma nth_psum ch : forall acc k, (k <= length ch)%nat ->
  nth k (acc :: psum acc ch) 0 = acc + tot (firstn k ch).
Proof.
  induction ch as [|c r IH]; intros acc k Hk.
  - simpl in Hk. assert (k = 0%nat) by lia. subst. simpl. lia.
  - destruct k as [|k]; [simpl; lia|].
    simpl in Hk. change (nth (S k) (acc :: psum acc (c :: r)) 0) with (nth k ((acc + c) :: psum (acc + c) r) 0).
    rewrite IH by lia. simpl. lia.
Qed.

Lemma tot_firstn_S ch : forall k, (k < length ch)%nat ->
  tot (firstn (S k) ch) = tot (firstn k ch) + nth k ch 0.
Proof.
  induction ch as [|c r IH]; intros k Hk; [simpl in Hk; lia|].
  destruct k as [|k]; [simpl; lia|].
  simpl in Hk. change (firstn (S (S k)) (c :: r)) with (c :: firstn (S k) r).
  change (firstn (S k) (c :: r)) with (c :: firstn k r). rewrite !tot_cons. rewrite IH by lia.
  change (nth (S k) (c :: r) 0) with (nth k r 0). lia.
Qed.

Lemma tot_firstn_all ch : tot (firstn (length ch) ch) = tot ch.
Proof. rewrite firstn_all. reflexivity. Qed.

Lemma nonneg_nth ch k : nonneg ch -> 0 <= nth k ch 0.
Proof.
  intros H. destruct (Nat.lt_ge_cases k (length ch)) as [L | G].
  - unfold nonneg in H. rewrite Forall_forall in H. apply H. apply nth_In; assumption.
  - rewrite nth_overflow by assumption. lia.
Qed.

Lemma nonneg_firstn ch k : nonneg ch -> nonneg (firstn k ch).
Proof.
  intros H. unfold nonneg in *. rewrite Forall_forall in *. intros x Hx. apply H.
  rewrite <- (firstn_skipn k ch). apply in_or_app; left; assumption.
Qed.

Lemma nonneg_skipn ch k : nonneg ch -> nonneg (skipn k ch).
Proof.
  intros H. unfold nonneg in *. rewrite Forall_forall in *. intros x Hx. apply H.
  rewrite <- (firstn_skipn k ch). apply in_or_app; right; assumption.
Qed.

Lemma tot_firstn_le ch k : nonneg ch -> tot (firstn k ch) <= tot ch.
Proof.
  intros H. rewrite <- (firstn_skipn k ch) at 2. rewrite tot_app.
  pose proof (tot_nonneg _ (nonneg_skipn ch k H)). lia.
Qed.

(** boundaries of the variable axis built from [ch] *)
Definition varB (ch : list Z) (i : Z) : Z := tot (firstn (Z.to_nat i) ch).

Lemma nthZ_offsets ch i : 0 <= i <= len ch -> nthZ (0 :: psum 0 ch) i = varB ch i.
Proof.
  intros Hi. unfold nthZ, varB. rewrite nth_psum by (unfold len in Hi; lia). lia.
Qed.

Lemma varB_0 ch : varB ch 0 = 0.
Proof. reflexivity. Qed.

Lemma varB_len ch : varB ch (len ch) = tot ch.
Proof. unfold varB, len. rewrite Nat2Z.id. apply tot_firstn_all. Qed.

Lemma varB_step ch i : 0 <= i < len ch -> varB ch (i + 1) = varB ch i + nthZ ch i.
Proof.
  intros Hi. unfold varB, nthZ. replace (Z.to_nat (i + 1)) with (S (Z.to_nat i)) by lia.
  apply tot_firstn_S. unfold len in Hi. lia.
Qed.

Lemma varB_bounds ch : nonneg ch -> bounds (len ch) (varB ch).
Proof.
  intros Hn i Hi. rewrite varB_step by assumption.
  pose proof (nonneg_nth ch (Z.to_nat i) Hn). unfold nthZ. lia.
Qed.

Lemma len_offsets ch acc : len (acc :: psum acc ch) = len ch + 1.
Proof. unfold len; simpl. rewrite length_psum. lia. Qed.

Lemma np_at_offsets ch i : 0 <= i <= len ch -> np_at (0 :: psum 0 ch) i = Ok (varB ch i).
Proof.
  intros Hi. unfold np_at. rewrite len_offsets.
  destruct (Z.leb_spec (- (len ch + 1)) i); [|lia].
  destruct (Z.ltb_spec i (len ch + 1)); [|lia]. simpl.
  destruct (Z.ltb_spec i 0); [lia|]. rewrite nthZ_offsets by lia. reflexivity.
Qed.

Lemma np_at_offsets_hi ch i : len ch < i -> np_at (0 :: psum 0 ch) i = Err EIndex.
Proof.
  intros Hi. unfold np_at. rewrite len_offsets.
  destruct (Z.ltb_spec i (len ch + 1)); [lia|]. rewrite andb_false_r. reflexivity.
Qed.

(** np.diff of the offsets gives the chunks back *)
Lemma diffs_psum ch : forall acc, diffs (acc :: psum acc ch) = ch.
Proof.
  induction ch as [|c r IH]; intros acc; [reflexivity|].
  change (diffs (acc :: psum acc (c :: r))) with ((acc + c - acc) :: diffs ((acc + c) :: psum (acc + c) r)).
  rewrite IH. f_equal. lia.
Qed.

(** searchsorted(right) over the tail of the offsets finds the tile *)
Lemma psum_ge ch : forall acc, nonneg ch -> Forall (fun b => acc <= b) (psum acc ch).
Proof.
  induction ch as [|c r IH]; intros acc Hn; simpl; [constructor|].
  inversion Hn; subst. constructor; [lia|].
  eapply Forall_impl; [|apply IH; assumption]. simpl; intros; lia.
Qed.

Lemma filter_none p l : Forall (fun b => p < b) l -> filter (fun b => b <=? p) l = [].
Proof.
  induction 1 as [|b l Hb Hl IH]; simpl; [reflexivity|].
  destruct (Z.leb_spec b p); [lia | assumption].
Qed.

Lemma count_spec ch : forall acc p, nonneg ch -> acc <= p < acc + tot ch ->
  exists k : nat, length (filter (fun b => b <=? p) (psum acc ch)) = k /\ (k < length ch)%nat /\
                  acc + tot (firstn k ch) <= p < acc + tot (firstn (S k) ch).
Proof.
  induction ch as [|c r IH]; intros acc p Hn Hp; [simpl in Hp; lia|].
  inversion Hn as [|? ? Hc Hr]; subst. simpl in Hp.
  change (psum acc (c :: r)) with ((acc + c) :: psum (acc + c) r).
  cbn [filter]. destruct (Z.leb_spec (acc + c) p) as [L | G].
  - destruct (IH (acc + c) p Hr ltac:(lia)) as (k & Ek & Lk & Pk).
    exists (S k). cbn [length]. rewrite Ek. split; [reflexivity|]. split; [lia|].
    change (firstn (S (S k)) (c :: r)) with (c :: firstn (S k) r).
    change (firstn (S k) (c :: r)) with (c :: firstn k r). rewrite !tot_cons. lia.
  - rewrite filter_none.
    + exists 0%nat. split; [reflexivity|]. split; [simpl; lia|]. simpl. lia.
    + eapply Forall_impl; [|apply psum_ge; assumption]. simpl; intros; lia.
Qed.

Lemma searchsorted_spec ch p : nonneg ch -> 0 <= p < tot ch ->
  let i := searchsorted_right (tl (0 :: psum 0 ch)) p in
  0 <= i < len ch /\ varB ch i <= p < varB ch (i + 1).
Proof.
  intros Hn Hp. simpl tl. unfold searchsorted_right.
  destruct (count_spec ch 0 p Hn ltac:(lia)) as (k & Ek & Lk & Pk).
  assert (E : len (filter (fun b => b <=? p) (psum 0 ch)) = Z.of_nat k)
    by (unfold len; rewrite Ek; reflexivity).
  cbv zeta. rewrite E. unfold len, varB. split; [lia|].
  rewrite Nat2Z.id. replace (Z.to_nat (Z.of_nat k + 1)) with (S k) by lia. lia.
Qed.

(** cropping the chunk tuple *)
Lemma firstn_add {A} (l : list A) : forall a i, firstn (a + i) l = firstn a l ++ firstn i (skipn a l).
Proof.
  induction l as [|x l IH]; intros a i.
  - rewrite !firstn_nil, skipn_nil, firstn_nil. reflexivity.
  - destruct a as [|a]; [reflexivity|]. simpl. f_equal. apply IH.
Qed.

Lemma sel_as_firstn_skipn {A} (l : list A) a b : 0 <= a <= b ->
  sel l a b = firstn (Z.to_nat (b - a)) (skipn (Z.to_nat a) l).
Proof.
  intros H. unfold sel, drop, take. rewrite skipn_firstn_comm. f_equal. lia.
Qed.

Lemma py_sel_in_range {A} (l : list A) a b : 0 <= a <= b -> b <= len l -> py_sel l a b = sel l a b.
Proof.
  intros Ha Hb. unfold py_sel, py_clamp.
  destruct (Z.ltb_spec a 0); [lia|]. destruct (Z.ltb_spec b 0); [lia|].
  rewrite !Z.min_l by lia. reflexivity.
Qed.

Lemma len_sel_in {A} (l : list A) a b : 0 <= a <= b -> b <= len l -> len (sel l a b) = b - a.
Proof. intros; rewrite len_sel by lia; lia. Qed.

Lemma varB_sel ch a b i : 0 <= a <= b -> b <= len ch -> 0 <= i <= b - a ->
  varB (sel ch a b) i = varB ch (a + i) - varB ch a.
Proof.
  intros Ha Hb Hi. unfold varB. rewrite sel_as_firstn_skipn by lia.
  rewrite firstn_firstn. replace (Nat.min (Z.to_nat i) (Z.to_nat (b - a))) with (Z.to_nat i) by lia.
  replace (Z.to_nat (a + i)) with (Z.to_nat a + Z.to_nat i)%nat by lia.
  rewrite firstn_add, tot_app. lia.
Qed.

Lemma nonneg_sel ch a b : nonneg ch -> nonneg (sel ch a b).
Proof. intros H. unfold sel, drop, take. apply nonneg_skipn, nonneg_firstn, H. Qed.

Lemma tot_sel_le ch a b : nonneg ch -> 0 <= a <= b -> b <= len ch -> tot (sel ch a b) <= tot ch.
Proof.
  intros Hn Ha Hb.
  pose proof (varB_sel ch a b (b - a) Ha Hb ltac:(lia)) as E.
  rewrite <- (len_sel_in ch a b Ha Hb) in E at 1. rewrite varB_len in E.
  replace (a + (b - a)) with b in E by lia.
  pose proof (tot_nonneg _ (nonneg_firstn ch (Z.to_nat a) Hn)).
  pose proof (tot_firstn_le ch (Z.to_nat b) Hn). unfold varB in E. lia.
Qed.

(** * One axis of either kind *)
Inductive axis := AReg (N n K : Z) | AVar (off : list Z).

Definition ax_S (A : axis) : Z := match A with AReg _ _ K => K | AVar off => len off - 1 end.
Definition ax_B (A : axis) (i : Z) : Z :=
  match A with AReg N n _ => regB N n i | AVar off => nthZ off i end.
Definition ax_N (A : axis) : Z := ax_B A (ax_S A).
Definition ax_get (A : axis) (s : someslice) : res (Z * Z) :=
  match A with
  | AReg N n K => tiles_slice (norm_ss s K) N n
  | AVar off => let i := norm_ss s (len off - 1) in
                if fst i <? 0 then Err EIndex else vt_slice off i
  end.
Definition ax_sz (A : axis) (i : Z) : res Z :=
  match A with AReg N n K => tile_sz i K n N | AVar off => vt_sz off i end.
Definition ax_loc (A : axis) (p : Z) : res Z :=
  match A with
  | AReg N n K => m <- tile_sz 0 K n N ;; Ok (p / m)
  | AVar off => Ok (searchsorted_right (tl off) p)
  end.
Definition ax_chunks (A : axis) : res (list Z) :=
  match A with
  | AReg N n K => n0 <- tile_sz 0 K n N ;; n1 <- tile_sz (K - 1) K n N ;; Ok (repeatZ n0 (K - 1) ++ [n1])
  | AVar off => Ok (diffs off)
  end.
Definition ax_crop (A : axis) (s : someslice) : res axis :=
  match A with
  | AReg N n K => r <- tiles_slice (norm_ss s K) N n ;;
                  Ok (AReg (snd r - fst r) n (cdiv (snd r - fst r) n))
  | AVar off => let r := norm_ss s (len off - 1) in
                if fst r <? 0 then Err EIndex
                else o <- vt_offsets (py_sel (diffs off) (fst r) (snd r)) ;; Ok (AVar o)
  end.

Definition ax_wf (A : axis) : Prop :=
  match A with
  | AReg N n K => 0 < n /\ 0 <= N /\ K = cdiv N n
  | AVar off => nonneg (diffs off) /\ tot (diffs off) < two63 /\ off = 0 :: psum 0 (diffs off)
  end.

Definition in_range (K i : Z) : bool := (- K <=? i) && (i <? K).

Lemma wrap_in_range K i : 0 <= K ->
  in_range K i = (0 <=? wrap_idx K i) && (wrap_idx K i <? K).
Proof.
  intros HS. unfold in_range, wrap_idx.
  destruct (Z.ltb_spec i 0); destruct (Z.leb_spec (- K) i); destruct (Z.ltb_spec i K);
    destruct (Z.leb_spec 0 (K + i)); destruct (Z.ltb_spec (K + i) K);
    destruct (Z.leb_spec 0 i); simpl; try reflexivity; lia.
Qed.

Lemma var_wf_inv off : ax_wf (AVar off) ->
  exists ch, nonneg ch /\ tot ch < two63 /\ off = 0 :: psum 0 ch /\ diffs off = ch.
Proof. intros (H1 & H2 & H3). exists (diffs off). auto. Qed.

Lemma var_wf_intro ch : nonneg ch -> tot ch < two63 -> ax_wf (AVar (0 :: psum 0 ch)).
Proof. intros H1 H2. unfold ax_wf. rewrite !diffs_psum. auto. Qed.

Lemma var_wf_len off : ax_wf (AVar off) -> len off = len (diffs off) + 1.
Proof. intros (_ & _ & E). rewrite E at 1. apply len_offsets. Qed.

Ltac var_inv H ch :=
  let Hnn := fresh "Hnn" in let Hs := fresh "Hs" in let Ed := fresh "Ed" in
  destruct (var_wf_inv _ H) as (ch & Hnn & Hs & -> & Ed);
  cbn [ax_S ax_B] in *; try rewrite Ed in *; try rewrite len_offsets in *;
  replace (len ch + 1 - 1) with (len ch) in * by lia.

Lemma ax_S_nonneg A : ax_wf A -> 0 <= ax_S A.
Proof.
  destruct A as [N n K | off]; simpl.
  - intros (Hn & HN & ->). apply cdiv_nonneg; assumption.
  - intros H. rewrite (var_wf_len off H). pose proof (len_nonneg (diffs off)). lia.
Qed.

Lemma ax_B_var off i : ax_wf (AVar off) -> 0 <= i <= ax_S (AVar off) ->
  ax_B (AVar off) i = varB (diffs off) i.
Proof.
  intros H Hi. var_inv H ch. apply nthZ_offsets. lia.
Qed.

Lemma ax_B_0 A : ax_wf A -> ax_B A 0 = 0.
Proof.
  destruct A as [N n K | off]; simpl.
  - intros (Hn & HN & _). apply regB_0; assumption.
  - intros (_ & _ & E). rewrite E. reflexivity.
Qed.

Lemma ax_bounds A : ax_wf A -> bounds (ax_S A) (ax_B A).
Proof.
  intros H i Hi. destruct A as [N n K | off].
  - simpl in *. destruct H as (Hn & HN & ->). pose proof (regB_strict N n i Hn Hi). lia.
  - pose proof (ax_S_nonneg _ H).
    rewrite !ax_B_var by (try assumption; lia).
    pose proof (var_wf_len off H) as L. destruct H as (Hnn & _ & _).
    apply (varB_bounds _ Hnn). simpl in Hi. lia.
Qed.

Lemma ax_N_nonneg A : ax_wf A -> 0 <= ax_N A.
Proof.
  intros H. unfold ax_N. rewrite <- (ax_B_0 A H).
  apply (bounds_mono _ _ (ax_bounds A H)); pose proof (ax_S_nonneg A H); lia.
Qed.

Lemma ax_N_reg N n K : ax_wf (AReg N n K) -> ax_N (AReg N n K) = N.
Proof. intros (Hn & HN & ->). unfold ax_N; simpl. apply regB_S; assumption. Qed.

Lemma ax_N_var off : ax_wf (AVar off) -> ax_N (AVar off) = tot (diffs off).
Proof.
  intros H. unfold ax_N. rewrite ax_B_var by (try assumption; pose proof (ax_S_nonneg _ H); lia).
  simpl. rewrite (var_wf_len off H). replace (len (diffs off) + 1 - 1) with (len (diffs off)) by lia.
  apply varB_len.
Qed.

(** tiles of a regular axis are never empty *)
Lemma ax_reg_strict N n K i : ax_wf (AReg N n K) -> 0 <= i < K ->
  ax_B (AReg N n K) i < ax_B (AReg N n K) (i + 1).
Proof. intros (Hn & HN & ->) Hi. simpl. apply regB_strict; assumption. Qed.

Lemma ax_var_step off i : ax_wf (AVar off) -> 0 <= i < ax_S (AVar off) ->
  ax_B (AVar off) (i + 1) = ax_B (AVar off) i + nthZ (diffs off) i.
Proof.
  intros H Hi. rewrite !ax_B_var by (try assumption; lia).
  apply varB_step. pose proof (var_wf_len off H). simpl in Hi. lia.
Qed.

(** [int] lookup *)
Lemma tiles_slice_neg N n a b : 0 < n -> a < 0 -> tiles_slice (a, b) N n = Err EIndex.
Proof.
  intros Hn Ha. unfold tiles_slice; simpl.
  destruct (Z.leb_spec 0 (a * n)); [nia | reflexivity].
Qed.

Lemma vt_slice_offsets ch a b : 0 <= a -> 0 <= b ->
  vt_slice (0 :: psum 0 ch) (a, b) =
    if (a <=? len ch) && (b <=? len ch) then Ok (varB ch a, varB ch b) else Err EIndex.
Proof.
  intros Ha Hb. unfold vt_slice; simpl fst; simpl snd.
  destruct (Z.leb_spec a (len ch)).
  - rewrite np_at_offsets by lia. simpl bind.
    destruct (Z.leb_spec b (len ch)).
    + rewrite np_at_offsets by lia. reflexivity.
    + rewrite np_at_offsets_hi by lia. reflexivity.
  - rewrite np_at_offsets_hi by lia. reflexivity.
Qed.

Lemma ax_get_int A i : ax_wf A ->
  ax_get A (SInt i) =
    let j := wrap_idx (ax_S A) i in
    if in_range (ax_S A) i then Ok (ax_B A j, ax_B A (j + 1)) else Err EIndex.
Proof.
  intros H. pose proof (ax_S_nonneg A H) as HS. rewrite wrap_in_range by assumption.
  cbv zeta. destruct A as [N n K | off].
  - simpl in *. destruct H as (Hn & HN & ES). rewrite norm_ss_int.
    set (j := wrap_idx K i).
    destruct (Z.leb_spec 0 j).
    + rewrite tiles_slice_spec by assumption. rewrite <- ES.
      destruct (Z.ltb_spec j K); destruct (Z.leb_spec (j + 1) K); simpl; try lia; try reflexivity.
      rewrite (regB_inner N n j) by lia. reflexivity.
    + rewrite tiles_slice_neg by lia. reflexivity.
  - var_inv H ch. cbn [ax_get]. rewrite len_offsets.
    replace (len ch + 1 - 1) with (len ch) by lia. rewrite norm_ss_int.
    set (j := wrap_idx (len ch) i). cbn [fst].
    destruct (Z.leb_spec 0 j); destruct (Z.ltb_spec j 0); try lia; simpl andb; [|reflexivity].
    rewrite vt_slice_offsets by lia.
    destruct (Z.ltb_spec j (len ch)); destruct (Z.leb_spec j (len ch));
      destruct (Z.leb_spec (j + 1) (len ch)); simpl; try lia; try reflexivity.
    rewrite !nthZ_offsets by lia. reflexivity.
Qed.

(** slice (block of tiles) lookup *)
Lemma ax_get_block A a b : ax_wf A -> 0 <= a < ax_S A -> 0 <= b <= ax_S A ->
  ax_get A (mk_sl (a, b)) = Ok (ax_B A a, ax_B A b).
Proof.
  intros H Ha Hb. destruct A as [N n K | off].
  - simpl in *. destruct H as (Hn & HN & ES). rewrite norm_ss_mk by lia.
    rewrite tiles_slice_spec by (try assumption; lia). rewrite <- ES.
    destruct (Z.ltb_spec a K); destruct (Z.leb_spec b K); simpl; try lia.
    rewrite (regB_inner N n a) by lia. reflexivity.
  - var_inv H ch. cbn [ax_get]. rewrite len_offsets.
    rewrite norm_ss_mk by lia. cbn [fst]. destruct (Z.ltb_spec a 0); [lia|].
    rewrite vt_slice_offsets by lia.
    destruct (Z.leb_spec a (len ch)); destruct (Z.leb_spec b (len ch)); simpl; try lia.
    rewrite !nthZ_offsets by lia. reflexivity.
Qed.

(** the variable kind also allows the empty selection at the very end *)
Lemma ax_get_block_var off a b : ax_wf (AVar off) ->
  0 <= a <= ax_S (AVar off) -> 0 <= b <= ax_S (AVar off) ->
  ax_get (AVar off) (mk_sl (a, b)) = Ok (ax_B (AVar off) a, ax_B (AVar off) b).
Proof.
  intros H Ha Hb. var_inv H ch. cbn [ax_get]. rewrite len_offsets.
  rewrite norm_ss_mk by lia. cbn [fst]. destruct (Z.ltb_spec a 0); [lia|].
  rewrite vt_slice_offsets by lia.
  destruct (Z.leb_spec a (len ch)); destruct (Z.leb_spec b (len ch)); simpl; try lia.
  rewrite !nthZ_offsets by lia. reflexivity.
Qed.

Lemma ax_get_block_err A a b : ax_wf A -> 0 <= a -> 0 <= b -> ax_S A < a \/ ax_S A < b ->
  ax_get A (mk_sl (a, b)) = Err EIndex.
Proof.
  intros H Ha Hb Hout. destruct A as [N n K | off].
  - simpl in *. destruct H as (Hn & HN & ES). rewrite norm_ss_mk by lia.
    rewrite tiles_slice_spec by (try assumption; lia). rewrite <- ES.
    destruct (Z.ltb_spec a K); destruct (Z.leb_spec b K); simpl; try lia; reflexivity.
  - var_inv H ch. cbn [ax_get]. rewrite len_offsets.
    rewrite norm_ss_mk by lia. cbn [fst]. destruct (Z.ltb_spec a 0); [lia|].
    rewrite vt_slice_offsets by lia.
    destruct (Z.leb_spec a (len ch)); destruct (Z.leb_spec b (len ch)); simpl; try lia; reflexivity.
Qed.

(** tile_shape *)
Lemma ax_sz_spec A i : ax_wf A -> 0 < ax_S A ->
  ax_sz A i =
    let j := wrap_idx (ax_S A) i in
    if in_range (ax_S A) i then Ok (ax_B A (j + 1) - ax_B A j) else Err EIndex.
Proof.
  intros H HS. rewrite wrap_in_range by lia. cbv zeta. destruct A as [N n K | off].
  - simpl in *. destruct H as (Hn & HN & ES). subst K.
    assert (0 < N) by (destruct (Z.eq_dec N 0) as [-> |]; [rewrite cdiv_zero in HS; lia | lia]).
    apply tile_sz_spec; assumption.
  - var_inv H ch. cbn [ax_sz]. unfold vt_sz. rewrite len_offsets.
    replace (len ch + 1 - 1) with (len ch) by lia.
    fold (wrap_idx (len ch) i). set (j := wrap_idx (len ch) i).
    destruct (Z.leb_spec 0 j); destruct (Z.ltb_spec j (len ch)); simpl andb; try reflexivity.
    rewrite !np_at_offsets by lia. simpl. rewrite !nthZ_offsets by lia. reflexivity.
Qed.

(** locate *)
Lemma ax_loc_spec A p : ax_wf A -> 0 <= p < ax_N A ->
  exists i, ax_loc A p = Ok i /\ 0 <= i < ax_S A /\ ax_B A i <= p < ax_B A (i + 1).
Proof.
  intros H Hp. destruct A as [N n K | off].
  - rewrite ax_N_reg in Hp by assumption. simpl in *. destruct H as (Hn & HN & ES). subst K.
    pose proof (tile_sz_spec N n 0 Hn ltac:(lia)) as TS. cbv zeta in TS.
    assert (0 < cdiv N n) by (apply cdiv_pos; lia).
    unfold wrap_idx in TS. simpl in TS.
    destruct (Z.ltb_spec 0 (cdiv N n)); [|lia]. rewrite TS. simpl.
    eexists; split; [reflexivity|]. apply locate_div; assumption.
  - rewrite ax_N_var in Hp by assumption. var_inv H ch. cbn [ax_loc].
    pose proof (searchsorted_spec ch p Hnn Hp) as SS. cbv zeta in SS.
    eexists; split; [reflexivity|]. split; [lia|].
    rewrite !nthZ_offsets by lia. tauto.
Qed.

Lemma ax_unique A p i j : ax_wf A -> 0 <= i < ax_S A -> 0 <= j < ax_S A ->
  ax_B A i <= p < ax_B A (i + 1) -> ax_B A j <= p < ax_B A (j + 1) -> i = j.
Proof. intros H. apply bounds_unique, ax_bounds, H. Qed.

Lemma ax_B_le_N A i : ax_wf A -> 0 <= i <= ax_S A -> 0 <= ax_B A i <= ax_N A.
Proof.
  intros H Hi. pose proof (ax_bounds A H) as HB. split.
  - rewrite <- (ax_B_0 A H). apply (bounds_mono _ _ HB); lia.
  - apply (bounds_mono _ _ HB); lia.
Qed.

(** chunks *)
Lemma tot_repeat v k : tot (repeat v k) = Z.of_nat k * v.
Proof. induction k; simpl repeat; [reflexivity|]. rewrite tot_cons, IHk. lia. Qed.

Lemma nth_repeat_lt (v d : Z) : forall k i, (i < k)%nat -> nth i (repeat v k) d = v.
Proof. induction k; intros i Hi; [lia|]. destruct i; simpl; [reflexivity | apply IHk; lia]. Qed.

Lemma ax_chunks_spec A : ax_wf A -> 0 < ax_S A ->
  exists ch, ax_chunks A = Ok ch /\ len ch = ax_S A /\
             (forall i, 0 <= i < ax_S A -> nthZ ch i = ax_B A (i + 1) - ax_B A i) /\
             tot ch = ax_N A.
Proof.
  intros H HS. destruct A as [N n K | off].
  - pose proof (ax_sz_spec _ 0 H HS) as Z0. pose proof (ax_sz_spec _ (K - 1) H HS) as Z1.
    rewrite ax_N_reg by assumption.
    cbn [ax_S ax_sz ax_B ax_chunks] in *. destruct H as (Hn & HN & ES).
    unfold in_range, wrap_idx in Z0, Z1. cbv zeta in Z0, Z1.
    destruct (Z.leb_spec (- K) 0); [|lia]. destruct (Z.ltb_spec 0 K); [|lia].
    destruct (Z.leb_spec (- K) (K - 1)); [|lia]. destruct (Z.ltb_spec (K - 1) K); [|lia].
    destruct (Z.ltb_spec 0 0); [lia|]. destruct (Z.ltb_spec (K - 1) 0); [lia|].
    cbn [andb] in Z0, Z1. rewrite Z0, Z1. cbn [bind].
    eexists; split; [reflexivity|].
    replace (K - 1 + 1) with K by lia. replace (0 + 1) with 1 by lia.
    assert (B0 : regB N n 0 = 0) by (apply regB_0; lia).
    assert (BK : regB N n K = N) by (subst K; apply regB_S; lia).
    assert (BK1 : regB N n (K - 1) = (K - 1) * n) by (apply regB_inner; lia).
    rewrite B0, BK, BK1. split; [|split].
    + rewrite len_app. unfold repeatZ, len. rewrite repeat_length. simpl. lia.
    + intros i Hi. unfold nthZ, repeatZ.
      destruct (Z_lt_le_dec i (K - 1)) as [L | G].
      * rewrite app_nth1 by (rewrite repeat_length; lia).
        rewrite nth_repeat_lt by lia.
        rewrite (regB_inner N n i), (regB_inner N n (i + 1)) by lia.
        assert (B1 : regB N n 1 = n) by (rewrite regB_inner by lia; lia). lia.
      * assert (i = K - 1) by lia. subst i.
        rewrite app_nth2 by (rewrite repeat_length; lia). rewrite repeat_length.
        replace (Z.to_nat (K - 1) - Z.to_nat (K - 1))%nat with 0%nat by lia. simpl.
        replace (K - 1 + 1) with K by lia. lia.
    + rewrite tot_app, tot_cons. unfold repeatZ. rewrite tot_repeat. simpl tot.
      destruct (Z_lt_le_dec 1 K) as [L | G].
      * assert (B1 : regB N n 1 = n) by (rewrite regB_inner by lia; lia). rewrite B1. nia.
      * assert (K = 1) by lia. subst K. simpl. lia.
  - exists (diffs off). split; [reflexivity|]. split; [|split].
    + pose proof (var_wf_len off H). cbn [ax_S]. lia.
    + intros i Hi. rewrite ax_var_step by assumption. lia.
    + symmetry. apply ax_N_var; assumption.
Qed.

(** crop *)
Lemma cdiv_unique M n k : 0 < n -> (k - 1) * n < M <= k * n -> cdiv M n = k.
Proof. intros Hn H. pose proof (cdiv_spec M n Hn). nia. Qed.

Lemma ax_crop_spec A a b : ax_wf A -> 0 <= a < ax_S A -> a <= b <= ax_S A ->
  exists A', ax_crop A (mk_sl (a, b)) = Ok A' /\ ax_wf A' /\ ax_S A' = b - a /\
             (forall i, 0 <= i <= b - a -> ax_B A' i = ax_B A (a + i) - ax_B A a).
Proof.
  intros H Ha Hb. destruct A as [N n K | off].
  - cbn [ax_crop ax_S] in *. destruct H as (Hn & HN & ES).
    rewrite norm_ss_mk by lia. rewrite tiles_slice_spec by (try assumption; lia). rewrite <- ES.
    destruct (Z.ltb_spec a K); [|lia]. destruct (Z.leb_spec b K); [|lia]. cbn [andb bind fst snd].
    pose proof (cdiv_spec N n Hn) as CS. rewrite <- ES in CS.
    set (N' := regB N n b - a * n).
    assert (HN' : N' = Z.min ((b - a) * n) (N - a * n)) by (unfold N', regB; lia).
    assert (a * n < N) by nia.
    assert (EK : cdiv N' n = b - a).
    { apply cdiv_unique; [assumption|]. rewrite HN'.
      destruct (Z_lt_le_dec b K).
      - assert (b * n <= N) by nia. nia.
      - assert (b = K) by lia. subst b. nia. }
    eexists; split; [reflexivity|]. split; [|split].
    + cbn [ax_wf]. split; [assumption|]. split; [nia | reflexivity].
    + cbn [ax_S]. exact EK.
    + intros i Hi. cbn [ax_B]. unfold regB. fold N'. rewrite HN'.
      assert (i * n <= (b - a) * n) by nia. nia.
  - pose proof (var_wf_len off H) as L. var_inv H ch. cbn [ax_crop].
    rewrite len_offsets. replace (len ch + 1 - 1) with (len ch) by lia.
    rewrite norm_ss_mk by lia. cbn [fst snd]. destruct (Z.ltb_spec a 0); [lia|].
    rewrite diffs_psum. rewrite py_sel_in_range by lia.
    pose proof (nonneg_sel ch a b Hnn) as Hn'.
    pose proof (tot_sel_le ch a b Hnn ltac:(lia) ltac:(lia)) as Ht'.
    rewrite vt_offsets_ok by (try assumption; lia). cbn [bind].
    eexists; split; [reflexivity|]. split; [|split].
    + apply var_wf_intro; [assumption | lia].
    + cbn [ax_S]. rewrite len_offsets. rewrite len_sel_in by lia. lia.
    + intros i Hi. cbn [ax_B]. rewrite !nthZ_offsets by (try rewrite len_sel_in by lia; lia).
      apply varB_sel; lia.
Qed.

(** * Two axes *)
Definition rt_y (t : rtiles) : axis :=
  match t with
  | RReg t => AReg (fst (t_base t)) (fst (t_tile t)) (fst (t_shape t))
  | RVar v => AVar (v_offy v)
  end.
Definition rt_x (t : rtiles) : axis :=
  match t with
  | RReg t => AReg (snd (t_base t)) (snd (t_tile t)) (snd (t_shape t))
  | RVar v => AVar (v_offx v)
  end.
Definition rt_wf (t : rtiles) : Prop := ax_wf (rt_y t) /\ ax_wf (rt_x t).

Lemma rt_shape_axes t : rt_shape t = (ax_S (rt_y t), ax_S (rt_x t)).
Proof. destruct t as [t | v]; [destruct t as [b tl [sy sx]]|]; reflexivity. Qed.

Lemma np_at_err a i e : np_at a i = Err e -> e = EIndex.
Proof. unfold np_at. destruct (_ && _); congruence. Qed.

Lemma vt_slice_err a i e : vt_slice a i = Err e -> e = EIndex.
Proof.
  unfold vt_slice. destruct (np_at a (fst i)) eqn:E1; simpl.
  - destruct (np_at a (snd i)) eqn:E2; simpl; [congruence|].
    intros X; inversion X; subst. eapply np_at_err; eassumption.
  - intros X; inversion X; subst. eapply np_at_err; eassumption.
Qed.

Lemma rt_getitem_axes t idx :
  rt_getitem t idx = (y <- ax_get (rt_y t) (fst idx) ;; x <- ax_get (rt_x t) (snd idx) ;; Ok (y, x)).
Proof.
  destruct t as [t | v]; [reflexivity|].
  cbn [rt_getitem rt_y rt_x ax_get]. unfold vt_getitem, vt_shape. cbn [fst snd].
  destruct (fst (norm_ss (fst idx) (len (v_offy v) - 1)) <? 0); [reflexivity|].
  destruct (fst (norm_ss (snd idx) (len (v_offx v) - 1)) <? 0); cbn [orb]; [|reflexivity].
  destruct (vt_slice (v_offy v) _) eqn:E; cbn [bind]; [reflexivity|].
  apply vt_slice_err in E. subst. reflexivity.
Qed.

Lemma rt_tile_shape_axes t idx :
  rt_tile_shape t idx = (ny <- ax_sz (rt_y t) (fst idx) ;; nx <- ax_sz (rt_x t) (snd idx) ;; Ok (ny, nx)).
Proof. destruct t; reflexivity. Qed.

Lemma rt_base_axes t : rt_wf t -> rt_base t = Ok (ax_N (rt_y t), ax_N (rt_x t)).
Proof.
  intros (Hy & Hx). destruct t as [t | v].
  - cbn [rt_base rt_y rt_x] in *. rewrite !ax_N_reg by assumption. destruct (t_base t); reflexivity.
  - cbn [rt_base rt_y rt_x] in *. unfold vt_base, ax_N. cbn [ax_S ax_B].
    pose proof (var_wf_len _ Hy). pose proof (var_wf_len _ Hx).
    pose proof (len_nonneg (diffs (v_offy v))). pose proof (len_nonneg (diffs (v_offx v))).
    unfold np_at.
    destruct (Z.leb_spec (- len (v_offy v)) (-1)); [|lia]. destruct (Z.ltb_spec (-1) (len (v_offy v))); [|lia].
    destruct (Z.leb_spec (- len (v_offx v)) (-1)); [|lia]. destruct (Z.ltb_spec (-1) (len (v_offx v))); [|lia].
    cbn [andb bind]. change (-1 <? 0) with true. cbv iota.
    replace (-1 + len (v_offy v)) with (len (v_offy v) - 1) by lia.
    replace (-1 + len (v_offx v)) with (len (v_offx v) - 1) by lia. reflexivity.
Qed.

Lemma rt_locate_axes t y x : rt_wf t ->
  rt_locate t (y, x) =
    if (y <? 0) || (y >=? ax_N (rt_y t)) || (x <? 0) || (x >=? ax_N (rt_x t)) then Err EIndex
    else (iy <- ax_loc (rt_y t) y ;; ix <- ax_loc (rt_x t) x ;; Ok (iy, ix)).
Proof.
  intros W. pose proof (rt_base_axes t W) as B. destruct W as (Hy & Hx). destruct t as [t | v].
  - cbn [rt_locate rt_y rt_x rt_base ax_loc] in *. unfold tiles_locate, tiles_tile_shape.
    rewrite !ax_N_reg by assumption.
    destruct (t_base t) as [NY NX]. cbn [fst snd] in *.
    destruct ((y <? 0) || (y >=? NY) || (x <? 0) || (x >=? NX)); [reflexivity|].
    cbn [fst snd].
    destruct (tile_sz 0 (fst (t_shape t)) (fst (t_tile t)) NY); cbn [bind]; [|reflexivity].
    destruct (tile_sz 0 (snd (t_shape t)) (snd (t_tile t)) NX); cbn [bind]; reflexivity.
  - cbn [rt_locate rt_y rt_x rt_base ax_loc] in *. unfold vt_locate. rewrite B. cbn [bind].
    destruct ((y <? 0) || (y >=? _) || (x <? 0) || (x >=? _)); reflexivity.
Qed.

(** constructors produce well-formed tilings *)
Lemma tiles_init_wf base tile : 0 < fst tile -> 0 < snd tile -> 0 <= fst base -> 0 <= snd base ->
  exists t, tiles_init base tile = Ok t /\ rt_wf (RReg t) /\
            t_base t = base /\ t_tile t = tile /\
            t_shape t = (cdiv (fst base) (fst tile), cdiv (snd base) (snd tile)).
Proof.
  intros Hy Hx By Bx. unfold tiles_init.
  destruct (Z.eqb_spec (fst tile) 0); [lia|]. destruct (Z.eqb_spec (snd tile) 0); [lia|]. cbn [orb].
  eexists; split; [reflexivity|]. cbn. repeat split; auto.
Qed.

Lemma vt_init_wf chy chx : nonneg chy -> nonneg chx -> tot chy < two63 -> tot chx < two63 ->
  exists v, vt_init chy chx = Ok v /\ rt_wf (RVar v) /\
            v_offy v = 0 :: psum 0 chy /\ v_offx v = 0 :: psum 0 chx.
Proof.
  intros Hy Hx Ty Tx. unfold vt_init. rewrite !vt_offsets_ok by assumption. cbn [bind].
  eexists; split; [reflexivity|]. cbn [v_offy v_offx]. split; [|auto].
  split; apply var_wf_intro; assumption.
Qed.

(** * Two-dimensional statements *)
Definition in_grid (t : rtiles) (rc : Z * Z) : Prop :=
  0 <= fst rc < fst (rt_shape t) /\ 0 <= snd rc < snd (rt_shape t).
Definition in_roi (r : (Z * Z) * (Z * Z)) (p : Z * Z) : Prop :=
  fst (fst r) <= fst p < snd (fst r) /\ fst (snd r) <= snd p < snd (snd r).
Definition By (t : rtiles) := ax_B (rt_y t).
Definition Bx (t : rtiles) := ax_B (rt_x t).
Definition tile_region (t : rtiles) (rc : Z * Z) : (Z * Z) * (Z * Z) :=
  ((By t (fst rc), By t (fst rc + 1)), (Bx t (snd rc), Bx t (snd rc + 1))).
Definition block_region (t : rtiles) (blk : (Z * Z) * (Z * Z)) : (Z * Z) * (Z * Z) :=
  ((By t (fst (fst blk)), By t (snd (fst blk))), (Bx t (fst (snd blk)), Bx t (snd (snd blk)))).
Definition valid_block (t : rtiles) (blk : (Z * Z) * (Z * Z)) : Prop :=
  0 <= fst (fst blk) < fst (rt_shape t) /\ fst (fst blk) <= snd (fst blk) <= fst (rt_shape t) /\
  0 <= fst (snd blk) < snd (rt_shape t) /\ fst (snd blk) <= snd (snd blk) <= snd (rt_shape t).
Definition shift_roi (r : (Z * Z) * (Z * Z)) (o : Z * Z) : (Z * Z) * (Z * Z) :=
  ((fst (fst r) + fst o, snd (fst r) + fst o), (fst (snd r) + snd o, snd (snd r) + snd o)).

Lemma rt_index t r c : rt_wf t ->
  let S := rt_shape t in
  rt_getitem t (int_idx (r, c)) =
    if in_range (fst S) r && in_range (snd S) c
    then Ok (tile_region t (wrap_idx (fst S) r, wrap_idx (snd S) c)) else Err EIndex.
Proof.
  intros (Hy & Hx). cbv zeta. rewrite rt_getitem_axes, rt_shape_axes. cbn [fst snd int_idx].
  rewrite (ax_get_int _ r Hy), (ax_get_int _ c Hx). cbv zeta.
  destruct (in_range (ax_S (rt_y t)) r); cbn [bind andb]; [|reflexivity].
  destruct (in_range (ax_S (rt_x t)) c); reflexivity.
Qed.

Lemma rt_tile_shape_spec t r c : rt_wf t ->
  let S := rt_shape t in 0 < fst S -> 0 < snd S ->
  rt_tile_shape t (r, c) =
    if in_range (fst S) r && in_range (snd S) c
    then Ok (roi_shape2 (tile_region t (wrap_idx (fst S) r, wrap_idx (snd S) c))) else Err EIndex.
Proof.
  intros (Hy & Hx). cbv zeta. rewrite rt_tile_shape_axes, rt_shape_axes. cbn [fst snd].
  intros Sy Sx. rewrite (ax_sz_spec _ r Hy Sy), (ax_sz_spec _ c Hx Sx). cbv zeta.
  destruct (in_range (ax_S (rt_y t)) r); cbn [bind andb]; [|reflexivity].
  destruct (in_range (ax_S (rt_x t)) c); reflexivity.
Qed.

Lemma rt_partition t y x : rt_wf t ->
  0 <= y < ax_N (rt_y t) -> 0 <= x < ax_N (rt_x t) ->
  exists rc, rt_locate t (y, x) = Ok rc /\ in_grid t rc /\ in_roi (tile_region t rc) (y, x) /\
             forall rc', in_grid t rc' -> in_roi (tile_region t rc') (y, x) -> rc' = rc.
Proof.
  intros W Hy Hx. rewrite rt_locate_axes by assumption. destruct W as (Wy & Wx).
  destruct (Z.ltb_spec y 0); [lia|]. destruct (Z.geb_spec y (ax_N (rt_y t))); [lia|].
  destruct (Z.ltb_spec x 0); [lia|]. destruct (Z.geb_spec x (ax_N (rt_x t))); [lia|]. cbn [orb].
  destruct (ax_loc_spec _ y Wy Hy) as (r & Er & Rr & Pr).
  destruct (ax_loc_spec _ x Wx Hx) as (c & Ec & Rc & Pc).
  rewrite Er, Ec. cbn [bind]. exists (r, c). split; [reflexivity|].
  unfold in_grid, in_roi, tile_region, By, Bx. rewrite rt_shape_axes. cbn [fst snd].
  split; [tauto|]. split; [tauto|].
  intros (r', c') (G1 & G2) (P1 & P2). cbn [fst snd] in *.
  assert (r' = r) by (apply (ax_unique (rt_y t) y); [exact Wy | exact G1 | exact Rr | exact P1 | exact Pr]).
  assert (c' = c) by (apply (ax_unique (rt_x t) x); [exact Wx | exact G2 | exact Rc | exact P2 | exact Pc]).
  congruence.
Qed.

Lemma rt_locate_outside t y x : rt_wf t ->
  ~ (0 <= y < ax_N (rt_y t) /\ 0 <= x < ax_N (rt_x t)) -> rt_locate t (y, x) = Err EIndex.
Proof.
  intros W H. rewrite rt_locate_axes by assumption.
  destruct (Z.ltb_spec y 0); [reflexivity|]. destruct (Z.geb_spec y (ax_N (rt_y t))); [reflexivity|].
  destruct (Z.ltb_spec x 0); [reflexivity|]. destruct (Z.geb_spec x (ax_N (rt_x t))); [reflexivity|].
  lia.
Qed.

Lemma rt_region_inside t rc : rt_wf t -> in_grid t rc ->
  let r := tile_region t rc in
  0 <= fst (fst r) <= snd (fst r) /\ snd (fst r) <= ax_N (rt_y t) /\
  0 <= fst (snd r) <= snd (snd r) /\ snd (snd r) <= ax_N (rt_x t).
Proof.
  intros (Wy & Wx) G. unfold in_grid in G. rewrite rt_shape_axes in G. cbn [fst snd] in G.
  cbv zeta. unfold tile_region, By, Bx. cbn [fst snd].
  pose proof (ax_B_le_N _ (fst rc) Wy ltac:(lia)). pose proof (ax_B_le_N _ (fst rc + 1) Wy ltac:(lia)).
  pose proof (ax_B_le_N _ (snd rc) Wx ltac:(lia)). pose proof (ax_B_le_N _ (snd rc + 1) Wx ltac:(lia)).
  pose proof (ax_bounds _ Wy (fst rc) ltac:(lia)). pose proof (ax_bounds _ Wx (snd rc) ltac:(lia)). lia.
Qed.

Lemma rt_block t blk : rt_wf t -> valid_block t blk ->
  rt_getitem t (mk_roi blk) = Ok (block_region t blk).
Proof.
  intros (Wy & Wx) V. unfold valid_block in V. rewrite rt_shape_axes in V. cbn [fst snd] in V.
  rewrite rt_getitem_axes. destruct blk as ((a, b), (c, d)). cbn [fst snd mk_roi] in *.
  rewrite (ax_get_block _ a b Wy) by lia. rewrite (ax_get_block _ c d Wx) by lia. reflexivity.
Qed.

Lemma rt_block_err t a b c d : rt_wf t -> 0 <= a -> 0 <= b -> 0 <= c -> 0 <= d ->
  fst (rt_shape t) < a \/ fst (rt_shape t) < b \/ snd (rt_shape t) < c \/ snd (rt_shape t) < d ->
  rt_getitem t (mk_roi ((a, b), (c, d))) = Err EIndex.
Proof.
  intros (Wy & Wx) Ha Hb Hc Hd V. rewrite rt_shape_axes in V. cbn [fst snd] in V.
  rewrite rt_getitem_axes. cbn [fst snd mk_roi].
  destruct (Z_lt_le_dec (ax_S (rt_y t)) a); [rewrite ax_get_block_err by (auto; lia); reflexivity|].
  destruct (Z_lt_le_dec (ax_S (rt_y t)) b); [rewrite ax_get_block_err by (auto; lia); reflexivity|].
  destruct (ax_get (rt_y t) (mk_sl (a, b))) eqn:E; cbn [bind].
  - rewrite ax_get_block_err by (auto; lia). reflexivity.
  - destruct (rt_y t) as [N n K | off]; cbn [ax_get] in E.
    + unfold tiles_slice in E. destruct (_ && _) in E; congruence.
    + destruct (_ <? _) in E; [congruence|]. apply vt_slice_err in E. congruence.
Qed.

Lemma rt_chunks_spec t : rt_wf t -> 0 < fst (rt_shape t) -> 0 < snd (rt_shape t) ->
  exists chy chx, rt_chunks t = Ok (chy, chx) /\
                  ax_chunks (rt_y t) = Ok chy /\ ax_chunks (rt_x t) = Ok chx.
Proof.
  intros (Wy & Wx). rewrite rt_shape_axes. cbn [fst snd]. intros Sy Sx.
  destruct (ax_chunks_spec _ Wy Sy) as (chy & Ey & _). destruct (ax_chunks_spec _ Wx Sx) as (chx & Ex & _).
  exists chy, chx. split; [|auto]. destruct t as [t | v].
  - cbn [rt_chunks rt_y rt_x ax_chunks] in *. unfold tiles_chunks, tiles_tile_shape. cbn [fst snd].
    destruct (tile_sz 0 (fst (t_shape t)) _ _); cbn [bind] in *; [|discriminate].
    destruct (tile_sz 0 (snd (t_shape t)) _ _); cbn [bind] in *; [|discriminate].
    destruct (tile_sz (fst (t_shape t) - 1) _ _ _); cbn [bind] in *; [|discriminate].
    destruct (tile_sz (snd (t_shape t) - 1) _ _ _); cbn [bind] in *; [|discriminate].
    cbn [fst snd]. congruence.
  - cbn [rt_chunks rt_y rt_x ax_chunks] in *. unfold vt_chunks. congruence.
Qed.

(** crop *)
Lemma rt_crop_from_axes t roi Ay Ax : rt_wf t ->
  ax_crop (rt_y t) (fst roi) = Ok Ay -> ax_crop (rt_x t) (snd roi) = Ok Ax ->
  exists t', rt_crop t roi = Ok t' /\ rt_y t' = Ay /\ rt_x t' = Ax.
Proof.
  intros (Wy & Wx) Ey Ex. destruct t as [t | v].
  - cbn [rt_crop rt_y rt_x ax_crop ax_wf] in *. unfold tiles_crop, tiles_getitem.
    destruct (tiles_slice (norm_ss (fst roi) _) _ _) as [ry|]; cbn [bind] in *; [|discriminate].
    destruct (tiles_slice (norm_ss (snd roi) _) _ _) as [rx|]; cbn [bind] in *; [|discriminate].
    unfold tiles_init, roi_shape2. cbn [fst snd].
    destruct (Z.eqb_spec (fst (t_tile t)) 0); [lia|]. destruct (Z.eqb_spec (snd (t_tile t)) 0); [lia|].
    cbn [orb bind]. eexists; split; [reflexivity|]. cbn [rt_y rt_x t_base t_tile t_shape fst snd].
    split; congruence.
  - cbn [rt_crop rt_y rt_x ax_crop] in *. unfold vt_crop, vt_shape, vt_chunks. cbn [fst snd].
    destruct (fst (norm_ss (fst roi) _) <? 0); [discriminate|].
    destruct (fst (norm_ss (snd roi) _) <? 0); [discriminate|]. cbn [orb].
    unfold vt_init.
    destruct (vt_offsets (py_sel (diffs (v_offy v)) _ _)); cbn [bind] in *; [|discriminate].
    destruct (vt_offsets (py_sel (diffs (v_offx v)) _ _)); cbn [bind] in *; [|discriminate].
    eexists; split; [reflexivity|]. cbn [rt_y rt_x v_offy v_offx]. split; congruence.
Qed.

Lemma rt_crop_spec t blk : rt_wf t -> valid_block t blk ->
  exists t', rt_crop t (mk_roi blk) = Ok t' /\ rt_wf t' /\
             rt_shape t' = (snd (fst blk) - fst (fst blk), snd (snd blk) - fst (snd blk)) /\
             (forall i, 0 <= i <= snd (fst blk) - fst (fst blk) ->
                        By t' i = By t (fst (fst blk) + i) - By t (fst (fst blk))) /\
             (forall j, 0 <= j <= snd (snd blk) - fst (snd blk) ->
                        Bx t' j = Bx t (fst (snd blk) + j) - Bx t (fst (snd blk))).
Proof.
  intros W V. pose proof W as (Wy & Wx). unfold valid_block in V. rewrite rt_shape_axes in V.
  destruct blk as ((a, b), (c, d)). cbn [fst snd] in *.
  destruct (ax_crop_spec _ a b Wy ltac:(lia) ltac:(lia)) as (Ay & Ey & WAy & SAy & BAy).
  destruct (ax_crop_spec _ c d Wx ltac:(lia) ltac:(lia)) as (Ax & Ex & WAx & SAx & BAx).
  destruct (rt_crop_from_axes t (mk_roi ((a, b), (c, d))) Ay Ax W Ey Ex) as (t' & Et & Ty & Tx).
  exists t'. split; [exact Et|]. unfold rt_wf, By, Bx. rewrite rt_shape_axes, Ty, Tx.
  split; [auto|]. split; [congruence|]. split; assumption.
Qed.

(** the tiles of the cropped tiling are the tiles of the block, re-based *)
Lemma rt_crop_tiles t blk t' i j : rt_wf t -> valid_block t blk ->
  rt_crop t (mk_roi blk) = Ok t' -> in_grid t' (i, j) ->
  let o := (By t (fst (fst blk)), Bx t (fst (snd blk))) in
  in_grid t (fst (fst blk) + i, fst (snd blk) + j) /\
  tile_region t (fst (fst blk) + i, fst (snd blk) + j) = shift_roi (tile_region t' (i, j)) o.
Proof.
  intros W V E G. destruct (rt_crop_spec t blk W V) as (t2 & E2 & W2 & S2 & BY & BX).
  rewrite E in E2. inversion E2; subst t2. clear E2.
  unfold in_grid in *. rewrite S2 in G. cbn [fst snd] in G.
  unfold valid_block in V. cbv zeta. split; [cbn [fst snd]; lia|].
  unfold tile_region, shift_roi. cbn [fst snd].
  rewrite (BY i), (BY (i + 1)), (BX j), (BX (j + 1)) by lia.
  repeat f_equal; try lia.
  - replace (fst (fst blk) + (i + 1)) with (fst (fst blk) + i + 1) by lia. lia.
  - replace (fst (snd blk) + (j + 1)) with (fst (snd blk) + j + 1) by lia. lia.
Qed.

Lemma rt_crop_base t blk t' : rt_wf t -> valid_block t blk -> rt_crop t (mk_roi blk) = Ok t' ->
  rt_base t' = Ok (roi_shape2 (block_region t blk)).
Proof.
  intros W V E. destruct (rt_crop_spec t blk W V) as (t2 & E2 & W2 & S2 & BY & BX).
  rewrite E in E2. inversion E2; subst t2. clear E2.
  rewrite rt_base_axes by assumption. unfold ax_N.
  assert (Hy : ax_S (rt_y t') = snd (fst blk) - fst (fst blk))
    by (pose proof (rt_shape_axes t') as SA; rewrite S2 in SA; injection SA; intros; lia).
  assert (Hx : ax_S (rt_x t') = snd (snd blk) - fst (snd blk))
    by (pose proof (rt_shape_axes t') as SA; rewrite S2 in SA; injection SA; intros; lia).
  rewrite Hy, Hx. unfold valid_block in V.
  fold (By t' (snd (fst blk) - fst (fst blk))). fold (Bx t' (snd (snd blk) - fst (snd blk))).
  rewrite BY, BX by lia. unfold roi_shape2, block_region. cbn [fst snd].
  repeat f_equal; lia.
Qed.

(** * clip_tiles *)
Lemma fold_min_spec l : forall a,
  let m := fold_left Z.min l a in m <= a /\ Forall (fun x => m <= x) l /\ In m (a :: l).
Proof.
  induction l as [|x l IH]; intros a; cbn [fold_left].
  - cbv zeta. split; [lia|]. split; [constructor | left; reflexivity].
  - specialize (IH (Z.min a x)). cbv zeta in *. destruct IH as (H1 & H2 & H3).
    split; [lia|]. split; [constructor; [lia | exact H2]|].
    destruct H3 as [H3 | H3]; [|right; right; exact H3].
    destruct (Z.min_spec a x) as [(_ & E) | (_ & E)]; [left | right; left]; congruence.
Qed.

Lemma fold_max_spec l : forall a,
  let m := fold_left Z.max l a in a <= m /\ Forall (fun x => x <= m) l /\ In m (a :: l).
Proof.
  induction l as [|x l IH]; intros a; cbn [fold_left].
  - cbv zeta. split; [lia|]. split; [constructor | left; reflexivity].
  - specialize (IH (Z.max a x)). cbv zeta in *. destruct IH as (H1 & H2 & H3).
    split; [lia|]. split; [constructor; [lia | exact H2]|].
    destruct H3 as [H3 | H3]; [|right; right; exact H3].
    destruct (Z.max_spec a x) as [(_ & E) | (_ & E)]; [right; left | left]; congruence.
Qed.

Lemma Forall_map_iff {A B} (f : A -> B) (P : B -> Prop) l : Forall P (map f l) <-> Forall (fun x => P (f x)) l.
Proof. induction l; simpl; split; intros H; inversion H; subst; constructor; tauto. Qed.

Lemma clip_tiles_spec t p r : rt_wf t -> Forall (in_grid t) (p :: r) ->
  exists t' y1 y2 x1 x2,
    clip_tiles t (p :: r) =
      Ok (t', ((y1, y2 + 1), (x1, x2 + 1)), map (fun yx => (fst yx - y1, snd yx - x1)) (p :: r)) /\
    valid_block t ((y1, y2 + 1), (x1, x2 + 1)) /\
    rt_crop t (mk_roi ((y1, y2 + 1), (x1, x2 + 1))) = Ok t' /\
    Forall (fun yx => y1 <= fst yx <= y2 /\ x1 <= snd yx <= x2) (p :: r) /\
    In y1 (map fst (p :: r)) /\ In y2 (map fst (p :: r)) /\
    In x1 (map snd (p :: r)) /\ In x2 (map snd (p :: r)).
Proof.
  intros W G. unfold clip_tiles.
  destruct (fold_min_spec (map fst r) (fst p)) as (A1 & A2 & A3).
  destruct (fold_min_spec (map snd r) (snd p)) as (B1 & B2 & B3).
  destruct (fold_max_spec (map fst r) (fst p)) as (C1 & C2 & C3).
  destruct (fold_max_spec (map snd r) (snd p)) as (D1 & D2 & D3).
  set (y1 := fold_left Z.min (map fst r) (fst p)) in *.
  set (x1 := fold_left Z.min (map snd r) (snd p)) in *.
  set (y2 := fold_left Z.max (map fst r) (fst p)) in *.
  set (x2 := fold_left Z.max (map snd r) (snd p)) in *.
  assert (GY : forall v, In v (map fst (p :: r)) -> 0 <= v < fst (rt_shape t)).
  { intros v Hv. apply in_map_iff in Hv. destruct Hv as (q & <- & Hq).
    rewrite Forall_forall in G. apply (G q Hq). }
  assert (GX : forall v, In v (map snd (p :: r)) -> 0 <= v < snd (rt_shape t)).
  { intros v Hv. apply in_map_iff in Hv. destruct Hv as (q & <- & Hq).
    rewrite Forall_forall in G. apply (G q Hq). }
  change (fst p :: map fst r) with (map fst (p :: r)) in A3, C3.
  change (snd p :: map snd r) with (map snd (p :: r)) in B3, D3.
  pose proof (GY _ A3). pose proof (GY _ C3). pose proof (GX _ B3). pose proof (GX _ D3).
  assert (V : valid_block t ((y1, y2 + 1), (x1, x2 + 1))) by (unfold valid_block; cbn [fst snd]; lia).
  destruct (rt_crop_spec t _ W V) as (t' & Et & _).
  rewrite Et. cbn [bind]. exists t', y1, y2, x1, x2.
  split; [reflexivity|]. split; [exact V|]. split; [exact Et|]. split; [|auto].
  constructor; [lia|]. rewrite Forall_map_iff in A2, B2, C2, D2.
  rewrite Forall_forall in *. intros q Hq.
  specialize (A2 q Hq). specialize (B2 q Hq). specialize (C2 q Hq). specialize (D2 q Hq). lia.
Qed.

(** * GeoboxTiles *)
Definition window_of (box : gbox) (r : (Z * Z) * (Z * Z)) : gbox :=
  {| g_oy := g_oy box + fst (fst r); g_ox := g_ox box + fst (snd r);
     g_ny := snd (fst r) - fst (fst r); g_nx := snd (snd r) - fst (snd r) |}.

Lemma gbox_crop_mk g r : 0 <= fst (fst r) -> 0 <= snd (fst r) -> 0 <= fst (snd r) -> 0 <= snd (snd r) ->
  gbox_crop g (mk_roi r) = window_of g r.
Proof.
  destruct r as ((a, b), (c, d)). cbn [fst snd]. intros. unfold gbox_crop, mk_roi. cbn [fst snd].
  rewrite !norm_ss_mk by assumption. reflexivity.
Qed.

Lemma gbt_getitem_is_crop g idx :
  gbt_getitem g idx =
    match rt_getitem (gb_tiles g) idx with
    | Ok r => Ok (gbox_crop (gb_box g) (mk_roi r))
    | Err e => Err e
    end.
Proof. unfold gbt_getitem. destruct (rt_getitem _ _); reflexivity. Qed.

Lemma tile_region_nonneg t rc : rt_wf t -> in_grid t rc ->
  let r := tile_region t rc in
  0 <= fst (fst r) /\ 0 <= snd (fst r) /\ 0 <= fst (snd r) /\ 0 <= snd (snd r).
Proof. intros W G. pose proof (rt_region_inside t rc W G) as H. cbv zeta in *. lia. Qed.

Lemma in_range_grid S i : 0 <= i < S -> in_range S i = true /\ wrap_idx S i = i.
Proof.
  intros H. unfold in_range, wrap_idx.
  destruct (Z.leb_spec (- S) i); destruct (Z.ltb_spec i S); destruct (Z.ltb_spec i 0); try lia; auto.
Qed.

Lemma rt_index_grid t rc : rt_wf t -> in_grid t rc ->
  rt_getitem t (int_idx rc) = Ok (tile_region t rc).
Proof.
  intros W (G1 & G2). destruct rc as (r, c). rewrite rt_index by assumption. cbv zeta. cbn [fst snd] in *.
  destruct (in_range_grid _ _ G1) as (-> & ->). destruct (in_range_grid _ _ G2) as (-> & ->). reflexivity.
Qed.

Lemma gbt_tile g rc : rt_wf (gb_tiles g) -> in_grid (gb_tiles g) rc ->
  gbt_getitem g (int_idx rc) = Ok (window_of (gb_box g) (tile_region (gb_tiles g) rc)).
Proof.
  intros W G. unfold gbt_getitem. rewrite rt_index_grid by assumption. cbn [bind].
  pose proof (tile_region_nonneg _ rc W G) as N. cbv zeta in N.
  rewrite gbox_crop_mk by tauto. reflexivity.
Qed.

Lemma gbt_tile_err g r c : rt_wf (gb_tiles g) ->
  in_range (fst (rt_shape (gb_tiles g))) r && in_range (snd (rt_shape (gb_tiles g))) c = false ->
  gbt_getitem g (int_idx (r, c)) = Err EIndex.
Proof.
  intros W H. unfold gbt_getitem. rewrite rt_index by assumption. cbv zeta. rewrite H. reflexivity.
Qed.

Lemma block_region_nonneg t blk : rt_wf t -> valid_block t blk ->
  let r := block_region t blk in
  0 <= fst (fst r) /\ 0 <= snd (fst r) /\ 0 <= fst (snd r) /\ 0 <= snd (snd r).
Proof.
  intros (Wy & Wx) V. unfold valid_block in V. rewrite rt_shape_axes in V. cbn [fst snd] in V.
  cbv zeta. unfold block_region, By, Bx. cbn [fst snd].
  pose proof (ax_B_le_N _ (fst (fst blk)) Wy ltac:(lia)). pose proof (ax_B_le_N _ (snd (fst blk)) Wy ltac:(lia)).
  pose proof (ax_B_le_N _ (fst (snd blk)) Wx ltac:(lia)). pose proof (ax_B_le_N _ (snd (snd blk)) Wx ltac:(lia)).
  lia.
Qed.

Lemma gbt_crop_spec g blk : rt_wf (gb_tiles g) -> valid_block (gb_tiles g) blk ->
  exists g', gbt_crop g (mk_roi blk) = Ok g' /\
             gb_box g' = window_of (gb_box g) (block_region (gb_tiles g) blk) /\
             rt_crop (gb_tiles g) (mk_roi blk) = Ok (gb_tiles g') /\ rt_wf (gb_tiles g').
Proof.
  intros W V. unfold gbt_crop. rewrite rt_block by assumption. cbn [bind].
  destruct (rt_crop_spec _ blk W V) as (t' & Et & Wt & _). rewrite Et. cbn [bind].
  eexists; split; [reflexivity|]. cbn [gb_box gb_tiles].
  pose proof (block_region_nonneg _ blk W V) as N. cbv zeta in N.
  rewrite gbox_crop_mk by tauto. auto.
Qed.

(** a tile of the cropped grid is the same pixel window as the tile of the parent grid *)
Lemma gbt_crop_tiles g blk g' i j : rt_wf (gb_tiles g) -> valid_block (gb_tiles g) blk ->
  gbt_crop g (mk_roi blk) = Ok g' -> in_grid (gb_tiles g') (i, j) ->
  gbt_getitem g' (int_idx (i, j)) = gbt_getitem g (int_idx (fst (fst blk) + i, fst (snd blk) + j)).
Proof.
  intros W V E G. destruct (gbt_crop_spec g blk W V) as (g2 & E2 & Bx2 & Ct & Wt).
  rewrite E in E2. inversion E2; subst g2. clear E2.
  destruct (rt_crop_tiles _ blk _ i j W V Ct G) as (G' & R). cbv zeta in R.
  rewrite (gbt_tile g' (i, j)) by assumption. rewrite (gbt_tile g _ W G').
  rewrite R, Bx2. unfold window_of, shift_roi, block_region. cbn [fst snd g_oy g_ox g_ny g_nx].
  f_equal. f_equal; lia.
Qed.

Lemma gbt_clip_spec g p r : rt_wf (gb_tiles g) -> Forall (in_grid (gb_tiles g)) (p :: r) ->
  exists g' y1 y2 x1 x2,
    gbt_clip g (p :: r) = Ok (g', map (fun yx => (fst yx - y1, snd yx - x1)) (p :: r)) /\
    valid_block (gb_tiles g) ((y1, y2 + 1), (x1, x2 + 1)) /\
    gbt_crop g (mk_roi ((y1, y2 + 1), (x1, x2 + 1))) = Ok g' /\
    Forall (fun yx => y1 <= fst yx <= y2 /\ x1 <= snd yx <= x2) (p :: r).
Proof.
  intros W G. destruct (clip_tiles_spec _ p r W G) as (t' & y1 & y2 & x1 & x2 & Ec & V & Ecrop & F & _).
  unfold gbt_clip. rewrite Ec. cbn [bind]. unfold gbt_getitem. rewrite rt_block by assumption. cbn [bind].
  exists {| gb_box := gbox_crop (gb_box g) (mk_roi (block_region (gb_tiles g) ((y1, y2 + 1), (x1, x2 + 1))));
            gb_tiles := t' |}, y1, y2, x1, x2.
  split; [reflexivity|]. split; [exact V|]. split; [|exact F].
  unfold gbt_crop. rewrite rt_block by assumption. cbn [bind]. rewrite Ecrop. reflexivity.
Qed.

(** * Statements in the form used by Props/C04.v *)
Lemma rt_base_inv t NY NX : rt_wf t -> rt_base t = Ok (NY, NX) -> ax_N (rt_y t) = NY /\ ax_N (rt_x t) = NX.
Proof. intros W H. rewrite rt_base_axes in H by assumption. inversion H. auto. Qed.

Lemma tiles_init_inv base tile t :
  0 < fst tile -> 0 < snd tile -> 0 <= fst base -> 0 <= snd base -> tiles_init base tile = Ok t ->
  rt_wf (RReg t) /\ t_base t = base /\ t_tile t = tile /\
  t_shape t = (cdiv (fst base) (fst tile), cdiv (snd base) (snd tile)).
Proof.
  intros H1 H2 H3 H4 E. destruct (tiles_init_wf base tile H1 H2 H3 H4) as (t' & E' & R).
  rewrite E in E'. inversion E'; subst t'. exact R.
Qed.

Lemma tiles_init_err base tile : tiles_init base tile = Err EOther <-> fst tile = 0 \/ snd tile = 0.
Proof.
  unfold tiles_init. destruct (Z.eqb_spec (fst tile) 0); destruct (Z.eqb_spec (snd tile) 0); cbn [orb];
    split; intros H; try reflexivity; try discriminate; tauto.
Qed.

Lemma vt_init_inv chy chx v :
  nonneg chy -> nonneg chx -> sumZ chy < two63 -> sumZ chx < two63 -> vt_init chy chx = Ok v ->
  rt_wf (RVar v) /\ rt_shape (RVar v) = (len chy, len chx) /\
  rt_base (RVar v) = Ok (sumZ chy, sumZ chx) /\ rt_chunks (RVar v) = Ok (chy, chx) /\
  (forall i, 0 <= i <= len chy -> By (RVar v) i = sumZ (firstn (Z.to_nat i) chy)) /\
  (forall j, 0 <= j <= len chx -> Bx (RVar v) j = sumZ (firstn (Z.to_nat j) chx)).
Proof.
  intros Ny Nx Ty Tx E. rewrite sumZ_tot in Ty, Tx.
  destruct (vt_init_wf chy chx Ny Nx Ty Tx) as (v' & E' & W & Oy & Ox).
  rewrite E in E'. inversion E'; subst v'. split; [exact W|].
  pose proof W as (Wy & Wx). cbn [rt_y rt_x] in Wy, Wx.
  split; [|split; [|split; [|split]]].
  - cbn [rt_shape]. unfold vt_shape. rewrite Oy, Ox, !len_offsets. f_equal; lia.
  - rewrite rt_base_axes by assumption. cbn [rt_y rt_x].
    rewrite (ax_N_var _ Wy), (ax_N_var _ Wx), Oy, Ox, !diffs_psum, !sumZ_tot. reflexivity.
  - cbn [rt_chunks]. unfold vt_chunks. rewrite Oy, Ox, !diffs_psum. reflexivity.
  - intros i Hi. unfold By. cbn [rt_y ax_B]. rewrite Oy, nthZ_offsets by assumption.
    rewrite sumZ_tot. reflexivity.
  - intros j Hj. unfold Bx. cbn [rt_x ax_B]. rewrite Ox, nthZ_offsets by assumption.
    rewrite sumZ_tot. reflexivity.
Qed.

Lemma vt_init_overflow chy chx : forallb fits64 chy = false \/ forallb fits64 chx = false ->
  vt_init chy chx = Err EOther.
Proof.
  intros H. unfold vt_init, vt_offsets.
  destruct (forallb fits64 chy); destruct (forallb fits64 chx); cbn [bind]; try reflexivity.
  destruct H; discriminate.
Qed.

Lemma rt_cover_exact t NY NX y x : rt_wf t -> rt_base t = Ok (NY, NX) ->
  (0 <= y < NY /\ 0 <= x < NX) <-> exists rc, in_grid t rc /\ in_roi (tile_region t rc) (y, x).
Proof.
  intros W B. destruct (rt_base_inv t NY NX W B) as (<- & <-). split.
  - intros (Hy & Hx). destruct (rt_partition t y x W Hy Hx) as (rc & _ & G & P & _). exists rc; auto.
  - intros (rc & G & (P1 & P2)). pose proof (rt_region_inside t rc W G) as RI. cbv zeta in RI.
    cbn [fst snd] in *. lia.
Qed.

Lemma rt_disjoint t rc rc' p : rt_wf t -> in_grid t rc -> in_grid t rc' ->
  in_roi (tile_region t rc) p -> in_roi (tile_region t rc') p -> rc = rc'.
Proof.
  intros W G G' P P'. destruct p as (y, x).
  pose proof (rt_region_inside t rc W G) as RI. cbv zeta in RI.
  assert (Hy : 0 <= y < ax_N (rt_y t)) by (destruct P as (P1 & _); cbn [fst snd] in *; lia).
  assert (Hx : 0 <= x < ax_N (rt_x t)) by (destruct P as (_ & P2); cbn [fst snd] in *; lia).
  destruct (rt_partition t y x W Hy Hx) as (r0 & _ & _ & _ & U).
  rewrite (U rc G P), (U rc' G' P'). reflexivity.
Qed.

(** regular tiles are never empty; variable tiles are as wide as their chunk *)
Lemma reg_tile_nonempty t rc : rt_wf (RReg t) -> in_grid (RReg t) rc ->
  let r := tile_region (RReg t) rc in fst (fst r) < snd (fst r) /\ fst (snd r) < snd (snd r).
Proof.
  intros (Wy & Wx) (G1 & G2). cbv zeta. unfold tile_region, By, Bx. cbn [fst snd rt_shape rt_y rt_x] in *.
  split; apply ax_reg_strict; assumption.
Qed.

Lemma rt_crop_getitem t blk t' i j : rt_wf t -> valid_block t blk ->
  rt_crop t (mk_roi blk) = Ok t' -> in_grid t' (i, j) ->
  exists r', rt_getitem t' (int_idx (i, j)) = Ok r' /\
             rt_getitem t (int_idx (fst (fst blk) + i, fst (snd blk) + j)) =
               Ok (shift_roi r' (By t (fst (fst blk)), Bx t (fst (snd blk)))).
Proof.
  intros W V E G. destruct (rt_crop_spec t blk W V) as (t2 & E2 & W2 & _).
  rewrite E in E2. inversion E2; subst t2.
  destruct (rt_crop_tiles t blk t' i j W V E G) as (G' & R). cbv zeta in R.
  exists (tile_region t' (i, j)). split; [apply rt_index_grid; assumption|].
  rewrite rt_index_grid by assumption. rewrite R. reflexivity.
Qed.

Lemma clip_tiles_tiles t p r t' roi new : rt_wf t -> Forall (in_grid t) (p :: r) ->
  clip_tiles t (p :: r) = Ok (t', roi, new) ->
  valid_block t roi /\ rt_crop t (mk_roi roi) = Ok t' /\
  new = map (fun yx => (fst yx - fst (fst roi), snd yx - fst (snd roi))) (p :: r) /\
  In (fst (fst roi)) (map fst (p :: r)) /\ In (snd (fst roi) - 1) (map fst (p :: r)) /\
  In (fst (snd roi)) (map snd (p :: r)) /\ In (snd (snd roi) - 1) (map snd (p :: r)) /\
  Forall (fun yx =>
            let n := (fst yx - fst (fst roi), snd yx - fst (snd roi)) in
            in_grid t' n /\
            exists r', rt_getitem t' (int_idx n) = Ok r' /\
                       rt_getitem t (int_idx yx) =
                         Ok (shift_roi r' (By t (fst (fst roi)), Bx t (fst (snd roi))))) (p :: r).
Proof.
  intros W G E.
  destruct (clip_tiles_spec t p r W G) as (t2 & y1 & y2 & x1 & x2 & E2 & V & Ec & F & I1 & I2 & I3 & I4).
  rewrite E in E2. inversion E2; subst t' roi new. clear E2. cbn [fst snd].
  split; [exact V|]. split; [exact Ec|]. split; [reflexivity|].
  replace (y2 + 1 - 1) with y2 by lia. replace (x2 + 1 - 1) with x2 by lia.
  split; [exact I1|]. split; [exact I2|]. split; [exact I3|]. split; [exact I4|].
  destruct (rt_crop_spec t _ W V) as (t3 & E3 & W3 & S3 & _). rewrite Ec in E3. inversion E3; subst t3.
  cbn [fst snd] in S3.
  rewrite Forall_forall in *. intros yx Hyx. specialize (F yx Hyx). cbv zeta.
  assert (G2 : in_grid t2 (fst yx - y1, snd yx - x1)) by (unfold in_grid; rewrite S3; cbn [fst snd]; lia).
  split; [exact G2|].
  destruct (rt_crop_getitem t _ t2 _ _ W V Ec G2) as (r' & Er & Et). cbn [fst snd] in Et.
  exists r'. split; [exact Er|].
  replace (y1 + (fst yx - y1)) with (fst yx) in Et by lia.
  replace (x1 + (snd yx - x1)) with (snd yx) in Et by lia.
  destruct yx; exact Et.
Qed.

Lemma gbt_chunk_shape_spec g rc gb : rt_wf (gb_tiles g) -> in_grid (gb_tiles g) rc ->
  gbt_getitem g (int_idx rc) = Ok gb -> gbt_chunk_shape g rc = Ok (g_ny gb, g_nx gb).
Proof.
  intros W G E. rewrite gbt_tile in E by assumption. inversion E; subst gb. clear E.
  unfold gbt_chunk_shape. destruct rc as (r, c). destruct G as (G1 & G2). cbn [fst snd] in *.
  rewrite rt_tile_shape_spec by (try assumption; lia). cbv zeta.
  destruct (in_range_grid _ _ G1) as (-> & ->). destruct (in_range_grid _ _ G2) as (-> & ->).
  reflexivity.
Qed.

Lemma gbt_clip_tiles g p r g' new : rt_wf (gb_tiles g) -> Forall (in_grid (gb_tiles g)) (p :: r) ->
  gbt_clip g (p :: r) = Ok (g', new) ->
  exists o, new = map (fun yx => (fst yx - fst o, snd yx - snd o)) (p :: r) /\
    Forall (fun yx => let n := (fst yx - fst o, snd yx - snd o) in
                      in_grid (gb_tiles g') n /\
                      gbt_getitem g' (int_idx n) = gbt_getitem g (int_idx yx)) (p :: r).
Proof.
  intros W G E.
  destruct (gbt_clip_spec g p r W G) as (g2 & y1 & y2 & x1 & x2 & E2 & V & Ec & F).
  rewrite E in E2. inversion E2; subst g' new. clear E2.
  exists (y1, x1). cbn [fst snd]. split; [reflexivity|].
  destruct (gbt_crop_spec g _ W V) as (g3 & E3 & _ & Ct & W3). rewrite Ec in E3. inversion E3; subst g3.
  destruct (rt_crop_spec _ _ W V) as (t3 & E4 & _ & S3 & _). rewrite Ct in E4. inversion E4; subst t3.
  cbn [fst snd] in S3.
  rewrite Forall_forall in *. intros yx Hyx. specialize (F yx Hyx). cbv zeta.
  assert (G2 : in_grid (gb_tiles g2) (fst yx - y1, snd yx - x1))
    by (unfold in_grid; rewrite S3; cbn [fst snd]; lia).
  split; [exact G2|].
  rewrite (gbt_crop_tiles g _ g2 _ _ W V Ec G2). cbn [fst snd].
  replace (y1 + (fst yx - y1)) with (fst yx) by lia.
  replace (x1 + (snd yx - x1)) with (snd yx) by lia. destruct yx; reflexivity.
Qed.

(** an empty base: no tiles, every lookup is an IndexError *)
Lemma reg_empty_base t ty tx NX : 0 < ty -> 0 < tx -> 0 <= NX -> tiles_init (0, NX) (ty, tx) = Ok t ->
  fst (t_shape t) = 0 /\
  (forall r c, tiles_getitem t (int_idx (r, c)) = Err EIndex) /\
  (forall p, tiles_locate t p = Err EIndex) /\
  tiles_chunks t = Err EIndex.
Proof.
  intros Hy Hx HN E.
  destruct (tiles_init_inv (0, NX) (ty, tx) t Hy Hx ltac:(cbn; lia) HN E) as (W & Eb & Et & Es).
  cbn [fst snd] in Es. rewrite cdiv_zero in Es by assumption.
  split; [rewrite Es; reflexivity|]. split; [|split].
  - intros r c. change (tiles_getitem t (int_idx (r, c))) with (rt_getitem (RReg t) (int_idx (r, c))).
    rewrite rt_index by assumption. cbv zeta. cbn [rt_shape]. rewrite Es. cbn [fst].
    unfold in_range. destruct (Z.leb_spec (-0) r); destruct (Z.ltb_spec r 0); cbn [andb]; try reflexivity; lia.
  - intros (y, x). change (tiles_locate t (y, x)) with (rt_locate (RReg t) (y, x)).
    apply rt_locate_outside; [assumption|]. cbn [rt_y]. rewrite Eb, Et, Es. cbn [fst].
    unfold ax_N, ax_B, ax_S, regB. lia.
  - unfold tiles_chunks, tiles_tile_shape. rewrite Es, Eb, Et. cbn [fst snd]. reflexivity.
Qed.
