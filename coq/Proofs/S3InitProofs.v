(** C18 — invariants of the two initiation protocols of Model/S3Init.v, for
    every interleaving of any number of threads. *)
From Coq Require Import ZArith List Bool Lia Arith.
From OG Require Import Base.Result Base.Threads Model.S3Init.
Import ListNotations.
Open Scope Z_scope.

Definition progs_ok (progs : list (list op)) : Prop := Forall (Forall op_ok) progs.

Lemma count_ops_cons k o r :
  count_ops k (o :: r) = ((if bool_eqb (opk o) k then 1 else 0) + count_ops k r)%nat.
Proof. unfold count_ops; simpl. destruct (bool_eqb (opk o) k); simpl; lia. Qed.

Lemma count_ops_app k a b : count_ops k (a ++ b) = (count_ops k a + count_ops k b)%nat.
Proof. unfold count_ops. rewrite filter_app, app_length. reflexivity. Qed.

(* ====================================================================== *)
Section LocalProofs.
  Variable new_id : nat -> Z.
  Hypothesis new_id_nonempty : forall k, new_id k <> 0.
  Let id0 := new_id 0%nat.

  Definition l_locked (pc : lpc) : bool :=
    match pc with
    | LpRecheck | LpAssertInit | LpCreate | LpStore _ | LpRelease _ => true
    | _ => false
    end.

  (** what the program counter of thread [t] implies about the shared state *)
  Definition l_pc_ok (sh : lshared) (t : nat) (pc : lpc) : Prop :=
    (l_locked pc = true -> l_lock sh = Some t) /\
    match pc with
    | LpStarted | LpRegGet | LpNewLock | LpRegSet | LpAcquire | LpDone => True
    | LpRecheck => (l_uid sh = 0 /\ l_creates sh = 0%nat) \/ (l_uid sh = id0 /\ l_creates sh = 1%nat)
    | LpAssertInit | LpCreate => l_uid sh = 0 /\ l_creates sh = 0%nat
    | LpStore id => id = id0 /\ l_uid sh = 0 /\ l_creates sh = 1%nat
    | LpRelease e => e = None /\ l_uid sh = id0 /\ l_creates sh = 1%nat
    | LpBodyAssert | LpBodyRead => l_uid sh = id0 /\ l_creates sh = 1%nat
    | LpBodyCall id => id = id0 /\ l_uid sh = id0 /\ l_creates sh = 1%nat
    | LpErr _ => False
    end.

  Definition l_shared_ok (sh : lshared) : Prop :=
    (l_uid sh = 0 /\ l_creates sh = 0%nat) \/
    (l_uid sh = 0 /\ l_creates sh = 1%nat /\ l_lock sh <> None) \/
    (l_uid sh = id0 /\ l_creates sh = 1%nat).

  Definition l_log_ok (sh : lshared) : Prop :=
    Forall (fun c => call_id c = id0) (l_log sh) /\
    count_creates (l_log sh) = l_creates sh /\
    (l_creates sh = 0%nat -> l_log sh = []).

  Definition l_pending (k : bool) (th : lthread) : nat :=
    match l_pc th with
    | LpDone | LpErr _ => 0
    | _ => (if bool_eqb (opk (l_cur th)) k then 1 else 0) + count_ops k (l_rest th)
    end%nat.

  Record l_inv (progs : list (list op)) (s : lstate) : Prop := {
    li_shared : l_shared_ok (fst s);
    li_log : l_log_ok (fst s);
    li_threads : forall t th, nth_error (snd s) t = Some th ->
                              l_pc_ok (fst s) t (l_pc th) /\ Forall op_ok (l_rest th);
    li_lock : forall t, l_lock (fst s) = Some t ->
                        exists th, nth_error (snd s) t = Some th /\ l_locked (l_pc th) = true;
    li_count : forall k, (sumf (l_pending k) (snd s) + count_calls k (l_log (fst s)))%nat
                         = count_ops k (concat progs) }.

  Lemma l_load_ok ops :
    Forall op_ok ops ->
    (l_pc (l_load ops) = LpDone \/ l_pc (l_load ops) = LpStarted) /\
    Forall op_ok (l_rest (l_load ops)) /\
    forall k, l_pending k (l_load ops) = count_ops k ops.
  Proof.
    intros H. destruct ops as [|o r]; simpl.
    - repeat split; auto.
    - inversion H as [|? ? Ho Hr]; subst.
      destruct o as [p|n]; simpl in *.
      + repeat split; auto. intros k. rewrite count_ops_cons. reflexivity.
      + assert (E : (0 <? n) = true) by (apply Z.ltb_lt; exact Ho).
        rewrite E; simpl. repeat split; auto. intros k. rewrite count_ops_cons. reflexivity.
  Qed.

  Lemma l_inv_init reg0 progs : progs_ok progs -> l_inv progs (l_init reg0 progs).
  Proof.
    intros Hp. unfold l_init. constructor; simpl.
    - left; split; reflexivity.
    - unfold l_log_ok; simpl. repeat split; auto.
    - intros t th H. apply nth_error_map_some in H. destruct H as (p & Hp' & ->).
      assert (Hok : Forall op_ok p).
      { eapply Forall_forall in Hp; eauto. eapply nth_error_In; eauto. }
      destruct (l_load_ok p Hok) as ([E|E] & Hr & _); rewrite E;
        (split; [split; simpl; [discriminate | exact I] | exact Hr]).
    - discriminate.
    - intros k. unfold count_calls; simpl. rewrite Nat.add_0_r.
      induction Hp as [|p progs Hp0 Hp IH]; simpl; auto.
      rewrite count_ops_app, IH. destruct (l_load_ok p Hp0) as (_ & _ & E). rewrite E. reflexivity.
  Qed.

  (** the stepping thread and the shared state *)
  Lemma l_step1_own sh t th :
    l_shared_ok sh -> l_log_ok sh -> l_pc_ok sh t (l_pc th) -> Forall op_ok (l_rest th) ->
    match l_step1 new_id true t sh th with
    | Some (_, sh', th') =>
        l_shared_ok sh' /\ l_log_ok sh' /\ l_pc_ok sh' t (l_pc th') /\ Forall op_ok (l_rest th')
    | None => True
    end.
  Proof.
    pose proof (new_id_nonempty 0%nat) as Hid. fold id0 in Hid.
    destruct sh as [uid lock creates log reg]; destruct th as [pc cur rest].
    unfold l_shared_ok, l_log_ok, l_pc_ok; simpl.
    intros Hsh (Hl1 & Hl2 & Hl3) (Hlk & Hpc) Hrest.
    destruct pc; simpl in *; auto.
    - (* Started *)
      destruct (Z.eqb_spec uid 0); simpl.
      + repeat split; auto; discriminate.
      + repeat split; auto; try discriminate; intuition congruence.
    - (* RegGet *)
      destruct reg; simpl; repeat split; auto; try discriminate.
    (* NewLock, RegSet: closed by [auto] *)
    - (* Acquire *)
      destruct lock; [exact I|]. simpl.
      repeat split; auto.
      + destruct Hsh as [?|[(?&?&?)|?]]; auto. congruence.
      + destruct Hsh as [?|[(?&?&?)|?]]; auto. congruence.
    - (* Recheck *)
      destruct (Z.eqb_spec uid 0); simpl.
      + repeat split; auto; destruct Hpc as [(?&?)|(?&?)]; auto; congruence.
      + repeat split; auto; destruct Hpc as [(?&?)|(?&?)]; auto; congruence.
    - (* AssertInit *)
      destruct Hpc as (-> & ->). simpl. repeat split; auto.
    - (* Create *)
      destruct Hpc as (-> & ->). simpl.
      rewrite (Hl3 eq_refl) in *. simpl.
      repeat split; auto.
      + right; left. repeat split; auto. rewrite Hlk by reflexivity. discriminate.
      + discriminate.
    - (* Store *)
      destruct Hpc as (-> & -> & ->). repeat split; auto; try discriminate.
    - (* Release *)
      destruct Hpc as (-> & -> & ->). simpl. repeat split; auto; discriminate.
    - (* BodyAssert *)
      destruct Hpc as (-> & ->).
      destruct (Z.eqb_spec id0 0); [congruence|]. simpl. repeat split; auto; discriminate.
    - (* BodyRead *)
      destruct Hpc as (-> & ->). repeat split; auto; discriminate.
    - (* BodyCall *)
      destruct Hpc as (-> & -> & ->).
      destruct (l_load_ok rest Hrest) as (Hpc' & Hr' & _).
      repeat split; auto.
      + constructor; auto. destruct cur; reflexivity.
      + unfold count_creates in *; simpl. destruct cur; simpl; auto.
      + discriminate.
      + destruct Hpc' as [E|E]; rewrite E; discriminate.
      + destruct Hpc' as [E|E]; rewrite E; exact I.
  Qed.

  (** every other thread's view stays valid *)
  Lemma l_step1_others sh t th t' pc' :
    l_pc_ok sh t (l_pc th) -> t' <> t -> l_pc_ok sh t' pc' ->
    match l_step1 new_id true t sh th with
    | Some (_, sh', _) => l_pc_ok sh' t' pc'
    | None => True
    end.
  Proof.
    pose proof (new_id_nonempty 0%nat) as Hid. fold id0 in Hid.
    destruct sh as [uid lock creates log reg]; destruct th as [pc cur rest].
    unfold l_pc_ok; simpl.
    intros (Hlk & Hpc) Hne (Hlk' & Hpc').
    assert (Hex : l_locked pc = true -> l_locked pc' = true -> False).
    { intros A B. specialize (Hlk A). specialize (Hlk' B). congruence. }
    destruct pc; simpl in *; auto;
      try (destruct lock; [exact I|]); simpl;
      destruct pc'; simpl in *; try (exfalso; apply Hex; reflexivity);
      try (split; [try (intros; discriminate); try assumption | try exact I; try assumption]);
      try (intros A; specialize (Hlk' A); discriminate);
      intuition (try congruence; try lia).
  Qed.

  Lemma l_step1_locked sh t th :
    match l_step1 new_id true t sh th with
    | Some (_, sh', th') =>
        (l_lock sh' = l_lock sh /\ (l_locked (l_pc th) = true -> l_locked (l_pc th') = true)) \/
        (l_lock sh = None /\ l_lock sh' = Some t /\ l_locked (l_pc th') = true) \/
        (l_lock sh' = None)
    | None => True
    end.
  Proof.
    destruct sh as [uid lock creates log reg]; destruct th as [pc cur rest]; simpl.
    destruct pc; simpl; auto;
      try (destruct lock; [exact I|]); simpl; auto;
      try (left; split; [reflexivity|]; try discriminate; destruct (uid =? 0); auto).
  Qed.

  Lemma l_step1_count k sh t th :
    Forall op_ok (l_rest th) ->
    match l_step1 new_id true t sh th with
    | Some (_, sh', th') =>
        (l_pending k th' + count_calls k (l_log sh'))%nat = (l_pending k th + count_calls k (l_log sh))%nat
        \/ (exists e, l_pc th' = LpErr e)
    | None => True
    end.
  Proof.
    destruct sh as [uid lock creates log reg]; destruct th as [pc cur rest]; simpl.
    intros Hrest.
    destruct pc; simpl in *; auto;
      try (destruct lock; [exact I|]); simpl; auto;
      unfold l_pending; simpl; auto.
    - destruct (uid =? 0); simpl; auto.
    - destruct reg; simpl; auto.
    - destruct (uid =? 0); simpl; auto.
    - destruct (uid =? 0); simpl; auto.
    - destruct e; simpl; eauto.
    - destruct (uid =? 0); simpl; eauto.
    - left. destruct (l_load_ok rest Hrest) as (_ & _ & E). unfold l_pending in E. rewrite E.
      unfold count_calls; destruct cur, k; simpl; lia.
  Qed.

  Lemma l_step_inv progs s t lb s' :
    l_inv progs s -> l_step new_id true s t = Some (lb, s') -> l_inv progs s'.
  Proof.
    intros [Hsh Hlog Hth Hlock Hcnt] Hstep.
    destruct s as [sh ths]. unfold l_step in Hstep; simpl in *.
    destruct (nth_error ths t) as [th|] eqn:Et; [|discriminate].
    destruct (l_step1 new_id true t sh th) as [[[lb0 sh0] th0]|] eqn:E1; [|discriminate].
    inversion Hstep; subst; clear Hstep.
    destruct (Hth _ _ Et) as (Hpc & Hrest).
    pose proof (l_step1_own _ t _ Hsh Hlog Hpc Hrest) as Hown. rewrite E1 in Hown.
    destruct Hown as (Hsh' & Hlog' & Hpc' & Hrest').
    constructor; simpl; auto.
    - intros t' th' H. apply nth_error_upd_inv in H. destruct H as [(-> & ->)|(Hne & H)]; auto.
      destruct (Hth _ _ H) as (Hp & Hr). split; auto.
      pose proof (l_step1_others _ _ _ _ _ Hpc Hne Hp) as Ho. rewrite E1 in Ho. exact Ho.
    - intros x Hx.
      pose proof (l_step1_locked sh t th) as Hl. rewrite E1 in Hl.
      destruct Hl as [(El & Hk)|[(_ & El & Hk)|El]].
      + rewrite El in Hx. destruct (Hlock _ Hx) as (thx & Hnx & Hlx).
        destruct (Nat.eq_dec x t) as [->|Hne].
        * exists th0. split; [eapply nth_error_upd_eq; eauto|].
          rewrite Et in Hnx; inversion Hnx; subst; auto.
        * exists thx. split; auto. rewrite nth_error_upd_neq; auto.
      + rewrite El in Hx; inversion Hx; subst.
        exists th0; split; auto. eapply nth_error_upd_eq; eauto.
      + congruence.
    - intros k. specialize (Hcnt k).
      pose proof (sumf_upd (l_pending k) ths t th0 th Et) as Hs.
      pose proof (l_step1_count k sh t th Hrest) as Hc0. rewrite E1 in Hc0.
      destruct Hc0 as [Hc|(e & He)].
      + lia.
      + destruct Hpc' as (_ & Hf). rewrite He in Hf. contradiction.
  Qed.

  Lemma l_reach_inv reg0 progs s :
    progs_ok progs -> l_reach new_id true reg0 progs s -> l_inv progs s.
  Proof.
    intros Hp H; induction H.
    - apply l_inv_init; auto.
    - eapply l_step_inv; eauto.
  Qed.

  Lemma l_run_reach reg0 progs s sched lbs s' :
    l_reach new_id true reg0 progs s -> l_run new_id true s sched = Some (lbs, s') ->
    l_reach new_id true reg0 progs s'.
  Proof.
    revert s lbs; induction sched as [|t r IH]; simpl; intros s lbs Hr H.
    - inversion H; subst; auto.
    - destruct (l_step new_id true s t) as [[lb s1]|] eqn:E; [|discriminate].
      destruct (l_run new_id true s1 r) as [[lbs1 s2]|] eqn:E2; [|discriminate].
      inversion H; subst. eapply IH; [|eauto]. econstructor; eauto.
  Qed.

  (** ** consequences *)

  Lemma l_creates_le_1 progs s : l_inv progs s -> (l_creates (fst s) <= 1)%nat.
  Proof. intros [H _ _ _ _]. destruct H as [(_&->)|[(_&->&_)|(_&->)]]; lia. Qed.

  Lemma l_no_error progs s t th :
    l_inv progs s -> nth_error (snd s) t = Some th -> l_failed th = false.
  Proof.
    intros [_ _ H _ _] Ht. destruct (H _ _ Ht) as ((_ & Hp) & _).
    unfold l_failed. destruct (l_pc th); auto. contradiction.
  Qed.

  Lemma l_calls_ok progs s :
    l_inv progs s ->
    count_creates (l_log (fst s)) = l_creates (fst s) /\
    forall c, In c (l_log (fst s)) ->
      call_id c = id0 /\ In (KCreate id0) (l_log (fst s)).
  Proof.
    intros Hi. pose proof (l_creates_le_1 _ _ Hi) as Hle.
    destruct Hi as [_ (Hall & Hcnt & Hnil) _ _ _]. split; auto.
    intros c Hc. split; [eapply Forall_forall in Hall; eauto|].
    assert (Hcr : l_creates (fst s) = 1%nat).
    { destruct (l_creates (fst s)) as [|[|n]]; auto; [|lia].
      rewrite (Hnil eq_refl) in Hc. contradiction. }
    rewrite Hcr in Hcnt. clear - Hcnt Hall.
    induction (l_log (fst s)) as [|a l IH]; simpl in *; [discriminate|].
    inversion Hall; subst.
    destruct a; simpl in *; auto.
    left. congruence.
  Qed.

  Lemma l_all_done_counts progs s :
    l_inv progs s -> l_all_done s ->
    forall k, count_calls k (l_log (fst s)) = count_ops k (concat progs).
  Proof.
    intros Hi Hd k. destruct Hi as [_ _ _ _ Hc]. specialize (Hc k).
    rewrite sumf_zero in Hc; auto.
    intros th Hin. unfold l_pending. rewrite (Hd _ Hin). reflexivity.
  Qed.

  Lemma l_all_done_one_create progs s :
    l_inv progs s -> l_all_done s -> concat progs <> [] -> l_creates (fst s) = 1%nat.
  Proof.
    intros Hi Hd Hne. pose proof (l_creates_le_1 _ _ Hi) as Hle.
    pose proof (l_all_done_counts _ _ Hi Hd) as Hc.
    destruct Hi as [_ (_ & _ & Hnil) _ _ _].
    destruct (l_creates (fst s)) as [|[|n]]; auto; [|lia].
    exfalso. rewrite (Hnil eq_refl) in Hc.
    destruct (concat progs) as [|o r]; [congruence|].
    specialize (Hc (opk o)). rewrite count_ops_cons in Hc.
    unfold count_calls in Hc; simpl in Hc.
    destruct (opk o); simpl in Hc; discriminate.
  Qed.

  (** progress: the lock is always held by a thread that can run, so while some
      thread is unfinished some thread is enabled *)
  Lemma l_progress progs s t th :
    l_inv progs s -> nth_error (snd s) t = Some th -> l_finished th = false ->
    exists t' lb s', l_step new_id true s t' = Some (lb, s').
  Proof.
    intros Hi Ht Hf. destruct s as [sh ths]; simpl in *.
    assert (Hen : forall x thx, nth_error ths x = Some thx -> l_finished thx = false ->
                  (l_pc thx = LpAcquire -> l_lock sh = None) ->
                  exists lb s', l_step new_id true (sh, ths) x = Some (lb, s')).
    { intros x thx Hx Hfx Hacq. unfold l_step; simpl. rewrite Hx.
      destruct sh as [uid lock creates log reg]; destruct thx as [pc cur rest]; simpl in *.
      unfold l_finished in Hfx; simpl in Hfx.
      destruct pc; simpl; try discriminate; eauto.
      rewrite (Hacq eq_refl). eauto. }
    destruct (l_lock sh) as [h|] eqn:El.
    - destruct (li_lock _ _ Hi h El) as (thh & Hh & Hlk). simpl in *.
      exists h. apply (Hen _ _ Hh).
      + unfold l_finished. destruct (l_pc thh); simpl in *; auto; discriminate.
      + intros E. rewrite E in Hlk. discriminate.
    - exists t. apply (Hen _ _ Ht Hf). auto.
  Qed.
End LocalProofs.

(* ====================================================================== *)
Definition cprogs_ok (progs : list (nat * list op)) : Prop :=
  Forall (fun p => Forall op_ok (snd p)) progs.

Section ClusterProofs.
  Variable new_id : nat -> Z.
  Hypothesis new_id_nonempty : forall k, new_id k <> 0.
  Let id0 := new_id 0%nat.

  Definition c_locked (pc : cpc) : bool :=
    match pc with
    | CpVarGet2 | CpSetUid2 _ | CpAssertInit | CpCreate | CpStore _ | CpReadForVar
    | CpVarSet _ | CpRelease _ => true
    | _ => false
    end.

  Definition all0 (sh : cshared) : Prop := forall w, c_uids sh w = 0.

  Definition c_pc_ok (sh : cshared) (t w : nat) (pc : cpc) : Prop :=
    (c_locked pc = true -> c_lock sh = Some t) /\
    match pc with
    | CpStarted | CpVarGet1 | CpAcquire | CpDelete | CpDone => True
    | CpSetUid1 id => id = id0 /\ c_creates sh = 1%nat
    | CpVarGet2 => (c_var sh = None /\ c_creates sh = 0%nat /\ all0 sh) \/
                   (c_var sh = Some id0 /\ c_creates sh = 1%nat)
    | CpSetUid2 id => id = id0 /\ c_creates sh = 1%nat /\ c_var sh = Some id0
    | CpAssertInit | CpCreate => c_var sh = None /\ c_creates sh = 0%nat /\ all0 sh
    | CpStore id => id = id0 /\ c_creates sh = 1%nat /\ c_var sh = None
    | CpReadForVar => c_uids sh w = id0 /\ c_creates sh = 1%nat /\ c_var sh = None
    | CpVarSet v => v = id0 /\ c_uids sh w = id0 /\ c_creates sh = 1%nat
    | CpRelease k => (k = KBody \/ k = KPost) /\ c_uids sh w = id0 /\ c_creates sh = 1%nat /\
                     c_var sh = Some id0
    | CpPostAssert | CpBodyAssert | CpBodyRead => c_uids sh w = id0 /\ c_creates sh = 1%nat
    | CpBodyCall id => id = id0 /\ c_uids sh w = id0 /\ c_creates sh = 1%nat
    | CpErr _ => False
    end.

  Definition c_shared_ok (sh : cshared) : Prop :=
    (forall w, c_uids sh w = 0 \/ (c_uids sh w = id0 /\ c_creates sh = 1%nat)) /\
    match c_var sh with
    | Some v => v = id0 /\ c_creates sh = 1%nat
    | None => (c_creates sh = 0%nat /\ all0 sh) \/ (c_creates sh = 1%nat /\ c_lock sh <> None)
    end.

  Definition c_log_ok (sh : cshared) : Prop :=
    Forall (fun c => call_id c = id0) (c_log sh) /\
    count_creates (c_log sh) = c_creates sh /\
    (c_creates sh = 0%nat -> c_log sh = []).

  Definition c_pending (k : bool) (th : cthread) : nat :=
    match c_pc th with
    | CpDone | CpErr _ => 0
    | CpDelete => count_ops k (c_rest th)
    | _ => (if bool_eqb (opk (c_cur th)) k then 1 else 0) + count_ops k (c_rest th)
    end%nat.

  Record c_inv (progs : list (nat * list op)) (s : cstate) : Prop := {
    ci_shared : c_shared_ok (fst s);
    ci_log : c_log_ok (fst s);
    ci_threads : forall t th, nth_error (snd s) t = Some th ->
                              c_pc_ok (fst s) t (c_wk th) (c_pc th) /\ Forall op_ok (c_rest th);
    ci_lock : forall t, c_lock (fst s) = Some t ->
                        exists th, nth_error (snd s) t = Some th /\ c_locked (c_pc th) = true;
    ci_count : forall k, (sumf (c_pending k) (snd s) + count_calls k (c_log (fst s)))%nat
                         = count_ops k (concat (map snd progs)) }.

  Lemma c_load_ok w ops :
    Forall op_ok ops ->
    (c_pc (c_load w ops) = CpDone \/ c_pc (c_load w ops) = CpStarted) /\
    Forall op_ok (c_rest (c_load w ops)) /\ c_wk (c_load w ops) = w /\
    forall k, c_pending k (c_load w ops) = count_ops k ops.
  Proof.
    intros H. destruct ops as [|o r]; simpl.
    - repeat split; auto.
    - inversion H as [|? ? Ho Hr]; subst.
      destruct o as [p|n]; simpl in *.
      + repeat split; auto. intros k. rewrite count_ops_cons. reflexivity.
      + assert (E : (0 <? n) = true) by (apply Z.ltb_lt; exact Ho).
        rewrite E; simpl. repeat split; auto. intros k. rewrite count_ops_cons. reflexivity.
  Qed.

  Lemma c_inv_init progs : cprogs_ok progs -> c_inv progs (c_init progs).
  Proof.
    intros Hp. unfold c_init, c_init_var. constructor; simpl.
    - split; [intros w; left; reflexivity|]. simpl. left; split; [reflexivity|intros w; reflexivity].
    - unfold c_log_ok; simpl. repeat split; auto.
    - intros t th H. apply nth_error_map_some in H. destruct H as (p & Hp' & ->).
      assert (Hok : Forall op_ok (snd p)).
      { eapply Forall_forall in Hp; eauto. eapply nth_error_In; eauto. }
      destruct (c_load_ok (fst p) (snd p) Hok) as ([E|E] & Hr & _ & _); rewrite E;
        (split; [split; simpl; [discriminate | exact I] | exact Hr]).
    - discriminate.
    - intros k. unfold count_calls; simpl. rewrite Nat.add_0_r.
      induction Hp as [|p progs Hp0 Hp IH]; simpl; auto.
      rewrite count_ops_app, IH. destruct (c_load_ok (fst p) (snd p) Hp0) as (_ & _ & _ & E).
      rewrite E. reflexivity.
  Qed.

  Lemma set_uid_same uids w v : set_uid uids w v w = v.
  Proof. unfold set_uid. rewrite Nat.eqb_refl. reflexivity. Qed.

  Lemma set_uid_keep uids w w' v : uids w' = v -> set_uid uids w v w' = v.
  Proof. unfold set_uid. destruct (Nat.eqb w' w); auto. Qed.

  Lemma set_uid_cases uids w w' v : set_uid uids w v w' = v \/ set_uid uids w v w' = uids w'.
  Proof. unfold set_uid. destruct (Nat.eqb w' w); auto. Qed.

  (** the stepping thread and the shared state (as long as the variable is not deleted) *)
  Lemma c_step1_own sh t th :
    c_shared_ok sh -> c_log_ok sh -> c_pc_ok sh t (c_wk th) (c_pc th) -> Forall op_ok (c_rest th) ->
    match c_step1 new_id t sh th with
    | Some (_, sh', th') =>
        c_deleted sh' = false ->
        c_shared_ok sh' /\ c_log_ok sh' /\ c_pc_ok sh' t (c_wk th') (c_pc th') /\
        Forall op_ok (c_rest th') /\ c_wk th' = c_wk th
    | None => True
    end.
  Proof.
    pose proof (new_id_nonempty 0%nat) as Hid. fold id0 in Hid.
    destruct sh as [uids var del lock creates log]; destruct th as [pc w cur rest].
    unfold c_shared_ok, c_log_ok, c_pc_ok, all0; simpl.
    intros (Hu & Hv) (Hl1 & Hl2 & Hl3) (Hlk & Hpc) Hrest.
    destruct pc; simpl in *; auto; try (destruct lock; [exact I|]); simpl; intros Hdel.
    - (* Started *)
      destruct (Z.eqb_spec (uids w) 0) as [E|E]; simpl.
      + repeat split; auto; discriminate.
      + destruct (Hu w) as [?|(?&?)]; [congruence|]. repeat split; auto; discriminate.
    - (* VarGet1 *)
      destruct var as [v|]; simpl; repeat split; auto; try discriminate; tauto.
    - (* SetUid1 *)
      destruct Hpc as (-> & ->).
      repeat split; auto; try discriminate.
      + intros w'. destruct (set_uid_cases uids w w' id0) as [E|E]; rewrite E; auto.
      + destruct var; auto. destruct Hv as [(?&?)|?]; [discriminate|auto].
      + apply set_uid_same.
    - (* Acquire *)
      destruct var as [v|].
      + destruct Hv as (-> & ->). repeat split; auto.
      + destruct Hv as [(-> & H0)|(_ & Hx)]; [|congruence]. repeat split; auto.
    - (* VarGet2 *)
      destruct var as [v|]; simpl.
      + destruct Hv as (-> & ->). repeat split; auto.
      + destruct Hpc as [(_ & ? & ?)|(? & _)]; [|discriminate]. repeat split; auto.
    - (* SetUid2 *)
      destruct Hpc as (-> & -> & ->).
      repeat split; auto.
      + intros w'. destruct (set_uid_cases uids w w' id0) as [E|E]; rewrite E; auto.
      + apply set_uid_same.
    - (* AssertInit *)
      destruct Hpc as (-> & -> & H0). rewrite (H0 w). simpl. repeat split; auto.
    - (* Create *)
      destruct Hpc as (-> & -> & H0). simpl.
      rewrite (Hl3 eq_refl) in *. simpl.
      repeat split; auto.
      + right. split; auto. rewrite Hlk by reflexivity. discriminate.
      + discriminate.
    - (* Store *)
      destruct Hpc as (-> & -> & ->).
      repeat split; auto; try discriminate.
      + intros w'. destruct (set_uid_cases uids w w' id0) as [E|E]; rewrite E; auto.
      + right. split; auto. rewrite Hlk by reflexivity. discriminate.
      + apply set_uid_same.
    - (* ReadForVar *)
      destruct Hpc as (E & -> & ->). rewrite E. repeat split; auto.
    - (* VarSet *)
      destruct Hpc as (-> & E & ->). repeat split; auto.
    - (* Release *)
      destruct Hpc as (Hk & E & -> & ->).
      destruct Hk as [->| ->]; simpl; repeat split; auto; discriminate.
    - (* PostAssert *)
      destruct Hpc as (E & ->). rewrite E.
      destruct (Z.eqb_spec id0 0); [congruence|]. simpl. repeat split; auto; discriminate.
    - (* BodyAssert *)
      destruct Hpc as (E & ->). rewrite E.
      destruct (Z.eqb_spec id0 0); [congruence|]. simpl. repeat split; auto; discriminate.
    - (* BodyRead *)
      destruct Hpc as (E & ->). rewrite E. repeat split; auto; discriminate.
    - (* BodyCall *)
      destruct Hpc as (-> & E & ->).
      destruct (c_load_ok w rest Hrest) as (Hpc' & Hr' & Hw' & _).
      assert (Hlog' : Forall (fun c => call_id c = id0) (body_call cur id0 :: log) /\
                      count_creates (body_call cur id0 :: log) = 1%nat /\
                      (1%nat = 0%nat -> body_call cur id0 :: log = [])).
      { repeat split.
        - constructor; auto. destruct cur; reflexivity.
        - unfold count_creates in *; simpl. destruct cur; simpl; auto.
        - discriminate. }
      destruct cur; simpl.
      + repeat split; auto; try apply Hlog'.
        * destruct Hpc' as [E'|E']; rewrite E'; discriminate.
        * destruct Hpc' as [E'|E']; rewrite E'; exact I.
      + repeat split; auto; try apply Hlog'; try discriminate.
    - (* Delete *)
      discriminate.
  Qed.

  (** every other thread's view stays valid *)
  Lemma c_step1_others sh t th t' w' pc' :
    c_pc_ok sh t (c_wk th) (c_pc th) -> t' <> t -> c_pc_ok sh t' w' pc' ->
    match c_step1 new_id t sh th with
    | Some (_, sh', _) => c_deleted sh' = false -> c_pc_ok sh' t' w' pc'
    | None => True
    end.
  Proof.
    pose proof (new_id_nonempty 0%nat) as Hid. fold id0 in Hid.
    destruct sh as [uids var del lock creates log]; destruct th as [pc w cur rest].
    unfold c_pc_ok, all0; simpl.
    intros (Hlk & Hpc) Hne (Hlk' & Hpc').
    assert (Hex : c_locked pc = true -> c_locked pc' = true -> False).
    { intros A B. specialize (Hlk A). specialize (Hlk' B). congruence. }
    assert (Hkeep : forall v, uids w' = v -> set_uid uids w v w' = v) by (intros; apply set_uid_keep; auto).
    destruct pc; simpl in *; auto;
      try (destruct lock; [exact I|]); simpl; intros Hdel; try discriminate;
      destruct pc'; simpl in *; try (exfalso; apply Hex; reflexivity);
      try (split; [try (intros; discriminate); try assumption | try exact I; try assumption]);
      try (intros A; specialize (Hlk' A); discriminate);
      try (destruct Hpc as (-> & Hpc));
      intuition (try congruence; try lia; try (apply Hkeep; assumption)).
  Qed.

  Lemma c_step1_locked sh t th :
    match c_step1 new_id t sh th with
    | Some (_, sh', th') =>
        (c_lock sh' = c_lock sh /\ (c_locked (c_pc th) = true -> c_locked (c_pc th') = true)) \/
        (c_lock sh = None /\ c_lock sh' = Some t /\ c_locked (c_pc th') = true) \/
        (c_lock sh' = None)
    | None => True
    end.
  Proof.
    destruct sh as [uids var del lock creates log]; destruct th as [pc w cur rest]; simpl.
    destruct pc; simpl; auto;
      try (destruct lock; [exact I|]); simpl; auto;
      try (left; split; [reflexivity|]; try discriminate;
           try destruct (uids w =? 0); try destruct var; auto).
  Qed.

  Lemma c_step1_count k sh t th :
    Forall op_ok (c_rest th) ->
    match c_step1 new_id t sh th with
    | Some (_, sh', th') =>
        (c_pending k th' + count_calls k (c_log sh'))%nat = (c_pending k th + count_calls k (c_log sh))%nat
        \/ (exists e, c_pc th' = CpErr e)
    | None => True
    end.
  Proof.
    destruct sh as [uids var del lock creates log]; destruct th as [pc w cur rest]; simpl.
    intros Hrest.
    destruct (c_load_ok w rest Hrest) as (_ & _ & _ & E). unfold c_pending in E.
    destruct pc; simpl in *; auto;
      try (destruct lock; [exact I|]); simpl; auto;
      unfold c_pending; simpl; auto;
      try (destruct (uids w =? 0); simpl; eauto; fail);
      try (destruct var; simpl; eauto; fail).
    - destruct k0; simpl; eauto.
    - left. destruct cur; simpl.
      + rewrite E. unfold count_calls; destruct k; simpl; lia.
      + unfold count_calls; destruct k; simpl; lia.
  Qed.

  Lemma c_step1_deleted sh t th :
    match c_step1 new_id t sh th with
    | Some (_, sh', _) => c_deleted sh' = false -> c_deleted sh = false
    | None => True
    end.
  Proof.
    destruct sh as [uids var del lock creates log]; destruct th as [pc w cur rest]; simpl.
    destruct pc; simpl; auto; try (destruct lock; [exact I|]); simpl; auto.
    discriminate.
  Qed.

  Lemma c_step_inv progs s t lb s' :
    c_inv progs s -> c_step new_id s t = Some (lb, s') -> c_deleted (fst s') = false -> c_inv progs s'.
  Proof.
    intros [Hsh Hlog Hth Hlock Hcnt] Hstep Hdel.
    destruct s as [sh ths]. unfold c_step in Hstep; simpl in *.
    destruct (nth_error ths t) as [th|] eqn:Et; [|discriminate].
    destruct (c_step1 new_id t sh th) as [[[lb0 sh0] th0]|] eqn:E1; [|discriminate].
    inversion Hstep; subst; clear Hstep. simpl in Hdel.
    destruct (Hth _ _ Et) as (Hpc & Hrest).
    pose proof (c_step1_own _ t _ Hsh Hlog Hpc Hrest) as Hown. rewrite E1 in Hown.
    destruct (Hown Hdel) as (Hsh' & Hlog' & Hpc' & Hrest' & Hwk').
    constructor; simpl; auto.
    - intros t' th' H. apply nth_error_upd_inv in H. destruct H as [(-> & ->)|(Hne & H)]; auto.
      destruct (Hth _ _ H) as (Hp & Hr). split; auto.
      pose proof (c_step1_others _ _ _ _ _ _ Hpc Hne Hp) as Ho. rewrite E1 in Ho. auto.
    - intros x Hx.
      pose proof (c_step1_locked sh t th) as Hl. rewrite E1 in Hl.
      destruct Hl as [(El & Hk)|[(_ & El & Hk)|El]].
      + rewrite El in Hx. destruct (Hlock _ Hx) as (thx & Hnx & Hlx).
        destruct (Nat.eq_dec x t) as [->|Hne].
        * exists th0. split; [eapply nth_error_upd_eq; eauto|].
          rewrite Et in Hnx; inversion Hnx; subst; auto.
        * exists thx. split; auto. rewrite nth_error_upd_neq; auto.
      + rewrite El in Hx; inversion Hx; subst.
        exists th0; split; auto. eapply nth_error_upd_eq; eauto.
      + congruence.
    - intros k. specialize (Hcnt k).
      pose proof (sumf_upd (c_pending k) ths t th0 th Et) as Hs.
      pose proof (c_step1_count k sh t th Hrest) as Hc0. rewrite E1 in Hc0.
      destruct Hc0 as [Hc|(e & He)].
      + lia.
      + destruct Hpc' as (_ & Hf). rewrite He in Hf. contradiction.
  Qed.

  Lemma c_step_deleted s t lb s' :
    c_step new_id s t = Some (lb, s') -> c_deleted (fst s') = false -> c_deleted (fst s) = false.
  Proof.
    destruct s as [sh ths]. unfold c_step; simpl.
    destruct (nth_error ths t) as [th|]; [|discriminate].
    pose proof (c_step1_deleted sh t th) as H.
    destruct (c_step1 new_id t sh th) as [[[lb0 sh0] th0]|]; [|discriminate].
    intros E; inversion E; subst; simpl. auto.
  Qed.

  Lemma c_reach_inv progs s :
    cprogs_ok progs -> c_reach new_id progs s -> c_deleted (fst s) = false -> c_inv progs s.
  Proof.
    intros Hp H; induction H; intros Hdel.
    - apply c_inv_init; auto.
    - eapply c_step_inv; eauto. apply IHc_reach. eapply c_step_deleted; eauto.
  Qed.

  Lemma c_run_reach progs s sched lbs s' :
    c_reach new_id progs s -> c_run new_id s sched = Some (lbs, s') -> c_reach new_id progs s'.
  Proof.
    revert s lbs; induction sched as [|t r IH]; simpl; intros s lbs Hr H.
    - inversion H; subst; auto.
    - destruct (c_step new_id s t) as [[lb s1]|] eqn:E; [|discriminate].
      destruct (c_run new_id s1 r) as [[lbs1 s2]|] eqn:E2; [|discriminate].
      inversion H; subst. eapply IH; [|eauto]. econstructor; eauto.
  Qed.

  (** ** consequences *)

  Lemma c_creates_le_1 progs s : c_inv progs s -> (c_creates (fst s) <= 1)%nat.
  Proof.
    intros [(_ & H) _ _ _ _]. destruct (c_var (fst s)).
    - destruct H as (_ & ->); lia.
    - destruct H as [(-> & _)|(-> & _)]; lia.
  Qed.

  Lemma c_no_error progs s t th :
    c_inv progs s -> nth_error (snd s) t = Some th -> c_failed th = false.
  Proof.
    intros [_ _ H _ _] Ht. destruct (H _ _ Ht) as ((_ & Hp) & _).
    unfold c_failed. destruct (c_pc th); auto. contradiction.
  Qed.

  Lemma c_calls_ok progs s :
    c_inv progs s ->
    count_creates (c_log (fst s)) = c_creates (fst s) /\
    forall c, In c (c_log (fst s)) ->
      call_id c = id0 /\ In (KCreate id0) (c_log (fst s)).
  Proof.
    intros Hi. pose proof (c_creates_le_1 _ _ Hi) as Hle.
    destruct Hi as [_ (Hall & Hcnt & Hnil) _ _ _]. split; auto.
    intros c Hc. split; [eapply Forall_forall in Hall; eauto|].
    assert (Hcr : c_creates (fst s) = 1%nat).
    { destruct (c_creates (fst s)) as [|[|n]]; auto; [|lia].
      rewrite (Hnil eq_refl) in Hc. contradiction. }
    rewrite Hcr in Hcnt. clear - Hcnt Hall.
    induction (c_log (fst s)) as [|a l IH]; simpl in *; [discriminate|].
    inversion Hall; subst.
    destruct a; simpl in *; auto.
    left. congruence.
  Qed.

  (** every worker that has an upload id has THE upload id *)
  Lemma c_worker_ids progs s w :
    c_inv progs s -> c_uids (fst s) w = 0 \/ c_uids (fst s) w = id0.
  Proof. intros [(H & _) _ _ _ _]. destruct (H w) as [?|(?&_)]; auto. Qed.

  Lemma c_all_done_counts progs s :
    c_inv progs s -> c_all_done s ->
    forall k, count_calls k (c_log (fst s)) = count_ops k (concat (map snd progs)).
  Proof.
    intros Hi Hd k. destruct Hi as [_ _ _ _ Hc]. specialize (Hc k).
    rewrite sumf_zero in Hc; auto.
    intros th Hin. unfold c_pending. rewrite (Hd _ Hin). reflexivity.
  Qed.

  Lemma c_all_done_one_create progs s :
    c_inv progs s -> c_all_done s -> concat (map snd progs) <> [] -> c_creates (fst s) = 1%nat.
  Proof.
    intros Hi Hd Hne. pose proof (c_creates_le_1 _ _ Hi) as Hle.
    pose proof (c_all_done_counts _ _ Hi Hd) as Hc.
    destruct Hi as [_ (_ & _ & Hnil) _ _ _].
    destruct (c_creates (fst s)) as [|[|n]]; auto; [|lia].
    exfalso. rewrite (Hnil eq_refl) in Hc.
    destruct (concat (map snd progs)) as [|o r]; [congruence|].
    specialize (Hc (opk o)). rewrite count_ops_cons in Hc.
    unfold count_calls in Hc; simpl in Hc.
    destruct (opk o); simpl in Hc; discriminate.
  Qed.

  Lemma c_progress progs s t th :
    c_inv progs s -> nth_error (snd s) t = Some th -> c_finished th = false ->
    exists t' lb s', c_step new_id s t' = Some (lb, s').
  Proof.
    intros Hi Ht Hf. destruct s as [sh ths]; simpl in *.
    assert (Hen : forall x thx, nth_error ths x = Some thx -> c_finished thx = false ->
                  (c_pc thx = CpAcquire -> c_lock sh = None) ->
                  exists lb s', c_step new_id (sh, ths) x = Some (lb, s')).
    { intros x thx Hx Hfx Hacq. unfold c_step; simpl. rewrite Hx.
      destruct sh as [uids var del lock creates log]; destruct thx as [pc w cur rest]; simpl in *.
      unfold c_finished in Hfx; simpl in Hfx.
      destruct pc; simpl; try discriminate; eauto.
      rewrite (Hacq eq_refl). eauto. }
    destruct (c_lock sh) as [h|] eqn:El.
    - destruct (ci_lock _ _ Hi h El) as (thh & Hh & Hlk). simpl in *.
      exists h. apply (Hen _ _ Hh).
      + unfold c_finished. destruct (c_pc thh); simpl in *; auto; discriminate.
      + intros E. rewrite E in Hlk. discriminate.
    - exists t. apply (Hen _ _ Ht Hf). auto.
  Qed.
End ClusterProofs.

(* ====================================================================== *)
(** * Witnesses *)

(** The code before a4a8a1e (no re-check under the lock): two first writes, both
    read [started = False], the first initiates and releases, the second takes
    the lock and runs into [assert self.uploadId == ""]. *)
Definition race_progs : list (list op) := [[OWrite 1]; [OWrite 2]].
Definition race_sched : list nat := [0; 1; 0; 0; 0; 0; 0; 0; 1; 1; 1; 1]%nat.

Lemma l_old_code_loser_fails :
  exists progs sched lbs s,
    progs_ok progs /\
    l_run std_id false (l_init true progs) sched = Some (lbs, s) /\
    exists t th, nth_error (snd s) t = Some th /\ l_pc th = LpErr (EAssert 111).
Proof.
  exists race_progs, race_sched.
  eexists. eexists. split; [repeat constructor|].
  split; [vm_compute; reflexivity|].
  exists 1%nat. eexists. split; vm_compute; reflexivity.
Qed.

(** the same two threads on the current code, same kind of interleaving *)
Definition race_sched_fixed : list nat :=
  [0; 1; 0; 0; 0; 0; 0; 0; 0; 1; 1; 1; 1; 0; 0; 0; 1; 1; 1]%nat.

Lemma l_race_example :
  exists lbs s, l_run std_id true (l_init true race_progs) race_sched_fixed = Some (lbs, s) /\
    l_all_done s /\ rev (l_log (fst s)) = [KCreate 1; KUpload 1 1; KUpload 2 1].
Proof.
  eexists. eexists. split; [vm_compute; reflexivity|]. split; [|vm_compute; reflexivity].
  intros th H. vm_compute in H. intuition (subst; reflexivity).
Qed.

(** first use of the process-local lock in this process ([_state] empty): both threads find the
    registry empty and create a lock each; the atomic [setdefault] makes them agree on one *)
Definition race_sched_fresh : list nat :=
  [0; 1; 0; 1; 0; 1; 0; 1; 0; 0; 0; 0; 0; 0; 1; 1; 1; 0; 0; 0; 1; 1; 1]%nat.

Lemma l_fresh_registry_example :
  exists lbs s, l_run std_id true (l_init false race_progs) race_sched_fresh = Some (lbs, s) /\
    l_all_done s /\ l_reg (fst s) = true /\ rev (l_log (fst s)) = [KCreate 1; KUpload 1 1; KUpload 2 1].
Proof.
  eexists. eexists. split; [vm_compute; reflexivity|]. split; [|split; vm_compute; reflexivity].
  intros th H. vm_compute in H. intuition (subst; reflexivity).
Qed.

(** cluster path: a finalise that completed (and deleted the shared variable)
    before another worker's first write lets that worker initiate again -- the
    statement is therefore about executions in which the variable still exists
    (in a dask graph finalise depends on every write) *)
Definition late_progs : list (nat * list op) := [(0%nat, [OFinal 1]); (1%nat, [OWrite 1])].
Definition late_sched : list nat := (repeat 0 15 ++ repeat 1 6)%nat.

Lemma c_late_write_after_cleanup :
  exists lbs s, c_run std_id (c_init late_progs) late_sched = Some (lbs, s) /\
    c_deleted (fst s) = true /\ c_creates (fst s) = 2%nat.
Proof. eexists. eexists. split; [vm_compute; reflexivity|]. split; reflexivity. Qed.

(** an abandoned earlier upload left its id (7) in the shared variable; [prep_client] resets it, so
    the new upload starts exactly like a first one -- without the reset the workers of the new
    upload take the stale id on the fast path: nothing is initiated, the part goes under id 7 *)
Lemma c_init_after_is_init v0 progs : c_init_after v0 progs = c_init progs.
Proof. reflexivity. Qed.

Lemma c_stale_variable_without_reset :
  exists lbs s, c_run std_id (c_init_var (c_prep_client_noreset (Some 7)) [(0%nat, [OWrite 1])])
                      (repeat 0%nat 6) = Some (lbs, s) /\
    c_all_done s /\ c_creates (fst s) = 0%nat /\ c_log (fst s) = [KUpload 1 7].
Proof.
  eexists. eexists. split; [vm_compute; reflexivity|]. split; [|split; reflexivity].
  intros th H. vm_compute in H. intuition (subst; reflexivity).
Qed.

Definition c_example_progs : list (nat * list op) :=
  [(0%nat, [OWrite 1]); (1%nat, [OWrite 2]); (0%nat, [OWrite 3])].
Definition c_example_sched : list nat :=
  [0; 1; 2; 1; 0; 2; 1; 1; 1; 1; 1; 1; 1; 1; 0; 0; 0; 0; 2; 2; 2; 2; 1; 1; 1; 1; 0; 0; 0; 2; 2; 2]%nat.

Lemma c_example :
  exists lbs s, c_run std_id (c_init c_example_progs) c_example_sched = Some (lbs, s) /\
    c_deleted (fst s) = false /\ c_all_done s /\ c_creates (fst s) = 1%nat.
Proof.
  eexists. eexists. split; [vm_compute; reflexivity|]. split; [reflexivity|].
  split; [|reflexivity].
  intros th H. vm_compute in H. intuition (subst; reflexivity).
Qed.

(* ====================================================================== *)
(** * Statements used by Props/C18.v *)

Lemma local_at_most_one_create (new_id : nat -> Z) :
  (forall k, new_id k <> 0) ->
  forall reg0 progs s, progs_ok progs -> l_reach new_id true reg0 progs s -> (l_creates (fst s) <= 1)%nat.
Proof. intros Hn reg0 progs s Hp Hr. eapply l_creates_le_1, l_reach_inv; eauto. Qed.

Lemma local_no_thread_fails (new_id : nat -> Z) :
  (forall k, new_id k <> 0) ->
  forall reg0 progs s, progs_ok progs -> l_reach new_id true reg0 progs s ->
  forall t th, nth_error (snd s) t = Some th -> l_failed th = false.
Proof. intros Hn reg0 progs s Hp Hr t th. eapply l_no_error, l_reach_inv; eauto. Qed.

Lemma local_calls_under_one_id (new_id : nat -> Z) :
  (forall k, new_id k <> 0) ->
  forall reg0 progs s, progs_ok progs -> l_reach new_id true reg0 progs s ->
  count_creates (l_log (fst s)) = l_creates (fst s) /\
  forall c, In c (l_log (fst s)) ->
    call_id c = new_id 0%nat /\ In (KCreate (new_id 0%nat)) (l_log (fst s)).
Proof. intros Hn reg0 progs s Hp Hr. eapply l_calls_ok, l_reach_inv; eauto. Qed.

Lemma local_finished_run (new_id : nat -> Z) :
  (forall k, new_id k <> 0) ->
  forall reg0 progs s, progs_ok progs -> l_reach new_id true reg0 progs s -> l_all_done s ->
  (forall k, count_calls k (l_log (fst s)) = count_ops k (concat progs)) /\
  (concat progs <> [] -> l_creates (fst s) = 1%nat).
Proof.
  intros Hn reg0 progs s Hp Hr Hd. pose proof (l_reach_inv _ Hn _ _ _ Hp Hr) as Hi. split.
  - eapply l_all_done_counts; eauto.
  - eapply l_all_done_one_create; eauto.
Qed.

Lemma local_no_deadlock (new_id : nat -> Z) :
  (forall k, new_id k <> 0) ->
  forall reg0 progs s, progs_ok progs -> l_reach new_id true reg0 progs s ->
  forall t th, nth_error (snd s) t = Some th -> l_finished th = false ->
  exists t' lb s', l_step new_id true s t' = Some (lb, s').
Proof. intros Hn reg0 progs s Hp Hr t th. eapply l_progress, l_reach_inv; eauto. Qed.

Lemma local_schedules_reach (new_id : nat -> Z) reg0 progs sched lbs s :
  l_run new_id true (l_init reg0 progs) sched = Some (lbs, s) -> l_reach new_id true reg0 progs s.
Proof. apply l_run_reach. constructor. Qed.

Lemma cluster_at_most_one_create (new_id : nat -> Z) :
  (forall k, new_id k <> 0) ->
  forall progs s, cprogs_ok progs -> c_reach new_id progs s -> c_deleted (fst s) = false ->
  (c_creates (fst s) <= 1)%nat.
Proof. intros Hn progs s Hp Hr Hd. eapply c_creates_le_1, c_reach_inv; eauto. Qed.

Lemma cluster_no_thread_fails (new_id : nat -> Z) :
  (forall k, new_id k <> 0) ->
  forall progs s, cprogs_ok progs -> c_reach new_id progs s -> c_deleted (fst s) = false ->
  forall t th, nth_error (snd s) t = Some th -> c_failed th = false.
Proof. intros Hn progs s Hp Hr Hd t th. eapply c_no_error, c_reach_inv; eauto. Qed.

Lemma cluster_calls_under_one_id (new_id : nat -> Z) :
  (forall k, new_id k <> 0) ->
  forall progs s, cprogs_ok progs -> c_reach new_id progs s -> c_deleted (fst s) = false ->
  count_creates (c_log (fst s)) = c_creates (fst s) /\
  (forall c, In c (c_log (fst s)) ->
    call_id c = new_id 0%nat /\ In (KCreate (new_id 0%nat)) (c_log (fst s))) /\
  (forall w, c_uids (fst s) w = 0 \/ c_uids (fst s) w = new_id 0%nat).
Proof.
  intros Hn progs s Hp Hr Hd. pose proof (c_reach_inv _ Hn _ _ Hp Hr Hd) as Hi.
  destruct (c_calls_ok _ _ _ Hi) as (A & B). split; [exact A|]. split; [exact B|].
  intros w. eapply c_worker_ids; eauto.
Qed.

Lemma cluster_finished_run (new_id : nat -> Z) :
  (forall k, new_id k <> 0) ->
  forall progs s, cprogs_ok progs -> c_reach new_id progs s -> c_deleted (fst s) = false ->
  c_all_done s ->
  (forall k, count_calls k (c_log (fst s)) = count_ops k (concat (map snd progs))) /\
  (concat (map snd progs) <> [] -> c_creates (fst s) = 1%nat).
Proof.
  intros Hn progs s Hp Hr Hdel Hd. pose proof (c_reach_inv _ Hn _ _ Hp Hr Hdel) as Hi. split.
  - eapply c_all_done_counts; eauto.
  - eapply c_all_done_one_create; eauto.
Qed.

Lemma cluster_no_deadlock (new_id : nat -> Z) :
  (forall k, new_id k <> 0) ->
  forall progs s, cprogs_ok progs -> c_reach new_id progs s -> c_deleted (fst s) = false ->
  forall t th, nth_error (snd s) t = Some th -> c_finished th = false ->
  exists t' lb s', c_step new_id s t' = Some (lb, s').
Proof. intros Hn progs s Hp Hr Hd t th. eapply c_progress, c_reach_inv; eauto. Qed.

Lemma cluster_schedules_reach (new_id : nat -> Z) progs sched lbs s :
  c_run new_id (c_init progs) sched = Some (lbs, s) -> c_reach new_id progs s.
Proof. apply c_run_reach. constructor. Qed.
