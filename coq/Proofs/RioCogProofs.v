(** Lemmas about the _rio.py decision-logic model (Model/RioCog.v). *)
From Coq Require Import ZArith List Bool Lia Permutation.
From OG Require Import Base.Result Base.ListSel Model.Roi Proofs.RoiProofs Model.CogLayout
  Proofs.CogLayoutProofs Proofs.CogTilesProofs Proofs.CogOffsetsProofs Model.RioCog.
Import ListNotations.
Open Scope Z_scope.

(** * 1. row-major indexing *)
Lemma ravel_2 h w y x : ravel [h; w] [y; x] = y * w + x.
Proof. unfold ravel; simpl; ring. Qed.

Lemma ravel_3 d0 d1 d2 i j k : ravel [d0; d1; d2] [i; j; k] = (i * d1 + j) * d2 + k.
Proof. unfold ravel; simpl; ring. Qed.

(** output band b, row y, column x holds the input sample named by the layout *)
Lemma src_index_2d h w b y x : src_index L2d (1, h, w) b y x = ravel [h; w] [y; x].
Proof. rewrite ravel_2. reflexivity. Qed.

Lemma src_index_band_first nb h w b y x :
  src_index LBandFirst (nb, h, w) b y x = ravel [nb; h; w] [b; y; x].
Proof. rewrite ravel_3. reflexivity. Qed.

Lemma src_index_band_last nb h w b y x :
  src_index LBandLast (nb, h, w) b y x = ravel [h; w; nb] [y; x; b].
Proof. rewrite ravel_3. reflexivity. Qed.

(** * 2. which shapes are accepted, and how *)
Lemma zz_eq_true a b : zz_eq a b = true <-> a = b.
Proof.
  destruct a, b; unfold zz_eq; cbn [fst snd]. rewrite andb_true_iff, !Z.eqb_eq.
  split; [intros [-> ->]; reflexivity | intros H; inversion H; auto].
Qed.

Lemma zz_eq_false a b : zz_eq a b = false <-> a <> b.
Proof.
  split.
  - intros H E. apply zz_eq_true in E. congruence.
  - intros H. destruct (zz_eq a b) eqn:E; auto. apply zz_eq_true in E. contradiction.
Qed.

Lemma norm_layout_2d_ok h w ya : ya <> Some 1 -> norm_layout [h; w] (h, w) ya = Ok (L2d, (1, h, w)).
Proof.
  intros Hya. simpl. rewrite (proj2 (zz_eq_true (h, w) (h, w)) eq_refl).
  destruct ya as [v|]; [|reflexivity]. destruct (v =? 1) eqn:E; [|reflexivity].
  apply Z.eqb_eq in E. subst. congruence.
Qed.

(** dims ordered (x, y): the array has shape (w, h) and is transposed *)
Lemma norm_layout_2d_xy h w : norm_layout [w; h] (h, w) (Some 1) = Ok (L2dT, (1, h, w)).
Proof. simpl. rewrite (proj2 (zz_eq_true (h, w) (h, w)) eq_refl). reflexivity. Qed.

Lemma src_index_2d_xy h w b y x : src_index L2dT (1, h, w) b y x = ravel [w; h] [x; y].
Proof. rewrite ravel_2. reflexivity. Qed.

(** band-last array (H, W, B) with the shape-based guess *)
Lemma norm_layout_band_last_guess h w nb :
  norm_layout [h; w; nb] (h, w) None = Ok (LBandLast, (nb, h, w)).
Proof. simpl. rewrite (proj2 (zz_eq_true (h, w) (h, w)) eq_refl). reflexivity. Qed.

(** band-first array (B, H, W) with the shape-based guess: accepted as band-first
    unless (B, H) = (H, W), the inherent ambiguity of a cube-shaped array *)
Lemma norm_layout_band_first_guess nb h w :
  (nb, h) <> (h, w) -> norm_layout [nb; h; w] (h, w) None = Ok (LBandFirst, (nb, h, w)).
Proof.
  intros Hne. simpl. rewrite (proj2 (zz_eq_false (nb, h) (h, w)) Hne).
  rewrite (proj2 (zz_eq_true (h, w) (h, w)) eq_refl). reflexivity.
Qed.

(** ... and with the Y axis supplied by the caller there is no ambiguity *)
Lemma norm_layout_band_first_known nb h w :
  norm_layout [nb; h; w] (h, w) (Some 1) = Ok (LBandFirst, (nb, h, w)).
Proof. simpl. rewrite (proj2 (zz_eq_true (h, w) (h, w)) eq_refl). reflexivity. Qed.

Lemma norm_layout_band_last_known h w nb :
  norm_layout [h; w; nb] (h, w) (Some 0) = Ok (LBandLast, (nb, h, w)).
Proof. simpl. rewrite (proj2 (zz_eq_true (h, w) (h, w)) eq_refl). reflexivity. Qed.

(** complete characterisation of the outcome *)
Lemma norm_layout_cases shape g ya :
  match norm_layout shape g ya with
  | Ok (L2d, dims) => exists h w, shape = [h; w] /\ g = (h, w) /\ dims = (1, h, w) /\ ya <> Some 1
  | Ok (L2dT, dims) => exists h w, shape = [w; h] /\ g = (h, w) /\ dims = (1, h, w) /\ ya = Some 1
  | Ok (LBandLast, dims) =>
      exists h w nb, shape = [h; w; nb] /\ g = (h, w) /\ dims = (nb, h, w) /\ (ya = None \/ ya = Some 0)
  | Ok (LBandFirst, dims) =>
      exists nb h w, shape = [nb; h; w] /\ g = (h, w) /\ dims = (nb, h, w) /\
                     (ya = None /\ (nb, h) <> (h, w) \/ exists v, ya = Some v /\ v <> 0)
  | Err EValue =>
      (length shape <> 2%nat /\ length shape <> 3%nat) \/
      exists d0 d1 d2, shape = [d0; d1; d2] /\ g <> (d1, d2) /\
                       (ya = None /\ g <> (d0, d1) \/ exists v, ya = Some v /\ v <> 0)
  | Err (EAssert _) =>
      (exists d0 d1, shape = [d0; d1] /\ (ya <> Some 1 /\ g <> (d0, d1) \/ ya = Some 1 /\ g <> (d1, d0))) \/
      (exists d0 d1 d2, shape = [d0; d1; d2] /\ ya = Some 0 /\ g <> (d0, d1))
  | Err _ => False
  end.
Proof.
  destruct shape as [|d0 [|d1 [|d2 [|d3 r]]]]; simpl; try (left; split; discriminate).
  - assert (Hxy : (match ya with Some v => v =? 1 | None => false end = true /\ ya = Some 1) \/
                  (match ya with Some v => v =? 1 | None => false end = false /\ ya <> Some 1)).
    { destruct ya as [v|]; [|right; split; [reflexivity | discriminate]].
      destruct (v =? 1) eqn:E; [apply Z.eqb_eq in E; subst; left; auto|].
      apply Z.eqb_neq in E. right. split; [reflexivity | congruence]. }
    destruct Hxy as [(-> & Hya) | (-> & Hya)].
    + destruct (zz_eq g (d1, d0)) eqn:E.
      * apply zz_eq_true in E. exists d1, d0. auto.
      * apply zz_eq_false in E. left. exists d0, d1. auto.
    + destruct (zz_eq g (d0, d1)) eqn:E.
      * apply zz_eq_true in E. exists d0, d1. auto.
      * apply zz_eq_false in E. left. exists d0, d1. auto.
  - destruct ya as [v|].
    + destruct (v =? 0) eqn:Ev.
      * apply Z.eqb_eq in Ev; subst v. destruct (zz_eq g (d0, d1)) eqn:E.
        -- apply zz_eq_true in E. exists d0, d1, d2. split; [reflexivity|]. split; [exact E|]. split; [reflexivity|]. right; reflexivity.
        -- apply zz_eq_false in E. right. exists d0, d1, d2. split; [reflexivity|]. split; [reflexivity | exact E].
      * apply Z.eqb_neq in Ev. destruct (zz_eq (d1, d2) g) eqn:E; simpl.
        -- apply zz_eq_true in E. exists d0, d1, d2. split; [reflexivity|]. split; [congruence|]. split; [reflexivity|].
           right. exists v. split; [reflexivity | exact Ev].
        -- apply zz_eq_false in E. right. exists d0, d1, d2. split; [reflexivity|]. split; [congruence|].
           right. exists v. split; [reflexivity | exact Ev].
    + destruct (zz_eq (d0, d1) g) eqn:E.
      * apply zz_eq_true in E. rewrite (proj2 (zz_eq_true g (d0, d1)) (eq_sym E)).
        exists d0, d1, d2. split; [reflexivity|]. split; [congruence|]. split; [reflexivity|]. left; reflexivity.
      * apply zz_eq_false in E. destruct (zz_eq (d1, d2) g) eqn:E2; simpl.
        -- apply zz_eq_true in E2. subst g. exists d0, d1, d2. split; [reflexivity|]. split; [reflexivity|].
           split; [reflexivity|]. left. split; [reflexivity | exact E].
        -- apply zz_eq_false in E2. right. exists d0, d1, d2. split; [reflexivity|]. split; [congruence|].
           left. split; [reflexivity | congruence].
Qed.

(** * 3. the layout map is a bijection between output samples and input positions *)
Definition sample_in_range (dims : Z * Z * Z) (b y x : Z) : Prop :=
  let '(nb, h, w) := dims in 0 <= b < nb /\ 0 <= y < h /\ 0 <= x < w.

Definition layout_dims_ok (l : layout) (dims : Z * Z * Z) : Prop :=
  let '(nb, h, w) := dims in match l with L2d | L2dT => nb = 1 | _ => True end.

Lemma src_index_bound l nb h w b y x :
  layout_dims_ok l (nb, h, w) -> sample_in_range (nb, h, w) b y x ->
  0 <= src_index l (nb, h, w) b y x < nb * h * w.
Proof.
  unfold sample_in_range, layout_dims_ok, src_index. intros Hl (Hb & Hy & Hx). destruct l.
  - subst nb. nia.
  - subst nb. nia.
  - pose proof (flat_arith_bound nb h w b y x Hb Hy Hx). nia.
  - pose proof (flat_arith_bound h w nb y x b Hy Hx Hb). nia.
Qed.

Lemma src_index_inj l nb h w b y x b' y' x' :
  layout_dims_ok l (nb, h, w) ->
  sample_in_range (nb, h, w) b y x -> sample_in_range (nb, h, w) b' y' x' ->
  src_index l (nb, h, w) b y x = src_index l (nb, h, w) b' y' x' ->
  (b, y, x) = (b', y', x').
Proof.
  unfold sample_in_range, layout_dims_ok, src_index. intros Hl (Hb & Hy & Hx) (Hb' & Hy' & Hx') E. destruct l.
  - subst nb. assert (b = 0) by lia. assert (b' = 0) by lia. subst.
    destruct (flat_arith_inv h w 0 y x ltac:(lia) Hy Hx) as (_ & B1 & C1).
    destruct (flat_arith_inv h w 0 y' x' ltac:(lia) Hy' Hx') as (_ & B2 & C2).
    cbn zeta in *. replace (0 * (h * w) + y * w + x) with (y * w + x) in * by ring.
    replace (0 * (h * w) + y' * w + x') with (y' * w + x') in * by ring.
    rewrite E in *. congruence.
  - subst nb. assert (b = 0) by lia. assert (b' = 0) by lia. subst.
    destruct (flat_arith_inv w h 0 x y ltac:(lia) Hx Hy) as (_ & B1 & C1).
    destruct (flat_arith_inv w h 0 x' y' ltac:(lia) Hx' Hy') as (_ & B2 & C2).
    cbn zeta in *. replace (0 * (w * h) + x * h + y) with (x * h + y) in * by ring.
    replace (0 * (w * h) + x' * h + y') with (x' * h + y') in * by ring.
    rewrite E in *. congruence.
  - destruct (flat_arith_inv h w b y x ltac:(lia) Hy Hx) as (A1 & B1 & C1).
    destruct (flat_arith_inv h w b' y' x' ltac:(lia) Hy' Hx') as (A2 & B2 & C2).
    cbn zeta in *.
    replace (b * (h * w) + y * w + x) with ((b * h + y) * w + x) in * by ring.
    replace (b' * (h * w) + y' * w + x') with ((b' * h + y') * w + x') in * by ring.
    rewrite E in *. congruence.
  - destruct (flat_arith_inv w nb y x b ltac:(lia) Hx Hb) as (A1 & B1 & C1).
    destruct (flat_arith_inv w nb y' x' b' ltac:(lia) Hx' Hb') as (A2 & B2 & C2).
    cbn zeta in *.
    replace (y * (w * nb) + x * nb + b) with ((y * w + x) * nb + b) in * by ring.
    replace (y' * (w * nb) + x' * nb + b') with ((y' * w + x') * nb + b') in * by ring.
    rewrite E in *. congruence.
Qed.

Lemma src_index_surj l nb h w t :
  layout_dims_ok l (nb, h, w) -> 0 <= nb -> 0 <= h -> 0 <= w -> 0 <= t < nb * h * w ->
  exists b y x, sample_in_range (nb, h, w) b y x /\ src_index l (nb, h, w) b y x = t.
Proof.
  unfold sample_in_range, layout_dims_ok, src_index. intros Hl Nb Nh Nw Ht.
  assert (0 < nb /\ 0 < h /\ 0 < w) as (Pb & Ph & Pw).
  { destruct (Z.eq_dec nb 0), (Z.eq_dec h 0), (Z.eq_dec w 0); subst; try lia; nia. }
  destruct l.
  - subst nb. pose proof Ph as Hh. pose proof Pw as Hw.
    destruct (unflat_arith 1 h w t ltac:(lia) Hh Hw) as (A & B & C & D). cbn zeta in *.
    exists 0, ((t / w) mod h), (t mod w). repeat split; try lia.
    all: try (assert (t / (h * w) = 0) by lia; nia).
  - subst nb. pose proof Ph as Hh. pose proof Pw as Hw.
    destruct (unflat_arith 1 w h t ltac:(nia) Hw Hh) as (A & B & C & D). cbn zeta in *.
    exists 0, (t mod h), ((t / h) mod w). repeat split; try lia.
    all: try (assert (t / (w * h) = 0) by lia; nia).
  - pose proof Ph as Hh. pose proof Pw as Hw.
    destruct (unflat_arith nb h w t Ht Hh Hw) as (A & B & C & D). cbn zeta in *.
    exists (t / (h * w)), ((t / w) mod h), (t mod w). repeat split; try lia.
    all: try (rewrite <- D at 4; ring).
  - pose proof Pw as Hw. pose proof Pb as Hnb.
    destruct (unflat_arith h w nb t ltac:(nia) Hw Hnb) as (A & B & C & D). cbn zeta in *.
    exists (t mod nb), (t / (w * nb)), ((t / nb) mod w). repeat split; try lia.
    all: try (rewrite <- D at 4; ring).
Qed.

(** as lists: reading the file back enumerates every input position exactly once *)
Lemma in_readback l nb h w t :
  In t (readback_indices l (nb, h, w)) <->
  exists b y x, sample_in_range (nb, h, w) b y x /\ src_index l (nb, h, w) b y x = t.
Proof.
  unfold readback_indices, sample_in_range. rewrite in_flat_map. split.
  - intros (b & Hb & Hin). apply in_flat_map in Hin as (y & Hy & Hin).
    apply in_map_iff in Hin as (x & E & Hx). apply in_zrange in Hb, Hy, Hx.
    exists b, y, x. auto.
  - intros (b & y & x & (Hb & Hy & Hx) & E). exists b. split; [apply in_zrange; auto|].
    apply in_flat_map. exists y. split; [apply in_zrange; auto|].
    apply in_map_iff. exists x. split; [exact E | apply in_zrange; auto].
Qed.

Lemma NoDup_readback l nb h w :
  layout_dims_ok l (nb, h, w) -> NoDup (readback_indices l (nb, h, w)).
Proof.
  intros Hl. unfold readback_indices.
  assert (Inj : forall b y x b' y' x', In b (zrange nb) -> In y (zrange h) -> In x (zrange w) ->
                 In b' (zrange nb) -> In y' (zrange h) -> In x' (zrange w) ->
                 src_index l (nb, h, w) b y x = src_index l (nb, h, w) b' y' x' -> (b, y, x) = (b', y', x')).
  { intros b y x b' y' x' Hb Hy Hx Hb' Hy' Hx' E. apply in_zrange in Hb, Hy, Hx, Hb', Hy', Hx'.
    eapply src_index_inj; eauto; unfold sample_in_range; auto. }
  apply NoDup_flat_map.
  - apply NoDup_zrange.
  - intros b Hb. apply NoDup_flat_map.
    + apply NoDup_zrange.
    + intros y Hy. apply NoDup_map_in; [|apply NoDup_zrange].
      intros x x' Hx Hx' E. pose proof (Inj b y x b y x' Hb Hy Hx Hb Hy Hx' E) as X. inversion X; auto.
    + intros y y' t Hy Hy' Ht Ht'. apply in_map_iff in Ht as (x & E & Hx). apply in_map_iff in Ht' as (x' & E' & Hx').
      pose proof (Inj b y x b y' x' Hb Hy Hx Hb Hy' Hx' ltac:(congruence)) as X. inversion X; auto.
  - intros b b' t Hb Hb' Ht Ht'.
    apply in_flat_map in Ht as (y & Hy & Ht). apply in_map_iff in Ht as (x & E & Hx).
    apply in_flat_map in Ht' as (y' & Hy' & Ht'). apply in_map_iff in Ht' as (x' & E' & Hx').
    pose proof (Inj b y x b' y' x' Hb Hy Hx Hb' Hy' Hx' ltac:(congruence)) as X. inversion X; auto.
Qed.

Lemma readback_is_permutation l nb h w :
  layout_dims_ok l (nb, h, w) -> 0 <= nb -> 0 <= h -> 0 <= w ->
  Permutation (readback_indices l (nb, h, w)) (zrange (nb * h * w)).
Proof.
  intros Hl Nb Nh Nw. apply NoDup_Permutation; [apply NoDup_readback; auto | apply NoDup_zrange|].
  intros t. rewrite in_readback, in_zrange. split.
  - intros (b & y & x & R & <-). apply src_index_bound; auto.
  - intros Ht. apply src_index_surj; auto.
Qed.

Lemma norm_layout_dims_ok shape g ya l dims :
  norm_layout shape g ya = Ok (l, dims) -> layout_dims_ok l dims.
Proof.
  intros E. pose proof (norm_layout_cases shape g ya) as C. rewrite E in C.
  destruct l; destruct dims as [[nb h] w]; simpl; auto.
  - destruct C as (h' & w' & _ & _ & D & _). inversion D; reflexivity.
  - destruct C as (h' & w' & _ & _ & D & _). inversion D; reflexivity.
Qed.

(** * 4. block sizes and overview levels *)
Lemma default_cog_block_spec blocksize w h :
  1 <= cog_blocksize blocksize ->
  let '(bx, bh) := default_cog_block blocksize w h in
  0 < bx /\ bx mod 16 = 0 /\ 0 < bh /\ bh mod 16 = 0 /\
  bx = (if (0 <? w) && (w <? cog_blocksize blocksize) then align_up w 16 else align_up (cog_blocksize blocksize) 16) /\
  bh = (if (0 <? h) && (h <? cog_blocksize blocksize) then align_up h 16 else align_up (cog_blocksize blocksize) 16).
Proof.
  intros Hb. unfold default_cog_block.
  destruct (adjust_blocksize_spec (cog_blocksize blocksize) w Hb) as (A & B).
  destruct (adjust_blocksize_spec (cog_blocksize blocksize) h Hb) as (C & D).
  repeat split; auto.
Qed.

(** a small image is covered by one block, and shrinking never enlarges the block *)
Lemma default_cog_block_small blocksize w h :
  1 <= cog_blocksize blocksize -> 1 <= w -> 1 <= h ->
  let '(bx, bh) := default_cog_block blocksize w h in
  Z.min w (cog_blocksize blocksize) <= bx <= align_up (cog_blocksize blocksize) 16 /\
  Z.min h (cog_blocksize blocksize) <= bh <= align_up (cog_blocksize blocksize) 16.
Proof.
  intros Hb Hw Hh. unfold default_cog_block.
  split; apply adjust_blocksize_covers; auto.
Qed.

Lemma overview_levels_spec req w h :
  overview_levels req w h =
    match req with
    | Some l => l
    | None => if Z.min w h <? 512 then [] else [2; 4; 8; 16; 32]
    end.
Proof. reflexivity. Qed.

Lemma overview_levels_default_small w h : Z.min w h < 512 -> overview_levels None w h = [].
Proof. intros H. unfold overview_levels. apply Z.ltb_lt in H. rewrite H. reflexivity. Qed.

Lemma overview_levels_default_large w h : 512 <= w -> 512 <= h -> overview_levels None w h = [2; 4; 8; 16; 32].
Proof.
  intros Hw Hh. unfold overview_levels. destruct (Z.min w h <? 512) eqn:E; [apply Z.ltb_lt in E; lia | reflexivity].
Qed.

(** * 5. the overwrite guard *)
Lemma fs_lookup_unlink_same s p : fs_lookup (fs_unlink s p) p = None.
Proof.
  unfold fs_lookup, fs_unlink. induction s as [|[q c] s IH]; simpl; auto.
  destruct (q =? p) eqn:E; simpl; auto. rewrite E. exact IH.
Qed.

Lemma fs_lookup_unlink_other s p q : q <> p -> fs_lookup (fs_unlink s p) q = fs_lookup s q.
Proof.
  intros Hne. unfold fs_lookup, fs_unlink. induction s as [|[r c] s IH]; simpl; auto.
  destruct (r =? p) eqn:E; simpl.
  - apply Z.eqb_eq in E; subst r. destruct (p =? q) eqn:E2; [apply Z.eqb_eq in E2; congruence | exact IH].
  - destruct (r =? q) eqn:E2; [reflexivity | exact IH].
Qed.

Lemma fs_lookup_write_same s p c : fs_lookup (fs_write s p c) p = Some c.
Proof. unfold fs_lookup, fs_write. simpl. rewrite Z.eqb_refl. reflexivity. Qed.

Lemma fs_lookup_write_other s p q c : q <> p -> fs_lookup (fs_write s p c) q = fs_lookup s q.
Proof.
  intros Hne. unfold fs_write. unfold fs_lookup at 1. simpl.
  destruct (p =? q) eqn:E; [apply Z.eqb_eq in E; congruence|].
  apply fs_lookup_unlink_other. exact Hne.
Qed.

(** the four rows of check_write_path's table *)
Lemma check_write_path_spec s p ow :
  match fs_lookup s p, ow with
  | Some _, true =>
      exists s', check_write_path s p ow = (s', Ok tt) /\ fs_lookup s' p = None /\
                 forall q, q <> p -> fs_lookup s' q = fs_lookup s q
  | Some _, false => check_write_path s p ow = (s, Err EIO)
  | None, _ => check_write_path s p ow = (s, Ok tt)
  end.
Proof.
  unfold check_write_path, fs_exists. destruct (fs_lookup s p) as [c|] eqn:E.
  - destruct ow; [|reflexivity]. eexists; split; [reflexivity|]. split.
    + apply fs_lookup_unlink_same.
    + intros q Hq. apply fs_lookup_unlink_other. exact Hq.
  - destruct ow; reflexivity.
Qed.

(** unlinked iff overwrite: the file system changes exactly when the file existed and overwrite was set *)
Lemma check_write_path_changes_iff s p ow :
  fs_lookup (fst (check_write_path s p ow)) p <> fs_lookup s p <-> (fs_exists s p = true /\ ow = true).
Proof.
  unfold check_write_path, fs_exists. destruct (fs_lookup s p) as [c|] eqn:E; destruct ow; simpl.
  - rewrite fs_lookup_unlink_same. split; [auto | intros _; discriminate].
  - rewrite E. split; [congruence | intros [_ H]; discriminate].
  - rewrite E. split; [congruence | intros [H _]; discriminate].
  - rewrite E. split; [congruence | intros [H _]; discriminate].
Qed.

(** _write_cog as seen from the file system *)
Lemma write_cog_fs_spec s shape g ya dest ow content :
  match norm_layout shape g ya with
  | Err e => write_cog_fs s shape g ya dest ow content = (s, Err e)
  | Ok _ =>
      match dest with
      | None => write_cog_fs s shape g ya dest ow content = (s, Ok tt)
      | Some p =>
          if fs_exists s p && negb ow
          then write_cog_fs s shape g ya dest ow content = (s, Err EIO)
          else exists s', write_cog_fs s shape g ya dest ow content = (s', Ok tt) /\
                          fs_lookup s' p = Some content /\
                          forall q, q <> p -> fs_lookup s' q = fs_lookup s q
      end
  end.
Proof.
  unfold write_cog_fs. destruct (norm_layout shape g ya) as [v|e]; [|reflexivity].
  destruct dest as [p|]; [|reflexivity].
  unfold check_write_path. destruct (fs_exists s p) eqn:Ex; destruct ow; simpl.
  - eexists; split; [reflexivity|]. split; [apply fs_lookup_write_same|].
    intros q Hq. rewrite fs_lookup_write_other by exact Hq. apply fs_lookup_unlink_other. exact Hq.
  - reflexivity.
  - eexists; split; [reflexivity|]. split; [apply fs_lookup_write_same|].
    intros q Hq. apply fs_lookup_write_other. exact Hq.
  - eexists; split; [reflexivity|]. split; [apply fs_lookup_write_same|].
    intros q Hq. apply fs_lookup_write_other. exact Hq.
Qed.

Lemma write_cog_layers_fs_guard s n ok p content :
  n <> 0 -> fs_exists s p = true ->
  write_cog_layers_fs s n ok (Some p) false content = (s, Err EIO).
Proof.
  intros Hn Ex. unfold write_cog_layers_fs, check_write_path.
  destruct (n =? 0) eqn:E; [apply Z.eqb_eq in E; contradiction|]. rewrite Ex. reflexivity.
Qed.

Lemma nodata_of_spec {A} (kw attr : option A) :
  nodata_of kw attr = match kw with Some v => Some v | None => attr end.
Proof. reflexivity. Qed.

(** * 6. statements used verbatim by Props/C15.v *)
Lemma layout_2d_thm h w ya b y x :
  (ya <> Some 1 -> norm_layout [h; w] (h, w) ya = Ok (L2d, (1, h, w))) /\
  src_index L2d (1, h, w) b y x = ravel [h; w] [y; x].
Proof. split; [apply norm_layout_2d_ok | apply src_index_2d]. Qed.

Lemma layout_2d_xy_thm h w b y x :
  norm_layout [w; h] (h, w) (Some 1) = Ok (L2dT, (1, h, w)) /\
  src_index L2dT (1, h, w) b y x = ravel [w; h] [x; y].
Proof. split; [apply norm_layout_2d_xy | apply src_index_2d_xy]. Qed.

Lemma layout_band_last_thm h w nb b y x :
  norm_layout [h; w; nb] (h, w) None = Ok (LBandLast, (nb, h, w)) /\
  norm_layout [h; w; nb] (h, w) (Some 0) = Ok (LBandLast, (nb, h, w)) /\
  src_index LBandLast (nb, h, w) b y x = ravel [h; w; nb] [y; x; b].
Proof.
  split; [apply norm_layout_band_last_guess|]. split; [apply norm_layout_band_last_known|].
  apply src_index_band_last.
Qed.

Lemma layout_band_first_thm nb h w b y x :
  ((nb, h) <> (h, w) -> norm_layout [nb; h; w] (h, w) None = Ok (LBandFirst, (nb, h, w))) /\
  norm_layout [nb; h; w] (h, w) (Some 1) = Ok (LBandFirst, (nb, h, w)) /\
  src_index LBandFirst (nb, h, w) b y x = ravel [nb; h; w] [b; y; x].
Proof.
  split; [apply norm_layout_band_first_guess|]. split; [apply norm_layout_band_first_known|].
  apply src_index_band_first.
Qed.

Lemma layout_map_onto_thm l nb h w :
  layout_dims_ok l (nb, h, w) -> 0 <= nb -> 0 <= h -> 0 <= w ->
  (forall b y x, sample_in_range (nb, h, w) b y x -> 0 <= src_index l (nb, h, w) b y x < nb * h * w) /\
  (forall t, 0 <= t < nb * h * w ->
     exists b y x, sample_in_range (nb, h, w) b y x /\ src_index l (nb, h, w) b y x = t) /\
  Permutation (readback_indices l (nb, h, w)) (zrange (nb * h * w)).
Proof.
  intros Hl Nb Nh Nw. split; [intros; apply src_index_bound; auto|].
  split; [intros; apply src_index_surj; auto | apply readback_is_permutation; auto].
Qed.

Lemma overview_levels_thm req w h :
  (forall l, req = Some l -> overview_levels req w h = l) /\
  (req = None -> Z.min w h < 512 -> overview_levels req w h = []) /\
  (req = None -> 512 <= w -> 512 <= h -> overview_levels req w h = [2; 4; 8; 16; 32]).
Proof.
  split; [intros l ->; reflexivity|]. split.
  - intros -> H. apply overview_levels_default_small; auto.
  - intros -> Hw Hh. apply overview_levels_default_large; auto.
Qed.

Lemma readback_generic {A File : Type}
      (enc : (Z * Z * Z) -> (Z -> Z -> Z -> A) -> File) (dec : File -> Z -> Z -> Z -> A)
      (contract : forall dims f b y x, sample_in_range dims b y x -> dec (enc dims f) b y x = f b y x)
      (pix : Z -> A) shape g ya l dims b y x :
  norm_layout shape g ya = Ok (l, dims) -> sample_in_range dims b y x ->
  dec (enc dims (fun b y x => pix (src_index l dims b y x))) b y x = pix (src_index l dims b y x).
Proof. intros _ R. apply contract. exact R. Qed.
