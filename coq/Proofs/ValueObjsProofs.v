(** Proofs for Model/ValueObjs.v: for every value type, [==] is an equivalence,
    equal objects have equal hash keys (on a class of CRS instances with
    unique spelling), equal tokens imply [==], unpickled clones are [==] with
    the same token.  The CRS laws assumed here are derived from the oracle
    contracts at the end of the file. *)
From Coq Require Import ZArith QArith Qabs List Bool Lia.
From OG Require Import Base.Result Base.Eqb Model.CrsCache Model.ValueObjs Proofs.CrsCacheProofs Proofs.CrsHistoryProofs.
Import ListNotations.
Open Scope Z_scope.

(** * numbers and lists *)
Lemma Qeq_bool_red a b : Qeq_bool a b = true <-> Qred a = Qred b.
Proof.
  rewrite Qeq_bool_iff. split; intros H.
  - apply Qred_complete; auto.
  - rewrite <- (Qred_correct a), <- (Qred_correct b). rewrite H. reflexivity.
Qed.

Lemma num_eqb_spec a b : num_eqb a b = true <-> num_key a = num_key b.
Proof. apply Qeq_bool_red. Qed.

Lemma list_eqb_key {A K} (e : A -> A -> bool) (k : A -> K) :
  (forall a b, e a b = true <-> k a = k b) ->
  forall l l', list_eqb e l l' = true <-> map k l = map k l'.
Proof.
  intros H. induction l as [|a r IH]; destruct l' as [|b r']; simpl; split; intros X; try discriminate; auto.
  - apply andb_true_iff in X. destruct X as (X1 & X2). f_equal; [apply H; auto | apply IH; auto].
  - inversion X. apply andb_true_iff. split; [apply H; auto | apply IH; auto].
Qed.

Lemma qlist_eqb_spec l l' : qlist_eqb l l' = true <-> map Qred l = map Qred l'.
Proof. apply list_eqb_key. apply Qeq_bool_red. Qed.

Lemma aff_eqb_spec A B : aff_eqb A B = true <-> map Qred (aff_list A) = map Qred (aff_list B).
Proof. apply qlist_eqb_spec. Qed.

Lemma zz_eqb_spec a b : zz_eqb a b = true <-> a = b.
Proof.
  destruct a as (a1 & a2), b as (b1 & b2). unfold zz_eqb; simpl. rewrite andb_true_iff, !Z.eqb_eq.
  split; [intros (-> & ->); auto | intros H; inversion H; auto].
Qed.

Lemma zlist_eqb_spec l l' : list_eqb Z.eqb l l' = true <-> l = l'.
Proof.
  rewrite (list_eqb_key Z.eqb (fun x => x)); [rewrite !map_id; tauto|]. intros; apply Z.eqb_eq.
Qed.

Lemma num_tok_key a b : num_tok a = num_tok b -> num_key a = num_key b.
Proof.
  destruct a as [x|x], b as [y|y]; simpl; intros H; inversion H; subst; auto.
Qed.

Lemma map_inj {A B} (f : A -> B) : (forall a b, f a = f b -> a = b) -> forall l l', map f l = map f l' -> l = l'.
Proof.
  intros H. induction l as [|a r IH]; destruct l' as [|b r']; simpl; intros X; try discriminate; auto.
  inversion X. f_equal; auto.
Qed.

Lemma aff_atoms_inj A B : aff_atoms A = aff_atoms B -> map Qred (aff_list A) = map Qred (aff_list B).
Proof.
  unfold aff_atoms. rewrite <- !(map_map Qred AFlt). apply map_inj. intros a b H; inversion H; auto.
Qed.

Lemma aff_atoms_of_key A B : map Qred (aff_list A) = map Qred (aff_list B) -> aff_atoms A = aff_atoms B.
Proof. unfold aff_atoms. rewrite <- !(map_map Qred AFlt). intros ->. reflexivity. Qed.

Lemma aff_atoms_length A : length (aff_atoms A) = 6%nat.
Proof. destruct A as (((((a & b) & c) & d) & e) & f). reflexivity. Qed.

Lemma app_inj_len {A} (a b c d : list A) : length a = length c -> a ++ b = c ++ d -> a = c /\ b = d.
Proof.
  revert c. induction a as [|x a IH]; destruct c as [|y c]; simpl; intros L H; try discriminate; auto.
  inversion H as [[Hx Hr]]; subst. inversion L as [Hl]. destruct (IH c Hl Hr) as (-> & ->). auto.
Qed.

Section Laws.
  Variable W : oracle.
  Variable D : crsv -> Prop.
  Variable reload : crsv -> crsv.
  Hypothesis L : crs_laws W D reload.

  Notation ocrs_eqb := (ocrs_eqb W).

  Definition oD (o : option crsv) : Prop := match o with Some c => D c | None => True end.

  Lemma ocrs_refl a : oD a -> ocrs_eqb a a = true.
  Proof. destruct a; simpl; auto. apply (cl_refl _ _ _ L). Qed.
  Lemma ocrs_sym a b : oD a -> oD b -> ocrs_eqb a b = true -> ocrs_eqb b a = true.
  Proof. destruct a, b; simpl; auto. apply (cl_sym _ _ _ L). Qed.
  Lemma ocrs_trans a b c : oD a -> oD b -> oD c -> ocrs_eqb a b = true -> ocrs_eqb b c = true -> ocrs_eqb a c = true.
  Proof. destruct a, b, c; simpl; auto; try discriminate. apply (cl_trans _ _ _ L). Qed.
  Lemma ocrs_tok a b : oD a -> oD b -> ocrs_str a = ocrs_str b -> ocrs_eqb a b = true.
  Proof. destruct a, b; simpl; auto; try discriminate. intros Da Db H. inversion H. apply (cl_tok _ _ _ L); auto. Qed.
  Lemma oD_reload a : oD a -> oD (ocrs_reload reload a).
  Proof. destruct a; simpl; auto. apply (cl_reload_D _ _ _ L). Qed.
  Lemma ocrs_reload_str a : oD a -> ocrs_str (ocrs_reload reload a) = ocrs_str a.
  Proof. destruct a; simpl; auto. intros Da. f_equal. apply (cl_reload_str _ _ _ L); auto. Qed.
  Lemma ocrs_reload_eq a : oD a -> ocrs_eqb (ocrs_reload reload a) a = true /\ ocrs_eqb a (ocrs_reload reload a) = true.
  Proof.
    intros Da. pose proof (oD_reload a Da) as Dr. pose proof (ocrs_reload_str a Da) as S.
    split; apply ocrs_tok; auto.
  Qed.

  Lemma ocrs_hash (Dh : crsv -> Prop) a b :
    hash_dom W Dh -> match a with Some c => Dh c | None => True end -> match b with Some c => Dh c | None => True end ->
    ocrs_eqb a b = true -> ocrs_str a = ocrs_str b.
  Proof. intros H. destruct a, b; simpl; auto; try discriminate. intros Da Db E. f_equal. apply H; auto. Qed.

  (** ** generic scheme: [eqb a b <-> R a b /\ crs a == crs b] for an equivalence [R] *)
  Section Typ.
    Variable A : Type.
    Variable eqb : A -> A -> bool.
    Variable R : A -> A -> Prop.
    Variable crs : A -> option crsv.
    Hypothesis R_refl : forall a, R a a.
    Hypothesis R_sym : forall a b, R a b -> R b a.
    Hypothesis R_trans : forall a b c, R a b -> R b c -> R a c.
    Hypothesis spec : forall a b, eqb a b = true <-> (R a b /\ ocrs_eqb (crs a) (crs b) = true).

    Definition ok (a : A) : Prop := oD (crs a).

    Lemma g_refl a : ok a -> eqb a a = true.
    Proof. intros Ha. apply spec. split; auto. apply ocrs_refl; auto. Qed.
    Lemma g_sym a b : ok a -> ok b -> eqb a b = true -> eqb b a = true.
    Proof. intros Ha Hb H. apply spec in H. destruct H as (H1 & H2). apply spec. split; auto. apply ocrs_sym; auto. Qed.
    Lemma g_trans a b c : ok a -> ok b -> ok c -> eqb a b = true -> eqb b c = true -> eqb a c = true.
    Proof.
      intros Ha Hb Hc H1 H2. apply spec in H1, H2. destruct H1 as (A1 & B1), H2 as (A2 & B2).
      apply spec. split; [eapply R_trans; eauto | apply (ocrs_trans (crs a) (crs b) (crs c)); auto].
    Qed.

    Variable hashkey : A -> list atom.
    Hypothesis hfact : forall a b, R a b -> ocrs_str (crs a) = ocrs_str (crs b) -> hashkey a = hashkey b.
    Lemma g_hash (Dh : crsv -> Prop) a b :
      hash_dom W Dh -> match crs a with Some c => Dh c | None => True end -> match crs b with Some c => Dh c | None => True end ->
      eqb a b = true -> hashkey a = hashkey b.
    Proof. intros H Da Db E. apply spec in E. destruct E as (E1 & E2). apply hfact; auto. eapply ocrs_hash; eauto. Qed.

    Variable token : A -> list atom.
    Hypothesis tinj : forall a b, token a = token b -> R a b /\ ocrs_str (crs a) = ocrs_str (crs b).
    Lemma g_tok a b : ok a -> ok b -> token a = token b -> eqb a b = true.
    Proof. intros Ha Hb H. apply tinj in H. destruct H as (H1 & H2). apply spec. split; auto. apply ocrs_tok; auto. Qed.

    Variable pk : A -> A.
    Hypothesis pk_R : forall a, R (pk a) a.
    Hypothesis pk_crs : forall a, crs (pk a) = ocrs_reload reload (crs a).
    Lemma g_pickle a : ok a -> ok (pk a) /\ eqb (pk a) a = true /\ eqb a (pk a) = true.
    Proof.
      intros Ha. unfold ok. rewrite pk_crs. split; [apply oD_reload; auto|].
      destruct (ocrs_reload_eq (crs a) Ha) as (E1 & E2).
      split; apply spec; rewrite pk_crs; split; auto.
    Qed.
  End Typ.

  (** ** BoundingBox *)
  Definition bbox_R (a b : bbox) : Prop := map num_key (bb_box a) = map num_key (bb_box b).
  Lemma bbox_spec a b : bbox_eqb W a b = true <-> (bbox_R a b /\ ocrs_eqb (bb_crs a) (bb_crs b) = true).
  Proof.
    unfold bbox_eqb, bbox_R. rewrite andb_true_iff, (list_eqb_key num_eqb num_key num_eqb_spec). tauto.
  Qed.
  Lemma bbox_hfact a b : bbox_R a b -> ocrs_str (bb_crs a) = ocrs_str (bb_crs b) -> bbox_hashkey a = bbox_hashkey b.
  Proof. unfold bbox_R, bbox_hashkey. intros H ->. f_equal. rewrite <- !(map_map num_key AFlt). rewrite H. reflexivity. Qed.
  Lemma bbox_tinj a b : bbox_token a = bbox_token b -> bbox_R a b /\ ocrs_str (bb_crs a) = ocrs_str (bb_crs b).
  Proof.
    unfold bbox_token, bbox_R. intros H. inversion H as [[H1 H2]]. split; auto.
    clear - H2. revert H2. generalize (bb_box a) (bb_box b). intros l.
    induction l as [|x r IH]; intros [|y r']; simpl; intros X; try discriminate; auto.
    inversion X. f_equal; [apply num_tok_key; auto | apply IH; auto].
  Qed.

  Definition bbox_ok (a : bbox) := oD (bb_crs a).
  Theorem bbox_laws :
    (forall a, bbox_ok a -> bbox_eqb W a a = true) /\
    (forall a b, bbox_ok a -> bbox_ok b -> bbox_eqb W a b = true -> bbox_eqb W b a = true) /\
    (forall a b c, bbox_ok a -> bbox_ok b -> bbox_ok c -> bbox_eqb W a b = true -> bbox_eqb W b c = true -> bbox_eqb W a c = true) /\
    (forall a b, bbox_ok a -> bbox_ok b -> bbox_token a = bbox_token b -> bbox_eqb W a b = true) /\
    (forall a, bbox_ok a -> bbox_ok (bbox_pickle reload a) /\ bbox_eqb W (bbox_pickle reload a) a = true /\
                          bbox_eqb W a (bbox_pickle reload a) = true /\ bbox_token (bbox_pickle reload a) = bbox_token a).
  Proof.
    assert (Rr : forall a, bbox_R a a) by (intros; reflexivity).
    assert (Rs : forall a b, bbox_R a b -> bbox_R b a) by (unfold bbox_R; intros; congruence).
    assert (Rt : forall a b c, bbox_R a b -> bbox_R b c -> bbox_R a c) by (unfold bbox_R; intros; congruence).
    split; [|split; [|split; [|split]]].
    - apply (g_refl bbox (bbox_eqb W) bbox_R bb_crs Rr bbox_spec).
    - apply (g_sym bbox (bbox_eqb W) bbox_R bb_crs Rs bbox_spec).
    - apply (g_trans bbox (bbox_eqb W) bbox_R bb_crs Rt bbox_spec).
    - apply (g_tok bbox (bbox_eqb W) bbox_R bb_crs bbox_spec bbox_token bbox_tinj).
    - intros a Ha.
      destruct (g_pickle bbox (bbox_eqb W) bbox_R bb_crs Rs bbox_spec (bbox_pickle reload)
                  ltac:(intros; reflexivity) ltac:(intros; reflexivity) a Ha) as (P1 & P2 & P3).
      repeat split; auto. unfold bbox_token, bbox_pickle; simpl. rewrite ocrs_reload_str; auto.
  Qed.

  Theorem bbox_hash (Dh : crsv -> Prop) a b :
    hash_dom W Dh -> match bb_crs a with Some c => Dh c | None => True end -> match bb_crs b with Some c => Dh c | None => True end ->
    bbox_eqb W a b = true -> bbox_hashkey a = bbox_hashkey b.
  Proof. apply (g_hash bbox (bbox_eqb W) bbox_R bb_crs bbox_spec bbox_hashkey bbox_hfact). Qed.

  (** ** GeoBox *)
  Definition geobox_R (a b : geobox) : Prop :=
    gb_shape a = gb_shape b /\ map Qred (aff_list (gb_aff a)) = map Qred (aff_list (gb_aff b)).
  Lemma geobox_spec a b : geobox_eqb W a b = true <-> (geobox_R a b /\ ocrs_eqb (gb_crs a) (gb_crs b) = true).
  Proof. unfold geobox_eqb, geobox_R. rewrite !andb_true_iff, zz_eqb_spec, aff_eqb_spec. tauto. Qed.
  Lemma geobox_hfact a b : geobox_R a b -> ocrs_str (gb_crs a) = ocrs_str (gb_crs b) -> geobox_hashkey a = geobox_hashkey b.
  Proof. unfold geobox_R, geobox_hashkey. intros (H1 & H2) ->. rewrite H1. rewrite (aff_atoms_of_key _ _ H2). reflexivity. Qed.
  Lemma geobox_tinj a b : geobox_token a = geobox_token b -> geobox_R a b /\ ocrs_str (gb_crs a) = ocrs_str (gb_crs b).
  Proof.
    unfold geobox_token, geobox_R. intros H. inversion H as [[H1 H2 H3 H4]]. split; auto. split.
    - destruct (gb_shape a), (gb_shape b); simpl in *; congruence.
    - apply aff_atoms_inj; auto.
  Qed.

  Definition geobox_ok (a : geobox) := oD (gb_crs a).
  Theorem geobox_laws :
    (forall a, geobox_ok a -> geobox_eqb W a a = true) /\
    (forall a b, geobox_ok a -> geobox_ok b -> geobox_eqb W a b = true -> geobox_eqb W b a = true) /\
    (forall a b c, geobox_ok a -> geobox_ok b -> geobox_ok c -> geobox_eqb W a b = true -> geobox_eqb W b c = true -> geobox_eqb W a c = true) /\
    (forall a b, geobox_ok a -> geobox_ok b -> geobox_token a = geobox_token b -> geobox_eqb W a b = true) /\
    (forall a, geobox_ok a -> geobox_ok (geobox_pickle reload a) /\ geobox_eqb W (geobox_pickle reload a) a = true /\
                            geobox_eqb W a (geobox_pickle reload a) = true /\ geobox_token (geobox_pickle reload a) = geobox_token a).
  Proof.
    assert (Rr : forall a, geobox_R a a) by (intros; split; reflexivity).
    assert (Rs : forall a b, geobox_R a b -> geobox_R b a) by (unfold geobox_R; intros a b (? & ?); split; congruence).
    assert (Rt : forall a b c, geobox_R a b -> geobox_R b c -> geobox_R a c) by (unfold geobox_R; intros a b c (? & ?) (? & ?); split; congruence).
    split; [|split; [|split; [|split]]].
    - apply (g_refl geobox (geobox_eqb W) geobox_R gb_crs Rr geobox_spec).
    - apply (g_sym geobox (geobox_eqb W) geobox_R gb_crs Rs geobox_spec).
    - apply (g_trans geobox (geobox_eqb W) geobox_R gb_crs Rt geobox_spec).
    - apply (g_tok geobox (geobox_eqb W) geobox_R gb_crs geobox_spec geobox_token geobox_tinj).
    - intros a Ha.
      destruct (g_pickle geobox (geobox_eqb W) geobox_R gb_crs Rs geobox_spec (geobox_pickle reload)
                  ltac:(intros; split; reflexivity) ltac:(intros; reflexivity) a Ha) as (P1 & P2 & P3).
      repeat split; auto. unfold geobox_token, geobox_pickle; simpl. rewrite ocrs_reload_str; auto.
  Qed.

  Theorem geobox_hash (Dh : crsv -> Prop) a b :
    hash_dom W Dh -> match gb_crs a with Some c => Dh c | None => True end -> match gb_crs b with Some c => Dh c | None => True end ->
    geobox_eqb W a b = true -> geobox_hashkey a = geobox_hashkey b.
  Proof. apply (g_hash geobox (geobox_eqb W) geobox_R gb_crs geobox_spec geobox_hashkey geobox_hfact). Qed.

  (** ** GCPGeoBox *)
  Definition gcpbox_R (a b : gcpbox) : Prop :=
    gc_shape a = gc_shape b /\ map Qred (aff_list (gc_aff a)) = map Qred (aff_list (gc_aff b)) /\
    map Qred (gm_pix (gc_map a)) = map Qred (gm_pix (gc_map b)) /\ map Qred (gm_wld (gc_map a)) = map Qred (gm_wld (gc_map b)).
  Definition gcpbox_crs (a : gcpbox) := gm_crs (gc_map a).
  Lemma gcpbox_spec a b : gcpbox_eqb W a b = true <-> (gcpbox_R a b /\ ocrs_eqb (gcpbox_crs a) (gcpbox_crs b) = true).
  Proof.
    unfold gcpbox_eqb, gcpmap_eqb, gcpbox_R, gcpbox_crs.
    rewrite !andb_true_iff, zz_eqb_spec, aff_eqb_spec, !qlist_eqb_spec. tauto.
  Qed.
  Lemma gcpbox_hfact a b : gcpbox_R a b -> ocrs_str (gcpbox_crs a) = ocrs_str (gcpbox_crs b) -> gcpbox_hashkey a = gcpbox_hashkey b.
  Proof.
    unfold gcpbox_R, gcpbox_hashkey, gcpmap_hashkey, gcpbox_crs. intros (H1 & H2 & H3 & H4) E.
    rewrite H1, (aff_atoms_of_key _ _ H2), E. do 4 f_equal.
    rewrite <- !(map_map Qred AFlt), !map_app, H3, H4. reflexivity.
  Qed.
  Lemma gcpbox_tinj a b : gcpbox_token a = gcpbox_token b -> gcpbox_R a b /\ ocrs_str (gcpbox_crs a) = ocrs_str (gcpbox_crs b).
  Proof.
    unfold gcpbox_token, gcpmap_token, gcpbox_R, gcpbox_crs. simpl. intros H.
    inversion H as [[H1 H2 H3 H4 H5 H6 H7 H8]]. split; auto. repeat split; auto.
    - destruct (gc_shape a), (gc_shape b); simpl in *; congruence.
    - apply aff_atoms_inj; auto.
  Qed.

  Definition gcpbox_ok (a : gcpbox) := oD (gcpbox_crs a).
  Theorem gcpbox_laws :
    (forall a, gcpbox_ok a -> gcpbox_eqb W a a = true) /\
    (forall a b, gcpbox_ok a -> gcpbox_ok b -> gcpbox_eqb W a b = true -> gcpbox_eqb W b a = true) /\
    (forall a b c, gcpbox_ok a -> gcpbox_ok b -> gcpbox_ok c -> gcpbox_eqb W a b = true -> gcpbox_eqb W b c = true -> gcpbox_eqb W a c = true) /\
    (forall a b, gcpbox_ok a -> gcpbox_ok b -> gcpbox_token a = gcpbox_token b -> gcpbox_eqb W a b = true) /\
    (forall a, gcpbox_ok a -> gcpbox_ok (gcpbox_pickle reload a) /\ gcpbox_eqb W (gcpbox_pickle reload a) a = true /\
                            gcpbox_eqb W a (gcpbox_pickle reload a) = true /\ gcpbox_token (gcpbox_pickle reload a) = gcpbox_token a).
  Proof.
    assert (Rr : forall a, gcpbox_R a a) by (intros; repeat split; reflexivity).
    assert (Rs : forall a b, gcpbox_R a b -> gcpbox_R b a) by (unfold gcpbox_R; intros a b (? & ? & ? & ?); repeat split; congruence).
    assert (Rt : forall a b c, gcpbox_R a b -> gcpbox_R b c -> gcpbox_R a c)
      by (unfold gcpbox_R; intros a b c (? & ? & ? & ?) (? & ? & ? & ?); repeat split; congruence).
    split; [|split; [|split; [|split]]].
    - apply (g_refl gcpbox (gcpbox_eqb W) gcpbox_R gcpbox_crs Rr gcpbox_spec).
    - apply (g_sym gcpbox (gcpbox_eqb W) gcpbox_R gcpbox_crs Rs gcpbox_spec).
    - apply (g_trans gcpbox (gcpbox_eqb W) gcpbox_R gcpbox_crs Rt gcpbox_spec).
    - apply (g_tok gcpbox (gcpbox_eqb W) gcpbox_R gcpbox_crs gcpbox_spec gcpbox_token gcpbox_tinj).
    - intros a Ha.
      destruct (g_pickle gcpbox (gcpbox_eqb W) gcpbox_R gcpbox_crs Rs gcpbox_spec (gcpbox_pickle reload)
                  ltac:(intros; repeat split; reflexivity) ltac:(intros; reflexivity) a Ha) as (P1 & P2 & P3).
      repeat split; auto. unfold gcpbox_token, gcpmap_token, gcpbox_pickle, gcpmap_pickle; simpl.
      rewrite ocrs_reload_str; auto.
  Qed.

  Theorem gcpbox_hash (Dh : crsv -> Prop) a b :
    hash_dom W Dh -> match gcpbox_crs a with Some c => Dh c | None => True end -> match gcpbox_crs b with Some c => Dh c | None => True end ->
    gcpbox_eqb W a b = true -> gcpbox_hashkey a = gcpbox_hashkey b.
  Proof. apply (g_hash gcpbox (gcpbox_eqb W) gcpbox_R gcpbox_crs gcpbox_spec gcpbox_hashkey gcpbox_hfact). Qed.

  (** ** Geometry (shapely equality is an oracle) *)
  Section Geom.
    Variable G : Type.
    Variable geq : G -> G -> bool.
    Variable gjson : G -> Z.
    Variable gload : Z -> G.
    Hypothesis GL : geom_laws geq gjson gload.

    Definition geom_R (a b : geometry G) : Prop := geq (g_geom G a) (g_geom G b) = true.
    Lemma geom_spec a b : geom_eqb W G geq a b = true <-> (geom_R a b /\ ocrs_eqb (g_crs G a) (g_crs G b) = true).
    Proof. unfold geom_eqb, geom_R. rewrite andb_true_iff. tauto. Qed.
    Lemma geom_tinj a b : geom_token G gjson a = geom_token G gjson b -> geom_R a b /\ ocrs_str (g_crs G a) = ocrs_str (g_crs G b).
    Proof.
      unfold geom_token, geom_R. intros H. inversion H as [[H1 H2]]. split; auto.
      eapply (gl_trans _ _ _ GL); [apply (gl_sym _ _ _ GL), (gl_load _ _ _ GL)|].
      rewrite H1. apply (gl_load _ _ _ GL).
    Qed.

    Definition geom_ok (a : geometry G) := oD (g_crs G a).
    Theorem geom_laws_thm :
      (forall a, geom_ok a -> geom_eqb W G geq a a = true) /\
      (forall a b, geom_ok a -> geom_ok b -> geom_eqb W G geq a b = true -> geom_eqb W G geq b a = true) /\
      (forall a b c, geom_ok a -> geom_ok b -> geom_ok c -> geom_eqb W G geq a b = true -> geom_eqb W G geq b c = true -> geom_eqb W G geq a c = true) /\
      (forall a b, geom_ok a -> geom_ok b -> geom_token G gjson a = geom_token G gjson b -> geom_eqb W G geq a b = true) /\
      (forall a, geom_ok a -> geom_ok (geom_pickle reload G gjson gload a) /\
                            geom_eqb W G geq (geom_pickle reload G gjson gload a) a = true /\
                            geom_eqb W G geq a (geom_pickle reload G gjson gload a) = true /\
                            geom_token G gjson (geom_pickle reload G gjson gload a) = geom_token G gjson a).
    Proof.
      assert (Rr : forall a, geom_R a a) by (intros; apply (gl_refl _ _ _ GL)).
      assert (Rs : forall a b, geom_R a b -> geom_R b a) by (intros a b; apply (gl_sym _ _ _ GL)).
      assert (Rt : forall a b c, geom_R a b -> geom_R b c -> geom_R a c) by (intros a b c; apply (gl_trans _ _ _ GL)).
      split; [|split; [|split; [|split]]].
      - apply (g_refl (geometry G) (geom_eqb W G geq) geom_R (g_crs G) Rr geom_spec).
      - apply (g_sym (geometry G) (geom_eqb W G geq) geom_R (g_crs G) Rs geom_spec).
      - apply (g_trans (geometry G) (geom_eqb W G geq) geom_R (g_crs G) Rt geom_spec).
      - apply (g_tok (geometry G) (geom_eqb W G geq) geom_R (g_crs G) geom_spec (geom_token G gjson) geom_tinj).
      - intros a Ha.
        destruct (g_pickle (geometry G) (geom_eqb W G geq) geom_R (g_crs G) Rs geom_spec (geom_pickle reload G gjson gload)
                    ltac:(intros x; unfold geom_R; simpl; apply (gl_load _ _ _ GL)) ltac:(intros; reflexivity) a Ha) as (P1 & P2 & P3).
        repeat split; auto. unfold geom_token, geom_pickle; simpl.
        rewrite ocrs_reload_str; auto. rewrite (gl_json _ _ _ GL). reflexivity.
    Qed.
  End Geom.

  (** ** GeoboxTiles *)
  Definition anybox_crs (a : anybox) : option crsv := match a with BGeo g => gb_crs g | BGcp g => gcpbox_crs g end.
  Definition anybox_R (a b : anybox) : Prop :=
    match a, b with BGeo x, BGeo y => geobox_R x y | BGcp x, BGcp y => gcpbox_R x y | _, _ => False end.
  Definition anytiles_R (a b : anytiles) : Prop :=
    match a, b with TReg x, TReg y => x = y | TVar x, TVar y => x = y | _, _ => False end.

  Lemma tiles_eqb_spec a b : tiles_eqb a b = true <-> a = b.
  Proof.
    unfold tiles_eqb. rewrite andb_true_iff, !zz_eqb_spec. destruct a, b; simpl.
    split; [intros (-> & ->); auto | intros H; inversion H; auto].
  Qed.
  Lemma vtiles_eqb_spec a b : vtiles_eqb a b = true <-> a = b.
  Proof.
    unfold vtiles_eqb. rewrite andb_true_iff, !zlist_eqb_spec. destruct a, b; simpl.
    split; [intros (-> & ->); auto | intros H; inversion H; auto].
  Qed.
  Lemma anytiles_spec a b : anytiles_eqb a b = true <-> anytiles_R a b.
  Proof.
    destruct a, b; simpl; try (split; [discriminate | tauto]).
    - apply tiles_eqb_spec.
    - apply vtiles_eqb_spec.
  Qed.
  Lemma anybox_spec a b : anybox_eqb W a b = true <-> (anybox_R a b /\ ocrs_eqb (anybox_crs a) (anybox_crs b) = true).
  Proof.
    destruct a, b; simpl; try (split; [discriminate | tauto]).
    - apply geobox_spec.
    - apply gcpbox_spec.
  Qed.

  Definition gbtiles_R (a b : gbtiles) : Prop := anytiles_R (gt_tiles a) (gt_tiles b) /\ anybox_R (gt_box a) (gt_box b).
  Definition gbtiles_crs (a : gbtiles) := anybox_crs (gt_box a).
  Lemma gbtiles_spec a b : gbtiles_eqb W a b = true <-> (gbtiles_R a b /\ ocrs_eqb (gbtiles_crs a) (gbtiles_crs b) = true).
  Proof. unfold gbtiles_eqb, gbtiles_R, gbtiles_crs. rewrite andb_true_iff, anytiles_spec, anybox_spec. tauto. Qed.

  Lemma geobox_token_length g : length (geobox_token g) = 9%nat.
  Proof. unfold geobox_token. simpl. rewrite aff_atoms_length. reflexivity. Qed.
  Lemma gcpbox_token_length g : length (gcpbox_token g) = 11%nat.
  Proof. unfold gcpbox_token, gcpmap_token. simpl. rewrite aff_atoms_length. reflexivity. Qed.

  Lemma tiles_token_inj a b : tiles_token a = tiles_token b -> a = b.
  Proof.
    destruct a as [[a1 a2] [a3 a4]], b as [[b1 b2] [b3 b4]]. unfold tiles_token; simpl. intros H; inversion H; reflexivity.
  Qed.
  Lemma vtiles_token_inj a b : vtiles_token a = vtiles_token b -> a = b.
  Proof. destruct a, b. unfold vtiles_token; simpl. intros H; inversion H; reflexivity. Qed.

  Lemma gbtiles_tinj a b : gbtiles_token a = gbtiles_token b -> gbtiles_R a b /\ ocrs_str (gbtiles_crs a) = ocrs_str (gbtiles_crs b).
  Proof.
    unfold gbtiles_token, gbtiles_R, gbtiles_crs.
    destruct a as [ba ta], b as [bb tb]; cbn [gt_box gt_tiles].
    destruct ba as [ga|ga], bb as [gb|gb]; cbn [anybox_token anybox_crs anybox_R]; intros H.
    - apply app_inj_len in H; [|rewrite !geobox_token_length; reflexivity]. destruct H as (H1 & H2).
      apply geobox_tinj in H1. destruct H1 as (H1 & H3). split; auto. split; auto.
      destruct ta, tb; simpl in *; try discriminate; [apply tiles_token_inj | apply vtiles_token_inj]; auto.
    - exfalso. unfold geobox_token, gcpbox_token, gcpmap_token in H. simpl in H. inversion H.
    - exfalso. unfold geobox_token, gcpbox_token, gcpmap_token in H. simpl in H. inversion H.
    - apply app_inj_len in H; [|rewrite !gcpbox_token_length; reflexivity]. destruct H as (H1 & H2).
      apply gcpbox_tinj in H1. destruct H1 as (H1 & H3). split; auto. split; auto.
      destruct ta, tb; simpl in *; try discriminate; [apply tiles_token_inj | apply vtiles_token_inj]; auto.
  Qed.

  Definition gbtiles_ok (a : gbtiles) := oD (gbtiles_crs a).
  Theorem gbtiles_laws :
    (forall a, gbtiles_ok a -> gbtiles_eqb W a a = true) /\
    (forall a b, gbtiles_ok a -> gbtiles_ok b -> gbtiles_eqb W a b = true -> gbtiles_eqb W b a = true) /\
    (forall a b c, gbtiles_ok a -> gbtiles_ok b -> gbtiles_ok c -> gbtiles_eqb W a b = true -> gbtiles_eqb W b c = true -> gbtiles_eqb W a c = true) /\
    (forall a b, gbtiles_ok a -> gbtiles_ok b -> gbtiles_token a = gbtiles_token b -> gbtiles_eqb W a b = true) /\
    (forall a, gbtiles_ok a -> gbtiles_ok (gbtiles_pickle reload a) /\ gbtiles_eqb W (gbtiles_pickle reload a) a = true /\
                             gbtiles_eqb W a (gbtiles_pickle reload a) = true /\ gbtiles_token (gbtiles_pickle reload a) = gbtiles_token a).
  Proof.
    assert (Br : forall a, anybox_R a a) by (destruct a; simpl; repeat split; reflexivity).
    assert (Bs : forall a b, anybox_R a b -> anybox_R b a).
    { destruct a, b; simpl; auto; unfold geobox_R, gcpbox_R; intuition congruence. }
    assert (Bt : forall a b c, anybox_R a b -> anybox_R b c -> anybox_R a c).
    { destruct a, b, c; simpl; try tauto; unfold geobox_R, gcpbox_R; intuition congruence. }
    assert (Tr : forall a, anytiles_R a a) by (destruct a; simpl; reflexivity).
    assert (Ts : forall a b, anytiles_R a b -> anytiles_R b a) by (destruct a, b; simpl; auto).
    assert (Tt : forall a b c, anytiles_R a b -> anytiles_R b c -> anytiles_R a c) by (destruct a, b, c; simpl; try tauto; congruence).
    assert (Rr : forall a, gbtiles_R a a) by (intros; split; auto).
    assert (Rs : forall a b, gbtiles_R a b -> gbtiles_R b a) by (intros a b (? & ?); split; auto).
    assert (Rt : forall a b c, gbtiles_R a b -> gbtiles_R b c -> gbtiles_R a c) by (intros a b c (? & ?) (? & ?); split; eauto).
    split; [|split; [|split; [|split]]].
    - apply (g_refl gbtiles (gbtiles_eqb W) gbtiles_R gbtiles_crs Rr gbtiles_spec).
    - apply (g_sym gbtiles (gbtiles_eqb W) gbtiles_R gbtiles_crs Rs gbtiles_spec).
    - apply (g_trans gbtiles (gbtiles_eqb W) gbtiles_R gbtiles_crs Rt gbtiles_spec).
    - apply (g_tok gbtiles (gbtiles_eqb W) gbtiles_R gbtiles_crs gbtiles_spec gbtiles_token gbtiles_tinj).
    - intros a Ha.
      destruct (g_pickle gbtiles (gbtiles_eqb W) gbtiles_R gbtiles_crs Rs gbtiles_spec (gbtiles_pickle reload)
                  ltac:(intros x; split; simpl; [apply Tr | destruct (gt_box x); simpl; repeat split; reflexivity])
                  ltac:(intros x; unfold gbtiles_crs; simpl; destruct (gt_box x); reflexivity) a Ha) as (P1 & P2 & P3).
      repeat split; auto. unfold gbtiles_token, gbtiles_pickle; simpl. f_equal.
      unfold gbtiles_ok, gbtiles_crs in Ha.
      destruct (gt_box a); simpl in *.
      + unfold geobox_token, geobox_pickle; simpl. rewrite ocrs_reload_str; auto.
      + unfold gcpbox_token, gcpmap_token, gcpbox_pickle, gcpmap_pickle; simpl. rewrite ocrs_reload_str; auto.
  Qed.

  (** ** GridSpec *)
  Definition bin_key (b : bin1d) := (Qred (fst (fst b)), num_key (snd (fst b)), snd b).
  Lemma bin_eqb_spec a b : bin_eqb a b = true <-> bin_key a = bin_key b.
  Proof.
    destruct a as [[s o] d], b as [[s' o'] d']. unfold bin_eqb, bin_key; simpl.
    rewrite !andb_true_iff, Qeq_bool_red, num_eqb_spec, Z.eqb_eq.
    split; [intros ((-> & ->) & ->); auto | intros H; inversion H; auto].
  Qed.
  Definition gridspec_R (a b : gridspec) : Prop :=
    gs_shape a = gs_shape b /\ bin_key (gs_ybin a) = bin_key (gs_ybin b) /\ bin_key (gs_xbin a) = bin_key (gs_xbin b).
  Definition gridspec_crs (a : gridspec) := Some (gs_crs a).
  Lemma gridspec_spec a b : gridspec_eqb W a b = true <-> (gridspec_R a b /\ ocrs_eqb (gridspec_crs a) (gridspec_crs b) = true).
  Proof. unfold gridspec_eqb, gridspec_R, gridspec_crs. simpl. rewrite !andb_true_iff, zz_eqb_spec, !bin_eqb_spec. tauto. Qed.

  Lemma Qred_mul_abs n a b : Qred a = Qred b -> Qred (inject_Z n * Qabs a) = Qred (inject_Z n * Qabs b).
  Proof.
    intros H. apply Qred_complete.
    assert (E : a == b) by (rewrite <- (Qred_correct a), <- (Qred_correct b), H; reflexivity).
    rewrite E. reflexivity.
  Qed.

  Lemma gridspec_tinj a b : gridspec_token a = gridspec_token b -> gridspec_R a b /\ ocrs_str (gridspec_crs a) = ocrs_str (gridspec_crs b).
  Proof.
    unfold gridspec_token, gridspec_R, gridspec_crs. intros H. inversion H as [[H1 H2 H3 H4 H5 H6 H7 H8 H9]].
    split; [|simpl; congruence].
    assert (Es : gs_shape a = gs_shape b) by (destruct (gs_shape a), (gs_shape b); simpl in *; congruence).
    split; auto. unfold gs_ybin, gs_xbin, bin_key; cbn [fst snd]. rewrite Es, H8, H9.
    rewrite (Qred_mul_abs _ _ _ H5), (Qred_mul_abs _ _ _ H4), (num_tok_key _ _ H6), (num_tok_key _ _ H7). auto.
  Qed.

  Definition gridspec_ok (a : gridspec) := D (gs_crs a).
  Theorem gridspec_laws :
    (forall a, gridspec_ok a -> gridspec_eqb W a a = true) /\
    (forall a b, gridspec_ok a -> gridspec_ok b -> gridspec_eqb W a b = true -> gridspec_eqb W b a = true) /\
    (forall a b c, gridspec_ok a -> gridspec_ok b -> gridspec_ok c -> gridspec_eqb W a b = true -> gridspec_eqb W b c = true -> gridspec_eqb W a c = true) /\
    (forall a b, gridspec_ok a -> gridspec_ok b -> gridspec_token a = gridspec_token b -> gridspec_eqb W a b = true) /\
    (forall a, gridspec_ok a -> gridspec_ok (gridspec_pickle reload a) /\ gridspec_eqb W (gridspec_pickle reload a) a = true /\
                              gridspec_eqb W a (gridspec_pickle reload a) = true /\ gridspec_token (gridspec_pickle reload a) = gridspec_token a).
  Proof.
    assert (Rr : forall a, gridspec_R a a) by (intros; repeat split; reflexivity).
    assert (Rs : forall a b, gridspec_R a b -> gridspec_R b a) by (unfold gridspec_R; intros a b (? & ? & ?); repeat split; congruence).
    assert (Rt : forall a b c, gridspec_R a b -> gridspec_R b c -> gridspec_R a c)
      by (unfold gridspec_R; intros a b c (? & ? & ?) (? & ? & ?); repeat split; congruence).
    split; [|split; [|split; [|split]]].
    - apply (g_refl gridspec (gridspec_eqb W) gridspec_R gridspec_crs Rr gridspec_spec).
    - apply (g_sym gridspec (gridspec_eqb W) gridspec_R gridspec_crs Rs gridspec_spec).
    - apply (g_trans gridspec (gridspec_eqb W) gridspec_R gridspec_crs Rt gridspec_spec).
    - apply (g_tok gridspec (gridspec_eqb W) gridspec_R gridspec_crs gridspec_spec gridspec_token gridspec_tinj).
    - intros a Ha.
      destruct (g_pickle gridspec (gridspec_eqb W) gridspec_R gridspec_crs Rs gridspec_spec (gridspec_pickle reload)
                  ltac:(intros; repeat split; reflexivity) ltac:(intros; reflexivity) a Ha) as (P1 & P2 & P3).
      repeat split; auto. unfold gridspec_token, gridspec_pickle; simpl.
      rewrite (cl_reload_str _ _ _ L); auto.
  Qed.

  (** ** CRS instances themselves *)
  Theorem crs_value_laws :
    (forall a, D a -> crs_eq W a a = true) /\
    (forall a b, D a -> D b -> crs_eq W a b = true -> crs_eq W b a = true) /\
    (forall a b c, D a -> D b -> D c -> crs_eq W a b = true -> crs_eq W b c = true -> crs_eq W a c = true) /\
    (forall a b, D a -> D b -> crs_token a = crs_token b -> crs_eq W a b = true) /\
    (forall a, D a -> D (reload a) /\ crs_eq W (reload a) a = true /\ crs_eq W a (reload a) = true /\ crs_token (reload a) = crs_token a).
  Proof.
    split; [apply (cl_refl _ _ _ L)|]. split; [apply (cl_sym _ _ _ L)|]. split; [apply (cl_trans _ _ _ L)|].
    split; [apply (cl_tok _ _ _ L)|].
    intros a Da. pose proof (cl_reload_D _ _ _ L a Da) as Dr. pose proof (cl_reload_str _ _ _ L a Da) as S.
    repeat split; auto; apply (cl_tok _ _ _ L); auto.
  Qed.
End Laws.

(** * types without a CRS component *)
Theorem tiles_laws :
  (forall a, tiles_eqb a a = true) /\ (forall a b, tiles_eqb a b = true -> tiles_eqb b a = true) /\
  (forall a b c, tiles_eqb a b = true -> tiles_eqb b c = true -> tiles_eqb a c = true) /\
  (forall a b, tiles_token a = tiles_token b -> tiles_eqb a b = true) /\
  (forall a b, tiles_eqb a b = true -> tiles_token a = tiles_token b).
Proof.
  repeat split; intros.
  - apply tiles_eqb_spec; auto.
  - apply tiles_eqb_spec. apply tiles_eqb_spec in H. auto.
  - apply tiles_eqb_spec. apply tiles_eqb_spec in H, H0. congruence.
  - apply tiles_eqb_spec. apply tiles_token_inj; auto.
  - apply tiles_eqb_spec in H. subst; auto.
Qed.

Theorem vtiles_laws :
  (forall a, vtiles_eqb a a = true) /\ (forall a b, vtiles_eqb a b = true -> vtiles_eqb b a = true) /\
  (forall a b c, vtiles_eqb a b = true -> vtiles_eqb b c = true -> vtiles_eqb a c = true) /\
  (forall a b, vtiles_token a = vtiles_token b -> vtiles_eqb a b = true) /\
  (forall a b, vtiles_eqb a b = true -> vtiles_token a = vtiles_token b).
Proof.
  repeat split; intros.
  - apply vtiles_eqb_spec; auto.
  - apply vtiles_eqb_spec. apply vtiles_eqb_spec in H. auto.
  - apply vtiles_eqb_spec. apply vtiles_eqb_spec in H, H0. congruence.
  - apply vtiles_eqb_spec. apply vtiles_token_inj; auto.
  - apply vtiles_eqb_spec in H. subst; auto.
Qed.

Lemma xy_eqb_spec a b : xy_eqb a b = true <-> (num_key (xy_x a) = num_key (xy_x b) /\ num_key (xy_y a) = num_key (xy_y b)).
Proof. unfold xy_eqb. rewrite andb_true_iff, !num_eqb_spec. tauto. Qed.

Theorem xy_laws :
  (forall a, xy_eqb a a = true) /\ (forall a b, xy_eqb a b = true -> xy_eqb b a = true) /\
  (forall a b c, xy_eqb a b = true -> xy_eqb b c = true -> xy_eqb a c = true) /\
  (forall a b, xy_eqb a b = true -> xy_hashkey a = xy_hashkey b) /\
  (forall a b, xy_token a = xy_token b -> xy_eqb a b = true).
Proof.
  repeat split; intros.
  - apply xy_eqb_spec; auto.
  - apply xy_eqb_spec. apply xy_eqb_spec in H. destruct H; split; congruence.
  - apply xy_eqb_spec. apply xy_eqb_spec in H, H0. destruct H, H0. split; congruence.
  - apply xy_eqb_spec in H. destruct H as (H1 & H2). unfold xy_hashkey. rewrite H1, H2. reflexivity.
  - apply xy_eqb_spec. unfold xy_token in H. inversion H. split; apply num_tok_key; auto.
Qed.

(** the token of Tiles before e4d4a4b did not determine the tiling *)
Theorem tiles_token_v0_collides :
  exists a b, tiles_eqb a b = false /\ tiles_token_v0 a = tiles_token_v0 b.
Proof. exists (mkTiles (10, 10) (4, 4)), (mkTiles (11, 10) (4, 4)). split; reflexivity. Qed.

(** * the CRS laws hold for the instances living in one heap, under the oracle contracts *)
Section FromContracts.
  Variable W : oracle.
  Hypothesis K : contracts W.
  (** [Hp]: the heap (id -> srs) the instances live in *)
  Variable Hp : Z -> option text.

  Definition Dcrs (v : crsv) : Prop :=
    var_ok W v /\ o_prep W (c_srs v) = Some (c_srs v) /\ Hp (c_id v) = Some (c_srs v).

  Lemma Dcrs_iff a b : Dcrs a -> Dcrs b -> (crs_eq W a b = true <-> o_peq W (c_srs a) (c_srs b) = true).
  Proof.
    intros (Oa & Va & Ha) (Ob & Vb & Hb). apply (crs_eq_iff_peq W K); auto.
    intros E. rewrite E in Ha. congruence.
  Qed.

  Theorem crs_laws_from_contracts reload :
    (forall v, Dcrs v -> Dcrs (reload v) /\ c_str (reload v) = c_str v) ->
    crs_laws W Dcrs reload.
  Proof.
    intros Hr. constructor.
    - intros a Da. apply (Dcrs_iff a a Da Da). apply (k_refl W K).
    - intros a b Da Db H. apply (Dcrs_iff b a Db Da). apply (k_sym W K). apply (Dcrs_iff a b Da Db); auto.
    - intros a b c Da Db Dc H1 H2. apply (Dcrs_iff a c Da Dc).
      eapply (k_trans W K); [apply (Dcrs_iff a b Da Db) | apply (Dcrs_iff b c Db Dc)]; auto.
    - intros a b Da Db E. apply (Dcrs_iff a b Da Db).
      destruct Da as ((_ & Sa) & Va & _), Db as ((_ & Sb) & Vb & _). rewrite Sa, Sb in E.
      apply (fresh_str_peq W K); auto.
    - intros a Da. apply Hr; auto.
    - intros a Da. apply Hr; auto.
  Qed.

  (** instances spelled as a single EPSG code ("EPSG:" followed by digits - not a compound "EPSG:h+v" definition):
      [==] implies equal [_str], hence equal hashes *)
  Definition Depsg (v : crsv) : Prop :=
    Dcrs v /\ o_is_epsg W (o_upper W (c_srs v)) = true /\ o_code W (o_upper W (c_srs v)) <> 0.

  Theorem hash_dom_epsg : hash_dom W Depsg.
  Proof.
    intros a b (Da & Ea & Na) (Db & Eb & Nb) H. apply (Dcrs_iff a b Da Db) in H.
    destruct Da as ((_ & Sa) & Va & _), Db as ((_ & Sb) & Vb & _). rewrite Sa, Sb. unfold fresh_str. rewrite Ea, Eb.
    pose proof (k_code_text W K _ Ea Na Va) as Ta. pose proof (k_code_text W K _ Eb Nb Vb) as Tb.
    pose proof (k_toepsg_code W K _ Ea Na Va) as Ca. pose proof (k_toepsg_code W K _ Eb Nb Vb) as Cb.
    pose proof (k_toepsg_peq W K _ _ _ _ H Ca Cb Na Nb) as E. rewrite Ta, Tb, E. reflexivity.
  Qed.
End FromContracts.

(** the CRS instances of a reachable state live in its heap *)
Fixpoint hfun (h : list (Z * text)) (id : Z) : option text :=
  match h with [] => None | (i, s) :: r => if i =? id then Some s else hfun r id end.

Lemma hfun_In h i s : NoDup (map fst h) -> In (i, s) h -> hfun h i = Some s.
Proof.
  induction h as [|[j t] r IH]; simpl; intros Hn Hin; [tauto|].
  inversion Hn as [|? ? Hnot Hr]; subst.
  destruct Hin as [Hin|Hin].
  - inversion Hin; subst. rewrite Z.eqb_refl. reflexivity.
  - destruct (Z.eqb_spec j i) as [->|Ne]; auto.
    exfalso. apply Hnot. apply in_map_iff. exists (i, s); auto.
Qed.

Theorem reachable_vars_in_D W (K : contracts W) h v :
  In (Some v) (vars (run W init h)) -> Dcrs W (hfun (heap (run W init h))) v.
Proof.
  intros Hin. pose proof (run_good W K h _ (good_init W)) as G.
  split; [apply (g_vars W _ G); auto|]. split; [eapply var_valid; eauto|].
  destruct (inv_vars _ (g_inv W _ G) v Hin) as (A & _).
  apply hfun_In; auto. apply (inv_nodup _ (g_inv W _ G)).
Qed.
