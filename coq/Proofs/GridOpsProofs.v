(** Lemmas about Model/GridOps.v (property C16). *)
From Coq Require Import ZArith QArith Qround Qabs Qminmax List Bool Lia Lqa Setoid Morphisms.
From OG Require Import Base.Result Base.QZ Base.Aff2 Model.Tagged Model.GridOps.
Import ListNotations.
Open Scope Q_scope.

(** * Scalar helpers *)

Lemma Qltb_true x y : Qltb x y = true <-> x < y.
Proof.
  unfold Qltb. rewrite negb_true_iff. split; intros H.
  - apply Qle_bool_false; exact H.
  - apply Qle_bool_false; exact H.
Qed.

Lemma Qltb_false x y : Qltb x y = false <-> y <= x.
Proof. unfold Qltb. rewrite negb_false_iff. apply Qle_bool_iff. Qed.

Global Instance Qltb_comp : Proper (Qeq ==> Qeq ==> eq) Qltb.
Proof. intros x x' Hx y y' Hy. unfold Qltb. rewrite Hx, Hy. reflexivity. Qed.

Lemma isclose_spec atol rtol a b :
  isclose atol rtol a b = true <-> Qabs (a - b) <= atol + rtol * Qabs b.
Proof. unfold isclose. apply Qle_bool_iff. Qed.

Global Instance isclose_comp : Proper (Qeq ==> Qeq ==> Qeq ==> Qeq ==> eq) isclose.
Proof.
  intros a a' Ha r r' Hr x x' Hx y y' Hy. unfold isclose. rewrite Ha, Hr, Hx, Hy. reflexivity.
Qed.

Lemma isclose_refl atol rtol a : 0 <= atol -> 0 <= rtol -> isclose atol rtol a a = true.
Proof.
  intros H1 H2. apply isclose_spec.
  assert (E : a - a == 0) by ring. rewrite E. simpl Qabs at 1.
  pose proof (Qabs_nonneg a). nra.
Qed.

Global Instance Qtrunc_comp : Proper (Qeq ==> eq) Qtrunc.
Proof.
  intros x y H. unfold Qtrunc. rewrite (Qfloor_comp x y H), (Qceiling_comp x y H).
  rewrite (Qleb_comp 0 0 (Qeq_refl 0) x y H). reflexivity.
Qed.

Global Instance fmod1_comp : Proper (Qeq ==> Qeq) fmod1.
Proof. intros x y H. unfold fmod1. rewrite (Qtrunc_comp x y H), H. reflexivity. Qed.

Global Instance is_almost_int_comp : Proper (Qeq ==> Qeq ==> eq) is_almost_int.
Proof.
  intros x y H t t' Ht. unfold is_almost_int.
  assert (E : Qabs (fmod1 x) == Qabs (fmod1 y)) by (rewrite H; reflexivity).
  rewrite (Qltb_comp _ _ (Qeq_refl (1 # 2)) _ _ E).
  destruct (Qltb (1 # 2) (Qabs (fmod1 y))); apply Qltb_comp; try assumption; rewrite E; reflexivity.
Qed.

Global Instance py_round_comp : Proper (Qeq ==> eq) py_round.
Proof.
  intros x y H. unfold py_round. rewrite (Qfloor_comp x y H).
  assert (E : x - inject_Z (Qfloor y) == y - inject_Z (Qfloor y)) by (rewrite H; reflexivity).
  rewrite (Qltb_comp _ _ E _ _ (Qeq_refl _)), (Qltb_comp _ _ (Qeq_refl _) _ _ E). reflexivity.
Qed.

Global Instance maybe_zero_comp : Proper (Qeq ==> Qeq ==> Qeq) maybe_zero.
Proof.
  intros x y H t t' Ht. unfold maybe_zero.
  assert (E : Qabs x == Qabs y) by (rewrite H; reflexivity).
  rewrite (Qltb_comp _ _ E _ _ Ht). destruct (Qltb _ _); [reflexivity | exact H].
Qed.

Lemma Qtrunc_Z z : Qtrunc (inject_Z z) = z.
Proof. unfold Qtrunc. destruct (Qle_bool 0 (inject_Z z)); [apply Qfloor_Z | apply Qceiling_Z]. Qed.

Lemma fmod1_Z z : fmod1 (inject_Z z) == 0.
Proof. unfold fmod1. rewrite Qtrunc_Z. ring. Qed.

Lemma py_round_Z z : py_round (inject_Z z) = z.
Proof.
  unfold py_round. rewrite Qfloor_Z.
  assert (E : inject_Z z - inject_Z z == 0) by ring. rewrite E. reflexivity.
Qed.

(** |fmod(x,1)|, folded at 1/2, is the distance to the nearest integer *)
Lemma fmod1_cases x :
  exists t : Q, t = inject_Z (Qtrunc x) /\
    ((0 <= x /\ t <= x /\ x < t + 1) \/ (x < 0 /\ t - 1 < x /\ x <= t)).
Proof.
  exists (inject_Z (Qtrunc x)). split; [reflexivity|]. unfold Qtrunc.
  destruct (Qle_bool 0 x) eqn:E.
  - apply Qle_bool_iff in E. left.
    destruct (Qfloor_spec x) as (f & Ef & H1 & H2). rewrite <- Ef. auto.
  - apply Qle_bool_false in E. right.
    destruct (Qceiling_spec x) as (c & Ec & H1 & H2). rewrite <- Ec. auto.
Qed.

Lemma Z_between_false (n t : Z) : (t < n)%Z -> (n < t + 1)%Z -> False.
Proof. lia. Qed.

Lemma Qabs_lt_intro x y : - y < x -> x < y -> Qabs x < y.
Proof. intros; apply Qabs_Qlt_condition; split; assumption. Qed.

Lemma Qabs_lt_elim x y : Qabs x < y -> - y < x /\ x < y.
Proof. apply Qabs_Qlt_condition. Qed.

Lemma is_almost_int_spec x tol :
  is_almost_int x tol = true <-> exists n : Z, Qabs (x - inject_Z n) < tol.
Proof.
  unfold is_almost_int, fmod1.
  destruct (fmod1_cases x) as (t & Et & Ht). rewrite <- Et.
  assert (Hr : exists r, r = Qabs (x - t) /\ ((0 <= x /\ r == x - t) \/ (x < 0 /\ r == t - x))).
  { exists (Qabs (x - t)). split; [reflexivity|].
    destruct Ht as [(H0 & H1 & H2) | (H0 & H1 & H2)].
    - left. split; [exact H0|]. apply Qabs_pos. lra.
    - right. split; [exact H0|]. rewrite Qabs_neg by lra. ring. }
  destruct Hr as (r & Er & Hr). rewrite <- Er. clear Er.
  assert (P1 : exists q, q = inject_Z (Qtrunc x + 1) /\ q == t + 1).
  { eexists; split; [reflexivity|]. rewrite inject_Z_plus, <- Et. reflexivity. }
  assert (M1 : exists q, q = inject_Z (Qtrunc x - 1) /\ q == t - 1).
  { eexists; split; [reflexivity|]. unfold Z.sub. rewrite inject_Z_plus, inject_Z_opp, <- Et. reflexivity. }
  destruct P1 as (qp & Eqp & Hqp). destruct M1 as (qm & Eqm & Hqm).
  split.
  - intros H.
    destruct (Qltb (1 # 2) r) eqn:E; apply Qltb_true in H.
    + apply Qltb_true in E.
      destruct Ht as [(H0 & H1 & H2) | (H0 & H1 & H2)]; destruct Hr as [(G0 & G) | (G0 & G)]; try lra.
      * exists (Qtrunc x + 1)%Z. rewrite <- Eqp. apply Qabs_lt_intro; lra.
      * exists (Qtrunc x - 1)%Z. rewrite <- Eqm. apply Qabs_lt_intro; lra.
    + apply Qltb_false in E. exists (Qtrunc x). rewrite <- Et.
      destruct Ht as [(H0 & H1 & H2) | (H0 & H1 & H2)]; destruct Hr as [(G0 & G) | (G0 & G)]; try lra;
        apply Qabs_lt_intro; lra.
  - intros (n & Hn). apply Qltb_true.
    assert (D : (n <= Qtrunc x - 1)%Z \/ n = Qtrunc x \/ (Qtrunc x + 1 <= n)%Z) by lia.
    assert (Dq : inject_Z n <= t - 1 \/ inject_Z n == t \/ t + 1 <= inject_Z n).
    { destruct D as [D | [D | D]].
      - left. rewrite Zle_Qle, <- Eqm in D. lra.
      - right; left. rewrite D, Et. reflexivity.
      - right; right. rewrite Zle_Qle, <- Eqp in D. lra. }
    clear D. set (q := inject_Z n) in *. clearbody q.
    apply Qabs_lt_elim in Hn. destruct Hn as (N1 & N2).
    destruct (Qltb (1 # 2) r) eqn:E; [apply Qltb_true in E | apply Qltb_false in E];
      destruct Ht as [(H0 & H1 & H2) | (H0 & H1 & H2)]; destruct Hr as [(G0 & G) | (G0 & G)]; try lra;
      destruct Dq as [D | [D | D]]; lra.
Qed.

Lemma is_almost_int_Z z tol : 0 < tol -> is_almost_int (inject_Z z) tol = true.
Proof.
  intros H. apply is_almost_int_spec. exists z.
  assert (E : inject_Z z - inject_Z z == 0) by ring. rewrite E. exact H.
Qed.

(** round(x) is the integer nearer than 1/2 *)
Lemma py_round_near x (n : Z) : Qabs (x - inject_Z n) < 1 # 2 -> py_round x = n.
Proof.
  intros H. apply Qabs_lt_elim in H. destruct H as (H1 & H2).
  unfold py_round.
  assert (Em : inject_Z (n - 1) == inject_Z n - 1).
  { unfold Z.sub. rewrite inject_Z_plus, inject_Z_opp. reflexivity. }
  assert (Ep : inject_Z (n + 1) == inject_Z n + 1).
  { rewrite inject_Z_plus. reflexivity. }
  assert (D : Qfloor x = n \/ Qfloor x = (n - 1)%Z).
  { assert (A : (n - 1 <= Qfloor x)%Z).
    { apply Qfloor_ge_iff. rewrite Em. set (q := inject_Z n) in *. clearbody q. lra. }
    assert (B : (Qfloor x < n + 1)%Z).
    { apply Qfloor_lt_iff. rewrite Ep. set (q := inject_Z n) in *. clearbody q. lra. }
    lia. }
  destruct (Qfloor_spec x) as (f & Ef & F1 & F2). rewrite <- Ef.
  destruct D as [D | D].
  - assert (Eq : f == inject_Z n) by (rewrite Ef, D; reflexivity).
    set (q := inject_Z n) in *. clearbody q.
    destruct (Qltb (x - f) (1 # 2)) eqn:E; [exact D|].
    apply Qltb_false in E. lra.
  - assert (Eq : f == inject_Z n - 1) by (rewrite Ef, D; exact Em).
    set (q := inject_Z n) in *. clearbody q.
    destruct (Qltb (x - f) (1 # 2)) eqn:E.
    { apply Qltb_true in E. lra. }
    destruct (Qltb (1 # 2) (x - f)) eqn:E2; [lia|].
    apply Qltb_false in E2. lra.
Qed.

Lemma split_float_spec x :
  exists n : Z,
    fst (split_float x) == inject_Z n /\
    x == fst (split_float x) + snd (split_float x) /\
    - (1 # 2) <= snd (split_float x) /\ snd (split_float x) <= 1 # 2.
Proof.
  unfold split_float, fmod1.
  destruct (fmod1_cases x) as (t & Et & Ht). rewrite <- Et.
  destruct (Qltb (1 # 2) (x - t)) eqn:E1; [apply Qltb_true in E1 | apply Qltb_false in E1].
  - exists (Qtrunc x + 1)%Z. rewrite inject_Z_plus, <- Et. simpl fst; simpl snd. simpl inject_Z.
    repeat split; try ring; destruct Ht as [(H0 & H1 & H2) | (H0 & H1 & H2)]; lra.
  - destruct (Qltb (x - t) (- (1 # 2))) eqn:E2; [apply Qltb_true in E2 | apply Qltb_false in E2].
    + exists (Qtrunc x - 1)%Z. unfold Z.sub. rewrite inject_Z_plus, inject_Z_opp, <- Et.
      simpl fst; simpl snd. simpl inject_Z.
      repeat split; try ring; destruct Ht as [(H0 & H1 & H2) | (H0 & H1 & H2)]; lra.
    + exists (Qtrunc x). rewrite <- Et. simpl fst; simpl snd.
      repeat split; try ring; lra.
Qed.

(** * Integer lattice folds *)
Open Scope Z_scope.

Definition zmin_of (m : Z) (l : list Z) : Prop := In m l /\ forall y, In y l -> m <= y.
Definition zmax_of (m : Z) (l : list Z) : Prop := In m l /\ forall y, In y l -> y <= m.

Lemma zmin_of_step m a b l : zmin_of m (Z.min a b :: l) -> zmin_of m (b :: a :: l).
Proof.
  intros (Hin & Hle). split.
  - destruct Hin as [E | Hin].
    + destruct (Z.min_dec a b) as [D | D]; rewrite D in E; subst; simpl; auto.
    + simpl; auto.
  - intros y [E | [E | Hy]].
    + subst y. specialize (Hle (Z.min a b) (or_introl eq_refl)). lia.
    + subst y. specialize (Hle (Z.min a b) (or_introl eq_refl)). lia.
    + apply Hle. simpl; auto.
Qed.

Lemma zmax_of_step m a b l : zmax_of m (Z.max a b :: l) -> zmax_of m (b :: a :: l).
Proof.
  intros (Hin & Hle). split.
  - destruct Hin as [E | Hin].
    + destruct (Z.max_dec a b) as [D | D]; rewrite D in E; subst; simpl; auto.
    + simpl; auto.
  - intros y [E | [E | Hy]].
    + subst y. specialize (Hle (Z.max a b) (or_introl eq_refl)). lia.
    + subst y. specialize (Hle (Z.max a b) (or_introl eq_refl)). lia.
    + apply Hle. simpl; auto.
Qed.

Section Folds.
  Variable crs : Type.
  Variable crs_eqb : crs -> crs -> bool.
  Notation zbox := (@bbox crs Z).

  Lemma union_loop_Z (bbs : list zbox) : forall L B R T,
    (forall x, In x bbs -> bcrs x = None) ->
    exists L' B' R' T',
      bbox_union_loop crs_eqb Z.min Z.max L B R T None bbs = Ok (mkBB L' B' R' T' None) /\
      zmin_of L' (L :: map bl bbs) /\ zmin_of B' (B :: map bb_ bbs) /\
      zmax_of R' (R :: map br bbs) /\ zmax_of T' (T :: map bt bbs).
  Proof.
    induction bbs as [|x rest IH]; intros L B R T Hn.
    - exists L, B, R, T. simpl. split; [reflexivity|].
      unfold zmin_of, zmax_of. simpl. repeat split; auto; intros y [E | []]; subst; lia.
    - simpl. rewrite (Hn x (or_introl eq_refl)). simpl.
      destruct (IH (Z.min (bl x) L) (Z.min (bb_ x) B) (Z.max (br x) R) (Z.max (bt x) T))
        as (L' & B' & R' & T' & E & H1 & H2 & H3 & H4).
      { intros y Hy. apply Hn. simpl; auto. }
      exists L', B', R', T'. split; [exact E|].
      split; [apply zmin_of_step; exact H1|]. split; [apply zmin_of_step; exact H2|].
      split; [apply zmax_of_step; exact H3 | apply zmax_of_step; exact H4].
  Qed.

  Lemma inter_loop_Z (bbs : list zbox) : forall L B R T,
    (forall x, In x bbs -> bcrs x = None) ->
    exists L' B' R' T',
      bbox_inter_loop crs_eqb Z.min Z.max L B R T None bbs = Ok (mkBB L' B' R' T' None) /\
      zmax_of L' (L :: map bl bbs) /\ zmax_of B' (B :: map bb_ bbs) /\
      zmin_of R' (R :: map br bbs) /\ zmin_of T' (T :: map bt bbs).
  Proof.
    induction bbs as [|x rest IH]; intros L B R T Hn.
    - exists L, B, R, T. simpl. split; [reflexivity|].
      unfold zmin_of, zmax_of. simpl. repeat split; auto; intros y [E | []]; subst; lia.
    - simpl. rewrite (Hn x (or_introl eq_refl)). simpl.
      destruct (IH (Z.max (bl x) L) (Z.max (bb_ x) B) (Z.min (br x) R) (Z.min (bt x) T))
        as (L' & B' & R' & T' & E & H1 & H2 & H3 & H4).
      { intros y Hy. apply Hn. simpl; auto. }
      exists L', B', R', T'. split; [exact E|].
      split; [apply zmax_of_step; exact H1|]. split; [apply zmax_of_step; exact H2|].
      split; [apply zmin_of_step; exact H3 | apply zmin_of_step; exact H4].
  Qed.
End Folds.

(** * GeoBoxes on a common grid *)
Section OnGrid.
  Variable crs : Type.
  Variable crs_eqb : crs -> crs -> bool.
  Notation geobox := (geobox crs).
  Variables atol rtol tol : Q.
  Hypothesis Hatol : (0 <= atol)%Q.
  Hypothesis Hrtol : (0 <= rtol)%Q.
  Hypothesis Htol : (0 < tol)%Q.
  Variable base : aff.
  Hypothesis Hbase : ~ (aff_det base == 0)%Q.

  Let pt := pixel_translation crs_eqb atol rtol.
  Let bip := bbox_in_pix crs_eqb atol rtol tol.

  Lemma on_grid_det (g : geobox) p : on_grid base g p -> ~ (aff_det (gaff g) == 0)%Q.
  Proof.
    intros (_ & _ & H). rewrite (aff_det_compat _ _ H), aff_det_mul_tr. exact Hbase.
  Qed.

  Lemma inject_Z_sub a b : (inject_Z (a - b) == inject_Z a - inject_Z b)%Q.
  Proof. unfold Z.sub. rewrite inject_Z_plus, inject_Z_opp. ring. Qed.

  Lemma on_grid_q_det (g : geobox) tx ty : on_grid_q base g tx ty -> ~ (aff_det (gaff g) == 0)%Q.
  Proof.
    unfold on_grid_q. intros H. rewrite (aff_det_compat _ _ H), aff_det_mul_tr. exact Hbase.
  Qed.

  Lemma pixel_translation_on_grid_q (a b : geobox) p q r s :
    on_grid_q base a p q -> on_grid_q base b r s -> tag_ne crs_eqb (gcrs a) (gcrs b) = false ->
    exists t, pt a b = Ok t /\ (fst t == p - r)%Q /\ (snd t == q - s)%Q.
  Proof.
    intros Ha Hb Hc. pose proof (on_grid_q_det _ _ _ Hb) as Hd.
    unfold on_grid_q in Ha, Hb.
    unfold pt, pixel_translation. rewrite Hc.
    destruct (Qeq_bool (aff_det (gaff b)) 0) eqn:E.
    { apply Qeq_bool_iff in E. contradiction. }
    set (m := aff_mul (aff_inv (gaff b)) (gaff a)).
    assert (Hm : aff_eq m (aff_tr (p - r) (q - s))).
    { eapply aff_eq_trans.
      - apply aff_mul_compat; [apply aff_inv_compat; exact Hb | exact Ha].
      - apply aff_family_translation. exact Hbase. }
    destruct Hm as (E1 & E2 & E3 & E4 & E5 & E6). simpl in E1, E2, E3, E4, E5, E6.
    rewrite (isclose_comp _ _ (Qeq_refl _) _ _ (Qeq_refl _) _ _ E1 _ _ (Qeq_refl _)).
    rewrite (isclose_comp _ _ (Qeq_refl _) _ _ (Qeq_refl _) _ _ E2 _ _ (Qeq_refl _)).
    rewrite (isclose_comp _ _ (Qeq_refl _) _ _ (Qeq_refl _) _ _ E4 _ _ (Qeq_refl _)).
    rewrite (isclose_comp _ _ (Qeq_refl _) _ _ (Qeq_refl _) _ _ E5 _ _ (Qeq_refl _)).
    rewrite !isclose_refl by assumption. simpl.
    eexists; split; [reflexivity|]. simpl. split; assumption.
  Qed.

  Lemma pixel_translation_on_grid (a b : geobox) pa pb :
    on_grid base a pa -> on_grid base b pb -> tag_ne crs_eqb (gcrs a) (gcrs b) = false ->
    exists t, pt a b = Ok t /\
      (fst t == inject_Z (px pa - px pb))%Q /\ (snd t == inject_Z (py pa - py pb))%Q.
  Proof.
    intros (_ & _ & Ha) (_ & _ & Hb) Hc.
    destruct (pixel_translation_on_grid_q a b _ _ _ _ Ha Hb Hc) as (t & Et & E1 & E2).
    exists t. split; [exact Et|]. rewrite !inject_Z_sub. split; assumption.
  Qed.

  Definition relbox (r p : pbox) : @bbox crs Z :=
    mkBB (px p - px r) (py p - py r) (px p - px r + pnx p) (py p - py r + pny p) None.

  Lemma bbox_in_pix_on_grid (a b : geobox) pa pb :
    on_grid base a pa -> on_grid base b pb -> tag_ne crs_eqb (gcrs a) (gcrs b) = false ->
    bip a b = Ok (relbox pb pa).
  Proof.
    intros Ga Gb Hc.
    destruct (pixel_translation_on_grid a b pa pb Ga Gb Hc) as (t & Et & E1 & E2).
    unfold bip, bbox_in_pix. fold pt. rewrite Et. simpl bind.
    rewrite (is_almost_int_comp _ _ E1 _ _ (Qeq_refl tol)), (is_almost_int_comp _ _ E2 _ _ (Qeq_refl tol)).
    rewrite !is_almost_int_Z by assumption. simpl.
    rewrite (py_round_comp _ _ E1), (py_round_comp _ _ E2), !py_round_Z.
    destruct Ga as (Hy & Hx & _). rewrite Hy, Hx. reflexivity.
  Qed.

  Lemma mapM_bbox_on_grid (ref : geobox) pref : on_grid base ref pref ->
    forall gs ps, Forall2 (on_grid base) gs ps ->
    (forall g, In g gs -> tag_ne crs_eqb (gcrs g) (gcrs ref) = false) ->
    mapM (fun g => bip g ref) gs = Ok (map (relbox pref) ps).
  Proof.
    intros Gr gs ps F. induction F as [|g p gs ps Gg F IH]; intros Hc.
    - reflexivity.
    - simpl. rewrite (bbox_in_pix_on_grid g ref p pref Gg Gr (Hc g (or_introl eq_refl))). simpl.
      rewrite IH by (intros; apply Hc; simpl; auto). reflexivity.
  Qed.

  Lemma relbox_none r ps : forall x, In x (map (relbox r) ps) -> bcrs x = None.
  Proof. intros x Hx. apply in_map_iff in Hx. destruct Hx as (p & <- & _). reflexivity. Qed.

  (* result placed on the base grid *)
  Lemma gbox_of_pix_bbox_on_grid (ref : geobox) pref L B R T c :
    on_grid base ref pref ->
    on_grid base (gbox_of_pix_bbox ref (mkBB L B R T c))
            (mkPB (px pref + L) (py pref + B) (R - L) (T - B)).
  Proof.
    intros (_ & _ & Hr). unfold on_grid, gbox_of_pix_bbox. simpl.
    split; [reflexivity|]. split; [reflexivity|].
    eapply aff_eq_trans; [apply aff_mul_compat; [exact Hr | apply aff_eq_refl]|].
    eapply aff_eq_trans; [apply aff_mul_assoc|].
    apply aff_mul_compat; [apply aff_eq_refl|].
    eapply aff_eq_trans; [apply aff_tr_tr|].
    rewrite !inject_Z_plus. apply aff_eq_refl.
  Qed.

  Lemma In_map_rel (f : pbox -> Z) p (ps : list pbox) : In p ps -> In (f p) (map f ps).
  Proof. apply in_map. Qed.

  Theorem geobox_union_on_grid (g0 : geobox) gs p0 ps :
    Forall2 (on_grid base) (g0 :: gs) (p0 :: ps) -> same_crs crs_eqb (g0 :: gs) ->
    exists g u,
      geobox_union crs_eqb atol rtol tol (g0 :: gs) = Ok g /\
      on_grid base g u /\ gcrs g = gcrs g0 /\
      (forall p, In p (p0 :: ps) -> rect_incl p u) /\
      (forall v, (forall p, In p (p0 :: ps) -> rect_incl p v) -> rect_incl u v).
  Proof.
    intros F Hs. pose proof F as F0. inversion F0 as [|? ? ? ? G0 F' ]; subst.
    unfold geobox_union. fold bip.
    rewrite (mapM_bbox_on_grid g0 p0 G0 (g0 :: gs) (p0 :: ps) F)
      by (intros g Hg; apply Hs; simpl; auto).
    simpl bind. simpl map. unfold bbox_union. simpl bl; simpl bb_; simpl br; simpl bt; simpl bcrs.
    destruct (union_loop_Z crs crs_eqb (map (relbox p0) ps) (px p0 - px p0) (py p0 - py p0)
                (px p0 - px p0 + pnx p0) (py p0 - py p0 + pny p0) (relbox_none p0 ps))
      as (L & B & R & T & E & HL & HB & HR & HT).
    rewrite E. simpl bind.
    eexists. exists (mkPB (px p0 + L) (py p0 + B) (R - L) (T - B)).
    split; [reflexivity|]. split; [apply gbox_of_pix_bbox_on_grid; exact G0|].
    split; [reflexivity|].
    rewrite !map_map in HL, HB, HR, HT. simpl in HL, HB, HR, HT.
    change (px p0 - px p0 :: map (fun x => px x - px p0) ps)
      with (map (fun x => px x - px p0) (p0 :: ps)) in HL.
    change (py p0 - py p0 :: map (fun x => py x - py p0) ps)
      with (map (fun x => py x - py p0) (p0 :: ps)) in HB.
    change (px p0 - px p0 + pnx p0 :: map (fun x => px x - px p0 + pnx x) ps)
      with (map (fun x => px x - px p0 + pnx x) (p0 :: ps)) in HR.
    change (py p0 - py p0 + pny p0 :: map (fun x => py x - py p0 + pny x) ps)
      with (map (fun x => py x - py p0 + pny x) (p0 :: ps)) in HT.
    destruct HL as (HL1 & HL2), HB as (HB1 & HB2), HR as (HR1 & HR2), HT as (HT1 & HT2).
    split.
    - intros p Hp. unfold rect_incl; simpl.
      pose proof (HL2 _ (in_map (fun x => px x - px p0) _ _ Hp)).
      pose proof (HB2 _ (in_map (fun x => py x - py p0) _ _ Hp)).
      pose proof (HR2 _ (in_map (fun x => px x - px p0 + pnx x) _ _ Hp)).
      pose proof (HT2 _ (in_map (fun x => py x - py p0 + pny x) _ _ Hp)).
      simpl in *. lia.
    - intros v Hv. unfold rect_incl; simpl.
      apply in_map_iff in HL1, HB1, HR1, HT1.
      destruct HL1 as (q1 & E1 & I1), HB1 as (q2 & E2 & I2), HR1 as (q3 & E3 & I3), HT1 as (q4 & E4 & I4).
      pose proof (Hv _ I1) as (V1 & _). pose proof (Hv _ I2) as (_ & _ & V2 & _).
      pose proof (Hv _ I3) as (_ & V3 & _). pose proof (Hv _ I4) as (_ & _ & _ & V4).
      lia.
  Qed.

  Lemma norm_empty_eq L B R T (c : tag crs) :
    norm_empty (mkBB L B R T c) = mkBB L B (Z.max L R) (Z.max B T) c.
  Proof.
    unfold norm_empty. simpl.
    destruct (R <? L) eqn:E1; simpl; destruct (T <? B) eqn:E2; simpl; f_equal; lia.
  Qed.

  Theorem geobox_intersection_on_grid (g0 : geobox) gs p0 ps :
    Forall2 (on_grid base) (g0 :: gs) (p0 :: ps) -> same_crs crs_eqb (g0 :: gs) ->
    exists g u,
      geobox_intersection crs_eqb atol rtol tol (g0 :: gs) = Ok g /\
      on_grid base g u /\ gcrs g = gcrs g0 /\
      0 <= pnx u /\ 0 <= pny u /\
      (forall i, in_cols u i <-> forall p, In p (p0 :: ps) -> in_cols p i) /\
      (forall j, in_rows u j <-> forall p, In p (p0 :: ps) -> in_rows p j).
  Proof.
    intros F Hs. pose proof F as F0. inversion F0 as [|? ? ? ? G0 F' ]; subst.
    unfold geobox_intersection. fold bip.
    rewrite (mapM_bbox_on_grid g0 p0 G0 (g0 :: gs) (p0 :: ps) F)
      by (intros g Hg; apply Hs; simpl; auto).
    simpl bind. simpl map. unfold bbox_intersection. simpl bl; simpl bb_; simpl br; simpl bt; simpl bcrs.
    destruct (inter_loop_Z crs crs_eqb (map (relbox p0) ps) (px p0 - px p0) (py p0 - py p0)
                (px p0 - px p0 + pnx p0) (py p0 - py p0 + pny p0) (relbox_none p0 ps))
      as (L & B & R & T & E & HL & HB & HR & HT).
    rewrite E. simpl bind. rewrite norm_empty_eq.
    eexists. exists (mkPB (px p0 + L) (py p0 + B) (Z.max L R - L) (Z.max B T - B)).
    split; [reflexivity|]. split; [apply gbox_of_pix_bbox_on_grid; exact G0|].
    split; [reflexivity|].
    rewrite !map_map in HL, HB, HR, HT. simpl in HL, HB, HR, HT.
    change (px p0 - px p0 :: map (fun x => px x - px p0) ps)
      with (map (fun x => px x - px p0) (p0 :: ps)) in HL.
    change (py p0 - py p0 :: map (fun x => py x - py p0) ps)
      with (map (fun x => py x - py p0) (p0 :: ps)) in HB.
    change (px p0 - px p0 + pnx p0 :: map (fun x => px x - px p0 + pnx x) ps)
      with (map (fun x => px x - px p0 + pnx x) (p0 :: ps)) in HR.
    change (py p0 - py p0 + pny p0 :: map (fun x => py x - py p0 + pny x) ps)
      with (map (fun x => py x - py p0 + pny x) (p0 :: ps)) in HT.
    destruct HL as (HL1 & HL2), HB as (HB1 & HB2), HR as (HR1 & HR2), HT as (HT1 & HT2).
    apply in_map_iff in HL1, HB1, HR1, HT1.
    destruct HL1 as (q1 & E1 & I1), HB1 as (q2 & E2 & I2), HR1 as (q3 & E3 & I3), HT1 as (q4 & E4 & I4).
    simpl. split; [lia|]. split; [lia|]. split.
    - intros i. unfold in_cols; simpl. split.
      + intros Hi p Hp.
        pose proof (HL2 _ (in_map (fun x => px x - px p0) (p0 :: ps) p Hp)).
        pose proof (HR2 _ (in_map (fun x => px x - px p0 + pnx x) (p0 :: ps) p Hp)).
        simpl in *. lia.
      + intros Hi. pose proof (Hi _ I1). pose proof (Hi _ I3). lia.
    - intros j. unfold in_rows; simpl. split.
      + intros Hj p Hp.
        pose proof (HB2 _ (in_map (fun x => py x - py p0) (p0 :: ps) p Hp)).
        pose proof (HT2 _ (in_map (fun x => py x - py p0 + pny x) (p0 :: ps) p Hp)).
        simpl in *. lia.
      + intros Hj. pose proof (Hj _ I2). pose proof (Hj _ I4). lia.
  Qed.

  (** ** binary forms, with the result rectangle in closed form *)
  Definition union2 (p q : pbox) : pbox :=
    mkPB (Z.min (px p) (px q)) (Z.min (py p) (py q))
         (Z.max (px p + pnx p) (px q + pnx q) - Z.min (px p) (px q))
         (Z.max (py p + pny p) (py q + pny q) - Z.min (py p) (py q)).

  Definition inter2 (p q : pbox) : pbox :=
    mkPB (Z.max (px p) (px q)) (Z.max (py p) (py q))
         (Z.max 0 (Z.min (px p + pnx p) (px q + pnx q) - Z.max (px p) (px q)))
         (Z.max 0 (Z.min (py p + pny p) (py q + pny q) - Z.max (py p) (py q))).

  Lemma on_grid_shape_aff_eq (g h : geobox) u : on_grid base g u -> on_grid base h u -> shape_aff_eq g h.
  Proof.
    intros (A1 & A2 & A3) (B1 & B2 & B3). unfold shape_aff_eq.
    split; [congruence|]. split; [congruence|].
    eapply aff_eq_trans; [exact A3 | apply aff_eq_sym; exact B3].
  Qed.

  Lemma gbox_or_on_grid (a b : geobox) pa pb :
    on_grid base a pa -> on_grid base b pb ->
    tag_ne crs_eqb (gcrs a) (gcrs a) = false -> tag_ne crs_eqb (gcrs b) (gcrs a) = false ->
    exists g, gbox_or crs_eqb atol rtol tol a b = Ok g /\ on_grid base g (union2 pa pb) /\ gcrs g = gcrs a.
  Proof.
    intros Ga Gb Haa Hba. unfold gbox_or, geobox_union. fold bip. simpl mapM.
    rewrite (bbox_in_pix_on_grid a a pa pa Ga Ga Haa), (bbox_in_pix_on_grid b a pb pa Gb Ga Hba).
    simpl. eexists. split; [reflexivity|]. split; [|reflexivity].
    match goal with |- on_grid _ (gbox_of_pix_bbox _ (mkBB ?L ?B ?R ?T ?c)) _ =>
      replace (union2 pa pb) with (mkPB (px pa + L) (py pa + B) (R - L) (T - B))
        by (unfold union2; f_equal; lia) end.
    apply gbox_of_pix_bbox_on_grid. exact Ga.
  Qed.

  Lemma gbox_and_on_grid (a b : geobox) pa pb :
    on_grid base a pa -> on_grid base b pb ->
    tag_ne crs_eqb (gcrs a) (gcrs a) = false -> tag_ne crs_eqb (gcrs b) (gcrs a) = false ->
    exists g, gbox_and crs_eqb atol rtol tol a b = Ok g /\ on_grid base g (inter2 pa pb) /\ gcrs g = gcrs a.
  Proof.
    intros Ga Gb Haa Hba. unfold gbox_and, geobox_intersection. fold bip. simpl mapM.
    rewrite (bbox_in_pix_on_grid a a pa pa Ga Ga Haa), (bbox_in_pix_on_grid b a pb pa Gb Ga Hba).
    simpl bind. unfold relbox, bbox_intersection, bbox_inter_loop. simpl.
    rewrite norm_empty_eq. eexists. split; [reflexivity|]. split; [|reflexivity].
    match goal with |- on_grid _ (gbox_of_pix_bbox _ (mkBB ?L ?B ?R ?T ?c)) _ =>
      replace (inter2 pa pb) with (mkPB (px pa + L) (py pa + B) (R - L) (T - B))
        by (unfold inter2; f_equal; lia) end.
    apply gbox_of_pix_bbox_on_grid. exact Ga.
  Qed.

  Lemma union2_comm p q : union2 p q = union2 q p.
  Proof. unfold union2; f_equal; lia. Qed.
  Lemma union2_assoc p q r : union2 (union2 p q) r = union2 p (union2 q r).
  Proof. unfold union2; simpl; f_equal; lia. Qed.
  Lemma inter2_comm p q : inter2 p q = inter2 q p.
  Proof. unfold inter2; f_equal; lia. Qed.
  Lemma inter2_assoc p q r : inter2 (inter2 p q) r = inter2 p (inter2 q r).
  Proof. unfold inter2; simpl; f_equal; lia. Qed.

  Theorem gbox_or_comm (a b : geobox) pa pb :
    on_grid base a pa -> on_grid base b pb -> same_crs crs_eqb [a; b] ->
    exists g h, gbox_or crs_eqb atol rtol tol a b = Ok g /\ gbox_or crs_eqb atol rtol tol b a = Ok h /\
                shape_aff_eq g h.
  Proof.
    intros Ga Gb Hs.
    destruct (gbox_or_on_grid a b pa pb Ga Gb) as (g & Eg & Og & _); try (apply Hs; simpl; auto).
    destruct (gbox_or_on_grid b a pb pa Gb Ga) as (h & Eh & Oh & _); try (apply Hs; simpl; auto).
    exists g, h. split; [exact Eg|]. split; [exact Eh|].
    rewrite union2_comm in Oh. eapply on_grid_shape_aff_eq; eassumption.
  Qed.

  Theorem gbox_and_comm (a b : geobox) pa pb :
    on_grid base a pa -> on_grid base b pb -> same_crs crs_eqb [a; b] ->
    exists g h, gbox_and crs_eqb atol rtol tol a b = Ok g /\ gbox_and crs_eqb atol rtol tol b a = Ok h /\
                shape_aff_eq g h.
  Proof.
    intros Ga Gb Hs.
    destruct (gbox_and_on_grid a b pa pb Ga Gb) as (g & Eg & Og & _); try (apply Hs; simpl; auto).
    destruct (gbox_and_on_grid b a pb pa Gb Ga) as (h & Eh & Oh & _); try (apply Hs; simpl; auto).
    exists g, h. split; [exact Eg|]. split; [exact Eh|].
    rewrite inter2_comm in Oh. eapply on_grid_shape_aff_eq; eassumption.
  Qed.

  Theorem gbox_or_assoc (a b c : geobox) pa pb pc :
    on_grid base a pa -> on_grid base b pb -> on_grid base c pc -> same_crs crs_eqb [a; b; c] ->
    exists ab l bc r,
      gbox_or crs_eqb atol rtol tol a b = Ok ab /\ gbox_or crs_eqb atol rtol tol ab c = Ok l /\
      gbox_or crs_eqb atol rtol tol b c = Ok bc /\ gbox_or crs_eqb atol rtol tol a bc = Ok r /\
      shape_aff_eq l r.
  Proof.
    intros Ga Gb Gc Hs.
    destruct (gbox_or_on_grid a b pa pb Ga Gb) as (ab & E1 & O1 & C1); try (apply Hs; simpl; auto).
    destruct (gbox_or_on_grid ab c _ pc O1 Gc) as (l & E2 & O2 & C2); try (rewrite C1; apply Hs; simpl; auto).
    destruct (gbox_or_on_grid b c pb pc Gb Gc) as (bc & E3 & O3 & C3); try (apply Hs; simpl; auto).
    destruct (gbox_or_on_grid a bc pa _ Ga O3) as (r & E4 & O4 & C4); try (rewrite ?C3; apply Hs; simpl; auto).
    exists ab, l, bc, r. repeat (split; [assumption|]).
    rewrite union2_assoc in O2. eapply on_grid_shape_aff_eq; eassumption.
  Qed.

  Theorem gbox_and_assoc (a b c : geobox) pa pb pc :
    on_grid base a pa -> on_grid base b pb -> on_grid base c pc -> same_crs crs_eqb [a; b; c] ->
    exists ab l bc r,
      gbox_and crs_eqb atol rtol tol a b = Ok ab /\ gbox_and crs_eqb atol rtol tol ab c = Ok l /\
      gbox_and crs_eqb atol rtol tol b c = Ok bc /\ gbox_and crs_eqb atol rtol tol a bc = Ok r /\
      shape_aff_eq l r.
  Proof.
    intros Ga Gb Gc Hs.
    destruct (gbox_and_on_grid a b pa pb Ga Gb) as (ab & E1 & O1 & C1); try (apply Hs; simpl; auto).
    destruct (gbox_and_on_grid ab c _ pc O1 Gc) as (l & E2 & O2 & C2); try (rewrite C1; apply Hs; simpl; auto).
    destruct (gbox_and_on_grid b c pb pc Gb Gc) as (bc & E3 & O3 & C3); try (apply Hs; simpl; auto).
    destruct (gbox_and_on_grid a bc pa _ Ga O3) as (r & E4 & O4 & C4); try (rewrite ?C3; apply Hs; simpl; auto).
    exists ab, l, bc, r. repeat (split; [assumption|]).
    rewrite inter2_assoc in O2. eapply on_grid_shape_aff_eq; eassumption.
  Qed.

  (** overlap_roi (repaired code): exactly the shared pixels, as indices into [self] *)
  Theorem overlap_roi_on_grid (a b : geobox) pa pb :
    on_grid base a pa -> on_grid base b pb -> tag_ne crs_eqb (gcrs b) (gcrs a) = false ->
    exists y0 y1 x0 x1,
      overlap_roi crs_eqb fixed atol rtol tol a b = Ok ((y0, y1), (x0, x1)) /\
      0 <= x0 <= x1 /\ 0 <= y0 <= y1 /\
      (x0 < x1 -> x1 <= pnx pa) /\ (y0 < y1 -> y1 <= pny pa) /\
      (forall i, x0 <= i < x1 <-> 0 <= i < pnx pa /\ in_cols pb (px pa + i)) /\
      (forall j, y0 <= j < y1 <-> 0 <= j < pny pa /\ in_rows pb (py pa + j)).
  Proof.
    intros Ga Gb Hc. unfold overlap_roi. fold bip.
    rewrite (bbox_in_pix_on_grid b a pb pa Gb Ga Hc). simpl.
    destruct Ga as (Hy & Hx & _). rewrite Hy, Hx.
    do 4 eexists. split; [reflexivity|]. unfold in_cols, in_rows.
    repeat split; try lia.
  Qed.

  (** snap_to: moved by at most half a pixel per axis; afterwards a whole number of pixels
      away from [other] (exactly when it moved; otherwise the offset that was left in place
      is below [ztol]) *)
  Open Scope Q_scope.
  Lemma snap_axis ztol t : 0 < ztol ->
    let s := maybe_zero (snd (split_float t)) ztol in
    Qabs s <= 1 # 2 /\
    exists n : Z, Qabs (t - s - inject_Z n) < ztol /\ (~ s == 0 -> t - s == inject_Z n).
  Proof.
    intros Hz. destruct (split_float_spec t) as (n & Hw & Hsum & Hlo & Hhi).
    set (w := fst (split_float t)) in *. set (f := snd (split_float t)) in *.
    cbv zeta. unfold maybe_zero.
    destruct (Qltb (Qabs f) ztol) eqn:E.
    - apply Qltb_true in E. split; [apply Qabs_Qle_condition; split; lra|].
      exists n. split.
      + apply Qabs_lt_elim in E. apply Qabs_lt_intro; set (qn := inject_Z n) in *; clearbody qn w f; lra.
      + intros C. exfalso. apply C. reflexivity.
    - split; [apply Qabs_Qle_condition; split; lra|].
      exists n. set (qn := inject_Z n) in *. clearbody qn w f. split.
      + apply Qabs_lt_intro; lra.
      + intros _. lra.
  Qed.

  Theorem snap_to_on_grid_q ztol (a b : geobox) pa qa pb qb :
    0 < ztol -> on_grid_q base a pa qa -> on_grid_q base b pb qb ->
    tag_ne crs_eqb (gcrs b) (gcrs a) = false ->
    exists u sx sy,
      snap_to crs_eqb atol rtol ztol a b = Ok u /\
      gny u = gny a /\ gnx u = gnx a /\ gcrs u = gcrs a /\
      gaff u = aff_mul (gaff a) (aff_tr sx sy) /\
      Qabs sx <= 1 # 2 /\ Qabs sy <= 1 # 2 /\
      exists n m : Z,
        Qabs (pb - pa - sx - inject_Z n) < ztol /\ Qabs (qb - qa - sy - inject_Z m) < ztol /\
        (~ sx == 0 -> pb - pa - sx == inject_Z n) /\ (~ sy == 0 -> qb - qa - sy == inject_Z m).
  Proof.
    intros Hz Ha Hb Hc.
    destruct (pixel_translation_on_grid_q b a _ _ _ _ Hb Ha Hc) as (t & Et & E1 & E2).
    unfold snap_to. fold pt. rewrite Et. simpl bind.
    destruct (snap_axis ztol (fst t) Hz) as (Sx & n & Nx1 & Nx2).
    destruct (snap_axis ztol (snd t) Hz) as (Sy & m & Ny1 & Ny2).
    set (sx := maybe_zero (snd (split_float (fst t))) ztol) in *.
    set (sy := maybe_zero (snd (split_float (snd t))) ztol) in *.
    eexists. exists sx, sy. split; [reflexivity|]. cbn [gny gnx gcrs gaff].
    split; [reflexivity|]. split; [reflexivity|]. split; [reflexivity|]. split; [reflexivity|].
    split; [exact Sx|]. split; [exact Sy|].
    exists n, m.
    set (qn := inject_Z n) in *. set (qm := inject_Z m) in *.
    set (tx := fst t) in *. set (ty := snd t) in *. clearbody qn qm sx sy tx ty.
    apply Qabs_lt_elim in Nx1, Ny1.
    split; [apply Qabs_lt_intro; lra|]. split; [apply Qabs_lt_intro; lra|].
    split; intros C; [specialize (Nx2 C) | specialize (Ny2 C)]; lra.
  Qed.
  Close Scope Q_scope.
End OnGrid.

(** * The decision rule of the compatibility test (all GeoBoxes, no family assumption) *)
Section Reject.
  Variable crs : Type.
  Variable crs_eqb : crs -> crs -> bool.
  Notation geobox := (geobox crs).
  Variables atol rtol tol : Q.
  Open Scope Q_scope.

  Let bip := bbox_in_pix crs_eqb atol rtol tol.

  Definition lin_closeb (m : aff) : bool :=
    isclose atol rtol (aa m) 1 && isclose atol rtol (ab m) 0
    && isclose atol rtol (ad m) 0 && isclose atol rtol (ae m) 1.

  Lemma lin_closeb_spec m : lin_closeb m = true <-> lin_close atol rtol m.
  Proof.
    unfold lin_closeb, lin_close, close_to. rewrite !andb_true_iff, !isclose_spec. tauto.
  Qed.

  Lemma bbox_in_pix_ok_bool (a ref : geobox) :
    is_ok (bip a ref) =
    negb (tag_ne crs_eqb (gcrs a) (gcrs ref)) && negb (Qeq_bool (aff_det (gaff ref)) 0)
    && lin_closeb (rel_aff a ref)
    && (is_almost_int (ac (rel_aff a ref)) tol && is_almost_int (af (rel_aff a ref)) tol).
  Proof.
    unfold bip, bbox_in_pix, pixel_translation, rel_aff, lin_closeb.
    destruct (tag_ne crs_eqb (gcrs a) (gcrs ref)); [reflexivity|].
    destruct (Qeq_bool (aff_det (gaff ref)) 0); [reflexivity|].
    set (m := aff_mul (aff_inv (gaff ref)) (gaff a)).
    destruct (isclose atol rtol (aa m) 1 && isclose atol rtol (ab m) 0
              && isclose atol rtol (ad m) 0 && isclose atol rtol (ae m) 1); [|reflexivity].
    cbn [bind fst snd negb andb]. destruct (is_almost_int (ac m) tol && is_almost_int (af m) tol); reflexivity.
  Qed.

  Theorem bbox_in_pix_accepts_iff (a ref : geobox) :
    is_ok (bip a ref) = true <-> compatible crs_eqb atol rtol tol a ref.
  Proof.
    rewrite bbox_in_pix_ok_bool. unfold compatible, near_int.
    rewrite !andb_true_iff, !negb_true_iff, lin_closeb_spec, !is_almost_int_spec.
    split.
    - intros (((H1 & H2) & H3) & (H4 & H5)).
      split; [exact H1|]. split; [intros C; apply Qeq_bool_iff in C; congruence|].
      split; [exact H3|]. split; [exact H4 | exact H5].
    - intros (H1 & H2 & H3 & H4 & H5).
      split; [|split; [exact H4 | exact H5]]. split; [|exact H3]. split; [exact H1|].
      destruct (Qeq_bool (aff_det (gaff ref)) 0) eqn:E; [|reflexivity].
      apply Qeq_bool_iff in E. contradiction.
  Qed.

  Theorem bbox_in_pix_rejects_iff (a ref : geobox) :
    (exists e, bip a ref = Err e) <-> ~ compatible crs_eqb atol rtol tol a ref.
  Proof.
    rewrite <- bbox_in_pix_accepts_iff. destruct (bip a ref); simpl; split.
    - intros (e & E). discriminate.
    - intros C. exfalso. apply C. reflexivity.
    - intros _ C. discriminate.
    - intros _. eauto.
  Qed.

  (* which exception *)
  Theorem bbox_in_pix_error_kind (a ref : geobox) e :
    bip a ref = Err e ->
    e = EValue \/ (e = EOther /\ tag_ne crs_eqb (gcrs a) (gcrs ref) = false /\ aff_det (gaff ref) == 0).
  Proof.
    unfold bip, bbox_in_pix, pixel_translation.
    destruct (tag_ne crs_eqb (gcrs a) (gcrs ref)); [simpl; intros H; inversion H; auto|].
    destruct (Qeq_bool (aff_det (gaff ref)) 0) eqn:E.
    { simpl; intros H; inversion H. right. apply Qeq_bool_iff in E. auto. }
    destruct (isclose _ _ _ _ && _ && _ && _); simpl.
    - destruct (is_almost_int _ _ && is_almost_int _ _); intros H; inversion H; auto.
    - intros H; inversion H; auto.
  Qed.

  (** accepted pairs: within the tolerances of a whole-pixel shift, and the box returned
      is that shift (for tol <= 1/2, where rounding picks the near integer) *)
  Theorem bbox_in_pix_accepted (a ref : geobox) bb :
    tol <= 1 # 2 -> bip a ref = Ok bb ->
    compatible crs_eqb atol rtol tol a ref /\
    Qabs (ac (rel_aff a ref) - inject_Z (bl bb)) < tol /\
    Qabs (af (rel_aff a ref) - inject_Z (bb_ bb)) < tol /\
    br bb = (bl bb + gnx a)%Z /\ bt bb = (bb_ bb + gny a)%Z /\ bcrs bb = None.
  Proof.
    intros Ht E.
    assert (C : compatible crs_eqb atol rtol tol a ref).
    { apply bbox_in_pix_accepts_iff. rewrite E. reflexivity. }
    split; [exact C|].
    destruct C as (C1 & C2 & C3 & (n & Hn) & (m & Hm)).
    unfold bip, bbox_in_pix, pixel_translation in E. fold (rel_aff a ref) in E.
    rewrite C1 in E.
    destruct (Qeq_bool (aff_det (gaff ref)) 0); [discriminate|].
    destruct (isclose _ _ _ _ && _ && _ && _); [|discriminate]. simpl in E.
    destruct (is_almost_int _ _ && is_almost_int _ _); [|discriminate].
    inversion E; subst bb; clear E. simpl.
    rewrite (py_round_near _ n) by (eapply Qlt_le_trans; [exact Hn | exact Ht]).
    rewrite (py_round_near _ m) by (eapply Qlt_le_trans; [exact Hm | exact Ht]).
    repeat split; assumption.
  Qed.

  Lemma bip_none (a ref : geobox) bb : bip a ref = Ok bb -> bcrs bb = None.
  Proof.
    unfold bip, bbox_in_pix. destruct (pixel_translation _ _ _ _ _); simpl; [|discriminate].
    destruct (_ && _); [|discriminate]. intros H; inversion H; reflexivity.
  Qed.

  (** the three binary clients fail exactly when one of their operands is rejected *)
  Theorem gbox_or_ok_bool (a b : geobox) :
    is_ok (gbox_or crs_eqb atol rtol tol a b) = is_ok (bip a a) && is_ok (bip b a).
  Proof.
    unfold gbox_or, geobox_union. fold bip. simpl mapM.
    destruct (bip a a) as [x|] eqn:Ea; simpl; [|reflexivity].
    destruct (bip b a) as [y|] eqn:Eb; simpl; [|reflexivity].
    rewrite (bip_none _ _ _ Ea), (bip_none _ _ _ Eb). reflexivity.
  Qed.

  Theorem gbox_and_ok_bool (a b : geobox) :
    is_ok (gbox_and crs_eqb atol rtol tol a b) = is_ok (bip a a) && is_ok (bip b a).
  Proof.
    unfold gbox_and, geobox_intersection. fold bip. simpl mapM.
    destruct (bip a a) as [x|] eqn:Ea; simpl; [|reflexivity].
    destruct (bip b a) as [y|] eqn:Eb; simpl; [|reflexivity].
    rewrite (bip_none _ _ _ Ea), (bip_none _ _ _ Eb). reflexivity.
  Qed.

  Theorem overlap_roi_ok_bool fx (a b : geobox) :
    is_ok (overlap_roi crs_eqb fx atol rtol tol a b) = is_ok (bip b a).
  Proof.
    unfold overlap_roi. fold bip. destruct (bip b a); simpl; [|reflexivity].
    destruct (fx_roi_clamp fx); reflexivity.
  Qed.

  (** a GeoBox is always compatible with itself (given [c != c] is False and an invertible affine) *)
  Lemma self_compatible (a : geobox) :
    0 <= atol -> 0 <= rtol -> 0 < tol ->
    tag_ne crs_eqb (gcrs a) (gcrs a) = false -> ~ aff_det (gaff a) == 0 ->
    is_ok (bip a a) = true.
  Proof.
    intros H1 H2 H3 Hc Hd.
    assert (G : on_grid (gaff a) a (mkPB 0 0 (gnx a) (gny a))).
    { unfold on_grid; simpl. split; [reflexivity|]. split; [reflexivity|].
      apply aff_eq_sym. apply (aff_mul_id_r (gaff a)). }
    unfold bip. rewrite (bbox_in_pix_on_grid crs crs_eqb atol rtol tol H1 H2 H3 (gaff a) Hd a a _ _ G G Hc).
    reflexivity.
  Qed.
End Reject.

(** * enclosing *)
Section Enclosing.
  Variable crs : Type.
  Notation geobox := (geobox crs).
  Open Scope Q_scope.

  Lemma Qmin_in x y : Qmin x y = x \/ Qmin x y = y.
  Proof. unfold Qmin, GenericMinMax.gmin. destruct (x ?= y); auto. Qed.
  Lemma Qmax_in x y : Qmax x y = x \/ Qmax x y = y.
  Proof. unfold Qmax, GenericMinMax.gmax. destruct (x ?= y); auto. Qed.

  Lemma Qminl_spec l : forall x, In (Qminl x l) (x :: l) /\ forall y, In y (x :: l) -> Qminl x l <= y.
  Proof.
    induction l as [|a l IH]; intros x; unfold Qminl in *; simpl.
    - split; [auto|]. intros y [E | []]. subst. apply Qle_refl.
    - destruct (IH (Qmin x a)) as (I1 & I2). split.
      + destruct I1 as [E | I1]; [|auto].
        rewrite <- E. destruct (Qmin_in x a) as [D | D]; rewrite D; auto.
      + intros y [E | [E | Hy]].
        * subst y. eapply Qle_trans; [apply I2; left; reflexivity | apply Q.le_min_l].
        * subst y. eapply Qle_trans; [apply I2; left; reflexivity | apply Q.le_min_r].
        * apply I2. right. exact Hy.
  Qed.

  Lemma Qmaxl_spec l : forall x, In (Qmaxl x l) (x :: l) /\ forall y, In y (x :: l) -> y <= Qmaxl x l.
  Proof.
    induction l as [|a l IH]; intros x; unfold Qmaxl in *; simpl.
    - split; [auto|]. intros y [E | []]. subst. apply Qle_refl.
    - destruct (IH (Qmax x a)) as (I1 & I2). split.
      + destruct I1 as [E | I1]; [|auto].
        rewrite <- E. destruct (Qmax_in x a) as [D | D]; rewrite D; auto.
      + intros y [E | [E | Hy]].
        * subst y. eapply Qle_trans; [apply Q.le_max_l | apply I2; left; reflexivity].
        * subst y. eapply Qle_trans; [apply Q.le_max_r | apply I2; left; reflexivity].
        * apply I2. right. exact Hy.
  Qed.

  (** one axis of [boundingbox.round()] followed by [max(1, span)] *)
  Lemma enclose_axis (c : Q) (cs : list Q) :
    let x0 := Qfloor (Qminl c cs) in
    let x1 := Qceiling (Qmaxl c cs) in
    let n := Z.max 1 (x1 - x0) in
    (1 <= n)%Z /\
    (forall v, In v (c :: cs) -> inject_Z x0 <= v /\ v <= inject_Z (x0 + n)) /\
    (exists v, In v (c :: cs) /\ v < inject_Z x0 + 1) /\
    (exists v, In v (c :: cs) /\
       (inject_Z (x0 + n) - 1 < v \/
        (n = 1%Z /\ forall w, In w (c :: cs) -> w == inject_Z x0))).
  Proof.
    cbv zeta.
    destruct (Qminl_spec cs c) as (m1 & m2). destruct (Qmaxl_spec cs c) as (M1 & M2).
    set (mn := Qminl c cs) in *. set (mx := Qmaxl c cs) in *.
    destruct (Qfloor_spec mn) as (f & Ef & F1 & F2).
    destruct (Qceiling_spec mx) as (k & Ek & K1 & K2).
    assert (Hmm : mn <= mx) by (apply m2; exact M1).
    set (x0 := Qfloor mn) in *. set (x1 := Qceiling mx) in *.
    assert (Hn : exists qn, qn = inject_Z (x0 + Z.max 1 (x1 - x0)) /\
                  ((1 <= x1 - x0)%Z /\ qn == k \/ (x1 - x0 <= 0)%Z /\ qn == f + 1 /\ k <= f)).
    { eexists; split; [reflexivity|].
      destruct (Z_le_gt_dec 1 (x1 - x0)) as [D | D].
      - left. split; [exact D|]. rewrite Z.max_r by lia. rewrite Ek.
        replace (x0 + (x1 - x0))%Z with x1 by lia. reflexivity.
      - right. split; [lia|]. rewrite Z.max_l by lia. rewrite inject_Z_plus, <- Ef. split; [reflexivity|].
        rewrite Ek, Ef. rewrite <- Zle_Qle. lia. }
    destruct Hn as (qn & Eqn & Hn). rewrite <- Eqn. rewrite <- Ef.
    split; [lia|]. split; [|split].
    - intros v Hv. pose proof (m2 v Hv). pose proof (M2 v Hv).
      destruct Hn as [(D & Hq) | (D & Hq & Hk)]; split; lra.
    - exists mn. split; [exact m1|]. lra.
    - exists mx. split; [exact M1|].
      destruct Hn as [(D & Hq) | (D & Hq & Hk)].
      + left. lra.
      + right. split; [lia|]. intros w Hw. pose proof (m2 w Hw). pose proof (M2 w Hw). lra.
  Qed.

  Lemma map_fst_in {A B} (l : list (A * B)) p : In p l -> In (fst p) (map fst l).
  Proof. apply in_map. Qed.

  Theorem enclosing_spec (g : geobox) (p : Q * Q) (ps : list (Q * Q)) :
    ~ aff_det (gaff g) == 0 ->
    exists u (x0 y0 : Z),
      enclosing g true (p :: ps) = Ok u /\
      gaff u = aff_mul (gaff g) (aff_tr (inject_Z x0) (inject_Z y0)) /\ gcrs u = gcrs g /\
      (1 <= gnx u)%Z /\ (1 <= gny u)%Z /\
      let pix := aff_apply (aff_inv (gaff g)) in
      (forall q, In q (p :: ps) ->
         inject_Z x0 <= fst (pix q) /\ fst (pix q) <= inject_Z (x0 + gnx u) /\
         inject_Z y0 <= snd (pix q) /\ snd (pix q) <= inject_Z (y0 + gny u)) /\
      (exists q, In q (p :: ps) /\ fst (pix q) < inject_Z x0 + 1) /\
      (exists q, In q (p :: ps) /\ snd (pix q) < inject_Z y0 + 1) /\
      (exists q, In q (p :: ps) /\
         (inject_Z (x0 + gnx u) - 1 < fst (pix q) \/
          (gnx u = 1%Z /\ forall q', In q' (p :: ps) -> fst (pix q') == inject_Z x0))) /\
      (exists q, In q (p :: ps) /\
         (inject_Z (y0 + gny u) - 1 < snd (pix q) \/
          (gny u = 1%Z /\ forall q', In q' (p :: ps) -> snd (pix q') == inject_Z y0))).
  Proof.
    intros Hd. unfold enclosing. simpl negb. cbv iota.
    destruct (Qeq_bool (aff_det (gaff g)) 0) eqn:E.
    { apply Qeq_bool_iff in E. contradiction. }
    set (pix := aff_apply (aff_inv (gaff g))).
    simpl map. fold pix.
    set (c := pix p). set (cs := map pix ps).
    destruct (enclose_axis (fst c) (map fst cs)) as (X1 & X2 & (vx & Vx1 & Vx2) & (wx & Wx1 & Wx2)).
    destruct (enclose_axis (snd c) (map snd cs)) as (Y1 & Y2 & (vy & Vy1 & Vy2) & (wy & Wy1 & Wy2)).
    set (x0 := Qfloor (Qminl (fst c) (map fst cs))) in *.
    set (y0 := Qfloor (Qminl (snd c) (map snd cs))) in *.
    set (nx := Z.max 1 (Qceiling (Qmaxl (fst c) (map fst cs)) - x0)) in *.
    set (ny := Z.max 1 (Qceiling (Qmaxl (snd c) (map snd cs)) - y0)) in *.
    eexists. exists x0, y0. split; [reflexivity|]. cbn [gaff gcrs gnx gny].
    split; [reflexivity|]. split; [reflexivity|]. split; [exact X1|]. split; [exact Y1|].
    cbv zeta.
    assert (InX : forall q, In q (p :: ps) -> In (fst (pix q)) (fst c :: map fst cs)).
    { intros q [<- | Hq]; [left; reflexivity | right]. unfold cs. rewrite map_map.
      apply (in_map (fun x => fst (pix x)) _ _ Hq). }
    assert (InY : forall q, In q (p :: ps) -> In (snd (pix q)) (snd c :: map snd cs)).
    { intros q [<- | Hq]; [left; reflexivity | right]. unfold cs. rewrite map_map.
      apply (in_map (fun x => snd (pix x)) _ _ Hq). }
    assert (ExX : forall v, In v (fst c :: map fst cs) -> exists q, In q (p :: ps) /\ v = fst (pix q)).
    { intros v [<- | Hv]; [exists p; split; [left; reflexivity | reflexivity]|].
      unfold cs in Hv. rewrite map_map in Hv. apply in_map_iff in Hv. destruct Hv as (q & <- & Hq).
      exists q. split; [right; exact Hq | reflexivity]. }
    assert (ExY : forall v, In v (snd c :: map snd cs) -> exists q, In q (p :: ps) /\ v = snd (pix q)).
    { intros v [<- | Hv]; [exists p; split; [left; reflexivity | reflexivity]|].
      unfold cs in Hv. rewrite map_map in Hv. apply in_map_iff in Hv. destruct Hv as (q & <- & Hq).
      exists q. split; [right; exact Hq | reflexivity]. }
    split; [|split; [|split; [|split]]].
    - intros q Hq. destruct (X2 _ (InX q Hq)). destruct (Y2 _ (InY q Hq)). auto.
    - destruct (ExX _ Vx1) as (q & Hq & ->). exists q. auto.
    - destruct (ExY _ Vy1) as (q & Hq & ->). exists q. auto.
    - destruct (ExX _ Wx1) as (q & Hq & ->). exists q. split; [exact Hq|].
      destruct Wx2 as [W | (W1 & W2)]; [left; exact W | right].
      split; [exact W1|]. intros q' Hq'. apply W2. apply InX. exact Hq'.
    - destruct (ExY _ Wy1) as (q & Hq & ->). exists q. split; [exact Hq|].
      destruct Wy2 as [W | (W1 & W2)]; [left; exact W | right].
      split; [exact W1|]. intros q' Hq'. apply W2. apply InY. exact Hq'.
  Qed.

  (** the pixel coordinates used above are coordinates of the result GeoBox shifted by its
      origin: a vertex with source-pixel coordinates [c] is the world image of
      [c - (x0, y0)] under the result's affine *)
  Lemma enclosing_world (A : aff) (q : Q * Q) tx ty :
    ~ aff_det A == 0 ->
    let c := aff_apply (aff_inv A) q in
    pt_eq (aff_apply (aff_mul A (aff_tr tx ty)) (fst c - tx, snd c - ty)) q.
  Proof.
    intros Hd. cbv zeta. unfold pt_eq, aff_apply, aff_mul, aff_inv, aff_tr, aff_det in *; simpl.
    split; field; exact Hd.
  Qed.

  Theorem enclosing_errors (g : geobox) pts :
    enclosing g false pts = Err EValue /\ enclosing g true [] = 
      (if Qeq_bool (aff_det (gaff g)) 0 then Err EOther else Err EValue).
  Proof. unfold enclosing; simpl. split; [reflexivity|]. destruct (Qeq_bool _ _); reflexivity. Qed.
End Enclosing.

(** * BoundingBox union / intersection over [Q]: lattice laws *)
Section BBoxLaws.
  Variable crs : Type.
  Variable crs_eqb : crs -> crs -> bool.
  Notation qbox := (@bbox crs Q).
  Open Scope Q_scope.

  Lemma qbox_or_eq (a b : qbox) :
    qbox_or crs_eqb a b =
    if tag_ne crs_eqb (bcrs a) (bcrs b) then Err ECrs
    else Ok (mkBB (Qmin (bl b) (bl a)) (Qmin (bb_ b) (bb_ a)) (Qmax (br b) (br a)) (Qmax (bt b) (bt a)) (bcrs a)).
  Proof. unfold qbox_or, bbox_union; simpl. destruct (tag_ne _ _ _); reflexivity. Qed.

  Lemma qbox_and_eq (a b : qbox) :
    qbox_and crs_eqb a b =
    if tag_ne crs_eqb (bcrs a) (bcrs b) then Err ECrs
    else Ok (mkBB (Qmax (bl b) (bl a)) (Qmax (bb_ b) (bb_ a)) (Qmin (br b) (br a)) (Qmin (bt b) (bt a)) (bcrs a)).
  Proof. unfold qbox_and, bbox_intersection; simpl. destruct (tag_ne _ _ _); reflexivity. Qed.

  Lemma qbox_or_inv (a b u : qbox) : qbox_or crs_eqb a b = Ok u ->
    tag_ne crs_eqb (bcrs a) (bcrs b) = false /\
    u = mkBB (Qmin (bl b) (bl a)) (Qmin (bb_ b) (bb_ a)) (Qmax (br b) (br a)) (Qmax (bt b) (bt a)) (bcrs a).
  Proof. rewrite qbox_or_eq. destruct (tag_ne _ _ _); [discriminate|]. intros H; inversion H; auto. Qed.

  Lemma qbox_and_inv (a b u : qbox) : qbox_and crs_eqb a b = Ok u ->
    tag_ne crs_eqb (bcrs a) (bcrs b) = false /\
    u = mkBB (Qmax (bl b) (bl a)) (Qmax (bb_ b) (bb_ a)) (Qmin (br b) (br a)) (Qmin (bt b) (bt a)) (bcrs a).
  Proof. rewrite qbox_and_eq. destruct (tag_ne _ _ _); [discriminate|]. intros H; inversion H; auto. Qed.

  Ltac inv_or H := apply qbox_or_inv in H; destruct H as (? & ->).
  Ltac inv_and H := apply qbox_and_inv in H; destruct H as (? & ->).

  Theorem qbox_or_comm (a b u v : qbox) :
    qbox_or crs_eqb a b = Ok u -> qbox_or crs_eqb b a = Ok v -> box_eq u v.
  Proof. intros H1 H2. inv_or H1. inv_or H2. unfold box_eq; simpl. repeat split; first [apply Q.min_comm | apply Q.max_comm]. Qed.

  Theorem qbox_and_comm (a b u v : qbox) :
    qbox_and crs_eqb a b = Ok u -> qbox_and crs_eqb b a = Ok v -> box_eq u v.
  Proof. intros H1 H2. inv_and H1. inv_and H2. unfold box_eq; simpl. repeat split; first [apply Q.min_comm | apply Q.max_comm]. Qed.

  Theorem qbox_or_assoc (a b c ab l bc r : qbox) :
    qbox_or crs_eqb a b = Ok ab -> qbox_or crs_eqb ab c = Ok l ->
    qbox_or crs_eqb b c = Ok bc -> qbox_or crs_eqb a bc = Ok r -> box_eq l r.
  Proof.
    intros H1 H2 H3 H4. inv_or H1. inv_or H2. inv_or H3. inv_or H4. unfold box_eq; simpl.
    repeat split.
    - rewrite (Q.min_comm (bl b) (bl a)), Q.min_assoc, (Q.min_comm (bl c) (bl a)), <- Q.min_assoc,
        (Q.min_comm (bl a)). reflexivity.
    - rewrite (Q.min_comm (bb_ b) (bb_ a)), Q.min_assoc, (Q.min_comm (bb_ c) (bb_ a)), <- Q.min_assoc,
        (Q.min_comm (bb_ a)). reflexivity.
    - rewrite (Q.max_comm (br b) (br a)), Q.max_assoc, (Q.max_comm (br c) (br a)), <- Q.max_assoc,
        (Q.max_comm (br a)). reflexivity.
    - rewrite (Q.max_comm (bt b) (bt a)), Q.max_assoc, (Q.max_comm (bt c) (bt a)), <- Q.max_assoc,
        (Q.max_comm (bt a)). reflexivity.
  Qed.

  Theorem qbox_and_assoc (a b c ab l bc r : qbox) :
    qbox_and crs_eqb a b = Ok ab -> qbox_and crs_eqb ab c = Ok l ->
    qbox_and crs_eqb b c = Ok bc -> qbox_and crs_eqb a bc = Ok r -> box_eq l r.
  Proof.
    intros H1 H2 H3 H4. inv_and H1. inv_and H2. inv_and H3. inv_and H4. unfold box_eq; simpl.
    repeat split.
    - rewrite (Q.max_comm (bl b) (bl a)), Q.max_assoc, (Q.max_comm (bl c) (bl a)), <- Q.max_assoc,
        (Q.max_comm (bl a)). reflexivity.
    - rewrite (Q.max_comm (bb_ b) (bb_ a)), Q.max_assoc, (Q.max_comm (bb_ c) (bb_ a)), <- Q.max_assoc,
        (Q.max_comm (bb_ a)). reflexivity.
    - rewrite (Q.min_comm (br b) (br a)), Q.min_assoc, (Q.min_comm (br c) (br a)), <- Q.min_assoc,
        (Q.min_comm (br a)). reflexivity.
    - rewrite (Q.min_comm (bt b) (bt a)), Q.min_assoc, (Q.min_comm (bt c) (bt a)), <- Q.min_assoc,
        (Q.min_comm (bt a)). reflexivity.
  Qed.

  Theorem qbox_idem (a u v : qbox) :
    (qbox_or crs_eqb a a = Ok u -> box_eq u a) /\ (qbox_and crs_eqb a a = Ok v -> box_eq v a).
  Proof.
    split; intros H; [inv_or H | inv_and H]; unfold box_eq; simpl;
      repeat split; first [apply Q.min_id | apply Q.max_id].
  Qed.

  Theorem qbox_absorb (a b i u j v : qbox) :
    (qbox_and crs_eqb a b = Ok i -> qbox_or crs_eqb a i = Ok u -> box_eq u a) /\
    (qbox_or crs_eqb a b = Ok j -> qbox_and crs_eqb a j = Ok v -> box_eq v a).
  Proof.
    split; intros H1 H2.
    - inv_and H1. inv_or H2. unfold box_eq; simpl. repeat split.
      + rewrite (Q.max_comm (bl b)), Q.min_comm. apply Q.max_min_absorption.
      + rewrite (Q.max_comm (bb_ b)), Q.min_comm. apply Q.max_min_absorption.
      + rewrite (Q.min_comm (br b)), Q.max_comm. apply Q.min_max_absorption.
      + rewrite (Q.min_comm (bt b)), Q.max_comm. apply Q.min_max_absorption.
    - inv_or H1. inv_and H2. unfold box_eq; simpl. repeat split.
      + rewrite (Q.min_comm (bl b)), Q.max_comm. apply Q.min_max_absorption.
      + rewrite (Q.min_comm (bb_ b)), Q.max_comm. apply Q.min_max_absorption.
      + rewrite (Q.max_comm (br b)), Q.min_comm. apply Q.max_min_absorption.
      + rewrite (Q.max_comm (bt b)), Q.min_comm. apply Q.max_min_absorption.
  Qed.

  Theorem qbox_containment (a b u i : qbox) :
    (qbox_or crs_eqb a b = Ok u -> box_le a u /\ box_le b u) /\
    (qbox_and crs_eqb a b = Ok i -> box_le i a /\ box_le i b).
  Proof.
    split; intros H; [inv_or H | inv_and H]; unfold box_le; simpl;
      repeat split; first [apply Q.le_min_l | apply Q.le_min_r | apply Q.le_max_l | apply Q.le_max_r].
  Qed.

  (** defined exactly when the CRS tags agree; the result carries the first operand's CRS *)
  Theorem qbox_defined (a b : qbox) :
    (tag_ne crs_eqb (bcrs a) (bcrs b) = true ->
       qbox_or crs_eqb a b = Err ECrs /\ qbox_and crs_eqb a b = Err ECrs) /\
    (tag_ne crs_eqb (bcrs a) (bcrs b) = false ->
       exists u i, qbox_or crs_eqb a b = Ok u /\ qbox_and crs_eqb a b = Ok i /\
                   bcrs u = bcrs a /\ bcrs i = bcrs a).
  Proof.
    rewrite qbox_or_eq, qbox_and_eq. split; intros H; rewrite H.
    - auto.
    - eexists _, _. repeat split; reflexivity.
  Qed.

  (** n-ary: the union is the least box containing every operand, the intersection the
      greatest box contained in every operand (edge-wise), for streams of any length *)
  Lemma union_loop_Q (bbs : list qbox) : forall L B R T c,
    (forall x, In x bbs -> tag_ne crs_eqb c (bcrs x) = false) ->
    exists u, bbox_union_loop crs_eqb Qmin Qmax L B R T c bbs = Ok u /\ bcrs u = c /\
      (bl u <= L /\ bb_ u <= B /\ R <= br u /\ T <= bt u) /\
      (forall x, In x bbs -> box_le x u) /\
      (forall v : qbox, bl v <= L -> bb_ v <= B -> R <= br v -> T <= bt v ->
                        (forall x, In x bbs -> box_le x v) -> box_le u v).
  Proof.
    induction bbs as [|x rest IH]; intros L B R T c Hc.
    - eexists. split; [reflexivity|]. simpl. split; [reflexivity|].
      split; [repeat split; apply Qle_refl|]. split; [intros ? []|].
      intros v V1 V2 V3 V4 _. unfold box_le; simpl. auto.
    - simpl. rewrite (Hc x (or_introl eq_refl)).
      destruct (IH (Qmin (bl x) L) (Qmin (bb_ x) B) (Qmax (br x) R) (Qmax (bt x) T) c)
        as (u & E & Ec & (U1 & U2 & U3 & U4) & Hin & Hleast).
      { intros y Hy. apply Hc. right. exact Hy. }
      exists u. split; [exact E|]. split; [exact Ec|].
      pose proof (Q.le_min_l (bl x) L). pose proof (Q.le_min_r (bl x) L).
      pose proof (Q.le_min_l (bb_ x) B). pose proof (Q.le_min_r (bb_ x) B).
      pose proof (Q.le_max_l (br x) R). pose proof (Q.le_max_r (br x) R).
      pose proof (Q.le_max_l (bt x) T). pose proof (Q.le_max_r (bt x) T).
      split; [repeat split; eapply Qle_trans; eassumption|].
      split.
      + intros y [<- | Hy]; [|apply Hin; exact Hy].
        unfold box_le. repeat split; eapply Qle_trans; eassumption.
      + intros v V1 V2 V3 V4 Hv. apply Hleast.
        * apply Q.min_glb; [apply (Hv x (or_introl eq_refl)) | exact V1].
        * apply Q.min_glb; [apply (Hv x (or_introl eq_refl)) | exact V2].
        * apply Q.max_lub; [apply (Hv x (or_introl eq_refl)) | exact V3].
        * apply Q.max_lub; [apply (Hv x (or_introl eq_refl)) | exact V4].
        * intros y Hy. apply Hv. right. exact Hy.
  Qed.

  Lemma box_le_refl (x : qbox) : box_le x x.
  Proof. unfold box_le; repeat split; apply Qle_refl. Qed.

  Theorem bbox_union_nary (x : qbox) rest :
    (forall y, In y rest -> tag_ne crs_eqb (bcrs x) (bcrs y) = false) ->
    exists u, bbox_union crs_eqb Qmin Qmax (x :: rest) = Ok u /\ bcrs u = bcrs x /\
      (forall y, In y (x :: rest) -> box_le y u) /\
      (forall v : qbox, (forall y, In y (x :: rest) -> box_le y v) -> box_le u v).
  Proof.
    intros Hc. unfold bbox_union.
    destruct (union_loop_Q rest (bl x) (bb_ x) (br x) (bt x) (bcrs x) Hc)
      as (u & E & Ec & (U1 & U2 & U3 & U4) & Hin & Hleast).
    exists u. split; [exact E|]. split; [exact Ec|]. split.
    - intros y [<- | Hy]; [|apply Hin; exact Hy]. unfold box_le. auto.
    - intros v Hv. destruct (Hv x (or_introl eq_refl)) as (V1 & V2 & V3 & V4).
      apply Hleast; try assumption. intros y Hy. apply Hv. right. exact Hy.
  Qed.

  Lemma inter_loop_Q (bbs : list qbox) : forall L B R T c,
    (forall x, In x bbs -> tag_ne crs_eqb c (bcrs x) = false) ->
    exists u, bbox_inter_loop crs_eqb Qmin Qmax L B R T c bbs = Ok u /\ bcrs u = c /\
      (L <= bl u /\ B <= bb_ u /\ br u <= R /\ bt u <= T) /\
      (forall x, In x bbs -> box_le u x) /\
      (forall v : qbox, L <= bl v -> B <= bb_ v -> br v <= R -> bt v <= T ->
                        (forall x, In x bbs -> box_le v x) -> box_le v u).
  Proof.
    induction bbs as [|x rest IH]; intros L B R T c Hc.
    - eexists. split; [reflexivity|]. simpl. split; [reflexivity|].
      split; [repeat split; apply Qle_refl|]. split; [intros ? []|].
      intros v V1 V2 V3 V4 _. unfold box_le; simpl. auto.
    - simpl. rewrite (Hc x (or_introl eq_refl)).
      destruct (IH (Qmax (bl x) L) (Qmax (bb_ x) B) (Qmin (br x) R) (Qmin (bt x) T) c)
        as (u & E & Ec & (U1 & U2 & U3 & U4) & Hin & Hleast).
      { intros y Hy. apply Hc. right. exact Hy. }
      exists u. split; [exact E|]. split; [exact Ec|].
      pose proof (Q.le_max_l (bl x) L). pose proof (Q.le_max_r (bl x) L).
      pose proof (Q.le_max_l (bb_ x) B). pose proof (Q.le_max_r (bb_ x) B).
      pose proof (Q.le_min_l (br x) R). pose proof (Q.le_min_r (br x) R).
      pose proof (Q.le_min_l (bt x) T). pose proof (Q.le_min_r (bt x) T).
      split; [repeat split; eapply Qle_trans; eassumption|].
      split.
      + intros y [<- | Hy]; [|apply Hin; exact Hy].
        unfold box_le. repeat split; eapply Qle_trans; eassumption.
      + intros v V1 V2 V3 V4 Hv. apply Hleast.
        * apply Q.max_lub; [apply (Hv x (or_introl eq_refl)) | exact V1].
        * apply Q.max_lub; [apply (Hv x (or_introl eq_refl)) | exact V2].
        * apply Q.min_glb; [apply (Hv x (or_introl eq_refl)) | exact V3].
        * apply Q.min_glb; [apply (Hv x (or_introl eq_refl)) | exact V4].
        * intros y Hy. apply Hv. right. exact Hy.
  Qed.

  Theorem bbox_intersection_nary (x : qbox) rest :
    (forall y, In y rest -> tag_ne crs_eqb (bcrs x) (bcrs y) = false) ->
    exists u, bbox_intersection crs_eqb Qmin Qmax (x :: rest) = Ok u /\ bcrs u = bcrs x /\
      (forall y, In y (x :: rest) -> box_le u y) /\
      (forall v : qbox, (forall y, In y (x :: rest) -> box_le v y) -> box_le v u).
  Proof.
    intros Hc. unfold bbox_intersection.
    destruct (inter_loop_Q rest (bl x) (bb_ x) (br x) (bt x) (bcrs x) Hc)
      as (u & E & Ec & (U1 & U2 & U3 & U4) & Hin & Hleast).
    exists u. split; [exact E|]. split; [exact Ec|]. split.
    - intros y [<- | Hy]; [|apply Hin; exact Hy]. unfold box_le. auto.
    - intros v Hv. destruct (Hv x (or_introl eq_refl)) as (V1 & V2 & V3 & V4).
      apply Hleast; try assumption. intros y Hy. apply Hv. right. exact Hy.
  Qed.
End BBoxLaws.

(** * small corollaries stated in Props/C16.v *)
Lemma intersection_pixel_set (u : pbox) (ps : list pbox) :
  (0 <= pnx u)%Z -> (0 <= pny u)%Z ->
  (forall i, in_cols u i <-> (forall p, In p ps -> in_cols p i)) ->
  (forall j, in_rows u j <-> (forall p, In p ps -> in_rows p j)) ->
  (forall i j, in_pix u i j <-> (forall p, In p ps -> in_pix p i j)) /\
  ((pnx u = 0 \/ pny u = 0)%Z <-> (forall i j, ~ in_pix u i j)).
Proof.
  intros Hx Hy Hc Hr. split.
  - intros i j. unfold in_pix. rewrite Hc, Hr. split.
    + intros (A & B) p Hp. auto.
    + intros H. split; intros p Hp; apply (H p Hp).
  - unfold in_pix, in_cols, in_rows. split.
    + intros [E | E] i j; lia.
    + intros H. destruct (Z.eq_dec (pnx u) 0) as [E | E]; [auto|].
      destruct (Z.eq_dec (pny u) 0) as [E' | E']; [auto|].
      exfalso. apply (H (px u) (py u)). lia.
Qed.

Lemma binary_ops_rejected_iff (crs : Type) (crs_eqb : crs -> crs -> bool) (atol rtol tol : Q) (fx : fixes)
      (a b : geobox crs) :
  is_ok (gbox_or crs_eqb atol rtol tol a b) =
    is_ok (bbox_in_pix crs_eqb atol rtol tol a a) && is_ok (bbox_in_pix crs_eqb atol rtol tol b a) /\
  is_ok (gbox_and crs_eqb atol rtol tol a b) =
    is_ok (bbox_in_pix crs_eqb atol rtol tol a a) && is_ok (bbox_in_pix crs_eqb atol rtol tol b a) /\
  is_ok (overlap_roi crs_eqb fx atol rtol tol a b) = is_ok (bbox_in_pix crs_eqb atol rtol tol b a).
Proof.
  split; [apply gbox_or_ok_bool|]. split; [apply gbox_and_ok_bool | apply overlap_roi_ok_bool].
Qed.

Lemma qbox_comm_both (crs : Type) (crs_eqb : crs -> crs -> bool) (a b u v : bbox crs Q) :
  (qbox_or crs_eqb a b = Ok u -> qbox_or crs_eqb b a = Ok v -> box_eq u v) /\
  (qbox_and crs_eqb a b = Ok u -> qbox_and crs_eqb b a = Ok v -> box_eq u v).
Proof. split; [apply qbox_or_comm | apply qbox_and_comm]. Qed.

Lemma qbox_assoc_both (crs : Type) (crs_eqb : crs -> crs -> bool) (a b c ab l bc r : bbox crs Q) :
  (qbox_or crs_eqb a b = Ok ab -> qbox_or crs_eqb ab c = Ok l ->
   qbox_or crs_eqb b c = Ok bc -> qbox_or crs_eqb a bc = Ok r -> box_eq l r) /\
  (qbox_and crs_eqb a b = Ok ab -> qbox_and crs_eqb ab c = Ok l ->
   qbox_and crs_eqb b c = Ok bc -> qbox_and crs_eqb a bc = Ok r -> box_eq l r).
Proof. split; [apply qbox_or_assoc | apply qbox_and_assoc]. Qed.
