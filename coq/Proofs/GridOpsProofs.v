(** Lemmas about Model/GridOps.v (property C16). *)
From Coq Require Import ZArith QArith Qround Qabs Qminmax List Bool Lia Lqa Setoid Morphisms.
From OG Require Import Base.Result Base.QZ Base.Aff2 Model.Tagged Model.GridOps.
Import ListNotations.
Open Scope Q_scope.

(** * Scalar helpers *)

Lemma Qltb_true x y : Qltb x y = true <-> x < y.
Proof.
  unfold Qltb. rewrite negb_true_iff. split; intros H.
  - apply Qle_bool_false; exact H.
  - apply Qle_bool_false; exact H.
Qed.

Lemma Qltb_false x y : Qltb x y = false <-> y <= x.
Proof. unfold Qltb. rewrite negb_false_iff. apply Qle_bool_iff. Qed.

Global Instance Qltb_comp : Proper (Qeq ==> Qeq ==> eq) Qltb.
Proof. intros x x' Hx y y' Hy. unfold Qltb. rewrite Hx, Hy. reflexivity. Qed.

Lemma isclose_spec atol rtol a b :
  isclose atol rtol a b = true <-> Qabs (a - b) <= atol + rtol * Qabs b.
Proof. unfold isclose. apply Qle_bool_iff. Qed.

Global Instance isclose_comp : Proper (Qeq ==> Qeq ==> Qeq ==> Qeq ==> eq) isclose.
Proof.
  intros a a' Ha r r' Hr x x' Hx y y' Hy. unfold isclose. rewrite Ha, Hr, Hx, Hy. reflexivity.
Qed.

Lemma isclose_refl atol rtol a : 0 <= atol -> 0 <= rtol -> isclose atol rtol a a = true.
Proof.
  intros H1 H2. apply isclose_spec.
  assert (E : a - a == 0) by ring. rewrite E. simpl Qabs at 1.
  pose proof (Qabs_nonneg a). nra.
Qed.

Global Instance Qtrunc_comp : Proper (Qeq ==> eq) Qtrunc.
Proof.
  intros x y H. unfold Qtrunc. rewrite (Qfloor_comp x y H), (Qceiling_comp x y H).
  rewrite (Qleb_comp 0 0 (Qeq_refl 0) x y H). reflexivity.
Qed.

Global Instance fmod1_comp : Proper (Qeq ==> Qeq) fmod1.
Proof. intros x y H. unfold fmod1. rewrite (Qtrunc_comp x y H), H. reflexivity. Qed.

Global Instance is_almost_int_comp : Proper (Qeq ==> Qeq ==> eq) is_almost_int.
Proof.
  intros x y H t t' Ht. unfold is_almost_int.
  assert (E : Qabs (fmod1 x) == Qabs (fmod1 y)) by (rewrite H; reflexivity).
  rewrite (Qltb_comp _ _ (Qeq_refl (1 # 2)) _ _ E).
  destruct (Qltb (1 # 2) (Qabs (fmod1 y))); apply Qltb_comp; try assumption; rewrite E; reflexivity.
Qed.

Global Instance py_round_comp : Proper (Qeq ==> eq) py_round.
Proof.
  intros x y H. unfold py_round. rewrite (Qfloor_comp x y H).
  assert (E : x - inject_Z (Qfloor y) == y - inject_Z (Qfloor y)) by (rewrite H; reflexivity).
  rewrite (Qltb_comp _ _ E _ _ (Qeq_refl _)), (Qltb_comp _ _ (Qeq_refl _) _ _ E). reflexivity.
Qed.

Global Instance maybe_zero_comp : Proper (Qeq ==> Qeq ==> Qeq) maybe_zero.
Proof.
  intros x y H t t' Ht. unfold maybe_zero.
  assert (E : Qabs x == Qabs y) by (rewrite H; reflexivity).
  rewrite (Qltb_comp _ _ E _ _ Ht). destruct (Qltb _ _); [reflexivity | exact H].
Qed.

Lemma Qtrunc_Z z : Qtrunc (inject_Z z) = z.
Proof. unfold Qtrunc. destruct (Qle_bool 0 (inject_Z z)); [apply Qfloor_Z | apply Qceiling_Z]. Qed.

Lemma fmod1_Z z : fmod1 (inject_Z z) == 0.
Proof. unfold fmod1. rewrite Qtrunc_Z. ring. Qed.

Lemma py_round_Z z : py_round (inject_Z z) = z.
Proof.
  unfold py_round. rewrite Qfloor_Z.
  assert (E : inject_Z z - inject_Z z == 0) by ring. rewrite E. reflexivity.
Qed.

(** |fmod(x,1)|, folded at 1/2, is the distance to the nearest integer *)
Lemma fmod1_cases x :
  exists t : Q, t = inject_Z (Qtrunc x) /\
    ((0 <= x /\ t <= x /\ x < t + 1) \/ (x < 0 /\ t - 1 < x /\ x <= t)).
Proof.
  exists (inject_Z (Qtrunc x)). split; [reflexivity|]. unfold Qtrunc.
  destruct (Qle_bool 0 x) eqn:E.
  - apply Qle_bool_iff in E. left.
    destruct (Qfloor_spec x) as (f & Ef & H1 & H2). rewrite <- Ef. auto.
  - apply Qle_bool_false in E. right.
    destruct (Qceiling_spec x) as (c & Ec & H1 & H2). rewrite <- Ec. auto.
Qed.

Lemma Z_between_false (n t : Z) : (t < n)%Z -> (n < t + 1)%Z -> False.
Proof. lia. Qed.

Lemma Qabs_lt_intro x y : - y < x -> x < y -> Qabs x < y.
Proof. intros; apply Qabs_Qlt_condition; split; assumption. Qed.

Lemma Qabs_lt_elim x y : Qabs x < y -> - y < x /\ x < y.
Proof. apply Qabs_Qlt_condition. Qed.

Lemma is_almost_int_spec x tol :
  is_almost_int x tol = true <-> exists n : Z, Qabs (x - inject_Z n) < tol.
Proof.
  unfold is_almost_int, fmod1.
  destruct (fmod1_cases x) as (t & Et & Ht). rewrite <- Et.
  assert (Hr : exists r, r = Qabs (x - t) /\ ((0 <= x /\ r == x - t) \/ (x < 0 /\ r == t - x))).
  { exists (Qabs (x - t)). split; [reflexivity|].
    destruct Ht as [(H0 & H1 & H2) | (H0 & H1 & H2)].
    - left. split; [exact H0|]. apply Qabs_pos. lra.
    - right. split; [exact H0|]. rewrite Qabs_neg by lra. ring. }
  destruct Hr as (r & Er & Hr). rewrite <- Er. clear Er.
  assert (P1 : exists q, q = inject_Z (Qtrunc x + 1) /\ q == t + 1).
  { eexists; split; [reflexivity|]. rewrite inject_Z_plus, <- Et. reflexivity. }
  assert (M1 : exists q, q = inject_Z (Qtrunc x - 1) /\ q == t - 1).
  { eexists; split; [reflexivity|]. unfold Z.sub. rewrite inject_Z_plus, inject_Z_opp, <- Et. reflexivity. }
  destruct P1 as (qp & Eqp & Hqp). destruct M1 as (qm & Eqm & Hqm).
  split.
  - intros H.
    destruct (Qltb (1 # 2) r) eqn:E; apply Qltb_true in H.
    + apply Qltb_true in E.
      destruct Ht as [(H0 & H1 & H2) | (H0 & H1 & H2)]; destruct Hr as [(G0 & G) | (G0 & G)]; try lra.
      * exists (Qtrunc x + 1)%Z. rewrite <- Eqp. apply Qabs_lt_intro; lra.
      * exists (Qtrunc x - 1)%Z. rewrite <- Eqm. apply Qabs_lt_intro; lra.
    + apply Qltb_false in E. exists (Qtrunc x). rewrite <- Et.
      destruct Ht as [(H0 & H1 & H2) | (H0 & H1 & H2)]; destruct Hr as [(G0 & G) | (G0 & G)]; try lra;
        apply Qabs_lt_intro; lra.
  - intros (n & Hn). apply Qltb_true.
    assert (D : (n <= Qtrunc x - 1)%Z \/ n = Qtrunc x \/ (Qtrunc x + 1 <= n)%Z) by lia.
    assert (Dq : inject_Z n <= t - 1 \/ inject_Z n == t \/ t + 1 <= inject_Z n).
    { destruct D as [D | [D | D]].
      - left. rewrite Zle_Qle, <- Eqm in D. lra.
      - right; left. rewrite D, Et. reflexivity.
      - right; right. rewrite Zle_Qle, <- Eqp in D. lra. }
    clear D. set (q := inject_Z n) in *. clearbody q.
    apply Qabs_lt_elim in Hn. destruct Hn as (N1 & N2).
    destruct (Qltb (1 # 2) r) eqn:E; [apply Qltb_true in E | apply Qltb_false in E];
      destruct Ht as [(H0 & H1 & H2) | (H0 & H1 & H2)]; destruct Hr as [(G0 & G) | (G0 & G)]; try lra;
      destruct Dq as [D | [D | D]]; lra.
Qed.

Lemma is_almost_int_Z z tol : 0 < tol -> is_almost_int (inject_Z z) tol = true.
Proof.
  intros H. apply is_almost_int_spec. exists z.
  assert (E : inject_Z z - inject_Z z == 0) by ring. rewrite E. exact H.
Qed.

(** round(x) is the integer nearer than 1/2 *)
Lemma py_round_near x (n : Z) : Qabs (x - inject_Z n) < 1 # 2 -> py_round x = n.
Proof.
  intros H. apply Qabs_lt_elim in H. destruct H as (H1 & H2).
  unfold py_round.
  assert (Em : inject_Z (n - 1) == inject_Z n - 1).
  { unfold Z.sub. rewrite inject_Z_plus, inject_Z_opp. reflexivity. }
  assert (Ep : inject_Z (n + 1) == inject_Z n + 1).
  { rewrite inject_Z_plus. reflexivity. }
  assert (D : Qfloor x = n \/ Qfloor x = (n - 1)%Z).
  { assert (A : (n - 1 <= Qfloor x)%Z).
    { apply Qfloor_ge_iff. rewrite Em. set (q := inject_Z n) in *. clearbody q. lra. }
    assert (B : (Qfloor x < n + 1)%Z).
    { apply Qfloor_lt_iff. rewrite Ep. set (q := inject_Z n) in *. clearbody q. lra. }
    lia. }
  destruct (Qfloor_spec x) as (f & Ef & F1 & F2). rewrite <- Ef.
  destruct D as [D | D].
  - assert (Eq : f == inject_Z n) by (rewrite Ef, D; reflexivity).
    set (q := inject_Z n) in *. clearbody q.
    destruct (Qltb (x - f) (1 # 2)) eqn:E; [exact D|].
    apply Qltb_false in E. lra.
  - assert (Eq : f == inject_Z n - 1) by (rewrite Ef, D; exact Em).
    set (q := inject_Z n) in *. clearbody q.
    destruct (Qltb (x - f) (1 # 2)) eqn:E.
    { apply Qltb_true in E. lra. }
    destruct (Qltb (1 # 2) (x - f)) eqn:E2; [lia|].
    apply Qltb_false in E2. lra.
Qed.

Lemma split_float_spec x :
  exists n : Z,
    fst (split_float x) == inject_Z n /\
    x == fst (split_float x) + snd (split_float x) /\
    - (1 # 2) <= snd (split_float x) /\ snd (split_float x) <= 1 # 2.
Proof.
  unfold split_float, fmod1.
  destruct (fmod1_cases x) as (t & Et & Ht). rewrite <- Et.
  destruct (Qltb (1 # 2) (x - t)) eqn:E1; [apply Qltb_true in E1 | apply Qltb_false in E1].
  - exists (Qtrunc x + 1)%Z. rewrite inject_Z_plus, <- Et. simpl fst; simpl snd. simpl inject_Z.
    repeat split; try ring; destruct Ht as [(H0 & H1 & H2) | (H0 & H1 & H2)]; lra.
  - destruct (Qltb (x - t) (- (1 # 2))) eqn:E2; [apply Qltb_true in E2 | apply Qltb_false in E2].
    + exists (Qtrunc x - 1)%Z. unfold Z.sub. rewrite inject_Z_plus, inject_Z_opp, <- Et.
      simpl fst; simpl snd. simpl inject_Z.
      repeat split; try ring; destruct Ht as [(H0 & H1 & H2) | (H0 & H1 & H2)]; lra.
    + exists (Qtrunc x). rewrite <- Et. simpl fst; simpl snd.
      repeat split; try ring; lra.
Qed.

(** * Integer lattice folds *)
Open Scope Z_scope.

Definition zmin_of (m : Z) (l : list Z) : Prop := In m l /\ forall y, In y l -> m <= y.
Definition zmax_of (m : Z) (l : list Z) : Prop := In m l /\ forall y, In y l -> y <= m.

Lemma zmin_of_step m a b l : zmin_of m (Z.min a b :: l) -> zmin_of m (b :: a :: l).
Proof.
  intros (Hin & Hle). split.
  - destruct Hin as [E | Hin].
    + destruct (Z.min_dec a b) as [D | D]; rewrite D in E; subst; simpl; auto.
    + simpl; auto.
  - intros y [E | [E | Hy]].
    + subst y. specialize (Hle (Z.min a b) (or_introl eq_refl)). lia.
    + subst y. specialize (Hle (Z.min a b) (or_introl eq_refl)). lia.
    + apply Hle. simpl; auto.
Qed.

Lemma zmax_of_step m a b l : zmax_of m (Z.max a b :: l) -> zmax_of m (b :: a :: l).
Proof.
  intros (Hin & Hle). split.
  - destruct Hin as [E | Hin].
    + destruct (Z.max_dec a b) as [D | D]; rewrite D in E; subst; simpl; auto.
    + simpl; auto.
  - intros y [E | [E | Hy]].
    + subst y. specialize (Hle (Z.max a b) (or_introl eq_refl)). lia.
    + subst y. specialize (Hle (Z.max a b) (or_introl eq_refl)). lia.
    + apply Hle. simpl; auto.
Qed.

Section Folds.
  Variable crs : Type.
  Variable crs_eqb : crs -> crs -> bool.
  Notation zbox := (@bbox crs Z).

  Lemma union_loop_Z (bbs : list zbox) : forall L B R T,
    (forall x, In x bbs -> bcrs x = None) ->
    exists L' B' R' T',
      bbox_union_loop crs_eqb Z.min Z.max L B R T None bbs = Ok (mkBB L' B' R' T' None) /\
      zmin_of L' (L :: map bl bbs) /\ zmin_of B' (B :: map bb_ bbs) /\
      zmax_of R' (R :: map br bbs) /\ zmax_of T' (T :: map bt bbs).
  Proof.
    induction bbs as [|x rest IH]; intros L B R T Hn.
    - exists L, B, R, T. simpl. split; [reflexivity|].
      unfold zmin_of, zmax_of. simpl. repeat split; auto; intros y [E | []]; subst; lia.
    - simpl. rewrite (Hn x (or_introl eq_refl)). simpl.
      destruct (IH (Z.min (bl x) L) (Z.min (bb_ x) B) (Z.max (br x) R) (Z.max (bt x) T))
        as (L' & B' & R' & T' & E & H1 & H2 & H3 & H4).
      { intros y Hy. apply Hn. simpl; auto. }
      exists L', B', R', T'. split; [exact E|].
      split; [apply zmin_of_step; exact H1|]. split; [apply zmin_of_step; exact H2|].
      split; [apply zmax_of_step; exact H3 | apply zmax_of_step; exact H4].
  Qed.

  Lemma inter_loop_Z (bbs : list zbox) : forall L B R T,
    (forall x, In x bbs -> bcrs x = None) ->
    exists L' B' R' T',
      bbox_inter_loop crs_eqb Z.min Z.max L B R T None bbs = Ok (mkBB L' B' R' T' None) /\
      zmax_of L' (L :: map bl bbs) /\ zmax_of B' (B :: map bb_ bbs) /\
      zmin_of R' (R :: map br bbs) /\ zmin_of T' (T :: map bt bbs).
  Proof.
    induction bbs as [|x rest IH]; intros L B R T Hn.
    - exists L, B, R, T. simpl. split; [reflexivity|].
      unfold zmin_of, zmax_of. simpl. repeat split; auto; intros y [E | []]; subst; lia.
    - simpl. rewrite (Hn x (or_introl eq_refl)). simpl.
      destruct (IH (Z.max (bl x) L) (Z.max (bb_ x) B) (Z.min (br x) R) (Z.min (bt x) T))
        as (L' & B' & R' & T' & E & H1 & H2 & H3 & H4).
      { intros y Hy. apply Hn. simpl; auto. }
      exists L', B', R', T'. split; [exact E|].
      split; [apply zmax_of_step; exact H1|]. split; [apply zmax_of_step; exact H2|].
      split; [apply zmin_of_step; exact H3 | apply zmin_of_step; exact H4].
  Qed.
End Folds.

(** * GeoBoxes on a common grid *)
Section OnGrid.
  Variable crs : Type.
  Variable crs_eqb : crs -> crs -> bool.
  Notation geobox := (geobox crs).
  Variables atol rtol tol : Q.
  Hypothesis Hatol : (0 <= atol)%Q.
  Hypothesis Hrtol : (0 <= rtol)%Q.
  Hypothesis Htol : (0 < tol)%Q.
  Variable base : aff.
  Hypothesis Hbase : ~ (aff_det base == 0)%Q.

  Let pt := pixel_translation crs_eqb atol rtol.
  Let bip := bbox_in_pix crs_eqb atol rtol tol.

  Lemma on_grid_det (g : geobox) p : on_grid base g p -> ~ (aff_det (gaff g) == 0)%Q.
  Proof.
    intros (_ & _ & H). rewrite (aff_det_compat _ _ H), aff_det_mul_tr. exact Hbase.
  Qed.

  Lemma inject_Z_sub a b : (inject_Z (a - b) == inject_Z a - inject_Z b)%Q.
  Proof. unfold Z.sub. rewrite inject_Z_plus, inject_Z_opp. ring. Qed.

  Lemma pixel_translation_on_grid (a b : geobox) pa pb :
    on_grid base a pa -> on_grid base b pb -> tag_ne crs_eqb (gcrs a) (gcrs b) = false ->
    exists t, pt a b = Ok t /\
      (fst t == inject_Z (px pa - px pb))%Q /\ (snd t == inject_Z (py pa - py pb))%Q.
  Proof.
    intros Ga Gb Hc. pose proof (on_grid_det _ _ Gb) as Hd.
    destruct Ga as (_ & _ & Ha). destruct Gb as (_ & _ & Hb).
    unfold pt, pixel_translation. rewrite Hc.
    destruct (Qeq_bool (aff_det (gaff b)) 0) eqn:E.
    { apply Qeq_bool_iff in E. contradiction. }
    set (m := aff_mul (aff_inv (gaff b)) (gaff a)).
    assert (Hm : aff_eq m (aff_tr (inject_Z (px pa) - inject_Z (px pb)) (inject_Z (py pa) - inject_Z (py pb)))).
    { eapply aff_eq_trans.
      - apply aff_mul_compat; [apply aff_inv_compat; exact Hb | exact Ha].
      - apply aff_family_translation. exact Hbase. }
    destruct Hm as (E1 & E2 & E3 & E4 & E5 & E6). simpl in E1, E2, E3, E4, E5, E6.
    rewrite (isclose_comp _ _ (Qeq_refl _) _ _ (Qeq_refl _) _ _ E1 _ _ (Qeq_refl _)).
    rewrite (isclose_comp _ _ (Qeq_refl _) _ _ (Qeq_refl _) _ _ E2 _ _ (Qeq_refl _)).
    rewrite (isclose_comp _ _ (Qeq_refl _) _ _ (Qeq_refl _) _ _ E4 _ _ (Qeq_refl _)).
    rewrite (isclose_comp _ _ (Qeq_refl _) _ _ (Qeq_refl _) _ _ E5 _ _ (Qeq_refl _)).
    rewrite !isclose_refl by assumption. simpl.
    eexists; split; [reflexivity|]. simpl. rewrite !inject_Z_sub. split; assumption.
  Qed.

  Definition relbox (r p : pbox) : @bbox crs Z :=
    mkBB (px p - px r) (py p - py r) (px p - px r + pnx p) (py p - py r + pny p) None.

  Lemma bbox_in_pix_on_grid (a b : geobox) pa pb :
    on_grid base a pa -> on_grid base b pb -> tag_ne crs_eqb (gcrs a) (gcrs b) = false ->
    bip a b = Ok (relbox pb pa).
  Proof.
    intros Ga Gb Hc.
    destruct (pixel_translation_on_grid a b pa pb Ga Gb Hc) as (t & Et & E1 & E2).
    unfold bip, bbox_in_pix. fold pt. rewrite Et. simpl bind.
    rewrite (is_almost_int_comp _ _ E1 _ _ (Qeq_refl tol)), (is_almost_int_comp _ _ E2 _ _ (Qeq_refl tol)).
    rewrite !is_almost_int_Z by assumption. simpl.
    rewrite (py_round_comp _ _ E1), (py_round_comp _ _ E2), !py_round_Z.
    destruct Ga as (Hy & Hx & _). rewrite Hy, Hx. reflexivity.
  Qed.

  Lemma mapM_bbox_on_grid (ref : geobox) pref : on_grid base ref pref ->
    forall gs ps, Forall2 (on_grid base) gs ps ->
    (forall g, In g gs -> tag_ne crs_eqb (gcrs g) (gcrs ref) = false) ->
    mapM (fun g => bip g ref) gs = Ok (map (relbox pref) ps).
  Proof.
    intros Gr gs ps F. induction F as [|g p gs ps Gg F IH]; intros Hc.
    - reflexivity.
    - simpl. rewrite (bbox_in_pix_on_grid g ref p pref Gg Gr (Hc g (or_introl eq_refl))). simpl.
      rewrite IH by (intros; apply Hc; simpl; auto). reflexivity.
  Qed.

  Lemma relbox_none r ps : forall x, In x (map (relbox r) ps) -> bcrs x = None.
  Proof. intros x Hx. apply in_map_iff in Hx. destruct Hx as (p & <- & _). reflexivity. Qed.

  (* result placed on the base grid *)
  Lemma gbox_of_pix_bbox_on_grid (ref : geobox) pref L B R T c :
    on_grid base ref pref ->
    on_grid base (gbox_of_pix_bbox ref (mkBB L B R T c))
            (mkPB (px pref + L) (py pref + B) (R - L) (T - B)).
  Proof.
    intros (_ & _ & Hr). unfold on_grid, gbox_of_pix_bbox. simpl.
    split; [reflexivity|]. split; [reflexivity|].
    eapply aff_eq_trans; [apply aff_mul_compat; [exact Hr | apply aff_eq_refl]|].
    eapply aff_eq_trans; [apply aff_mul_assoc|].
    apply aff_mul_compat; [apply aff_eq_refl|].
    eapply aff_eq_trans; [apply aff_tr_tr|].
    rewrite !inject_Z_plus. apply aff_eq_refl.
  Qed.

  Lemma In_map_rel (f : pbox -> Z) p (ps : list pbox) : In p ps -> In (f p) (map f ps).
  Proof. apply in_map. Qed.

  Theorem geobox_union_on_grid (g0 : geobox) gs p0 ps :
    Forall2 (on_grid base) (g0 :: gs) (p0 :: ps) -> same_crs crs_eqb (g0 :: gs) ->
    exists g u,
      geobox_union crs_eqb atol rtol tol (g0 :: gs) = Ok g /\
      on_grid base g u /\ gcrs g = gcrs g0 /\
      (forall p, In p (p0 :: ps) -> rect_incl p u) /\
      (forall v, (forall p, In p (p0 :: ps) -> rect_incl p v) -> rect_incl u v).
  Proof.
    intros F Hs. pose proof F as F0. inversion F0 as [|? ? ? ? G0 F' ]; subst.
    unfold geobox_union. fold bip.
    rewrite (mapM_bbox_on_grid g0 p0 G0 (g0 :: gs) (p0 :: ps) F)
      by (intros g Hg; apply Hs; simpl; auto).
    simpl bind. simpl map. unfold bbox_union. simpl bl; simpl bb_; simpl br; simpl bt; simpl bcrs.
    destruct (union_loop_Z crs crs_eqb (map (relbox p0) ps) (px p0 - px p0) (py p0 - py p0)
                (px p0 - px p0 + pnx p0) (py p0 - py p0 + pny p0) (relbox_none p0 ps))
      as (L & B & R & T & E & HL & HB & HR & HT).
    rewrite E. simpl bind.
    eexists. exists (mkPB (px p0 + L) (py p0 + B) (R - L) (T - B)).
    split; [reflexivity|]. split; [apply gbox_of_pix_bbox_on_grid; exact G0|].
    split; [reflexivity|].
    rewrite !map_map in HL, HB, HR, HT. simpl in HL, HB, HR, HT.
    change (px p0 - px p0 :: map (fun x => px x - px p0) ps)
      with (map (fun x => px x - px p0) (p0 :: ps)) in HL.
    change (py p0 - py p0 :: map (fun x => py x - py p0) ps)
      with (map (fun x => py x - py p0) (p0 :: ps)) in HB.
    change (px p0 - px p0 + pnx p0 :: map (fun x => px x - px p0 + pnx x) ps)
      with (map (fun x => px x - px p0 + pnx x) (p0 :: ps)) in HR.
    change (py p0 - py p0 + pny p0 :: map (fun x => py x - py p0 + pny x) ps)
      with (map (fun x => py x - py p0 + pny x) (p0 :: ps)) in HT.
    destruct HL as (HL1 & HL2), HB as (HB1 & HB2), HR as (HR1 & HR2), HT as (HT1 & HT2).
    split.
    - intros p Hp. unfold rect_incl; simpl.
      pose proof (HL2 _ (in_map (fun x => px x - px p0) _ _ Hp)).
      pose proof (HB2 _ (in_map (fun x => py x - py p0) _ _ Hp)).
      pose proof (HR2 _ (in_map (fun x => px x - px p0 + pnx x) _ _ Hp)).
      pose proof (HT2 _ (in_map (fun x => py x - py p0 + pny x) _ _ Hp)).
      simpl in *. lia.
    - intros v Hv. unfold rect_incl; simpl.
      apply in_map_iff in HL1, HB1, HR1, HT1.
      destruct HL1 as (q1 & E1 & I1), HB1 as (q2 & E2 & I2), HR1 as (q3 & E3 & I3), HT1 as (q4 & E4 & I4).
      pose proof (Hv _ I1) as (V1 & _). pose proof (Hv _ I2) as (_ & _ & V2 & _).
      pose proof (Hv _ I3) as (_ & V3 & _). pose proof (Hv _ I4) as (_ & _ & _ & V4).
      lia.
  Qed.
End OnGrid.
