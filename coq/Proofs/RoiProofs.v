(** Proofs about the slice helpers (property C17). *)
From Coq Require Import ZArith QArith Qround List Bool Lia ZifyBool.
From OG Require Import Base.Result Base.ListSel Model.Roi.
Import ListNotations.
Open Scope Z_scope.
Ltac Zify.zify_post_hook ::= Z.to_euclidean_division_equations.

Definition step_ok (st : option Z) : Prop := match st with None => True | Some k => 0 < k end.

(** * 1. A normalised slice selects the same elements as the original *)

Lemma py_clamp_wrap_start n a : 0 <= n ->
  py_clamp n (Some (wrap_neg n (fill a 0))) 0 = py_clamp n a 0.
Proof.
  intros Hn; destruct a as [v|]; unfold py_clamp, wrap_neg, fill.
  - destruct (v >=? 0) eqn:E1; destruct (v <? 0) eqn:E2; try lia.
    destruct (Z.max 0 (n + v) <? 0) eqn:E3; lia.
  - simpl. lia.
Qed.

Lemma py_clamp_wrap_stop n b : 0 <= n ->
  py_clamp n (Some (wrap_neg n (fill b n))) n = py_clamp n b n.
Proof.
  intros Hn; destruct b as [v|]; unfold py_clamp, wrap_neg, fill.
  - destruct (v >=? 0) eqn:E1; destruct (v <? 0) eqn:E2; try lia.
    destruct (Z.max 0 (n + v) <? 0) eqn:E3; lia.
  - destruct (n >=? 0) eqn:E1; destruct (n <? 0) eqn:E2; lia.
Qed.

Lemma norm_slice_same_selection {A} (X : list A) a b st :
  step_ok st ->
  np_get X (norm_slice (SSl a b st) (len X)) = np_get X (SSl a b st).
Proof.
  intros _. pose proof (len_nonneg X) as Hn.
  unfold norm_slice, np_get.
  rewrite py_clamp_wrap_start, py_clamp_wrap_stop by assumption. reflexivity.
Qed.

Lemma norm_int_same_selection {A} (X : list A) i l :
  np_get X (SInt i) = Some l ->
  np_get X (norm_slice (SInt i) (len X)) = Some l.
Proof.
  pose proof (len_nonneg X) as Hn.
  unfold np_get, norm_slice.
  destruct ((- len X <=? i) && (i <? len X)) eqn:E; [|discriminate].
  intros H; injection H as <-.
  simpl stride. f_equal.
  assert (Hj : 0 <= (if i <? 0 then len X + i else i) < len X) by (destruct (i <? 0) eqn:E2; lia).
  replace (if i <? 0 then i + len X else i) with (if i <? 0 then len X + i else i)
    by (destruct (i <? 0); lia).
  set (j := if i <? 0 then len X + i else i) in *.
  unfold py_clamp.
  destruct (j <? 0) eqn:E3; destruct (j + 1 <? 0) eqn:E4; try lia.
  replace (Z.min j (len X)) with j by lia.
  replace (Z.min (j + 1) (len X)) with (j + 1) by lia. reflexivity.
Qed.

(** normalisation is a no-op on in-range normalised slices and leaves the step alone *)
Lemma norm_slice_in_range a b st n :
  0 <= a -> 0 <= b -> norm_slice (SSl (Some a) (Some b) st) n = SSl (Some a) (Some b) st.
Proof.
  intros; unfold norm_slice, wrap_neg, fill.
  destruct (a >=? 0) eqn:E1; destruct (b >=? 0) eqn:E2; try lia. reflexivity.
Qed.

Lemma norm_slice_bounds s n : 0 <= n ->
  match s with SInt i => - n <= i | _ => True end ->
  exists a b st, norm_slice s n = SSl (Some a) (Some b) st /\ 0 <= a /\ 0 <= b.
Proof.
  intros Hn Hs; destruct s as [i|a b st]; unfold norm_slice.
  - eexists _, _, _; split; [reflexivity|]. destruct (i <? 0) eqn:E; lia.
  - eexists _, _, _; split; [reflexivity|]. unfold wrap_neg.
    destruct (fill a 0 >=? 0) eqn:E1; destruct (fill b n >=? 0) eqn:E2; lia.
Qed.

(** * 2. Three-way intersection *)

Lemma slice_intersect3_spec {A} (X : list A) a b a0 a1 sa b0 b1 sb :
  norm_slice_or_error a = Ok (a0, a1, sa) ->
  norm_slice_or_error b = Ok (b0, b1, sb) ->
  a0 <= a1 -> b0 <= b1 ->
  exists a' b' ab',
    slice_intersect3 a b = Ok (a', b', ab') /\
    0 <= fst a' <= snd a' /\ 0 <= fst b' <= snd b' /\ 0 <= fst ab' <= snd ab' /\
    sel (sel X a0 a1) (fst a') (snd a') = sel X (fst ab') (snd ab') /\
    sel (sel X b0 b1) (fst b') (snd b') = sel X (fst ab') (snd ab') /\
    (forall i, fst ab' <= i < snd ab' <-> (a0 <= i < a1 /\ b0 <= i < b1)).
Proof.
  intros Ha Hb Hle1 Hle2.
  assert (H0a : 0 <= a0 /\ 0 <= a1).
  { destruct a as [i|x y st]; simpl in Ha.
    - destruct ((i + 1 <? 0) || (i <? 0)) eqn:E; inversion Ha; subst; lia.
    - destruct y as [y|]; [|discriminate].
      destruct ((y <? 0) || (fill x 0 <? 0)) eqn:E; inversion Ha; subst; lia. }
  assert (H0b : 0 <= b0 /\ 0 <= b1).
  { destruct b as [i|x y st]; simpl in Hb.
    - destruct ((i + 1 <? 0) || (i <? 0)) eqn:E; inversion Hb; subst; lia.
    - destruct y as [y|]; [|discriminate].
      destruct ((y <? 0) || (fill x 0 <? 0)) eqn:E; inversion Hb; subst; lia. }
  unfold slice_intersect3. rewrite Ha, Hb. cbn [bind].
  destruct (a1 <? b0) eqn:E1; [|destruct (a0 >? b1) eqn:E2].
  - eexists _, _, _; split; [reflexivity|]. cbn [fst snd].
    repeat split; try lia;
      (transitivity (@nil A); [apply sel_empty; lia | symmetry; apply sel_empty; lia]).
  - eexists _, _, _; split; [reflexivity|]. cbn [fst snd].
    repeat split; try lia;
      (transitivity (@nil A); [apply sel_empty; lia | symmetry; apply sel_empty; lia]).
  - eexists _, _, _; split; [reflexivity|]. cbn [fst snd].
    repeat split; try lia; (rewrite sel_sel by lia; f_equal; lia).
Qed.

Lemma slice_intersect3_error a b e :
  slice_intersect3 a b = Err e <->
  (norm_slice_or_error a = Err e \/
   (exists v, norm_slice_or_error a = Ok v) /\ norm_slice_or_error b = Err e).
Proof.
  unfold slice_intersect3.
  destruct (norm_slice_or_error a) as [[[a0 a1] sa]|ea]; cbn [bind].
  - destruct (norm_slice_or_error b) as [[[b0 b1] sb]|eb]; cbn [bind].
    + destruct (a1 <? b0); [|destruct (a0 >? b1)]; split; intros H;
        try discriminate; destruct H as [H|[_ H]]; discriminate.
    + split; [intros H; right; split; [eauto|congruence] | intros [H|[_ H]]; [discriminate|congruence]].
  - split; [intros H; left; congruence | intros [H|[[v Hv] _]]; [congruence | discriminate]].
Qed.

Lemma norm_slice_or_error_spec s :
  match s with
  | SInt i => if i <? 0 then norm_slice_or_error s = Err EValue
              else norm_slice_or_error s = Ok (i, i + 1, None)
  | SSl a None st => norm_slice_or_error s = Err EValue
  | SSl a (Some b) st =>
      if (b <? 0) || (fill a 0 <? 0) then norm_slice_or_error s = Err EValue
      else norm_slice_or_error s = Ok (fill a 0, b, st)
  end.
Proof.
  destruct s as [i|a [b|] st]; simpl; auto.
  - destruct (i <? 0) eqn:E; destruct (i + 1 <? 0) eqn:E2; simpl; auto; lia.
  - destruct ((b <? 0) || (fill a 0 <? 0)); reflexivity.
Qed.

(** roi_intersect agrees with the third component of the three-way intersection *)
Lemma slice_intersect_is_ab a b :
  slice_intersect a b =
    match slice_intersect3 a b with Ok (_, _, ab) => Ok ab | Err e => Err e end.
Proof.
  unfold slice_intersect, slice_intersect3.
  destruct (norm_slice_or_error a) as [[[a0 a1] sa]|ea]; cbn [bind]; auto.
  destruct (norm_slice_or_error b) as [[[b0 b1] sb]|eb]; cbn [bind]; auto.
  destruct (a1 <? b0); [|destruct (a0 >? b1)]; reflexivity.
Qed.

(** * 3. shape / emptiness / fullness / centre *)

Lemma slice_dim_is_length {A} (X : list A) a b st :
  0 <= a <= b -> b <= len X ->
  slice_dim (SSl (Some a) (Some b) st) = Ok (len (sel X a b)).
Proof. intros; simpl; rewrite len_sel by lia; f_equal; lia. Qed.

Lemma slice_dim_open_start {A} (X : list A) b st :
  0 <= b <= len X -> slice_dim (SSl None (Some b) st) = Ok (len (sel X 0 b)).
Proof. intros; simpl; rewrite len_sel by lia; f_equal; lia. Qed.

Lemma slice_dim_int i : slice_dim (SInt i) = Ok 1.
Proof. reflexivity. Qed.

Lemma slice_dim_open_end a st : slice_dim (SSl a None st) = Err EValue.
Proof. reflexivity. Qed.

Lemma slice_empty_iff {A} (X : list A) a b :
  0 <= a -> 0 <= b <= len X ->
  ((b - a <=? 0) = true <-> sel X a b = []).
Proof.
  intros Ha Hb; split; intros H.
  - apply sel_empty; lia.
  - assert (L : len (sel X a b) = 0) by (rewrite H; reflexivity).
    rewrite len_sel in L by lia. lia.
Qed.

Definition mk (ab : Z * Z) : someslice := SSl (Some (fst ab)) (Some (snd ab)) None.

Lemma roi_shape_nd (ss : list (Z * Z)) :
  roi_shape (map mk ss) = Ok (map (fun ab => snd ab - fst ab) ss).
Proof.
  unfold roi_shape; induction ss as [|[a b] ss IH]; simpl; auto.
  simpl in IH; rewrite IH; reflexivity.
Qed.

Lemma roi_is_empty_nd (ss : list (Z * Z)) :
  roi_is_empty (map mk ss) = Ok (existsb (fun ab => snd ab - fst ab <=? 0) ss).
Proof.
  unfold roi_is_empty; rewrite roi_shape_nd; cbn [bind]; f_equal.
  induction ss as [|ab ss IH]; simpl; auto. rewrite IH; reflexivity.
Qed.

Lemma slice_full_sound {A} (X : list A) a b st :
  slice_full (SSl a b st) (len X) = true -> np_get X (SSl a b None) = Some X.
Proof.
  pose proof (len_nonneg X) as Hn.
  unfold slice_full, np_get, in_opt; intros H.
  apply andb_true_iff in H as [H1 H2]. simpl stride. f_equal.
  assert (E1 : py_clamp (len X) a 0 = 0).
  { destruct a as [v|]; simpl; auto. destruct (v <? 0) eqn:E; lia. }
  assert (E2 : py_clamp (len X) b (len X) = len X).
  { destruct b as [v|]; simpl; auto. destruct (v <? 0) eqn:E; lia. }
  rewrite E1, E2. apply sel_full; lia.
Qed.

Lemma slice_full_complete {A} (X : list A) a b st :
  0 <= a <= b -> b <= len X -> 0 < len X ->
  sel X a b = X -> slice_full (SSl (Some a) (Some b) st) (len X) = true.
Proof.
  intros Ha Hb Hn H.
  assert (L : len (sel X a b) = len X) by (rewrite H; reflexivity).
  rewrite len_sel in L by lia.
  unfold slice_full, in_opt. lia.
Qed.

Lemma slice_full_int n i : slice_full (SInt i) n = (n =? 1).
Proof. reflexivity. Qed.

Lemma slice_center2_spec s a0 a1 st :
  norm_slice_or_error s = Ok (a0, a1, st) -> slice_center2 s = Ok (a0 + a1).
Proof. intros H; unfold slice_center2; rewrite H; reflexivity. Qed.

(** * 4. padding *)

Lemma pad_slice_spec n pad a b st :
  0 <= a -> 0 <= b ->
  pad_slice pad (SSl (Some a) (Some b) st) n =
    SSl (Some (Z.max 0 (a - pad))) (Some (Z.min n (b + pad))) None.
Proof. intros; unfold pad_slice; rewrite norm_slice_in_range by lia; reflexivity. Qed.

Lemma pad_slice_grows n pad a b :
  0 <= a <= b -> b <= n -> 0 <= pad ->
  let a' := Z.max 0 (a - pad) in
  let b' := Z.min n (b + pad) in
  0 <= a' <= a /\ b <= b' <= n /\
  (a' = a - pad \/ a' = 0) /\ (b' = b + pad \/ b' = n) /\
  (forall i, a' <= i < b' <-> (0 <= i < n /\ a - pad <= i < b + pad)).
Proof. intros; cbn zeta; repeat split; lia. Qed.

(** * 5. scaling down then up *)

Lemma align_down_eq x a : 0 < a -> align_down x a = a * (x / a).
Proof. intros; unfold align_down; pose proof (Z.div_mod x a ltac:(lia)); lia. Qed.

Lemma align_down_spec x a : 0 < a ->
  align_down x a mod a = 0 /\ align_down x a <= x /\ x - align_down x a < a.
Proof.
  intros Ha; split.
  - rewrite align_down_eq by lia. rewrite Z.mul_comm. apply Z.mod_mul; lia.
  - unfold align_down. pose proof (Z.mod_pos_bound x a Ha). lia.
Qed.

Lemma align_up_spec x a : 0 < a ->
  align_up x a mod a = 0 /\ x <= align_up x a /\ align_up x a - x < a.
Proof.
  intros Ha; unfold align_up.
  destruct (align_down_spec (x + (a - 1)) a Ha) as (H1 & H2 & H3). lia.
Qed.

Lemma align_up_div_mul x k : 0 < k -> align_up x k / k * k = align_up x k.
Proof.
  intros Hk. destruct (align_up_spec x k Hk) as (Hm & _ & _).
  apply Z.div_exact in Hm; lia.
Qed.

Lemma scaled_down_up_contains a b k :
  0 <= a <= b -> 1 <= k ->
  let u := scaled_up_slice (scaled_down_slice (a, b) k) k None in
  fst u <= a /\ b <= snd u /\ a - fst u < k /\ snd u - b < k /\ fst u mod k = 0 /\ snd u mod k = 0.
Proof.
  intros Hab Hk; unfold scaled_up_slice, scaled_down_slice; cbn [fst snd].
  rewrite align_up_div_mul by lia.
  destruct (align_up_spec b k ltac:(lia)) as (Hm & Hle & Hlt).
  generalize dependent (align_up b k); intros u Hm Hle Hlt.
  pose proof (Z.mod_mul (a / k) k ltac:(lia)).
  repeat split; try lia.
Qed.

Lemma scaled_up_clamped a b k d :
  0 <= a <= b -> 1 <= k -> 0 <= d ->
  let u := scaled_up_slice (a, b) k (Some d) in
  0 <= fst u <= snd u /\ snd u <= d /\ fst u = Z.min d (a * k) /\ snd u = Z.min d (b * k).
Proof.
  intros Hab Hk Hd; unfold scaled_up_slice; cbn [fst snd].
  assert (a * k <= b * k) by nia. assert (0 <= a * k) by nia.
  repeat split; lia.
Qed.

Lemma scaled_down_dim_spec n k : 0 <= n -> 1 <= k ->
  let m := scaled_down_dim n k in n <= m * k /\ m * k - n < k.
Proof.
  intros Hn Hk; unfold scaled_down_dim; cbn zeta.
  rewrite align_up_div_mul by lia.
  destruct (align_up_spec n k ltac:(lia)) as (Hm & Hle & Hlt). lia.
Qed.
