(** Offsets computed by _extract_tile_info / _patch_hdr from the observed
    (size, tile) stream: exact closed form, disjointness, gap-freeness, order,
    overview-first, and the composition with the C06 byte-stream theorem. *)
From Coq Require Import ZArith List Bool Lia Permutation.
From OG Require Import Base.Result Base.ListSel Model.Roi Model.CogLayout Proofs.CogLayoutProofs Proofs.CogTilesProofs.
Import ListNotations.
Open Scope Z_scope.

Definition zsum (l : list Z) : Z := fold_right Z.add 0 l.
Definition presum (sizes : list Z) (n : nat) : Z := zsum (firstn n sizes).

Definition tile_of (o : obs) : Z * Z * Z * Z := fst o.
Definition size_of (o : obs) : Z := snd o.

(** * 1. list update *)

Lemma length_upd {A} (l : list A) : forall i v, length (upd l i v) = length l.
Proof. induction l as [|a l IH]; intros [|i] v; simpl; auto. Qed.

Lemma nth_upd {A} (l : list A) : forall i j v d,
  nth j (upd l i v) d = if (Nat.eqb j i && Nat.ltb i (length l))%bool then v else nth j l d.
Proof.
  induction l as [|a l IH]; intros i j v d.
  - simpl. rewrite andb_false_r. reflexivity.
  - destruct i as [|i], j as [|j]; simpl; auto.
    rewrite IH. reflexivity.
Qed.

Lemma nth_error_upd_same {A} (l : list A) : forall i v, (i < length l)%nat -> nth_error (upd l i v) i = Some v.
Proof.
  induction l as [|a l IH]; intros [|i] v H; simpl in *; try lia; auto. apply IH. lia.
Qed.

Lemma nth_error_upd_other {A} (l : list A) : forall i j v, i <> j -> nth_error (upd l i v) j = nth_error l j.
Proof.
  induction l as [|a l IH]; intros [|i] [|j] v H; simpl; auto; try congruence.
Qed.

(** * 2. one step of the loop *)

Definition key := (nat * nat)%type.
Definition getE (info : tile_info) (k : key) : Z * Z := entry_at info (fst k) (snd k).

Definition wf_info (mm : list meta) (info : tile_info) : Prop :=
  Forall2 (fun m ol => length (fst ol) = Z.to_nat (num_tiles m) /\
                       length (snd ol) = Z.to_nat (num_tiles m)) mm info.

Definition key_fn (mm : list meta) (t : Z * Z * Z * Z) : key :=
  let '(i, p, y, x) := t in
  (Z.to_nat i,
   match nth_error mm (Z.to_nat i) with
   | Some m => match flat_tile_idx m (p, y, x) with Ok t => Z.to_nat t | Err _ => O end
   | None => O
   end).

Lemma Forall2_nth_error {A B} (R : A -> B -> Prop) l1 l2 n a :
  Forall2 R l1 l2 -> nth_error l1 n = Some a -> exists b, nth_error l2 n = Some b /\ R a b.
Proof.
  intros H; revert n; induction H; intros [|n] E; simpl in *; try discriminate.
  - inversion E; subst; eauto.
  - eauto.
Qed.

Lemma Forall2_len {A B} (R : A -> B -> Prop) l1 l2 : Forall2 R l1 l2 -> length l1 = length l2.
Proof. induction 1; simpl; auto. Qed.

Lemma Forall2_upd {A B} (R : A -> B -> Prop) l1 l2 n a b :
  Forall2 R l1 l2 -> nth_error l1 n = Some a -> R a b -> Forall2 R l1 (upd l2 n b).
Proof.
  intros H; revert n; induction H; intros [|n] E Rb; simpl in *; try discriminate.
  - inversion E; subst. constructor; auto.
  - constructor; auto.
Qed.

Lemma py_index_in_range {A} (l : list A) i a :
  0 <= i -> nth_error l (Z.to_nat i) = Some a -> py_index l i = Ok (Z.to_nat i, a).
Proof.
  intros Hi Hn. unfold py_index, py_norm_index.
  assert (Hlt : (Z.to_nat i < length l)%nat) by (apply nth_error_Some; congruence).
  destruct (i <? 0) eqn:E; [apply Z.ltb_lt in E; lia|].
  unfold len. destruct ((0 <=? i) && (i <? Z.of_nat (length l))) eqn:E2.
  - cbn [bind]. rewrite Hn. reflexivity.
  - apply andb_false_iff in E2 as [E2 | E2]; [apply Z.leb_gt in E2 | apply Z.ltb_ge in E2]; lia.
Qed.

Lemma getE_upd info j ol k :
  (j < length info)%nat ->
  getE (upd info j ol) k =
    if Nat.eqb (fst k) j then (nth (snd k) (fst ol) 0, nth (snd k) (snd ol) 0) else getE info k.
Proof.
  intros Hj. unfold getE, entry_at. rewrite nth_upd.
  destruct (Nat.eqb (fst k) j) eqn:E; simpl.
  - apply Nat.ltb_lt in Hj. rewrite Hj. reflexivity.
  - reflexivity.
Qed.

Lemma extract_step_spec mm info off i p y x sz m t :
  wf_info mm info -> 0 <= i -> nth_error mm (Z.to_nat i) = Some m ->
  flat_tile_idx m (p, y, x) = Ok t ->
  exists info',
    extract_step mm (info, off) (i, p, y, x, sz) = Ok (info', if sz =? 0 then off else off + sz) /\
    wf_info mm info' /\
    forall k, getE info' k =
      if (negb (sz =? 0) && (Nat.eqb (fst k) (Z.to_nat i) && Nat.eqb (snd k) (Z.to_nat t)))%bool
      then (off, sz) else getE info k.
Proof.
  intros Hwf Hi Hm Ht.
  destruct (Forall2_nth_error _ _ _ _ _ Hwf Hm) as ([offs lens] & Hol & L1 & L2). cbn [fst snd] in L1, L2.
  unfold extract_step. rewrite (py_index_in_range mm i m Hi Hm). cbn [bind].
  rewrite (py_index_in_range info i (offs, lens) Hi Hol). cbn [bind]. rewrite Ht. cbn [bind].
  destruct (sz =? 0) eqn:Esz.
  - exists info. split; [reflexivity|]. split; [exact Hwf|]. intros k. reflexivity.
  - eexists. split; [reflexivity|]. split.
    + eapply Forall2_upd; eauto. cbn [fst snd]. rewrite !length_upd. auto.
    + intros k. cbn [negb andb].
      assert (Hj : (Z.to_nat i < length info)%nat) by (apply nth_error_Some; congruence).
      rewrite getE_upd by exact Hj. cbn [fst snd].
      destruct (Nat.eqb (fst k) (Z.to_nat i)) eqn:E1; cbn [andb]; [|reflexivity].
      rewrite !nth_upd. rewrite L1, L2.
      apply flat_tile_idx_inv in Ht as (_ & Hb & _).
      assert (Hlt : (Z.to_nat t <? Z.to_nat (num_tiles m))%nat = true) by (apply Nat.ltb_lt; lia).
      rewrite Hlt, !andb_true_r.
      destruct (Nat.eqb (snd k) (Z.to_nat t)) eqn:E2; [reflexivity|].
      unfold getE, entry_at. apply Nat.eqb_eq in E1. rewrite E1.
      rewrite (nth_error_nth info _ ([], []) Hol). reflexivity.
Qed.

(** * 3. the whole loop *)

Lemma presum_0 sizes : presum sizes 0 = 0.
Proof. reflexivity. Qed.

Lemma presum_cons s sizes n : presum (s :: sizes) (S n) = s + presum sizes n.
Proof. reflexivity. Qed.

Lemma valid_tile_flat mm i p y x :
  valid_tile mm (i, p, y, x) ->
  0 <= i /\ exists m t, nth_error mm (Z.to_nat i) = Some m /\ flat_tile_idx m (p, y, x) = Ok t /\
                        0 <= t < num_tiles m /\ key_fn mm (i, p, y, x) = (Z.to_nat i, Z.to_nat t).
Proof.
  intros (Hi & m & Hm & Hr). split; [exact Hi|].
  destruct (flat_tile_idx_ok m _ Hr) as (t & Et & Bt & _).
  exists m, t. repeat split; auto; try lia. unfold key_fn. rewrite Hm, Et. reflexivity.
Qed.

Lemma extract_loop_spec mm : forall (tiles : list obs) info off,
  wf_info mm info ->
  Forall (fun o => valid_tile mm (tile_of o)) tiles ->
  NoDup (map (fun o => key_fn mm (tile_of o)) tiles) ->
  exists info',
    extract_loop mm (info, off) tiles = Ok (info', off + zsum (map size_of tiles)) /\
    wf_info mm info' /\
    (forall k, ~ In k (map (fun o => key_fn mm (tile_of o)) tiles) -> getE info' k = getE info k) /\
    (forall n o, nth_error tiles n = Some o ->
       getE info' (key_fn mm (tile_of o)) =
         if size_of o =? 0 then getE info (key_fn mm (tile_of o))
         else (off + presum (map size_of tiles) n, size_of o)).
Proof.
  induction tiles as [|o r IH]; intros info off Hwf Hval Hnd.
  - exists info. simpl. rewrite Z.add_0_r. repeat split; auto. intros [|n] o E; discriminate.
  - inversion Hval as [|? ? Ho Hr]; subst. simpl in Hnd. inversion Hnd as [|? ? Hnotin Hnd']; subst.
    destruct o as [[[[i p] y] x] sz]. unfold tile_of, size_of in *. cbn [fst snd] in *.
    destruct (valid_tile_flat mm i p y x Ho) as (Hi & m & t & Hm & Ht & Bt & Ek).
    destruct (extract_step_spec mm info off i p y x sz m t Hwf Hi Hm Ht) as (info1 & E1 & Hwf1 & G1).
    destruct (IH info1 (if sz =? 0 then off else off + sz) Hwf1 Hr Hnd') as (info' & E' & Hwf' & Gout & Gin).
    exists info'. split.
    { cbn [extract_loop]. rewrite E1. cbn [bind]. rewrite E'. f_equal. f_equal.
      unfold zsum. cbn [map fold_right snd].
      destruct (sz =? 0) eqn:Esz; [apply Z.eqb_eq in Esz|]; lia. }
    split; [exact Hwf'|].
    assert (Gk1 : forall k, k <> key_fn mm (i, p, y, x) -> getE info1 k = getE info k).
    { intros k Hne. rewrite G1. rewrite Ek in Hne.
      destruct (Nat.eqb (fst k) (Z.to_nat i)) eqn:A, (Nat.eqb (snd k) (Z.to_nat t)) eqn:B;
        rewrite ?andb_false_r; auto.
      apply Nat.eqb_eq in A, B. exfalso. apply Hne. destruct k; simpl in *; congruence. }
    split.
    { intros k Hk. cbn [map] in Hk. rewrite Gout by (intros X; apply Hk; right; exact X).
      apply Gk1. intros ->. apply Hk. left. reflexivity. }
    intros [|n] o Eo.
    + cbn [nth_error] in Eo. inversion Eo; subst o. cbn [fst snd]. rewrite presum_0, Z.add_0_r.
      rewrite Gout by exact Hnotin. rewrite G1. rewrite Ek. cbn [fst snd]. rewrite !Nat.eqb_refl.
      destruct (sz =? 0); reflexivity.
    + cbn [nth_error] in Eo. rewrite (Gin n o Eo).
      assert (Hin : In (key_fn mm (fst o)) (map (fun o0 => key_fn mm (fst o0)) r)).
      { apply in_map_iff. exists o. split; [reflexivity | eapply nth_error_In; eauto]. }
      assert (Hne : key_fn mm (fst o) <> key_fn mm (i, p, y, x)) by (intros X; rewrite X in Hin; contradiction).
      rewrite (Gk1 _ Hne). cbn [map]. rewrite presum_cons. cbn [snd].
      destruct (snd o =? 0); [reflexivity|]. f_equal.
      destruct (sz =? 0) eqn:Esz; [apply Z.eqb_eq in Esz|]; lia.
Qed.

(** initial table: all zeros *)
Lemma nth_zeros n j : nth j (zeros n) 0 = 0.
Proof. unfold zeros. destruct (Nat.lt_ge_cases j (Z.to_nat n)); [apply nth_repeat | apply nth_overflow; rewrite repeat_length; lia]. Qed.

Lemma getE_info0 mm k :
  getE (map (fun m => (zeros (num_tiles m), zeros (num_tiles m))) mm) k = (0, 0).
Proof.
  unfold getE, entry_at.
  destruct (Nat.lt_ge_cases (fst k) (length mm)) as [Hlt | Hge].
  - destruct (nth_error mm (fst k)) as [m|] eqn:E; [|apply nth_error_None in E; lia].
    rewrite (nth_error_nth _ _ ([], []) (map_nth_error _ _ _ E)).
    cbn [fst snd]. rewrite !nth_zeros. reflexivity.
  - rewrite (nth_overflow _ ([], [])); [|rewrite map_length; exact Hge].
    cbn [fst snd]. destruct (snd k); reflexivity.
Qed.

Lemma wf_info0 mm : wf_info mm (map (fun m => (zeros (num_tiles m), zeros (num_tiles m))) mm).
Proof.
  unfold wf_info. induction mm as [|m mm IH]; simpl; constructor; auto.
  cbn [fst snd]. unfold zeros. rewrite repeat_length. auto.
Qed.

Lemma NoDup_map_in {A B} (f : A -> B) (l : list A) :
  (forall a b, In a l -> In b l -> f a = f b -> a = b) -> NoDup l -> NoDup (map f l).
Proof.
  induction l as [|a l IH]; intros Hinj Hnd; simpl; [constructor|].
  inversion Hnd; subst. constructor.
  - intros Hin. apply in_map_iff in Hin as (b & E & Hb).
    assert (b = a) by (apply Hinj; [right; auto | left; auto | auto]). subst. contradiction.
  - apply IH; auto. intros; apply Hinj; try right; auto.
Qed.

Lemma key_fn_inj mm a b :
  valid_tile mm a -> valid_tile mm b -> key_fn mm a = key_fn mm b -> a = b.
Proof.
  destruct a as [[[i p] y] x], b as [[[i' p'] y'] x']. intros Ha Hb E.
  destruct (valid_tile_flat _ _ _ _ _ Ha) as (Hi & m & t & Hm & Ht & Bt & Ek).
  destruct (valid_tile_flat _ _ _ _ _ Hb) as (Hi' & m' & t' & Hm' & Ht' & Bt' & Ek').
  rewrite Ek, Ek' in E. inversion E as [[E1 E2]].
  assert (i = i') by lia. subst i'. rewrite Hm in Hm'. inversion Hm'; subst m'.
  assert (t = t') by lia. subst t'.
  pose proof (flat_tile_idx_inj m _ _ _ Ht Ht') as X. inversion X; subst. reflexivity.
Qed.

(** the stream enumerates every tile of [mm] exactly once, in any order *)
Definition complete_stream (mm : list meta) (stream : list obs) : Prop :=
  Permutation (map tile_of stream) (cog_tidx mm).

Lemma complete_stream_valid mm stream :
  complete_stream mm stream ->
  Forall (fun o => valid_tile mm (tile_of o)) stream /\
  NoDup (map (fun o => key_fn mm (tile_of o)) stream).
Proof.
  intros Hp. unfold complete_stream in Hp.
  assert (V : forall o, In o stream -> valid_tile mm (tile_of o)).
  { intros o Ho. apply in_cog_tidx. eapply Permutation_in; [exact Hp|]. apply in_map. exact Ho. }
  split; [apply Forall_forall; exact V|].
  assert (Hnd : NoDup (map tile_of stream)).
  { eapply Permutation_NoDup; [apply Permutation_sym; exact Hp | apply NoDup_cog_tidx]. }
  rewrite <- (map_map tile_of (key_fn mm)).
  apply NoDup_map_in; [|exact Hnd].
  intros a b Ha Hb. apply key_fn_inj.
  - apply in_map_iff in Ha as (o & <- & Ho). apply V; auto.
  - apply in_map_iff in Hb as (o & <- & Ho). apply V; auto.
Qed.

(** main statement about _extract_tile_info *)
Lemma extract_tile_info_spec mm stream start :
  complete_stream mm stream ->
  exists info,
    extract_tile_info mm stream start = Ok info /\ wf_info mm info /\
    forall n o, nth_error stream n = Some o ->
      getE info (key_fn mm (tile_of o)) =
        if size_of o =? 0 then (0, 0) else (start + presum (map size_of stream) n, size_of o).
Proof.
  intros Hc. destruct (complete_stream_valid mm stream Hc) as (Hv & Hnd).
  destruct (extract_loop_spec mm stream _ start (wf_info0 mm) Hv Hnd) as (info & E & Hwf & _ & G).
  exists info. split; [unfold extract_tile_info; cbn zeta; unfold tile_info in *; rewrite E; reflexivity|].
  split; [exact Hwf|].
  intros n o Eo. rewrite (G n o Eo). rewrite getE_info0. reflexivity.
Qed.

(** every tile of the image has an entry described by the previous lemma *)
Lemma complete_stream_covers mm stream t :
  complete_stream mm stream -> valid_tile mm t ->
  exists n o, nth_error stream n = Some o /\ tile_of o = t.
Proof.
  intros Hc Hv. apply in_cog_tidx in Hv.
  apply (Permutation_in _ (Permutation_sym Hc)) in Hv. apply in_map_iff in Hv as (o & E & Ho).
  apply In_nth_error in Ho as (n & Hn). eauto.
Qed.

(** * 4. consequences of the closed form: order, disjointness, no gaps *)

Lemma zsum_nonneg l : Forall (fun s => 0 <= s) l -> 0 <= zsum l.
Proof. induction 1; simpl; lia. Qed.

Lemma zsum_app a b : zsum (a ++ b) = zsum a + zsum b.
Proof. induction a; simpl; lia. Qed.

Lemma presum_step sizes n s : nth_error sizes n = Some s -> presum sizes (S n) = presum sizes n + s.
Proof.
  revert n; induction sizes as [|a l IH]; intros [|n] E; simpl in E; try discriminate.
  - inversion E; subst. unfold presum. simpl. lia.
  - rewrite !presum_cons. rewrite (IH n E). lia.
Qed.


Lemma presum_nil n : presum [] n = 0.
Proof. unfold presum. destruct n; reflexivity. Qed.

Lemma presum_nonneg sizes n : Forall (fun s => 0 <= s) sizes -> 0 <= presum sizes n.
Proof.
  intros H; revert n; induction H as [|a l Ha Hl IH]; intros n.
  - rewrite presum_nil. lia.
  - destruct n; [rewrite presum_0; lia | rewrite presum_cons; specialize (IH n); lia].
Qed.

Lemma presum_mono sizes : forall n1 n2,
  Forall (fun s => 0 <= s) sizes -> (n1 <= n2)%nat -> presum sizes n1 <= presum sizes n2.
Proof.
  induction sizes as [|a l IH]; intros n1 n2 Hs Hle.
  - rewrite !presum_nil. lia.
  - inversion Hs; subst. destruct n1 as [|n1].
    + rewrite presum_0. apply presum_nonneg. exact Hs.
    + destruct n2 as [|n2]; [lia|]. rewrite !presum_cons.
      specialize (IH n1 n2 ltac:(assumption) ltac:(lia)). lia.
Qed.

Lemma presum_all sizes n : (length sizes <= n)%nat -> presum sizes n = zsum sizes.
Proof. intros H. unfold presum. rewrite firstn_all2 by exact H. reflexivity. Qed.

(** offsets follow the stream order and the byte ranges are disjoint *)
Lemma offsets_ordered sizes start n1 n2 s1 :
  Forall (fun s => 0 <= s) sizes -> (n1 < n2)%nat -> nth_error sizes n1 = Some s1 ->
  start + presum sizes n1 + s1 <= start + presum sizes n2.
Proof.
  intros Hs Hlt E1. rewrite <- Z.add_assoc. rewrite <- (presum_step _ _ _ E1).
  pose proof (presum_mono sizes (S n1) n2 Hs ltac:(lia)). lia.
Qed.

Lemma offsets_within sizes start n s :
  Forall (fun s => 0 <= s) sizes -> nth_error sizes n = Some s ->
  start <= start + presum sizes n /\ start + presum sizes n + s <= start + zsum sizes.
Proof.
  intros Hs E. split; [pose proof (presum_nonneg sizes n Hs); lia|].
  rewrite <- Z.add_assoc, <- (presum_step _ _ _ E).
  rewrite <- (presum_all sizes (Nat.max (S n) (length sizes))) by lia.
  pose proof (presum_mono sizes (S n) (Nat.max (S n) (length sizes)) Hs ltac:(lia)). lia.
Qed.

(** no gaps: every byte position of the data area lies in exactly one tile's range *)
Lemma offsets_gap_free sizes : forall start b,
  Forall (fun s => 0 <= s) sizes -> start <= b < start + zsum sizes ->
  exists n s, nth_error sizes n = Some s /\ start + presum sizes n <= b < start + presum sizes n + s.
Proof.
  induction sizes as [|a l IH]; intros start b Hs Hb.
  - simpl in Hb. lia.
  - inversion Hs; subst. simpl in Hb.
    destruct (Z_lt_le_dec b (start + a)) as [Hlt | Hge].
    + exists O, a. split; [reflexivity|]. rewrite presum_0. lia.
    + destruct (IH (start + a) b ltac:(assumption) ltac:(unfold zsum in *; lia)) as (n & s & E & B).
      exists (S n), s. split; [exact E|]. rewrite presum_cons. lia.
Qed.

Lemma offsets_unique sizes start b n1 n2 s1 s2 :
  Forall (fun s => 0 <= s) sizes ->
  nth_error sizes n1 = Some s1 -> nth_error sizes n2 = Some s2 ->
  start + presum sizes n1 <= b < start + presum sizes n1 + s1 ->
  start + presum sizes n2 <= b < start + presum sizes n2 + s2 ->
  n1 = n2.
Proof.
  intros Hs E1 E2 B1 B2.
  destruct (Nat.lt_trichotomy n1 n2) as [H | [H | H]]; auto.
  - pose proof (offsets_ordered sizes start n1 n2 s1 Hs H E1). lia.
  - pose proof (offsets_ordered sizes start n2 n1 s2 Hs H E2). lia.
Qed.

(** * 5. overview-first *)

Lemma nth_error_app_split {A} (l1 l2 : list A) n a :
  nth_error (l1 ++ l2) n = Some a ->
  (n < length l1)%nat /\ nth_error l1 n = Some a \/
  (length l1 <= n)%nat /\ nth_error l2 (n - length l1) = Some a.
Proof.
  intros H. destruct (Nat.lt_ge_cases n (length l1)) as [Hlt | Hge].
  - left. rewrite nth_error_app1 in H by exact Hlt. auto.
  - right. rewrite nth_error_app2 in H by exact Hge. auto.
Qed.

(** in any stream whose tile sequence is [ovr ++ full], every tile of [ovr]
    ends before every tile of [full] starts *)
Lemma overview_first_offsets (stream : list obs) ovr full start n1 n2 o1 o2 :
  map tile_of stream = ovr ++ full ->
  Forall (fun o => 0 <= size_of o) stream ->
  nth_error stream n1 = Some o1 -> nth_error stream n2 = Some o2 ->
  In (tile_of o1) ovr -> ~ In (tile_of o1) full ->
  In (tile_of o2) full -> ~ In (tile_of o2) ovr ->
  start + presum (map size_of stream) n1 + size_of o1 <= start + presum (map size_of stream) n2.
Proof.
  intros Hsplit Hs E1 E2 I1 N1 I2 N2.
  assert (Hs' : Forall (fun s => 0 <= s) (map size_of stream)).
  { apply Forall_forall. intros s Hin. apply in_map_iff in Hin as (o & <- & Ho).
    rewrite Forall_forall in Hs. apply Hs. exact Ho. }
  assert (T1 : nth_error (ovr ++ full) n1 = Some (tile_of o1)) by (rewrite <- Hsplit; apply map_nth_error; exact E1).
  assert (T2 : nth_error (ovr ++ full) n2 = Some (tile_of o2)) by (rewrite <- Hsplit; apply map_nth_error; exact E2).
  apply nth_error_app_split in T1 as [(L1 & _) | (_ & X)]; [|apply nth_error_In in X; contradiction].
  apply nth_error_app_split in T2 as [(_ & X) | (L2 & _)]; [apply nth_error_In in X; contradiction|].
  apply offsets_ordered; auto; [lia|]. apply map_nth_error. exact E1.
Qed.

(** * 6. composition with the byte stream (C06) *)

Lemma sel_middle {A} (a b c : list A) :
  sel (a ++ b ++ c) (len a) (len a + len b) = b.
Proof.
  unfold sel, take, drop, len.
  replace (Z.to_nat (Z.of_nat (length a) + Z.of_nat (length b))) with (length a + length b)%nat by lia.
  rewrite Nat2Z.id.
  rewrite firstn_app_2. rewrite firstn_app. rewrite Nat.sub_diag. simpl. rewrite firstn_all, app_nil_r.
  rewrite skipn_app. rewrite skipn_all, Nat.sub_diag. reflexivity.
Qed.

Lemma len_concat_firstn {A} (f : obs -> list A) (stream : list obs) :
  (forall o, In o stream -> size_of o = len (f o)) ->
  forall n, len (concat (map f (firstn n stream))) = presum (map size_of stream) n.
Proof.
  induction stream as [|o r IH]; intros Hsz n.
  - rewrite firstn_nil. simpl. rewrite presum_nil. reflexivity.
  - destruct n as [|n]; [reflexivity|].
    cbn [firstn map concat]. rewrite len_app. rewrite presum_cons.
    rewrite IH by (intros; apply Hsz; right; auto). rewrite (Hsz o) by (left; auto). reflexivity.
Qed.

Lemma firstn_nth_skipn {A} (l : list A) : forall n a,
  nth_error l n = Some a -> l = firstn n l ++ a :: skipn (S n) l.
Proof.
  induction l as [|b r IH]; intros [|n] a E; simpl in E; try discriminate.
  - inversion E; subst. reflexivity.
  - cbn [firstn skipn app]. f_equal. apply IH. exact E.
Qed.

Lemma tile_bytes_in_file {A} (f : obs -> list A) (hdr : list A) (stream : list obs) n o :
  (forall o, In o stream -> size_of o = len (f o)) ->
  nth_error stream n = Some o ->
  let off := len hdr + presum (map size_of stream) n in
  sel (hdr ++ concat (map f stream)) off (off + size_of o) = f o.
Proof.
  intros Hsz En off.
  pose proof (firstn_nth_skipn stream n o En) as Hsplit.
  assert (Ho : In o stream) by (eapply nth_error_In; eauto).
  unfold off. rewrite <- (len_concat_firstn f stream Hsz n). rewrite (Hsz o Ho).
  assert (Ec : concat (map f stream) =
               concat (map f (firstn n stream)) ++ f o ++ concat (map f (skipn (S n) stream))).
  { rewrite Hsplit at 1. rewrite map_app, concat_app. reflexivity. }
  rewrite Ec. generalize (concat (map f (firstn n stream))) as P.
  generalize (concat (map f (skipn (S n) stream))) as S. intros S P.
  rewrite <- len_app. rewrite (app_assoc hdr P). apply sel_middle.
Qed.

(** * 7. _patch_hdr: tags 324 / 325 *)

Lemma getE_patch mm info h t :
  wf_info mm info -> valid_tile mm t ->
  getE (patch_entries h info) (key_fn mm t) =
    (fst (getE info (key_fn mm t)) + h, snd (getE info (key_fn mm t))).
Proof.
  intros Hwf Hv. destruct t as [[[i p] y] x].
  destruct (valid_tile_flat _ _ _ _ _ Hv) as (Hi & m & t & Hm & Ht & Bt & Ek).
  rewrite Ek. unfold getE, entry_at, patch_entries. cbn [fst snd].
  destruct (Forall2_nth_error _ _ _ _ _ Hwf Hm) as ([offs lens] & Hol & L1 & L2). cbn [fst snd] in L1, L2.
  rewrite (nth_error_nth _ _ ([], []) (map_nth_error _ _ _ Hol)).
  rewrite (nth_error_nth _ _ ([], []) Hol). cbn [fst snd]. f_equal.
  assert (Hlt : (Z.to_nat t < length offs)%nat) by lia.
  destruct (nth_error offs (Z.to_nat t)) as [v|] eqn:E; [|apply nth_error_None in E; lia].
  rewrite (nth_error_nth _ _ 0 (map_nth_error _ _ _ E)). rewrite (nth_error_nth _ _ 0 E). reflexivity.
Qed.

Lemma patch_hdr_tags_spec mm stream hdr_sz :
  complete_stream mm stream ->
  exists tags,
    patch_hdr_tags mm stream hdr_sz = Ok tags /\ length tags = length mm /\
    forall n o, nth_error stream n = Some o ->
      getE tags (key_fn mm (tile_of o)) =
        if size_of o =? 0 then (hdr_sz, 0)
        else (hdr_sz + presum (map size_of stream) n, size_of o).
Proof.
  intros Hc. destruct (extract_tile_info_spec mm stream 0 Hc) as (info & E & Hwf & G).
  exists (patch_entries hdr_sz info). unfold patch_hdr_tags. rewrite E. cbn [bind].
  pose proof (Forall2_len _ _ _ Hwf) as L. rewrite <- L. rewrite Nat.eqb_refl.
  split; [reflexivity|]. split; [unfold patch_entries; rewrite map_length; auto|].
  intros n o Eo.
  assert (Hv : valid_tile mm (tile_of o)).
  { destruct (complete_stream_valid mm stream Hc) as (Hv & _). rewrite Forall_forall in Hv.
    apply Hv. eapply nth_error_In; eauto. }
  rewrite (getE_patch mm info hdr_sz _ Hwf Hv). rewrite (G n o Eo).
  destruct (size_of o =? 0); cbn [fst snd]; f_equal; lia.
Qed.

(** * 8. the metas produced by _make_empty_cog are well formed *)

Lemma uniform_planes_map ax ns (lv : list level) :
  uniform_planes (map (fun l => Meta ax (l_shape l) (l_tile l) ns) lv).
Proof.
  intros m0 m H0 Hin. apply in_map_iff in Hin as (l & <- & _).
  destruct lv as [|l0 lv]; [discriminate|]. simpl in H0. inversion H0; subst. reflexivity.
Qed.

Lemma make_levels_wf bs H W lv n :
  bs <> [] -> Forall blk_pos bs -> 1 <= H -> 1 <= W ->
  make_levels bs (H, W) = Ok (lv, n) ->
  Forall (fun l => 1 <= fst (l_shape l) /\ 1 <= snd (l_shape l) /\ tile_ok (l_tile l)) lv.
Proof.
  intros Hne Hall HH HW E.
  destruct (make_levels_spec bs H W Hne Hall HH HW) as (lv' & n' & nh & nw & E' & _ & _ & _ & Hn & Hlen & _ & _ & Hk).
  rewrite E in E'. inversion E'; subst lv' n'. apply Forall_forall. intros l Hin.
  apply In_nth_error in Hin as (j & Hj).
  assert (Hlt : (j < length lv)%nat) by (apply nth_error_Some; congruence).
  destruct (Hk (Z.of_nat j) ltac:(lia)) as (l' & Hl' & _ & Tok & _ & _ & _ & S1 & S2).
  rewrite Nat2Z.id in Hl'. rewrite Hj in Hl'. inversion Hl'; subst. auto.
Qed.

Lemma make_levels_halving bs H W lv n k a b :
  bs <> [] -> Forall blk_pos bs -> 1 <= H -> 1 <= W ->
  make_levels bs (H, W) = Ok (lv, n) -> 0 <= k < n ->
  nth_error lv (Z.to_nat k) = Some a -> nth_error lv (Z.to_nat (k + 1)) = Some b ->
  fst (l_shape b) * 2 = fst (l_shape a) /\ snd (l_shape b) * 2 = snd (l_shape a).
Proof.
  intros Hne Hall HH HW E Hk Ea Eb.
  destruct (make_levels_spec bs H W Hne Hall HH HW) as (lv' & n' & nh & nw & E' & _ & _ & _ & Hn & Hlen & PH & PW & Hlv).
  rewrite E in E'. inversion E'; subst lv' n'. cbn zeta in *.
  destruct (Hlv k ltac:(lia)) as (a' & Ea' & _ & _ & Sa & _).
  destruct (Hlv (k + 1) ltac:(lia)) as (b' & Eb' & _ & _ & Sb & _).
  rewrite Ea in Ea'. rewrite Eb in Eb'. inversion Ea'; inversion Eb'; subst a' b'.
  rewrite Sa, Sb. cbn [fst snd]. destruct PH as (_ & _ & PH). destruct PW as (_ & _ & PW).
  split; apply halving_exact with (n := n); auto.
Qed.

Definition metas_of (ax : axis) (ns : Z) (lv : list level) : list meta :=
  map (fun l => Meta ax (l_shape l) (l_tile l) ns) lv.

Lemma metas_of_wf ax ns lv :
  1 <= ns ->
  Forall (fun l => 1 <= fst (l_shape l) /\ 1 <= snd (l_shape l) /\ tile_ok (l_tile l)) lv ->
  Forall wf_meta (metas_of ax ns lv).
Proof.
  intros Hns H. unfold metas_of. apply Forall_forall. intros m Hin.
  apply in_map_iff in Hin as (l & <- & Hl). rewrite Forall_forall in H.
  destruct (H l Hl) as (A & B & (C & _ & D & _)). unfold wf_meta. cbn. auto.
Qed.

(** _make_empty_cog on the three accepted array layouts *)
Lemma make_metas_spec shape gshape ya bs ax yaxis :
  yaxis_from_shape shape gshape ya = Ok (ax, yaxis) ->
  bs <> [] -> Forall blk_pos bs -> Forall (fun d => 1 <= d) shape ->
  exists H W ns lv n,
    (match ax with
     | YX => shape = [H; W] /\ ns = 1
     | YXS => shape = [H; W; ns]
     | SYX => shape = [ns; H; W]
     end) /\
    make_levels bs (H, W) = Ok (lv, n) /\
    make_metas shape gshape ya bs = Ok (metas_of ax ns lv) /\
    Forall wf_meta (metas_of ax ns lv) /\ uniform_planes (metas_of ax ns lv).
Proof.
  intros Hy Hne Hall Hpos.
  assert (Gen : forall H W ns, 1 <= H -> 1 <= W -> 1 <= ns ->
          exists lv n, make_levels bs (H, W) = Ok (lv, n) /\
             Forall wf_meta (metas_of ax ns lv) /\ uniform_planes (metas_of ax ns lv)).
  { intros H W ns HH HW Hns.
    destruct (make_levels_spec bs H W Hne Hall HH HW) as (lv & n & nh & nw & E & _).
    exists lv, n. split; [exact E|]. split; [|apply uniform_planes_map].
    apply metas_of_wf; [exact Hns | exact (make_levels_wf bs H W lv n Hne Hall HH HW E)]. }
  unfold make_metas. rewrite Hy. cbn [bind].
  destruct shape as [|d0 [|d1 [|d2 [|d3 r]]]]; simpl in Hy; try discriminate.
  - inversion Hy; subst. inversion Hpos as [|? ? P0 Hp1]; subst. inversion Hp1 as [|? ? P1 _]; subst.
    destruct (Gen d0 d1 1 P0 P1 ltac:(lia)) as (lv & n & E & Wf & U).
    exists d0, d1, 1, lv, n. split; [auto|]. split; [exact E|]. rewrite E. cbn [bind]. auto.
  - inversion Hpos as [|? ? P0 Hp1]; subst. inversion Hp1 as [|? ? P1 Hp2]; subst.
    inversion Hp2 as [|? ? P2 _]; subst.
    assert (Cases : (ax = YXS /\ yaxis = 0) \/ (ax = SYX /\ yaxis = 1)).
    { destruct ya as [ya|]; [destruct (ya =? 0); inversion Hy; auto|].
      destruct ((d2 =? 3) || (d2 =? 4)); [inversion Hy; auto|].
      destruct gshape as [g|]; [|inversion Hy; auto].
      destruct (zz_eq g (d0, d1)); [inversion Hy; auto|].
      destruct (zz_eq g (d1, d2)); [inversion Hy; auto | discriminate]. }
    destruct Cases as [(-> & ->) | (-> & ->)].
    + destruct (Gen d0 d1 d2 P0 P1 P2) as (lv & n & E & Wf & U).
      exists d0, d1, d2, lv, n. split; [auto|]. split; [exact E|]. rewrite E. cbn [bind]. auto.
    + destruct (Gen d1 d2 d0 P1 P2 P0) as (lv & n & E & Wf & U).
      exists d1, d2, d0, lv, n. split; [auto|]. split; [exact E|]. rewrite E. cbn [bind]. auto.
Qed.

(** * 9. statements used verbatim by Props/C05.v *)

Lemma overview_first_writer mm (stream : list obs) start n1 n2 o1 o2 :
  map tile_of stream = writer_order mm ->
  Forall (fun o => 0 <= size_of o) stream ->
  nth_error stream n1 = Some o1 -> nth_error stream n2 = Some o2 ->
  1 <= lvl (tile_of o1) -> lvl (tile_of o2) = 0 ->
  start + presum (map size_of stream) n1 + size_of o1 <= start + presum (map size_of stream) n2.
Proof.
  intros Hw Hs E1 E2 L1 L2.
  destruct (writer_order_split mm) as (ovr & full & Hsplit & Hovr & Hfull).
  rewrite Hsplit in Hw.
  assert (I1 : In (tile_of o1) (ovr ++ full)) by (rewrite <- Hw; apply in_map; eapply nth_error_In; eauto).
  assert (I2 : In (tile_of o2) (ovr ++ full)) by (rewrite <- Hw; apply in_map; eapply nth_error_In; eauto).
  apply in_app_or in I1. apply in_app_or in I2.
  assert (N1 : ~ In (tile_of o1) full) by (intros X; apply Hfull in X; lia).
  assert (N2 : ~ In (tile_of o2) ovr) by (intros X; apply Hovr in X; lia).
  eapply overview_first_offsets; eauto; tauto.
Qed.

Lemma tile_bytes_in_file_eq {A} (f : obs -> list A) (hdr file : list A) (stream : list obs) :
  (forall o, In o stream -> size_of o = len (f o)) ->
  file = hdr ++ concat (map f stream) ->
  forall n o, nth_error stream n = Some o ->
    let off := len hdr + presum (map size_of stream) n in
    sel file off (off + size_of o) = f o.
Proof. intros Hsz -> n o E. exact (tile_bytes_in_file f hdr stream n o Hsz E). Qed.

Lemma tidx_enumerates_once m : NoDup (tidx m) /\ forall idx, In idx (tidx m) <-> in_range m idx.
Proof. split; [exact (NoDup_tidx m) | exact (in_tidx m)]. Qed.

Lemma cog_tidx_enumerates_once mm : NoDup (cog_tidx mm) /\ forall t, In t (cog_tidx mm) <-> valid_tile mm t.
Proof. split; [exact (NoDup_cog_tidx mm) | exact (in_cog_tidx mm)]. Qed.
