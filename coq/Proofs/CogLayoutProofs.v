(** Lemmas about the COG layout model (Model/CogLayout.v): block sizes,
    overview count, padding, halving, tile-index bijection. *)
From Coq Require Import ZArith List Bool Lia Permutation.
From OG Require Import Base.Result Base.ListSel Model.Roi Proofs.RoiProofs Model.CogLayout.
Import ListNotations.
Open Scope Z_scope.

(** * 1. block sizes *)

Lemma align_up_pos x a : 0 < a -> 1 <= x -> 0 < align_up x a.
Proof. intros Ha Hx. destruct (align_up_spec x a Ha) as (_ & H & _). lia. Qed.

Lemma adjust_blocksize_spec block dim :
  1 <= block ->
  0 < adjust_blocksize block dim /\ adjust_blocksize block dim mod 16 = 0.
Proof.
  intros Hb; unfold adjust_blocksize.
  destruct ((0 <? dim) && (dim <? block)) eqn:E.
  - apply andb_true_iff in E as [E1 E2]. apply Z.ltb_lt in E1.
    split; [apply align_up_pos; lia | apply align_up_spec; lia].
  - split; [apply align_up_pos; lia | apply align_up_spec; lia].
Qed.

(** the value: shrunk to align_up(dim,16) exactly when 0 < dim < block *)
Lemma adjust_blocksize_value block dim :
  adjust_blocksize block dim =
    if (0 <? dim) && (dim <? block) then align_up dim 16 else align_up block 16.
Proof. reflexivity. Qed.

Lemma adjust_blocksize_covers block dim :
  1 <= block -> 1 <= dim ->
  Z.min dim block <= adjust_blocksize block dim <= align_up block 16.
Proof.
  intros Hb Hd; unfold adjust_blocksize.
  destruct (align_up_spec dim 16 ltac:(lia)) as (Hm1 & Hl1 & Hu1).
  destruct (align_up_spec block 16 ltac:(lia)) as (Hm2 & Hl2 & Hu2).
  destruct ((0 <? dim) && (dim <? block)) eqn:E.
  - apply andb_true_iff in E as [E1 E2]. apply Z.ltb_lt in E1, E2.
    split; [lia|].
    (* align_up dim 16 <= align_up block 16 : both multiples of 16 *)
    apply Z.mod_divide in Hm1; [|lia]. apply Z.mod_divide in Hm2; [|lia].
    destruct Hm1 as [u Hu], Hm2 as [v Hv]. lia.
  - lia.
Qed.

Lemma adjust_blocksize_idem block :
  1 <= block -> adjust_blocksize (adjust_blocksize block 0) 0 = adjust_blocksize block 0.
Proof.
  intros Hb; unfold adjust_blocksize; simpl.
  destruct (align_up_spec block 16 ltac:(lia)) as (Hm & Hl & Hu).
  generalize dependent (align_up block 16); intros a Hm Hl Hu.
  destruct (align_up_spec a 16 ltac:(lia)) as (Hm' & Hl' & Hu').
  apply Z.mod_divide in Hm; [|lia]. apply Z.mod_divide in Hm'; [|lia].
  destruct Hm as [u Hu1], Hm' as [v Hv]. lia.
Qed.

Definition blk_pos (b : blk) : Prop :=
  match b with BInt b => 1 <= b | BPair b1 b2 => 1 <= b1 /\ 1 <= b2 end.

Definition tile_ok (t : Z * Z) : Prop :=
  0 < fst t /\ fst t mod 16 = 0 /\ 0 < snd t /\ snd t mod 16 = 0.

Lemma norm_blocksize_spec b : blk_pos b -> tile_ok (norm_blocksize b).
Proof.
  destruct b as [b | b1 b2]; simpl; unfold tile_ok; cbn [fst snd].
  - intros H. destruct (adjust_blocksize_spec b 0 H). tauto.
  - intros [H1 H2]. destruct (adjust_blocksize_spec b1 0 H1), (adjust_blocksize_spec b2 0 H2). tauto.
Qed.

(** * 2. overview count *)

Lemma pos_half_O q : Zpos (xO q) / 2 = Zpos q.
Proof. rewrite Pos2Z.inj_xO. rewrite Z.mul_comm. apply Z.div_mul; lia. Qed.

Lemma pos_half_I q : Zpos (xI q) / 2 = Zpos q.
Proof.
  rewrite Pos2Z.inj_xI. symmetry. apply (Z.div_unique _ 2 (Zpos q) 1); lia.
Qed.

Lemma div_pow_succ d k : 0 <= k -> d / 2 ^ (1 + k) = d / 2 / 2 ^ k.
Proof.
  intros Hk. rewrite Z.pow_add_r by lia. rewrite Z.pow_1_r.
  assert (0 < 2 ^ k) by (apply Z.pow_pos_nonneg; lia).
  rewrite Z.div_div by lia. reflexivity.
Qed.

Lemma novr_pos_eq block p :
  novr_pos block p =
    if block <? Zpos p then
      1 + match p with xH => 0 | xO q => novr_pos block q | xI q => novr_pos block q end
    else 0.
Proof. destruct p; reflexivity. Qed.

(** [novr_pos block p] is the least [c] with [p // 2^c <= block] *)
Lemma novr_pos_spec block p :
  0 <= block ->
  let c := novr_pos block p in
  0 <= c /\ Zpos p / 2 ^ c <= block /\ (forall k, 0 <= k < c -> block < Zpos p / 2 ^ k).
Proof.
  intros Hb. induction p as [q IH | q IH |]; cbn zeta in *; rewrite novr_pos_eq.
  - destruct (block <? Zpos (xI q)) eqn:E.
    + apply Z.ltb_lt in E. destruct IH as (H0 & H1 & H2).
      split; [lia|]. split.
      * rewrite div_pow_succ by lia. rewrite pos_half_I. exact H1.
      * intros k Hk. destruct (Z.eq_dec k 0) as [->|Hne].
        -- rewrite Z.pow_0_r, Z.div_1_r. exact E.
        -- replace k with (1 + (k - 1)) by lia. rewrite div_pow_succ by lia.
           rewrite pos_half_I. apply H2. lia.
    + apply Z.ltb_ge in E. split; [lia|]. split; [rewrite Z.pow_0_r, Z.div_1_r; exact E | intros; lia].
  - destruct (block <? Zpos (xO q)) eqn:E.
    + apply Z.ltb_lt in E. destruct IH as (H0 & H1 & H2).
      split; [lia|]. split.
      * rewrite div_pow_succ by lia. rewrite pos_half_O. exact H1.
      * intros k Hk. destruct (Z.eq_dec k 0) as [->|Hne].
        -- rewrite Z.pow_0_r, Z.div_1_r. exact E.
        -- replace k with (1 + (k - 1)) by lia. rewrite div_pow_succ by lia.
           rewrite pos_half_O. apply H2. lia.
    + apply Z.ltb_ge in E. split; [lia|]. split; [rewrite Z.pow_0_r, Z.div_1_r; exact E | intros; lia].
  - destruct (block <? 1) eqn:E.
    + apply Z.ltb_lt in E. split; [lia|]. split.
      * change (1 + 0) with 1. rewrite Z.pow_1_r. change (1 / 2) with 0. lia.
      * intros k Hk. assert (k = 0) by lia; subst. rewrite Z.pow_0_r, Z.div_1_r. lia.
    + apply Z.ltb_ge in E. split; [lia|]. split; [rewrite Z.pow_0_r, Z.div_1_r; exact E | intros; lia].
Qed.

Lemma num_overviews_spec block dim :
  0 <= block -> 1 <= dim ->
  exists c, num_overviews block dim = Ok c /\ 0 <= c /\ dim / 2 ^ c <= block /\
            (forall k, 0 <= k < c -> block < dim / 2 ^ k).
Proof.
  intros Hb Hd. destruct dim as [|p|p]; try lia.
  unfold num_overviews. destruct (block <? 0) eqn:E; [apply Z.ltb_lt in E; lia|].
  exists (novr_pos block p). split; [reflexivity|]. apply novr_pos_spec; lia.
Qed.

(** the count is determined by that specification *)
Lemma num_overviews_unique block dim c c' :
  0 <= c -> 0 <= c' ->
  dim / 2 ^ c <= block -> (forall k, 0 <= k < c -> block < dim / 2 ^ k) ->
  dim / 2 ^ c' <= block -> (forall k, 0 <= k < c' -> block < dim / 2 ^ k) ->
  c = c'.
Proof.
  intros H0 H0' H1 H2 H1' H2'.
  destruct (Z.lt_trichotomy c c') as [Hlt | [Heq | Hgt]]; auto.
  - specialize (H2' c ltac:(lia)). lia.
  - specialize (H2 c' ltac:(lia)). lia.
Qed.

(** * 3. compute_cog_spec and the level sequence *)

Lemma compute_cog_spec_none H W th tw :
  1 <= H -> 1 <= W -> 1 <= th -> 1 <= tw ->
  exists nh nw,
    num_overviews (adjust_blocksize th 0) H = Ok nh /\
    num_overviews (adjust_blocksize tw 0) W = Ok nw /\
    0 <= nh /\ 0 <= nw /\
    compute_cog_spec (H, W) (th, tw) None =
      Ok ((align_up H (2 ^ Z.max nw nh), align_up W (2 ^ Z.max nw nh)),
          (adjust_blocksize th 0, adjust_blocksize tw 0), Z.max nw nh).
Proof.
  intros HH HW Hth Htw.
  destruct (adjust_blocksize_spec th 0 Hth) as (Pth & _).
  destruct (adjust_blocksize_spec tw 0 Htw) as (Ptw & _).
  destruct (num_overviews_spec (adjust_blocksize th 0) H ltac:(lia) HH) as (nh & Enh & Hnh & _).
  destruct (num_overviews_spec (adjust_blocksize tw 0) W ltac:(lia) HW) as (nw & Enw & Hnw & _).
  exists nh, nw. repeat split; auto.
  unfold compute_cog_spec. rewrite Enw, Enh. cbn [bind].
  assert (0 < 2 ^ Z.max nw nh) by (apply Z.pow_pos_nonneg; lia).
  destruct (0 <? 2 ^ Z.max nw nh) eqn:E; [reflexivity | apply Z.ltb_ge in E; lia].
Qed.

Lemma padding_spec d n :
  0 <= n ->
  let d' := align_up d (2 ^ n) in
  d <= d' /\ d' - d < 2 ^ n /\ d' mod 2 ^ n = 0.
Proof.
  intros Hn. assert (0 < 2 ^ n) by (apply Z.pow_pos_nonneg; lia).
  destruct (align_up_spec d (2 ^ n) H) as (A & B & C). cbn zeta. lia.
Qed.

Lemma length_gen_levels k cnt bs s : length (gen_levels k cnt bs s) = cnt.
Proof. revert k s; induction cnt; intros; simpl; auto. Qed.

Fixpoint shrink_n (j : nat) (s : Z * Z) : Z * Z :=
  match j with O => s | S j' => shrink_n j' (shrink2 s) end.

Lemma nth_gen_levels cnt : forall k bs s j, (j < cnt)%nat ->
  nth_error (gen_levels k cnt bs s) j =
    Some (Level (shrink_n j s) (norm_blocksize (nth_block bs (k + j)))).
Proof.
  induction cnt as [|c IH]; intros k bs s j Hj; [lia|].
  destruct j as [|j]; simpl.
  - rewrite Nat.add_0_r. reflexivity.
  - rewrite IH by lia. replace (S k + j)%nat with (k + S j)%nat by lia. reflexivity.
Qed.

Lemma div_pow2_exact d n j :
  0 <= j <= n -> d mod 2 ^ n = 0 -> d / 2 ^ j * 2 ^ j = d.
Proof.
  intros Hj Hm.
  assert (0 < 2 ^ n) by (apply Z.pow_pos_nonneg; lia).
  assert (0 < 2 ^ j) by (apply Z.pow_pos_nonneg; lia).
  apply Z.mod_divide in Hm; [|lia]. destruct Hm as [q Hq].
  replace n with (j + (n - j)) in Hq by lia. rewrite Z.pow_add_r in Hq by lia.
  subst d. replace (q * (2 ^ j * 2 ^ (n - j))) with (q * 2 ^ (n - j) * 2 ^ j) by ring.
  rewrite Z.div_mul by lia. reflexivity.
Qed.

Lemma shrink_n_eq j : forall s, shrink_n j s = (fst s / 2 ^ Z.of_nat j, snd s / 2 ^ Z.of_nat j).
Proof.
  induction j as [|j IH]; intros [a b].
  - simpl. rewrite !Z.div_1_r. reflexivity.
  - cbn [shrink_n]. rewrite IH. unfold shrink2; cbn [fst snd].
    replace (Z.of_nat (S j)) with (1 + Z.of_nat j) by lia.
    rewrite !div_pow_succ by lia. reflexivity.
Qed.

(** halving is exact on every level up to [n] when the shape is a multiple of 2^n *)
Lemma halving_exact d n j :
  0 <= j < n -> d mod 2 ^ n = 0 -> d / 2 ^ (j + 1) * 2 = d / 2 ^ j.
Proof.
  intros Hj Hm.
  pose proof (div_pow2_exact d n j ltac:(lia) Hm) as E1.
  pose proof (div_pow2_exact d n (j + 1) ltac:(lia) Hm) as E2.
  rewrite Z.pow_add_r in * by lia. rewrite Z.pow_1_r in *.
  assert (0 < 2 ^ j) by (apply Z.pow_pos_nonneg; lia).
  apply Z.mul_reg_r with (2 ^ j); [lia|]. rewrite E1. rewrite <- E2 at 2. ring.
Qed.

Lemma last_nonempty {A} (l : list A) d d' : l <> [] -> last l d = last l d'.
Proof.
  induction l as [|a l IH]; [congruence|]. intros _. destruct l as [|b l]; [reflexivity|].
  change (last (a :: b :: l) d) with (last (b :: l) d).
  change (last (a :: b :: l) d') with (last (b :: l) d'). apply IH. discriminate.
Qed.

Lemma nth_block_pos bs k : bs <> [] -> Forall blk_pos bs -> blk_pos (nth_block bs k).
Proof.
  intros Hne Hall. unfold nth_block.
  destruct (Nat.lt_ge_cases k (length bs)) as [Hlt | Hge].
  - rewrite Forall_forall in Hall. apply Hall. apply nth_In. exact Hlt.
  - rewrite nth_overflow by lia.
    rewrite Forall_forall in Hall. apply Hall.
    destruct bs as [|b bs]; [congruence|].
    pose proof (@app_removelast_last _ (b :: bs) (BInt 0) ltac:(discriminate)) as E.
    rewrite E at 2. apply in_or_app. right. left. reflexivity.
Qed.

(** the whole layout rule of _make_empty_cog *)
Lemma make_levels_spec bs H W :
  bs <> [] -> Forall blk_pos bs -> 1 <= H -> 1 <= W ->
  exists lv n nh nw,
    make_levels bs (H, W) = Ok (lv, n) /\
    num_overviews (fst (norm_blocksize (last bs (BInt 0)))) H = Ok nh /\
    num_overviews (snd (norm_blocksize (last bs (BInt 0)))) W = Ok nw /\
    n = Z.max nh nw /\ 0 <= n /\
    length lv = S (Z.to_nat n) /\
    let H' := align_up H (2 ^ n) in
    let W' := align_up W (2 ^ n) in
    (H <= H' /\ H' - H < 2 ^ n /\ H' mod 2 ^ n = 0) /\
    (W <= W' /\ W' - W < 2 ^ n /\ W' mod 2 ^ n = 0) /\
    forall k, 0 <= k <= n ->
      exists l, nth_error lv (Z.to_nat k) = Some l /\
        l_tile l = norm_blocksize (nth_block bs (Z.to_nat k)) /\
        tile_ok (l_tile l) /\
        l_shape l = (H' / 2 ^ k, W' / 2 ^ k) /\
        fst (l_shape l) * 2 ^ k = H' /\ snd (l_shape l) * 2 ^ k = W' /\
        1 <= fst (l_shape l) /\ 1 <= snd (l_shape l).
Proof.
  intros Hne Hall HH HW.
  assert (Hlast : blk_pos (last bs (BInt 0))).
  { pose proof (nth_block_pos bs (length bs) Hne Hall) as P. unfold nth_block in P.
    rewrite nth_overflow in P by lia. exact P. }
  pose proof (norm_blocksize_spec _ Hlast) as (T1 & T2 & T3 & T4).
  destruct (norm_blocksize (last bs (BInt 0))) as [th tw] eqn:Etsz. cbn [fst snd] in *.
  destruct (compute_cog_spec_none H W th tw HH HW ltac:(lia) ltac:(lia))
    as (nh & nw & Enh & Enw & Hnh & Hnw & Espec).
  assert (Ath : adjust_blocksize th 0 = th).
  { destruct (last bs (BInt 0)) as [b | b1 b2]; simpl in Etsz, Hlast; inversion Etsz; subst.
    - apply adjust_blocksize_idem; lia.
    - apply adjust_blocksize_idem; lia. }
  assert (Atw : adjust_blocksize tw 0 = tw).
  { destruct (last bs (BInt 0)) as [b | b1 b2]; simpl in Etsz, Hlast; inversion Etsz; subst.
    - apply adjust_blocksize_idem; lia.
    - apply adjust_blocksize_idem; lia. }
  rewrite Ath in Enh. rewrite Atw in Enw.
  set (n := Z.max nw nh) in *.
  exists (gen_levels 0 (S (Z.to_nat n)) bs (align_up H (2 ^ n), align_up W (2 ^ n))), n, nh, nw.
  assert (Hn : 0 <= n) by (unfold n; lia).
  split.
  { unfold make_levels. destruct bs as [|b0 bs']; [congruence|].
    rewrite Etsz. rewrite Espec. cbn [bind]. reflexivity. }
  split; [exact Enh|]. split; [exact Enw|]. split; [unfold n; lia|]. split; [exact Hn|].
  split; [apply length_gen_levels|].
  cbn zeta.
  pose proof (padding_spec H n Hn) as PH. pose proof (padding_spec W n Hn) as PW. cbn zeta in PH, PW.
  split; [exact PH|]. split; [exact PW|].
  intros k Hk.
  rewrite nth_gen_levels by lia.
  eexists; split; [reflexivity|]. cbn [l_tile l_shape].
  rewrite shrink_n_eq. cbn [fst snd]. rewrite Z2Nat.id by lia.
  split; [reflexivity|]. split; [apply norm_blocksize_spec, nth_block_pos; auto|].
  split; [reflexivity|].
  destruct PH as (PH1 & PH2 & PH3). destruct PW as (PW1 & PW2 & PW3).
  pose proof (div_pow2_exact _ n k Hk PH3) as EH.
  pose proof (div_pow2_exact _ n k Hk PW3) as EW.
  assert (0 < 2 ^ k) by (apply Z.pow_pos_nonneg; lia).
  split; [exact EH|]. split; [exact EW|]. split; nia.
Qed.

(** * 4. default block sizes and source blocks *)

Lemma default_blocksize_pos chunks :
  1 <= fst chunks -> 1 <= snd chunks ->
  default_blocksize chunks <> [] /\ Forall blk_pos (default_blocksize chunks).
Proof.
  intros A B. unfold default_blocksize. split; [discriminate|].
  repeat constructor; simpl; lia.
Qed.

Lemma nblocks_spec dim tile y :
  0 < tile -> 1 <= dim -> 0 <= y ->
  (y < nblocks dim tile -> y * tile < dim) /\ (nblocks dim tile <= y -> dim <= y * tile).
Proof.
  intros Ht Hd Hy. unfold nblocks.
  pose proof (Z.div_mod (dim + tile - 1) tile ltac:(lia)) as D.
  pose proof (Z.mod_pos_bound (dim + tile - 1) tile Ht) as B.
  split; intros H; nia.
Qed.
