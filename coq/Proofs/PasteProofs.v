(** C10: the pasted image equals the nearest-neighbour warp image. *)
From Coq Require Import ZArith QArith Qround Qabs List Bool Lia Lqa.
From OG Require Import Base.Result Base.QZ Model.Roi Model.Overlap Model.Paste
     Proofs.RoiProofs Proofs.RoiPointsProofs Proofs.OverlapProofs.
Import ListNotations.
Open Scope Q_scope.

Lemma in_slb_spec sl i : in_slb sl i = true <-> in_sl sl i.
Proof.
  unfold in_slb, in_sl. rewrite andb_true_iff, Z.leb_le, Z.ltb_lt. tauto.
Qed.

Lemma inside_b (n v : Z) : ((0 <=? v) && (v <? n))%Z = true <-> (0 <= v < n)%Z.
Proof. rewrite andb_true_iff, Z.leb_le, Z.ltb_lt. tauto. Qed.

Lemma src_dims_1 ss : src_dims ss 1 = ss.
Proof. reflexivity. Qed.
Lemma up_roi_1 rs : up_roi rs 1 = rs.
Proof. reflexivity. Qed.

(** [loc] is the true source location of each destination pixel centre; it may differ from the
    snapped transform by less than half a pixel (sub-pixel shift within ttol, accumulated scale
    deviation) *)
Lemma paste_equals_warp (V : Type) (src : img V) (nodata : V)
      c ss ds A F ttol stol padding align r (loc : Z -> Z -> Q * Q) :
  reproject_linear c ss ds A F ttol stol padding align = Ok r ->
  paste_ok r = true -> read_shrink r = 1%Z ->
  (0 <= fst ss)%Z -> (0 <= snd ss)%Z -> (0 <= fst ds)%Z -> (0 <= snd ds)%Z -> tol_ok c stol ->
  let P := paste_affine c A ttol stol 1 in
  (forall dy dx, (0 <= dy < fst ds)%Z -> (0 <= dx < snd ds)%Z ->
     Qabs (fst (loc dy dx) - fst (aff_apply P (pix_center dy dx))) < 1#2 /\
     Qabs (snd (loc dy dx) - snd (aff_apply P (pix_center dy dx))) < 1#2) ->
  forall dy dx, (0 <= dy < fst ds)%Z -> (0 <= dx < snd ds)%Z ->
    paste_img src nodata (roi_src r) (roi_dst r) (Qltb (ae A) 0) (Qltb (aa A) 0) dy dx =
    warp_nn src nodata ss loc dy dx.
Proof.
  intros Hr Hp Hk S1 S2 D1 D2 Htol P Hloc dy dx Hdy Hdx.
  destruct (paste_structure _ _ _ _ _ _ _ _ _ _ Hr Hp S1 S2 D1 D2 Htol) as (K1 & tx & ty & rs & rd & HP & Fy & Fx & Hrs & Hrd & _).
  rewrite Hk in HP, Fy, Fx, Hrs. rewrite src_dims_1 in Fy, Fx. rewrite up_roi_1 in Hrs. fold P in HP.
  destruct (Hloc dy dx Hdy Hdx) as [Lx Ly].
  assert (Ex : fst (aff_apply P (pix_center dy dx)) == unit_q (Qltb (aa A) 0) * (inject_Z dx + (1#2)) + inject_Z tx).
  { rewrite HP. unfold aff_apply, pix_center. cbn [fst snd aa ab ac ad ae af]. ring. }
  assert (Ey : snd (aff_apply P (pix_center dy dx)) == unit_q (Qltb (ae A) 0) * (inject_Z dy + (1#2)) + inject_Z ty).
  { rewrite HP. unfold aff_apply, pix_center. cbn [fst snd aa ab ac ad ae af]. ring. }
  rewrite Ex in Lx. rewrite Ey in Ly.
  pose proof (nn_floor_unit tx dx (Qltb (aa A) 0) _ Lx) as Nx.
  pose proof (nn_floor_unit ty dy (Qltb (ae A) 0) _ Ly) as Ny.
  fold (nn_unit tx (Qltb (aa A) 0) dx) in Nx. fold (nn_unit ty (Qltb (ae A) 0) dy) in Ny.
  destruct Fx as (_ & _ & _ & Fx2 & Fx3). destruct Fy as (_ & _ & _ & Fy2 & Fy3).
  unfold paste_img, warp_nn. cbv zeta. rewrite Nx, Ny, Hrs, Hrd.
  set (nx := nn_unit tx (Qltb (aa A) 0) dx) in *. set (ny := nn_unit ty (Qltb (ae A) 0) dy) in *.
  destruct (in_slb (fst rd) dy) eqn:By; destruct (in_slb (snd rd) dx) eqn:Bx; cbn [andb].
  - apply in_slb_spec in By. apply in_slb_spec in Bx.
    destruct (Fx3 dx Bx) as [Px _]. destruct (Fy3 dy By) as [Py _].
    apply (Fx2 dx Hdx) in Bx. apply (Fy2 dy Hdy) in By.
    fold nx in Bx, Px. fold ny in By, Py.
    assert (E1 : ((0 <=? nx) && (nx <? snd ss))%Z = true) by (apply inside_b; exact Bx).
    assert (E2 : ((0 <=? ny) && (ny <? fst ss))%Z = true) by (apply inside_b; exact By).
    rewrite E1. cbn [andb]. rewrite E2. rewrite Px, Py. reflexivity.
  - assert (E1 : ((0 <=? nx) && (nx <? snd ss))%Z = false).
    { destruct ((0 <=? nx) && (nx <? snd ss))%Z eqn:E; [|reflexivity].
      apply inside_b in E. apply (Fx2 dx Hdx) in E. apply in_slb_spec in E. congruence. }
    rewrite E1. reflexivity.
  - assert (E2 : ((0 <=? ny) && (ny <? fst ss))%Z = false).
    { destruct ((0 <=? ny) && (ny <? fst ss))%Z eqn:E; [|reflexivity].
      apply inside_b in E. apply (Fy2 dy Hdy) in E. apply in_slb_spec in E. congruence. }
    destruct ((0 <=? nx) && (nx <? snd ss))%Z; cbn [andb]; [rewrite E2|]; reflexivity.
  - assert (E1 : ((0 <=? nx) && (nx <? snd ss))%Z = false).
    { destruct ((0 <=? nx) && (nx <? snd ss))%Z eqn:E; [|reflexivity].
      apply inside_b in E. apply (Fx2 dx Hdx) in E. apply in_slb_spec in E. congruence. }
    rewrite E1. reflexivity.
Qed.

(** the hypothesis on [loc] holds for the true affine transform whenever its scale is exactly
    +-1 (any sub-pixel shift within ttol <= 1/2) *)
Lemma loc_exact_scale c A ttol stol sx sy :
  can_paste_code c A stol ttol = Ok 0%Z -> scale2 A = Ok (sx, sy) ->
  pick_read_scale (Qminq sx sy) (c_rs c) = Ok 1%Z -> tol_ok c stol -> ttol <= 1#2 ->
  aa A == unit_q (Qltb (aa A) 0) -> ae A == unit_q (Qltb (ae A) 0) -> ab A == 0 -> ad A == 0 ->
  let P := paste_affine c A ttol stol 1 in
  forall dy dx,
    Qabs (fst (aff_apply A (pix_center dy dx)) - fst (aff_apply P (pix_center dy dx))) < 1#2 /\
    Qabs (snd (aff_apply A (pix_center dy dx)) - snd (aff_apply P (pix_center dy dx))) < 1#2.
Proof.
  intros Hc Hs Hk (T0 & T1 & T2 & T3) Ht Ea Ee Eb Ed P dy dx.
  destruct (paste_affine_unit c A stol ttol sx sy 1 Hc Hs Hk T0 T1 T2 T3) as (_ & tx & ty & HP & _ & _ & Q3 & _ & Q5 & _).
  fold P in HP. rewrite HP. unfold aff_apply, pix_center. cbn [fst snd aa ab ac ad ae af].
  assert (E1 : forall x, x / inject_Z 1 == x) by (intros x; change (inject_Z 1) with 1; field).
  rewrite E1 in Q3, Q5.
  split.
  - assert (E : aa A * (inject_Z dx + (1 # 2)) + ab A * (inject_Z dy + (1 # 2)) + ac A -
                (unit_q (Qltb (aa A) 0) * (inject_Z dx + (1 # 2)) + 0 * (inject_Z dy + (1 # 2)) + inject_Z tx)
                == ac A - inject_Z tx).
    { rewrite Eb. rewrite Ea at 1. ring. }
    rewrite E. lra.
  - assert (E : ad A * (inject_Z dx + (1 # 2)) + ae A * (inject_Z dy + (1 # 2)) + af A -
                (0 * (inject_Z dx + (1 # 2)) + unit_q (Qltb (ae A) 0) * (inject_Z dy + (1 # 2)) + inject_Z ty)
                == af A - inject_Z ty).
    { rewrite Ed. rewrite Ee at 1. ring. }
    rewrite E. lra.
Qed.

Lemma paste_only_tight c ss ds A F ttol stol padding align r :
  reproject_linear c ss ds A F ttol stol padding align = Ok r -> paste_ok r = true ->
  opt_in0 (norm_align align) = true /\ opt_in0 padding = true /\ can_paste_code c A stol ttol = Ok 0%Z.
Proof.
  intros Hr Hp.
  destruct (reproject_linear_cases _ _ _ _ _ _ _ _ _ _ Hr) as (sx & sy & _ & _ & _ & _ & [[Hf _] | (_ & H1 & H2 & H3 & _)]);
    [congruence | tauto].
Qed.
