(** The definitions regenerated from /repo's current sources by tools/py2v
    (coq/Gen/RoiGen.v) coincide with the hand-written model (Model/Roi.v) on
    which the C17 theorems are stated.  These lemmas are re-checked on every run
    against freshly generated text: a change of the translated source functions
    that alters their meaning makes one of them fail. *)
From Coq Require Import ZArith QArith List Bool Lia.
From OG Require Import Base.Result Model.Roi Gen.RoiGen.
Open Scope Z_scope.

Definition ns_to_ss (t : Z * Z * option Z) : someslice :=
  SSl (Some (fst (fst t))) (Some (snd (fst t))) (snd t).
Definition ns_pair (t : Z * Z * option Z) : Z * Z := (fst (fst t), snd (fst t)).

Lemma gen_align_down x a : g_align_down x a = align_down x a.
Proof. reflexivity. Qed.

Lemma gen_align_up x a : g_align_up x a = align_up x a.
Proof. reflexivity. Qed.

Lemma gen_fill x d : g_fill_if_none x d = fill x d.
Proof. destruct x; reflexivity. Qed.

Lemma gen_norm_slice_or_error s : g_norm_slice_or_error s = norm_slice_or_error s.
Proof.
  destruct s as [i|a b st]; simpl.
  - reflexivity.
  - rewrite gen_fill. destruct b; reflexivity.
Qed.

Lemma gen_norm_slice s n : ns_to_ss (g_norm_slice s n) = norm_slice s n.
Proof.
  destruct s as [i|a b st]; unfold g_norm_slice, norm_slice, ns_to_ss; simpl.
  - destruct (i <? 0); reflexivity.
  - rewrite !gen_fill. reflexivity.
Qed.

Definition map3 (r : res ((Z * Z * option Z) * (Z * Z * option Z) * (Z * Z * option Z)))
  : res ((Z * Z) * (Z * Z) * (Z * Z)) :=
  match r with
  | Ok (x, y, z) => Ok (ns_pair x, ns_pair y, ns_pair z)
  | Err e => Err e
  end.

Lemma gen_slice_intersect3 a b : map3 (g_slice_intersect3 a b) = slice_intersect3 a b.
Proof.
  unfold g_slice_intersect3, slice_intersect3. rewrite !gen_norm_slice_or_error.
  destruct (norm_slice_or_error a) as [[[a0 a1] sa]|e]; [|reflexivity]. cbn [bind fst snd].
  rewrite ?gen_norm_slice_or_error.
  destruct (norm_slice_or_error b) as [[[b0 b1] sb]|e]; [|reflexivity]. cbn [bind fst snd].
  destruct (a1 <? b0); [reflexivity|]. destruct (a0 >? b1); reflexivity.
Qed.

Lemma gen_slice_intersect a b :
  match g_slice_intersect a b with Ok x => Ok (ns_pair x) | Err e => Err e end = slice_intersect a b.
Proof.
  unfold g_slice_intersect, slice_intersect. rewrite !gen_norm_slice_or_error.
  destruct (norm_slice_or_error a) as [[[a0 a1] sa]|e]; [|reflexivity]. cbn [bind fst snd].
  rewrite ?gen_norm_slice_or_error.
  destruct (norm_slice_or_error b) as [[[b0 b1] sb]|e]; [|reflexivity]. cbn [bind fst snd].
  destruct (a1 <? b0); [reflexivity|]. destruct (a0 >? b1); reflexivity.
Qed.

Lemma gen_slice_dim s : g_slice_dim s = slice_dim s.
Proof. destruct s as [i|a b st]; simpl; [reflexivity|]. destruct b; [destruct a|]; reflexivity. Qed.

Lemma gen_slice_full s n : g_slice_full s n = slice_full s n.
Proof. destruct s as [i|a b st]; simpl; [reflexivity|]. destruct a, b; reflexivity. Qed.

Lemma gen_pad_slice pad s n : ns_to_ss (g_pad_slice pad s n) = pad_slice pad s n.
Proof.
  unfold g_pad_slice, pad_slice. rewrite <- gen_norm_slice.
  unfold ns_to_ss. cbn [fst snd]. reflexivity.
Qed.

Lemma gen_slice_center s :
  match g_slice_center s, slice_center2 s with
  | Ok q, Ok c2 => (q == inject_Z c2 * (1 # 2))%Q
  | Err e, Err e' => e = e'
  | _, _ => False
  end.
Proof.
  unfold g_slice_center, slice_center2. rewrite gen_norm_slice_or_error.
  destruct (norm_slice_or_error s) as [[[a0 a1] st]|e]; cbn [bind fst snd]; reflexivity.
Qed.

Lemma gen_scaled_down s k : ns_pair (g_scaled_down_axis s k) = scaled_down_slice (ns_pair s) k.
Proof. reflexivity. Qed.

Lemma gen_scaled_up s k :
  ns_pair (g_scaled_up_axis s k) = scaled_up_slice (ns_pair s) k None /\
  forall d, ns_pair (g_scaled_up_clamp (g_scaled_up_axis s k) d) = scaled_up_slice (ns_pair s) k (Some d).
Proof. split; reflexivity. Qed.

Lemma gen_scaled_down_dim n k : g_scaled_down_dim n k = scaled_down_dim n k.
Proof. reflexivity. Qed.

(** everything at once, for Props/C17.v *)
Definition roi_source_is_model : Prop :=
  (forall x a, g_align_down x a = align_down x a) /\
  (forall x a, g_align_up x a = align_up x a) /\
  (forall s, g_norm_slice_or_error s = norm_slice_or_error s) /\
  (forall s n, ns_to_ss (g_norm_slice s n) = norm_slice s n) /\
  (forall a b, map3 (g_slice_intersect3 a b) = slice_intersect3 a b) /\
  (forall a b, match g_slice_intersect a b with Ok x => Ok (ns_pair x) | Err e => Err e end = slice_intersect a b) /\
  (forall s, g_slice_dim s = slice_dim s) /\
  (forall s n, g_slice_full s n = slice_full s n) /\
  (forall pad s n, ns_to_ss (g_pad_slice pad s n) = pad_slice pad s n) /\
  (forall s, match g_slice_center s, slice_center2 s with
             | Ok q, Ok c2 => (q == inject_Z c2 * (1 # 2))%Q
             | Err e, Err e' => e = e'
             | _, _ => False
             end) /\
  (forall s k, ns_pair (g_scaled_down_axis s k) = scaled_down_slice (ns_pair s) k) /\
  (forall s k, ns_pair (g_scaled_up_axis s k) = scaled_up_slice (ns_pair s) k None) /\
  (forall s k d, ns_pair (g_scaled_up_clamp (g_scaled_up_axis s k) d) = scaled_up_slice (ns_pair s) k (Some d)) /\
  (forall n k, g_scaled_down_dim n k = scaled_down_dim n k).

Lemma roi_source_is_model_holds : roi_source_is_model.
Proof.
  unfold roi_source_is_model.
  split; [exact gen_align_down|]. split; [exact gen_align_up|].
  split; [exact gen_norm_slice_or_error|]. split; [exact gen_norm_slice|].
  split; [exact gen_slice_intersect3|]. split; [exact gen_slice_intersect|].
  split; [exact gen_slice_dim|]. split; [exact gen_slice_full|].
  split; [exact gen_pad_slice|]. split; [exact gen_slice_center|].
  split; [exact gen_scaled_down|].
  split; [intros s k; exact (proj1 (gen_scaled_up s k))|].
  split; [intros s k d; exact (proj2 (gen_scaled_up s k) d)|].
  exact gen_scaled_down_dim.
Qed.
