(** Proofs about the GeoBox view operations (property C02). *)
From Coq Require Import ZArith QArith Qround Qabs List Bool Lia Lqa Setoid Morphisms.
From OG Require Import Base.Result Base.QZ Base.ListSel Base.Affine Model.Roi Model.GeoBoxOps
  Proofs.RoiProofs.
Import ListNotations.
Open Scope Q_scope.

(** the pixel rectangle [0,nx] x [0,ny] and its image, the footprint *)
Definition in_rect (g : geobox) (p : pt) : Prop :=
  0 <= fst p /\ fst p <= Zq (g_nx g) /\ 0 <= snd p /\ snd p <= Zq (g_ny g).
Definition footprint (g : geobox) (w : pt) : Prop := exists p, in_rect g p /\ peq (pix2wld g p) w.
(** [covers g g']: the footprint of [g] lies inside the footprint of [g'] *)
Definition covers (g g' : geobox) : Prop := forall w, footprint g w -> footprint g' w.
Definition invertible (g : geobox) : Prop := ~ adet (g_A g) == 0.

Lemma Zq_plus a b : Zq (a + b) == Zq a + Zq b.
Proof. unfold Zq. rewrite inject_Z_plus. reflexivity. Qed.
Lemma Zq_mult a b : Zq (a * b) == Zq a * Zq b.
Proof. unfold Zq. rewrite inject_Z_mult. reflexivity. Qed.
Lemma Zq_opp a : Zq (- a) == - Zq a.
Proof. unfold Zq. rewrite inject_Z_opp. reflexivity. Qed.
Lemma Zq_minus a b : Zq (a - b) == Zq a - Zq b.
Proof. unfold Z.sub. rewrite Zq_plus, Zq_opp. ring. Qed.
Lemma Zq_le a b : (a <= b)%Z <-> Zq a <= Zq b.
Proof. unfold Zq. rewrite Zle_Qle. tauto. Qed.
Lemma Zq_lt1 a b : (a < b)%Z -> Zq a < Zq b.
Proof. unfold Zq. rewrite <- Zlt_Qlt. tauto. Qed.
Lemma Zq_le1 a b : (a <= b)%Z -> Zq a <= Zq b.
Proof. apply Zq_le. Qed.
Lemma Zq_lt a b : (a < b)%Z <-> Zq a < Zq b.
Proof. unfold Zq. rewrite Zlt_Qlt. tauto. Qed.

Lemma covers_by_map (g g' : geobox) (f : pt -> pt) :
  (forall p, in_rect g p -> in_rect g' (f p) /\ peq (pix2wld g' (f p)) (pix2wld g p)) ->
  covers g g'.
Proof.
  intros H w (p & Hp & Hw). destruct (H p Hp) as [H1 H2].
  exists (f p); split; [exact H1 | rewrite H2; exact Hw].
Qed.

(** * (i) pixel <-> world round trip *)
Lemma roundtrip g p : invertible g ->
  peq (wld2pix g (pix2wld g p)) p /\ peq (pix2wld g (wld2pix g p)) p.
Proof.
  intros H; split; [apply apply_inv_l | apply apply_inv_r]; exact H.
Qed.

Lemma pix2wld_injective g p q : invertible g -> peq (pix2wld g p) (pix2wld g q) -> peq p q.
Proof. intros H E. eapply apply_inj; eauto. Qed.

(** * (ii) extent, bounding box *)
Lemma extent_corners g :
  extent g = [pix2wld g (0, 0); pix2wld g (0, Zq (g_ny g)); pix2wld g (Zq (g_nx g), Zq (g_ny g));
              pix2wld g (Zq (g_nx g), 0); pix2wld g (0, 0)].
Proof. reflexivity. Qed.

(** the footprint is exactly the convex hull of the four corner images *)
Definition hull4 (c1 c2 c3 c4 : pt) (w : pt) : Prop :=
  exists w1 w2 w3 w4, 0 <= w1 /\ 0 <= w2 /\ 0 <= w3 /\ 0 <= w4 /\ w1 + w2 + w3 + w4 == 1 /\
    peq w (w1 * fst c1 + w2 * fst c2 + w3 * fst c3 + w4 * fst c4,
           w1 * snd c1 + w2 * snd c2 + w3 * snd c3 + w4 * snd c4).

Lemma footprint_in_hull g w : (1 <= g_nx g)%Z -> (1 <= g_ny g)%Z ->
  footprint g w ->
  hull4 (pix2wld g (0, 0)) (pix2wld g (0, Zq (g_ny g))) (pix2wld g (Zq (g_nx g), Zq (g_ny g)))
        (pix2wld g (Zq (g_nx g), 0)) w.
Proof.
  intros Hx Hy ([x y] & (H1 & H2 & H3 & H4) & Hw). simpl in *.
  apply Zq_le in Hx, Hy. change (Zq 1) with 1 in *.
  set (nx := Zq (g_nx g)) in *. set (ny := Zq (g_ny g)) in *.
  assert (Hu0 : 0 <= x / nx) by (apply Qle_shift_div_l; lra).
  assert (Hu1 : x / nx <= 1) by (apply Qle_shift_div_r; lra).
  assert (Hv0 : 0 <= y / ny) by (apply Qle_shift_div_l; lra).
  assert (Hv1 : y / ny <= 1) by (apply Qle_shift_div_r; lra).
  set (u := x / nx) in *. set (v := y / ny) in *.
  assert (Ex : x == u * nx) by (unfold u; field; lra).
  assert (Ey : y == v * ny) by (unfold v; field; lra).
  exists ((1 - u) * (1 - v)), ((1 - u) * v), (u * v), (u * (1 - v)).
  repeat split.
  - apply Qmult_le_0_compat; lra.
  - apply Qmult_le_0_compat; lra.
  - apply Qmult_le_0_compat; lra.
  - apply Qmult_le_0_compat; lra.
  - ring.
  - destruct Hw as [Hw _]. rewrite <- Hw. unfold pix2wld, apply; simpl. rewrite Ex, Ey. ring.
  - destruct Hw as [_ Hw]. rewrite <- Hw. unfold pix2wld, apply; simpl. rewrite Ex, Ey. ring.
Qed.

Lemma hull_in_footprint g w : (0 <= g_nx g)%Z -> (0 <= g_ny g)%Z ->
  hull4 (pix2wld g (0, 0)) (pix2wld g (0, Zq (g_ny g))) (pix2wld g (Zq (g_nx g), Zq (g_ny g)))
        (pix2wld g (Zq (g_nx g), 0)) w ->
  footprint g w.
Proof.
  intros Hx Hy (w1 & w2 & w3 & w4 & P1 & P2 & P3 & P4 & S & [E1 E2]).
  apply Zq_le in Hx, Hy. change (Zq 0) with 0 in *.
  set (nx := Zq (g_nx g)) in *. set (ny := Zq (g_ny g)) in *.
  exists ((w3 + w4) * nx, (w2 + w3) * ny). split.
  - unfold in_rect; simpl. fold nx ny.
    assert (0 <= (w3 + w4) * nx) by (apply Qmult_le_0_compat; lra).
    assert (0 <= (w2 + w3) * ny) by (apply Qmult_le_0_compat; lra).
    assert (0 <= (1 - (w3 + w4)) * nx) by (apply Qmult_le_0_compat; lra).
    assert (0 <= (1 - (w2 + w3)) * ny) by (apply Qmult_le_0_compat; lra).
    repeat split; lra.
  - assert (E : w1 == 1 - w2 - w3 - w4) by lra.
    unfold pix2wld, apply, peq in *; simpl in *. rewrite E1, E2, E. split; ring.
Qed.

Lemma qmin_spec a b : qmin a b <= a /\ qmin a b <= b /\ (qmin a b = a \/ qmin a b = b).
Proof.
  unfold qmin. destruct (Qle_bool a b) eqn:E.
  - apply Qle_bool_iff in E. repeat split; auto; lra.
  - apply Qle_bool_false in E. repeat split; auto; lra.
Qed.

Lemma qmax_spec a b : a <= qmax a b /\ b <= qmax a b /\ (qmax a b = a \/ qmax a b = b).
Proof.
  unfold qmax. destruct (Qle_bool a b) eqn:E.
  - apply Qle_bool_iff in E. repeat split; auto; lra.
  - apply Qle_bool_false in E. repeat split; auto; lra.
Qed.

Lemma qmin4_spec a b c d :
  let m := qmin (qmin (qmin a b) c) d in
  m <= a /\ m <= b /\ m <= c /\ m <= d /\ (m = a \/ m = b \/ m = c \/ m = d).
Proof.
  intros m. unfold m.
  destruct (qmin_spec a b) as (A1 & A2 & A3).
  destruct (qmin_spec (qmin a b) c) as (B1 & B2 & B3).
  destruct (qmin_spec (qmin (qmin a b) c) d) as (C1 & C2 & C3).
  repeat split; try lra.
  destruct C3 as [-> | ->]; [destruct B3 as [-> | ->]; [destruct A3 as [-> | ->] |] |]; auto.
Qed.

Lemma qmax4_spec a b c d :
  let m := qmax (qmax (qmax a b) c) d in
  a <= m /\ b <= m /\ c <= m /\ d <= m /\ (m = a \/ m = b \/ m = c \/ m = d).
Proof.
  intros m. unfold m.
  destruct (qmax_spec a b) as (A1 & A2 & A3).
  destruct (qmax_spec (qmax a b) c) as (B1 & B2 & B3).
  destruct (qmax_spec (qmax (qmax a b) c) d) as (C1 & C2 & C3).
  repeat split; try lra.
  destruct C3 as [-> | ->]; [destruct B3 as [-> | ->]; [destruct A3 as [-> | ->] |] |]; auto.
Qed.

Definition corner_images (g : geobox) : list pt :=
  [pix2wld g (0, 0); pix2wld g (Zq (g_nx g), 0); pix2wld g (Zq (g_nx g), Zq (g_ny g));
   pix2wld g (0, Zq (g_ny g))].

(** the bounding box is the coordinate-wise min / max over all four corner images *)
Lemma boundingbox_minmax g l b r t : boundingbox g = (l, b, r, t) ->
  (forall c, In c (corner_images g) -> l <= fst c /\ fst c <= r /\ b <= snd c /\ snd c <= t) /\
  (exists c, In c (corner_images g) /\ l = fst c) /\
  (exists c, In c (corner_images g) /\ b = snd c) /\
  (exists c, In c (corner_images g) /\ r = fst c) /\
  (exists c, In c (corner_images g) /\ t = snd c).
Proof.
  unfold boundingbox, corners_bbox, corner_images, pix2wld.
  cbn [map].
  remember (apply (g_A g) (0, 0)) as c1 eqn:E1.
  remember (apply (g_A g) (Zq (g_nx g), 0)) as c2 eqn:E2.
  remember (apply (g_A g) (Zq (g_nx g), Zq (g_ny g))) as c3 eqn:E3.
  remember (apply (g_A g) (0, Zq (g_ny g))) as c4 eqn:E4.
  clear E1 E2 E3 E4.
  cbn [map qmin_list qmax_list fold_left].
  intros H; injection H as <- <- <- <-.
  destruct (qmin4_spec (fst c1) (fst c2) (fst c3) (fst c4)) as (L1 & L2 & L3 & L4 & L5).
  destruct (qmin4_spec (snd c1) (snd c2) (snd c3) (snd c4)) as (B1 & B2 & B3 & B4 & B5).
  destruct (qmax4_spec (fst c1) (fst c2) (fst c3) (fst c4)) as (R1 & R2 & R3 & R4 & R5).
  destruct (qmax4_spec (snd c1) (snd c2) (snd c3) (snd c4)) as (T1 & T2 & T3 & T4 & T5).
  split; [|split; [|split; [|split]]].
  - intros c [<- | [<- | [<- | [<- | []]]]]; auto.
  - destruct L5 as [E | [E | [E | E]]]; rewrite E; eexists; (split; [|reflexivity]); simpl; auto 8.
  - destruct B5 as [E | [E | [E | E]]]; rewrite E; eexists; (split; [|reflexivity]); simpl; auto 8.
  - destruct R5 as [E | [E | [E | E]]]; rewrite E; eexists; (split; [|reflexivity]); simpl; auto 8.
  - destruct T5 as [E | [E | [E | E]]]; rewrite E; eexists; (split; [|reflexivity]); simpl; auto 8.
Qed.

(** a linear form on a rectangle lies between its values at the corners *)
Lemma linear_on_rect (a b c x y nx ny lo hi : Q) :
  0 <= x -> x <= nx -> 0 <= y -> y <= ny ->
  lo <= c -> lo <= a * nx + c -> lo <= a * nx + b * ny + c -> lo <= b * ny + c ->
  c <= hi -> a * nx + c <= hi -> a * nx + b * ny + c <= hi -> b * ny + c <= hi ->
  lo <= a * x + b * y + c /\ a * x + b * y + c <= hi.
Proof.
  intros X0 X1 Y0 Y1 L1 L2 L3 L4 H1 H2 H3 H4.
  assert (Ax : (0 <= a -> 0 <= a * x /\ a * x <= a * nx) /\ (a <= 0 -> a * nx <= a * x /\ a * x <= 0)).
  { split; intros Ha.
    - split; [apply Qmult_le_0_compat; lra|].
      assert (0 <= a * (nx - x)) by (apply Qmult_le_0_compat; lra). lra.
    - assert (0 <= (- a) * x) by (apply Qmult_le_0_compat; lra).
      assert (0 <= (- a) * (nx - x)) by (apply Qmult_le_0_compat; lra). split; lra. }
  assert (By : (0 <= b -> 0 <= b * y /\ b * y <= b * ny) /\ (b <= 0 -> b * ny <= b * y /\ b * y <= 0)).
  { split; intros Hb.
    - split; [apply Qmult_le_0_compat; lra|].
      assert (0 <= b * (ny - y)) by (apply Qmult_le_0_compat; lra). lra.
    - assert (0 <= (- b) * y) by (apply Qmult_le_0_compat; lra).
      assert (0 <= (- b) * (ny - y)) by (apply Qmult_le_0_compat; lra). split; lra. }
  destruct Ax as [Ax1 Ax2]. destruct By as [By1 By2].
  destruct (Qlt_le_dec a 0) as [Ha | Ha]; destruct (Qlt_le_dec b 0) as [Hb | Hb].
  - destruct (Ax2 ltac:(lra)). destruct (By2 ltac:(lra)). split; lra.
  - destruct (Ax2 ltac:(lra)). destruct (By1 Hb). split; lra.
  - destruct (Ax1 Ha). destruct (By2 ltac:(lra)). split; lra.
  - destruct (Ax1 Ha). destruct (By1 Hb). split; lra.
Qed.

Lemma boundingbox_contains g l b r t p : boundingbox g = (l, b, r, t) -> in_rect g p ->
  l <= fst (pix2wld g p) /\ fst (pix2wld g p) <= r /\ b <= snd (pix2wld g p) /\ snd (pix2wld g p) <= t.
Proof.
  intros Hb (X0 & X1 & Y0 & Y1).
  destruct (boundingbox_minmax g l b r t Hb) as (Hc & _).
  unfold corner_images in Hc.
  pose proof (Hc _ (or_introl eq_refl)) as C1.
  pose proof (Hc _ (or_intror (or_introl eq_refl))) as C2.
  pose proof (Hc _ (or_intror (or_intror (or_introl eq_refl)))) as C3.
  pose proof (Hc _ (or_intror (or_intror (or_intror (or_introl eq_refl))))) as C4.
  unfold pix2wld, apply in *; simpl in *.
  set (nx := Zq (g_nx g)) in *. set (ny := Zq (g_ny g)) in *.
  assert (U : l <= aa (g_A g) * fst p + ab (g_A g) * snd p + ac (g_A g) /\
              aa (g_A g) * fst p + ab (g_A g) * snd p + ac (g_A g) <= r)
    by (apply linear_on_rect with (nx := nx) (ny := ny); lra).
  assert (V : b <= ad (g_A g) * fst p + ae (g_A g) * snd p + af (g_A g) /\
              ad (g_A g) * fst p + ae (g_A g) * snd p + af (g_A g) <= t)
    by (apply linear_on_rect with (nx := nx) (ny := ny); lra).
  tauto.
Qed.

(** * Coordinates and resolution *)
Lemma iota_length n : length (iota n) = Z.to_nat n.
Proof. unfold iota. rewrite map_length, seq_length. reflexivity. Qed.

Lemma iota_nth n i d : (0 <= i < n)%Z -> nth (Z.to_nat i) (iota n) d = i.
Proof.
  intros H. unfold iota.
  rewrite (nth_indep _ d (Z.of_nat 0)) by (rewrite map_length, seq_length; lia).
  rewrite map_nth. rewrite seq_nth by lia. simpl. lia.
Qed.

Lemma map_iota_nth (f : Z -> Q) n i d : (0 <= i < n)%Z ->
  nth (Z.to_nat i) (map f (iota n)) d = f i.
Proof.
  intros H.
  rewrite (nth_indep _ d (f 0%Z)) by (rewrite map_length, iota_length; lia).
  rewrite map_nth. rewrite iota_nth by assumption. reflexivity.
Qed.

Definition axis_aligned (g : geobox) : Prop := ab (g_A g) == 0 /\ ad (g_A g) == 0.

Lemma is_affine_st_true c A : 0 < tol_st c -> ab A == 0 -> ad A == 0 -> is_affine_st c A = true.
Proof.
  intros Ht Hb Hd. unfold is_affine_st, Qltb.
  assert (E1 : Qle_bool (tol_st c) (Qabs (ab A)) = false).
  { apply Qle_bool_false. rewrite Hb. exact Ht. }
  assert (E2 : Qle_bool (tol_st c) (Qabs (ad A)) = false).
  { apply Qle_bool_false. rewrite Hd. exact Ht. }
  rewrite E1, E2. reflexivity.
Qed.

Lemma coordinates_labels c g : 0 < tol_st c -> axis_aligned g ->
  exists xs ys, coordinates c g = Ok (xs, ys) /\
    length xs = Z.to_nat (g_nx g) /\ length ys = Z.to_nat (g_ny g) /\
    (forall i y, (0 <= i < g_nx g)%Z ->
       nth (Z.to_nat i) xs 0 == fst (pix2wld g (Zq i + (1 # 2), y))) /\
    (forall j x, (0 <= j < g_ny g)%Z ->
       nth (Z.to_nat j) ys 0 == snd (pix2wld g (x, Zq j + (1 # 2)))).
Proof.
  intros Ht [Hb Hd]. unfold coordinates. rewrite (is_affine_st_true c _ Ht Hb Hd).
  eexists _, _; split; [reflexivity|].
  split; [rewrite map_length; apply iota_length|].
  split; [rewrite map_length; apply iota_length|].
  split.
  - intros i y Hi. rewrite map_iota_nth by assumption.
    unfold pix2wld, apply; simpl. rewrite Hb. field.
  - intros j x Hj. rewrite map_iota_nth by assumption.
    unfold pix2wld, apply; simpl. rewrite Hd. field.
Qed.

Lemma coordinates_not_aligned c g : is_affine_st c (g_A g) = false -> coordinates c g = Err EValue.
Proof. intros H. unfold coordinates. rewrite H. reflexivity. Qed.

Lemma resolution_axis_aligned c g : 0 < tol_st c -> axis_aligned g ->
  resolution c g = Ok (aa (g_A g), ae (g_A g)) /\
  (forall x y, peq (pix2wld g (x + 1, y)) (fst (pix2wld g (x, y)) + aa (g_A g), snd (pix2wld g (x, y)))) /\
  (forall x y, peq (pix2wld g (x, y + 1)) (fst (pix2wld g (x, y)), snd (pix2wld g (x, y)) + ae (g_A g))).
Proof.
  intros Ht [Hb Hd]. unfold resolution. rewrite (is_affine_st_true c _ Ht Hb Hd).
  split; [reflexivity|]. unfold pix2wld, apply, peq; simpl. split; intros x y.
  - rewrite Hd. split; ring.
  - rewrite Hb. split; ring.
Qed.

(** rotated / sheared grids, the square root as a variable: for EVERY l > 0 with
    l^2 = a^2 + d^2 the pair (l, det/l) is the length of the pixel x-step and the
    signed pixel area divided by it; for orthogonal columns its second entry is
    the (signed) length of the pixel y-step *)
Lemma resolution_root_spec A l : 0 < l -> l * l == aa A * aa A + ad A * ad A ->
  let '(rx, ry) := resolution_with_root A l in
  rx * rx == aa A * aa A + ad A * ad A /\ 0 < rx /\
  rx * ry == adet A /\
  (0 < ry <-> 0 < adet A) /\ (ry == 0 <-> adet A == 0) /\
  (aa A * ab A + ad A * ae A == 0 -> ry * ry == ab A * ab A + ae A * ae A).
Proof.
  intros Hl Hll. unfold resolution_with_root.
  assert (Hl0 : ~ l == 0) by lra.
  assert (E : l * (adet A / l) == adet A) by (field; exact Hl0).
  split; [exact Hll|]. split; [exact Hl|]. split; [exact E|].
  assert (Hil : 0 < / l) by (apply Qinv_lt_0_compat; exact Hl).
  split; [|split].
  - split; intros H.
    + rewrite <- E. apply Qmult_lt_0_compat; assumption.
    + unfold Qdiv. apply Qmult_lt_0_compat; assumption.
  - split; intros H.
    + rewrite <- E, H. ring.
    + unfold Qdiv. rewrite H. ring.
  - intros Ho.
    assert (E2 : (adet A / l) * (adet A / l) == adet A * adet A / (l * l)) by (field; exact Hl0).
    rewrite E2, Hll.
    assert (Hn : ~ aa A * aa A + ad A * ad A == 0) by (rewrite <- Hll; intros C; nra).
    assert (E3 : adet A * adet A ==
                 (aa A * aa A + ad A * ad A) * (ab A * ab A + ae A * ae A)
                 - (aa A * ab A + ad A * ae A) * (aa A * ab A + ad A * ae A))
      by (unfold adet; ring).
    rewrite E3, Ho. field. exact Hn.
Qed.

Lemma exact_sqrt_sound q l : exact_sqrt q = Some l -> l * l == q /\ 0 <= l.
Proof.
  unfold exact_sqrt.
  pose proof (Qred_correct q) as Hr.
  destruct (Qred q) as [n d] eqn:Eq. cbn [Qnum Qden].
  destruct ((Z.sqrt n * Z.sqrt n =? n)%Z && (Z.sqrt (Z.pos d) * Z.sqrt (Z.pos d) =? Z.pos d)%Z
            && (0 <=? n)%Z) eqn:E; [|discriminate].
  intros H; injection H as <-.
  apply andb_true_iff in E. destruct E as [E E3]. apply andb_true_iff in E. destruct E as [E1 E2].
  apply Z.eqb_eq in E1, E2. apply Z.leb_le in E3.
  pose proof (Z.sqrt_nonneg n) as Hn. pose proof (Z.sqrt_nonneg (Z.pos d)) as Hd.
  set (rn := Z.sqrt n) in *. set (rd := Z.sqrt (Z.pos d)) in *.
  assert (Hrd : (0 < rd)%Z) by nia.
  split.
  - rewrite <- Hr. unfold Qeq, Qmult; cbn [Qnum Qden].
    rewrite Pos2Z.inj_mul. change (Z.pos (Pos.sqrt d)) with rd. nia.
  - unfold Qle; cbn [Qnum Qden]. lia.
Qed.

Lemma resolution_rotated c g rx ry : is_affine_st c (g_A g) = false ->
  resolution c g = Ok (rx, ry) ->
  rx * rx == aa (g_A g) * aa (g_A g) + ad (g_A g) * ad (g_A g) /\ 0 < rx /\
  rx * ry == adet (g_A g) /\ (0 < ry <-> 0 < adet (g_A g)) /\
  (aa (g_A g) * ab (g_A g) + ad (g_A g) * ae (g_A g) == 0 ->
     ry * ry == ab (g_A g) * ab (g_A g) + ae (g_A g) * ae (g_A g)).
Proof.
  intros Hst. unfold resolution. rewrite Hst.
  destruct (exact_sqrt _) as [l|] eqn:Es; [|discriminate].
  destruct (Qeq_bool l 0) eqn:E0; [discriminate|].
  intros H; injection H as <- <-.
  destruct (exact_sqrt_sound _ _ Es) as [Hll Hl].
  assert (Hl0 : ~ l == 0) by (intros C; apply Qeq_bool_iff in C; congruence).
  assert (Hlp : 0 < l) by lra.
  pose proof (resolution_root_spec (g_A g) l Hlp Hll) as S.
  unfold resolution_with_root in S. tauto.
Qed.

(** * (iii) contracts of the view operations *)
Definition same_tags (g g' : geobox) : Prop :=
  g_ny g' = g_ny g /\ g_nx g' = g_nx g /\ g_crs g' = g_crs g.

Ltac zq := rewrite ?Zq_plus, ?Zq_minus, ?Zq_mult, ?Zq_opp.
Ltac unf := unfold pix2wld, translate_pix, gmul, grmul, apply, amul, atrans, ascale, peq; cbn [g_A g_ny g_nx g_crs aa ab ac ad ae af fst snd].

Lemma gmul_contract g T p :
  peq (pix2wld (gmul g T) p) (pix2wld g (apply T p)) /\ same_tags g (gmul g T).
Proof. split; [apply apply_mul | repeat split]. Qed.

Lemma grmul_contract T g p :
  peq (pix2wld (grmul T g) p) (apply T (pix2wld g p)) /\ same_tags g (grmul T g).
Proof. split; [apply apply_mul | repeat split]. Qed.

Lemma translate_pix_contract g tx ty p :
  peq (pix2wld (translate_pix g tx ty) p) (pix2wld g (fst p + tx, snd p + ty)) /\
  same_tags g (translate_pix g tx ty).
Proof. split; [unf; split; ring | repeat split]. Qed.

Lemma pad_contract g padx pady p :
  let py := fill pady padx in
  let g' := pad g padx pady in
  peq (pix2wld g' p) (pix2wld g (fst p - Zq padx, snd p - Zq py)) /\
  g_ny g' = (g_ny g + py * 2)%Z /\ g_nx g' = (g_nx g + padx * 2)%Z /\ g_crs g' = g_crs g.
Proof.
  cbv zeta. split; [|repeat split].
  unfold pad. unf. zq. split; ring.
Qed.

Lemma pad_covers g padx pady : (0 <= padx)%Z -> (0 <= fill pady padx)%Z -> covers g (pad g padx pady).
Proof.
  intros Hx Hy.
  apply covers_by_map with (f := fun p => (fst p + Zq padx, snd p + Zq (fill pady padx))).
  intros p (X0 & X1 & Y0 & Y1). apply Zq_le in Hx, Hy. change (Zq 0) with 0 in *. split.
  - unfold in_rect, pad; cbn [g_ny g_nx fst snd]. zq. change (Zq 2) with 2. repeat split; lra.
  - unfold pad. unf. zq. split; ring.
Qed.

Lemma pad_wh_contract g ax ay : (1 <= ax)%Z -> (1 <= fill ay ax)%Z ->
  let g' := pad_wh g ax ay in
  g_A g' = g_A g /\ g_crs g' = g_crs g /\
  (g_nx g <= g_nx g' < g_nx g + ax)%Z /\ (g_nx g' mod ax = 0)%Z /\
  (g_ny g <= g_ny g' < g_ny g + fill ay ax)%Z /\ (g_ny g' mod (fill ay ax) = 0)%Z /\
  covers g g'.
Proof.
  intros Hx Hy. cbv zeta. unfold pad_wh; cbn [g_A g_ny g_nx g_crs].
  destruct (align_up_spec (g_nx g) ax ltac:(lia)) as (X1 & X2 & X3).
  destruct (align_up_spec (g_ny g) (fill ay ax) ltac:(lia)) as (Y1 & Y2 & Y3).
  repeat split; try lia.
  apply covers_by_map with (f := fun p => p).
  intros p (A0 & A1 & B0 & B1). split; [|reflexivity].
  unfold in_rect; cbn [g_ny g_nx]. apply Zq_le in X2, Y2. repeat split; lra.
Qed.

Lemma crop_contract g ny nx :
  let g' := crop g ny nx in
  g_A g' = g_A g /\ g_ny g' = ny /\ g_nx g' = nx /\ g_crs g' = g_crs g /\
  (forall p, pix2wld g' p = pix2wld g p).
Proof. cbv zeta. repeat split. Qed.

Lemma flipx_contract g p :
  peq (pix2wld (flipx g) p) (pix2wld g (Zq (g_nx g) - fst p, snd p)) /\ same_tags g (flipx g).
Proof. split; [unfold flipx; unf; split; ring | repeat split]. Qed.

Lemma flipy_contract g p :
  peq (pix2wld (flipy g) p) (pix2wld g (fst p, Zq (g_ny g) - snd p)) /\ same_tags g (flipy g).
Proof. split; [unfold flipy; unf; split; ring | repeat split]. Qed.

Lemma flipx_same_footprint g : covers g (flipx g) /\ covers (flipx g) g.
Proof.
  split; apply covers_by_map with (f := fun p => (Zq (g_nx g) - fst p, snd p));
    intros p (X0 & X1 & Y0 & Y1); (split; [unfold in_rect in *; cbn [g_ny g_nx flipx gmul fst snd] in *;
      repeat split; lra | unfold flipx; unf; split; ring]).
Qed.

Lemma flipy_same_footprint g : covers g (flipy g) /\ covers (flipy g) g.
Proof.
  split; apply covers_by_map with (f := fun p => (fst p, Zq (g_ny g) - snd p));
    intros p (X0 & X1 & Y0 & Y1); (split; [unfold in_rect in *; cbn [g_ny g_nx flipy gmul fst snd] in *;
      repeat split; lra | unfold flipy; unf; split; ring]).
Qed.

Lemma flip_matrix_x n : aeq (amul (amul (atrans n 0) (ascale (-1) 1)) (amul (atrans n 0) (ascale (-1) 1))) aid.
Proof. unfold amul, atrans, ascale, aeq, aid; simpl. repeat split; ring. Qed.

Lemma flip_matrix_y n : aeq (amul (amul (atrans 0 n) (ascale 1 (-1))) (amul (atrans 0 n) (ascale 1 (-1)))) aid.
Proof. unfold amul, atrans, ascale, aeq, aid; simpl. repeat split; ring. Qed.

Lemma flipx_involutive g : aeq (g_A (flipx (flipx g))) (g_A g).
Proof.
  unfold flipx at 1. unfold gmul at 1. cbn [g_A].
  change (g_nx (flipx g)) with (g_nx g). unfold flipx, gmul; cbn [g_A].
  rewrite amul_assoc, flip_matrix_x. apply amul_id_r.
Qed.

Lemma flipy_involutive g : aeq (g_A (flipy (flipy g))) (g_A g).
Proof.
  unfold flipy at 1. unfold gmul at 1. cbn [g_A].
  change (g_ny (flipy g)) with (g_ny g). unfold flipy, gmul; cbn [g_A].
  rewrite amul_assoc, flip_matrix_y. apply amul_id_r.
Qed.

Lemma neighbours_contract g p :
  peq (pix2wld (gleft g) p) (pix2wld g (fst p - Zq (g_nx g), snd p)) /\
  peq (pix2wld (gright g) p) (pix2wld g (fst p + Zq (g_nx g), snd p)) /\
  peq (pix2wld (gtop g) p) (pix2wld g (fst p, snd p - Zq (g_ny g))) /\
  peq (pix2wld (gbottom g) p) (pix2wld g (fst p, snd p + Zq (g_ny g))) /\
  same_tags g (gleft g) /\ same_tags g (gright g) /\ same_tags g (gtop g) /\ same_tags g (gbottom g).
Proof.
  unfold gleft, gright, gtop, gbottom.
  repeat split; unf; zq; ring.
Qed.

(** the neighbours share an edge with the original and undo each other *)
Lemma neighbours_adjacent g t :
  peq (pix2wld (gleft g) (Zq (g_nx g), t)) (pix2wld g (0, t)) /\
  peq (pix2wld (gright g) (0, t)) (pix2wld g (Zq (g_nx g), t)) /\
  peq (pix2wld (gtop g) (t, Zq (g_ny g))) (pix2wld g (t, 0)) /\
  peq (pix2wld (gbottom g) (t, 0)) (pix2wld g (t, Zq (g_ny g))) /\
  aeq (g_A (gright (gleft g))) (g_A g) /\ aeq (g_A (gbottom (gtop g))) (g_A g).
Proof.
  unfold gleft, gright, gtop, gbottom.
  repeat split; unf; unfold aeq; cbn [aa ab ac ad ae af]; zq; try ring.
  all: repeat split; ring.
Qed.

(** rotation about the centre *)
Lemma rotate_contract g c s p :
  let C := center_world g in
  let g' := rotate g c s in
  peq (pix2wld g' p)
      (fst C + (c * (fst (pix2wld g p) - fst C) - s * (snd (pix2wld g p) - snd C)),
       snd C + (s * (fst (pix2wld g p) - fst C) + c * (snd (pix2wld g p) - snd C))) /\
  peq (pix2wld g' (Zq (g_nx g) * (1 # 2), Zq (g_ny g) * (1 # 2))) C /\
  same_tags g g' /\
  adet (g_A g') == (c * c + s * s) * adet (g_A g).
Proof.
  cbv zeta. unfold rotate. split; [|split; [|split]].
  - destruct (grmul_contract (arot_about c s (center_world g)) g p) as [H _].
    rewrite H. apply arot_about_disp.
  - destruct (grmul_contract (arot_about c s (center_world g)) g
                (Zq (g_nx g) * (1 # 2), Zq (g_ny g) * (1 # 2))) as [H _].
    rewrite H. apply arot_about_fix.
  - repeat split.
  - unfold grmul; cbn [g_A]. rewrite adet_mul, adet_rot_about. reflexivity.
Qed.

(** for a genuine rotation (c^2 + s^2 = 1) distances between pixel locations are preserved *)
Definition dist2 (u v : pt) : Q := (fst u - fst v) * (fst u - fst v) + (snd u - snd v) * (snd u - snd v).

Lemma rotate_isometry g c s p q : c * c + s * s == 1 ->
  dist2 (pix2wld (rotate g c s) p) (pix2wld (rotate g c s) q) == dist2 (pix2wld g p) (pix2wld g q).
Proof.
  intros H.
  destruct (rotate_contract g c s p) as ([P1 P2] & _).
  destruct (rotate_contract g c s q) as ([Q1 Q2] & _).
  unfold dist2. rewrite P1, P2, Q1, Q2. cbn [fst snd].
  set (x1 := fst (pix2wld g p)). set (y1 := snd (pix2wld g p)).
  set (x2 := fst (pix2wld g q)). set (y2 := snd (pix2wld g q)).
  set (cx := fst (center_world g)). set (cy := snd (center_world g)).
  transitivity ((c * c + s * s) * ((x1 - x2) * (x1 - x2) + (y1 - y2) * (y1 - y2))); [ring|].
  rewrite H. ring.
Qed.

(** * Indexing *)
Lemma getitem_int_is_tuple g i : getitem g (RInt i) = getitem g (RTup [SInt i; full_slice]).
Proof. reflexivity. Qed.

Lemma getitem_slice_is_tuple g a b st : getitem g (ROne a b st) = getitem g (RTup [SSl a b st; full_slice]).
Proof. reflexivity. Qed.

Lemma getitem_tup_contract g sy sx g' : getitem g (RTup [sy; sx]) = Ok g' ->
  let '(y0, y1, _) := norm_bounds sy (g_ny g) in
  let '(x0, x1, _) := norm_bounds sx (g_nx g) in
  g_ny g' = (y1 - y0)%Z /\ g_nx g' = (x1 - x0)%Z /\ g_crs g' = g_crs g /\
  forall p, peq (pix2wld g' p) (pix2wld g (fst p + Zq x0, snd p + Zq y0)).
Proof.
  unfold getitem, compute_crop. cbn [length Z.of_nat zip_norm].
  change (2 <? Z.of_nat 2)%Z with false. cbv iota.
  destruct (norm_bounds sy (g_ny g)) as [[y0 y1] sty].
  destruct (norm_bounds sx (g_nx g)) as [[x0 x1] stx].
  cbn [forallb snd].
  destruct (negb (step_supported sty && (step_supported stx && true))); [discriminate|].
  cbn [bind]. intros H; injection H as <-. cbn [g_ny g_nx g_crs g_A].
  split; [reflexivity|]. split; [reflexivity|]. split; [reflexivity|].
  intros p. unf. split; ring.
Qed.

Lemma getitem_tup_ok g sy sx :
  let '(_, _, sty) := norm_bounds sy (g_ny g) in
  let '(_, _, stx) := norm_bounds sx (g_nx g) in
  step_supported sty = true -> step_supported stx = true ->
  exists g', getitem g (RTup [sy; sx]) = Ok g'.
Proof.
  unfold getitem, compute_crop. cbn [length Z.of_nat zip_norm].
  change (2 <? Z.of_nat 2)%Z with false. cbv iota.
  destruct (norm_bounds sy (g_ny g)) as [[y0 y1] sty].
  destruct (norm_bounds sx (g_nx g)) as [[x0 x1] stx].
  intros H1 H2. cbn [forallb snd]. rewrite H1, H2. cbn [andb negb bind]. eexists; reflexivity.
Qed.

Lemma getitem_bad_rank g l : (2 < Z.of_nat (length l))%Z -> getitem g (RTup l) = Err EValue.
Proof.
  intros H. unfold getitem, compute_crop.
  destruct (2 <? Z.of_nat (length l))%Z eqn:E; [reflexivity | apply Z.ltb_ge in E; lia].
Qed.

Lemma norm_bounds_int i n : (- n <= i < n)%Z ->
  norm_bounds (SInt i) n = ((i mod n)%Z, (i mod n + 1)%Z, None).
Proof.
  intros H. unfold norm_bounds, norm_slice.
  assert (E : (if (i <? 0)%Z then (n + i)%Z else i) = (i mod n)%Z).
  { destruct (i <? 0)%Z eqn:E.
    - apply Z.ltb_lt in E. apply Z.mod_unique with (q := (-1)%Z); lia.
    - apply Z.ltb_ge in E. symmetry. apply Z.mod_small. lia. }
  rewrite E. reflexivity.
Qed.

Lemma norm_bounds_full n : (0 <= n)%Z -> norm_bounds full_slice n = (0%Z, n, None).
Proof.
  intros H. unfold norm_bounds, full_slice, norm_slice, wrap_neg, fill.
  destruct (n >=? 0)%Z eqn:E; [reflexivity | lia].
Qed.

Lemma getitem_int_contract g i : (0 <= g_nx g)%Z -> (- g_ny g <= i < g_ny g)%Z ->
  exists g', getitem g (RInt i) = Ok g' /\
    g_ny g' = 1%Z /\ g_nx g' = g_nx g /\ g_crs g' = g_crs g /\
    forall p, peq (pix2wld g' p) (pix2wld g (fst p, snd p + Zq (i mod g_ny g))).
Proof.
  intros Hx Hi. rewrite getitem_int_is_tuple.
  pose proof (getitem_tup_ok g (SInt i) full_slice) as Hok.
  rewrite (norm_bounds_int i (g_ny g) Hi), (norm_bounds_full _ Hx) in Hok.
  destruct (Hok eq_refl eq_refl) as [g' Hg]. exists g'. split; [exact Hg|].
  pose proof (getitem_tup_contract g _ _ g' Hg) as C.
  rewrite (norm_bounds_int i (g_ny g) Hi), (norm_bounds_full _ Hx) in C.
  destruct C as (C1 & C2 & C3 & C4).
  split; [lia|]. split; [lia|]. split; [exact C3|].
  intros p. destruct (C4 p) as [E1 E2].
  split; [rewrite E1 | rewrite E2]; unfold pix2wld, apply; cbn [fst snd];
    change (Zq 0) with 0; ring.
Qed.

(** link with array indexing (C17): what the normalised bounds select from an axis *)
Lemma stride_one {A} (l : list A) : stride (Some 1%Z) l = l.
Proof.
  unfold stride. change (Z.to_nat 1) with 1%nat.
  induction l as [|x xs IH]; [reflexivity|]. cbn. f_equal. exact IH.
Qed.

Lemma norm_bounds_selection {A} (X : list A) a b st : step_supported st = true ->
  let '(s, e, _) := norm_bounds (SSl a b st) (len X) in
  (0 <= s)%Z /\ (0 <= e)%Z /\ np_get X (SSl a b st) = Some (sel X s e) /\
  ((s <= e)%Z -> (e <= len X)%Z -> len (sel X s e) = (e - s)%Z).
Proof.
  intros Hst. pose proof (len_nonneg X) as Hn.
  assert (Hok : step_ok st).
  { destruct st as [k|]; simpl in *; [apply Z.eqb_eq in Hst; lia | exact I]. }
  pose proof (norm_slice_same_selection X a b st Hok) as Hsel.
  unfold norm_bounds. unfold norm_slice in *.
  set (s := wrap_neg (len X) (fill a 0)) in *. set (e := wrap_neg (len X) (fill b (len X))) in *.
  assert (Hs : (0 <= s)%Z) by (unfold s, wrap_neg; destruct (fill a 0 >=? 0)%Z eqn:E; lia).
  assert (He : (0 <= e)%Z) by (unfold e, wrap_neg; destruct (fill b (len X) >=? 0)%Z eqn:E; lia).
  split; [exact Hs|]. split; [exact He|]. split.
  - rewrite <- Hsel. unfold np_get, py_clamp.
    destruct (s <? 0)%Z eqn:E1; [lia|]. destruct (e <? 0)%Z eqn:E2; [lia|].
    rewrite <- sel_clamp by assumption.
    destruct st as [k|]; [|reflexivity].
    simpl in Hst. apply Z.eqb_eq in Hst. subst k. rewrite stride_one. reflexivity.
  - intros H1 H2. rewrite len_sel by assumption. lia.
Qed.

Lemma norm_bounds_int_selection {A} (X : list A) i : (- len X <= i < len X)%Z ->
  np_get X (SInt i) = Some (sel X (i mod len X) (i mod len X + 1)) /\
  len (sel X (i mod len X) (i mod len X + 1)) = 1%Z.
Proof.
  intros H. pose proof (Z.mod_pos_bound i (len X) ltac:(lia)) as Hm.
  split.
  - unfold np_get.
    destruct ((- len X <=? i)%Z && (i <? len X)%Z) eqn:E.
    + f_equal. f_equal.
      * destruct (i <? 0)%Z eqn:E2.
        -- apply Z.ltb_lt in E2. apply Z.mod_unique with (q := (-1)%Z); lia.
        -- apply Z.ltb_ge in E2. symmetry. apply Z.mod_small. lia.
      * destruct (i <? 0)%Z eqn:E2.
        -- apply Z.ltb_lt in E2. f_equal. apply Z.mod_unique with (q := (-1)%Z); lia.
        -- apply Z.ltb_ge in E2. f_equal. symmetry. apply Z.mod_small. lia.
    + apply andb_false_iff in E. destruct E as [E | E]; [apply Z.leb_gt in E | apply Z.ltb_ge in E]; lia.
  - rewrite len_sel by lia. lia.
Qed.

(** the behaviour before the F18 repair, kept as a refuted statement: an int index
    [i] was turned into [slice(i, i+1)] *)
Definition getitem_int_before_fix (g : geobox) (i : Z) : res geobox :=
  getitem g (RTup [SSl (Some i) (Some (i + 1)%Z) None; full_slice]).

Lemma F18_before_fix_refuted :
  exists g i g', (- g_ny g <= i < g_ny g)%Z /\ getitem_int_before_fix g i = Ok g' /\ (g_ny g' < 0)%Z.
Proof.
  exists (mkG 10 20 (mkA 1 0 0 0 (-1) 0) 0), (-1)%Z.
  eexists. split; [simpl; lia|]. split; [vm_compute; reflexivity|]. simpl. lia.
Qed.

(** centre pixel *)
Lemma center_pixel_contract g : (1 <= g_ny g)%Z -> (1 <= g_nx g)%Z ->
  exists g', center_pixel g = Ok g' /\
    g_ny g' = 1%Z /\ g_nx g' = 1%Z /\ g_crs g' = g_crs g /\
    (forall p, peq (pix2wld g' p) (pix2wld g (fst p + Zq (g_nx g / 2), snd p + Zq (g_ny g / 2)))) /\
    Zq (g_nx g / 2) <= Zq (g_nx g) * (1 # 2) <= Zq (g_nx g / 2) + 1 /\
    Zq (g_ny g / 2) <= Zq (g_ny g) * (1 # 2) <= Zq (g_ny g / 2) + 1.
Proof.
  intros Hy Hx. unfold center_pixel.
  assert (Hiy : (- g_ny g <= g_ny g / 2 < g_ny g)%Z) by (pose proof (Z.div_mod (g_ny g) 2 ltac:(lia)); pose proof (Z.mod_pos_bound (g_ny g) 2 ltac:(lia)); lia).
  assert (Hix : (- g_nx g <= g_nx g / 2 < g_nx g)%Z) by (pose proof (Z.div_mod (g_nx g) 2 ltac:(lia)); pose proof (Z.mod_pos_bound (g_nx g) 2 ltac:(lia)); lia).
  assert (My : ((g_ny g / 2) mod g_ny g = g_ny g / 2)%Z) by (apply Z.mod_small; lia).
  assert (Mx : ((g_nx g / 2) mod g_nx g = g_nx g / 2)%Z) by (apply Z.mod_small; lia).
  pose proof (getitem_tup_ok g (SInt (g_ny g / 2)) (SInt (g_nx g / 2))) as Hok.
  rewrite (norm_bounds_int _ _ Hiy), (norm_bounds_int _ _ Hix) in Hok.
  destruct (Hok eq_refl eq_refl) as [g' Hg]. exists g'. split; [exact Hg|].
  pose proof (getitem_tup_contract g _ _ g' Hg) as C.
  rewrite (norm_bounds_int _ _ Hiy), (norm_bounds_int _ _ Hix), My, Mx in C.
  destruct C as (C1 & C2 & C3 & C4).
  split; [lia|]. split; [lia|]. split; [exact C3|]. split; [exact C4|].
  pose proof (Z.div_mod (g_ny g) 2 ltac:(lia)) as Dy. pose proof (Z.mod_pos_bound (g_ny g) 2 ltac:(lia)) as By.
  pose proof (Z.div_mod (g_nx g) 2 ltac:(lia)) as Dx. pose proof (Z.mod_pos_bound (g_nx g) 2 ltac:(lia)) as Bx.
  assert (Ey : Zq (g_ny g) == 2 * Zq (g_ny g / 2) + Zq (g_ny g mod 2)).
  { rewrite Dy at 1. rewrite Zq_plus, Zq_mult. reflexivity. }
  assert (Ex : Zq (g_nx g) == 2 * Zq (g_nx g / 2) + Zq (g_nx g mod 2)).
  { rewrite Dx at 1. rewrite Zq_plus, Zq_mult. reflexivity. }
  assert (Ry : 0 <= Zq (g_ny g mod 2) <= 1).
  { split; [change 0 with (Zq 0) | change 1 with (Zq 1)]; apply Zq_le1; lia. }
  assert (Rx : 0 <= Zq (g_nx g mod 2) <= 1).
  { split; [change 0 with (Zq 0) | change 1 with (Zq 1)]; apply Zq_le1; lia. }
  repeat split; lra.
Qed.

(** * Zooming *)
Lemma Qeq_bool_false_pos x : 0 < x -> Qeq_bool x 0 = false.
Proof.
  intros H. destruct (Qeq_bool x 0) eqn:E; [|reflexivity]. apply Qeq_bool_iff in E. lra.
Qed.

Lemma Qeq_bool_false_nz x : ~ x == 0 -> Qeq_bool x 0 = false.
Proof.
  intros H. destruct (Qeq_bool x 0) eqn:E; [|reflexivity]. apply Qeq_bool_iff in E. tauto.
Qed.

Lemma div_le_div x n f : 0 < f -> x <= n -> x / f <= n / f.
Proof.
  intros Hf H. unfold Qdiv. apply Qmult_le_compat_r; [exact H|].
  apply Qlt_le_weak, Qinv_lt_0_compat, Hf.
Qed.

Lemma div_nonneg x f : 0 < f -> 0 <= x -> 0 <= x / f.
Proof. intros Hf H. apply Qle_shift_div_l; [exact Hf | lra]. Qed.

Lemma zoom_dim_spec n f : 0 < f ->
  (1 <= zoom_dim n f)%Z /\ Zq n / f <= Zq (zoom_dim n f) /\
  (Zq (zoom_dim n f) < Zq n / f + 1 \/ zoom_dim n f = 1%Z).
Proof.
  intros Hf. unfold zoom_dim.
  destruct (Qceiling_spec (Zq n / f)) as (c & Ec & H1 & H2).
  set (z := Qceiling (Zq n / f)) in *.
  assert (Ez : Zq z == c) by (rewrite Ec; reflexivity).
  destruct (Z.max_spec 1 z) as [[Hlt ->] | [Hle ->]].
  - split; [lia|]. rewrite Ez. split; [exact H2 | left; lra].
  - split; [lia|]. split; [|right; reflexivity].
    apply Zq_le in Hle. rewrite Ez in Hle. change (Zq 1) with 1 in *. lra.
Qed.

Lemma zoom_out_contract g f : 0 < f ->
  exists g', zoom_out g f = Ok g' /\
    g_ny g' = zoom_dim (g_ny g) f /\ g_nx g' = zoom_dim (g_nx g) f /\ g_crs g' = g_crs g /\
    (forall p, peq (pix2wld g' p) (pix2wld g (f * fst p, f * snd p))) /\
    covers g g'.
Proof.
  intros Hf. unfold zoom_out. rewrite (Qeq_bool_false_pos f Hf).
  eexists; split; [reflexivity|]. cbn [g_ny g_nx g_crs].
  split; [reflexivity|]. split; [reflexivity|]. split; [reflexivity|]. split.
  - intros p. unf. split; ring.
  - apply covers_by_map with (f := fun p => (fst p / f, snd p / f)).
    intros p (X0 & X1 & Y0 & Y1).
    destruct (zoom_dim_spec (g_nx g) f Hf) as (_ & Dx & _).
    destruct (zoom_dim_spec (g_ny g) f Hf) as (_ & Dy & _).
    split.
    + unfold in_rect; cbn [g_ny g_nx fst snd].
      pose proof (div_le_div _ _ f Hf X1). pose proof (div_le_div _ _ f Hf Y1).
      pose proof (div_nonneg _ f Hf X0). pose proof (div_nonneg _ f Hf Y0).
      repeat split; lra.
    + unf. split; field; lra.
Qed.

Lemma zoom_to_shape_contract g ny nx : (1 <= ny)%Z -> (1 <= nx)%Z ->
  exists g', zoom_to_shape g ny nx = Ok g' /\
    g_ny g' = ny /\ g_nx g' = nx /\ g_crs g' = g_crs g /\
    (forall p, peq (pix2wld g' p)
                   (pix2wld g (fst p * (Zq (g_nx g) / Zq nx), snd p * (Zq (g_ny g) / Zq ny)))) /\
    peq (pix2wld g' (Zq nx, Zq ny)) (pix2wld g (Zq (g_nx g), Zq (g_ny g))) /\
    ((0 <= g_ny g)%Z -> (0 <= g_nx g)%Z -> covers g' g) /\
    ((1 <= g_ny g)%Z -> (1 <= g_nx g)%Z -> covers g g').
Proof.
  intros Hy Hx. unfold zoom_to_shape.
  destruct (ny =? 0)%Z eqn:E1; [apply Z.eqb_eq in E1; lia|].
  destruct (nx =? 0)%Z eqn:E2; [apply Z.eqb_eq in E2; lia|].
  cbn [orb]. eexists; split; [reflexivity|]. cbn [g_ny g_nx g_crs].
  apply Zq_le in Hy, Hx. change (Zq 1) with 1 in *.
  split; [reflexivity|]. split; [reflexivity|]. split; [reflexivity|].
  split; [|split; [|split]].
  - intros p. unf. split; ring.
  - unf. split; field; lra.
  - intros Gy Gx. apply Zq_le in Gy, Gx. change (Zq 0) with 0 in *.
    apply covers_by_map with (f := fun p => (fst p * (Zq (g_nx g) / Zq nx), snd p * (Zq (g_ny g) / Zq ny))).
    intros p (X0 & X1 & Y0 & Y1). cbn [g_ny g_nx] in *. split.
    + unfold in_rect; cbn [fst snd].
      assert (Ux0 : 0 <= fst p / Zq nx) by (apply div_nonneg; lra).
      assert (Ux1 : fst p / Zq nx <= 1) by (apply Qle_shift_div_r; lra).
      assert (Uy0 : 0 <= snd p / Zq ny) by (apply div_nonneg; lra).
      assert (Uy1 : snd p / Zq ny <= 1) by (apply Qle_shift_div_r; lra).
      assert (Ex : fst p * (Zq (g_nx g) / Zq nx) == (fst p / Zq nx) * Zq (g_nx g)) by (field; lra).
      assert (Ey : snd p * (Zq (g_ny g) / Zq ny) == (snd p / Zq ny) * Zq (g_ny g)) by (field; lra).
      rewrite Ex, Ey.
      assert (0 <= (fst p / Zq nx) * Zq (g_nx g)) by (apply Qmult_le_0_compat; lra).
      assert (0 <= (1 - fst p / Zq nx) * Zq (g_nx g)) by (apply Qmult_le_0_compat; lra).
      assert (0 <= (snd p / Zq ny) * Zq (g_ny g)) by (apply Qmult_le_0_compat; lra).
      assert (0 <= (1 - snd p / Zq ny) * Zq (g_ny g)) by (apply Qmult_le_0_compat; lra).
      repeat split; lra.
    + unf. split; ring.
  - intros Gy Gx. apply Zq_le in Gy, Gx. change (Zq 1) with 1 in *.
    apply covers_by_map with (f := fun p => (fst p / Zq (g_nx g) * Zq nx, snd p / Zq (g_ny g) * Zq ny)).
    intros p (X0 & X1 & Y0 & Y1). split.
    + unfold in_rect; cbn [g_ny g_nx fst snd].
      assert (Ux0 : 0 <= fst p / Zq (g_nx g)) by (apply div_nonneg; lra).
      assert (Ux1 : fst p / Zq (g_nx g) <= 1) by (apply Qle_shift_div_r; lra).
      assert (Uy0 : 0 <= snd p / Zq (g_ny g)) by (apply div_nonneg; lra).
      assert (Uy1 : snd p / Zq (g_ny g) <= 1) by (apply Qle_shift_div_r; lra).
      assert (0 <= (fst p / Zq (g_nx g)) * Zq nx) by (apply Qmult_le_0_compat; lra).
      assert (0 <= (1 - fst p / Zq (g_nx g)) * Zq nx) by (apply Qmult_le_0_compat; lra).
      assert (0 <= (snd p / Zq (g_ny g)) * Zq ny) by (apply Qmult_le_0_compat; lra).
      assert (0 <= (1 - snd p / Zq (g_ny g)) * Zq ny) by (apply Qmult_le_0_compat; lra).
      repeat split; lra.
    + unf. split; field; lra.
Qed.

Lemma zoom_to_n_contract g k : (1 <= k)%Z -> (1 <= Z.max (g_ny g) (g_nx g))%Z ->
  let f := Zq (Z.max (g_ny g) (g_nx g)) / Zq k in
  0 < f /\ zoom_to_n g (Zq k) = zoom_out g f /\
  exists g', zoom_to_n g (Zq k) = Ok g' /\ Z.max (g_ny g') (g_nx g') = k.
Proof.
  intros Hk Hm. cbv zeta.
  set (m := Z.max (g_ny g) (g_nx g)) in *.
  assert (Hk' : 1 <= Zq k) by (change 1 with (Zq 1); apply Zq_le1; exact Hk).
  assert (Hm' : 1 <= Zq m) by (change 1 with (Zq 1); apply Zq_le1; exact Hm).
  assert (Hf : 0 < Zq m / Zq k) by (apply Qlt_shift_div_l; lra).
  split; [exact Hf|].
  assert (E : zoom_to_n g (Zq k) = zoom_out g (Zq m / Zq k)).
  { unfold zoom_to_n. rewrite Qeq_bool_false_pos by lra. reflexivity. }
  split; [exact E|].
  destruct (zoom_out_contract g _ Hf) as (g' & Hg & Sy & Sx & _).
  exists g'. split; [rewrite E; exact Hg|]. rewrite Sy, Sx.
  assert (Dm : zoom_dim m (Zq m / Zq k) = k).
  { unfold zoom_dim.
    assert (Eq : Zq m / (Zq m / Zq k) == Zq k) by (field; split; lra).
    rewrite Eq. unfold Zq. rewrite Qceiling_Z. lia. }
  assert (Mono : forall n, (n <= m)%Z -> (zoom_dim n (Zq m / Zq k) <= k)%Z).
  { intros n Hn. apply Z.le_trans with (zoom_dim m (Zq m / Zq k)); [|lia]. unfold zoom_dim.
    apply Z.max_le_compat_l. apply Qceiling_resp_le. apply div_le_div; [exact Hf|].
    apply Zq_le1; exact Hn. }
  pose proof (Mono (g_ny g) ltac:(unfold m; lia)) as My.
  pose proof (Mono (g_nx g) ltac:(unfold m; lia)) as Mx.
  destruct (Z.max_spec (g_ny g) (g_nx g)) as [[Hc Em] | [Hc Em]]; fold m in Em.
  - assert (Hx : zoom_dim (g_nx g) (Zq m / Zq k) = zoom_dim m (Zq m / Zq k)) by (f_equal; lia). lia.
  - assert (Hy : zoom_dim (g_ny g) (Zq m / Zq k) = zoom_dim m (Zq m / Zq k)) by (f_equal; lia). lia.
Qed.

(** scaled_down_geobox *)
Lemma scaled_dim_spec n s : (1 < s)%Z -> (0 <= n)%Z ->
  (n <= s * scaled_dim n s < n + s)%Z /\ (0 <= scaled_dim n s)%Z.
Proof.
  intros Hs Hn. unfold scaled_dim.
  pose proof (Z.div_mod n s ltac:(lia)) as D. pose proof (Z.mod_pos_bound n s ltac:(lia)) as B.
  assert (Q0 : (0 <= n / s)%Z) by (apply Z.div_pos; lia).
  destruct (n mod s =? 0)%Z eqn:E; [apply Z.eqb_eq in E | apply Z.eqb_neq in E]; nia.
Qed.

Lemma scaled_down_contract g s : (1 < s)%Z ->
  exists g', scaled_down_geobox g s = Ok g' /\
    g_ny g' = scaled_dim (g_ny g) s /\ g_nx g' = scaled_dim (g_nx g) s /\ g_crs g' = g_crs g /\
    (forall p, peq (pix2wld g' p) (pix2wld g (Zq s * fst p, Zq s * snd p))) /\
    ((0 <= g_ny g)%Z -> (0 <= g_nx g)%Z -> covers g g').
Proof.
  intros Hs. unfold scaled_down_geobox.
  destruct (s >? 1)%Z eqn:E; [|rewrite Z.gtb_ltb in E; apply Z.ltb_ge in E; lia].
  eexists; split; [reflexivity|]. cbn [g_ny g_nx g_crs].
  split; [reflexivity|]. split; [reflexivity|]. split; [reflexivity|]. split.
  - intros p. unf. split; ring.
  - intros Gy Gx.
    destruct (scaled_dim_spec (g_ny g) s Hs Gy) as ([Y1 _] & _).
    destruct (scaled_dim_spec (g_nx g) s Hs Gx) as ([X1 _] & _).
    apply Zq_le in Y1, X1. rewrite Zq_mult in Y1, X1.
    assert (Hs' : 1 < Zq s) by (change 1 with (Zq 1); apply Zq_lt1; exact Hs).
    apply covers_by_map with (f := fun p => (fst p / Zq s, snd p / Zq s)).
    intros p (A0 & A1 & B0 & B1). split.
    + unfold in_rect; cbn [g_ny g_nx fst snd].
      assert (0 < Zq s) by lra.
      split; [apply div_nonneg; assumption|]. split; [apply Qle_shift_div_r; lra|].
      split; [apply div_nonneg; assumption|]. apply Qle_shift_div_r; lra.
    + unf. split; field; lra.
Qed.

(** * Buffering *)
Lemma Qabs_pos r : ~ r == 0 -> 0 < Qabs r.
Proof. intros H. apply Qabs_case; intros; lra. Qed.

Lemma round_to_res_spec c v r : ~ r == 0 ->
  let b := round_to_res c v r in
  v - tenth c * Qabs r <= Zq b * Qabs r /\ (Zq b - 1) * Qabs r < v - tenth c * Qabs r.
Proof.
  intros Hr. cbv zeta. unfold round_to_res.
  pose proof (Qabs_pos r Hr) as HR. set (R := Qabs r) in *.
  destruct (Qceiling_spec ((v - tenth c * R) / R)) as (k & Ek & H1 & H2).
  unfold Zq. rewrite <- Ek.
  assert (E : (v - tenth c * R) / R * R == v - tenth c * R) by (field; lra).
  assert (G1 : 0 <= (k - (v - tenth c * R) / R) * R) by (apply Qmult_le_0_compat; lra).
  assert (G2 : 0 < ((v - tenth c * R) / R - (k - 1)) * R) by (apply Qmult_lt_0_compat; lra).
  split; lra.
Qed.

Lemma round_to_res_nonneg c v r : ~ r == 0 -> 0 <= v -> tenth c < 1 -> (0 <= round_to_res c v r)%Z.
Proof.
  intros Hr Hv Ht.
  destruct (round_to_res_spec c v r Hr) as [H1 _].
  pose proof (Qabs_pos r Hr) as HR. set (R := Qabs r) in *.
  set (b := round_to_res c v r) in *.
  destruct (Z_lt_le_dec b 0) as [Hneg | Hok]; [|exact Hok]. exfalso.
  assert (Hb : Zq b <= -1) by (change (-1) with (Zq (-1)); apply Zq_le1; lia).
  assert (G : 0 <= (-1 - Zq b) * R) by (apply Qmult_le_0_compat; lra).
  assert (G2 : 0 < (1 - tenth c) * R) by (apply Qmult_lt_0_compat; lra).
  lra.
Qed.

Local Opaque Z.mul.
Lemma buffered_contract c g xb yb g' : buffered c g xb yb = Ok g' ->
  let ybv := match yb with None => xb | Some v => v end in
  exists rx ry, resolution c g = Ok (rx, ry) /\ ~ rx == 0 /\ ~ ry == 0 /\
    let bx := round_to_res c xb rx in
    let by_ := round_to_res c ybv ry in
    g_ny g' = (g_ny g + 2 * by_)%Z /\ g_nx g' = (g_nx g + 2 * bx)%Z /\ g_crs g' = g_crs g /\
    (forall p, peq (pix2wld g' p) (pix2wld g (fst p - Zq bx, snd p - Zq by_))) /\
    xb - tenth c * Qabs rx <= Zq bx * Qabs rx /\ (Zq bx - 1) * Qabs rx < xb - tenth c * Qabs rx /\
    ybv - tenth c * Qabs ry <= Zq by_ * Qabs ry /\ (Zq by_ - 1) * Qabs ry < ybv - tenth c * Qabs ry /\
    (0 <= xb -> 0 <= ybv -> tenth c < 1 -> covers g g').
Proof.
  unfold buffered. cbv zeta.
  destruct (resolution c g) as [[rx ry]|e] eqn:Er; [|discriminate]. cbn [bind].
  destruct (Qeq_bool rx 0) eqn:E1; [discriminate|].
  destruct (Qeq_bool ry 0) eqn:E2; [discriminate|]. cbn [orb].
  intros H; injection H as <-.
  assert (Hrx : ~ rx == 0) by (intros C; apply Qeq_bool_iff in C; congruence).
  assert (Hry : ~ ry == 0) by (intros C; apply Qeq_bool_iff in C; congruence).
  exists rx, ry. split; [reflexivity|]. split; [exact Hrx|]. split; [exact Hry|].
  cbn [g_ny g_nx g_crs].
  set (ybv := match yb with None => xb | Some v => v end).
  destruct (round_to_res_spec c xb rx Hrx) as [X1 X2].
  destruct (round_to_res_spec c ybv ry Hry) as [Y1 Y2].
  split; [reflexivity|]. split; [reflexivity|]. split; [reflexivity|].
  split; [intros p; unf; zq; split; ring|].
  split; [exact X1|]. split; [exact X2|]. split; [exact Y1|]. split; [exact Y2|].
  intros Hxb Hyb Ht.
  pose proof (round_to_res_nonneg c xb rx Hrx Hxb Ht) as Bx.
  pose proof (round_to_res_nonneg c ybv ry Hry Hyb Ht) as By.
  apply Zq_le in Bx, By. change (Zq 0) with 0 in *.
  apply covers_by_map with
    (f := fun p => (fst p + Zq (round_to_res c xb rx), snd p + Zq (round_to_res c ybv ry))).
  intros p (A0 & A1 & B0 & B1). split.
  - unfold in_rect; cbn [g_ny g_nx fst snd]. zq. change (Zq 2) with 2. repeat split; lra.
  - unf. zq. split; ring.
Qed.
Local Transparent Z.mul.

(** * zoom_to(resolution=...): tight snapping of the bounding box *)
Lemma split_float_sum x : fst (split_float x) + snd (split_float x) == x.
Proof.
  unfold split_float.
  destruct (Qltb (1 # 2) (x - Zq (Qtrunc x))); [cbn [fst snd]; ring|].
  destruct (Qltb (x - Zq (Qtrunc x)) (- (1 # 2))); cbn [fst snd]; ring.
Qed.

Lemma Qltb_true x y : Qltb x y = true -> x < y.
Proof.
  unfold Qltb. intros H. apply negb_true_iff in H. apply Qle_bool_false in H. exact H.
Qed.

Lemma maybe_int_ge x tol : 0 <= tol -> x - tol <= maybe_int x tol.
Proof.
  intros Ht. unfold maybe_int. pose proof (split_float_sum x) as S.
  destruct (split_float x) as [w p]. cbn [fst snd] in S.
  destruct (Qltb (Qabs p) tol) eqn:E.
  - apply Qltb_true in E. pose proof (Qle_Qabs p). lra.
  - lra.
Qed.

Lemma snap_tight_spec x0 x1 r tol off n : 0 <= tol -> snap_tight x0 x1 r tol = Ok (off, n) ->
  ~ r == 0 /\ (1 <= n)%Z /\
  (0 < r -> off = x0 /\ x1 - tol * r <= off + Zq n * r) /\
  (r < 0 -> off = x1 /\ off + Zq n * r <= x0 + tol * (- r)).
Proof.
  intros Ht. unfold snap_tight.
  destruct (Qltb 0 r) eqn:E1.
  - apply Qltb_true in E1. intros H; injection H as <- <-.
    split; [lra|]. split; [lia|]. split; [|intros; lra]. intros _. split; [reflexivity|].
    set (m := maybe_int ((x1 - x0) / r) tol).
    pose proof (maybe_int_ge ((x1 - x0) / r) tol Ht) as Hm. fold m in Hm.
    pose proof (Qle_ceiling m) as Hc.
    assert (Hz : Zq (Qceiling m) <= Zq (Z.max 1 (Qceiling m))) by (apply Zq_le1; lia).
    unfold Zq in Hz at 1.
    assert (E : (x1 - x0) / r * r == x1 - x0) by (field; lra).
    assert (G : 0 <= (Zq (Z.max 1 (Qceiling m)) - ((x1 - x0) / r - tol)) * r)
      by (apply Qmult_le_0_compat; lra).
    lra.
  - unfold Qltb in E1. apply negb_false_iff, Qle_bool_iff in E1.
    destruct (Qeq_bool r 0) eqn:E2; [discriminate|].
    assert (Hr : ~ r == 0) by (intros C; apply Qeq_bool_iff in C; congruence).
    intros H; injection H as <- <-.
    split; [exact Hr|]. split; [lia|]. split; [intros; lra|]. intros Hneg. split; [reflexivity|].
    set (m := maybe_int ((x1 - x0) / - r) tol).
    pose proof (maybe_int_ge ((x1 - x0) / - r) tol Ht) as Hm. fold m in Hm.
    pose proof (Qle_ceiling m) as Hc.
    assert (Hz : Zq (Qceiling m) <= Zq (Z.max (Qceiling m) 1)) by (apply Zq_le1; lia).
    unfold Zq in Hz at 1.
    assert (E : (x1 - x0) / - r * - r == x1 - x0) by (field; lra).
    assert (G : 0 <= (Zq (Z.max (Qceiling m) 1) - ((x1 - x0) / - r - tol)) * - r)
      by (apply Qmult_le_0_compat; lra).
    lra.
Qed.

Lemma zoom_to_res_contract c g rx ry g' l b r t :
  0 <= tol_snap c -> boundingbox g = (l, b, r, t) -> zoom_to_res c g rx ry = Ok g' ->
  g_crs g' = g_crs g /\ (1 <= g_nx g')%Z /\ (1 <= g_ny g')%Z /\
  aa (g_A g') == rx /\ ab (g_A g') == 0 /\ ad (g_A g') == 0 /\ ae (g_A g') == ry /\
  ~ rx == 0 /\ ~ ry == 0 /\
  (forall y, (0 < rx -> fst (pix2wld g' (0, y)) == l /\
                         r - tol_snap c * rx <= fst (pix2wld g' (Zq (g_nx g'), y))) /\
             (rx < 0 -> fst (pix2wld g' (0, y)) == r /\
                         fst (pix2wld g' (Zq (g_nx g'), y)) <= l + tol_snap c * (- rx))) /\
  (forall x, (0 < ry -> snd (pix2wld g' (x, 0)) == b /\
                         t - tol_snap c * ry <= snd (pix2wld g' (x, Zq (g_ny g')))) /\
             (ry < 0 -> snd (pix2wld g' (x, 0)) == t /\
                         snd (pix2wld g' (x, Zq (g_ny g'))) <= b + tol_snap c * (- ry))).
Proof.
  intros Ht Hb. unfold zoom_to_res. rewrite Hb.
  destruct (snap_tight l r rx (tol_snap c)) as [[offx nx]|e] eqn:Ex; [|discriminate]. cbn [bind].
  destruct (snap_tight b t ry (tol_snap c)) as [[offy ny]|e] eqn:Ey; [|discriminate]. cbn [bind].
  intros H; injection H as <-. cbn [g_crs g_nx g_ny g_A].
  destruct (snap_tight_spec _ _ _ _ _ _ Ht Ex) as (Rx & Nx & Px & Mx).
  destruct (snap_tight_spec _ _ _ _ _ _ Ht Ey) as (Ry & Ny & Py & My).
  split; [reflexivity|]. split; [exact Nx|]. split; [exact Ny|].
  unfold pix2wld, apply, amul, atrans, ascale; cbn [g_A aa ab ac ad ae af fst snd].
  split; [ring|]. split; [ring|]. split; [ring|]. split; [ring|].
  split; [exact Rx|]. split; [exact Ry|]. split.
  - intros y. split; intros Hs.
    + destruct (Px Hs) as [-> Hc]. split; [ring | lra].
    + destruct (Mx Hs) as [-> Hc]. split; [ring | lra].
  - intros x. split; intros Hs.
    + destruct (Py Hs) as [-> Hc]. split; [ring | lra].
    + destruct (My Hs) as [-> Hc]. split; [ring | lra].
Qed.

(** * (iv) GCP based geoboxes: the polynomial fit is an oracle *)
Section GCP.
  Variable p2w w2p : pt -> pt.
  Hypothesis p2w_proper : forall p q, peq p q -> peq (p2w p) (p2w q).

  (** every pixel contract of the (shape, _affine) part transfers through the fit *)
  Lemma gcp_transfer g g' (gm : pt -> pt) :
    (forall p, peq (pix2wld g' p) (pix2wld g (gm p))) ->
    forall p, peq (gcp_pix2wld p2w g' p) (gcp_pix2wld p2w g (gm p)).
  Proof. intros H p. unfold gcp_pix2wld. apply p2w_proper. apply H. Qed.

  Lemma gcp_getitem g sy sx g' : getitem g (RTup [sy; sx]) = Ok g' ->
    let '(y0, y1, _) := norm_bounds sy (g_ny g) in
    let '(x0, x1, _) := norm_bounds sx (g_nx g) in
    g_ny g' = (y1 - y0)%Z /\ g_nx g' = (x1 - x0)%Z /\ g_crs g' = g_crs g /\
    forall p, peq (gcp_pix2wld p2w g' p) (gcp_pix2wld p2w g (fst p + Zq x0, snd p + Zq y0)).
  Proof.
    intros H. pose proof (getitem_tup_contract g sy sx g' H) as C.
    destruct (norm_bounds sy (g_ny g)) as [[y0 y1] sty].
    destruct (norm_bounds sx (g_nx g)) as [[x0 x1] stx].
    destruct C as (C1 & C2 & C3 & C4). repeat split; try assumption.
    - apply (gcp_transfer g g' (fun p => (fst p + Zq x0, snd p + Zq y0)) C4).
    - apply (gcp_transfer g g' (fun p => (fst p + Zq x0, snd p + Zq y0)) C4).
  Qed.

  Lemma gcp_pad g padx pady p :
    peq (gcp_pix2wld p2w (pad g padx pady) p)
        (gcp_pix2wld p2w g (fst p - Zq padx, snd p - Zq (fill pady padx))).
  Proof.
    apply (gcp_transfer g (pad g padx pady) (fun p => (fst p - Zq padx, snd p - Zq (fill pady padx)))).
    intros q. apply pad_contract.
  Qed.

  Lemma gcp_zoom_out g f g' : 0 < f -> zoom_out g f = Ok g' ->
    forall p, peq (gcp_pix2wld p2w g' p) (gcp_pix2wld p2w g (f * fst p, f * snd p)).
  Proof.
    intros Hf H. destruct (zoom_out_contract g f Hf) as (g2 & H2 & _ & _ & _ & C & _).
    rewrite H in H2. injection H2 as <-.
    apply (gcp_transfer g g' (fun p => (f * fst p, f * snd p)) C).
  Qed.

  (** round trip, conditional on the fits being mutually inverse *)
  Lemma gcp_roundtrip g p : invertible g -> (forall q, peq (w2p (p2w q)) q) ->
    peq (gcp_wld2pix w2p g (gcp_pix2wld p2w g p)) p.
  Proof.
    intros Hi Hinv. unfold gcp_wld2pix, gcp_pix2wld.
    rewrite (Hinv (apply (g_A g) p)). apply apply_inv_l. exact Hi.
  Qed.

  (** exact agreement with the linear GeoBox [approx] when the fit is the affine map M *)
  Lemma gcp_affine_exact g M p : (forall q, peq (p2w q) (apply M q)) ->
    peq (gcp_pix2wld p2w g p) (pix2wld (gcp_approx M g) p) /\
    g_ny (gcp_approx M g) = g_ny g /\ g_nx (gcp_approx M g) = g_nx g /\ g_crs (gcp_approx M g) = g_crs g.
  Proof.
    intros H. split; [|repeat split].
    unfold gcp_pix2wld, gcp_approx. rewrite H.
    destruct (grmul_contract M g p) as [E _]. rewrite E. reflexivity.
  Qed.
End GCP.
