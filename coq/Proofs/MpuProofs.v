(** Proofs for C06: the chunk invariant of the multi-part-upload protocol, its
    preservation by append / maybe_write / merge, its lift to every merge tree and
    the end-to-end theorem about [mpu_write]. *)
From Coq Require Import ZArith List Bool Lia Permutation Sorted.
From OG Require Import Base.Result Base.ListSel Model.Mpu.
Import ListNotations.
Open Scope Z_scope.

(** * list helpers *)
Lemma len_take_le {X} n (l : list X) : 0 <= n <= len l -> len (take n l) = n.
Proof. intros; rewrite len_take by lia; lia. Qed.

Lemma len_drop_le {X} n (l : list X) : 0 <= n <= len l -> len (drop n l) = len l - n.
Proof. intros; rewrite len_drop by lia; lia. Qed.

Lemma drop_drop {X} a b (l : list X) : 0 <= a -> 0 <= b -> drop a (drop b l) = drop (a + b) l.
Proof.
  intros; unfold drop. apply nth_error_ext; intros i.
  rewrite !nth_error_skipn. f_equal. lia.
Qed.

Lemma len_zero_nil {X} (l : list X) : len l <= 0 -> l = [].
Proof. destruct l; auto; unfold len; simpl; lia. Qed.

Lemma drop_all {X} (l : list X) : drop (len l) l = [].
Proof. apply len_zero_nil; pose proof (len_nonneg l); rewrite len_drop by lia; lia. Qed.

Lemma take_all {X} (l : list X) : take (len l) l = l.
Proof. unfold take, len. rewrite Nat2Z.id. apply firstn_all. Qed.

Lemma isnil_true {X} (l : list X) : isnil l = true <-> l = [].
Proof. destruct l; simpl; split; congruence. Qed.

Lemma isnil_false {X} (l : list X) : isnil l = false <-> l <> [].
Proof. destruct l; simpl; split; congruence. Qed.

Lemma len_nil_iff {X} (l : list X) : l <> [] -> 0 < len l.
Proof. destruct l; [congruence|]; unfold len; simpl; lia. Qed.

(** * strictly increasing id lists inside a half-open range *)
Fixpoint incr_from (lo : Z) (l : list Z) (nx : Z) : Prop :=
  match l with [] => lo <= nx | x :: l' => lo <= x /\ incr_from (x + 1) l' nx end.

Lemma incr_from_le lo l nx : incr_from lo l nx -> lo <= nx.
Proof. revert lo; induction l as [|x l IH]; simpl; intros lo H; [lia|]. destruct H as [H1 H2]. apply IH in H2. lia. Qed.

Lemma incr_from_weaken lo lo' l nx nx' :
  lo' <= lo -> nx <= nx' -> incr_from lo l nx -> incr_from lo' l nx'.
Proof.
  revert lo lo'; induction l as [|x l IH]; simpl; intros lo lo' H1 H2 H; [lia|].
  destruct H as [Ha Hb]; split; [lia|]. eapply IH; eauto; lia.
Qed.

Lemma incr_from_app lo l1 mid l2 nx :
  incr_from lo l1 mid -> incr_from mid l2 nx -> incr_from lo (l1 ++ l2) nx.
Proof.
  revert lo; induction l1 as [|x l1 IH]; simpl; intros lo H1 H2.
  - eapply incr_from_weaken; [exact H1|apply Z.le_refl|exact H2].
  - destruct H1 as [Ha Hb]; split; auto.
Qed.

Lemma incr_from_snoc lo l x : incr_from lo l x -> incr_from lo (l ++ [x]) (x + 1).
Proof. intros H; eapply incr_from_app; [exact H|]. simpl; lia. Qed.

Lemma incr_from_range lo l nx : incr_from lo l nx -> Forall (fun x => lo <= x < nx) l.
Proof.
  revert lo; induction l as [|x l IH]; simpl; intros lo H; constructor.
  - destruct H as [Ha Hb]. apply incr_from_le in Hb. lia.
  - destruct H as [Ha Hb]. apply IH in Hb. eapply Forall_impl; [|exact Hb]. simpl; intros; lia.
Qed.

Lemma incr_from_sorted lo l nx : incr_from lo l nx -> StronglySorted Z.lt l.
Proof.
  revert lo; induction l as [|x l IH]; simpl; intros lo H; constructor.
  - destruct H as [_ Hb]; eauto.
  - destruct H as [_ Hb]. apply incr_from_range in Hb.
    eapply Forall_impl; [|exact Hb]. simpl; intros; lia.
Qed.

Section Proofs.
Context {A CI : Type}.
Notation chunk := (chunk A CI).
Notation part := (part A).
Notation tree := (tree A CI).
Variable pw : writer.
Hypothesis Hminw : 0 <= minw pw.

Definition big (p : part) : Prop := minw pw <= len (snd p).
Definition pbytes (ps : list part) : list A := concat (map snd ps).
Definition pids (ps : list part) : list Z := map fst ps.

Lemma pbytes_app a b : pbytes (a ++ b) = pbytes a ++ pbytes b.
Proof. unfold pbytes; rewrite map_app, concat_app; reflexivity. Qed.

Lemma pbytes_one x (d : list A) : pbytes [(x, d)] = d.
Proof. unfold pbytes; simpl; apply app_nil_r. Qed.

Lemma pbytes_cons x (d : list A) ps : pbytes ((x, d) :: ps) = d ++ pbytes ps.
Proof. reflexivity. Qed.

Lemma pids_app a b : pids (a ++ b) = pids a ++ pids b.
Proof. apply map_app. Qed.

(** * the invariant: chunk [c] stands for stream segment [seg] (observed log
    [obs]), owns part numbers [lo, hi), and is final iff [fin] *)
Record Inv (lo hi : Z) (seg : list A) (obs : list (Z * option CI)) (fin : bool) (c : chunk) : Prop := {
  i_content : left c ++ pbytes (parts c) ++ data c = seg;
  i_obs : observed c = obs;
  i_fin : final c = fin;
  i_keep : keep c = minw pw;
  i_lo : lo <= next c;
  i_hi : next c + credits c = hi;
  i_cred : 0 <= credits c;
  i_ids : incr_from lo (pids (parts c)) (next c);
  i_big : Forall big (parts c);
  i_ns : parts c = [] -> left c = [] /\ next c = lo;
  i_st : parts c <> [] ->
         minw pw <= len (left c) /\
         (1 <= credits c \/ (fin = true /\ data c = [])) /\
         (fin = false -> minw pw <= len (data c))
}.

Lemma started_nil (c : chunk) : parts c = [] -> started c = false.
Proof. unfold started; intros ->; reflexivity. Qed.

Lemma started_cons (c : chunk) : parts c <> [] -> started c = true.
Proof. unfold started; destruct (parts c); [congruence|reflexivity]. Qed.

Lemma app_not_nil {X} (l : list X) x : l ++ [x] <> [].
Proof. destruct l; simpl; congruence. Qed.

(** ** append *)
Lemma append_inv lo hi seg obs c d id :
  Inv lo hi seg obs false c ->
  Inv lo hi (seg ++ d) (obs ++ [(len d, id)]) false (append c d id).
Proof.
  intros [Hc Ho Hf Hk Hlo Hhi Hcr Hids Hbig Hns Hst].
  constructor; cbn [append next credits data left parts observed final keep]; auto.
  - rewrite <- Hc, <- !app_assoc. reflexivity.
  - rewrite Ho; reflexivity.
  - intros Hp. destruct (Hst Hp) as (H1 & H2 & H3). split; [exact H1|]. split.
    + destruct H2 as [H2|[H2 _]]; [left; exact H2|discriminate].
    + intros _. rewrite len_app. specialize (H3 eq_refl). pose proof (len_nonneg d). lia.
Qed.

(** ** maybe_write (repaired: never below the minimum part size) *)
Lemma maybe_write_inv lo hi seg obs fin c spill :
  Inv lo hi seg obs fin c -> 0 <= spill ->
  exists c' log, maybe_write fixed pw spill c = Ok (c', log) /\
                 Inv lo hi seg obs fin c' /\ parts c' = parts c ++ log.
Proof.
  intros HI Hsp. pose proof HI as [Hc Ho Hf Hk Hlo Hhi Hcr Hids Hbig Hns Hst].
  unfold maybe_write. cbn [fx_spill_min fixed]. rewrite Hf.
  set (rk := if fin then 0 else minw pw).
  set (ptk := if fin then 0 else 1).
  set (lk := if started c then 0 else keep c).
  destruct (Z.ltb_spec (credits c - 1) ptk) as [Hcr1|Hcr1].
  { exists c, []. rewrite app_nil_r. auto. }
  set (btw := len (data c) - rk - lk).
  destruct (Z.ltb_spec btw (Z.max spill (minw pw))) as [Hb|Hb].
  { exists c, []. rewrite app_nil_r. auto. }
  assert (Hrk : 0 <= rk) by (unfold rk; destruct fin; lia).
  assert (Hptk : 0 <= ptk) by (unfold ptk; destruct fin; lia).
  assert (Hlk : 0 <= lk) by (unfold lk; destruct (started c); lia).
  assert (Hbtw : minw pw <= btw /\ 0 <= btw) by lia.
  assert (Hlen : btw + rk + lk = len (data c)) by (unfold btw; lia).
  destruct (Z.eqb_spec lk 0) as [Hlk0|Hlk0].
  - (* nothing to reserve on the left *)
    rewrite len_take_le by lia. rewrite Z.eqb_refl. cbn [guard bind].
    eexists _, _. split; [reflexivity|]. split; [|reflexivity].
    constructor; cbn [next credits data left parts observed final keep]; auto; try lia.
    + rewrite pbytes_app, pbytes_one, <- Hc, <- !app_assoc. rewrite take_drop. reflexivity.
    + rewrite pids_app; simpl. apply incr_from_snoc. exact Hids.
    + apply Forall_app; split; [exact Hbig|]. constructor; [|constructor].
      unfold big; simpl. rewrite len_take_le by lia. lia.
    + intros Hp. exfalso. eapply app_not_nil; exact Hp.
    + intros _. split; [|split].
      * destruct (parts c) eqn:Hp.
        -- (* was not started: lk = keep = 0 *)
           unfold lk in Hlk0. rewrite (started_nil c Hp) in Hlk0. pose proof (len_nonneg (left c)). lia.
        -- apply Hst; congruence.
      * destruct fin.
        -- right. split; [reflexivity|]. apply len_zero_nil. rewrite len_drop_le by lia.
           unfold rk in Hlen. simpl in Hlen. lia.
        -- left. unfold ptk in Hcr1. simpl in Hcr1. lia.
      * intros ->. rewrite len_drop_le by lia. unfold rk in Hlen. simpl in Hlen. lia.
  - (* first write of this chunk: keep [lhs_keep] bytes for the left neighbour *)
    assert (Hp : parts c = []).
    { destruct (parts c) eqn:Hp; auto. unfold lk in Hlk0. rewrite started_cons in Hlk0 by congruence. lia. }
    destruct (Hns Hp) as [Hl Hn]. rewrite Hl. cbn [isnil guard bind].
    rewrite len_take_le by (rewrite len_drop_le by lia; lia). rewrite Z.eqb_refl. cbn [guard bind].
    eexists _, _. split; [reflexivity|]. split; [|reflexivity].
    assert (Hlkk : lk = minw pw) by (unfold lk; rewrite (started_nil c Hp); exact Hk).
    constructor; cbn [next credits data left parts observed final keep]; auto; try lia.
    + rewrite Hp. simpl. rewrite pbytes_one. rewrite <- Hc, Hl, Hp. simpl.
      rewrite <- (take_drop lk (data c)) at 4. f_equal.
      rewrite <- (take_drop btw (drop lk (data c))) at 2. f_equal.
      rewrite drop_drop by lia. reflexivity.
    + rewrite Hp. simpl. lia.
    + rewrite Hp. simpl. constructor; [|constructor]. unfold big; simpl.
      rewrite len_take_le by (rewrite len_drop_le by lia; lia). lia.
    + rewrite Hp. simpl. discriminate.
    + intros _. split; [|split].
      * rewrite len_take_le by lia. lia.
      * destruct fin.
        -- right. split; [reflexivity|]. apply len_zero_nil. rewrite len_drop_le by lia.
           unfold rk in Hlen. simpl in Hlen. lia.
        -- left. unfold ptk in Hcr1. simpl in Hcr1. lia.
      * intros ->. rewrite len_drop_le by lia. unfold rk in Hlen. simpl in Hlen. lia.
Qed.

(** ** the partition loop (_mpu_append_chunks_op) *)
Lemma append_loop_inv spill cs : 0 <= spill -> forall lo hi seg obs c,
  Inv lo hi seg obs false c ->
  exists c' log, append_loop fixed (Some pw) spill c cs = Ok (c', log) /\
                 Inv lo hi (seg ++ bytes_of cs) (obs ++ obs_of cs) false c' /\
                 parts c' = parts c ++ log.
Proof.
  intros Hsp. induction cs as [|[d id] cs IH]; intros lo hi seg obs c HI.
  - exists c, []. simpl. unfold bytes_of, obs_of; simpl. rewrite !app_nil_r. auto.
  - cbn [append_loop].
    pose proof (append_inv _ _ _ _ _ d id HI) as H1.
    assert (exists c2 log2,
      (if 0 <? spill then maybe_write fixed pw spill (append c d id) else Ok (append c d id, []))
      = Ok (c2, log2) /\ Inv lo hi (seg ++ d) (obs ++ [(len d, id)]) false c2 /\
      parts c2 = parts (append c d id) ++ log2) as (c2 & log2 & E2 & I2 & P2).
    { destruct (0 <? spill).
      - apply maybe_write_inv; auto.
      - eexists _, _. split; [reflexivity|]. rewrite app_nil_r. auto. }
    rewrite E2. cbn [bind fst snd].
    destruct (IH _ _ _ _ _ I2) as (c3 & log3 & E3 & I3 & P3).
    rewrite E3. cbn [bind fst snd].
    eexists _, _. split; [reflexivity|]. split.
    + unfold bytes_of, obs_of in *. simpl. rewrite <- !app_assoc in I3. simpl in I3. exact I3.
    + rewrite P3, P2. cbn [append parts]. rewrite app_assoc. reflexivity.
Qed.

Lemma set_final_inv lo hi seg obs fin c :
  Inv lo hi seg obs false c -> Inv lo hi seg obs fin (set_final c fin).
Proof.
  intros [Hc Ho Hf Hk Hlo Hhi Hcr Hids Hbig Hns Hst].
  constructor; cbn [set_final next credits data left parts observed final keep]; auto.
  intros Hp. destruct (Hst Hp) as (H1 & H2 & H3). split; [exact H1|]. split.
  - destruct H2 as [H2|[H2 _]]; [left; exact H2|discriminate].
  - intros ->. apply H3; reflexivity.
Qed.

Lemma fresh_inv lo wpc fin : 1 <= wpc ->
  Inv lo (lo + wpc) [] [] false (set_final (fresh lo wpc fin (minw pw)) false).
Proof.
  intros H. constructor; cbn; auto; try lia; try congruence.
Qed.

Lemma leaf_inv spill lo wpc fin cs : 0 <= spill -> 1 <= wpc ->
  exists c log, append_chunks fixed (Some pw) spill (fresh lo wpc fin (minw pw)) cs = Ok (c, log) /\
                Inv lo (lo + wpc) (bytes_of cs) (obs_of cs) fin c /\ parts c = log.
Proof.
  intros Hsp Hw. unfold append_chunks. cbn [fx_final_loop fixed].
  destruct (append_loop_inv spill cs Hsp _ _ _ _ _ (fresh_inv lo wpc fin Hw)) as (c & log & E & I & P).
  rewrite E. cbn [bind fst snd].
  eexists _, _. split; [reflexivity|]. split.
  - apply set_final_inv. exact I.
  - cbn. exact P.
Qed.

(** ** merge of adjacent chunks *)
Lemma merge_inv lo mid hi seg1 seg2 obs1 obs2 fin l r :
  minp pw <= lo -> hi <= maxp pw + 1 ->
  Inv lo mid seg1 obs1 false l -> Inv mid hi seg2 obs2 fin r -> obs1 ++ obs2 <> [] ->
  exists c log, merge (Some pw) l r = Ok (c, log) /\
                Inv lo hi (seg1 ++ seg2) (obs1 ++ obs2) fin c /\
                Permutation (parts c) (parts l ++ parts r ++ log).
Proof.
  intros Hlo0 Hhi0 HL HR Hobs.
  pose proof HL as [Lc Lo Lf Lk Llo Lhi Lcr Lids Lbig Lns Lst].
  pose proof HR as [Rc Ro Rf Rk Rlo Rhi Rcr Rids Rbig Rns Rst].
  assert (Hon : isnil (observed l ++ observed r) = false).
  { apply isnil_false. rewrite Lo, Ro. exact Hobs. }
  unfold merge.
  destruct (parts r) as [|rp rps] eqn:Rp.
  - (* right side has not written: concatenate *)
    rewrite (started_nil r Rp). cbn [negb].
    destruct (Rns eq_refl) as [Rl Rn]. rewrite Rl. cbn [isnil guard bind]. rewrite Hon. cbn [negb guard bind].
    eexists _, _. split; [reflexivity|]. split.
    + constructor; cbn [next credits data left parts observed final keep]; auto; try lia.
      * rewrite <- Lc, <- Rc, Rl. simpl. rewrite <- !app_assoc. reflexivity.
      * rewrite Lo, Ro; reflexivity.
      * intros Hp. destruct (Lst Hp) as (H1 & H2 & H3). split; [exact H1|]. split.
        -- destruct H2 as [H2|[H2 _]]; [left; lia|discriminate].
        -- intros _. rewrite len_app. specialize (H3 eq_refl). pose proof (len_nonneg (data r)). lia.
    + cbn [parts]. simpl. rewrite app_nil_r. apply Permutation_refl.
  - (* right side has written: flush the left side into a part or into left_data *)
    assert (Rpn : parts r <> []) by (rewrite Rp; discriminate).
    rewrite <- Rp in *. rewrite (started_cons r Rpn). cbn [negb].
    destruct (Rst Rpn) as (Rleft & Rcred & Rdata).
    assert (Hmid : lo <= mid) by lia.
    assert (Hmid2 : mid <= next r) by lia.
    assert (Hnr : next r <= hi) by lia.
    unfold flush_rhs.
    destruct (parts l) as [|lp lps] eqn:Lp.
    + (* left side not started *)
      rewrite (started_nil l Lp). destruct (Lns eq_refl) as [Ll Ln].
      unfold can_flush. rewrite (started_nil l Lp), Lf.
      assert (Hmoved : exists c log,
        (_ <- guard (negb (isnil (observed l ++ observed r))) (EAssert 93) ;;
         Ok (mk (next r) (credits r) (data r) (left (fst (moved l (data l ++ left r), @nil part)))
                (parts (fst (moved l (data l ++ left r), @nil part)) ++ parts r)
                (observed l ++ observed r) (final r) (keep l),
             snd (moved l (data l ++ left r), @nil part))) = Ok (c, log) /\
        Inv lo hi (seg1 ++ seg2) (obs1 ++ obs2) fin c /\
        Permutation (parts c) ([] ++ parts r ++ log)).
      { rewrite Hon. unfold moved. cbn [negb guard bind fst snd left parts]. rewrite Lp.
        eexists _, _. split; [reflexivity|]. split.
        - constructor; cbn [next credits data left parts observed final keep app]; auto; try lia.
          + rewrite <- Lc, <- Rc, Ll. simpl. rewrite <- !app_assoc. reflexivity.
          + rewrite Lo, Ro; reflexivity.
          + eapply incr_from_weaken; [exact Hmid|apply Z.le_refl|exact Rids].
          + intros Hp; congruence.
          + intros _. split; [|split; auto].
            rewrite Ll. simpl. rewrite len_app. pose proof (len_nonneg (data l)). lia.
        - cbn [parts app]. rewrite app_nil_r. apply Permutation_refl. }
      destruct (Z.ltb_spec (credits l) 1) as [Hc1|Hc1];
        [|destruct (Z.leb_spec (minw pw) (len (data l ++ left r) - keep l)) as [Hfl|Hfl]].
      * (* no credit: everything becomes left data *)
        cbn [bind]. exact Hmoved.
      * (* enough data: write a part, keeping lhs_keep bytes on the left *)
        clear Hmoved. unfold flush_data.
        assert (Hg : (minp pw <=? next l) && (next l <=? maxp pw) = true).
        { apply andb_true_iff; split; apply Z.leb_le; lia. }
        rewrite Hg. cbn [guard bind]. rewrite (started_nil l Lp). cbn [negb andb].
        set (d := data l ++ left r) in *.
        assert (Hd : keep l + minw pw <= len d) by lia.
        destruct (Z.ltb_spec 0 (keep l)) as [Hk0|Hk0]; cbn [fst snd bind]; rewrite Hon;
          cbn [negb guard bind fst snd left parts next]; rewrite Lp; cbn [app].
        -- eexists _, _. split; [reflexivity|]. split.
           ++ constructor; cbn [next credits data left parts observed final keep app]; auto; try lia.
              ** rewrite <- Lc, <- Rc, Ll. rewrite pbytes_cons. simpl.
                 rewrite <- !app_assoc. rewrite (app_assoc (take (keep l) d)). rewrite take_drop. unfold d.
                 rewrite <- !app_assoc. reflexivity.
              ** rewrite Lo, Ro; reflexivity.
              ** simpl. split; [lia|]. eapply incr_from_weaken; [|apply Z.le_refl|exact Rids]. lia.
              ** constructor; [|exact Rbig]. unfold big; simpl.
                 rewrite len_drop_le by lia. lia.
              ** discriminate.
              ** intros _. split; [|split; auto]. rewrite len_take_le by lia. lia.
           ++ cbn [parts app]. apply Permutation_cons_append.
        -- (* lhs_keep = 0 *)
           eexists _, _. split; [reflexivity|]. split.
           ++ constructor; cbn [next credits data left parts observed final keep app]; auto; try lia.
              ** rewrite <- Lc, <- Rc, Ll. rewrite pbytes_cons. simpl.
                 unfold d. rewrite <- !app_assoc. reflexivity.
              ** rewrite Lo, Ro; reflexivity.
              ** simpl. split; [lia|]. eapply incr_from_weaken; [|apply Z.le_refl|exact Rids]. lia.
              ** constructor; [|exact Rbig]. unfold big; simpl. lia.
              ** discriminate.
              ** intros _. split; [|split; auto]. rewrite Ll. unfold len. simpl. lia.
           ++ cbn [parts app]. apply Permutation_cons_append.
      * (* not enough data: everything becomes left data *)
        cbn [bind]. exact Hmoved.
    + (* left side started: it must flush, and it can *)
      assert (Lpn : parts l <> []) by (rewrite Lp; discriminate).
      rewrite <- Lp in *. rewrite (started_cons l Lpn).
      destruct (Lst Lpn) as (Lleft & Lcred & Ldata). specialize (Ldata eq_refl).
      assert (Lc1 : 1 <= credits l) by (destruct Lcred as [?|[? _]]; [assumption|discriminate]).
      unfold can_flush. rewrite (started_cons l Lpn), Lf.
      destruct (Z.ltb_spec (credits l) 1) as [?|_]; [lia|].
      assert (Hm : minw pw <=? len (data l ++ left r) = true).
      { apply Z.leb_le. rewrite len_app. pose proof (len_nonneg (left r)). lia. }
      rewrite Hm. cbn [orb guard bind].
      unfold flush_data.
      assert (Hg : (minp pw <=? next l) && (next l <=? maxp pw) = true).
      { apply andb_true_iff; split; apply Z.leb_le; lia. }
      rewrite Hg. cbn [guard bind]. rewrite (started_cons l Lpn). cbn [negb andb fst snd bind].
      rewrite Hon. cbn [negb guard bind fst snd left parts next].
      eexists _, _. split; [reflexivity|]. split.
      * constructor; cbn [next credits data left parts observed final keep]; auto; try lia.
        -- rewrite !pbytes_app, pbytes_one. rewrite <- Lc, <- Rc. rewrite <- !app_assoc. reflexivity.
        -- rewrite Lo, Ro; reflexivity.
        -- rewrite !pids_app. simpl.
           eapply incr_from_app; [apply incr_from_snoc; exact Lids|].
           eapply incr_from_weaken; [|apply Z.le_refl|exact Rids]. lia.
        -- apply Forall_app; split; [apply Forall_app; split; [exact Lbig|]|exact Rbig].
           constructor; [|constructor]. unfold big; simpl. apply Z.leb_le; exact Hm.
        -- intros Hp. apply app_eq_nil in Hp. destruct Hp as [Hp _]. exfalso; eapply app_not_nil; exact Hp.
      * cbn [parts]. rewrite <- !app_assoc. apply Permutation_app_head. simpl.
        apply Permutation_cons_append.
Qed.

Lemma merge_and_spill_inv spill lo mid hi seg1 seg2 obs1 obs2 fin l r :
  0 <= spill -> minp pw <= lo -> hi <= maxp pw + 1 ->
  Inv lo mid seg1 obs1 false l -> Inv mid hi seg2 obs2 fin r -> obs1 ++ obs2 <> [] ->
  exists c log, merge_and_spill fixed (Some pw) spill l r = Ok (c, log) /\
                Inv lo hi (seg1 ++ seg2) (obs1 ++ obs2) fin c /\
                Permutation (parts c) (parts l ++ parts r ++ log).
Proof.
  intros Hsp Hlo Hhi HL HR Hobs.
  destruct (merge_inv _ _ _ _ _ _ _ _ _ _ Hlo Hhi HL HR Hobs) as (m & log1 & E1 & I1 & P1).
  unfold merge_and_spill. rewrite E1. cbn [bind fst snd].
  destruct (Z.eqb_spec spill 0) as [_|_].
  - eexists _, _. split; [reflexivity|]. auto.
  - destruct (maybe_write_inv _ _ _ _ _ _ spill I1 Hsp) as (m' & log2 & E2 & I2 & P2).
    rewrite E2. cbn [bind fst snd].
    eexists _, _. split; [reflexivity|]. split; [exact I2|].
    rewrite P2. rewrite !app_assoc. apply Permutation_app_tail. rewrite <- app_assoc. exact P1.
Qed.

(** ** every merge tree *)
Lemma nleaves_pos (t : tree) : 1 <= nleaves t.
Proof. induction t; simpl; lia. Qed.

Lemma tree_obs_nonempty (t : tree) : tree_ok t -> obs_of (tree_chunks t) <> [].
Proof.
  induction t as [cs|l IHl r IHr]; simpl.
  - destruct cs; [congruence|]. simpl. discriminate.
  - intros [Hl Hr]. unfold obs_of in *. rewrite map_app. intros H. apply app_eq_nil in H.
    destruct H as [H _]. exact (IHl Hl H).
Qed.

Lemma run_inv spill wpc n mark (t : tree) : 0 <= spill -> 1 <= wpc -> forall j,
  tree_ok t -> 0 <= j -> j + nleaves t <= n ->
  minp pw + 1 + n * wpc <= maxp pw + 1 ->
  exists c log,
    run fixed (Some pw) spill (minp pw + 1) wpc (minw pw) n mark t j = Ok (c, log) /\
    Inv (minp pw + 1 + j * wpc) (minp pw + 1 + (j + nleaves t) * wpc)
        (bytes_of (tree_chunks t)) (obs_of (tree_chunks t))
        (mark && (j + nleaves t =? n)) c /\
    Permutation (parts c) log.
Proof.
  intros Hsp Hw. induction t as [cs|l IHl r IHr]; intros j Hok Hj Hn Hmax.
  - cbn [run nleaves tree_chunks].
    destruct (leaf_inv spill (minp pw + 1 + j * wpc) wpc (mark && (j =? n - 1)) cs Hsp Hw)
      as (c & log & E & I & P).
    rewrite E. exists c, log. split; [reflexivity|]. split.
    + replace (minp pw + 1 + (j + 1) * wpc) with (minp pw + 1 + j * wpc + wpc) by lia.
      replace (j + 1 =? n) with (j =? n - 1); [exact I|].
      destruct (Z.eqb_spec j (n - 1)), (Z.eqb_spec (j + 1) n); auto; lia.
    + rewrite P. apply Permutation_refl.
  - cbn [run nleaves tree_chunks]. destruct Hok as [Hokl Hokr].
    pose proof (nleaves_pos l) as Hl1. pose proof (nleaves_pos r) as Hrg1. cbn [nleaves] in Hn.
    destruct (IHl j Hokl Hj ltac:(lia) Hmax) as (a & loga & Ea & Ia & Pa).
    destruct (IHr (j + nleaves l) Hokr ltac:(lia) ltac:(lia) Hmax) as (b & logb & Eb & Ib & Pb).
    rewrite Ea. cbn [bind fst snd]. rewrite Eb. cbn [bind fst snd].
    replace (mark && (j + nleaves l =? n)) with false in Ia
      by (destruct (Z.eqb_spec (j + nleaves l) n); [lia|rewrite andb_false_r; reflexivity]).
    replace (j + nleaves l + nleaves r) with (j + (nleaves l + nleaves r)) in Ib by lia.
    assert (Hobs : obs_of (tree_chunks l) ++ obs_of (tree_chunks r) <> []).
    { intros H. apply app_eq_nil in H. destruct H as [H _]. exact (tree_obs_nonempty l Hokl H). }
    assert (Hq1 : minp pw <= minp pw + 1 + j * wpc) by nia.
    assert (Hq2 : minp pw + 1 + (j + (nleaves l + nleaves r)) * wpc <= maxp pw + 1) by nia.
    destruct (merge_and_spill_inv spill _ _ _ _ _ _ _ _ _ _ Hsp Hq1 Hq2 Ia Ib Hobs)
      as (m & logm & Em & Im & Pm).
    rewrite Em. cbn [bind fst snd].
    eexists _, _. split; [reflexivity|]. split.
    + unfold bytes_of, obs_of in *. rewrite !map_app, concat_app. exact Im.
    + eapply Permutation_trans; [exact Pm|].
      rewrite !app_assoc. apply Permutation_app_tail. apply Permutation_app; assumption.
Qed.

(** ** finalisation *)
Definition result_ok (hdr seg footer : list A) (fp log : list part) : Prop :=
  pbytes fp = hdr ++ seg ++ footer /\
  incr_from (minp pw) (pids fp) (maxp pw + 1) /\
  Permutation fp log /\
  Forall big (removelast fp) /\
  fp <> [].

Lemma removelast_snoc {X} (l : list X) x : removelast (l ++ [x]) = l.
Proof. apply removelast_last. Qed.

Lemma Forall_removelast {X} (P : X -> Prop) l : Forall P l -> Forall P (removelast l).
Proof.
  induction l as [|x l IH]; simpl; auto. intros H. inversion H; subst.
  destruct l; [constructor|]. constructor; auto.
Qed.

Lemma flush_spec lo hi (c : chunk) (content : list A) leftid log0 :
  minp pw <= leftid -> leftid < lo -> lo <= hi -> hi <= maxp pw + 1 ->
  left c ++ pbytes (parts c) ++ data c = content ->
  (parts c = [] -> left c = []) ->
  (parts c <> [] ->
     minw pw <= len (left c) /\ (data c = [] \/ 1 <= credits c) /\ 0 <= credits c /\
     lo <= next c /\ next c + credits c <= hi /\
     incr_from lo (pids (parts c)) (next c) /\ Forall big (parts c)) ->
  Permutation (parts c) log0 ->
  exists fp log, flush pw c leftid = Ok (fp, log) /\ result_ok content [] [] fp (log0 ++ log).
Proof.
  intros Hl1 Hl2 Hlh Hhi Hc Hns Hst Hperm.
  unfold flush. destruct (parts c) as [|p ps] eqn:Hp.
  - rewrite (started_nil c Hp). cbn [negb]. rewrite (Hns eq_refl). cbn [isnil guard bind].
    eexists _, _. split; [reflexivity|]. unfold result_ok. rewrite !app_nil_r.
    rewrite (Hns eq_refl) in Hc. simpl in Hc. simpl. rewrite pbytes_one. repeat split.
    + exact Hc.
    + assumption.
    + lia.
    + apply Permutation_nil in Hperm. rewrite Hperm. simpl. apply Permutation_refl.
    + constructor.
    + discriminate.
  - assert (Hpn : parts c <> []) by (rewrite Hp; discriminate). rewrite <- Hp in *.
    rewrite (started_cons c Hpn). cbn [negb].
    destruct (Hst Hpn) as (Hleft & Hdc & Hcr & Hlo & Hnc & Hids & Hbig).
    assert (exists c' logw,
      (if isnil (data c) then Ok (c, []) else flush_rhs (Some pw) (set_final c true) []) = Ok (c', logw) /\
      left c' = left c /\ parts c' = parts c ++ logw /\
      pbytes logw = data c /\
      incr_from lo (pids (parts c')) hi /\
      (logw = [] \/ exists x d, logw = [(x, d)])) as (c' & logw & E & El & Ep & Eb & Ei & Ew).
    { destruct (data c) as [|x xs] eqn:Hd.
      - exists c, []. cbn [isnil]. rewrite app_nil_r. repeat split; auto.
        eapply incr_from_weaken; [apply Z.le_refl| |exact Hids]. lia.
      - cbn [isnil]. rewrite <- Hd in *.
        assert (Hc1 : 1 <= credits c) by (destruct Hdc as [Hd0|?]; [rewrite Hd0 in Hd; discriminate|assumption]).
        unfold flush_rhs. cbn [set_final data]. rewrite app_nil_r.
        assert (Hs : started (set_final c true) = true) by (unfold started; cbn; destruct (parts c); [congruence|reflexivity]).
        rewrite Hs. unfold can_flush. rewrite Hs. cbn [set_final credits final].
        destruct (Z.ltb_spec (credits c) 1); [lia|]. cbn [orb guard bind].
        unfold flush_data. rewrite Hs. cbn [set_final next keep left parts observed credits negb andb].
        assert (Hg : (minp pw <=? next c) && (next c <=? maxp pw) = true).
        { apply andb_true_iff; split; apply Z.leb_le; lia. }
        rewrite Hg. cbn [guard bind fst snd].
        eexists _, _. split; [reflexivity|]. cbn [left parts]. repeat split; auto.
        + apply pbytes_one.
        + rewrite pids_app. simpl. eapply incr_from_weaken; [apply Z.le_refl| |apply incr_from_snoc; exact Hids]. lia.
        + right. eauto. }
    rewrite E. cbn [bind fst snd].
    assert (Hcont : left c ++ pbytes (parts c') = content).
    { rewrite Ep, pbytes_app, Eb. exact Hc. }
    assert (Hperm' : Permutation (parts c') (log0 ++ logw)).
    { rewrite Ep. apply Permutation_app_tail. exact Hperm. }
    assert (Hbig' : Forall big (removelast (parts c'))).
    { rewrite Ep. destruct Ew as [->|(x & d & ->)].
      - rewrite app_nil_r. apply Forall_removelast. exact Hbig.
      - rewrite removelast_snoc. exact Hbig. }
    assert (Hpn' : parts c' <> []).
    { rewrite Ep. destruct (parts c); [congruence|discriminate]. }
    rewrite El.
    destruct (left c) as [|y ys] eqn:Hlf; cbn [isnil].
    + eexists _, _. split; [reflexivity|]. unfold result_ok. rewrite !app_nil_r. repeat split; auto.
      eapply incr_from_weaken; [| |exact Ei]; lia.
    + rewrite <- Hlf in *.
      assert (Hm : minw pw <=? len (left c) = true) by (apply Z.leb_le; exact Hleft).
      rewrite Hm. cbn [guard bind].
      eexists _, _. split; [reflexivity|]. unfold result_ok. rewrite !app_nil_r. repeat split.
      * rewrite pbytes_cons. exact Hcont.
      * simpl. exact Hl1.
      * simpl. eapply incr_from_weaken; [| |exact Ei]; lia.
      * rewrite app_assoc. apply Permutation_cons_app. rewrite app_nil_r. exact Hperm'.
      * simpl. destruct (parts c') eqn:Hpc; [congruence|]. constructor; [exact Hleft|]. exact Hbig'.
      * discriminate.
Qed.

(** _finalizer_dask_op on the root chunk of the whole stream *)
Lemma finalizer_spec hi seg obs fin (c : chunk) hdr footer log0 :
  hi <= maxp pw + 1 ->
  Inv (minp pw + 1) hi seg obs fin c ->
  (footer <> [] -> fin = false) ->
  Permutation (parts c) log0 ->
  exists fp log, finalizer fixed pw c hdr footer = Ok (fp, log) /\
                 result_ok hdr seg footer fp (log0 ++ log).
Proof.
  intros Hhi HI Hff Hperm.
  unfold finalizer. cbn [fx_left_id fixed].
  (* footer *)
  set (c1 := if isnil footer then c else append c footer None).
  assert (H1 : exists obs', Inv (minp pw + 1) hi (seg ++ footer) obs' fin c1 /\ parts c1 = parts c).
  { unfold c1. destruct footer as [|x xs] eqn:Hft.
    - cbn [isnil]. rewrite app_nil_r. eauto.
    - cbn [isnil]. rewrite <- Hft in *. assert (fin = false) by (apply Hff; rewrite Hft; discriminate). subst fin.
      eexists. split; [apply append_inv; exact HI|reflexivity]. }
  destruct H1 as (obs' & I1 & P1).
  pose proof I1 as [Hc Ho Hf Hk Hlo Hhi' Hcr Hids Hbig Hns Hst].
  assert (Hres : forall fp log, result_ok (hdr ++ seg ++ footer) [] [] fp log -> result_ok hdr seg footer fp log).
  { unfold result_ok. intros fp log (Ha & Hb). rewrite !app_nil_r in Ha. auto. }
  destruct hdr as [|h0 hs] eqn:Hh.
  - (* no header *)
    cbn [isnil bind fst snd app].
    destruct (flush_spec (minp pw + 1) hi c1 (seg ++ footer) (minp pw) log0) as (fp & log & E & R); auto; try lia.
    + intros Hp. apply Hns; exact Hp.
    + intros Hp. destruct (Hst Hp) as (Ha & Hb & _). repeat split; auto; try lia.
      destruct Hb as [Hb|[_ Hb]]; auto.
    + rewrite P1; exact Hperm.
    + rewrite E. cbn [bind fst snd]. eexists _, _. split; [reflexivity|].
      apply Hres. simpl. exact R.
  - (* header merged in front without a writer *)
    rewrite <- Hh in *. assert (Hhn : hdr <> []) by (rewrite Hh; discriminate).
    assert (Hisn : isnil hdr = false) by (apply isnil_false; exact Hhn). rewrite Hisn.
    unfold merge.
    assert (Hon : isnil (observed (append (fresh (minp pw) 1 false 0) hdr None) ++ observed c1) = false).
    { cbn. reflexivity. }
    destruct (parts c1) as [|q qs] eqn:Hp1.
    + rewrite (started_nil c1 Hp1). cbn [negb]. destruct (Hns eq_refl) as [Hl Hn]. rewrite Hl.
      cbn [isnil guard bind]. rewrite Hon. cbn [negb guard bind fst snd].
      match goal with |- context [flush pw ?cc ?li] => set (c2 := cc) end.
      assert (HF : exists fp log, flush pw c2 (minp pw) = Ok (fp, log) /\
                                  result_ok (hdr ++ seg ++ footer) [] [] fp (log0 ++ log)).
      { apply (flush_spec (minp pw + 1) hi);
          unfold c2; cbn [append fresh next credits data left parts observed final keep app]; auto; try lia.
        * rewrite <- Hc, Hl. simpl. reflexivity.
        * intros Hp; congruence.
        * rewrite P1. exact Hperm. }
      destruct HF as (fp & log & E & R).
      rewrite E. cbn [bind fst snd app]. eexists _, _. split; [reflexivity|]. apply Hres; exact R.
    + assert (Hpn : parts c1 <> []) by (rewrite Hp1; discriminate). rewrite <- Hp1 in *.
      rewrite (started_cons c1 Hpn). cbn [negb].
      unfold flush_rhs. cbn [append fresh started parts isnil negb data app moved bind fst snd left].
      rewrite Hon. cbn [negb guard bind fst snd left parts app].
      match goal with |- context [flush pw ?cc ?li] => set (c2 := cc) end.
      destruct (Hst Hpn) as (Ha & Hb & _).
      assert (HF : exists fp log, flush pw c2 (minp pw) = Ok (fp, log) /\
                                  result_ok (hdr ++ seg ++ footer) [] [] fp (log0 ++ log)).
      { apply (flush_spec (minp pw + 1) hi);
          unfold c2; cbn [next credits data left parts observed final keep app]; auto; try lia.
        * rewrite <- Hc. rewrite <- !app_assoc. reflexivity.
        * intros Hp; congruence.
        * intros _. repeat split; auto; try lia.
          -- rewrite len_app. pose proof (len_nonneg hdr). lia.
          -- destruct Hb as [Hb|[_ Hb]]; auto.
        * rewrite P1. exact Hperm. }
      destruct HF as (fp & log & E & R).
      rewrite E. cbn [bind fst snd app]. eexists _, _. split; [reflexivity|]. apply Hres; exact R.
Qed.

(** * the end-to-end theorem *)
Theorem mpu_write_correct wpc spill hdr has_footer footer (t : tree) :
  1 <= wpc -> 0 <= spill -> tree_ok t ->
  minp pw + nleaves t * wpc <= maxp pw ->
  exists fp log,
    mpu_write fixed pw wpc spill hdr has_footer footer t = Ok (fp, log, obs_of (tree_chunks t)) /\
    result_ok hdr (bytes_of (tree_chunks t)) (if has_footer then footer else []) fp log.
Proof.
  intros Hw Hsp Hok Hmax. unfold mpu_write.
  assert (Hz : 0 <= 0) by lia.
  assert (Hn : 0 + nleaves t <= nleaves t) by lia.
  assert (Hmx : minp pw + 1 + nleaves t * wpc <= maxp pw + 1) by lia.
  destruct (run_inv spill wpc (nleaves t) (negb has_footer) t Hsp Hw 0 Hok Hz Hn Hmx)
    as (c & log0 & E & I & P).
  rewrite E. cbn [bind fst snd].
  replace (minp pw + 1 + 0 * wpc) with (minp pw + 1) in I by lia.
  replace (0 + nleaves t =? nleaves t) with true in I by (symmetry; apply Z.eqb_eq; lia).
  rewrite andb_true_r in I.
  assert (Hh : minp pw + 1 + (0 + nleaves t) * wpc <= maxp pw + 1) by lia.
  destruct (finalizer_spec _ _ _ _ c hdr (if has_footer then footer else []) log0 Hh I) as (fp & log & Ef & R).
  - destruct has_footer; [reflexivity|congruence].
  - exact P.
  - rewrite Ef. cbn [bind fst snd]. eexists _, _. split; [|exact R].
    rewrite (i_obs _ _ _ _ _ _ I). reflexivity.
Qed.

End Proofs.
