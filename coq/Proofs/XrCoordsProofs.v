(** Lemmas for property C09 (xarray geo-registration). *)
From Coq Require Import ZArith QArith Qabs Qround Qfield List Bool String Lia Lqa.
From OG Require Import Base.Result Model.XrCoords.
Import ListNotations.
Open Scope string_scope.
Open Scope Z_scope.
Open Scope list_scope.

(* ================================================================== lists *)
Lemma zlen_nonneg {A} (l : list A) : 0 <= zlen l.
Proof. unfold zlen; lia. Qed.

Lemma zlen_map {A B} (f : A -> B) l : zlen (map f l) = zlen l.
Proof. unfold zlen; now rewrite map_length. Qed.

Lemma zlen_iota n : zlen (iota n) = Z.max 0 n.
Proof. unfold zlen, iota; rewrite map_length, seq_length; lia. Qed.

Lemma iota_nonpos n : n <= 0 -> iota n = [].
Proof. intros H; unfold iota; replace (Z.to_nat n) with 0%nat by lia; reflexivity. Qed.

Lemma iota_succ n : 0 <= n -> iota (n + 1) = iota n ++ [n].
Proof.
  intros H; unfold iota.
  replace (Z.to_nat (n + 1)) with (S (Z.to_nat n)) by lia.
  rewrite seq_S, map_app; simpl. now rewrite Z2Nat.id by lia.
Qed.

Lemma nth_error_iota n i : (i < Z.to_nat n)%nat -> nth_error (iota n) i = Some (Z.of_nat i).
Proof.
  intros H; unfold iota. rewrite nth_error_map, nth_error_nth' with (d := 0%nat) by (rewrite seq_length; lia).
  now rewrite seq_nth by lia.
Qed.

Lemma nth_error_iota_None n i : (Z.to_nat n <= i)%nat -> nth_error (iota n) i = None.
Proof. intros H; apply nth_error_None; unfold iota; rewrite map_length, seq_length; lia. Qed.

Lemma iota_cons n : 1 <= n -> iota n = 0 :: map Z.succ (iota (n - 1)).
Proof.
  intros H; unfold iota.
  replace (Z.to_nat n) with (S (Z.to_nat (n - 1))) by lia.
  simpl. f_equal. rewrite <- seq_shift, !map_map. apply map_ext; intros; lia.
Qed.

Lemma In_iota n i : In i (iota n) <-> 0 <= i < n.
Proof.
  unfold iota; rewrite in_map_iff; split.
  - intros (k & <- & Hk); apply in_seq in Hk; lia.
  - intros H; exists (Z.to_nat i); split; [lia | apply in_seq; lia].
Qed.

(** head and last of [map g (iota m)] *)
Lemma map_iota_two {A} (g : Z -> A) m : 2 <= m ->
  exists mid, map g (iota m) = g 0 :: mid ++ [g (m - 1)].
Proof.
  intros H. rewrite (iota_cons m) by lia.
  assert (E : iota (m - 1) = iota (m - 2) ++ [m - 2]).
  { replace (m - 1) with ((m - 2) + 1) by lia. apply iota_succ; lia. }
  rewrite E.
  exists (map g (map Z.succ (iota (m - 2)))). simpl. f_equal.
  rewrite !map_app. simpl. do 3 f_equal. lia.
Qed.

Lemma map_iota_one {A} (g : Z -> A) : map g (iota 1) = [g 0].
Proof. reflexivity. Qed.

(* ================================================================== association lists *)
Lemma lookup_aset_same {V} k (v : V) l : lookup k (aset k v l) = Some v.
Proof.
  induction l as [|(k', v') l IH]; simpl.
  - now rewrite String.eqb_refl.
  - destruct (String.eqb k k') eqn:E; simpl; [now rewrite String.eqb_refl | now rewrite E].
Qed.

Lemma lookup_aset_other {V} k k' (v : V) l : k' <> k -> lookup k' (aset k v l) = lookup k' l.
Proof.
  intros N; induction l as [|(k2, v2) l IH]; simpl.
  - destruct (String.eqb k' k) eqn:E; [apply String.eqb_eq in E; congruence | reflexivity].
  - destruct (String.eqb k k2) eqn:E; simpl.
    + apply String.eqb_eq in E; subst k2.
      destruct (String.eqb k' k) eqn:E2; [apply String.eqb_eq in E2; congruence | reflexivity].
    + destruct (String.eqb k' k2); auto.
Qed.

Lemma lookup_aset {V} k k' (v : V) l :
  lookup k' (aset k v l) = if String.eqb k' k then Some v else lookup k' l.
Proof.
  destruct (String.eqb k' k) eqn:E.
  - apply String.eqb_eq in E; subst; apply lookup_aset_same.
  - apply lookup_aset_other. intros ->; rewrite String.eqb_refl in E; discriminate.
Qed.

(** dict.update: keys of the update win, other keys keep their value *)
Lemma lookup_aupdate {V} (l upd : list (string * V)) k :
  lookup k (aupdate l upd) = match lookup k (rev upd) with Some v => Some v | None => lookup k l end.
Proof.
  unfold aupdate. revert l; induction upd as [|(k1, v1) upd IH]; intros l; simpl; auto.
  rewrite IH. clear IH.
  assert (L : forall (a b : list (string * V)), lookup k (a ++ b) =
              match lookup k a with Some v => Some v | None => lookup k b end).
  { induction a as [|(ka, va) a IHa]; intros b; simpl; auto. destruct (String.eqb k ka); auto. }
  rewrite L; simpl. rewrite lookup_aset.
  destruct (lookup k (rev upd)); auto. destruct (String.eqb k k1); auto.
Qed.

Lemma lookup_filter_key {V} (p : string -> bool) (l : list (string * V)) k :
  lookup k (filter (fun kv => p (fst kv)) l) = if p k then lookup k l else None.
Proof.
  induction l as [|(k', v) l IH]; simpl; [destruct (p k); auto|].
  destruct (p k') eqn:P; simpl.
  - destruct (String.eqb k k') eqn:E; auto. apply String.eqb_eq in E; subst. now rewrite P.
  - rewrite IH. destruct (String.eqb k k') eqn:E; auto. apply String.eqb_eq in E; subst. now rewrite P.
Qed.

Lemma lookup_adel {V} k k' (l : list (string * V)) :
  lookup k' (adel k l) = if String.eqb k' k then None else lookup k' l.
Proof.
  unfold adel. rewrite (lookup_filter_key (fun s => negb (String.eqb s k))).
  destruct (String.eqb k' k); reflexivity.
Qed.

Lemma lookup_map_val {V W} (f : V -> W) (l : list (string * V)) k :
  lookup k (map (fun nc => (fst nc, f (snd nc))) l) = option_map f (lookup k l).
Proof. induction l as [|(k', v) l IH]; simpl; auto. destruct (String.eqb k k'); auto. Qed.

Lemma smem_In k l : smem k l = true <-> In k l.
Proof.
  unfold smem; rewrite existsb_exists; split.
  - intros (x & Hx & E); apply String.eqb_eq in E; now subst.
  - intros H; exists k; split; auto; apply String.eqb_refl.
Qed.

(* ================================================================== attribute pruning *)
(** no attribute named in SPATIAL_ATTRIBUTES survives, every other one is untouched *)
Lemma prune_spatial_spec (a : attrs) k :
  lookup k (prune_spatial a) = if smem k SPATIAL_ATTRIBUTES then None else lookup k a.
Proof.
  unfold prune_spatial.
  rewrite (lookup_filter_key (fun s => negb (smem s SPATIAL_ATTRIBUTES))).
  destruct (smem k SPATIAL_ATTRIBUTES); reflexivity.
Qed.

Lemma prune_spatial_removed (a : attrs) k : In k SPATIAL_ATTRIBUTES -> lookup k (prune_spatial a) = None.
Proof. intros H; rewrite prune_spatial_spec. apply smem_In in H. now rewrite H. Qed.

Lemma prune_spatial_kept (a : attrs) k : ~ In k SPATIAL_ATTRIBUTES -> lookup k (prune_spatial a) = lookup k a.
Proof.
  intros H; rewrite prune_spatial_spec.
  destruct (smem k SPATIAL_ATTRIBUTES) eqn:E; auto. apply smem_In in E; contradiction.
Qed.

(* ================================================================== affine algebra *)
Lemma aff_mul_apply m n x y :
  fst (aff_apply (aff_mul m n) x y) == fst (aff_apply m (fst (aff_apply n x y)) (snd (aff_apply n x y))) /\
  snd (aff_apply (aff_mul m n) x y) == snd (aff_apply m (fst (aff_apply n x y)) (snd (aff_apply n x y))).
Proof. destruct m, n; unfold aff_apply, aff_mul; simpl; split; ring. Qed.

Lemma aff_eq_refl m : aff_eq m m.
Proof. unfold aff_eq; repeat split; reflexivity. Qed.

Lemma aff_eqb_eq m n : aff_eqb m n = true <-> aff_eq m n.
Proof.
  unfold aff_eqb, aff_eq. rewrite !andb_true_iff, !Qeq_bool_iff. tauto.
Qed.

(* ================================================================== one axis *)
(** Labels that follow an arithmetic progression of original pixel indices
    [p + q*k] on a regular grid [f i == i*r + (t + r/2)]: the recovered
    resolution and offset. *)
Lemma dro_cons x0 mid z fb :
  data_resolution_and_offset (x0 :: mid ++ [z]) fb =
  Ok (((z - x0) / inject_Z (zlen (x0 :: mid ++ [z]) - 1))%Q,
      (x0 - (1 # 2) * ((z - x0) / inject_Z (zlen (x0 :: mid ++ [z]) - 1)))%Q).
Proof.
  unfold data_resolution_and_offset.
  destruct mid as [|a mid]; cbn [app]; lazy beta iota.
  - reflexivity.
  - rewrite (app_comm_cons mid [z] a), last_last. reflexivity.
Qed.

Section Axis.
  Variables (f : Z -> Q) (t r : Q).
  Hypothesis Hf : forall i, f i == inject_Z i * r + (t + r / 2).

  Lemma dro_two p q m fb : 2 <= m ->
    exists res off,
      data_resolution_and_offset (map (fun k => f (p + q * k)) (iota m)) fb = Ok (res, off) /\
      res == r * inject_Z q /\ off == t + r * inject_Z p + r / 2 - res / 2.
  Proof.
    intros Hm.
    destruct (map_iota_two (fun k => f (p + q * k)) m Hm) as (mid & E).
    assert (Hlen : zlen (map (fun k => f (p + q * k)) (iota m)) = m).
    { rewrite zlen_map, zlen_iota; lia. }
    rewrite E in *. rewrite dro_cons.
    eexists _, _; split; [reflexivity|].
    rewrite Hlen.
    assert (Hm1 : ~ inject_Z (m - 1) == 0).
    { unfold Qeq, inject_Z; simpl; lia. }
    rewrite !Hf. rewrite !inject_Z_plus, !inject_Z_mult.
    unfold Z.sub. rewrite inject_Z_plus, inject_Z_opp.
    change (inject_Z 1) with 1%Q. change (inject_Z 0) with 0%Q.
    unfold Z.sub in Hm1. rewrite inject_Z_plus, inject_Z_opp in Hm1. change (inject_Z 1) with 1%Q in Hm1.
    set (M := inject_Z m) in *. set (P := inject_Z p). set (Qq := inject_Z q).
    split; field; auto.
  Qed.

  Lemma dro_one p fb res :
    fb = Some res ->
    data_resolution_and_offset [f p] fb = Ok (res, (f p - (1 # 2) * res)%Q).
  Proof. intros ->; reflexivity. Qed.

  Lemma dro_one_none p : data_resolution_and_offset [f p] None = Err EValue.
  Proof. reflexivity. Qed.
End Axis.

Lemma dro_empty fb : data_resolution_and_offset [] fb = Err EValue.
Proof. reflexivity. Qed.

Lemma label_spec t r i : label t r i == inject_Z i * r + (t + r / 2).
Proof. reflexivity. Qed.

Lemma pix_label_spec i : pix_label i == inject_Z i * 1 + (0 + 1 / 2).
Proof. unfold pix_label. field. Qed.

(* ================================================================== Python slices *)
Lemma range_pos a b st k : 0 < st -> a < b -> 0 <= k < (b - a - 1) / st + 1 -> a <= a + k * st < b.
Proof.
  intros Hs Hab Hk.
  pose proof (Z.mul_div_le (b - a - 1) st Hs).
  assert (k * st <= (b - a - 1) / st * st) by (apply Z.mul_le_mono_nonneg_r; lia).
  nia.
Qed.

Lemma range_neg a b st k : st < 0 -> b < a -> 0 <= k < (a - b - 1) / (- st) + 1 -> b < a + k * st <= a.
Proof.
  intros Hs Hab Hk.
  assert (Hs' : 0 < - st) by lia.
  pose proof (Z.mul_div_le (a - b - 1) (- st) Hs').
  assert (k * (- st) <= (a - b - 1) / (- st) * (- st)) by (apply Z.mul_le_mono_nonneg_r; lia).
  nia.
Qed.

Lemma div_plus1_nonneg a st : 0 <= a -> 0 < st -> 0 <= a / st + 1.
Proof. intros; pose proof (Z.div_pos a st); lia. Qed.

Lemma slice_clamp_bounds n lo hi v : lo <= 0 -> n - 1 <= hi -> lo <= hi -> lo <= slice_clamp n lo hi v <= hi.
Proof. intros; unfold slice_clamp; destruct (Z.ltb_spec v 0); lia. Qed.

Lemma slice_len_spec start stop step : step <> 0 ->
  0 <= slice_len start stop step /\
  forall k, 0 <= k < slice_len start stop step ->
    if step <? 0 then stop < start + k * step <= start else start <= start + k * step < stop.
Proof.
  intros Hs. unfold slice_len.
  destruct (Z.ltb_spec step 0) as [Hneg|Hpos].
  - destruct (Z.ltb_spec stop start) as [Hba|Hba].
    + split; [apply div_plus1_nonneg; lia|]. intros k Hk. apply range_neg; auto.
    + split; [lia|]. intros; lia.
  - assert (0 < step) by lia.
    destruct (Z.ltb_spec start stop) as [Hab|Hab].
    + split; [apply div_plus1_nonneg; lia|]. intros k Hk. apply range_pos; auto.
    + split; [lia|]. intros; lia.
Qed.

(** every index a slice selects is a valid position, whatever the bounds *)
Lemma slice_adjust_spec n s start step m :
  0 <= n -> slice_adjust n s = Ok (start, step, m) ->
  step <> 0 /\ 0 <= m /\ forall k, 0 <= k < m -> 0 <= start + k * step < n.
Proof.
  intros Hn. unfold slice_adjust. cbv zeta.
  destruct (Z.eqb_spec (match s_step s with Some v => v | None => 1 end) 0) as [|Hst]; [discriminate|].
  intros E; injection E as Es Et Em. subst step.
  set (st := match s_step s with Some v => v | None => 1 end) in *.
  split; [exact Hst|].
  destruct (Z.ltb_spec st 0) as [Hneg|Hpos]; rewrite Es in Em.
  - assert (Ha : -1 <= start <= n - 1).
    { subst start. destruct (s_start s); [apply slice_clamp_bounds|]; lia. }
    set (b := match s_stop s with Some v => slice_clamp n (-1) (n - 1) v | None => -1 end) in *.
    assert (Hb : -1 <= b <= n - 1).
    { subst b. destruct (s_stop s); [apply slice_clamp_bounds|]; lia. }
    destruct (slice_len_spec start b st Hst) as (H0 & Hr). rewrite Em in H0, Hr.
    split; auto. intros k Hk. specialize (Hr k Hk).
    destruct (Z.ltb_spec st 0); lia.
  - assert (Ha : 0 <= start <= n).
    { subst start. destruct (s_start s); [apply slice_clamp_bounds|]; lia. }
    set (b := match s_stop s with Some v => slice_clamp n 0 n v | None => n end) in *.
    assert (Hb : 0 <= b <= n).
    { subst b. destruct (s_stop s); [apply slice_clamp_bounds|]; lia. }
    destruct (slice_len_spec start b st Hst) as (H0 & Hr). rewrite Em in H0, Hr.
    split; auto. intros k Hk. specialize (Hr k Hk).
    destruct (Z.ltb_spec st 0); lia.
Qed.

(* ------------------------------------------------------------------ pick *)
Lemma pick_map {A B} (g : A -> B) l idx : pick (map g l) idx = map g (pick l idx).
Proof.
  unfold pick. induction idx as [|i idx IH]; simpl; auto.
  rewrite map_app, IH. f_equal.
  destruct (i <? 0); auto. rewrite nth_error_map. destruct (nth_error l (Z.to_nat i)); reflexivity.
Qed.

Lemma pick_iota_in_range n idx : (forall i, In i idx -> 0 <= i < n) -> pick (iota n) idx = idx.
Proof.
  unfold pick. induction idx as [|i idx IH]; intros H; simpl; auto.
  assert (Hi : 0 <= i < n) by (apply H; now left).
  destruct (Z.ltb_spec i 0); [lia|].
  rewrite nth_error_iota by lia. simpl. rewrite Z2Nat.id by lia. f_equal. apply IH; intros; apply H; now right.
Qed.

Lemma pick_incl {A} (l : list A) idx x : In x (pick l idx) -> In x l.
Proof.
  unfold pick. rewrite in_flat_map. intros (i & _ & Hx).
  destruct (i <? 0); [contradiction|].
  destruct (nth_error l (Z.to_nat i)) eqn:E; [|contradiction].
  destruct Hx as [<-|[]]. eapply nth_error_In; eauto.
Qed.

(** arithmetic progressions of pixel indices are closed under positional slicing *)

Lemma is_ap_iota n : 0 <= n -> is_ap (iota n).
Proof.
  intros H; exists 0, 1, n; split; auto. unfold ap.
  rewrite <- (map_id (iota n)) at 1. apply map_ext; intros; lia.
Qed.

Lemma zlen_ap p q m : 0 <= m -> zlen (ap p q m) = m.
Proof. intros; unfold ap; rewrite zlen_map, zlen_iota; lia. Qed.

Lemma pick_ap p q m s sidx : 0 <= m ->
  slice_idx (zlen (ap p q m)) s = Ok sidx ->
  exists start step m', 0 <= m' /\ step <> 0 /\
    sidx = ap start step m' /\
    (forall k, 0 <= k < m' -> 0 <= start + step * k < m) /\
    pick (ap p q m) sidx = ap (p + q * start) (q * step) m'.
Proof.
  intros Hm. rewrite zlen_ap by auto. unfold slice_idx.
  destruct (slice_adjust m s) as [[[start step] m']|e] eqn:E; simpl; [|discriminate].
  intros H; injection H as <-.
  destruct (slice_adjust_spec m s start step m' Hm E) as (Hs & Hm' & Hr).
  exists start, step, m'. split; [auto|]. split; [auto|]. split; [|split].
  - unfold ap; apply map_ext; intros; lia.
  - intros k Hk. specialize (Hr k Hk). lia.
  - unfold ap at 1. rewrite pick_map.
    rewrite pick_iota_in_range.
    + unfold ap. rewrite map_map. apply map_ext; intros; lia.
    + intros i Hi. apply in_map_iff in Hi. destruct Hi as (k & <- & Hk). apply In_iota in Hk.
      apply Hr; auto.
Qed.

Lemma axis_idx_ap d h : forall idx idx',
  is_ap idx -> axis_idx d idx h = Ok idx' -> is_ap idx' /\ incl idx' idx.
Proof.
  induction h as [|o h IH]; intros idx idx' Hap; simpl.
  - intros E; injection E as <-. split; auto. apply incl_refl.
  - destruct o as [d' s | dims' gm' attrs'].
    + destruct (String.eqb d' d); [|apply IH; auto].
      destruct (slice_idx (zlen idx) s) as [sidx|e] eqn:E; simpl; [|discriminate].
      intros H.
      destruct Hap as (p & q & m & Hm & ->).
      destruct (pick_ap p q m s sidx Hm E) as (start & step & m' & Hm' & _ & _ & _ & Hp).
      destruct (IH (pick (ap p q m) sidx) idx') as (H1 & H2); auto.
      * rewrite Hp. exists (p + q * start), (q * step), m'; auto.
      * split; auto. intros x Hx. apply H2 in Hx. eapply pick_incl; eauto.
    + apply IH; auto.
Qed.

(* ================================================================== recovery of one axis, centre form *)
Section AxisCentre.
  Variables (f : Z -> Q) (t r : Q).
  Hypothesis Hf : forall i, f i == inject_Z i * r + (t + r / 2).

  (** [m >= 2] labels, or one label and a fallback resolution: pixel [k] of the
      remaining axis is mapped to the label of original pixel [p + q*k]. *)
  Lemma axis_centre p q m fb : 1 <= m -> (2 <= m \/ fb <> None) ->
    exists res off,
      data_resolution_and_offset (map f (ap p q m)) fb = Ok (res, off) /\
      (forall k, 0 <= k < m -> off + res * (inject_Z k + (1 # 2)) == f (p + q * k)) /\
      (2 <= m -> res == r * inject_Z q /\ off == t + r * inject_Z p + r / 2 - res / 2) /\
      (m = 1 -> fb = Some res).
  Proof.
    intros Hm Hfb. unfold ap. rewrite map_map.
    destruct (Z_le_gt_dec 2 m) as [H2|H1].
    - destruct (dro_two f t r Hf p q m fb H2) as (res & off & E & Hr & Ho).
      exists res, off. split; [exact E|]. split; [|split; [auto | intros; lia]].
      intros k Hk. rewrite Ho, Hr, Hf. rewrite inject_Z_plus, inject_Z_mult. field.
    - assert (m = 1) by lia. subst m.
      destruct Hfb as [|Hfb]; [lia|]. destruct fb as [res|]; [|congruence].
      exists res, (f (p + q * 0) - (1 # 2) * res)%Q. split; [reflexivity|].
      split; [|split; [intros; lia | auto]].
      intros k Hk. assert (k = 0) by lia. subst k. simpl. field.
  Qed.
End AxisCentre.

(** two axes: [affine_from_axis] on labels that follow arithmetic progressions *)
Section TwoAxes.
  Variables (fx fy : Z -> Q) (tx rx ty ry : Q).
  Hypothesis Hfx : forall i, fx i == inject_Z i * rx + (tx + rx / 2).
  Hypothesis Hfy : forall i, fy i == inject_Z i * ry + (ty + ry / 2).

  Lemma affine_from_axis_ap px qx mx py qy my fbk :
    1 <= mx -> 1 <= my -> ((2 <= mx /\ 2 <= my) \/ fbk <> None) ->
    exists T,
      affine_from_axis (map fx (ap px qx mx)) (map fy (ap py qy my)) fbk = Ok T /\
      fb T == 0 /\ fd T == 0 /\
      (forall j k, 0 <= j < my -> 0 <= k < mx ->
         fst (aff_apply T (inject_Z k + (1 # 2)) (inject_Z j + (1 # 2))) == fx (px + qx * k) /\
         snd (aff_apply T (inject_Z k + (1 # 2)) (inject_Z j + (1 # 2))) == fy (py + qy * j)) /\
      (2 <= mx -> fa T == rx * inject_Z qx /\ fc T == tx + rx * inject_Z px + rx / 2 - rx * inject_Z qx / 2) /\
      (2 <= my -> fe T == ry * inject_Z qy /\ ff T == ty + ry * inject_Z py + ry / 2 - ry * inject_Z qy / 2) /\
      (mx = 1 -> exists r, fbk = Some r /\ fa T == fst r) /\
      (my = 1 -> exists r, fbk = Some r /\ fe T == snd r).
  Proof.
    intros Hmx Hmy Hfb.
    assert (Hx : 2 <= mx \/ option_map fst fbk <> None).
    { destruct Hfb as [[? ?]|Hfb]; [left; auto | right; destruct fbk; simpl; congruence]. }
    assert (Hy : 2 <= my \/ option_map snd fbk <> None).
    { destruct Hfb as [[? ?]|Hfb]; [left; auto | right; destruct fbk; simpl; congruence]. }
    destruct (axis_centre fx tx rx Hfx px qx mx (option_map fst fbk) Hmx Hx) as (xres & xoff & Ex & Cx & Rx & Fx).
    destruct (axis_centre fy ty ry Hfy py qy my (option_map snd fbk) Hmy Hy) as (yres & yoff & Ey & Cy & Ry & Fy).
    unfold affine_from_axis. rewrite Ex, Ey. simpl.
    eexists; split; [reflexivity|].
    unfold aff_mul, aff_translation, aff_scale, aff_apply; simpl.
    split; [ring|]. split; [ring|].
    split.
    { intros j k Hj Hk. split.
      - rewrite <- (Cx k Hk). ring.
      - rewrite <- (Cy j Hj). ring. }
    split.
    { intros H. destruct (Rx H) as (R1 & R2). split.
      - rewrite <- R1. ring.
      - rewrite <- R1, R2. ring. }
    split.
    { intros H. destruct (Ry H) as (R1 & R2). split.
      - rewrite <- R1. ring.
      - rewrite <- R1, R2. ring. }
    split.
    { intros H. specialize (Fx H). destruct fbk as [r0|]; simpl in Fx; [|discriminate].
      exists r0; split; auto. injection Fx as <-. ring. }
    { intros H. specialize (Fy H). destruct fbk as [r0|]; simpl in Fy; [|discriminate].
      exists r0; split; auto. injection Fy as <-. ring. }
  Qed.
End TwoAxes.

(* ================================================================== _extract_transform / _locate_geo_info, computed *)
Definition compose_tr (P : option aff) (T : aff) : aff :=
  match P with Some p => aff_mul p T | None => T end.
Definition is_some {A} (o : option A) : bool := match o with Some _ => true | None => false end.

(** the fallback resolution the (repaired or unrepaired) code comes up with *)
Definition fallback_of (fx : fixes) (tol : Q) (crs_coord : option coord) (gcp : bool) (P : option aff)
  : res (option (Q * Q)) :=
  if (fx_pix_unit fx && is_some P) || (fx_gcp_unit fx && gcp)
  then Ok (Some (1, 1)%Q)
  else match crs_coord with
       | None => Ok None
       | Some cc =>
           match extract_geo_transform cc with
           | None => Ok None
           | Some orig => r <- resolution_from_affine tol orig ;; Ok (Some r)
           end
       end.

Lemma afa_short xs ys : zlen xs = 1 \/ zlen ys = 1 -> exists e, affine_from_axis xs ys None = Err e.
Proof.
  intros H. unfold affine_from_axis; simpl.
  destruct (data_resolution_and_offset xs None) as [[xr xo]|e] eqn:Ex; simpl; [|eauto].
  destruct H as [H|H].
  - destruct xs as [|x [|x' xs]]; try discriminate Ex. unfold zlen in H; simpl in H; lia.
  - destruct ys as [|y [|y' ys]]; simpl; eauto. unfold zlen in H; simpl in H; lia.
Qed.

Lemma extract_transform_ok fx tol cs yd xd cy cx crs_coord gcp T :
  lookup yd cs = Some cy -> lookup xd cs = Some cx ->
  affine_from_axis (co_vals cx) (co_vals cy) None = Ok T ->
  extract_transform fx tol cs (yd, xd) crs_coord gcp =
  Ok (Some (compose_tr (if gcp then None else co_tr cx) T)).
Proof.
  intros Hy Hx E. unfold extract_transform; simpl. rewrite Hy, Hx, E. simpl.
  destruct (if gcp then None else co_tr cx); reflexivity.
Qed.

Lemma extract_transform_fallback fx tol cs yd xd cy cx crs_coord gcp e r T :
  lookup yd cs = Some cy -> lookup xd cs = Some cx ->
  affine_from_axis (co_vals cx) (co_vals cy) None = Err e ->
  fallback_of fx tol crs_coord gcp (if gcp then None else co_tr cx) = Ok (Some r) ->
  affine_from_axis (co_vals cx) (co_vals cy) (Some r) = Ok T ->
  extract_transform fx tol cs (yd, xd) crs_coord gcp =
  Ok (Some (compose_tr (if gcp then None else co_tr cx) T)).
Proof.
  intros Hy Hx E F E2. unfold extract_transform; simpl. rewrite Hy, Hx, E.
  unfold fallback_of, is_some in F.
  set (P := if gcp then None else co_tr cx) in *.
  destruct ((fx_pix_unit fx && match P with Some _ => true | None => false end) || (fx_gcp_unit fx && gcp)).
  - injection F as <-. simpl. rewrite E2. simpl. destruct P; reflexivity.
  - destruct crs_coord as [cc|]; [|discriminate].
    destruct (extract_geo_transform cc) as [orig|]; [|discriminate].
    destruct (resolution_from_affine tol orig) as [r0|]; simpl in F; [|discriminate].
    injection F as <-. simpl. rewrite E2. simpl. destruct P; reflexivity.
Qed.

Lemma locate_compute fx tol x sd ny nx :
  spatial_dims (map fst (x_dims x)) = Some sd ->
  lookup (fst sd) (x_dims x) = Some ny -> lookup (snd sd) (x_dims x) = Some nx ->
  locate_geo_info fx tol x =
    (let cc := locate_crs_coords (x_gm x) (x_attrs x) (x_coords x) in
     let '(crs_coord, c, gcp) :=
       match cc with
       | (_, c0) :: _ => (Some c0, extract_crs c0, extract_gcps c0)
       | [] => (None, get_crs_from_attrs x sd, None)
       end in
     transform <- extract_transform fx tol (x_coords x) sd crs_coord (is_some gcp) ;;
     Ok (GeoState (Some sd) c transform
                  (match gcp with
                   | Some pts => Some (AGcp ny nx (match transform with Some t => t | None => aff_id end) pts c)
                   | None => match transform with Some t => Some (ABox (GBox ny nx t c)) | None => None end
                   end))).
Proof.
  intros H1 H2 H3. unfold locate_geo_info. rewrite H1, H2, H3. reflexivity.
Qed.

(** The geometric core: labels following arithmetic progressions of original
    pixel indices on a regular grid, possibly in pixel space with an encoded
    pixel->world transform [P]. *)
Section Labels.
  Variables (fxl fyl : Z -> Q) (tx rx ty ry : Q).
  Hypothesis Hfx : forall i, fxl i == inject_Z i * rx + (tx + rx / 2).
  Hypothesis Hfy : forall i, fyl i == inject_Z i * ry + (ty + ry / 2).

  Lemma extract_transform_ap fx tol cs yd xd cy cx crs_coord gcp px qx mx py qy my :
    lookup yd cs = Some cy -> lookup xd cs = Some cx ->
    co_vals cx = map fxl (ap px qx mx) -> co_vals cy = map fyl (ap py qy my) ->
    1 <= mx -> 1 <= my ->
    ((2 <= mx /\ 2 <= my) \/
     exists r, fallback_of fx tol crs_coord gcp (if gcp then None else co_tr cx) = Ok (Some r)) ->
    exists T,
      extract_transform fx tol cs (yd, xd) crs_coord gcp =
        Ok (Some (compose_tr (if gcp then None else co_tr cx) T)) /\
      fb T == 0 /\ fd T == 0 /\
      (forall j k, 0 <= j < my -> 0 <= k < mx ->
         fst (aff_apply T (inject_Z k + (1 # 2)) (inject_Z j + (1 # 2))) == fxl (px + qx * k) /\
         snd (aff_apply T (inject_Z k + (1 # 2)) (inject_Z j + (1 # 2))) == fyl (py + qy * j)) /\
      (2 <= mx -> fa T == rx * inject_Z qx /\ fc T == tx + rx * inject_Z px + rx / 2 - rx * inject_Z qx / 2) /\
      (2 <= my -> fe T == ry * inject_Z qy /\ ff T == ty + ry * inject_Z py + ry / 2 - ry * inject_Z qy / 2) /\
      (mx = 1 -> exists r, fallback_of fx tol crs_coord gcp (if gcp then None else co_tr cx) = Ok (Some r) /\ fa T == fst r) /\
      (my = 1 -> exists r, fallback_of fx tol crs_coord gcp (if gcp then None else co_tr cx) = Ok (Some r) /\ fe T == snd r).
  Proof.
    intros Hy Hx Vx Vy Hmx Hmy Hfb.
    destruct (Z_le_gt_dec 2 mx) as [Hx2|Hx1]; [destruct (Z_le_gt_dec 2 my) as [Hy2|Hy1]|].
    - (* both axes have >= 2 labels *)
      destruct (affine_from_axis_ap fxl fyl tx rx ty ry Hfx Hfy px qx mx py qy my None Hmx Hmy)
        as (T & E & P1 & P2 & P3 & P4 & P5 & P6 & P7); [left; auto|].
      exists T. rewrite <- Vx, <- Vy in E.
      split; [eapply extract_transform_ok; eauto|].
      repeat (split; [assumption|]). split; intros; lia.
    - (* one row *)
      destruct Hfb as [[? ?]|(r & F)]; [lia|].
      destruct (afa_short (co_vals cx) (co_vals cy)) as (e & Ee).
      { right. rewrite Vy, zlen_map, zlen_ap; lia. }
      destruct (affine_from_axis_ap fxl fyl tx rx ty ry Hfx Hfy px qx mx py qy my (Some r) Hmx Hmy)
        as (T & E & P1 & P2 & P3 & P4 & P5 & P6 & P7); [right; congruence|].
      exists T. rewrite <- Vx, <- Vy in E.
      split; [eapply extract_transform_fallback; eauto|].
      repeat (split; [assumption|]).
      split; intros H; [destruct (P6 H) as (r0 & R0 & R1) | destruct (P7 H) as (r0 & R0 & R1)];
        injection R0 as <-; exists r; auto.
    - (* one column *)
      destruct Hfb as [[? ?]|(r & F)]; [lia|].
      destruct (afa_short (co_vals cx) (co_vals cy)) as (e & Ee).
      { left. rewrite Vx, zlen_map, zlen_ap; lia. }
      destruct (affine_from_axis_ap fxl fyl tx rx ty ry Hfx Hfy px qx mx py qy my (Some r) Hmx Hmy)
        as (T & E & P1 & P2 & P3 & P4 & P5 & P6 & P7); [right; congruence|].
      exists T. rewrite <- Vx, <- Vy in E.
      split; [eapply extract_transform_fallback; eauto|].
      repeat (split; [assumption|]).
      split; intros H; [destruct (P6 H) as (r0 & R0 & R1) | destruct (P7 H) as (r0 & R0 & R1)];
        injection R0 as <-; exists r; auto.
  Qed.
End Labels.

(* ================================================================== geo-referenced arrays and their histories *)
(** What the recovery relies on in an array that was produced by [wrap_xr] and
    then sliced / passed through element-wise operations: the two label
    coordinates (values = label function over the current index lists, attrs,
    encoding), the CRS coordinate if any, no grid_mapping/crs attributes on the
    array itself. *)
Record georef (yd xd : string) (fyl fxl : Z -> Q) (ay ax : attrs) (Py P : option aff)
       (gm0 : option string) (ccn : option (string * coord)) (iy ix : list Z) (x : xobj) : Prop := {
  gr_da : x_is_ds x = false;
  gr_sd : spatial_dims (map fst (x_dims x)) = Some (yd, xd);
  gr_ny : lookup yd (x_dims x) = Some (zlen iy);
  gr_nx : lookup xd (x_dims x) = Some (zlen ix);
  gr_cy : lookup yd (x_coords x) = Some (Coord [yd] (map fyl iy) ay Py);
  gr_cx : lookup xd (x_coords x) = Some (Coord [xd] (map fxl ix) ax P);
  gr_gm : x_gm x = None \/ x_gm x = gm0;
  gr_at : lookup "grid_mapping" (x_attrs x) = None /\ lookup "crs" (x_attrs x) = None /\
          lookup "crs_wkt" (x_attrs x) = None;
  gr_ref : filter (fun nc => is_spatial_ref (snd nc)) (x_coords x) =
           match ccn with Some p => [p] | None => [] end;
  gr_cc : match gm0 with Some n => lookup n (x_coords x) = option_map snd ccn | None => True end;
  gr_ccd : match ccn with Some p => co_dims (snd p) = [] | None => True end
}.

Lemma georef_crs_coords yd xd fyl fxl ay ax Py P gm0 ccn iy ix x :
  georef yd xd fyl fxl ay ax Py P gm0 ccn iy ix x ->
  exists nm, locate_crs_coords (x_gm x) (x_attrs x) (x_coords x) =
             match ccn with Some p => [(nm, snd p)] | None => [] end.
Proof.
  intros G. destruct (gr_at _ _ _ _ _ _ _ _ _ _ _ _ _ G) as (A1 & _).
  unfold locate_crs_coords, grid_mapping_of.
  destruct (gr_gm _ _ _ _ _ _ _ _ _ _ _ _ _ G) as [E|E]; rewrite E.
  - rewrite A1. rewrite (gr_ref _ _ _ _ _ _ _ _ _ _ _ _ _ G). destruct ccn as [[n c]|]; [exists n|exists ""]; reflexivity.
  - destruct gm0 as [n|].
    + pose proof (gr_cc _ _ _ _ _ _ _ _ _ _ _ _ _ G) as C. simpl in C. rewrite C.
      exists n. destruct ccn as [[n' c]|]; reflexivity.
    + rewrite A1. rewrite (gr_ref _ _ _ _ _ _ _ _ _ _ _ _ _ G). destruct ccn as [[n c]|]; [exists n|exists ""]; reflexivity.
Qed.

(* ------------------------------------------------------------------ isel *)
Lemma lookup_dims_resize (dims : list (string * Z)) d m k :
  lookup k (map (fun dn => if String.eqb (fst dn) d then (fst dn, m) else dn) dims) =
  if String.eqb k d then option_map (fun _ => m) (lookup k dims) else lookup k dims.
Proof.
  induction dims as [|(k', v) dims IH]; simpl; [destruct (String.eqb k d); reflexivity|].
  destruct (String.eqb k' d) eqn:E1; simpl.
  - destruct (String.eqb k k') eqn:E2.
    + apply String.eqb_eq in E2; subst. rewrite E1. reflexivity.
    + exact IH.
  - destruct (String.eqb k k') eqn:E2.
    + apply String.eqb_eq in E2; subst. rewrite E1. reflexivity.
    + exact IH.
Qed.

Lemma map_fst_resize (dims : list (string * Z)) d m :
  map fst (map (fun dn => if String.eqb (fst dn) d then (fst dn, m) else dn) dims) = map fst dims.
Proof.
  rewrite map_map. apply map_ext. intros (k, v); simpl. destruct (String.eqb k d); reflexivity.
Qed.

Lemma filter_map_val {V} (p : V -> bool) (g : V -> V) (l : list (string * V)) :
  (forall v, p (g v) = p v) ->
  filter (fun nc => p (snd nc)) (map (fun nc => (fst nc, g (snd nc))) l) =
  map (fun nc => (fst nc, g (snd nc))) (filter (fun nc => p (snd nc)) l).
Proof.
  intros H. induction l as [|(k, v) l IH]; simpl; auto.
  rewrite H. destruct (p v); simpl; rewrite IH; reflexivity.
Qed.

Lemma slice_idx_in_range n s idx : 0 <= n -> slice_idx n s = Ok idx -> forall i, In i idx -> 0 <= i < n.
Proof.
  intros Hn. unfold slice_idx.
  destruct (slice_adjust n s) as [[[start step] m]|e] eqn:E; simpl; [|discriminate].
  intros H; injection H as <-. intros i Hi.
  destruct (slice_adjust_spec n s start step m Hn E) as (_ & _ & Hr).
  apply in_map_iff in Hi. destruct Hi as (k & <- & Hk). apply In_iota in Hk. apply Hr; auto.
Qed.

Lemma zlen_pick {A} (l : list A) idx : (forall i, In i idx -> 0 <= i < zlen l) -> zlen (pick l idx) = zlen idx.
Proof.
  unfold zlen. intros H. f_equal. unfold pick.
  induction idx as [|i idx IH]; simpl; auto.
  rewrite app_length.
  assert (Hi : 0 <= i < Z.of_nat (List.length l)) by (apply H; now left).
  destruct (Z.ltb_spec i 0); [lia|].
  destruct (nth_error l (Z.to_nat i)) eqn:E.
  - simpl. f_equal. apply IH. intros; apply H; now right.
  - apply nth_error_None in E. lia.
Qed.

Definition sel1 (dim : string) (idx : list Z) (c : coord) : coord :=
  if smem dim (co_dims c)
  then Coord (co_dims c) (match co_dims c with [_] => pick (co_vals c) idx | _ => co_vals c end)
             (co_attrs c) (co_tr c)
  else c.

Lemma isel_unfold x dim s n :
  lookup dim (x_dims x) = Some n ->
  isel x dim s =
  (idx <- slice_idx n s ;;
   Ok (XObj (x_is_ds x)
            (map (fun dn => if String.eqb (fst dn) dim then (fst dn, zlen idx) else dn) (x_dims x))
            (x_gm x) (x_attrs x)
            (map (fun nc => (fst nc, sel1 dim idx (snd nc))) (x_coords x)) (x_vars x))).
Proof. intros H; unfold isel; rewrite H; reflexivity. Qed.

Lemma is_spatial_ref_sel1 dim idx c : is_spatial_ref (sel1 dim idx c) = is_spatial_ref c.
Proof. unfold sel1. destruct (smem dim (co_dims c)); reflexivity. Qed.

Lemma sel1_scalar dim idx c : co_dims c = [] -> sel1 dim idx c = c.
Proof. intros H; unfold sel1; rewrite H; reflexivity. Qed.

Lemma sel1_other dim idx d vals a tr : d <> dim -> sel1 dim idx (Coord [d] vals a tr) = Coord [d] vals a tr.
Proof.
  intros N; unfold sel1; simpl.
  destruct (String.eqb dim d) eqn:E; [apply String.eqb_eq in E; congruence | reflexivity].
Qed.

Lemma sel1_same dim idx vals a tr : sel1 dim idx (Coord [dim] vals a tr) = Coord [dim] (pick vals idx) a tr.
Proof. unfold sel1; simpl. rewrite String.eqb_refl. reflexivity. Qed.

Section History.
  Variables (yd xd : string) (fyl fxl : Z -> Q) (ay ax : attrs) (Py P : option aff)
            (gm0 : option string) (ccn : option (string * coord)).
  Hypothesis Hne : yd <> xd.

  Lemma georef_isel iy ix x d s x' :
    georef yd xd fyl fxl ay ax Py P gm0 ccn iy ix x ->
    isel x d s = Ok x' ->
    exists iy' ix',
      axis_idx yd iy [OIsel d s] = Ok iy' /\ axis_idx xd ix [OIsel d s] = Ok ix' /\
      georef yd xd fyl fxl ay ax Py P gm0 ccn iy' ix' x'.
  Proof.
    intros G E.
    destruct (lookup d (x_dims x)) as [n|] eqn:Ed; [|unfold isel in E; rewrite Ed in E; discriminate].
    rewrite (isel_unfold x d s n Ed) in E.
    destruct (slice_idx n s) as [idx|e] eqn:Es; simpl in E; [|discriminate].
    injection E as <-.
    pose proof (gr_ny _ _ _ _ _ _ _ _ _ _ _ _ _ G) as Hny.
    pose proof (gr_nx _ _ _ _ _ _ _ _ _ _ _ _ _ G) as Hnx.
    simpl.
    assert (Hiy : exists iy', (if String.eqb d yd then i <- slice_idx (zlen iy) s ;; Ok (pick iy i) else Ok iy) = Ok iy' /\
                              iy' = (if String.eqb d yd then pick iy idx else iy) /\ zlen iy' = (if String.eqb d yd then zlen idx else zlen iy)).
    { destruct (String.eqb d yd) eqn:Ey.
      - apply String.eqb_eq in Ey; subst d. rewrite Hny in Ed; injection Ed as <-. rewrite Es. simpl.
        eexists; split; [reflexivity|]. split; auto.
        apply zlen_pick. eapply slice_idx_in_range; eauto. apply zlen_nonneg.
      - eexists; split; [reflexivity|]. auto. }
    assert (Hix : exists ix', (if String.eqb d xd then i <- slice_idx (zlen ix) s ;; Ok (pick ix i) else Ok ix) = Ok ix' /\
                              ix' = (if String.eqb d xd then pick ix idx else ix) /\ zlen ix' = (if String.eqb d xd then zlen idx else zlen ix)).
    { destruct (String.eqb d xd) eqn:Ex.
      - apply String.eqb_eq in Ex; subst d. rewrite Hnx in Ed; injection Ed as <-. rewrite Es. simpl.
        eexists; split; [reflexivity|]. split; auto.
        apply zlen_pick. eapply slice_idx_in_range; eauto. apply zlen_nonneg.
      - eexists; split; [reflexivity|]. auto. }
    destruct Hiy as (iy' & Ey1 & Ey2 & Ey3). destruct Hix as (ix' & Ex1 & Ex2 & Ex3).
    exists iy', ix'.
    split. { destruct (String.eqb d yd); [destruct (slice_idx (zlen iy) s); simpl in *; congruence | congruence]. }
    split. { destruct (String.eqb d xd); [destruct (slice_idx (zlen ix) s); simpl in *; congruence | congruence]. }
    constructor; simpl.
    - apply (gr_da _ _ _ _ _ _ _ _ _ _ _ _ _ G).
    - rewrite map_fst_resize. apply (gr_sd _ _ _ _ _ _ _ _ _ _ _ _ _ G).
    - rewrite lookup_dims_resize, Hny, Ey3. rewrite (String.eqb_sym yd d). destruct (String.eqb d yd); reflexivity.
    - rewrite lookup_dims_resize, Hnx, Ex3. rewrite (String.eqb_sym xd d). destruct (String.eqb d xd); reflexivity.
    - rewrite lookup_map_val, (gr_cy _ _ _ _ _ _ _ _ _ _ _ _ _ G). simpl. f_equal. subst iy'.
      destruct (String.eqb d yd) eqn:E1.
      + apply String.eqb_eq in E1; subst d. rewrite sel1_same, pick_map. reflexivity.
      + apply sel1_other. intros ->. rewrite String.eqb_refl in E1; discriminate.
    - rewrite lookup_map_val, (gr_cx _ _ _ _ _ _ _ _ _ _ _ _ _ G). simpl. f_equal. subst ix'.
      destruct (String.eqb d xd) eqn:E1.
      + apply String.eqb_eq in E1; subst d. rewrite sel1_same, pick_map. reflexivity.
      + apply sel1_other. intros ->. rewrite String.eqb_refl in E1; discriminate.
    - apply (gr_gm _ _ _ _ _ _ _ _ _ _ _ _ _ G).
    - apply (gr_at _ _ _ _ _ _ _ _ _ _ _ _ _ G).
    - rewrite (filter_map_val is_spatial_ref (sel1 d idx)) by (apply is_spatial_ref_sel1).
      rewrite (gr_ref _ _ _ _ _ _ _ _ _ _ _ _ _ G).
      pose proof (gr_ccd _ _ _ _ _ _ _ _ _ _ _ _ _ G) as D.
      destruct ccn as [[n1 c]|]; simpl; auto. simpl in D. rewrite sel1_scalar by auto. reflexivity.
    - pose proof (gr_cc _ _ _ _ _ _ _ _ _ _ _ _ _ G) as C.
      pose proof (gr_ccd _ _ _ _ _ _ _ _ _ _ _ _ _ G) as D.
      destruct gm0 as [n0|]; auto. rewrite lookup_map_val, C.
      destruct ccn as [[n' c]|]; simpl; auto. simpl in D. rewrite sel1_scalar by auto. reflexivity.
    - apply (gr_ccd _ _ _ _ _ _ _ _ _ _ _ _ _ G).
  Qed.
End History.

(* ------------------------------------------------------------------ element-wise operations *)
Lemma lookup_In {V} k (v : V) l : lookup k l = Some v -> In (k, v) l.
Proof.
  induction l as [|(k', v') l IH]; simpl; [discriminate|].
  destruct (String.eqb k k') eqn:E.
  - apply String.eqb_eq in E; subst. intros H; injection H as ->. now left.
  - intros H; right; auto.
Qed.

Lemma amap_eqb_Z_lookup (a b : list (string * Z)) k v :
  amap_eqb Z.eqb a b = true -> lookup k a = Some v -> lookup k b = Some v.
Proof.
  unfold amap_eqb. rewrite andb_true_iff, !forallb_forall. intros (H1 & _) L.
  specialize (H1 (k, v) (lookup_In _ _ _ L)). simpl in H1.
  destruct (lookup k b) as [v'|]; simpl in H1; [|discriminate].
  apply Z.eqb_eq in H1. congruence.
Qed.

Lemma kept_or_dropped_none k a a' : kept_or_dropped k a a' = true -> lookup k a = None -> lookup k a' = None.
Proof.
  unfold kept_or_dropped. destruct (lookup k a') as [v'|]; auto.
  intros H E; rewrite E in H; discriminate.
Qed.

Lemma sd_eqb_eq a b : sd_eqb a b = true -> a = b.
Proof.
  destruct a, b; unfold sd_eqb; simpl. rewrite andb_true_iff, !String.eqb_eq. intros (-> & ->); reflexivity.
Qed.

Lemma georef_elem yd xd fyl fxl ay ax Py P gm0 ccn iy ix x dims' gm' attrs' x' :
  georef yd xd fyl fxl ay ax Py P gm0 ccn iy ix x ->
  elem_step x dims' gm' attrs' = Ok x' ->
  georef yd xd fyl fxl ay ax Py P gm0 ccn iy ix x'.
Proof.
  intros G. unfold elem_step.
  destruct (dims_eqb false (x_dims x) dims') eqn:C1; simpl; [|discriminate].
  destruct (opt_eqb sd_eqb (spatial_dims (map fst (x_dims x))) (spatial_dims (map fst dims'))) eqn:C2; simpl; [|discriminate].
  destruct (match gm' with None => true | Some s => opt_eqb String.eqb (x_gm x) (Some s) end) eqn:C3; simpl; [|discriminate].
  destruct (kept_or_dropped "grid_mapping" (x_attrs x) attrs') eqn:C4; simpl; [|discriminate].
  destruct (kept_or_dropped "crs" (x_attrs x) attrs') eqn:C5; simpl; [|discriminate].
  destruct (kept_or_dropped "crs_wkt" (x_attrs x) attrs') eqn:C6; simpl; [|discriminate].
  intros E; injection E as <-.
  destruct (gr_at _ _ _ _ _ _ _ _ _ _ _ _ _ G) as (A1 & A2 & A3).
  constructor; simpl.
  - apply (gr_da _ _ _ _ _ _ _ _ _ _ _ _ _ G).
  - rewrite (gr_sd _ _ _ _ _ _ _ _ _ _ _ _ _ G) in C2.
    destruct (spatial_dims (map fst dims')) as [sd|]; simpl in C2; [|discriminate].
    apply sd_eqb_eq in C2. congruence.
  - eapply amap_eqb_Z_lookup; [exact C1 | apply (gr_ny _ _ _ _ _ _ _ _ _ _ _ _ _ G)].
  - eapply amap_eqb_Z_lookup; [exact C1 | apply (gr_nx _ _ _ _ _ _ _ _ _ _ _ _ _ G)].
  - apply (gr_cy _ _ _ _ _ _ _ _ _ _ _ _ _ G).
  - apply (gr_cx _ _ _ _ _ _ _ _ _ _ _ _ _ G).
  - destruct gm' as [s|]; [|left; reflexivity].
    destruct (x_gm x) as [s0|] eqn:E0; simpl in C3; [|discriminate].
    apply String.eqb_eq in C3; subst s0.
    destruct (gr_gm _ _ _ _ _ _ _ _ _ _ _ _ _ G) as [E|E]; rewrite E0 in E; [discriminate | right; exact E].
  - repeat split; eapply kept_or_dropped_none; eauto.
  - apply (gr_ref _ _ _ _ _ _ _ _ _ _ _ _ _ G).
  - apply (gr_cc _ _ _ _ _ _ _ _ _ _ _ _ _ G).
  - apply (gr_ccd _ _ _ _ _ _ _ _ _ _ _ _ _ G).
Qed.

(** every finite history keeps the array geo-referenced, with the composed index maps *)
Lemma georef_history yd xd fyl fxl ay ax Py P gm0 ccn : yd <> xd ->
  forall h iy ix x x',
    georef yd xd fyl fxl ay ax Py P gm0 ccn iy ix x ->
    run_history x h = Ok x' ->
    exists iy' ix',
      axis_idx yd iy h = Ok iy' /\ axis_idx xd ix h = Ok ix' /\
      georef yd xd fyl fxl ay ax Py P gm0 ccn iy' ix' x'.
Proof.
  intros Hne. induction h as [|o h IH]; intros iy ix x x' G; simpl.
  - intros E; injection E as <-. exists iy, ix; auto.
  - destruct o as [d s | dims' gm' attrs'].
    + destruct (isel x d s) as [x1|e] eqn:E1; simpl; [|discriminate].
      intros E2.
      destruct (georef_isel yd xd fyl fxl ay ax Py P gm0 ccn Hne iy ix x d s x1 G E1)
        as (iy1 & ix1 & A1 & A2 & G1).
      destruct (IH iy1 ix1 x1 x' G1 E2) as (iy' & ix' & B1 & B2 & G').
      exists iy', ix'. simpl in A1, A2.
      split; [|split; [|exact G']].
      * destruct (String.eqb d yd); [|congruence].
        destruct (slice_idx (zlen iy) s); simpl in *; [|discriminate]. congruence.
      * destruct (String.eqb d xd); [|congruence].
        destruct (slice_idx (zlen ix) s); simpl in *; [|discriminate]. congruence.
    + destruct (elem_step x dims' gm' attrs') as [x1|e] eqn:E1; simpl; [|discriminate].
      intros E2. eapply IH; [|exact E2]. eapply georef_elem; eauto.
Qed.

(* ------------------------------------------------------------------ recovery from a geo-referenced array *)
(** what the recovery itself needs (weaker than [georef], which is the part that
    histories preserve): used for arrays taken out of a reprojected Dataset *)
Record georef_w (yd xd : string) (fyl fxl : Z -> Q) (ay ax : attrs) (Py P : option aff)
       (ccn : option (string * coord)) (iy ix : list Z) (x : xobj) : Prop := {
  gw_da : x_is_ds x = false;
  gw_sd : spatial_dims (map fst (x_dims x)) = Some (yd, xd);
  gw_ny : lookup yd (x_dims x) = Some (zlen iy);
  gw_nx : lookup xd (x_dims x) = Some (zlen ix);
  gw_cy : lookup yd (x_coords x) = Some (Coord [yd] (map fyl iy) ay Py);
  gw_cx : lookup xd (x_coords x) = Some (Coord [xd] (map fxl ix) ax P);
  gw_at : lookup "crs" (x_attrs x) = None /\ lookup "crs_wkt" (x_attrs x) = None;
  gw_ccs : exists nm, locate_crs_coords (x_gm x) (x_attrs x) (x_coords x) =
                      match ccn with Some p => [(nm, snd p)] | None => [] end
}.

Lemma georef_weaken yd xd fyl fxl ay ax Py P gm0 ccn iy ix x :
  georef yd xd fyl fxl ay ax Py P gm0 ccn iy ix x -> georef_w yd xd fyl fxl ay ax Py P ccn iy ix x.
Proof.
  intros G. constructor.
  - apply (gr_da _ _ _ _ _ _ _ _ _ _ _ _ _ G).
  - apply (gr_sd _ _ _ _ _ _ _ _ _ _ _ _ _ G).
  - apply (gr_ny _ _ _ _ _ _ _ _ _ _ _ _ _ G).
  - apply (gr_nx _ _ _ _ _ _ _ _ _ _ _ _ _ G).
  - apply (gr_cy _ _ _ _ _ _ _ _ _ _ _ _ _ G).
  - apply (gr_cx _ _ _ _ _ _ _ _ _ _ _ _ _ G).
  - destruct (gr_at _ _ _ _ _ _ _ _ _ _ _ _ _ G) as (_ & A2 & A3); auto.
  - eapply georef_crs_coords; eauto.
Qed.

Lemma georef_crs_from_attrs yd xd fyl fxl ay ax Py P ccn iy ix x :
  georef_w yd xd fyl fxl ay ax Py P ccn iy ix x ->
  get_crs_from_attrs x (yd, xd) = hd_error (attr_crs_candidates ay ++ attr_crs_candidates ax).
Proof.
  intros G. unfold get_crs_from_attrs. rewrite (gw_da _ _ _ _ _ _ _ _ _ _ _ _ G).
  destruct (gw_at _ _ _ _ _ _ _ _ _ _ _ _ G) as (A2 & A3).
  unfold attr_crs_candidates at 1. rewrite A2, A3. simpl.
  rewrite (gw_cy _ _ _ _ _ _ _ _ _ _ _ _ G), (gw_cx _ _ _ _ _ _ _ _ _ _ _ _ G). simpl.
  rewrite app_nil_r. reflexivity.
Qed.

Section Recover.
  Variables (fxl fyl : Z -> Q) (tx rx ty ry : Q).
  Hypothesis Hfx : forall i, fxl i == inject_Z i * rx + (tx + rx / 2).
  Hypothesis Hfy : forall i, fyl i == inject_Z i * ry + (ty + ry / 2).

  Lemma locate_georef_w fx tol yd xd ay ax Py P ccn px qx mx py qy my x :
    georef_w yd xd fyl fxl ay ax Py P ccn (ap py qy my) (ap px qx mx) x ->
    1 <= mx -> 1 <= my ->
    let crs_coord := option_map snd ccn in
    let gcp := match ccn with Some p => extract_gcps (snd p) | None => None end in
    let P' := if is_some gcp then None else P in
    let c := match ccn with
             | Some p => extract_crs (snd p)
             | None => hd_error (attr_crs_candidates ay ++ attr_crs_candidates ax)
             end in
    ((2 <= mx /\ 2 <= my) \/ exists r, fallback_of fx tol crs_coord (is_some gcp) P' = Ok (Some r)) ->
    exists T,
      locate_geo_info fx tol x =
        Ok (GeoState (Some (yd, xd)) c (Some (compose_tr P' T))
                     (match gcp with
                      | Some pts => Some (AGcp my mx (compose_tr P' T) pts c)
                      | None => Some (ABox (GBox my mx (compose_tr P' T) c))
                      end)) /\
      fb T == 0 /\ fd T == 0 /\
      (forall j k, 0 <= j < my -> 0 <= k < mx ->
         fst (aff_apply T (inject_Z k + (1 # 2)) (inject_Z j + (1 # 2))) == fxl (px + qx * k) /\
         snd (aff_apply T (inject_Z k + (1 # 2)) (inject_Z j + (1 # 2))) == fyl (py + qy * j)) /\
      (2 <= mx -> fa T == rx * inject_Z qx /\ fc T == tx + rx * inject_Z px + rx / 2 - rx * inject_Z qx / 2) /\
      (2 <= my -> fe T == ry * inject_Z qy /\ ff T == ty + ry * inject_Z py + ry / 2 - ry * inject_Z qy / 2) /\
      (mx = 1 -> exists r, fallback_of fx tol crs_coord (is_some gcp) P' = Ok (Some r) /\ fa T == fst r) /\
      (my = 1 -> exists r, fallback_of fx tol crs_coord (is_some gcp) P' = Ok (Some r) /\ fe T == snd r).
  Proof.
    intros G Hmx Hmy crs_coord gcp P' c Hfb.
    pose proof (gw_ny _ _ _ _ _ _ _ _ _ _ _ _ G) as Hny. rewrite zlen_ap in Hny by lia.
    pose proof (gw_nx _ _ _ _ _ _ _ _ _ _ _ _ G) as Hnx. rewrite zlen_ap in Hnx by lia.
    destruct (gw_ccs _ _ _ _ _ _ _ _ _ _ _ _ G) as (nm & Hcc).
    rewrite (locate_compute fx tol x (yd, xd) my mx (gw_sd _ _ _ _ _ _ _ _ _ _ _ _ G) Hny Hnx).
    cbv zeta. rewrite Hcc.
    rewrite (georef_crs_from_attrs _ _ _ _ _ _ _ _ _ _ _ _ G).
    assert (ET : exists T,
      extract_transform fx tol (x_coords x) (yd, xd) crs_coord (is_some gcp) = Ok (Some (compose_tr P' T)) /\
      fb T == 0 /\ fd T == 0 /\
      (forall j k, 0 <= j < my -> 0 <= k < mx ->
         fst (aff_apply T (inject_Z k + (1 # 2)) (inject_Z j + (1 # 2))) == fxl (px + qx * k) /\
         snd (aff_apply T (inject_Z k + (1 # 2)) (inject_Z j + (1 # 2))) == fyl (py + qy * j)) /\
      (2 <= mx -> fa T == rx * inject_Z qx /\ fc T == tx + rx * inject_Z px + rx / 2 - rx * inject_Z qx / 2) /\
      (2 <= my -> fe T == ry * inject_Z qy /\ ff T == ty + ry * inject_Z py + ry / 2 - ry * inject_Z qy / 2) /\
      (mx = 1 -> exists r, fallback_of fx tol crs_coord (is_some gcp) P' = Ok (Some r) /\ fa T == fst r) /\
      (my = 1 -> exists r, fallback_of fx tol crs_coord (is_some gcp) P' = Ok (Some r) /\ fe T == snd r)).
    { exact (extract_transform_ap fxl fyl tx rx ty ry Hfx Hfy fx tol (x_coords x) yd xd
               (Coord [yd] (map fyl (ap py qy my)) ay Py) (Coord [xd] (map fxl (ap px qx mx)) ax P)
               crs_coord (is_some gcp) px qx mx py qy my
               (gw_cy _ _ _ _ _ _ _ _ _ _ _ _ G) (gw_cx _ _ _ _ _ _ _ _ _ _ _ _ G)
               eq_refl eq_refl Hmx Hmy Hfb). }
    destruct ET as (T & E & Props).
    exists T. split; [|exact Props].
    subst crs_coord gcp c. destruct ccn as [[n cc]|]; simpl in *.
    - rewrite E. simpl. destruct (extract_gcps cc); reflexivity.
    - rewrite E. reflexivity.
  Qed.
  Lemma locate_georef fx tol yd xd ay ax Py P gm0 ccn px qx mx py qy my x :
    georef yd xd fyl fxl ay ax Py P gm0 ccn (ap py qy my) (ap px qx mx) x ->
    1 <= mx -> 1 <= my ->
    let crs_coord := option_map snd ccn in
    let gcp := match ccn with Some p => extract_gcps (snd p) | None => None end in
    let P' := if is_some gcp then None else P in
    let c := match ccn with
             | Some p => extract_crs (snd p)
             | None => hd_error (attr_crs_candidates ay ++ attr_crs_candidates ax)
             end in
    ((2 <= mx /\ 2 <= my) \/ exists r, fallback_of fx tol crs_coord (is_some gcp) P' = Ok (Some r)) ->
    exists T,
      locate_geo_info fx tol x =
        Ok (GeoState (Some (yd, xd)) c (Some (compose_tr P' T))
                     (match gcp with
                      | Some pts => Some (AGcp my mx (compose_tr P' T) pts c)
                      | None => Some (ABox (GBox my mx (compose_tr P' T) c))
                      end)) /\
      fb T == 0 /\ fd T == 0 /\
      (forall j k, 0 <= j < my -> 0 <= k < mx ->
         fst (aff_apply T (inject_Z k + (1 # 2)) (inject_Z j + (1 # 2))) == fxl (px + qx * k) /\
         snd (aff_apply T (inject_Z k + (1 # 2)) (inject_Z j + (1 # 2))) == fyl (py + qy * j)) /\
      (2 <= mx -> fa T == rx * inject_Z qx /\ fc T == tx + rx * inject_Z px + rx / 2 - rx * inject_Z qx / 2) /\
      (2 <= my -> fe T == ry * inject_Z qy /\ ff T == ty + ry * inject_Z py + ry / 2 - ry * inject_Z qy / 2) /\
      (mx = 1 -> exists r, fallback_of fx tol crs_coord (is_some gcp) P' = Ok (Some r) /\ fa T == fst r) /\
      (my = 1 -> exists r, fallback_of fx tol crs_coord (is_some gcp) P' = Ok (Some r) /\ fe T == snd r).
  Proof. intros G. apply (locate_georef_w fx tol yd xd ay ax Py P ccn px qx mx py qy my x). eapply georef_weaken; eauto. Qed.
End Recover.

(* ================================================================== wrap_xr produces a geo-referenced array *)
Lemma crs_dims_cases c : crs_dims c = ("y", "x") \/ crs_dims c = ("latitude", "longitude").
Proof. destruct c as [[i []]|]; simpl; auto. Qed.


Lemma aset_fresh {V} k (v : V) l : lookup k l = None -> aset k v l = l ++ [(k, v)].
Proof.
  induction l as [|(k', v') l IH]; simpl; auto.
  destruct (String.eqb k k'); [discriminate|]. intros H; rewrite IH; auto.
Qed.

Lemma lookup_app {V} k (a b : list (string * V)) :
  lookup k (a ++ b) = match lookup k a with Some v => Some v | None => lookup k b end.
Proof. induction a as [|(ka, va) a IH]; simpl; auto. destruct (String.eqb k ka); auto. Qed.

Lemma eqb_neq a b : a <> b -> String.eqb a b = false.
Proof. intros N; destruct (String.eqb a b) eqn:E; auto. apply String.eqb_eq in E; contradiction. Qed.

(** the object [wrap_xr] assembles around the two label coordinates and the optional CRS coordinate *)
Definition wrapped (yd xd : string) (cy cx : coord) (ccn : option (string * coord)) (ny nx : Z)
           (ntime nband : option Z) (name : option string) (at_ : attrs) : xobj :=
  let cs := [(yd, cy); (xd, cx)] in
  let cs := match ccn with Some p => aset (fst p) (snd p) cs | None => cs end in
  let cs := match ntime with Some _ => aset "time" (Coord ["time"] [] [] None) cs | None => cs end in
  let cs := match nband with Some _ => aset "band" (Coord ["band"] [] [] None) cs | None => cs end in
  XObj false
       (match ntime with Some n => [("time", n)] | None => [] end
          ++ [(yd, ny); (xd, nx)] ++ match nband with Some n => [("band", n)] | None => [] end)
       name at_ cs [].

Lemma wrapped_georef yd xd fyl fxl ay ax Py P ccn ny nx ntime nband name at_ :
  ((yd, xd) = ("y", "x") \/ (yd, xd) = ("latitude", "longitude")) ->
  name_ok name yd xd -> clean_attrs at_ -> 0 <= ny -> 0 <= nx ->
  match ccn with
  | Some p => name = Some (fst p) /\ co_dims (snd p) = [] /\ is_spatial_ref (snd p) = true
  | None => True
  end ->
  georef yd xd fyl fxl ay ax Py P name ccn (iota ny) (iota nx)
         (wrapped yd xd (Coord [yd] (map fyl (iota ny)) ay Py) (Coord [xd] (map fxl (iota nx)) ax P)
                  ccn ny nx ntime nband name at_).
Proof.
  intros Hd Hn Ha Hny Hnx Hc.
  set (cy := Coord [yd] (map fyl (iota ny)) ay Py). set (cx := Coord [xd] (map fxl (iota nx)) ax P).
  assert (Dyx : yd <> xd /\ yd <> "time" /\ yd <> "band" /\ xd <> "time" /\ xd <> "band").
  { destruct Hd as [E|E]; injection E as -> ->; repeat split; discriminate. }
  destruct Dyx as (D1 & D2 & D3 & D4 & D5).
  (* the coordinate list, explicitly *)
  set (tailc := match ccn with Some p => [(fst p, snd p)] | None => [] end
                ++ match ntime with Some _ => [("time", Coord ["time"] [] [] None)] | None => [] end
                ++ match nband with Some _ => [("band", Coord ["band"] [] [] None)] | None => [] end).
  assert (Ecs : x_coords (wrapped yd xd cy cx ccn ny nx ntime nband name at_) = [(yd, cy); (xd, cx)] ++ tailc).
  { assert (L2 : forall k, k <> yd -> k <> xd -> lookup k [(yd, cy); (xd, cx)] = None).
    { intros k K1 K2; cbn [lookup]. rewrite (eqb_neq k yd K1), (eqb_neq k xd K2). reflexivity. }
    unfold wrapped, tailc; cbn [x_coords].
    set (ct := Coord ["time"] [] [] None). set (cb := Coord ["band"] [] [] None).
    destruct ccn as [[n cc]|]; cbn [fst snd].
    - destruct Hc as (-> & _ & _). destruct Hn as (N1 & N2 & N3 & N4).
      rewrite (aset_fresh n cc) by (apply L2; auto).
      simpl in N1, N2, N3, N4.
      assert (Ft : lookup "time" ([(yd, cy); (xd, cx)] ++ [(n, cc)]) = None).
      { rewrite lookup_app, L2 by congruence. cbn [lookup]. rewrite (eqb_neq "time" n) by congruence. reflexivity. }
      assert (Fb : forall l, lookup "band" l = None -> lookup "band" (l ++ [("time", ct)]) = None).
      { intros l Hl. rewrite lookup_app, Hl. reflexivity. }
      assert (Fb0 : lookup "band" ([(yd, cy); (xd, cx)] ++ [(n, cc)]) = None).
      { rewrite lookup_app, L2 by congruence. cbn [lookup]. rewrite (eqb_neq "band" n) by congruence. reflexivity. }
      destruct ntime, nband.
      + rewrite (aset_fresh "time" ct) by exact Ft. rewrite (aset_fresh "band" cb) by (apply Fb; exact Fb0).
        rewrite <- ?app_assoc. reflexivity.
      + rewrite (aset_fresh "time" ct) by exact Ft. rewrite <- ?app_assoc. reflexivity.
      + rewrite (aset_fresh "band" cb) by exact Fb0. rewrite <- ?app_assoc. reflexivity.
      + rewrite <- ?app_assoc. reflexivity.
    - assert (Ft : lookup "time" [(yd, cy); (xd, cx)] = None) by (apply L2; congruence).
      assert (Fb0 : lookup "band" [(yd, cy); (xd, cx)] = None) by (apply L2; congruence).
      assert (Fb : lookup "band" ([(yd, cy); (xd, cx)] ++ [("time", ct)]) = None).
      { rewrite lookup_app, Fb0. reflexivity. }
      destruct ntime, nband.
      + rewrite (aset_fresh "time" ct) by exact Ft. rewrite (aset_fresh "band" cb) by exact Fb.
        rewrite <- ?app_assoc. reflexivity.
      + rewrite (aset_fresh "time" ct) by exact Ft. reflexivity.
      + rewrite (aset_fresh "band" cb) by exact Fb0. reflexivity.
      + reflexivity. }
  constructor.
  - reflexivity.
  - unfold wrapped; simpl. destruct Hd as [E|E]; injection E as -> ->; destruct ntime, nband; reflexivity.
  - unfold wrapped; simpl. rewrite zlen_iota.
    destruct ntime; simpl; rewrite ?(eqb_neq yd "time") by auto; rewrite String.eqb_refl; f_equal; lia.
  - unfold wrapped; simpl. rewrite zlen_iota.
    destruct ntime; simpl; rewrite ?(eqb_neq xd "time") by auto;
      rewrite (eqb_neq xd yd) by congruence; rewrite String.eqb_refl; f_equal; lia.
  - rewrite Ecs. simpl. rewrite String.eqb_refl. reflexivity.
  - rewrite Ecs. simpl. rewrite (eqb_neq xd yd) by congruence. rewrite String.eqb_refl. reflexivity.
  - right; reflexivity.
  - exact Ha.
  - rewrite Ecs. unfold tailc. simpl.
    destruct ccn as [[n cc]|]; simpl in *.
    + destruct Hc as (_ & _ & Hs). rewrite Hs. destruct ntime, nband; reflexivity.
    + destruct ntime, nband; reflexivity.
  - destruct name as [n|]; auto. rewrite Ecs. simpl in Hn. destruct Hn as (N1 & N2 & N3 & N4).
    simpl. rewrite (eqb_neq n yd N1), (eqb_neq n xd N2). unfold tailc.
    destruct ccn as [[n' cc]|]; simpl in *.
    + destruct Hc as (E & _ & _). injection E as <-. rewrite String.eqb_refl. reflexivity.
    + destruct ntime, nband; simpl; rewrite ?(eqb_neq n "time"), ?(eqb_neq n "band") by auto; reflexivity.
  - destruct ccn as [[n cc]|]; simpl in *; tauto.
Qed.

(* ------------------------------------------------------------------ wrap_xr = wrapped, per GeoBox class *)
Definition wrap_attrs (nodata : option Q) (user : attrs) : attrs :=
  let at_ := match nodata with Some v => aset "nodata" (VNum v) user | None => user end in
  match nodata, lookup "nodata" user with Some _, Some u => aset "nodata" u at_ | _, _ => at_ end.

Lemma clean_wrap_attrs nodata user : clean_attrs user -> clean_attrs (wrap_attrs nodata user).
Proof.
  intros (A1 & A2 & A3). unfold wrap_attrs, clean_attrs.
  destruct nodata as [v|]; [|auto].
  destruct (lookup "nodata" user); rewrite ?lookup_aset; simpl; auto.
Qed.

Definition crs_coord_of (name : option string) (c : option crs) (gcps : option (list gcp)) (t : option aff)
  : option (string * coord) :=
  match name, c with
  | Some n, Some c => Some (n, mk_crs_coord c gcps t)
  | _, _ => None
  end.


Lemma wrap_xr_st tol g nt nb nd name user :
  is_affine_st tol (g_aff g) = true ->
  let t := g_aff g in
  let yd := fst (crs_dims (g_crs g)) in
  let xd := snd (crs_dims (g_crs g)) in
  wrap_xr tol (ABox g) nt nb nd name user =
  Ok (wrapped yd xd
        (Coord [yd] (map (label (ff t) (fe t)) (iota (g_ny g)))
               ([("units", VOther); ("resolution", VNum (fe t))] ++ cattrs_of (g_crs g)) None)
        (Coord [xd] (map (label (fc t) (fa t)) (iota (g_nx g)))
               ([("units", VOther); ("resolution", VNum (fa t))] ++ cattrs_of (g_crs g)) None)
        (crs_coord_of name (g_crs g) None (Some t))
        (g_ny g) (g_nx g) nt nb name (wrap_attrs nd user)).
Proof.
  intros Hst. unfold wrap_xr, xr_coords. cbn [box_crs box_shape]. rewrite Hst.
  destruct (crs_dims_cases (g_crs g)) as [E|E]; rewrite E; cbn -[aset iota label];
    destruct name as [n|], (g_crs g) as [c|]; reflexivity.
Qed.

Lemma wrap_xr_rot tol g nt nb nd name user :
  is_affine_st tol (g_aff g) = false ->
  let t := g_aff g in
  let yd := fst (crs_dims (g_crs g)) in
  let xd := snd (crs_dims (g_crs g)) in
  wrap_xr tol (ABox g) nt nb nd name user =
  Ok (wrapped yd xd
        (Coord [yd] (map pix_label (iota (g_ny g))) [("units", VOther)] (Some t))
        (Coord [xd] (map pix_label (iota (g_nx g))) [("units", VOther)] (Some t))
        (crs_coord_of name (g_crs g) None (Some t))
        (g_ny g) (g_nx g) nt nb name (wrap_attrs nd user)).
Proof.
  intros Hst. unfold wrap_xr, xr_coords. cbn [box_crs box_shape]. rewrite Hst.
  destruct (crs_dims_cases (g_crs g)) as [E|E]; rewrite E; cbn -[aset iota pix_label];
    destruct name as [n|], (g_crs g) as [c|]; reflexivity.
Qed.

Lemma wrap_xr_gcp tol ny nx a pts c ai nt nb nd name user :
  aff_inv a = Some ai ->
  let yd := fst (crs_dims c) in
  let xd := snd (crs_dims c) in
  wrap_xr tol (AGcp ny nx a pts c) nt nb nd name user =
  Ok (wrapped yd xd
        (Coord [yd] (map pix_label (iota ny)) [("units", VOther)] None)
        (Coord [xd] (map pix_label (iota nx)) [("units", VOther)] None)
        (crs_coord_of name c (Some (gcps_of ai pts)) None)
        ny nx nt nb name (wrap_attrs nd user)).
Proof.
  intros Hi. unfold wrap_xr, xr_coords. cbn [box_crs box_shape]. rewrite Hi.
  destruct (crs_dims_cases c) as [E|E]; rewrite E; cbn -[aset iota pix_label gcps_of];
    destruct name as [n|], c as [c|]; reflexivity.
Qed.

Lemma nth_ap p q m k : 0 <= k < m -> nth (Z.to_nat k) (ap p q m) 0 = p + q * k.
Proof.
  intros H. unfold ap.
  assert (E : nth_error (map (fun k0 => p + q * k0) (iota m)) (Z.to_nat k) = Some (p + q * k)).
  { rewrite nth_error_map, nth_error_iota by lia. simpl. now rewrite Z2Nat.id by lia. }
  eapply nth_error_nth in E. exact E.
Qed.

Lemma crs_coord_of_ok name c gcps t :
  match crs_coord_of name c gcps t with
  | Some p => name = Some (fst p) /\ co_dims (snd p) = [] /\ is_spatial_ref (snd p) = true
  | None => True
  end.
Proof. destruct name, c; simpl; auto. Qed.

Lemma crs_dims_pair c :
  (fst (crs_dims c), snd (crs_dims c)) = ("y", "x") \/ (fst (crs_dims c), snd (crs_dims c)) = ("latitude", "longitude").
Proof. destruct (crs_dims_cases c) as [E|E]; rewrite E; auto. Qed.

(* ================================================================== main results: histories *)
Lemma fallback_st tol t c :
  is_affine_st tol t = true ->
  fallback_of repaired tol (Some (mk_crs_coord c None (Some t))) false None = Ok (Some (fa t, fe t)).
Proof.
  intros Hst. unfold fallback_of. simpl. destruct t as [a b c0 d e f]. simpl.
  unfold resolution_from_affine. rewrite Hst. reflexivity.
Qed.

Lemma ap_of_history d n h idx : 0 <= n -> axis_idx d (iota n) h = Ok idx ->
  exists p q m, 0 <= m /\ idx = ap p q m /\ forall k, 0 <= k < m -> 0 <= p + q * k < n.
Proof.
  intros Hn E.
  destruct (axis_idx_ap d h (iota n) idx (is_ap_iota n Hn) E) as ((p & q & m & Hm & ->) & Hincl).
  exists p, q, m. split; [auto|]. split; [auto|]. intros k Hk.
  assert (H : In (p + q * k) (iota n)).
  { apply Hincl; unfold ap; apply in_map_iff; exists k; split; auto; apply In_iota; auto. }
  apply In_iota in H; lia.
Qed.

(** axis-aligned GeoBox: after any history the recovered GeoBox has the remaining
    shape, the CRS, and maps the centre of remaining pixel (j, k) to the labels
    of original pixel (iy[j], ix[k]) -- which are the current coordinate labels. *)
Lemma history_axis_aligned tol g nt nb nd name user h x0 x iy ix :
  is_affine_st tol (g_aff g) = true -> 0 <= g_ny g -> 0 <= g_nx g ->
  let t := g_aff g in
  let yd := fst (crs_dims (g_crs g)) in
  let xd := snd (crs_dims (g_crs g)) in
  name_ok name yd xd -> clean_attrs user ->
  wrap_xr tol (ABox g) nt nb nd name user = Ok x0 ->
  run_history x0 h = Ok x ->
  axis_idx yd (iota (g_ny g)) h = Ok iy -> axis_idx xd (iota (g_nx g)) h = Ok ix ->
  1 <= zlen iy -> 1 <= zlen ix ->
  ((2 <= zlen iy /\ 2 <= zlen ix) \/ (name <> None /\ g_crs g <> None)) ->
  exists T,
    locate_geo_info repaired tol x =
      Ok (GeoState (Some (yd, xd)) (g_crs g) (Some T) (Some (ABox (GBox (zlen iy) (zlen ix) T (g_crs g))))) /\
    fb T == 0 /\ fd T == 0 /\
    (exists cy cx, lookup yd (x_coords x) = Some cy /\ lookup xd (x_coords x) = Some cx /\
                   co_vals cy = map (label (ff t) (fe t)) iy /\ co_vals cx = map (label (fc t) (fa t)) ix) /\
    (forall j k, 0 <= j < zlen iy -> 0 <= k < zlen ix ->
       fst (aff_apply T (inject_Z k + (1 # 2)) (inject_Z j + (1 # 2))) == label (fc t) (fa t) (nth (Z.to_nat k) ix 0) /\
       snd (aff_apply T (inject_Z k + (1 # 2)) (inject_Z j + (1 # 2))) == label (ff t) (fe t) (nth (Z.to_nat j) iy 0)) /\
    (2 <= zlen ix -> exists px qx, ix = ap px qx (zlen ix) /\ fa T == fa t * inject_Z qx /\
                                   fc T == fc t + fa t * inject_Z px + fa t / 2 - fa t * inject_Z qx / 2) /\
    (2 <= zlen iy -> exists py qy, iy = ap py qy (zlen iy) /\ fe T == fe t * inject_Z qy /\
                                   ff T == ff t + fe t * inject_Z py + fe t / 2 - fe t * inject_Z qy / 2) /\
    (zlen ix = 1 -> fa T == fa t) /\ (zlen iy = 1 -> fe T == fe t).
Proof.
  intros Hst Hny Hnx t yd xd Hname Hclean Hw Hh Hiy Hix Ly Lx Hfb.
  rewrite (wrap_xr_st tol g nt nb nd name user Hst) in Hw. injection Hw as <-.
  fold t yd xd in Hh.
  set (ccn := crs_coord_of name (g_crs g) None (Some t)) in *.
  assert (Hne : yd <> xd).
  { subst yd xd. destruct (crs_dims_cases (g_crs g)) as [E|E]; rewrite E; discriminate. }
  pose proof (wrapped_georef yd xd (label (ff t) (fe t)) (label (fc t) (fa t))
                ([("units", VOther); ("resolution", VNum (fe t))] ++ cattrs_of (g_crs g))
                ([("units", VOther); ("resolution", VNum (fa t))] ++ cattrs_of (g_crs g))
                None None ccn (g_ny g) (g_nx g) nt nb name (wrap_attrs nd user)
                (crs_dims_pair (g_crs g)) Hname (clean_wrap_attrs nd user Hclean) Hny Hnx
                (crs_coord_of_ok name (g_crs g) None (Some t))) as G0.
  destruct (georef_history _ _ _ _ _ _ _ _ _ _ Hne h _ _ _ _ G0 Hh) as (iy' & ix' & A1 & A2 & G).
  rewrite Hiy in A1; injection A1 as <-. rewrite Hix in A2; injection A2 as <-.
  destruct (ap_of_history yd (g_ny g) h iy Hny Hiy) as (py & qy & my & Hmy & -> & Ry).
  destruct (ap_of_history xd (g_nx g) h ix Hnx Hix) as (px & qx & mx & Hmx & -> & Rx).
  rewrite !zlen_ap in * by auto.
  destruct (locate_georef (label (fc t) (fa t)) (label (ff t) (fe t)) (fc t) (fa t) (ff t) (fe t)
              (label_spec _ _) (label_spec _ _) repaired tol yd xd _ _ None None name ccn
              px qx mx py qy my x G Lx Ly) as (T & E & P1 & P2 & P3 & P4 & P5 & P6 & P7).
  { destruct Hfb as [[? ?]|[Hn Hc]]; [left; auto|right].
    subst ccn. destruct name as [n|]; [|congruence]. destruct (g_crs g) as [c|]; [|congruence].
    simpl. eexists. apply fallback_st. exact Hst. }
  assert (Hgcp : match ccn with Some p => extract_gcps (snd p) | None => None end = None).
  { subst ccn. destruct name, (g_crs g); reflexivity. }
  assert (Hcrs : match ccn with
                 | Some p => extract_crs (snd p)
                 | None => hd_error (attr_crs_candidates ([("units", VOther); ("resolution", VNum (fe t))] ++ cattrs_of (g_crs g)) ++
                                     attr_crs_candidates ([("units", VOther); ("resolution", VNum (fa t))] ++ cattrs_of (g_crs g)))
                 end = g_crs g).
  { subst ccn. destruct name, (g_crs g); reflexivity. }
  rewrite Hgcp, Hcrs in E. simpl in E.
  exists T. split; [exact E|]. split; [exact P1|]. split; [exact P2|].
  split.
  { eexists _, _. split; [apply (gr_cy _ _ _ _ _ _ _ _ _ _ _ _ _ G)|].
    split; [apply (gr_cx _ _ _ _ _ _ _ _ _ _ _ _ _ G)|]. split; reflexivity. }
  split.
  { intros j k Hj Hk. rewrite !nth_ap by auto. apply P3; auto. }
  split. { intros H. exists px, qx. split; auto. }
  split. { intros H. exists py, qy. split; auto. }
  assert (Hfbv : forall r, fallback_of repaired tol (option_map snd ccn)
                             (is_some match ccn with Some p => extract_gcps (snd p) | None => None end)
                             (if is_some match ccn with Some p => extract_gcps (snd p) | None => None end then None else None)
                           = Ok (Some r) -> r = (fa t, fe t)).
  { intros r. rewrite Hgcp. simpl. subst ccn. destruct name as [n|], (g_crs g) as [c|]; simpl;
      try (intros Hr; discriminate Hr).
    fold t. rewrite (fallback_st tol t c Hst). intros Hr; injection Hr as <-. reflexivity. }
  split.
  { intros H. destruct (P6 H) as (r & Fr & Er). rewrite (Hfbv r Fr) in Er. exact Er. }
  { intros H. destruct (P7 H) as (r & Fr & Er). rewrite (Hfbv r Fr) in Er. exact Er. }
Qed.

Lemma aff_apply_compat m x y x' y' : x == x' -> y == y' ->
  fst (aff_apply m x y) == fst (aff_apply m x' y') /\ snd (aff_apply m x y) == snd (aff_apply m x' y').
Proof. intros Hx Hy; unfold aff_apply; simpl; rewrite Hx, Hy; split; reflexivity. Qed.

(** rotated / sheared GeoBox: pixel-space labels and the encoded transform *)
Lemma history_rotated tol g nt nb nd name user h x0 x iy ix :
  is_affine_st tol (g_aff g) = false -> 0 <= g_ny g -> 0 <= g_nx g ->
  let t := g_aff g in
  let yd := fst (crs_dims (g_crs g)) in
  let xd := snd (crs_dims (g_crs g)) in
  let c := match name with Some _ => g_crs g | None => None end in
  name_ok name yd xd -> clean_attrs user ->
  wrap_xr tol (ABox g) nt nb nd name user = Ok x0 ->
  run_history x0 h = Ok x ->
  axis_idx yd (iota (g_ny g)) h = Ok iy -> axis_idx xd (iota (g_nx g)) h = Ok ix ->
  1 <= zlen iy -> 1 <= zlen ix ->
  exists T,
    locate_geo_info repaired tol x =
      Ok (GeoState (Some (yd, xd)) c (Some (aff_mul t T)) (Some (ABox (GBox (zlen iy) (zlen ix) (aff_mul t T) c)))) /\
    fb T == 0 /\ fd T == 0 /\
    (exists cy cx, lookup yd (x_coords x) = Some cy /\ lookup xd (x_coords x) = Some cx /\
                   co_vals cy = map pix_label iy /\ co_vals cx = map pix_label ix /\ co_tr cx = Some t) /\
    (forall j k, 0 <= j < zlen iy -> 0 <= k < zlen ix ->
       (* the recovered pixel -> pixel' part agrees with the labels ... *)
       fst (aff_apply T (inject_Z k + (1 # 2)) (inject_Z j + (1 # 2))) == pix_label (nth (Z.to_nat k) ix 0) /\
       snd (aff_apply T (inject_Z k + (1 # 2)) (inject_Z j + (1 # 2))) == pix_label (nth (Z.to_nat j) iy 0) /\
       (* ... and the recovered GeoBox maps the pixel centre to the world location of the original pixel *)
       fst (aff_apply (aff_mul t T) (inject_Z k + (1 # 2)) (inject_Z j + (1 # 2))) ==
         fst (aff_apply t (inject_Z (nth (Z.to_nat k) ix 0) + (1 # 2)) (inject_Z (nth (Z.to_nat j) iy 0) + (1 # 2))) /\
       snd (aff_apply (aff_mul t T) (inject_Z k + (1 # 2)) (inject_Z j + (1 # 2))) ==
         snd (aff_apply t (inject_Z (nth (Z.to_nat k) ix 0) + (1 # 2)) (inject_Z (nth (Z.to_nat j) iy 0) + (1 # 2)))) /\
    (2 <= zlen ix -> exists px qx, ix = ap px qx (zlen ix) /\ fa T == inject_Z qx /\
                                   fc T == inject_Z px + (1 # 2) - inject_Z qx / 2) /\
    (2 <= zlen iy -> exists py qy, iy = ap py qy (zlen iy) /\ fe T == inject_Z qy /\
                                   ff T == inject_Z py + (1 # 2) - inject_Z qy / 2) /\
    (zlen ix = 1 -> fa T == 1) /\ (zlen iy = 1 -> fe T == 1).
Proof.
  intros Hst Hny Hnx t yd xd c Hname Hclean Hw Hh Hiy Hix Ly Lx.
  rewrite (wrap_xr_rot tol g nt nb nd name user Hst) in Hw. injection Hw as <-.
  fold t yd xd in Hh.
  set (ccn := crs_coord_of name (g_crs g) None (Some t)) in *.
  assert (Hne : yd <> xd).
  { subst yd xd. destruct (crs_dims_cases (g_crs g)) as [E|E]; rewrite E; discriminate. }
  pose proof (wrapped_georef yd xd pix_label pix_label [("units", VOther)] [("units", VOther)]
                (Some t) (Some t) ccn (g_ny g) (g_nx g) nt nb name (wrap_attrs nd user)
                (crs_dims_pair (g_crs g)) Hname (clean_wrap_attrs nd user Hclean) Hny Hnx
                (crs_coord_of_ok name (g_crs g) None (Some t))) as G0.
  destruct (georef_history _ _ _ _ _ _ _ _ _ _ Hne h _ _ _ _ G0 Hh) as (iy' & ix' & A1 & A2 & G).
  rewrite Hiy in A1; injection A1 as <-. rewrite Hix in A2; injection A2 as <-.
  destruct (ap_of_history yd (g_ny g) h iy Hny Hiy) as (py & qy & my & Hmy & -> & Ry).
  destruct (ap_of_history xd (g_nx g) h ix Hnx Hix) as (px & qx & mx & Hmx & -> & Rx).
  rewrite !zlen_ap in * by auto.
  assert (Hgcp : match ccn with Some p => extract_gcps (snd p) | None => None end = None).
  { subst ccn. destruct name, (g_crs g); reflexivity. }
  assert (Hcrs : match ccn with
                 | Some p => extract_crs (snd p)
                 | None => hd_error (attr_crs_candidates [("units", VOther)] ++ attr_crs_candidates [("units", VOther)])
                 end = c).
  { subst ccn c. destruct name, (g_crs g); reflexivity. }
  destruct (locate_georef pix_label pix_label 0 1 0 1 pix_label_spec pix_label_spec repaired tol yd xd _ _
              (Some t) (Some t) name ccn px qx mx py qy my x G Lx Ly) as (T & E & P1 & P2 & P3 & P4 & P5 & P6 & P7).
  { right. rewrite Hgcp. simpl. eexists; reflexivity. }
  rewrite Hgcp, Hcrs in E. simpl in E.
  exists T. split; [exact E|]. split; [exact P1|]. split; [exact P2|].
  split.
  { eexists _, _. split; [apply (gr_cy _ _ _ _ _ _ _ _ _ _ _ _ _ G)|].
    split; [apply (gr_cx _ _ _ _ _ _ _ _ _ _ _ _ _ G)|]. repeat split; reflexivity. }
  split.
  { intros j k Hj Hk. rewrite !nth_ap by auto.
    destruct (P3 j k Hj Hk) as (Q1 & Q2).
    split; [exact Q1|]. split; [exact Q2|].
    destruct (aff_mul_apply t T (inject_Z k + (1 # 2)) (inject_Z j + (1 # 2))) as (M1 & M2).
    rewrite M1, M2.
    apply aff_apply_compat; [rewrite Q1 | rewrite Q2]; reflexivity. }
  split.
  { intros H. exists px, qx. split; auto. destruct (P4 H) as (R1 & R2). split.
    - rewrite R1. ring.
    - rewrite R2. field. }
  split.
  { intros H. exists py, qy. split; auto. destruct (P5 H) as (R1 & R2). split.
    - rewrite R1. ring.
    - rewrite R2. field. }
  split.
  { intros H. destruct (P6 H) as (r & Fr & Er). rewrite Hgcp in Fr. simpl in Fr. injection Fr as <-. exact Er. }
  { intros H. destruct (P7 H) as (r & Fr & Er). rewrite Hgcp in Fr. simpl in Fr. injection Fr as <-. exact Er. }
Qed.

(** GCP based GeoBox: pixel-space labels, GCPs stored in the pixel frame of the wrapped GeoBox *)
Lemma history_gcp tol ny nx a pts crs ai nt nb nd n user h x0 x iy ix :
  aff_inv a = Some ai -> 0 <= ny -> 0 <= nx ->
  let yd := fst (crs_dims (Some crs)) in
  let xd := snd (crs_dims (Some crs)) in
  name_ok (Some n) yd xd -> clean_attrs user ->
  wrap_xr tol (AGcp ny nx a pts (Some crs)) nt nb nd (Some n) user = Ok x0 ->
  run_history x0 h = Ok x ->
  axis_idx yd (iota ny) h = Ok iy -> axis_idx xd (iota nx) h = Ok ix ->
  1 <= zlen iy -> 1 <= zlen ix ->
  exists T,
    locate_geo_info repaired tol x =
      Ok (GeoState (Some (yd, xd)) (Some crs) (Some T)
                   (Some (AGcp (zlen iy) (zlen ix) T (gcps_of ai pts) (Some crs)))) /\
    fb T == 0 /\ fd T == 0 /\
    (forall j k, 0 <= j < zlen iy -> 0 <= k < zlen ix ->
       fst (aff_apply T (inject_Z k + (1 # 2)) (inject_Z j + (1 # 2))) == inject_Z (nth (Z.to_nat k) ix 0) + (1 # 2) /\
       snd (aff_apply T (inject_Z k + (1 # 2)) (inject_Z j + (1 # 2))) == inject_Z (nth (Z.to_nat j) iy 0) + (1 # 2)) /\
    (2 <= zlen ix -> exists px qx, ix = ap px qx (zlen ix) /\ fa T == inject_Z qx /\
                                   fc T == inject_Z px + (1 # 2) - inject_Z qx / 2) /\
    (2 <= zlen iy -> exists py qy, iy = ap py qy (zlen iy) /\ fe T == inject_Z qy /\
                                   ff T == inject_Z py + (1 # 2) - inject_Z qy / 2) /\
    (zlen ix = 1 -> fa T == 1) /\ (zlen iy = 1 -> fe T == 1).
Proof.
  intros Hi Hny Hnx yd xd Hname Hclean Hw Hh Hiy Hix Ly Lx.
  rewrite (wrap_xr_gcp tol ny nx a pts (Some crs) ai nt nb nd (Some n) user Hi) in Hw. injection Hw as <-.
  fold yd xd in Hh.
  set (ccn := crs_coord_of (Some n) (Some crs) (Some (gcps_of ai pts)) None) in *.
  assert (Hne : yd <> xd).
  { subst yd xd. destruct (crs_dims_cases (Some crs)) as [E|E]; rewrite E; discriminate. }
  pose proof (wrapped_georef yd xd pix_label pix_label [("units", VOther)] [("units", VOther)]
                None None ccn ny nx nt nb (Some n) (wrap_attrs nd user)
                (crs_dims_pair (Some crs)) Hname (clean_wrap_attrs nd user Hclean) Hny Hnx
                (crs_coord_of_ok (Some n) (Some crs) (Some (gcps_of ai pts)) None)) as G0.
  destruct (georef_history _ _ _ _ _ _ _ _ _ _ Hne h _ _ _ _ G0 Hh) as (iy' & ix' & A1 & A2 & G).
  rewrite Hiy in A1; injection A1 as <-. rewrite Hix in A2; injection A2 as <-.
  destruct (ap_of_history yd ny h iy Hny Hiy) as (py & qy & my & Hmy & -> & Ry).
  destruct (ap_of_history xd nx h ix Hnx Hix) as (px & qx & mx & Hmx & -> & Rx).
  rewrite !zlen_ap in * by auto.
  destruct (locate_georef pix_label pix_label 0 1 0 1 pix_label_spec pix_label_spec repaired tol yd xd _ _
              None None (Some n) ccn px qx mx py qy my x G Lx Ly) as (T & E & P1 & P2 & P3 & P4 & P5 & P6 & P7).
  { right. simpl. eexists; reflexivity. }
  simpl in E.
  exists T. split; [exact E|]. split; [exact P1|]. split; [exact P2|].
  split.
  { intros j k Hj Hk. rewrite !nth_ap by auto. apply P3; auto. }
  split.
  { intros H. exists px, qx. split; auto. destruct (P4 H) as (R1 & R2). split.
    - rewrite R1. ring.
    - rewrite R2. field. }
  split.
  { intros H. exists py, qy. split; auto. destruct (P5 H) as (R1 & R2). split.
    - rewrite R1. ring.
    - rewrite R2. field. }
  split.
  { intros H. destruct (P6 H) as (r & Fr & Er). simpl in Fr. injection Fr as <-. exact Er. }
  { intros H. destruct (P7 H) as (r & Fr & Er). simpl in Fr. injection Fr as <-. exact Er. }
Qed.

(* ================================================================== round trips (empty history) *)
Lemma iota_ap n : iota n = ap 0 1 n.
Proof. unfold ap. rewrite <- (map_id (iota n)) at 1. apply map_ext; intros; lia. Qed.

Lemma iota_ap_unique n p q : 2 <= n -> iota n = ap p q n -> p = 0 /\ q = 1.
Proof.
  intros Hn E. rewrite iota_ap in E.
  assert (E0 : nth (Z.to_nat 0) (ap 0 1 n) 0 = nth (Z.to_nat 0) (ap p q n) 0) by (rewrite E; reflexivity).
  assert (E1 : nth (Z.to_nat 1) (ap 0 1 n) 0 = nth (Z.to_nat 1) (ap p q n) 0) by (rewrite E; reflexivity).
  rewrite !nth_ap in E0, E1 by lia. lia.
Qed.

Lemma axis_full n r t0 A B C y :
  1 <= n -> B == 0 ->
  (2 <= n -> exists p q, iota n = ap p q n /\ A == r * inject_Z q /\
                         C == t0 + r * inject_Z p + r / 2 - r * inject_Z q / 2) ->
  (n = 1 -> A == r) ->
  A * (inject_Z 0 + (1 # 2)) + B * y + C == inject_Z 0 * r + (t0 + r / 2) ->
  A == r /\ C == t0.
Proof.
  intros Hn HB H2 H1 Hc.
  destruct (Z_le_gt_dec 2 n) as [G|G].
  - destruct (H2 G) as (p & q & E & RA & RC).
    destruct (iota_ap_unique n p q G E) as (-> & ->).
    split; [rewrite RA | rewrite RC]; change (inject_Z 1) with 1%Q; change (inject_Z 0) with 0%Q; field.
  - assert (HA : A == r) by (apply H1; lia). split; auto.
    rewrite HB, HA in Hc. change (inject_Z 0) with 0%Q in Hc.
    assert (X : C == (0 * r + (t0 + r / 2)) - (r * (0 + (1 # 2)) + 0 * y)) by (rewrite <- Hc; ring).
    rewrite X. field.
Qed.

Lemma axis_full_y n r t0 A B C x :
  1 <= n -> B == 0 ->
  (2 <= n -> exists p q, iota n = ap p q n /\ A == r * inject_Z q /\
                         C == t0 + r * inject_Z p + r / 2 - r * inject_Z q / 2) ->
  (n = 1 -> A == r) ->
  B * x + A * (inject_Z 0 + (1 # 2)) + C == inject_Z 0 * r + (t0 + r / 2) ->
  A == r /\ C == t0.
Proof.
  intros Hn HB H2 H1 Hc. apply (axis_full n r t0 A B C x); auto. rewrite <- Hc. ring.
Qed.

(** wrap, read back: an equal GeoBox (axis-aligned, any sign of the resolutions; a
    single row/column needs the CRS coordinate, which carries the GeoTransform).
    Shear below the [is_affine_st] tolerance is not written to the labels, hence
    the recovered matrix is the wrapped one with b = d = 0. *)
Lemma roundtrip_axis_aligned tol g nt nb nd name user x0 :
  is_affine_st tol (g_aff g) = true -> 1 <= g_ny g -> 1 <= g_nx g ->
  let t := g_aff g in
  let yd := fst (crs_dims (g_crs g)) in
  let xd := snd (crs_dims (g_crs g)) in
  name_ok name yd xd -> clean_attrs user ->
  ((2 <= g_ny g /\ 2 <= g_nx g) \/ (name <> None /\ g_crs g <> None)) ->
  wrap_xr tol (ABox g) nt nb nd name user = Ok x0 ->
  exists T,
    locate_geo_info repaired tol x0 =
      Ok (GeoState (Some (yd, xd)) (g_crs g) (Some T) (Some (ABox (GBox (g_ny g) (g_nx g) T (g_crs g))))) /\
    aff_eq T (Aff (fa t) 0 (fc t) 0 (fe t) (ff t)).
Proof.
  intros Hst Hny Hnx t yd xd Hname Hclean Hfb Hw.
  assert (Zy : zlen (iota (g_ny g)) = g_ny g) by (rewrite zlen_iota; lia).
  assert (Zx : zlen (iota (g_nx g)) = g_nx g) by (rewrite zlen_iota; lia).
  destruct (history_axis_aligned tol g nt nb nd name user [] x0 x0 (iota (g_ny g)) (iota (g_nx g)))
    as (T & E & B1 & B2 & _ & C & X2 & Y2 & X1 & Y1); auto; try lia; try reflexivity.
  { rewrite Zy, Zx. exact Hfb. }
  rewrite Zy, Zx in *. fold t yd xd in E, C, X2, Y2, X1, Y1.
  exists T. split; [exact E|].
  destruct (C 0 0) as (Cx & Cy); try lia.
  rewrite iota_ap in Cx, Cy. rewrite !nth_ap in Cx, Cy by lia.
  unfold aff_apply, label in Cx, Cy; simpl in Cx, Cy.
  destruct (axis_full (g_nx g) (fa t) (fc t) (fa T) (fb T) (fc T) (inject_Z 0 + (1 # 2))) as (RA & RC); auto.
  destruct (axis_full_y (g_ny g) (fe t) (ff t) (fe T) (fd T) (ff T) (inject_Z 0 + (1 # 2))) as (RE & RF); auto.
  unfold aff_eq; simpl. repeat split; auto.
Qed.

Lemma aff_mul_near_id t T :
  fa T == 1 -> fb T == 0 -> fc T == 0 -> fd T == 0 -> fe T == 1 -> ff T == 0 -> aff_eq (aff_mul t T) t.
Proof.
  intros A B C D E F. unfold aff_eq, aff_mul; simpl. rewrite A, B, C, D, E, F. repeat split; ring.
Qed.

(** rotated / sheared GeoBox of any shape >= 1x1: the recovered matrix equals the wrapped one *)
Lemma roundtrip_rotated tol g nt nb nd name user x0 :
  is_affine_st tol (g_aff g) = false -> 1 <= g_ny g -> 1 <= g_nx g ->
  let t := g_aff g in
  let yd := fst (crs_dims (g_crs g)) in
  let xd := snd (crs_dims (g_crs g)) in
  let c := match name with Some _ => g_crs g | None => None end in
  name_ok name yd xd -> clean_attrs user ->
  wrap_xr tol (ABox g) nt nb nd name user = Ok x0 ->
  exists T,
    locate_geo_info repaired tol x0 =
      Ok (GeoState (Some (yd, xd)) c (Some T) (Some (ABox (GBox (g_ny g) (g_nx g) T c)))) /\
    aff_eq T t.
Proof.
  intros Hst Hny Hnx t yd xd c Hname Hclean Hw.
  assert (Zy : zlen (iota (g_ny g)) = g_ny g) by (rewrite zlen_iota; lia).
  assert (Zx : zlen (iota (g_nx g)) = g_nx g) by (rewrite zlen_iota; lia).
  destruct (history_rotated tol g nt nb nd name user [] x0 x0 (iota (g_ny g)) (iota (g_nx g)))
    as (T & E & B1 & B2 & _ & C & X2 & Y2 & X1 & Y1); auto; try lia; try reflexivity.
  rewrite Zy, Zx in *. fold t yd xd c in E.
  exists (aff_mul t T). split; [exact E|].
  destruct (C 0 0) as (Cx & Cy & _); try lia.
  rewrite iota_ap in Cx, Cy. rewrite !nth_ap in Cx, Cy by lia.
  unfold aff_apply, pix_label in Cx, Cy; cbn [fst snd] in Cx, Cy.
  assert (HX2 : 2 <= g_nx g -> exists p q, iota (g_nx g) = ap p q (g_nx g) /\ fa T == 1 * inject_Z q /\
                                          fc T == 0 + 1 * inject_Z p + 1 / 2 - 1 * inject_Z q / 2).
  { intros H. destruct (X2 H) as (p & q & E1 & R1 & R2). exists p, q. split; auto. split; [rewrite R1; ring | rewrite R2; field]. }
  assert (HCx : fa T * (inject_Z 0 + (1 # 2)) + fb T * (inject_Z 0 + (1 # 2)) + fc T == inject_Z 0 * 1 + (0 + 1 / 2)).
  { rewrite Cx. change (inject_Z (0 + 1 * 0)) with 0%Q. change (inject_Z 0) with 0%Q. field. }
  destruct (axis_full (g_nx g) 1 0 (fa T) (fb T) (fc T) (inject_Z 0 + (1 # 2)) Hnx B1 HX2 X1 HCx) as (RA & RC).
  assert (HY2 : 2 <= g_ny g -> exists p q, iota (g_ny g) = ap p q (g_ny g) /\ fe T == 1 * inject_Z q /\
                                          ff T == 0 + 1 * inject_Z p + 1 / 2 - 1 * inject_Z q / 2).
  { intros H. destruct (Y2 H) as (p & q & E1 & R1 & R2). exists p, q. split; auto. split; [rewrite R1; ring | rewrite R2; field]. }
  assert (HCy : fd T * (inject_Z 0 + (1 # 2)) + fe T * (inject_Z 0 + (1 # 2)) + ff T == inject_Z 0 * 1 + (0 + 1 / 2)).
  { rewrite Cy. change (inject_Z (0 + 1 * 0)) with 0%Q. change (inject_Z 0) with 0%Q. field. }
  destruct (axis_full_y (g_ny g) 1 0 (fe T) (fd T) (ff T) (inject_Z 0 + (1 # 2)) Hny B2 HY2 Y1 HCy) as (RE & RF).
  apply aff_mul_near_id; auto.
Qed.

(** GCP based GeoBox: the recovered GCPGeoBox carries the GCPs in the pixel frame of the
    wrapped GeoBox and the identity as its own transform *)
Lemma roundtrip_gcp tol ny nx a pts crs ai nt nb nd n user x0 :
  aff_inv a = Some ai -> 1 <= ny -> 1 <= nx ->
  let yd := fst (crs_dims (Some crs)) in
  let xd := snd (crs_dims (Some crs)) in
  name_ok (Some n) yd xd -> clean_attrs user ->
  wrap_xr tol (AGcp ny nx a pts (Some crs)) nt nb nd (Some n) user = Ok x0 ->
  exists T,
    locate_geo_info repaired tol x0 =
      Ok (GeoState (Some (yd, xd)) (Some crs) (Some T) (Some (AGcp ny nx T (gcps_of ai pts) (Some crs)))) /\
    aff_eq T aff_id.
Proof.
  intros Hi Hny Hnx yd xd Hname Hclean Hw.
  assert (Zy : zlen (iota ny) = ny) by (rewrite zlen_iota; lia).
  assert (Zx : zlen (iota nx) = nx) by (rewrite zlen_iota; lia).
  destruct (history_gcp tol ny nx a pts crs ai nt nb nd n user [] x0 x0 (iota ny) (iota nx))
    as (T & E & B1 & B2 & C & X2 & Y2 & X1 & Y1); auto; try lia; try reflexivity.
  rewrite Zy, Zx in *. fold yd xd in E.
  exists T. split; [exact E|].
  destruct (C 0 0) as (Cx & Cy); try lia.
  rewrite iota_ap in Cx, Cy. rewrite !nth_ap in Cx, Cy by lia.
  unfold aff_apply in Cx, Cy; cbn [fst snd] in Cx, Cy.
  assert (HX2 : 2 <= nx -> exists p q, iota nx = ap p q nx /\ fa T == 1 * inject_Z q /\
                                          fc T == 0 + 1 * inject_Z p + 1 / 2 - 1 * inject_Z q / 2).
  { intros H. destruct (X2 H) as (p & q & E1 & R1 & R2). exists p, q. split; auto. split; [rewrite R1; ring | rewrite R2; field]. }
  assert (HCx : fa T * (inject_Z 0 + (1 # 2)) + fb T * (inject_Z 0 + (1 # 2)) + fc T == inject_Z 0 * 1 + (0 + 1 / 2)).
  { rewrite Cx. change (inject_Z (0 + 1 * 0)) with 0%Q. change (inject_Z 0) with 0%Q. field. }
  destruct (axis_full nx 1 0 (fa T) (fb T) (fc T) (inject_Z 0 + (1 # 2)) Hnx B1 HX2 X1 HCx) as (RA & RC).
  assert (HY2 : 2 <= ny -> exists p q, iota ny = ap p q ny /\ fe T == 1 * inject_Z q /\
                                          ff T == 0 + 1 * inject_Z p + 1 / 2 - 1 * inject_Z q / 2).
  { intros H. destruct (Y2 H) as (p & q & E1 & R1 & R2). exists p, q. split; auto. split; [rewrite R1; ring | rewrite R2; field]. }
  assert (HCy : fd T * (inject_Z 0 + (1 # 2)) + fe T * (inject_Z 0 + (1 # 2)) + ff T == inject_Z 0 * 1 + (0 + 1 / 2)).
  { rewrite Cy. change (inject_Z (0 + 1 * 0)) with 0%Q. change (inject_Z 0) with 0%Q. field. }
  destruct (axis_full_y ny 1 0 (fe T) (fd T) (ff T) (inject_Z 0 + (1 # 2)) Hny B2 HY2 Y1 HCy) as (RE & RF).
  unfold aff_eq, aff_id; simpl. repeat split; auto.
Qed.

(* ================================================================== recovery from any object carrying fresh GeoBox coordinates *)

Lemma georef_roundtrip_st tol t crs name yd xd Py x ny nx :
  georef_w yd xd (label (ff t) (fe t)) (label (fc t) (fa t)) (st_attrs (fe t) crs) (st_attrs (fa t) crs)
           Py None (crs_coord_of name crs None (Some t)) (iota ny) (iota nx) x ->
  is_affine_st tol t = true -> 1 <= ny -> 1 <= nx ->
  ((2 <= ny /\ 2 <= nx) \/ (name <> None /\ crs <> None)) ->
  exists T,
    locate_geo_info repaired tol x =
      Ok (GeoState (Some (yd, xd)) crs (Some T) (Some (ABox (GBox ny nx T crs)))) /\
    aff_eq T (Aff (fa t) 0 (fc t) 0 (fe t) (ff t)).
Proof.
  intros G Hst Hny Hnx Hfb. rewrite !iota_ap in G.
  set (ccn := crs_coord_of name crs None (Some t)) in *.
  assert (Hgcp : match ccn with Some p => extract_gcps (snd p) | None => None end = None).
  { subst ccn. destruct name, crs; reflexivity. }
  assert (Hcrs : match ccn with
                 | Some p => extract_crs (snd p)
                 | None => hd_error (attr_crs_candidates (st_attrs (fe t) crs) ++ attr_crs_candidates (st_attrs (fa t) crs))
                 end = crs).
  { subst ccn. destruct name, crs; reflexivity. }
  destruct (locate_georef_w (label (fc t) (fa t)) (label (ff t) (fe t)) (fc t) (fa t) (ff t) (fe t)
              (label_spec _ _) (label_spec _ _) repaired tol yd xd _ _ Py None ccn
              0 1 nx 0 1 ny x G Hnx Hny) as (T & E & P1 & P2 & P3 & P4 & P5 & P6 & P7).
  { destruct Hfb as [[? ?]|[Hn Hc]]; [left; auto|right].
    subst ccn. destruct name as [n|]; [|congruence]. destruct crs as [c|]; [|congruence].
    simpl. eexists. apply fallback_st. exact Hst. }
  rewrite Hgcp, Hcrs in E. simpl in E.
  exists T. split; [exact E|].
  assert (Hfbv : forall r, fallback_of repaired tol (option_map snd ccn)
                             (is_some match ccn with Some p => extract_gcps (snd p) | None => None end)
                             (if is_some match ccn with Some p => extract_gcps (snd p) | None => None end then None else None)
                           = Ok (Some r) -> r = (fa t, fe t)).
  { intros r. rewrite Hgcp. simpl. subst ccn. destruct name as [n|], crs as [c|]; simpl;
      try (intros Hr; discriminate Hr).
    rewrite (fallback_st tol t c Hst). intros Hr; injection Hr as <-. reflexivity. }
  destruct (P3 0 0) as (Cx & Cy); try lia.
  unfold aff_apply, label in Cx, Cy; cbn [fst snd] in Cx, Cy.
  change (inject_Z (0 + 1 * 0)) with 0%Q in Cx, Cy. change (inject_Z 0) with 0%Q in Cx, Cy.
  assert (RA : fa T == fa t).
  { destruct (Z_le_gt_dec 2 nx) as [H|H].
    - destruct (P4 H) as (R & _). rewrite R. change (inject_Z 1) with 1%Q. ring.
    - destruct (P6 ltac:(lia)) as (r & Fr & Er). rewrite (Hfbv r Fr) in Er. exact Er. }
  assert (RE : fe T == fe t).
  { destruct (Z_le_gt_dec 2 ny) as [H|H].
    - destruct (P5 H) as (R & _). rewrite R. change (inject_Z 1) with 1%Q. ring.
    - destruct (P7 ltac:(lia)) as (r & Fr & Er). rewrite (Hfbv r Fr) in Er. exact Er. }
  assert (RC : fc T == fc t).
  { assert (X : fc T == (0 * fa t + (fc t + fa t / 2)) - (fa T * (0 + (1 # 2)) + fb T * (0 + (1 # 2)))) by (rewrite <- Cx; ring).
    rewrite X, RA, P1. field. }
  assert (RF : ff T == ff t).
  { assert (X : ff T == (0 * fe t + (ff t + fe t / 2)) - (fd T * (0 + (1 # 2)) + fe T * (0 + (1 # 2)))) by (rewrite <- Cy; ring).
    rewrite X, RE, P2. field. }
  unfold aff_eq; simpl. repeat split; auto.
Qed.

Lemma georef_roundtrip_rot tol t crs name yd xd Py x ny nx :
  georef_w yd xd pix_label pix_label [("units", VOther)] [("units", VOther)]
           Py (Some t) (crs_coord_of name crs None (Some t)) (iota ny) (iota nx) x ->
  1 <= ny -> 1 <= nx ->
  let c := match name with Some _ => crs | None => None end in
  exists T,
    locate_geo_info repaired tol x =
      Ok (GeoState (Some (yd, xd)) c (Some T) (Some (ABox (GBox ny nx T c)))) /\
    aff_eq T t.
Proof.
  intros G Hny Hnx c. rewrite !iota_ap in G.
  set (ccn := crs_coord_of name crs None (Some t)) in *.
  assert (Hgcp : match ccn with Some p => extract_gcps (snd p) | None => None end = None).
  { subst ccn. destruct name, crs; reflexivity. }
  assert (Hcrs : match ccn with
                 | Some p => extract_crs (snd p)
                 | None => hd_error (attr_crs_candidates [("units", VOther)] ++ attr_crs_candidates [("units", VOther)])
                 end = c).
  { subst ccn c. destruct name, crs; reflexivity. }
  destruct (locate_georef_w pix_label pix_label 0 1 0 1 pix_label_spec pix_label_spec repaired tol yd xd _ _
              Py (Some t) ccn 0 1 nx 0 1 ny x G Hnx Hny) as (T & E & P1 & P2 & P3 & P4 & P5 & P6 & P7).
  { right. rewrite Hgcp. simpl. eexists; reflexivity. }
  rewrite Hgcp, Hcrs in E. simpl in E.
  exists (aff_mul t T). split; [exact E|].
  destruct (P3 0 0) as (Cx & Cy); try lia.
  unfold aff_apply, pix_label in Cx, Cy; cbn [fst snd] in Cx, Cy.
  change (inject_Z (0 + 1 * 0)) with 0%Q in Cx, Cy. change (inject_Z 0) with 0%Q in Cx, Cy.
  assert (RA : fa T == 1).
  { destruct (Z_le_gt_dec 2 nx) as [H|H].
    - destruct (P4 H) as (R & _). rewrite R. change (inject_Z 1) with 1%Q. ring.
    - destruct (P6 ltac:(lia)) as (r & Fr & Er). rewrite Hgcp in Fr. simpl in Fr. injection Fr as <-. exact Er. }
  assert (RE : fe T == 1).
  { destruct (Z_le_gt_dec 2 ny) as [H|H].
    - destruct (P5 H) as (R & _). rewrite R. change (inject_Z 1) with 1%Q. ring.
    - destruct (P7 ltac:(lia)) as (r & Fr & Er). rewrite Hgcp in Fr. simpl in Fr. injection Fr as <-. exact Er. }
  assert (RC : fc T == 0).
  { rewrite RA, P1 in Cx. lra. }
  assert (RF : ff T == 0).
  { rewrite RE, P2 in Cy. lra. }
  apply aff_mul_near_id; auto.
Qed.

(* ================================================================== reprojection output assembly: DataArray *)


Lemma filter_aset_nil {V} (p : V -> bool) k v (l : list (string * V)) :
  filter (fun nc => p (snd nc)) l = [] ->
  filter (fun nc => p (snd nc)) (aset k v l) = if p v then [(k, v)] else [].
Proof.
  induction l as [|(k', v') l IH]; simpl; intros H.
  - destruct (p v); reflexivity.
  - destruct (p v') eqn:E; [discriminate|].
    destruct (String.eqb k k'); simpl.
    + rewrite H. destruct (p v); reflexivity.
    + rewrite E. apply IH; exact H.
Qed.

Lemma filter_filter_nil {V} (p q : V -> bool) (l : list (string * V)) :
  (forall v, q v = true -> p v = false) ->
  filter (fun nc => p (snd nc)) (filter (fun nc => q (snd nc)) l) = [].
Proof.
  intros H. induction l as [|(k, v) l IH]; simpl; auto.
  destruct (q v) eqn:E; simpl; auto. rewrite (H v E). exact IH.
Qed.

Lemma lookup_notin {V} k (l : list (string * V)) : ~ In k (map fst l) -> lookup k l = None.
Proof.
  induction l as [|(k', v) l IH]; simpl; auto. intros H.
  destruct (String.eqb k k') eqn:E; [apply String.eqb_eq in E; subst; tauto | apply IH; tauto].
Qed.

Lemma index_of_app k pre rest i :
  ~ In k pre -> index_of k (pre ++ k :: rest) i = Some (i + zlen pre).
Proof.
  revert i. induction pre as [|h pre IH]; intros i H; simpl.
  - rewrite String.eqb_refl. unfold zlen; simpl. f_equal; lia.
  - destruct (String.eqb k h) eqn:E; [apply String.eqb_eq in E; subst; simpl in H; tauto|].
    rewrite IH by (simpl in H; tauto). unfold zlen; simpl. f_equal; lia.
Qed.

Section ReprojDims.
  Variables (syd sxd dy dx : string) (ny nx : Z).
  Let F := fun dn : string * Z =>
             if String.eqb (fst dn) syd then [(dy, ny)]
             else if String.eqb (fst dn) sxd then [(dx, nx)] else [dn].

  Lemma flat_map_other l : (forall dn, In dn l -> fst dn <> syd /\ fst dn <> sxd) -> flat_map F l = l.
  Proof.
    induction l as [|dn l IH]; intros H; simpl; auto.
    destruct (H dn (or_introl eq_refl)) as (N1 & N2).
    unfold F at 1. rewrite (eqb_neq _ _ N1), (eqb_neq _ _ N2). simpl. f_equal. apply IH; intros; apply H; now right.
  Qed.

  Lemma flat_map_dims pre n1 n2 post :
    syd <> sxd -> other_dims_ok (pre ++ post) syd sxd ->
    flat_map F (pre ++ [(syd, n1); (sxd, n2)] ++ post) = pre ++ [(dy, ny); (dx, nx)] ++ post.
  Proof.
    intros Hne Hok. rewrite !flat_map_app.
    rewrite (flat_map_other pre) by (intros dn Hd; apply Hok; apply in_or_app; now left).
    rewrite (flat_map_other post) by (intros dn Hd; apply Hok; apply in_or_app; now right).
    f_equal. simpl. unfold F; simpl. rewrite String.eqb_refl.
    rewrite (eqb_neq sxd syd) by congruence. rewrite String.eqb_refl. reflexivity.
  Qed.
End ReprojDims.

Lemma smem_app k a b : smem k (a ++ b) = smem k a || smem k b.
Proof. unfold smem. apply existsb_app. Qed.

Lemma smem_false k l : ~ In k l -> smem k l = false.
Proof. intros H. destruct (smem k l) eqn:E; auto. apply smem_In in E; contradiction. Qed.

Lemma out_dims_facts pre post syd sxd (c : option crs) ny nx :
  other_dims_ok (pre ++ post) syd sxd ->
  let dy := fst (crs_dims c) in
  let dx := snd (crs_dims c) in
  let dims := pre ++ [(dy, ny); (dx, nx)] ++ post in
  spatial_dims (map fst dims) = Some (dy, dx) /\ lookup dy dims = Some ny /\ lookup dx dims = Some nx.
Proof.
  intros Hok dy dx dims.
  assert (Hpre : forall k, In k guess_names -> ~ In k (map fst pre)).
  { intros k Hk Hin. apply in_map_iff in Hin. destruct Hin as (dn & <- & Hd).
    destruct (Hok dn) as (N & _); [apply in_or_app; now left | exact (N Hk)]. }
  assert (Hpost : forall k, In k guess_names -> ~ In k (map fst post)).
  { intros k Hk Hin. apply in_map_iff in Hin. destruct Hin as (dn & <- & Hd).
    destruct (Hok dn) as (N & _); [apply in_or_app; now right | exact (N Hk)]. }
  assert (G : forall k, In k guess_names -> smem k (map fst dims) = smem k [dy; dx]).
  { intros k Hk. subst dims. rewrite !map_app, !smem_app.
    rewrite (smem_false k (map fst pre)) by (apply Hpre; exact Hk).
    rewrite (smem_false k (map fst post)) by (apply Hpost; exact Hk).
    simpl. now rewrite orb_false_r. }
  assert (Ldy : lookup dy dims = Some ny /\ lookup dx dims = Some nx).
  { subst dims. rewrite !lookup_app.
    assert (In dy guess_names /\ In dx guess_names /\ dx <> dy) as (I1 & I2 & I3).
    { subst dy dx. destruct (crs_dims_cases c) as [E|E]; rewrite E; simpl; repeat split; try tauto; discriminate. }
    rewrite (lookup_notin dy pre) by (apply Hpre; exact I1).
    rewrite (lookup_notin dx pre) by (apply Hpre; exact I2).
    simpl. rewrite String.eqb_refl. rewrite (eqb_neq dx dy I3). rewrite String.eqb_refl. auto. }
  split; [|exact Ldy].
  unfold spatial_dims, guesses. simpl find.
  rewrite !G by (simpl; tauto).
  subst dy dx. destruct (crs_dims_cases c) as [E|E]; rewrite E; reflexivity.
Qed.


(** attribute pruning / overwrite logic of the output *)
Lemma out_attrs_spatial itol a nd k : In k SPATIAL_ATTRIBUTES -> lookup k (out_attrs itol a nd) = None.
Proof.
  intros H. unfold out_attrs.
  assert (N : k <> "nodata" /\ k <> "_FillValue").
  { simpl in H. repeat (destruct H as [<-|H]; [split; discriminate|]). contradiction. }
  destruct N as (N1 & N2).
  destruct (match nd with Some v => Some v | None => nodata_of a end).
  - rewrite lookup_aset_other by auto. apply prune_spatial_removed; exact H.
  - rewrite !lookup_adel, (eqb_neq _ _ N1), (eqb_neq _ _ N2). apply prune_spatial_removed; exact H.
Qed.

Lemma out_attrs_other itol a nd k :
  ~ In k SPATIAL_ATTRIBUTES -> k <> "nodata" -> k <> "_FillValue" ->
  lookup k (out_attrs itol a nd) = lookup k a.
Proof.
  intros H N1 N2. unfold out_attrs.
  destruct (match nd with Some v => Some v | None => nodata_of a end).
  - rewrite lookup_aset_other by auto. apply prune_spatial_kept; exact H.
  - rewrite !lookup_adel, (eqb_neq _ _ N1), (eqb_neq _ _ N2). apply prune_spatial_kept; exact H.
Qed.

Lemma out_attrs_nodata itol a nd v :
  nd = Some v \/ (nd = None /\ nodata_of a = Some v) ->
  lookup "nodata" (out_attrs itol a nd) = Some (VNum (maybe_int v itol)).
Proof.
  intros H. unfold out_attrs.
  destruct H as [->|(-> & ->)]; apply lookup_aset_same.
Qed.

Lemma out_attrs_no_nodata itol a :
  nodata_of a = None ->
  lookup "nodata" (out_attrs itol a None) = None /\ lookup "_FillValue" (out_attrs itol a None) = None.
Proof.
  intros H. unfold out_attrs. rewrite H. rewrite !lookup_adel. simpl. auto.
Qed.

Lemma reproject_da_unfold tol itol src dst nd st sb syd sxd pre n1 n2 post :
  locate_geo_info repaired tol src = Ok st -> gs_box st = Some sb -> box_crs sb <> None ->
  gs_sdims st = Some (syd, sxd) ->
  x_dims src = pre ++ [(syd, n1); (sxd, n2)] ++ post ->
  syd <> sxd -> other_dims_ok (pre ++ post) syd sxd ->
  let dy := fst (crs_dims (g_crs dst)) in
  let dx := snd (crs_dims (g_crs dst)) in
  reproject_da repaired tol itol src dst nd =
  (new <- xr_coords tol (ABox dst) (Some DEFAULT_CRS_COORD_NAME) ;;
   Ok (XObj false (pre ++ [(dy, g_ny dst); (dx, g_nx dst)] ++ post) (Some DEFAULT_CRS_COORD_NAME)
            (out_attrs itol (x_attrs src) nd)
            (aupdate (filter (fun nc => keep_pred syd sxd (snd nc)) (x_coords src)) new) [])).
Proof.
  intros Hl Hb Hc Hsd Hd Hne Hok dy dx.
  unfold reproject_da. rewrite Hl. simpl. rewrite Hb.
  destruct (box_crs sb) as [c0|] eqn:Ec; [|congruence]. rewrite Hsd.
  assert (Hnames : map fst (x_dims src) = map fst pre ++ syd :: sxd :: map fst post).
  { rewrite Hd, !map_app. reflexivity. }
  assert (Hpre : forall k, k = syd \/ k = sxd -> ~ In k (map fst pre)).
  { intros k Hk Hin. apply in_map_iff in Hin. destruct Hin as (dn & <- & Hdn).
    destruct (Hok dn) as (_ & N1 & N2); [apply in_or_app; now left|]. destruct Hk; congruence. }
  rewrite Hnames. cbn [fst snd].
  rewrite (index_of_app syd (map fst pre) (sxd :: map fst post) 0) by (apply Hpre; auto).
  replace (map fst pre ++ syd :: sxd :: map fst post) with ((map fst pre ++ [syd]) ++ sxd :: map fst post)
    by (rewrite <- app_assoc; reflexivity).
  rewrite (index_of_app sxd (map fst pre ++ [syd]) (map fst post) 0).
  2:{ intros Hin. apply in_app_or in Hin. destruct Hin as [Hin|[Hin|[]]]; [apply (Hpre sxd); auto | congruence]. }
  assert (Z1 : (0 + zlen (map fst pre) + 1 =? 0 + zlen (map fst pre ++ [syd])) = true).
  { apply Z.eqb_eq. unfold zlen. rewrite app_length. simpl. lia. }
  rewrite Z1. cbn [negb].
  destruct (xr_coords tol (ABox dst) (Some DEFAULT_CRS_COORD_NAME)) as [new|e]; simpl; [|reflexivity].
  subst dy dx. destruct (crs_dims (g_crs dst)) as [dy dx] eqn:Ecd. cbn [fst snd].
  rewrite Hd. rewrite (flat_map_dims syd sxd dy dx (g_ny dst) (g_nx dst) pre n1 n2 post Hne Hok).
  reflexivity.
Qed.

Lemma out_georef pre post syd sxd (c : option crs) ny nx fyl fxl ay ax Py P cc at_ kept :
  other_dims_ok (pre ++ post) syd sxd -> 0 <= ny -> 0 <= nx ->
  clean_attrs at_ ->
  filter (fun nc => is_spatial_ref (snd nc)) kept = [] ->
  co_dims cc = [] -> is_spatial_ref cc = true ->
  let dy := fst (crs_dims c) in
  let dx := snd (crs_dims c) in
  georef dy dx fyl fxl ay ax Py P (Some DEFAULT_CRS_COORD_NAME) (Some (DEFAULT_CRS_COORD_NAME, cc)) (iota ny) (iota nx)
         (XObj false (pre ++ [(dy, ny); (dx, nx)] ++ post) (Some DEFAULT_CRS_COORD_NAME) at_
               (aupdate kept [(dy, Coord [dy] (map fyl (iota ny)) ay Py);
                              (dx, Coord [dx] (map fxl (iota nx)) ax P);
                              (DEFAULT_CRS_COORD_NAME, cc)]) []).
Proof.
  intros Hok Hny Hnx Hat Hk Hcd Hcs dy dx.
  destruct (out_dims_facts pre post syd sxd c ny nx Hok) as (D1 & D2 & D3). fold dy dx in D1, D2, D3.
  assert (N : dy <> dx /\ dy <> DEFAULT_CRS_COORD_NAME /\ dx <> DEFAULT_CRS_COORD_NAME).
  { subst dy dx. destruct (crs_dims_cases c) as [E|E]; rewrite E; repeat split; discriminate. }
  destruct N as (N1 & N2 & N3).
  unfold aupdate. cbn [fold_left fst snd].
  constructor; cbn [x_is_ds x_dims x_gm x_attrs x_coords].
  - reflexivity.
  - exact D1.
  - rewrite D2, zlen_iota. f_equal; lia.
  - rewrite D3, zlen_iota. f_equal; lia.
  - rewrite !lookup_aset. rewrite (eqb_neq dy DEFAULT_CRS_COORD_NAME N2), (eqb_neq dy dx N1), String.eqb_refl. reflexivity.
  - rewrite !lookup_aset. rewrite (eqb_neq dx DEFAULT_CRS_COORD_NAME N3), String.eqb_refl. reflexivity.
  - right; reflexivity.
  - exact Hat.
  - rewrite (filter_aset_nil is_spatial_ref).
    + rewrite Hcs. reflexivity.
    + rewrite (filter_aset_nil is_spatial_ref); [reflexivity|].
      rewrite (filter_aset_nil is_spatial_ref); [reflexivity | exact Hk].
  - rewrite lookup_aset_same. reflexivity.
  - exact Hcd.
Qed.

Lemma keep_no_spatial_ref syd sxd (cs : coords) :
  filter (fun nc => is_spatial_ref (snd nc)) (filter (fun nc => keep_pred syd sxd (snd nc)) cs) = [].
Proof.
  apply (filter_filter_nil is_spatial_ref (keep_pred syd sxd)).
  intros v H. unfold keep_pred in H. apply andb_true_iff in H. destruct H as (H & _).
  destruct (is_spatial_ref v); [discriminate | reflexivity].
Qed.

Lemma clean_out_attrs itol a nd : clean_attrs (out_attrs itol a nd).
Proof. unfold clean_attrs; repeat split; apply out_attrs_spatial; simpl; tauto. Qed.

(** what an output coordinate is: the destination's, or a kept source coordinate *)
Lemma out_coords_spec (kept new : coords) k :
  lookup k (aupdate kept new) = match lookup k (rev new) with Some c => Some c | None => lookup k kept end.
Proof. apply lookup_aupdate. Qed.

Section ReprojectDa.
  Variables (tol itol : Q) (src : xobj) (dst : gbox) (nd : option Q).
  Variables (st : geostate) (sb : anybox) (syd sxd : string) (pre post : list (string * Z)) (n1 n2 : Z) (cd : crs).
  Hypothesis Hl : locate_geo_info repaired tol src = Ok st.
  Hypothesis Hb : gs_box st = Some sb.
  Hypothesis Hc : box_crs sb <> None.
  Hypothesis Hsd : gs_sdims st = Some (syd, sxd).
  Hypothesis Hd : x_dims src = pre ++ [(syd, n1); (sxd, n2)] ++ post.
  Hypothesis Hne : syd <> sxd.
  Hypothesis Hok : other_dims_ok (pre ++ post) syd sxd.
  Hypothesis Hcrs : g_crs dst = Some cd.
  Hypothesis Hny : 1 <= g_ny dst.
  Hypothesis Hnx : 1 <= g_nx dst.

  Let t := g_aff dst.
  Let dy := fst (crs_dims (g_crs dst)).
  Let dx := snd (crs_dims (g_crs dst)).
  Let kept := filter (fun nc => keep_pred syd sxd (snd nc)) (x_coords src).

  (** axis-aligned destination *)
  Lemma reproject_da_st :
    is_affine_st tol t = true ->
    exists new out T,
      xr_coords tol (ABox dst) (Some DEFAULT_CRS_COORD_NAME) = Ok new /\
      reproject_da repaired tol itol src dst nd = Ok out /\
      x_coords out = aupdate kept new /\
      x_attrs out = out_attrs itol (x_attrs src) nd /\
      x_gm out = Some DEFAULT_CRS_COORD_NAME /\
      x_dims out = pre ++ [(dy, g_ny dst); (dx, g_nx dst)] ++ post /\
      locate_geo_info repaired tol out =
        Ok (GeoState (Some (dy, dx)) (Some cd) (Some T) (Some (ABox (GBox (g_ny dst) (g_nx dst) T (Some cd))))) /\
      aff_eq T (Aff (fa t) 0 (fc t) 0 (fe t) (ff t)).
  Proof.
    intros Hst.
    rewrite (reproject_da_unfold tol itol src dst nd st sb syd sxd pre n1 n2 post Hl Hb Hc Hsd Hd Hne Hok).
    fold dy dx kept.
    assert (En : xr_coords tol (ABox dst) (Some DEFAULT_CRS_COORD_NAME) =
                 Ok [(dy, Coord [dy] (map (label (ff t) (fe t)) (iota (g_ny dst))) (st_attrs (fe t) (Some cd)) None);
                     (dx, Coord [dx] (map (label (fc t) (fa t)) (iota (g_nx dst))) (st_attrs (fa t) (Some cd)) None);
                     (DEFAULT_CRS_COORD_NAME, mk_crs_coord cd None (Some t))]).
    { unfold xr_coords. cbn [box_crs]. fold t. rewrite Hst. subst dy dx. rewrite Hcrs.
      destruct (crs_dims_cases (Some cd)) as [E|E]; rewrite E; reflexivity. }
    rewrite En. simpl bind.
    eexists _, _.
    pose proof (out_georef pre post syd sxd (g_crs dst) (g_ny dst) (g_nx dst)
                  (label (ff t) (fe t)) (label (fc t) (fa t)) (st_attrs (fe t) (Some cd)) (st_attrs (fa t) (Some cd))
                  None None (mk_crs_coord cd None (Some t)) (out_attrs itol (x_attrs src) nd) kept
                  Hok ltac:(lia) ltac:(lia) (clean_out_attrs _ _ _) (keep_no_spatial_ref _ _ _) eq_refl eq_refl) as G.
    fold dy dx in G.
    destruct (georef_roundtrip_st tol t (Some cd) (Some DEFAULT_CRS_COORD_NAME) dy dx None _ (g_ny dst) (g_nx dst)
                (georef_weaken _ _ _ _ _ _ _ _ _ _ _ _ _ G) Hst Hny Hnx)
      as (T & E & A).
    { right. split; congruence. }
    exists T. repeat (split; [reflexivity|]). split; [exact E | exact A].
  Qed.

  (** rotated / sheared destination *)
  Lemma reproject_da_rot :
    is_affine_st tol t = false ->
    exists new out T,
      xr_coords tol (ABox dst) (Some DEFAULT_CRS_COORD_NAME) = Ok new /\
      reproject_da repaired tol itol src dst nd = Ok out /\
      x_coords out = aupdate kept new /\
      x_attrs out = out_attrs itol (x_attrs src) nd /\
      x_gm out = Some DEFAULT_CRS_COORD_NAME /\
      x_dims out = pre ++ [(dy, g_ny dst); (dx, g_nx dst)] ++ post /\
      locate_geo_info repaired tol out =
        Ok (GeoState (Some (dy, dx)) (Some cd) (Some T) (Some (ABox (GBox (g_ny dst) (g_nx dst) T (Some cd))))) /\
      aff_eq T t.
  Proof.
    intros Hst.
    rewrite (reproject_da_unfold tol itol src dst nd st sb syd sxd pre n1 n2 post Hl Hb Hc Hsd Hd Hne Hok).
    fold dy dx kept.
    assert (En : xr_coords tol (ABox dst) (Some DEFAULT_CRS_COORD_NAME) =
                 Ok [(dy, Coord [dy] (map pix_label (iota (g_ny dst))) [("units", VOther)] (Some t));
                     (dx, Coord [dx] (map pix_label (iota (g_nx dst))) [("units", VOther)] (Some t));
                     (DEFAULT_CRS_COORD_NAME, mk_crs_coord cd None (Some t))]).
    { unfold xr_coords. cbn [box_crs]. fold t. rewrite Hst. subst dy dx. rewrite Hcrs.
      destruct (crs_dims_cases (Some cd)) as [E|E]; rewrite E; reflexivity. }
    rewrite En. simpl bind.
    eexists _, _.
    pose proof (out_georef pre post syd sxd (g_crs dst) (g_ny dst) (g_nx dst)
                  pix_label pix_label [("units", VOther)] [("units", VOther)]
                  (Some t) (Some t) (mk_crs_coord cd None (Some t)) (out_attrs itol (x_attrs src) nd) kept
                  Hok ltac:(lia) ltac:(lia) (clean_out_attrs _ _ _) (keep_no_spatial_ref _ _ _) eq_refl eq_refl) as G.
    fold dy dx in G.
    destruct (georef_roundtrip_rot tol t (Some cd) (Some DEFAULT_CRS_COORD_NAME) dy dx (Some t) _ (g_ny dst) (g_nx dst)
                (georef_weaken _ _ _ _ _ _ _ _ _ _ _ _ _ G) Hny Hnx)
      as (T & E & A).
    exists T. repeat (split; [reflexivity|]). split; [exact E | exact A].
  Qed.
End ReprojectDa.

(* ================================================================== reprojection output assembly: Dataset *)
Lemma lookup_amerge {V} (a b : list (string * V)) k :
  lookup k (amerge a b) = match lookup k a with Some v => Some v | None => lookup k b end.
Proof.
  unfold amerge. revert a. induction b as [|(kb, vb) b IH]; intros a; simpl.
  - destruct (lookup k a); reflexivity.
  - rewrite IH. destruct (lookup kb a) as [v0|] eqn:E.
    + destruct (lookup k a) eqn:E2; auto.
      destruct (String.eqb k kb) eqn:E3; auto. apply String.eqb_eq in E3; subst. congruence.
    + rewrite lookup_app. destruct (lookup k a); auto. simpl. destruct (String.eqb k kb); reflexivity.
Qed.

Lemma fold_amerge_lookup {O V} (g : O -> list (string * V)) (outs : list O) (acc : list (string * V)) k v :
  (forall o, In o outs -> lookup k (g o) = None \/ lookup k (g o) = Some v) ->
  (lookup k acc = Some v \/ (lookup k acc = None /\ exists o, In o outs /\ lookup k (g o) = Some v)) ->
  lookup k (fold_left (fun a o => amerge a (g o)) outs acc) = Some v.
Proof.
  revert acc. induction outs as [|o outs IH]; intros acc Hall H; simpl.
  - destruct H as [H|(_ & o & [] & _)]; exact H.
  - apply IH; [intros; apply Hall; now right|].
    rewrite lookup_amerge.
    destruct H as [H|(H & o' & [<-|Hin] & Ho')].
    + left. rewrite H. reflexivity.
    + left. rewrite H. exact Ho'.
    + rewrite H. destruct (Hall o (or_introl eq_refl)) as [E|E]; rewrite E; [right; split; eauto | left; reflexivity].
Qed.

Lemma lookup_filter_val {V} (p : V -> bool) (l : list (string * V)) k v :
  lookup k l = Some v -> p v = true -> lookup k (filter (fun nc => p (snd nc)) l) = Some v.
Proof.
  induction l as [|(k', v') l IH]; simpl; [discriminate|].
  destruct (String.eqb k k') eqn:E.
  - intros H Hp; injection H as ->. rewrite Hp. simpl. rewrite E. reflexivity.
  - intros H Hp. destruct (p v'); simpl; [rewrite E|]; apply IH; auto.
Qed.

Lemma lookup_map_pair {V} (f : string -> V) l d : In d l -> lookup d (map (fun d0 => (d0, f d0)) l) = Some (f d).
Proof.
  induction l as [|h l IH]; simpl; [tauto|].
  destruct (String.eqb d h) eqn:E; [apply String.eqb_eq in E; subst; reflexivity|].
  intros [->|H]; [rewrite String.eqb_refl in E; discriminate | apply IH; exact H].
Qed.

Lemma mapM_res_In {A B} (f : A -> res B) l bs b :
  mapM_res f l = Ok bs -> In b bs -> exists a, In a l /\ f a = Ok b.
Proof.
  revert bs. induction l as [|a l IH]; intros bs; simpl.
  - intros E; injection E as <-. intros [].
  - destruct (f a) as [b0|] eqn:Ef; simpl; [|discriminate].
    destruct (mapM_res f l) as [bs0|] eqn:Em; simpl; [|discriminate].
    intros E; injection E as <-. intros [<-|Hin].
    + exists a; split; auto.
    + destruct (IH bs0 eq_refl Hin) as (a' & Ha & Hf). exists a'; split; auto.
Qed.

Lemma mapM_res_In_fwd {A B} (f : A -> res B) l bs a :
  mapM_res f l = Ok bs -> In a l -> exists b, In b bs /\ f a = Ok b.
Proof.
  revert bs. induction l as [|a0 l IH]; intros bs; simpl; [intros _ []|].
  destruct (f a0) as [b0|] eqn:Ef; simpl; [|discriminate].
  destruct (mapM_res f l) as [bs0|] eqn:Em; simpl; [|discriminate].
  intros E; injection E as <-. intros [<-|Hin].
  - exists b0; split; [now left | exact Ef].
  - destruct (IH bs0 eq_refl Hin) as (b & Hb & Hf). exists b; split; [now right | exact Hf].
Qed.

(** the DataArray view [ds[name]] of a variable that carries fresh GeoBox coordinates *)
Section DsView.
  Variables (out : xobj) (name : string) (v : xvar) (pre post : list (string * Z)) (syd sxd : string)
            (c : option crs) (ny nx : Z) (fyl fxl : Z -> Q) (ay ax : attrs) (Py P : option aff) (cc : coord).
  Let dy := fst (crs_dims c).
  Let dx := snd (crs_dims c).
  Hypothesis Hv : lookup name (x_vars out) = Some v.
  Hypothesis Hgm : v_gm v = Some DEFAULT_CRS_COORD_NAME.
  Hypothesis Hat : lookup "crs" (v_attrs v) = None /\ lookup "crs_wkt" (v_attrs v) = None.
  Hypothesis Hvd : v_dims v = map fst (pre ++ [(dy, ny); (dx, nx)] ++ post).
  Hypothesis Hok : other_dims_ok (pre ++ post) syd sxd.
  Hypothesis Hdy : lookup dy (x_dims out) = Some ny.
  Hypothesis Hdx : lookup dx (x_dims out) = Some nx.
  Hypothesis Hcy : lookup dy (x_coords out) = Some (Coord [dy] (map fyl (iota ny)) ay Py).
  Hypothesis Hcx : lookup dx (x_coords out) = Some (Coord [dx] (map fxl (iota nx)) ax P).
  Hypothesis Hcc : lookup DEFAULT_CRS_COORD_NAME (x_coords out) = Some cc.
  Hypothesis Hccd : co_dims cc = [].
  Hypothesis Hny : 0 <= ny.
  Hypothesis Hnx : 0 <= nx.

  Lemma ds_view_georef :
    exists view, ds_getitem out name = Some view /\ x_attrs view = v_attrs v /\
                 georef_w dy dx fyl fxl ay ax Py P (Some (DEFAULT_CRS_COORD_NAME, cc)) (iota ny) (iota nx) view.
  Proof.
    unfold ds_getitem. rewrite Hv. eexists; split; [reflexivity|]. split; [reflexivity|].
    destruct (out_dims_facts pre post syd sxd c ny nx Hok) as (D1 & D2 & D3). fold dy dx in D1, D2, D3.
    assert (Iy : In dy (v_dims v)). { rewrite Hvd, !map_app. apply in_or_app; right. simpl; auto. }
    assert (Ix : In dx (v_dims v)). { rewrite Hvd, !map_app. apply in_or_app; right. simpl; auto. }
    constructor; cbn [x_is_ds x_dims x_gm x_attrs x_coords].
    - reflexivity.
    - rewrite map_map. cbn [fst]. rewrite map_id. rewrite Hvd. exact D1.
    - rewrite (lookup_map_pair (fun d => match lookup d (x_dims out) with Some n => n | None => 0 end) _ dy Iy).
      rewrite Hdy, zlen_iota. f_equal; lia.
    - rewrite (lookup_map_pair (fun d => match lookup d (x_dims out) with Some n => n | None => 0 end) _ dx Ix).
      rewrite Hdx, zlen_iota. f_equal; lia.
    - apply (lookup_filter_val (fun c0 => subsetb (co_dims c0) (v_dims v))); [exact Hcy|].
      simpl. apply smem_In in Iy. rewrite Iy. reflexivity.
    - apply (lookup_filter_val (fun c0 => subsetb (co_dims c0) (v_dims v))); [exact Hcx|].
      simpl. apply smem_In in Ix. rewrite Ix. reflexivity.
    - exact Hat.
    - exists DEFAULT_CRS_COORD_NAME. unfold locate_crs_coords, grid_mapping_of. rewrite Hgm.
      rewrite (lookup_filter_val (fun c0 => subsetb (co_dims c0) (v_dims v)) _ _ cc Hcc); [reflexivity|].
      rewrite Hccd. reflexivity.
  Qed.
End DsView.

Lemma mapM_res_lookup {B} (f : string * xvar -> res (string * B)) {W} (G : B -> W) l bs a b :
  NoDup (map fst l) ->
  (forall a0 b0, f a0 = Ok b0 -> fst b0 = fst a0) ->
  mapM_res f l = Ok bs -> In a l -> f a = Ok b ->
  lookup (fst a) (map (fun no => (fst no, G (snd no))) bs) = Some (G (snd b)).
Proof.
  intros Hnd Hfst. revert bs. induction l as [|a0 l IH]; intros bs; simpl; [intros _ []|].
  destruct (f a0) as [b0|] eqn:Ef; simpl; [|discriminate].
  destruct (mapM_res f l) as [bs0|] eqn:Em; simpl; [|discriminate].
  intros E; injection E as <-. simpl in Hnd. apply NoDup_cons_iff in Hnd. destruct Hnd as (Hn1 & Hn2).
  intros [->|Hin] Hf; simpl.
  - rewrite Ef in Hf; injection Hf as <-. rewrite (Hfst a b0 Ef), String.eqb_refl. reflexivity.
  - rewrite (Hfst a0 b0 Ef).
    destruct (String.eqb (fst a) (fst a0)) eqn:E.
    + apply String.eqb_eq in E. exfalso. apply Hn1. rewrite <- E. apply in_map. exact Hin.
    + apply IH; auto.
Qed.

Section ReprojectDs.
  Variables (tol itol : Q) (src : xobj) (dst : gbox) (nd : option Q) (out : xobj) (cd : crs).
  Variables (fyl fxl : Z -> Q) (ay ax : attrs) (Py P : option aff) (cc : coord).
  Local Notation dy := (fst (crs_dims (g_crs dst))).
  Local Notation dx := (snd (crs_dims (g_crs dst))).
  Local Notation ny := (g_ny dst).
  Local Notation nx := (g_nx dst).
  Local Notation sr := DEFAULT_CRS_COORD_NAME.
  Local Notation cy := (Coord [dy] (map fyl (iota ny)) ay Py).
  Local Notation cx := (Coord [dx] (map fxl (iota nx)) ax P).
  Local Notation new := ([(dy, cy); (dx, cx); (sr, cc)] : coords).
  Hypothesis Hnew : xr_coords tol (ABox dst) (Some sr) = Ok new.
  Hypothesis Hccd : co_dims cc = [].
  Hypothesis Hcrs : g_crs dst = Some cd.
  Hypothesis Hny : 0 <= ny.
  Hypothesis Hnx : 0 <= nx.
  Hypothesis Hrun : reproject_ds repaired tol itol src dst nd = Ok out.
  Hypothesis Hnodup : NoDup (map fst (x_vars src)).

  Local Notation geo_var := (XrCoords.geo_var tol src).
  Local Notation plain_var := (XrCoords.plain_var tol itol src dst nd).

  Hypothesis Hall : forall nv, In nv (x_vars src) ->
                               (exists syd sxd pre post, geo_var nv syd sxd pre post) \/ plain_var nv.

  Lemma geo_var_out nv syd sxd pre post :
    geo_var nv syd sxd pre post ->
    exists dv,
      ds_getitem src (fst nv) = Some dv /\
      reproject_ds_var repaired tol itol src dst nd nv =
      Ok (fst nv, XObj false (pre ++ [(dy, ny); (dx, nx)] ++ post) (Some sr) (out_attrs itol (x_attrs dv) nd)
                        (aupdate (filter (fun nc => keep_pred syd sxd (snd nc)) (x_coords dv)) new) []).
  Proof.
    intros ((dv & st & sb & n1 & n2 & E1 & E2 & E3 & E4 & E5 & E6) & Esd & Hne & Hok).
    exists dv. split; [exact E1|].
    unfold reproject_ds_var. rewrite E1, E2. simpl. rewrite E3, Esd.
    assert (Hsp : subsetb [syd; sxd] (map fst (x_dims dv)) = true).
    { rewrite E6, !map_app. cbn [fst snd subsetb forallb map].
      rewrite !smem_app. cbn [smem existsb]. rewrite !String.eqb_refl.
      rewrite !orb_true_r. reflexivity. }
    cbv beta iota. cbn [fst snd]. cbn [subsetb forallb] in Hsp. rewrite Hsp. cbn [negb].
    rewrite (reproject_da_unfold tol itol dv dst nd st sb syd sxd pre n1 n2 post E2 E3 E4 E5 E6 Hne Hok).
    rewrite Hnew. reflexivity.
  Qed.

  Lemma new_lookups :
    lookup dy (rev new) = Some cy /\ lookup dx (rev new) = Some cx /\ lookup sr (rev new) = Some cc.
  Proof.
    assert (N : dy <> dx /\ dy <> sr /\ dx <> sr).
    { destruct (crs_dims_cases (g_crs dst)) as [E|E]; rewrite E; repeat split; discriminate. }
    destruct N as (N1 & N2 & N3). simpl.
    rewrite (eqb_neq dy sr N2), (eqb_neq dy dx N1), (eqb_neq dx sr N3), !String.eqb_refl. auto.
  Qed.

  Lemma outs_of_run :
    exists outs,
      mapM_res (reproject_ds_var repaired tol itol src dst nd) (x_vars src) = Ok outs /\
      out = XObj true (fold_left (fun acc no => amerge acc (x_dims (snd no))) outs []) None
                 (prune_spatial (x_attrs src))
                 (fold_left (fun acc no => amerge acc (x_coords (snd no))) outs [])
                 (map (fun no => (fst no, XVar (map fst (x_dims (snd no))) (x_attrs (snd no)) (x_gm (snd no)))) outs).
  Proof.
    unfold reproject_ds in Hrun.
    destruct (locate_geo_info repaired tol src) as [st|]; simpl in Hrun; [|discriminate].
    destruct (gs_box st); [|discriminate].
    destruct (mapM_res (reproject_ds_var repaired tol itol src dst nd) (x_vars src)) as [outs|]; simpl in Hrun; [|discriminate].
    injection Hrun as <-. exists outs. split; reflexivity.
  Qed.

  (** every output either carries exactly the destination's coordinates / sizes or none of those names *)
  Lemma outs_agree outs :
    mapM_res (reproject_ds_var repaired tol itol src dst nd) (x_vars src) = Ok outs ->
    forall no, In no outs ->
      (lookup dy (x_coords (snd no)) = None \/ lookup dy (x_coords (snd no)) = Some cy) /\
      (lookup dx (x_coords (snd no)) = None \/ lookup dx (x_coords (snd no)) = Some cx) /\
      (lookup sr (x_coords (snd no)) = None \/ lookup sr (x_coords (snd no)) = Some cc) /\
      (lookup dy (x_dims (snd no)) = None \/ lookup dy (x_dims (snd no)) = Some ny) /\
      (lookup dx (x_dims (snd no)) = None \/ lookup dx (x_dims (snd no)) = Some nx).
  Proof.
    intros Hm no Hin.
    destruct (mapM_res_In _ _ _ _ Hm Hin) as (nv & Hnv & Hf).
    destruct (Hall nv Hnv) as [(syd & sxd & pre & post & Hg)|(o & Ho & Q1 & Q2 & Q3 & Q4 & Q5)].
    - destruct (geo_var_out nv syd sxd pre post Hg) as (dv & _ & E). rewrite E in Hf. injection Hf as <-.
      destruct Hg as (_ & _ & _ & Hok).
      destruct (out_dims_facts pre post syd sxd (g_crs dst) ny nx Hok) as (_ & D2 & D3).
      destruct new_lookups as (L1 & L2 & L3).
      set (K := filter (fun nc => keep_pred syd sxd (snd nc)) (x_coords dv)).
      assert (O1 : lookup dy (aupdate K new) = Some cy) by (rewrite out_coords_spec, L1; reflexivity).
      assert (O2 : lookup dx (aupdate K new) = Some cx) by (rewrite out_coords_spec, L2; reflexivity).
      assert (O3 : lookup sr (aupdate K new) = Some cc) by (rewrite out_coords_spec, L3; reflexivity).
      cbn [snd x_coords x_dims].
      split; [right; exact O1|]. split; [right; exact O2|]. split; [right; exact O3|].
      split; right; [exact D2 | exact D3].
    - rewrite Ho in Hf. injection Hf as <-. cbn [snd]. rewrite Q1, Q2, Q3, Q4, Q5. repeat split; left; reflexivity.
  Qed.

  (** attributes of the Dataset: pruned *)
  Lemma ds_out_attrs : x_attrs out = prune_spatial (x_attrs src) /\ x_gm out = None /\ x_is_ds out = true.
  Proof. destruct outs_of_run as (outs & _ & ->). repeat split. Qed.

  (** every geo-registered variable: attributes pruned, and its DataArray view carries the
      destination's coordinates in the shape the recovery needs *)
  Lemma ds_var_view nv syd sxd pre post :
    In nv (x_vars src) -> geo_var nv syd sxd pre post ->
    exists dv v view,
      ds_getitem src (fst nv) = Some dv /\
      lookup (fst nv) (x_vars out) = Some v /\
      v_attrs v = out_attrs itol (x_attrs dv) nd /\ v_gm v = Some sr /\
      ds_getitem out (fst nv) = Some view /\ x_attrs view = v_attrs v /\
      georef_w dy dx fyl fxl ay ax Py P (Some (sr, cc)) (iota ny) (iota nx) view.
  Proof.
    intros Hin Hg.
    destruct outs_of_run as (outs & Hm & Eout).
    destruct (geo_var_out nv syd sxd pre post Hg) as (dv & Edv & E).
    set (o := XObj false (pre ++ [(dy, ny); (dx, nx)] ++ post) (Some sr) (out_attrs itol (x_attrs dv) nd)
                   (aupdate (filter (fun nc => keep_pred syd sxd (snd nc)) (x_coords dv)) new) []) in *.
    assert (Hfst : forall a0 b0, reproject_ds_var repaired tol itol src dst nd a0 = Ok b0 -> fst b0 = fst a0).
    { intros a0 b0. unfold reproject_ds_var.
      destruct (ds_getitem src (fst a0)); [|discriminate].
      destruct (locate_geo_info repaired tol x) as [st0|]; simpl; [|discriminate].
      destruct (gs_box st0).
      - match goal with |- context [if ?c then _ else _] => destruct c end.
        + intros H; injection H as <-. reflexivity.
        + destruct (reproject_da repaired tol itol x dst nd); simpl; [|discriminate]. intros H; injection H as <-. reflexivity.
      - intros H; injection H as <-. reflexivity. }
    pose proof (mapM_res_lookup _ (fun o0 : xobj => XVar (map fst (x_dims o0)) (x_attrs o0) (x_gm o0))
                                _ _ nv (fst nv, o) Hnodup Hfst Hm Hin E) as Lv.
    cbn [snd] in Lv.
    destruct (mapM_res_In_fwd _ _ _ nv Hm Hin) as (b & Hb & Hfb). rewrite E in Hfb. injection Hfb as <-.
    pose proof (outs_agree outs Hm) as Hag.
    destruct Hg as (_ & _ & _ & Hok).
    destruct (out_dims_facts pre post syd sxd (g_crs dst) ny nx Hok) as (_ & D2 & D3).
    destruct new_lookups as (L1 & L2 & L3).
    assert (Cy : lookup dy (x_coords out) = Some cy).
    { rewrite Eout. cbn [x_coords]. apply fold_amerge_lookup.
      - intros no Hno. apply (Hag no Hno).
      - right. split; [reflexivity|]. exists (fst nv, o). split; [exact Hb|].
        cbn [snd]. unfold o; cbn [x_coords]. rewrite out_coords_spec, L1. reflexivity. }
    assert (Cx : lookup dx (x_coords out) = Some cx).
    { rewrite Eout. cbn [x_coords]. apply fold_amerge_lookup.
      - intros no Hno. apply (Hag no Hno).
      - right. split; [reflexivity|]. exists (fst nv, o). split; [exact Hb|].
        cbn [snd]. unfold o; cbn [x_coords]. rewrite out_coords_spec, L2. reflexivity. }
    assert (Cc : lookup sr (x_coords out) = Some cc).
    { rewrite Eout. cbn [x_coords]. apply fold_amerge_lookup.
      - intros no Hno. apply (Hag no Hno).
      - right. split; [reflexivity|]. exists (fst nv, o). split; [exact Hb|].
        cbn [snd]. unfold o; cbn [x_coords]. rewrite out_coords_spec, L3. reflexivity. }
    assert (Dy : lookup dy (x_dims out) = Some ny).
    { rewrite Eout. cbn [x_dims]. apply fold_amerge_lookup.
      - intros no Hno. apply (Hag no Hno).
      - right. split; [reflexivity|]. exists (fst nv, o). split; [exact Hb|]. exact D2. }
    assert (Dx : lookup dx (x_dims out) = Some nx).
    { rewrite Eout. cbn [x_dims]. apply fold_amerge_lookup.
      - intros no Hno. apply (Hag no Hno).
      - right. split; [reflexivity|]. exists (fst nv, o). split; [exact Hb|]. exact D3. }
    assert (Lv' : lookup (fst nv) (x_vars out) =
                  Some (XVar (map fst (x_dims o)) (x_attrs o) (x_gm o))).
    { rewrite Eout. exact Lv. }
    destruct (ds_view_georef out (fst nv) (XVar (map fst (x_dims o)) (x_attrs o) (x_gm o)) pre post syd sxd
                (g_crs dst) ny nx fyl fxl ay ax Py P cc Lv' eq_refl) as (view & V1 & V2 & V3); auto.
    { cbn [v_attrs]. unfold o; cbn [x_attrs]. split; apply out_attrs_spatial; simpl; tauto. }
    exists dv, (XVar (map fst (x_dims o)) (x_attrs o) (x_gm o)), view. split; [exact Edv|]. split; [exact Lv'|].
    split; [reflexivity|]. split; [reflexivity|]. split; [exact V1|]. split; [exact V2 | exact V3].
  Qed.
End ReprojectDs.

Lemma xr_coords_st_dst tol dst cd :
  is_affine_st tol (g_aff dst) = true -> g_crs dst = Some cd ->
  let t := g_aff dst in
  let dy := fst (crs_dims (g_crs dst)) in
  let dx := snd (crs_dims (g_crs dst)) in
  xr_coords tol (ABox dst) (Some DEFAULT_CRS_COORD_NAME) =
  Ok [(dy, Coord [dy] (map (label (ff t) (fe t)) (iota (g_ny dst))) (st_attrs (fe t) (Some cd)) None);
      (dx, Coord [dx] (map (label (fc t) (fa t)) (iota (g_nx dst))) (st_attrs (fa t) (Some cd)) None);
      (DEFAULT_CRS_COORD_NAME, mk_crs_coord cd None (Some t))].
Proof.
  intros Hst Hcrs t dy dx. unfold xr_coords. cbn [box_crs]. subst t dy dx. rewrite Hst. rewrite Hcrs.
  destruct (crs_dims_cases (Some cd)) as [E|E]; rewrite E; reflexivity.
Qed.

Lemma xr_coords_rot_dst tol dst cd :
  is_affine_st tol (g_aff dst) = false -> g_crs dst = Some cd ->
  let t := g_aff dst in
  let dy := fst (crs_dims (g_crs dst)) in
  let dx := snd (crs_dims (g_crs dst)) in
  xr_coords tol (ABox dst) (Some DEFAULT_CRS_COORD_NAME) =
  Ok [(dy, Coord [dy] (map pix_label (iota (g_ny dst))) [("units", VOther)] (Some t));
      (dx, Coord [dx] (map pix_label (iota (g_nx dst))) [("units", VOther)] (Some t));
      (DEFAULT_CRS_COORD_NAME, mk_crs_coord cd None (Some t))].
Proof.
  intros Hst Hcrs t dy dx. unfold xr_coords. cbn [box_crs]. subst t dy dx. rewrite Hst. rewrite Hcrs.
  destruct (crs_dims_cases (Some cd)) as [E|E]; rewrite E; reflexivity.
Qed.

(** Dataset reprojection (repaired code), axis-aligned destination: the Dataset's own
    attributes are pruned, and for every geo-registered variable the attributes are pruned
    and [out[name]] recovers the destination GeoBox with its CRS. *)
Lemma reproject_ds_st tol itol src dst nd out cd :
  reproject_ds repaired tol itol src dst nd = Ok out ->
  NoDup (map fst (x_vars src)) ->
  g_crs dst = Some cd -> 1 <= g_ny dst -> 1 <= g_nx dst ->
  is_affine_st tol (g_aff dst) = true ->
  let t := g_aff dst in
  let dy := fst (crs_dims (g_crs dst)) in
  let dx := snd (crs_dims (g_crs dst)) in
  (forall nv, In nv (x_vars src) ->
     (exists syd sxd pre post, geo_var tol src nv syd sxd pre post) \/ plain_var tol itol src dst nd nv) ->
  (forall k, In k SPATIAL_ATTRIBUTES -> lookup k (x_attrs out) = None) /\
  (forall k, ~ In k SPATIAL_ATTRIBUTES -> lookup k (x_attrs out) = lookup k (x_attrs src)) /\
  forall nv syd sxd pre post,
    In nv (x_vars src) -> geo_var tol src nv syd sxd pre post ->
    exists v view T,
      lookup (fst nv) (x_vars out) = Some v /\
      (forall k, In k SPATIAL_ATTRIBUTES -> lookup k (v_attrs v) = None) /\
      ds_getitem out (fst nv) = Some view /\
      locate_geo_info repaired tol view =
        Ok (GeoState (Some (dy, dx)) (Some cd) (Some T) (Some (ABox (GBox (g_ny dst) (g_nx dst) T (Some cd))))) /\
      aff_eq T (Aff (fa t) 0 (fc t) 0 (fe t) (ff t)).
Proof.
  intros Hrun Hnd Hcrs Hny Hnx Hst t dy dx Hall.
  pose proof (xr_coords_st_dst tol dst cd Hst Hcrs) as Hnew. cbv zeta in Hnew. fold t dy dx in Hnew.
  destruct (ds_out_attrs tol itol src dst nd out Hrun) as (A1 & _ & _).
  split; [intros k Hk; rewrite A1; apply prune_spatial_removed; exact Hk|].
  split; [intros k Hk; rewrite A1; apply prune_spatial_kept; exact Hk|].
  intros nv syd sxd pre post Hin Hg.
  destruct (ds_var_view tol itol src dst nd out _ _ _ _ None None (mk_crs_coord cd None (Some t))
              Hnew eq_refl ltac:(lia) ltac:(lia) Hrun Hnd Hall nv syd sxd pre post Hin Hg)
    as (dv & v & view & E1 & E2 & E3 & E4 & E5 & E6 & G).
  destruct (georef_roundtrip_st tol t (Some cd) (Some DEFAULT_CRS_COORD_NAME) dy dx None view (g_ny dst) (g_nx dst) G Hst Hny Hnx)
    as (T & E & A).
  { right. split; congruence. }
  exists v, view, T. split; [exact E2|]. split; [|split; [exact E5 | split; [exact E | exact A]]].
  intros k Hk. rewrite E3. apply out_attrs_spatial; exact Hk.
Qed.

(** ... and for a rotated / sheared destination *)
Lemma reproject_ds_rot tol itol src dst nd out cd :
  reproject_ds repaired tol itol src dst nd = Ok out ->
  NoDup (map fst (x_vars src)) ->
  g_crs dst = Some cd -> 1 <= g_ny dst -> 1 <= g_nx dst ->
  is_affine_st tol (g_aff dst) = false ->
  let t := g_aff dst in
  let dy := fst (crs_dims (g_crs dst)) in
  let dx := snd (crs_dims (g_crs dst)) in
  (forall nv, In nv (x_vars src) ->
     (exists syd sxd pre post, geo_var tol src nv syd sxd pre post) \/ plain_var tol itol src dst nd nv) ->
  (forall k, In k SPATIAL_ATTRIBUTES -> lookup k (x_attrs out) = None) /\
  (forall k, ~ In k SPATIAL_ATTRIBUTES -> lookup k (x_attrs out) = lookup k (x_attrs src)) /\
  forall nv syd sxd pre post,
    In nv (x_vars src) -> geo_var tol src nv syd sxd pre post ->
    exists v view T,
      lookup (fst nv) (x_vars out) = Some v /\
      (forall k, In k SPATIAL_ATTRIBUTES -> lookup k (v_attrs v) = None) /\
      ds_getitem out (fst nv) = Some view /\
      locate_geo_info repaired tol view =
        Ok (GeoState (Some (dy, dx)) (Some cd) (Some T) (Some (ABox (GBox (g_ny dst) (g_nx dst) T (Some cd))))) /\
      aff_eq T t.
Proof.
  intros Hrun Hnd Hcrs Hny Hnx Hst t dy dx Hall.
  pose proof (xr_coords_rot_dst tol dst cd Hst Hcrs) as Hnew. cbv zeta in Hnew. fold t dy dx in Hnew.
  destruct (ds_out_attrs tol itol src dst nd out Hrun) as (A1 & _ & _).
  split; [intros k Hk; rewrite A1; apply prune_spatial_removed; exact Hk|].
  split; [intros k Hk; rewrite A1; apply prune_spatial_kept; exact Hk|].
  intros nv syd sxd pre post Hin Hg.
  destruct (ds_var_view tol itol src dst nd out _ _ _ _ (Some t) (Some t) (mk_crs_coord cd None (Some t))
              Hnew eq_refl ltac:(lia) ltac:(lia) Hrun Hnd Hall nv syd sxd pre post Hin Hg)
    as (dv & v & view & E1 & E2 & E3 & E4 & E5 & E6 & G).
  destruct (georef_roundtrip_rot tol t (Some cd) (Some DEFAULT_CRS_COORD_NAME) dy dx (Some t) view (g_ny dst) (g_nx dst) G Hny Hnx)
    as (T & E & A).
  exists v, view, T. split; [exact E2|]. split; [|split; [exact E5 | split; [exact E | exact A]]].
  intros k Hk. rewrite E3. apply out_attrs_spatial; exact Hk.
Qed.
