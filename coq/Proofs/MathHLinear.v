(** decompose_rws (rotation / shear / scale) and affine_from_pts (normal
    equations): the algebraic statements. *)
From Coq Require Import ZArith QArith Qround Qabs List Bool Lia Lqa Nsatz.
From OG Require Import Base.Result Base.QZ Model.Roi Model.MathH Proofs.MathHBasics.
Import ListNotations.
Open Scope Q_scope.

(** * decompose_rws *)

(** orthogonality of R, polynomial form: [i1], [i2] are the inverses of the roots *)
Lemma rws_core a b c d l11 l22 i1 i2 :
  i1 * l11 == 1 -> i2 * l22 == 1 -> l11 * l11 == a * a + c * c ->
  l22 * l22 == b * b + d * d - ((a * b + c * d) * i1) * ((a * b + c * d) * i1) ->
  let r00 := a * i1 in let r10 := c * i1 in
  let r01 := - (a * (a * b + c * d) * i1 * i1 * i2) + b * i2 in
  let r11 := - (c * (a * b + c * d) * i1 * i1 * i2) + d * i2 in
  r00 * r00 + r10 * r10 == 1 /\ r00 * r01 + r10 * r11 == 0 /\ r01 * r01 + r11 * r11 == 1 /\
  (r00 * r11 - r01 * r10) * (r00 * r11 - r01 * r10) == 1.
Proof.
  intros H1 H2 E1 E2. cbv zeta. repeat split; timeout 60 nsatz.
Qed.

Lemma sq1_pos x : x * x == 1 -> 0 <= x -> x == 1.
Proof.
  intros H P. assert (E : (x - 1) * (x + 1) == 0).
  { setoid_replace ((x - 1) * (x + 1)) with (x * x - 1) by ring. rewrite H. ring. }
  destruct (Qmult_integral _ _ E) as [Z0|Z0]; lra.
Qed.

Lemma decompose_rws_with_spec (A : mat2) (l11 l22 : Q) :
  0 < l11 -> l11 * l11 == m00 (m2mul (m2T A) A) ->
  0 < l22 -> l22 * l22 == m11 (m2mul (m2T A) A) - (m01 (m2mul (m2T A) A) / l11) * (m01 (m2mul (m2T A) A) / l11) ->
  let '(R, W, Sm) := decompose_rws_with l11 l22 A in
  m2eq (m2mul R (m2mul W Sm)) A /\
  m2eq (m2mul (m2T R) R) m2I /\ m2det R == 1 /\
  m00 W == 1 /\ m10 W == 0 /\ m11 W == 1 /\
  m01 Sm == 0 /\ m10 Sm == 0.
Proof.
  destruct A as [a b c d]. unfold decompose_rws_with, m2mul, m2T, m2det, m2eq, m2I. cbn [m00 m01 m10 m11].
  intros H1 E1 H2 E2.
  assert (N1 : ~ l11 == 0) by lra. assert (N2 : ~ l22 == 0) by lra.
  assert (I1 : / l11 * l11 == 1) by (field; exact N1).
  assert (I2 : / l22 * l22 == 1) by (field; exact N2).
  assert (E2' : l22 * l22 == b * b + d * d - ((a * b + c * d) * / l11) * ((a * b + c * d) * / l11)).
  { rewrite E2. unfold Qdiv. reflexivity. }
  destruct (rws_core a b c d l11 l22 (/ l11) (/ l22) I1 I2 E1 E2') as (O1 & O2 & O3 & O4).
  (* the entries of R as the model computes them *)
  assert (R00 : a * (1 / l11) + b * 0 == a * / l11) by (field; exact N1).
  assert (R10 : c * (1 / l11) + d * 0 == c * / l11) by (field; exact N1).
  assert (R01 : a * (- ((a * b + c * d) / l11) / (l11 * l22)) + b * (1 / l22)
                == - (a * (a * b + c * d) * / l11 * / l11 * / l22) + b * / l22) by (field; split; assumption).
  assert (R11 : c * (- ((a * b + c * d) / l11) / (l11 * l22)) + d * (1 / l22)
                == - (c * (a * b + c * d) * / l11 * / l11 * / l22) + d * / l22) by (field; split; assumption).
  match goal with |- context [Qltb ?x 0] => destruct (Qltb x 0) eqn:ED end; cbn [m00 m01 m10 m11].
  - apply Qltb_true in ED. rewrite R00, R10, R01, R11 in ED.
    split; [repeat split; field; split; assumption|].
    rewrite R00, R10, R01, R11.
    clear R00 R10 R01 R11 E1 E2 E2' I1 I2.
    set (r00 := a * / l11) in *. set (r10 := c * / l11) in *.
    set (r01 := - (a * (a * b + c * d) * / l11 * / l11 * / l22) + b * / l22) in *.
    set (r11 := - (c * (a * b + c * d) * / l11 * / l11 * / l22) + d * / l22) in *.
    clearbody r00 r10 r01 r11.
    split; [repeat split; lra|].
    split.
    { apply sq1_pos; [|lra].
      setoid_replace ((r00 * - r11 - - r01 * r10) * (r00 * - r11 - - r01 * r10))
        with ((r00 * r11 - r01 * r10) * (r00 * r11 - r01 * r10)) by ring. exact O4. }
    repeat split; try reflexivity; field; assumption.
  - apply Qltb_false in ED. rewrite R00, R10, R01, R11 in ED.
    split; [repeat split; field; split; assumption|].
    rewrite R00, R10, R01, R11.
    clear R00 R10 R01 R11 E1 E2 E2' I1 I2.
    set (r00 := a * / l11) in *. set (r10 := c * / l11) in *.
    set (r01 := - (a * (a * b + c * d) * / l11 * / l11 * / l22) + b * / l22) in *.
    set (r11 := - (c * (a * b + c * d) * / l11 * / l11 * / l22) + d * / l22) in *.
    clearbody r00 r10 r01 r11.
    split; [repeat split; lra|].
    split.
    { apply sq1_pos; [exact O4 | lra]. }
    repeat split; try reflexivity; field; assumption.
Qed.

(** exact rational square root *)
Lemma exact_sqrt_spec x r : exact_sqrt x = Some r -> 0 <= r /\ r * r == x.
Proof.
  unfold exact_sqrt.
  destruct (Qnum (Qred x) <? 0)%Z eqn:E0; [discriminate|].
  destruct ((Z.sqrt (Qnum (Qred x)) * Z.sqrt (Qnum (Qred x)) =? Qnum (Qred x))%Z &&
            (Z.sqrt (Z.pos (Qden (Qred x))) * Z.sqrt (Z.pos (Qden (Qred x))) =? Z.pos (Qden (Qred x)))%Z) eqn:E;
    [|discriminate].
  intros H. injection H as <-.
  apply andb_true_iff in E. destruct E as [En Ed]. apply Z.eqb_eq in En, Ed.
  set (rn := Z.sqrt (Qnum (Qred x))) in *. set (rd := Z.sqrt (Z.pos (Qden (Qred x)))) in *.
  assert (Pn : (0 <= rn)%Z) by apply Z.sqrt_nonneg.
  assert (Pd : (0 < rd)%Z).
  { assert (0 <= rd)%Z by apply Z.sqrt_nonneg. destruct (Z.eq_dec rd 0) as [Z0|]; [rewrite Z0 in Ed; discriminate | lia]. }
  split.
  - unfold Qle. simpl. lia.
  - apply Qeq_trans with (Qred x); [|apply Qred_correct]. unfold Qeq, Qmult. simpl.
    rewrite Pos2Z.inj_mul. change (Z.pos (Pos.sqrt (Qden (Qred x)))) with rd. rewrite En, Ed. reflexivity.
Qed.

Lemma decompose_rws_exec_spec (A : mat2) R W Sm : decompose_rws A = Ok (R, W, Sm) ->
  m2eq (m2mul R (m2mul W Sm)) A /\
  m2eq (m2mul (m2T R) R) m2I /\ m2det R == 1 /\
  m00 W == 1 /\ m10 W == 0 /\ m11 W == 1 /\ m01 Sm == 0 /\ m10 Sm == 0.
Proof.
  unfold decompose_rws.
  destruct (exact_sqrt (m00 (m2mul (m2T A) A))) as [l11|] eqn:S1; [|discriminate].
  destruct (Qeq_bool l11 0) eqn:Z1; [discriminate|].
  destruct (exact_sqrt (m11 (m2mul (m2T A) A) - m01 (m2mul (m2T A) A) / l11 * (m01 (m2mul (m2T A) A) / l11)))
    as [l22|] eqn:S2; [|discriminate].
  destruct (Qeq_bool l22 0) eqn:Z2; [discriminate|].
  intros H. injection H as H.
  apply exact_sqrt_spec in S1, S2. destruct S1 as [P1 E1]. destruct S2 as [P2 E2].
  assert (N1 : ~ l11 == 0) by (intros C; apply Qeq_bool_iff in C; congruence).
  assert (N2 : ~ l22 == 0) by (intros C; apply Qeq_bool_iff in C; congruence).
  assert (H1 : 0 < l11) by lra. assert (H2 : 0 < l22) by lra.
  pose proof (decompose_rws_with_spec A l11 l22 H1 E1 H2 E2) as Sp.
  rewrite H in Sp. exact Sp.
Qed.

(** resolution_from_affine *)
Lemma resolution_from_affine_st A tol :
  is_affine_st A tol = true -> resolution_from_affine A tol = Ok (aa A, ae A).
Proof. intros H. unfold resolution_from_affine. rewrite H. reflexivity. Qed.

Lemma resolution_from_affine_rotated A tol rx ry :
  is_affine_st A tol = false -> resolution_from_affine A tol = Ok (rx, ry) ->
  exists R W Sm, decompose_rws (mkM (aa A) (ab A) (ad A) (ae A)) = Ok (R, W, Sm) /\ rx = m00 Sm /\ ry = m11 Sm.
Proof.
  intros H. unfold resolution_from_affine. rewrite H.
  destruct (decompose_rws (mkM (aa A) (ab A) (ad A) (ae A))) as [[[R W] Sm]|]; [|discriminate].
  simpl. intros E. injection E as E1 E2. exists R, W, Sm. repeat split; congruence.
Qed.

(** * affine_from_pts *)
Lemma sumQ_combine_map {B} (f : Q * Q -> B) (g : (Q * Q) * B -> Q) X :
  sumQ (map g (combine X (map f X))) == sumQ (map (fun x => g (x, f x)) X).
Proof. induction X as [|x X IH]; simpl; [reflexivity | rewrite IH; reflexivity]. Qed.

Lemma sum_lin_fst X a b c :
  sumQ (map (fun p => fst p * (a * fst p + b * snd p + c)) X) ==
  a * sumQ (map (fun p => fst p * fst p) X) + b * sumQ (map (fun p => fst p * snd p) X) + c * sumQ (map fst X).
Proof. induction X as [|x X IH]; simpl; [ring | rewrite IH; ring]. Qed.

Lemma sum_lin_snd X a b c :
  sumQ (map (fun p => snd p * (a * fst p + b * snd p + c)) X) ==
  a * sumQ (map (fun p => fst p * snd p) X) + b * sumQ (map (fun p => snd p * snd p) X) + c * sumQ (map snd X).
Proof. induction X as [|x X IH]; simpl; [ring | rewrite IH; ring]. Qed.

Lemma sum_lin_one X a b c :
  sumQ (map (fun p => a * fst p + b * snd p + c) X) ==
  a * sumQ (map fst X) + b * sumQ (map snd X) + c * inject_Z (Z.of_nat (length X)).
Proof.
  induction X as [|x X IH]; [simpl; ring|].
  cbn [map sumQ fold_right length]. fold (sumQ (map (fun p => a * fst p + b * snd p + c) X)).
  fold (sumQ (map fst X)). fold (sumQ (map snd X)).
  rewrite IH, Nat2Z.inj_succ. unfold Z.succ. rewrite inject_Z_plus. change (inject_Z 1) with 1. ring.
Qed.

(** Cramer's rule recovers the coefficients of a linear combination of the columns *)
Lemma cramer3_linear X a b c :
  ~ normal_det X == 0 ->
  let '(sxx, sxy, syy, sx, sy, n) := moments X in
  let '(ra, rb, rc) := cramer3 X (a * sxx + b * sxy + c * sx, a * sxy + b * syy + c * sy, a * sx + b * sy + c * n) in
  ra == a /\ rb == b /\ rc == c.
Proof.
  unfold cramer3, normal_det. destruct (moments X) as [[[[[sxx sxy] syy] sx] sy] n].
  intros HD. set (D := det3 sxx sxy sx sxy syy sy sx sy n) in *.
  repeat split.
  - setoid_replace (det3 (a * sxx + b * sxy + c * sx) sxy sx (a * sxy + b * syy + c * sy) syy sy (a * sx + b * sy + c * n) sy n)
      with (a * D) by (unfold D, det3; ring).
    apply Qdiv_mult_l. exact HD.
  - setoid_replace (det3 sxx (a * sxx + b * sxy + c * sx) sx sxy (a * sxy + b * syy + c * sy) sy sx (a * sx + b * sy + c * n) n)
      with (b * D) by (unfold D, det3; ring).
    apply Qdiv_mult_l. exact HD.
  - setoid_replace (det3 sxx sxy (a * sxx + b * sxy + c * sx) sxy syy (a * sxy + b * syy + c * sy) sx sy (a * sx + b * sy + c * n))
      with (c * D) by (unfold D, det3; ring).
    apply Qdiv_mult_l. exact HD.
Qed.

Lemma cramer3_comp X r0 r1 r2 s0 s1 s2 : r0 == s0 -> r1 == s1 -> r2 == s2 ->
  let '(a, b, c) := cramer3 X (r0, r1, r2) in
  let '(a', b', c') := cramer3 X (s0, s1, s2) in
  a == a' /\ b == b' /\ c == c'.
Proof.
  intros E0 E1 E2. unfold cramer3. destruct (moments X) as [[[[[sxx sxy] syy] sx] sy] n].
  unfold det3. rewrite E0, E1, E2. repeat split; reflexivity.
Qed.

Lemma normal_rhs_exact A X :
  let '(sxx, sxy, syy, sx, sy, n) := moments X in
  let XY := combine X (map (aff_apply A) X) in
  (let '(r0, r1, r2) := normal_rhs XY fst in
   r0 == aa A * sxx + ab A * sxy + ac A * sx /\ r1 == aa A * sxy + ab A * syy + ac A * sy /\
   r2 == aa A * sx + ab A * sy + ac A * n) /\
  (let '(r0, r1, r2) := normal_rhs XY snd in
   r0 == ad A * sxx + ae A * sxy + af A * sx /\ r1 == ad A * sxy + ae A * syy + af A * sy /\
   r2 == ad A * sx + ae A * sy + af A * n).
Proof.
  unfold moments, normal_rhs. cbv zeta.
  split; repeat split.
  - rewrite (sumQ_combine_map (aff_apply A) (fun p => fst (fst p) * fst (snd p))). cbn [fst snd aff_apply]. apply sum_lin_fst.
  - rewrite (sumQ_combine_map (aff_apply A) (fun p => snd (fst p) * fst (snd p))). cbn [fst snd aff_apply]. apply sum_lin_snd.
  - rewrite (sumQ_combine_map (aff_apply A) (fun p => fst (snd p))). cbn [fst snd aff_apply]. apply sum_lin_one.
  - rewrite (sumQ_combine_map (aff_apply A) (fun p => fst (fst p) * snd (snd p))). cbn [fst snd aff_apply]. apply sum_lin_fst.
  - rewrite (sumQ_combine_map (aff_apply A) (fun p => snd (fst p) * snd (snd p))). cbn [fst snd aff_apply]. apply sum_lin_snd.
  - rewrite (sumQ_combine_map (aff_apply A) (fun p => snd (snd p))). cbn [fst snd aff_apply]. apply sum_lin_one.
Qed.

Lemma affine_from_pts_exact (A : aff) (X : list (Q * Q)) (B : aff) :
  affine_from_pts X (map (aff_apply A) X) = Ok B -> aff_eq B A.
Proof.
  unfold affine_from_pts.
  destruct (negb (Nat.eqb (length X) (length (map (aff_apply A) X)))); [discriminate|].
  destruct (negb (3 <=? Z.of_nat (length X))%Z); [discriminate|].
  destruct (Qeq_bool (normal_det X) 0) eqn:ED; [discriminate|].
  assert (HD : ~ normal_det X == 0) by (intros C; apply Qeq_bool_iff in C; congruence).
  pose proof (normal_rhs_exact A X) as RH.
  pose proof (cramer3_linear X (aa A) (ab A) (ac A) HD) as C1.
  pose proof (cramer3_linear X (ad A) (ae A) (af A) HD) as C2.
  destruct (moments X) as [[[[[sxx sxy] syy] sx] sy] n] eqn:EM.
  cbv zeta in RH. destruct RH as [RH1 RH2].
  destruct (normal_rhs (combine X (map (aff_apply A) X)) fst) as [[r0 r1] r2].
  destruct (normal_rhs (combine X (map (aff_apply A) X)) snd) as [[q0 q1] q2].
  destruct RH1 as (F0 & F1 & F2). destruct RH2 as (G0 & G1 & G2).
  pose proof (cramer3_comp X _ _ _ _ _ _ F0 F1 F2) as K1.
  pose proof (cramer3_comp X _ _ _ _ _ _ G0 G1 G2) as K2.
  destruct (cramer3 X (r0, r1, r2)) as [[a b] c].
  destruct (cramer3 X (q0, q1, q2)) as [[d e] f].
  destruct (cramer3 X (aa A * sxx + ab A * sxy + ac A * sx, aa A * sxy + ab A * syy + ac A * sy,
                       aa A * sx + ab A * sy + ac A * n)) as [[a' b'] c'].
  destruct (cramer3 X (ad A * sxx + ae A * sxy + af A * sx, ad A * sxy + ae A * syy + af A * sy,
                       ad A * sx + ae A * sy + af A * n)) as [[d' e'] f'].
  intros H. injection H as <-. unfold aff_eq. cbn [aa ab ac ad ae af].
  destruct K1 as (K1a & K1b & K1c). destruct K2 as (K2a & K2b & K2c).
  destruct C1 as (C1a & C1b & C1c). destruct C2 as (C2a & C2b & C2c).
  rewrite K1a, K1b, K1c, K2a, K2b, K2c. repeat split; assumption.
Qed.

Lemma affine_from_pts_total (A : aff) (X : list (Q * Q)) :
  (3 <= length X)%nat -> ~ normal_det X == 0 ->
  exists B, affine_from_pts X (map (aff_apply A) X) = Ok B.
Proof.
  intros Hn HD. unfold affine_from_pts. rewrite map_length, Nat.eqb_refl. simpl negb. cbv iota.
  assert (E : (3 <=? Z.of_nat (length X))%Z = true) by (apply Z.leb_le; lia). rewrite E. simpl negb. cbv iota.
  destruct (Qeq_bool (normal_det X) 0) eqn:ED; [apply Qeq_bool_iff in ED; contradiction|].
  destruct (cramer3 X (normal_rhs (combine X (map (aff_apply A) X)) fst)) as [[a b] c].
  destruct (cramer3 X (normal_rhs (combine X (map (aff_apply A) X)) snd)) as [[d e] f].
  eexists. reflexivity.
Qed.
