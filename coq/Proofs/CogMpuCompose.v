(** Composition of C05 (offsets computed from the observed (size, id) stream) with C06
    (multi-part assembly preserves the byte stream under every schedule): in the file
    assembled by [mpu_write] along ANY merge tree, the offset derived from the sizes the
    header callback observed addresses exactly the bytes of that chunk (tile). *)
From Coq Require Import ZArith List Bool Lia Permutation.
From OG Require Import Base.Result Base.ListSel Model.Mpu Proofs.MpuProofs.
Import ListNotations.
Open Scope Z_scope.

Definition zsum (l : list Z) : Z := fold_right Z.add 0 l.

Lemma zsum_nonneg_lens {X} (cs : list (list X)) n : 0 <= zsum (firstn n (map len cs)).
Proof.
  revert n; induction cs as [|c cs IH]; intros [|n]; simpl; try lia.
  pose proof (len_nonneg c). specialize (IH n). unfold zsum in *. lia.
Qed.

Lemma sel_app_skip {X} (a b : list X) s e : 0 <= s -> 0 <= e ->
  sel (a ++ b) (len a + s) (len a + e) = sel b s e.
Proof.
  intros Hs He. apply nth_error_ext; intros i.
  pose proof (len_nonneg a).
  rewrite !nth_error_sel by lia.
  destruct (Z.ltb_spec (len a + s + Z.of_nat i) (len a + e)); destruct (Z.ltb_spec (s + Z.of_nat i) e); try lia; auto.
  replace (Z.to_nat (len a + s) + i)%nat with (length a + (Z.to_nat s + i))%nat by (unfold len; lia).
  rewrite nth_error_app2 by lia. f_equal. lia.
Qed.

Lemma sel_app_prefix {X} (c rest : list X) : sel (c ++ rest) 0 (len c) = c.
Proof.
  apply nth_error_ext; intros i. pose proof (len_nonneg c).
  rewrite nth_error_sel by lia. cbn [Z.to_nat Nat.add Z.add].
  destruct (Z.ltb_spec (Z.of_nat i) (len c)).
  - apply nth_error_app1. unfold len in *. lia.
  - symmetry. apply nth_error_None. unfold len in *. lia.
Qed.

Lemma sel_concat_nth {X} (cs : list (list X)) : forall (hdr tail : list X) n c,
  nth_error cs n = Some c ->
  let off := len hdr + zsum (firstn n (map len cs)) in
  sel (hdr ++ concat cs ++ tail) off (off + len c) = c.
Proof.
  induction cs as [|c0 cs IH]; intros hdr tail [|n] c E; simpl in E; try discriminate.
  - inversion E; subst. cbn [firstn map zsum fold_right concat].
    rewrite Z.add_0_r. rewrite <- app_assoc.
    replace (len hdr) with (len hdr + 0) at 1 by lia.
    pose proof (len_nonneg c).
    rewrite sel_app_skip by lia. apply sel_app_prefix.
  - cbn [firstn map concat]. cbn [zsum fold_right]. fold (zsum (firstn n (map len cs))).
    specialize (IH (hdr ++ c0) tail n c E). cbv zeta in IH.
    rewrite len_app in IH. rewrite <- !app_assoc in IH. rewrite <- app_assoc.
    replace (len hdr + (len c0 + zsum (firstn n (map len cs))))
      with (len hdr + len c0 + zsum (firstn n (map len cs))) by lia.
    exact IH.
Qed.

Section Compose.
Context {A CI : Type}.
Variable pw : writer.
Hypothesis Hminw : 0 <= minw pw.

Theorem offsets_address_chunks_in_assembled_file wpc spill (hdr : list A) (t : tree A CI) :
  1 <= wpc -> 0 <= spill -> tree_ok t -> minp pw + nleaves t * wpc <= maxp pw ->
  exists fp log,
    mpu_write fixed pw wpc spill hdr false [] t = Ok (fp, log, obs_of (tree_chunks t)) /\
    let file := concat (map snd fp) in
    let sizes := map fst (obs_of (tree_chunks t)) in
    forall n c, nth_error (tree_chunks t) n = Some c ->
      let off := len hdr + zsum (firstn n sizes) in
      sel file off (off + len (fst c)) = fst c.
Proof.
  intros Hw Hs Hok Hmax.
  destruct (mpu_write_correct pw Hminw wpc spill hdr false [] t Hw Hs Hok Hmax) as (fp & log & E & R).
  exists fp, log. split; [exact E|].
  destruct R as (Hbytes & _). unfold pbytes in Hbytes. cbv zeta. intros n c En.
  rewrite Hbytes. unfold bytes_of.
  assert (Hsz : map fst (obs_of (tree_chunks t)) = map len (map fst (tree_chunks t))).
  { unfold obs_of. rewrite !map_map. reflexivity. }
  rewrite Hsz.
  apply (sel_concat_nth (map fst (tree_chunks t)) hdr [] n (fst c)).
  rewrite nth_error_map, En. reflexivity.
Qed.

End Compose.
