(** Proofs about Model/Overlap.v: the per-axis overlap arithmetic (C03 core). *)
From Coq Require Import ZArith QArith Qround Qabs List Bool Lia Lqa.
From OG Require Import Base.Result Base.QZ Model.Roi Model.Overlap.
Import ListNotations.
Open Scope Q_scope.

Lemma Qltb_true x y : Qltb x y = true <-> x < y.
Proof.
  unfold Qltb. rewrite negb_true_iff. apply Qle_bool_false.
Qed.

Lemma Qltb_false x y : Qltb x y = false <-> y <= x.
Proof.
  unfold Qltb. rewrite negb_false_iff. apply Qle_bool_true.
Qed.

Lemma inject_Z_half_lt (a b : Z) : inject_Z a < inject_Z b + 1 -> (a <= b)%Z.
Proof.
  intros H. assert (E : inject_Z b + 1 == inject_Z (b + 1)) by (rewrite inject_Z_plus; reflexivity).
  rewrite E in H. rewrite <- Zlt_Qlt in H. lia.
Qed.

(** ** the positive-scale core of compute_axis_overlap *)
Lemma axis_core_eq Ns Nd s t :
  axis_core Ns Nd s t =
  (let u := 1 / s in
   let in_s := if Qltb t 0 then 0%Z else Z.min (Qfloor t) Ns in
   let in_d := if Qltb t 0 then Z.min (Qfloor (- t * u)) Nd else 0%Z in
   let a := Qceiling (inject_Z Nd * s + t) in
   let out_s := if (a <=? Ns)%Z then Z.max a 0 else Ns in
   let out_d := if (a <=? Ns)%Z then Nd else Z.max 0 (Qceiling (inject_Z Ns * u + - t * u)) in
   (in_s, out_s, in_d, out_d)).
Proof.
  unfold axis_core. destruct (Qltb t 0); destruct (_ <=? _)%Z; reflexivity.
Qed.

Lemma u_pos s : 0 < s -> 0 < 1 / s.
Proof. intros. apply Qlt_shift_div_l; lra. Qed.
Lemma su_one s : 0 < s -> s * (1 / s) == 1.
Proof. intros. field. lra. Qed.

(* facts about the four numbers, in terms of Q inequalities *)
Lemma core_facts Ns Nd s t :
  (0 <= Ns)%Z -> (0 <= Nd)%Z -> 0 < s ->
  let u := 1 / s in
  let '(in_s, out_s, in_d, out_d) := axis_core Ns Nd s t in
  (0 <= in_s <= out_s)%Z /\ (out_s <= Ns)%Z /\ (0 <= in_d <= out_d)%Z /\ (out_d <= Nd)%Z.
Proof.
  intros HNs HNd Hs u.
  rewrite axis_core_eq. cbv zeta. fold u.
  pose proof (u_pos s Hs) as Hu. pose proof (su_one s Hs) as Hsu. fold u in Hu, Hsu.
  assert (HNsq : 0 <= inject_Z Ns) by (rewrite Zle_Qle in HNs; exact HNs).
  assert (HNdq : 0 <= inject_Z Nd) by (rewrite Zle_Qle in HNd; exact HNd).
  set (a := Qceiling (inject_Z Nd * s + t)).
  set (c2 := Qceiling (inject_Z Ns * u + - t * u)).
  set (ft := Qfloor t). set (fu := Qfloor (- t * u)).
  assert (Ha : inject_Z Nd * s + t <= inject_Z a) by apply Qle_ceiling.
  assert (Hc2 : inject_Z Ns * u + - t * u <= inject_Z c2) by apply Qle_ceiling.
  assert (Hft : inject_Z ft <= t) by apply Qfloor_le.
  assert (Hfu : inject_Z fu <= - t * u) by apply Qfloor_le.
  destruct (Qltb t 0) eqn:Et; [apply Qltb_true in Et | apply Qltb_false in Et];
  (destruct (a <=? Ns)%Z eqn:Ea; [apply Z.leb_le in Ea | apply Z.leb_gt in Ea]).
  - assert (0 <= fu)%Z by (apply Qfloor_ge_iff; change (inject_Z 0) with 0; timeout 20 nra). lia.
  - assert (0 <= fu)%Z by (apply Qfloor_ge_iff; change (inject_Z 0) with 0; timeout 20 nra).
    assert (fu <= c2)%Z.
    { rewrite Zle_Qle. timeout 20 nra. }
    assert (c2 <= Nd)%Z.
    { apply Qceiling_le_iff. apply Qceiling_gt_iff in Ea. timeout 20 nra. }
    lia.
  - assert (0 <= ft)%Z by (apply Qfloor_ge_iff; exact Et).
    assert (ft <= a)%Z by (rewrite Zle_Qle; timeout 20 nra).
    lia.
  - assert (0 <= ft)%Z by (apply Qfloor_ge_iff; exact Et).
    assert (c2 <= Nd)%Z.
    { apply Qceiling_le_iff. apply Qceiling_gt_iff in Ea. timeout 20 nra. }
    lia.
Qed.

Lemma Zlt_from_half (a d : Z) : inject_Z a <= inject_Z d + (1#2) -> (a <= d)%Z.
Proof.
  intros H. apply inject_Z_half_lt. lra.
Qed.

Lemma Zgt_from_half (a d : Z) : inject_Z d + (1#2) <= inject_Z a -> (d < a)%Z.
Proof.
  intros H. rewrite Zlt_Qlt. lra.
Qed.

Lemma core_incl Ns Nd s t d :
  (0 <= Ns)%Z -> (0 <= Nd)%Z -> 0 < s -> (0 <= d < Nd)%Z ->
  let x := s * (inject_Z d + (1#2)) + t in
  let '(in_s, out_s, in_d, out_d) := axis_core Ns Nd s t in
  (0 <= x -> x <= inject_Z Ns -> (in_d <= d < out_d)%Z) /\
  (0 <= x -> x < inject_Z Ns -> inject_Z in_s <= x /\ x < inject_Z out_s) /\
  (0 < x -> x <= inject_Z Ns -> inject_Z in_s < x /\ x <= inject_Z out_s).
Proof.
  intros HNs HNd Hs Hd x.
  rewrite axis_core_eq. cbv zeta. set (u := 1 / s).
  pose proof (u_pos s Hs) as Hu. pose proof (su_one s Hs) as Hsu. fold u in Hu, Hsu.
  assert (HNsq : 0 <= inject_Z Ns) by (rewrite Zle_Qle in HNs; exact HNs).
  assert (Hd0 : 0 <= inject_Z d) by (change 0 with (inject_Z 0); rewrite <- Zle_Qle; lia).
  assert (Hd1 : inject_Z d + 1 <= inject_Z Nd).
  { assert (E : inject_Z d + 1 == inject_Z (d + 1)) by (rewrite inject_Z_plus; reflexivity).
    rewrite E. rewrite <- Zle_Qle. lia. }
  set (a := Qceiling (inject_Z Nd * s + t)).
  set (c2 := Qceiling (inject_Z Ns * u + - t * u)).
  set (ft := Qfloor t). set (fu := Qfloor (- t * u)).
  assert (Ha : inject_Z Nd * s + t <= inject_Z a) by apply Qle_ceiling.
  assert (Hc2 : inject_Z Ns * u + - t * u <= inject_Z c2) by apply Qle_ceiling.
  assert (Hft : inject_Z ft <= t) by apply Qfloor_le.
  assert (Hfu : inject_Z fu <= - t * u) by apply Qfloor_le.
  set (c := inject_Z d + (1#2)) in *.
  assert (Hc : 0 < c) by (unfold c; lra).
  assert (Hxc : (x - t) * u == c).
  { unfold x. transitivity (c * (s * u)); [ring | rewrite Hsu; ring]. }
  assert (Hxt : t < x) by (unfold x; timeout 20 nra).
  assert (HxN : x < inject_Z Nd * s + t) by (unfold x, c; timeout 20 nra).
  assert (Hcd : c == inject_Z d + (1#2)) by reflexivity.
  clearbody x c.
  assert (F1 : 0 <= x -> (fu <= d)%Z).
  { intros H0. apply Zlt_from_half. rewrite <- Hcd, <- Hxc. timeout 20 nra. }
  assert (F2 : x <= inject_Z Ns -> (d < c2)%Z).
  { intros H0. apply Zgt_from_half. rewrite <- Hcd, <- Hxc. timeout 20 nra. }
  assert (F3 : x < inject_Z (Z.max a 0)).
  { eapply Qlt_le_trans; [exact HxN|]. eapply Qle_trans; [exact Ha|]. rewrite <- Zle_Qle. lia. }
  assert (F4 : inject_Z (Z.min ft Ns) < x).
  { eapply Qle_lt_trans; [|exact Hxt]. eapply Qle_trans; [|exact Hft]. rewrite <- Zle_Qle. lia. }
  destruct (Qltb t 0) eqn:Et; [apply Qltb_true in Et | apply Qltb_false in Et];
  (destruct (a <=? Ns)%Z eqn:Ea; [apply Z.leb_le in Ea | apply Z.leb_gt in Ea]).
  all: repeat split; intros.
  all: try (change (inject_Z 0) with 0).
  all: try lra.
  all: try (specialize (F1 ltac:(lra))); try (specialize (F2 ltac:(lra))).
  all: try lia.
Qed.

Lemma core_disjoint Ns Nd s t :
  (0 <= Ns)%Z -> (0 <= Nd)%Z -> 0 < s ->
  inject_Z Nd * s + t <= 0 \/ inject_Z Ns <= t ->
  let '(in_s, out_s, in_d, out_d) := axis_core Ns Nd s t in
  out_s = in_s /\ out_d = in_d.
Proof.
  intros HNs HNd Hs Hdis.
  rewrite axis_core_eq. cbv zeta. set (u := 1 / s).
  pose proof (u_pos s Hs) as Hu. pose proof (su_one s Hs) as Hsu. fold u in Hu, Hsu.
  assert (HNsq : 0 <= inject_Z Ns) by (rewrite Zle_Qle in HNs; exact HNs).
  assert (HNdq : 0 <= inject_Z Nd) by (rewrite Zle_Qle in HNd; exact HNd).
  set (a := Qceiling (inject_Z Nd * s + t)).
  set (c2 := Qceiling (inject_Z Ns * u + - t * u)).
  set (ft := Qfloor t). set (fu := Qfloor (- t * u)).
  destruct Hdis as [H | H].
  - assert (Ha0 : (a <= 0)%Z) by (apply Qceiling_le_iff; exact H).
    assert (HNdu : inject_Z Nd <= - t * u).
    { assert (E : inject_Z Nd == inject_Z Nd * (s * u)) by (rewrite Hsu; ring). rewrite E. timeout 20 nra. }
    assert (Hfu : (Nd <= fu)%Z) by (apply Qfloor_ge_iff; exact HNdu).
    destruct (Qltb t 0) eqn:Et; [apply Qltb_true in Et | apply Qltb_false in Et].
    + destruct (a <=? Ns)%Z eqn:Ea; [|apply Z.leb_gt in Ea; lia]. split; lia.
    + assert (Nd = 0)%Z.
      { assert (inject_Z Nd <= 0) by (timeout 20 nra). change 0 with (inject_Z 0) in H0. rewrite <- Zle_Qle in H0. lia. }
      assert (Ht0 : t == 0) by (subst Nd; change (inject_Z 0) with 0 in H; lra).
      assert (ft = 0)%Z by (unfold ft; rewrite Ht0; reflexivity).
      destruct (a <=? Ns)%Z eqn:Ea; [|apply Z.leb_gt in Ea; lia]. split; lia.
  - assert (Et : Qltb t 0 = false) by (apply Qltb_false; lra). rewrite Et.
    assert (Hft : (Ns <= ft)%Z) by (apply Qfloor_ge_iff; exact H).
    destruct (a <=? Ns)%Z eqn:Ea; [apply Z.leb_le in Ea | apply Z.leb_gt in Ea].
    + assert (Nd = 0)%Z.
      { apply Qceiling_le_iff in Ea.
        assert (inject_Z Nd * s <= 0) by lra.
        assert (inject_Z Nd <= 0).
        { assert (E : inject_Z Nd == (inject_Z Nd * s) * u) by (rewrite <- Qmult_assoc, Hsu; ring). rewrite E. timeout 20 nra. }
        change 0 with (inject_Z 0) in H1. rewrite <- Zle_Qle in H1. lia. }
      assert (Ns <= a)%Z.
      { rewrite Zle_Qle. eapply Qle_trans; [exact H|]. eapply Qle_trans; [|apply Qle_ceiling]. timeout 20 nra. }
      split; lia.
    + assert (c2 <= 0)%Z.
      { apply Qceiling_le_iff. change (inject_Z 0) with 0. timeout 20 nra. }
      split; lia.
Qed.

(** ** compute_axis_overlap: bounds, inclusion, disjointness (any non-zero scale) *)
Definition in_sl (sl : Z * Z) (i : Z) : Prop := (fst sl <= i < snd sl)%Z.
Definition sl_within (sl : Z * Z) (n : Z) : Prop := (0 <= fst sl <= snd sl)%Z /\ (snd sl <= n)%Z.
Definition sl_empty (sl : Z * Z) : Prop := snd sl = fst sl.

Lemma axis_overlap_err Ns Nd s t : s == 0 -> axis_overlap Ns Nd s t = Err (EAssert 259).
Proof.
  intros H. unfold axis_overlap.
  assert (E1 : Qltb s 0 = false) by (apply Qltb_false; lra). rewrite E1.
  assert (E2 : Qltb 0 s = false) by (apply Qltb_false; lra). rewrite E2. reflexivity.
Qed.

Lemma axis_overlap_spec Ns Nd s t :
  (0 <= Ns)%Z -> (0 <= Nd)%Z -> ~ s == 0 ->
  exists src dst, axis_overlap Ns Nd s t = Ok (src, dst) /\
    sl_within src Ns /\ sl_within dst Nd /\
    (forall d, (0 <= d < Nd)%Z ->
       let x := s * (inject_Z d + (1#2)) + t in
       0 <= x -> x < inject_Z Ns -> in_sl dst d /\ in_sl src (Qfloor x)) /\
    ((t <= 0 /\ inject_Z Nd * s + t <= 0) \/ (inject_Z Ns <= t /\ inject_Z Ns <= inject_Z Nd * s + t) ->
       sl_empty src /\ sl_empty dst).
Proof.
  intros HNs HNd Hs0. unfold axis_overlap.
  destruct (Qltb s 0) eqn:Ef; [apply Qltb_true in Ef | apply Qltb_false in Ef].
  - (* mirrored *)
    assert (Hs1 : 0 < - s) by lra.
    assert (E2 : Qltb 0 (- s) = true) by (apply Qltb_true; exact Hs1). rewrite E2. cbn [negb].
    pose proof (core_facts Ns Nd (- s) (inject_Z Ns - t) HNs HNd Hs1) as HF.
    pose proof (core_disjoint Ns Nd (- s) (inject_Z Ns - t) HNs HNd Hs1) as HD.
    assert (HI := fun d Hd => core_incl Ns Nd (- s) (inject_Z Ns - t) d HNs HNd Hs1 Hd).
    cbv zeta in HF, HD, HI.
    destruct (axis_core Ns Nd (- s) (inject_Z Ns - t)) as [[[in_s out_s] in_d] out_d].
    eexists; eexists; split; [reflexivity|].
    unfold sl_within, in_sl, sl_empty; cbn [fst snd].
    split; [lia|]. split; [lia|]. split.
    + intros d Hd; set (x := s * (inject_Z d + (1 # 2)) + t); intros Hx0 HxN. specialize (HI d Hd).
      destruct HI as (I1 & _ & I3).
      assert (Ex : - s * (inject_Z d + (1 # 2)) + (inject_Z Ns - t) == inject_Z Ns - x) by (unfold x; ring).
      rewrite Ex in I1, I3.
      specialize (I1 ltac:(lra) ltac:(lra)). specialize (I3 ltac:(lra) ltac:(lra)).
      split; [exact I1|].
      split.
      * apply Qfloor_ge_iff. unfold Z.sub. rewrite inject_Z_plus, inject_Z_opp. lra.
      * apply Qfloor_lt_iff. unfold Z.sub. rewrite inject_Z_plus, inject_Z_opp. lra.
    + intros Hdis.
      assert (HD' : out_s = in_s /\ out_d = in_d).
      { apply HD. destruct Hdis as [[H1 H2] | [H1 H2]]; [right | left]; lra. }
      lia.
  - assert (Hs1 : 0 < s) by (destruct (Qlt_le_dec 0 s); [assumption | exfalso; apply Hs0; lra]).
    assert (E2 : Qltb 0 s = true) by (apply Qltb_true; exact Hs1). rewrite E2. cbn [negb].
    pose proof (core_facts Ns Nd s t HNs HNd Hs1) as HF.
    pose proof (core_disjoint Ns Nd s t HNs HNd Hs1) as HD.
    assert (HI := fun d Hd => core_incl Ns Nd s t d HNs HNd Hs1 Hd).
    cbv zeta in HF, HD, HI.
    destruct (axis_core Ns Nd s t) as [[[in_s out_s] in_d] out_d].
    eexists; eexists; split; [reflexivity|].
    unfold sl_within, in_sl, sl_empty; cbn [fst snd].
    split; [lia|]. split; [lia|]. split.
    + intros d Hd; set (x := s * (inject_Z d + (1 # 2)) + t); intros Hx0 HxN. specialize (HI d Hd).
      destruct HI as (I1 & I2 & _). fold x in I1, I2.
      specialize (I1 ltac:(lra) ltac:(lra)). specialize (I2 ltac:(lra) ltac:(lra)).
      split; [exact I1|].
      split; [apply Qfloor_ge_iff | apply Qfloor_lt_iff]; lra.
    + intros Hdis.
      assert (HD' : out_s = in_s /\ out_d = in_d).
      { apply HD. destruct Hdis as [[H1 H2] | [H1 H2]]; [left | right]; lra. }
      lia.
Qed.

(** ** unit scale, whole-pixel shift: the paste identity (C10 core) *)
Lemma Qltb_inj0 (T : Z) t : t == inject_Z T -> Qltb t 0 = (T <? 0)%Z.
Proof.
  intros E. destruct (T <? 0)%Z eqn:H.
  - apply Qltb_true. rewrite E. change 0 with (inject_Z 0). rewrite <- Zlt_Qlt. lia.
  - apply Qltb_false. rewrite E. change 0 with (inject_Z 0). rewrite <- Zle_Qle. lia.
Qed.

Lemma axis_core_unit Ns Nd (T : Z) s t :
  s == 1 -> t == inject_Z T ->
  axis_core Ns Nd s t =
  (if (T <? 0)%Z then 0%Z else Z.min T Ns,
   if (Nd + T <=? Ns)%Z then Z.max (Nd + T) 0 else Ns,
   if (T <? 0)%Z then Z.min (- T) Nd else 0%Z,
   if (Nd + T <=? Ns)%Z then Nd else Z.max 0 (Ns - T))%Z.
Proof.
  intros Es Et. rewrite axis_core_eq. cbv zeta.
  rewrite (Qltb_inj0 T t Et).
  assert (E1 : Qfloor t = T) by (rewrite Et; apply Qfloor_Z).
  assert (E2 : Qfloor (- t * (1 / s)) = (- T)%Z).
  { assert (E : - t * (1 / s) == inject_Z (- T)) by (rewrite Es, Et, inject_Z_opp; field).
    rewrite E. apply Qfloor_Z. }
  assert (E3 : Qceiling (inject_Z Nd * s + t) = (Nd + T)%Z).
  { assert (E : inject_Z Nd * s + t == inject_Z (Nd + T)) by (rewrite Es, Et, inject_Z_plus; ring).
    rewrite E. apply Qceiling_Z. }
  assert (E4 : Qceiling (inject_Z Ns * (1 / s) + - t * (1 / s)) = (Ns - T)%Z).
  { assert (E : inject_Z Ns * (1 / s) + - t * (1 / s) == inject_Z (Ns - T)).
    { unfold Z.sub. rewrite Es, Et, inject_Z_plus, inject_Z_opp. field. }
    rewrite E. apply Qceiling_Z. }
  rewrite E1, E2, E3, E4. reflexivity.
Qed.

(** index of the source element copied to destination position [d] by
    [dst[dst_sl] = src[src_sl]] (reversed when mirrored) *)
Definition paste_index (src dst : Z * Z) (flip : bool) (d : Z) : Z :=
  if flip then (snd src - 1 - (d - fst dst))%Z else (fst src + (d - fst dst))%Z.

Lemma axis_overlap_unit Ns Nd (T : Z) (flip : bool) :
  (0 <= Ns)%Z -> (0 <= Nd)%Z ->
  let s := if flip then inject_Z (-1) else inject_Z 1 in
  let nn := fun d => if flip then (T - 1 - d)%Z else (d + T)%Z in
  exists src dst, axis_overlap Ns Nd s (inject_Z T) = Ok (src, dst) /\
    (snd src - fst src = snd dst - fst dst)%Z /\
    (forall d, (0 <= d < Nd)%Z -> (in_sl dst d <-> (0 <= nn d < Ns)%Z)) /\
    (forall d, in_sl dst d -> paste_index src dst flip d = nn d).
Proof.
  intros HNs HNd s nn. unfold axis_overlap, s, nn, paste_index, in_sl. destruct flip.
  - assert (E1 : Qltb (inject_Z (-1)) 0 = true) by reflexivity. rewrite E1.
    assert (E2 : Qltb 0 (- inject_Z (-1)) = true) by reflexivity. rewrite E2. cbn [negb].
    rewrite (axis_core_unit Ns Nd (Ns - T)%Z).
    2: reflexivity.
    2: unfold Z.sub; rewrite inject_Z_plus, inject_Z_opp; ring.
    eexists; eexists; split; [reflexivity|]. cbn [fst snd].
    destruct (Ns - T <? 0)%Z eqn:A; [apply Z.ltb_lt in A | apply Z.ltb_ge in A];
    (destruct (Nd + (Ns - T) <=? Ns)%Z eqn:B; [apply Z.leb_le in B | apply Z.leb_gt in B]);
    repeat split; intros; lia.
  - assert (E1 : Qltb (inject_Z 1) 0 = false) by reflexivity. rewrite E1.
    assert (E2 : Qltb 0 (inject_Z 1) = true) by reflexivity. rewrite E2. cbn [negb].
    rewrite (axis_core_unit Ns Nd T).
    2: reflexivity.
    2: reflexivity.
    eexists; eexists; split; [reflexivity|]. cbn [fst snd].
    destruct (T <? 0)%Z eqn:A; [apply Z.ltb_lt in A | apply Z.ltb_ge in A];
    (destruct (Nd + T <=? Ns)%Z eqn:B; [apply Z.leb_le in B | apply Z.leb_gt in B]);
    repeat split; intros; lia.
Qed.

(** the nearest-neighbour source index of the TRUE transform equals the pasted one
    as long as the true location is less than half a pixel from the snapped one *)
Lemma nn_floor_unit (T d : Z) (flip : bool) (x : Q) :
  let s := if flip then inject_Z (-1) else inject_Z 1 in
  Qabs (x - (s * (inject_Z d + (1#2)) + inject_Z T)) < 1#2 ->
  Qfloor x = if flip then (T - 1 - d)%Z else (d + T)%Z.
Proof.
  intros s H. apply Qabs_Qlt_condition in H. destruct H as [H1 H2].
  destruct (Qfloor_spec x) as (f & Ef & F1 & F2).
  destruct flip; unfold s in *.
  - assert (E : inject_Z (-1) * (inject_Z d + (1 # 2)) + inject_Z T == inject_Z (T - 1 - d) + (1#2)).
    { unfold Z.sub. rewrite !inject_Z_plus, !inject_Z_opp. change (inject_Z (-1)) with (-(1)). change (inject_Z 1) with 1. ring. }
    rewrite E in H1, H2.
    assert (T - 1 - d <= Qfloor x)%Z by (apply Qfloor_ge_iff; lra).
    assert (Qfloor x < T - 1 - d + 1)%Z by (apply Qfloor_lt_iff; rewrite inject_Z_plus; change (inject_Z 1) with 1; lra).
    lia.
  - assert (E : inject_Z 1 * (inject_Z d + (1 # 2)) + inject_Z T == inject_Z (d + T) + (1#2)).
    { rewrite !inject_Z_plus. change (inject_Z 1) with 1. ring. }
    rewrite E in H1, H2.
    assert (d + T <= Qfloor x)%Z by (apply Qfloor_ge_iff; lra).
    assert (Qfloor x < d + T + 1)%Z by (apply Qfloor_lt_iff; rewrite inject_Z_plus; change (inject_Z 1) with 1; lra).
    lia.
Qed.

(** ** odc.geo.math helpers: split_float, maybe_int, is_almost_int *)
Lemma Qltb_comp x x' y y' : x == x' -> y == y' -> Qltb x y = Qltb x' y'.
Proof. intros E1 E2. unfold Qltb. rewrite E1, E2. reflexivity. Qed.

Lemma Qtrunc_comp x y : x == y -> Qtrunc x = Qtrunc y.
Proof.
  intros E. unfold Qtrunc. rewrite (Qltb_comp x y 0 0 E (Qeq_refl 0)).
  destruct (Qltb y 0); rewrite E; reflexivity.
Qed.

Lemma Qtrunc_Z z : Qtrunc (inject_Z z) = z.
Proof. unfold Qtrunc. destruct (Qltb _ _); [apply Qceiling_Z | apply Qfloor_Z]. Qed.

Lemma fmod1_spec x :
  exists z, z = Qtrunc x /\ fmod1 x == x - inject_Z z /\
    ((0 <= x /\ 0 <= fmod1 x /\ fmod1 x < 1) \/ (x < 0 /\ -(1) < fmod1 x /\ fmod1 x <= 0)).
Proof.
  exists (Qtrunc x). split; [reflexivity|]. split; [reflexivity|].
  unfold fmod1, Qtrunc.
  destruct (Qltb x 0) eqn:E; [apply Qltb_true in E | apply Qltb_false in E].
  - right. destruct (Qceiling_spec x) as (c & Ec & C1 & C2). rewrite <- Ec. lra.
  - left. destruct (Qfloor_spec x) as (f & Ef & F1 & F2). rewrite <- Ef. lra.
Qed.

Lemma split_float_spec x :
  exists z, fst (split_float x) == inject_Z z /\ x == inject_Z z + snd (split_float x) /\
            - half <= snd (split_float x) /\ snd (split_float x) <= half.
Proof.
  unfold split_float, half.
  destruct (fmod1_spec x) as (z & Ez & Ep & Hr).
  set (p := fmod1 x) in *. clearbody p.
  destruct (Qltb (1#2) p) eqn:E1; [apply Qltb_true in E1 | apply Qltb_false in E1].
  - exists (z + 1)%Z. cbn [fst snd]. rewrite inject_Z_plus. change (inject_Z 1) with 1.
    repeat split; try lra.
  - destruct (Qltb p (- (1#2))) eqn:E2; [apply Qltb_true in E2 | apply Qltb_false in E2].
    + exists (z - 1)%Z. cbn [fst snd]. unfold Z.sub. rewrite inject_Z_plus, inject_Z_opp. change (inject_Z 1) with 1.
      repeat split; try lra.
    + exists z. cbn [fst snd]. repeat split; try lra.
Qed.

Lemma maybe_int_opt_some x tol z :
  maybe_int_opt x tol = Some z -> Qabs (x - inject_Z z) < tol /\ Qabs (x - inject_Z z) <= half.
Proof.
  unfold maybe_int_opt. destruct (split_float_spec x) as (w & Ew & Ex & P1 & P2).
  destruct (split_float x) as [whole part]. cbn [fst snd] in *.
  destruct (Qltb (Qabs part) tol) eqn:E; [|discriminate].
  intros H; injection H as <-. apply Qltb_true in E.
  rewrite (Qtrunc_comp _ _ Ew), Qtrunc_Z.
  assert (Ep : x - inject_Z w == part) by lra. rewrite Ep. split; [exact E|].
  apply Qabs_Qle_condition. unfold half in *. lra.
Qed.

Lemma maybe_int_opt_none x tol :
  maybe_int_opt x tol = None -> forall z : Z, tol <= Qabs (x - inject_Z z).
Proof.
  unfold maybe_int_opt. destruct (split_float_spec x) as (w & Ew & Ex & P1 & P2).
  destruct (split_float x) as [whole part]. cbn [fst snd] in *.
  destruct (Qltb (Qabs part) tol) eqn:E; [discriminate|]. intros _ z. apply Qltb_false in E.
  eapply Qle_trans; [exact E|]. unfold half in *.
  (* x = w + part with |part| <= 1/2: any integer z is at least |part| away *)
  destruct (Z_lt_le_dec z w) as [L | L]; [|destruct (Z.eq_dec z w) as [-> | N]].
  - assert (inject_Z z + 1 <= inject_Z w).
    { assert (E1 : inject_Z z + 1 == inject_Z (z + 1)) by (rewrite inject_Z_plus; reflexivity).
      rewrite E1, <- Zle_Qle. lia. }
    apply Qabs_case; intros; apply Qabs_case; intros; lra.
  - assert (Ep : x - inject_Z w == part) by lra. rewrite Ep. lra.
  - assert (inject_Z w + 1 <= inject_Z z).
    { assert (E1 : inject_Z w + 1 == inject_Z (w + 1)) by (rewrite inject_Z_plus; reflexivity).
      rewrite E1, <- Zle_Qle. lia. }
    apply Qabs_case; intros; apply Qabs_case; intros; lra.
Qed.

Lemma is_almost_int_maybe x tol :
  is_almost_int x tol = match maybe_int_opt x tol with Some _ => true | None => false end.
Proof.
  unfold is_almost_int, maybe_int_opt, split_float, half.
  destruct (fmod1_spec x) as (z & Ez & Ep & Hr).
  set (p := fmod1 x) in *. clearbody p.
  destruct (Qltb (1#2) p) eqn:E1; [apply Qltb_true in E1 | apply Qltb_false in E1].
  - assert (A1 : Qabs p == p) by (apply Qabs_pos; lra).
    rewrite (Qltb_comp (1#2) (1#2) (Qabs p) p (Qeq_refl _) A1).
    assert (T1 : Qltb (1#2) p = true) by (apply Qltb_true; exact E1). rewrite T1.
    assert (A2 : Qabs (p - 1) == 1 - Qabs p).
    { rewrite A1. rewrite Qabs_neg by lra. ring. }
    rewrite (Qltb_comp _ _ tol tol A2 (Qeq_refl _)). destruct (Qltb (1 - Qabs p) tol); reflexivity.
  - destruct (Qltb p (- (1#2))) eqn:E2; [apply Qltb_true in E2 | apply Qltb_false in E2].
    + assert (A1 : Qabs p == - p) by (apply Qabs_neg; lra).
      rewrite (Qltb_comp (1#2) (1#2) (Qabs p) (- p) (Qeq_refl _) A1).
      assert (T1 : Qltb (1#2) (- p) = true) by (apply Qltb_true; lra). rewrite T1.
      assert (A2 : Qabs (p + 1) == 1 - Qabs p).
      { rewrite A1. rewrite Qabs_pos by lra. ring. }
      rewrite (Qltb_comp _ _ tol tol A2 (Qeq_refl _)). destruct (Qltb (1 - Qabs p) tol); reflexivity.
    + assert (T1 : Qltb (1#2) (Qabs p) = false).
      { apply Qltb_false. apply Qabs_Qle_condition. lra. }
      rewrite T1. destruct (Qltb (Qabs p) tol); reflexivity.
Qed.

(** ** snapping, read scale, scale from the linear transform *)
(** an integer within 1/2 of x=±1±e is ±1 *)
Lemma near_unit_int (s : Q) (z : Z) e :
  Qabs (Qabs s - 1) < e -> e <= half -> Qabs (s - inject_Z z) <= half ->
  (0 < s -> z = 1%Z) /\ (s < 0 -> z = (-1)%Z).
Proof.
  unfold half. intros H1 He H2.
  apply Qabs_Qlt_condition in H1. apply Qabs_Qle_condition in H2.
  split; intros Hs.
  - rewrite Qabs_pos in H1 by lra.
    assert (0 < z)%Z by (rewrite Zlt_Qlt; change (inject_Z 0) with 0; lra).
    assert (z < 2)%Z by (rewrite Zlt_Qlt; change (inject_Z 2) with 2; lra). lia.
  - rewrite Qabs_neg in H1 by lra.
    assert (z < 0)%Z by (rewrite Zlt_Qlt; change (inject_Z 0) with 0; lra).
    assert (-2 < z)%Z by (rewrite Zlt_Qlt; change (inject_Z (-2)) with (-(2)); lra). lia.
Qed.

Lemma snap_scale_unit s stol :
  0 < stol -> stol <= half -> Qabs (Qabs s - 1) < stol ->
  snap_scale s stol = inject_Z (if Qltb s 0 then -1 else 1).
Proof.
  unfold half. intros H0 H1 H.
  assert (H' := H). apply Qabs_Qlt_condition in H'.
  unfold snap_scale.
  assert (E : Qle_bool (1 - stol) (Qabs s) = true) by (apply Qle_bool_iff; lra). rewrite E.
  unfold maybe_int. destruct (maybe_int_opt s stol) as [z|] eqn:Em.
  - apply maybe_int_opt_some in Em. destruct Em as [_ Em].
    destruct (near_unit_int s z stol H H1 Em) as [P N].
    destruct (Qltb s 0) eqn:Es; [apply Qltb_true in Es | apply Qltb_false in Es].
    + rewrite (N Es). reflexivity.
    + assert (0 < s).
      { destruct (Qlt_le_dec 0 s); [assumption|]. assert (s == 0) by lra. rewrite H2 in H'. change (Qabs 0) with 0 in H'. lra. }
      rewrite (P H2). reflexivity.
  - exfalso. pose proof (maybe_int_opt_none s stol Em) as Hn.
    destruct (Qlt_le_dec s 0).
    + specialize (Hn (-1)%Z). rewrite Qabs_neg in H' by lra.
      change (inject_Z (-1)) with (-(1)) in Hn.
      assert (Qabs (s - - (1)) < stol) by (apply Qabs_Qlt_condition; lra). lra.
    + specialize (Hn 1%Z). rewrite Qabs_pos in H' by lra.
      change (inject_Z 1) with 1 in Hn.
      assert (Qabs (s - 1) < stol) by (apply Qabs_Qlt_condition; lra). lra.
Qed.

Lemma maybe_int_almost x tol :
  is_almost_int x tol = true ->
  exists z, maybe_int x tol = inject_Z z /\ Qabs (x - inject_Z z) < tol /\ Qabs (x - inject_Z z) <= half.
Proof.
  rewrite is_almost_int_maybe. unfold maybe_int.
  destruct (maybe_int_opt x tol) as [z|] eqn:E; [|discriminate].
  intros _. exists z. split; [reflexivity|]. apply maybe_int_opt_some. exact E.
Qed.

(** _pick_read_scale *)
Lemma pick_read_scale_spec scale tol k :
  0 < tol -> pick_read_scale scale tol = Ok k ->
  0 < scale /\ (1 <= k)%Z /\ (scale < 1 -> k = 1%Z) /\
  (1 <= scale -> inject_Z k - tol < scale /\ scale < inject_Z k + 1).
Proof.
  intros Htol. unfold pick_read_scale.
  destruct (Qltb 0 scale) eqn:E0; [apply Qltb_true in E0 | discriminate]. cbn [negb].
  destruct (Qltb scale 1) eqn:E1; [apply Qltb_true in E1 | apply Qltb_false in E1].
  - intros H; injection H as <-. repeat split; try lra; try lia.
  - intros H; injection H as <-. split; [exact E0|].
    unfold maybe_int. destruct (maybe_int_opt scale tol) as [z|] eqn:Em.
    + rewrite Qtrunc_Z. apply maybe_int_opt_some in Em. destruct Em as [M1 M2].
      apply Qabs_Qlt_condition in M1. apply Qabs_Qle_condition in M2. unfold half in *.
      assert (0 < z)%Z by (rewrite Zlt_Qlt; change (inject_Z 0) with 0; lra).
      repeat split; try lia; try lra.
    + unfold Qtrunc. assert (Qltb scale 0 = false) by (apply Qltb_false; lra). rewrite H.
      destruct (Qfloor_spec scale) as (f & Ef & F1 & F2).
      assert (1 <= Qfloor scale)%Z by (apply Qfloor_ge_iff; change (inject_Z 1) with 1; lra).
      rewrite <- Ef. repeat split; try lia; try lra.
Qed.

Lemma pick_read_scale_err scale tol : scale <= 0 -> pick_read_scale scale tol = Err (EAssert 341).
Proof.
  intros H. unfold pick_read_scale.
  assert (E : Qltb 0 scale = false) by (apply Qltb_false; exact H). rewrite E. reflexivity.
Qed.

(** exact square roots *)
Lemma exact_sqrt_sound x r : exact_sqrt x = Some r -> 0 <= r /\ r * r == x.
Proof.
  unfold exact_sqrt. set (q := Qred x).
  assert (Eq : q == x) by apply Qred_correct.
  destruct q as [n d]. cbn [Qnum Qden] in *.
  destruct (n <? 0)%Z eqn:En; [discriminate|]. apply Z.ltb_ge in En.
  destruct ((Z.sqrt n * Z.sqrt n =? n) && (Z.sqrt (Z.pos d) * Z.sqrt (Z.pos d) =? Z.pos d))%Z eqn:E; [|discriminate].
  apply andb_true_iff in E. destruct E as [E1 E2]. apply Z.eqb_eq in E1. apply Z.eqb_eq in E2.
  intros H; injection H as <-.
  assert (Hrd : (0 < Z.sqrt (Z.pos d))%Z).
  { pose proof (Z.sqrt_nonneg (Z.pos d)). destruct (Z.eq_dec (Z.sqrt (Z.pos d)) 0) as [Z0|]; [rewrite Z0 in E2; discriminate | lia]. }
  split.
  - unfold Qle. cbn. pose proof (Z.sqrt_nonneg n). lia.
  - rewrite <- Eq. unfold Qeq, Qmult. cbn [Qnum Qden].
    rewrite E1, Pos2Z.inj_mul. change (Z.pos (Pos.sqrt d)) with (Z.sqrt (Z.pos d)). rewrite E2. reflexivity.
Qed.

Lemma Qeq_bool_true x y : Qeq_bool x y = true -> x == y.
Proof. apply Qeq_bool_eq. Qed.

Lemma scale2_spec A sx sy :
  scale2 A = Ok (sx, sy) ->
  0 < sx /\ 0 < sy /\ sx * sx == aa A * aa A + ad A * ad A /\
  sx * sy == Qabs (aa A * ae A - ab A * ad A).
Proof.
  unfold scale2.
  destruct (Qeq_bool (ab A) 0 && Qeq_bool (ad A) 0) eqn:Est.
  - apply andb_true_iff in Est. destruct Est as [Eb Ed].
    apply Qeq_bool_true in Eb. apply Qeq_bool_true in Ed.
    destruct (Qeq_bool (aa A) 0 || Qeq_bool (ae A) 0) eqn:Ez; [discriminate|].
    apply orb_false_iff in Ez. destruct Ez as [Za Ze].
    apply Qeq_bool_neq in Za. apply Qeq_bool_neq in Ze.
    intros H; injection H as <- <-.
    assert (Pa : 0 < Qabs (aa A)).
    { apply Qabs_case; intros; [|]; destruct (Qeq_dec (aa A) 0); try contradiction; lra. }
    assert (Pe : 0 < Qabs (ae A)).
    { apply Qabs_case; intros; [|]; destruct (Qeq_dec (ae A) 0); try contradiction; lra. }
    repeat split; try assumption.
    + rewrite Ed. apply Qabs_case; intros; ring.
    + rewrite Eb. rewrite <- Qabs_Qmult. apply Qabs_wd. ring.
  - destruct (exact_sqrt (aa A * aa A + ad A * ad A)) as [s1|] eqn:E1; [|discriminate].
    destruct (Qeq_bool s1 0) eqn:Z1; [discriminate|]. apply Qeq_bool_neq in Z1.
    destruct (exact_sqrt _) as [s2|] eqn:E2 in |- *; [|discriminate].
    destruct (Qeq_bool s2 0) eqn:Z2; [discriminate|]. apply Qeq_bool_neq in Z2.
    intros H; injection H as <- <-.
    apply exact_sqrt_sound in E1. apply exact_sqrt_sound in E2.
    destruct E1 as [P1 S1]. destruct E2 as [P2 S2].
    assert (Q1 : 0 < s1) by (destruct (Qeq_dec s1 0); [contradiction | lra]).
    assert (Q2 : 0 < s2) by (destruct (Qeq_dec s2 0); [contradiction | lra]).
    repeat split; try assumption.
    (* (s1 s2)^2 = det^2 and both sides non-negative *)
    set (a := aa A) in *. set (b := ab A) in *. set (d := ad A) in *. set (e := ae A) in *.
    assert (Hsq : (s1 * s2) * (s1 * s2) == (a * e - b * d) * (a * e - b * d)).
    { assert (X : (s1 * s2) * (s1 * s2) == (s1 * s1) * (s2 * s2)) by ring. rewrite X, S2.
      assert (Y : (s1 * s1) * (b * b + e * e - (a * b + d * e) / s1 * ((a * b + d * e) / s1))
                  == (s1 * s1) * (b * b + e * e) - (a * b + d * e) * (a * b + d * e)) by (field; exact Z1).
      rewrite Y, S1. ring. }
    assert (Hp : 0 < s1 * s2) by (timeout 20 nra).
    apply Qabs_case; intros Hc; timeout 20 nra.
Qed.
