(** Proofs about Model/Overlap.v: the per-axis overlap arithmetic (C03 core). *)
From Coq Require Import ZArith QArith Qround Qabs List Bool Lia Lqa.
From OG Require Import Base.Result Base.QZ Model.Roi Model.Overlap Proofs.RoiProofs Proofs.RoiPointsProofs.
Import ListNotations.
Open Scope Q_scope.

Lemma Qltb_true x y : Qltb x y = true <-> x < y.
Proof.
  unfold Qltb. rewrite negb_true_iff. apply Qle_bool_false.
Qed.

Lemma Qltb_false x y : Qltb x y = false <-> y <= x.
Proof.
  unfold Qltb. rewrite negb_false_iff. apply Qle_bool_true.
Qed.

Lemma inject_Z_half_lt (a b : Z) : inject_Z a < inject_Z b + 1 -> (a <= b)%Z.
Proof.
  intros H. assert (E : inject_Z b + 1 == inject_Z (b + 1)) by (rewrite inject_Z_plus; reflexivity).
  rewrite E in H. rewrite <- Zlt_Qlt in H. lia.
Qed.

(** ** the positive-scale core of compute_axis_overlap *)
Lemma axis_core_eq Ns Nd s t :
  axis_core Ns Nd s t =
  (let u := 1 / s in
   let in_s := if Qltb t 0 then 0%Z else Z.min (Qfloor t) Ns in
   let in_d := if Qltb t 0 then Z.min (Qfloor (- t * u)) Nd else 0%Z in
   let a := Qceiling (inject_Z Nd * s + t) in
   let out_s := if (a <=? Ns)%Z then Z.max a 0 else Ns in
   let out_d := if (a <=? Ns)%Z then Nd else Z.max 0 (Qceiling (inject_Z Ns * u + - t * u)) in
   (in_s, out_s, in_d, out_d)).
Proof.
  unfold axis_core. destruct (Qltb t 0); destruct (_ <=? _)%Z; reflexivity.
Qed.

Lemma u_pos s : 0 < s -> 0 < 1 / s.
Proof. intros. apply Qlt_shift_div_l; lra. Qed.
Lemma su_one s : 0 < s -> s * (1 / s) == 1.
Proof. intros. field. lra. Qed.

(* facts about the four numbers, in terms of Q inequalities *)
Lemma core_facts Ns Nd s t :
  (0 <= Ns)%Z -> (0 <= Nd)%Z -> 0 < s ->
  let u := 1 / s in
  let '(in_s, out_s, in_d, out_d) := axis_core Ns Nd s t in
  (0 <= in_s <= out_s)%Z /\ (out_s <= Ns)%Z /\ (0 <= in_d <= out_d)%Z /\ (out_d <= Nd)%Z.
Proof.
  intros HNs HNd Hs u.
  rewrite axis_core_eq. cbv zeta. fold u.
  pose proof (u_pos s Hs) as Hu. pose proof (su_one s Hs) as Hsu. fold u in Hu, Hsu.
  assert (HNsq : 0 <= inject_Z Ns) by (rewrite Zle_Qle in HNs; exact HNs).
  assert (HNdq : 0 <= inject_Z Nd) by (rewrite Zle_Qle in HNd; exact HNd).
  set (a := Qceiling (inject_Z Nd * s + t)).
  set (c2 := Qceiling (inject_Z Ns * u + - t * u)).
  set (ft := Qfloor t). set (fu := Qfloor (- t * u)).
  assert (Ha : inject_Z Nd * s + t <= inject_Z a) by apply Qle_ceiling.
  assert (Hc2 : inject_Z Ns * u + - t * u <= inject_Z c2) by apply Qle_ceiling.
  assert (Hft : inject_Z ft <= t) by apply Qfloor_le.
  assert (Hfu : inject_Z fu <= - t * u) by apply Qfloor_le.
  destruct (Qltb t 0) eqn:Et; [apply Qltb_true in Et | apply Qltb_false in Et];
  (destruct (a <=? Ns)%Z eqn:Ea; [apply Z.leb_le in Ea | apply Z.leb_gt in Ea]).
  - assert (0 <= fu)%Z by (apply Qfloor_ge_iff; change (inject_Z 0) with 0; timeout 20 nra). lia.
  - assert (0 <= fu)%Z by (apply Qfloor_ge_iff; change (inject_Z 0) with 0; timeout 20 nra).
    assert (fu <= c2)%Z.
    { rewrite Zle_Qle. timeout 20 nra. }
    assert (c2 <= Nd)%Z.
    { apply Qceiling_le_iff. apply Qceiling_gt_iff in Ea. timeout 20 nra. }
    lia.
  - assert (0 <= ft)%Z by (apply Qfloor_ge_iff; exact Et).
    assert (ft <= a)%Z by (rewrite Zle_Qle; timeout 20 nra).
    lia.
  - assert (0 <= ft)%Z by (apply Qfloor_ge_iff; exact Et).
    assert (c2 <= Nd)%Z.
    { apply Qceiling_le_iff. apply Qceiling_gt_iff in Ea. timeout 20 nra. }
    lia.
Qed.

Lemma Zlt_from_half (a d : Z) : inject_Z a <= inject_Z d + (1#2) -> (a <= d)%Z.
Proof.
  intros H. apply inject_Z_half_lt. lra.
Qed.

Lemma Zgt_from_half (a d : Z) : inject_Z d + (1#2) <= inject_Z a -> (d < a)%Z.
Proof.
  intros H. rewrite Zlt_Qlt. lra.
Qed.

Lemma core_incl Ns Nd s t d :
  (0 <= Ns)%Z -> (0 <= Nd)%Z -> 0 < s -> (0 <= d < Nd)%Z ->
  let x := s * (inject_Z d + (1#2)) + t in
  let '(in_s, out_s, in_d, out_d) := axis_core Ns Nd s t in
  (0 <= x -> x <= inject_Z Ns -> (in_d <= d < out_d)%Z) /\
  (0 <= x -> x < inject_Z Ns -> inject_Z in_s <= x /\ x < inject_Z out_s) /\
  (0 < x -> x <= inject_Z Ns -> inject_Z in_s < x /\ x <= inject_Z out_s).
Proof.
  intros HNs HNd Hs Hd x.
  rewrite axis_core_eq. cbv zeta. set (u := 1 / s).
  pose proof (u_pos s Hs) as Hu. pose proof (su_one s Hs) as Hsu. fold u in Hu, Hsu.
  assert (HNsq : 0 <= inject_Z Ns) by (rewrite Zle_Qle in HNs; exact HNs).
  assert (Hd0 : 0 <= inject_Z d) by (change 0 with (inject_Z 0); rewrite <- Zle_Qle; lia).
  assert (Hd1 : inject_Z d + 1 <= inject_Z Nd).
  { assert (E : inject_Z d + 1 == inject_Z (d + 1)) by (rewrite inject_Z_plus; reflexivity).
    rewrite E. rewrite <- Zle_Qle. lia. }
  set (a := Qceiling (inject_Z Nd * s + t)).
  set (c2 := Qceiling (inject_Z Ns * u + - t * u)).
  set (ft := Qfloor t). set (fu := Qfloor (- t * u)).
  assert (Ha : inject_Z Nd * s + t <= inject_Z a) by apply Qle_ceiling.
  assert (Hc2 : inject_Z Ns * u + - t * u <= inject_Z c2) by apply Qle_ceiling.
  assert (Hft : inject_Z ft <= t) by apply Qfloor_le.
  assert (Hfu : inject_Z fu <= - t * u) by apply Qfloor_le.
  set (c := inject_Z d + (1#2)) in *.
  assert (Hc : 0 < c) by (unfold c; lra).
  assert (Hxc : (x - t) * u == c).
  { unfold x. transitivity (c * (s * u)); [ring | rewrite Hsu; ring]. }
  assert (Hxt : t < x) by (unfold x; timeout 20 nra).
  assert (HxN : x < inject_Z Nd * s + t) by (unfold x, c; timeout 20 nra).
  assert (Hcd : c == inject_Z d + (1#2)) by reflexivity.
  clearbody x c.
  assert (F1 : 0 <= x -> (fu <= d)%Z).
  { intros H0. apply Zlt_from_half. rewrite <- Hcd, <- Hxc. timeout 20 nra. }
  assert (F2 : x <= inject_Z Ns -> (d < c2)%Z).
  { intros H0. apply Zgt_from_half. rewrite <- Hcd, <- Hxc. timeout 20 nra. }
  assert (F3 : x < inject_Z (Z.max a 0)).
  { eapply Qlt_le_trans; [exact HxN|]. eapply Qle_trans; [exact Ha|]. rewrite <- Zle_Qle. lia. }
  assert (F4 : inject_Z (Z.min ft Ns) < x).
  { eapply Qle_lt_trans; [|exact Hxt]. eapply Qle_trans; [|exact Hft]. rewrite <- Zle_Qle. lia. }
  destruct (Qltb t 0) eqn:Et; [apply Qltb_true in Et | apply Qltb_false in Et];
  (destruct (a <=? Ns)%Z eqn:Ea; [apply Z.leb_le in Ea | apply Z.leb_gt in Ea]).
  all: repeat split; intros.
  all: try (change (inject_Z 0) with 0).
  all: try lra.
  all: try (specialize (F1 ltac:(lra))); try (specialize (F2 ltac:(lra))).
  all: try lia.
Qed.

Lemma core_disjoint Ns Nd s t :
  (0 <= Ns)%Z -> (0 <= Nd)%Z -> 0 < s ->
  inject_Z Nd * s + t <= 0 \/ inject_Z Ns <= t ->
  let '(in_s, out_s, in_d, out_d) := axis_core Ns Nd s t in
  out_s = in_s /\ out_d = in_d.
Proof.
  intros HNs HNd Hs Hdis.
  rewrite axis_core_eq. cbv zeta. set (u := 1 / s).
  pose proof (u_pos s Hs) as Hu. pose proof (su_one s Hs) as Hsu. fold u in Hu, Hsu.
  assert (HNsq : 0 <= inject_Z Ns) by (rewrite Zle_Qle in HNs; exact HNs).
  assert (HNdq : 0 <= inject_Z Nd) by (rewrite Zle_Qle in HNd; exact HNd).
  set (a := Qceiling (inject_Z Nd * s + t)).
  set (c2 := Qceiling (inject_Z Ns * u + - t * u)).
  set (ft := Qfloor t). set (fu := Qfloor (- t * u)).
  destruct Hdis as [H | H].
  - assert (Ha0 : (a <= 0)%Z) by (apply Qceiling_le_iff; exact H).
    assert (HNdu : inject_Z Nd <= - t * u).
    { assert (E : inject_Z Nd == inject_Z Nd * (s * u)) by (rewrite Hsu; ring). rewrite E. timeout 20 nra. }
    assert (Hfu : (Nd <= fu)%Z) by (apply Qfloor_ge_iff; exact HNdu).
    destruct (Qltb t 0) eqn:Et; [apply Qltb_true in Et | apply Qltb_false in Et].
    + destruct (a <=? Ns)%Z eqn:Ea; [|apply Z.leb_gt in Ea; lia]. split; lia.
    + assert (Nd = 0)%Z.
      { assert (inject_Z Nd <= 0) by (timeout 20 nra). change 0 with (inject_Z 0) in H0. rewrite <- Zle_Qle in H0. lia. }
      assert (Ht0 : t == 0) by (subst Nd; change (inject_Z 0) with 0 in H; lra).
      assert (ft = 0)%Z by (unfold ft; rewrite Ht0; reflexivity).
      destruct (a <=? Ns)%Z eqn:Ea; [|apply Z.leb_gt in Ea; lia]. split; lia.
  - assert (Et : Qltb t 0 = false) by (apply Qltb_false; lra). rewrite Et.
    assert (Hft : (Ns <= ft)%Z) by (apply Qfloor_ge_iff; exact H).
    destruct (a <=? Ns)%Z eqn:Ea; [apply Z.leb_le in Ea | apply Z.leb_gt in Ea].
    + assert (Nd = 0)%Z.
      { apply Qceiling_le_iff in Ea.
        assert (inject_Z Nd * s <= 0) by lra.
        assert (inject_Z Nd <= 0).
        { assert (E : inject_Z Nd == (inject_Z Nd * s) * u) by (rewrite <- Qmult_assoc, Hsu; ring). rewrite E. timeout 20 nra. }
        change 0 with (inject_Z 0) in H1. rewrite <- Zle_Qle in H1. lia. }
      assert (Ns <= a)%Z.
      { rewrite Zle_Qle. eapply Qle_trans; [exact H|]. eapply Qle_trans; [|apply Qle_ceiling]. timeout 20 nra. }
      split; lia.
    + assert (c2 <= 0)%Z.
      { apply Qceiling_le_iff. change (inject_Z 0) with 0. timeout 20 nra. }
      split; lia.
Qed.

(** ** compute_axis_overlap: bounds, inclusion, disjointness (any non-zero scale) *)
Definition in_sl (sl : Z * Z) (i : Z) : Prop := (fst sl <= i < snd sl)%Z.
Definition sl_within (sl : Z * Z) (n : Z) : Prop := (0 <= fst sl <= snd sl)%Z /\ (snd sl <= n)%Z.
Definition sl_empty (sl : Z * Z) : Prop := snd sl = fst sl.

Lemma axis_overlap_err Ns Nd s t : s == 0 -> axis_overlap Ns Nd s t = Err (EAssert 259).
Proof.
  intros H. unfold axis_overlap.
  assert (E1 : Qltb s 0 = false) by (apply Qltb_false; lra). rewrite E1.
  assert (E2 : Qltb 0 s = false) by (apply Qltb_false; lra). rewrite E2. reflexivity.
Qed.

Lemma axis_overlap_spec Ns Nd s t :
  (0 <= Ns)%Z -> (0 <= Nd)%Z -> ~ s == 0 ->
  exists src dst, axis_overlap Ns Nd s t = Ok (src, dst) /\
    sl_within src Ns /\ sl_within dst Nd /\
    (forall d, (0 <= d < Nd)%Z ->
       let x := s * (inject_Z d + (1#2)) + t in
       0 <= x -> x < inject_Z Ns -> in_sl dst d /\ in_sl src (Qfloor x)) /\
    ((t <= 0 /\ inject_Z Nd * s + t <= 0) \/ (inject_Z Ns <= t /\ inject_Z Ns <= inject_Z Nd * s + t) ->
       sl_empty src /\ sl_empty dst).
Proof.
  intros HNs HNd Hs0. unfold axis_overlap.
  destruct (Qltb s 0) eqn:Ef; [apply Qltb_true in Ef | apply Qltb_false in Ef].
  - (* mirrored *)
    assert (Hs1 : 0 < - s) by lra.
    assert (E2 : Qltb 0 (- s) = true) by (apply Qltb_true; exact Hs1). rewrite E2. cbn [negb].
    pose proof (core_facts Ns Nd (- s) (inject_Z Ns - t) HNs HNd Hs1) as HF.
    pose proof (core_disjoint Ns Nd (- s) (inject_Z Ns - t) HNs HNd Hs1) as HD.
    assert (HI := fun d Hd => core_incl Ns Nd (- s) (inject_Z Ns - t) d HNs HNd Hs1 Hd).
    cbv zeta in HF, HD, HI.
    destruct (axis_core Ns Nd (- s) (inject_Z Ns - t)) as [[[in_s out_s] in_d] out_d].
    eexists; eexists; split; [reflexivity|].
    unfold sl_within, in_sl, sl_empty; cbn [fst snd].
    split; [lia|]. split; [lia|]. split.
    + intros d Hd; set (x := s * (inject_Z d + (1 # 2)) + t); intros Hx0 HxN. specialize (HI d Hd).
      destruct HI as (I1 & _ & I3).
      assert (Ex : - s * (inject_Z d + (1 # 2)) + (inject_Z Ns - t) == inject_Z Ns - x) by (unfold x; ring).
      rewrite Ex in I1, I3.
      specialize (I1 ltac:(lra) ltac:(lra)). specialize (I3 ltac:(lra) ltac:(lra)).
      split; [exact I1|].
      split.
      * apply Qfloor_ge_iff. unfold Z.sub. rewrite inject_Z_plus, inject_Z_opp. lra.
      * apply Qfloor_lt_iff. unfold Z.sub. rewrite inject_Z_plus, inject_Z_opp. lra.
    + intros Hdis.
      assert (HD' : out_s = in_s /\ out_d = in_d).
      { apply HD. destruct Hdis as [[H1 H2] | [H1 H2]]; [right | left]; lra. }
      lia.
  - assert (Hs1 : 0 < s) by (destruct (Qlt_le_dec 0 s); [assumption | exfalso; apply Hs0; lra]).
    assert (E2 : Qltb 0 s = true) by (apply Qltb_true; exact Hs1). rewrite E2. cbn [negb].
    pose proof (core_facts Ns Nd s t HNs HNd Hs1) as HF.
    pose proof (core_disjoint Ns Nd s t HNs HNd Hs1) as HD.
    assert (HI := fun d Hd => core_incl Ns Nd s t d HNs HNd Hs1 Hd).
    cbv zeta in HF, HD, HI.
    destruct (axis_core Ns Nd s t) as [[[in_s out_s] in_d] out_d].
    eexists; eexists; split; [reflexivity|].
    unfold sl_within, in_sl, sl_empty; cbn [fst snd].
    split; [lia|]. split; [lia|]. split.
    + intros d Hd; set (x := s * (inject_Z d + (1 # 2)) + t); intros Hx0 HxN. specialize (HI d Hd).
      destruct HI as (I1 & I2 & _). fold x in I1, I2.
      specialize (I1 ltac:(lra) ltac:(lra)). specialize (I2 ltac:(lra) ltac:(lra)).
      split; [exact I1|].
      split; [apply Qfloor_ge_iff | apply Qfloor_lt_iff]; lra.
    + intros Hdis.
      assert (HD' : out_s = in_s /\ out_d = in_d).
      { apply HD. destruct Hdis as [[H1 H2] | [H1 H2]]; [left | right]; lra. }
      lia.
Qed.

(** ** unit scale, whole-pixel shift: the paste identity (C10 core) *)
Lemma Qltb_inj0 (T : Z) t : t == inject_Z T -> Qltb t 0 = (T <? 0)%Z.
Proof.
  intros E. destruct (T <? 0)%Z eqn:H.
  - apply Qltb_true. rewrite E. change 0 with (inject_Z 0). rewrite <- Zlt_Qlt. lia.
  - apply Qltb_false. rewrite E. change 0 with (inject_Z 0). rewrite <- Zle_Qle. lia.
Qed.

Lemma axis_core_unit Ns Nd (T : Z) s t :
  s == 1 -> t == inject_Z T ->
  axis_core Ns Nd s t =
  (if (T <? 0)%Z then 0%Z else Z.min T Ns,
   if (Nd + T <=? Ns)%Z then Z.max (Nd + T) 0 else Ns,
   if (T <? 0)%Z then Z.min (- T) Nd else 0%Z,
   if (Nd + T <=? Ns)%Z then Nd else Z.max 0 (Ns - T))%Z.
Proof.
  intros Es Et. rewrite axis_core_eq. cbv zeta.
  rewrite (Qltb_inj0 T t Et).
  assert (E1 : Qfloor t = T) by (rewrite Et; apply Qfloor_Z).
  assert (E2 : Qfloor (- t * (1 / s)) = (- T)%Z).
  { assert (E : - t * (1 / s) == inject_Z (- T)) by (rewrite Es, Et, inject_Z_opp; field).
    rewrite E. apply Qfloor_Z. }
  assert (E3 : Qceiling (inject_Z Nd * s + t) = (Nd + T)%Z).
  { assert (E : inject_Z Nd * s + t == inject_Z (Nd + T)) by (rewrite Es, Et, inject_Z_plus; ring).
    rewrite E. apply Qceiling_Z. }
  assert (E4 : Qceiling (inject_Z Ns * (1 / s) + - t * (1 / s)) = (Ns - T)%Z).
  { assert (E : inject_Z Ns * (1 / s) + - t * (1 / s) == inject_Z (Ns - T)).
    { unfold Z.sub. rewrite Es, Et, inject_Z_plus, inject_Z_opp. field. }
    rewrite E. apply Qceiling_Z. }
  rewrite E1, E2, E3, E4. reflexivity.
Qed.

Lemma axis_overlap_unit Ns Nd (T : Z) (flip : bool) :
  (0 <= Ns)%Z -> (0 <= Nd)%Z ->
  let s := if flip then inject_Z (-1) else inject_Z 1 in
  let nn := fun d => if flip then (T - 1 - d)%Z else (d + T)%Z in
  exists src dst, axis_overlap Ns Nd s (inject_Z T) = Ok (src, dst) /\
    (snd src - fst src = snd dst - fst dst)%Z /\
    (forall d, (0 <= d < Nd)%Z -> (in_sl dst d <-> (0 <= nn d < Ns)%Z)) /\
    (forall d, in_sl dst d -> paste_index src dst flip d = nn d).
Proof.
  intros HNs HNd s nn. unfold axis_overlap, s, nn, paste_index, in_sl. destruct flip.
  - assert (E1 : Qltb (inject_Z (-1)) 0 = true) by reflexivity. rewrite E1.
    assert (E2 : Qltb 0 (- inject_Z (-1)) = true) by reflexivity. rewrite E2. cbn [negb].
    rewrite (axis_core_unit Ns Nd (Ns - T)%Z).
    2: reflexivity.
    2: unfold Z.sub; rewrite inject_Z_plus, inject_Z_opp; ring.
    eexists; eexists; split; [reflexivity|]. cbn [fst snd].
    destruct (Ns - T <? 0)%Z eqn:A; [apply Z.ltb_lt in A | apply Z.ltb_ge in A];
    (destruct (Nd + (Ns - T) <=? Ns)%Z eqn:B; [apply Z.leb_le in B | apply Z.leb_gt in B]);
    repeat split; intros; lia.
  - assert (E1 : Qltb (inject_Z 1) 0 = false) by reflexivity. rewrite E1.
    assert (E2 : Qltb 0 (inject_Z 1) = true) by reflexivity. rewrite E2. cbn [negb].
    rewrite (axis_core_unit Ns Nd T).
    2: reflexivity.
    2: reflexivity.
    eexists; eexists; split; [reflexivity|]. cbn [fst snd].
    destruct (T <? 0)%Z eqn:A; [apply Z.ltb_lt in A | apply Z.ltb_ge in A];
    (destruct (Nd + T <=? Ns)%Z eqn:B; [apply Z.leb_le in B | apply Z.leb_gt in B]);
    repeat split; intros; lia.
Qed.

(** the nearest-neighbour source index of the TRUE transform equals the pasted one
    as long as the true location is less than half a pixel from the snapped one *)
Lemma nn_floor_unit (T d : Z) (flip : bool) (x : Q) :
  let s := if flip then inject_Z (-1) else inject_Z 1 in
  Qabs (x - (s * (inject_Z d + (1#2)) + inject_Z T)) < 1#2 ->
  Qfloor x = if flip then (T - 1 - d)%Z else (d + T)%Z.
Proof.
  intros s H. apply Qabs_Qlt_condition in H. destruct H as [H1 H2].
  destruct (Qfloor_spec x) as (f & Ef & F1 & F2).
  destruct flip; unfold s in *.
  - assert (E : inject_Z (-1) * (inject_Z d + (1 # 2)) + inject_Z T == inject_Z (T - 1 - d) + (1#2)).
    { unfold Z.sub. rewrite !inject_Z_plus, !inject_Z_opp. change (inject_Z (-1)) with (-(1)). change (inject_Z 1) with 1. ring. }
    rewrite E in H1, H2.
    assert (T - 1 - d <= Qfloor x)%Z by (apply Qfloor_ge_iff; lra).
    assert (Qfloor x < T - 1 - d + 1)%Z by (apply Qfloor_lt_iff; rewrite inject_Z_plus; change (inject_Z 1) with 1; lra).
    lia.
  - assert (E : inject_Z 1 * (inject_Z d + (1 # 2)) + inject_Z T == inject_Z (d + T) + (1#2)).
    { rewrite !inject_Z_plus. change (inject_Z 1) with 1. ring. }
    rewrite E in H1, H2.
    assert (d + T <= Qfloor x)%Z by (apply Qfloor_ge_iff; lra).
    assert (Qfloor x < d + T + 1)%Z by (apply Qfloor_lt_iff; rewrite inject_Z_plus; change (inject_Z 1) with 1; lra).
    lia.
Qed.

(** ** odc.geo.math helpers: split_float, maybe_int, is_almost_int *)
Lemma Qltb_comp x x' y y' : x == x' -> y == y' -> Qltb x y = Qltb x' y'.
Proof. intros E1 E2. unfold Qltb. rewrite E1, E2. reflexivity. Qed.

Lemma Qtrunc_comp x y : x == y -> Qtrunc x = Qtrunc y.
Proof.
  intros E. unfold Qtrunc. rewrite (Qltb_comp x y 0 0 E (Qeq_refl 0)).
  destruct (Qltb y 0); rewrite E; reflexivity.
Qed.

Lemma Qtrunc_Z z : Qtrunc (inject_Z z) = z.
Proof. unfold Qtrunc. destruct (Qltb _ _); [apply Qceiling_Z | apply Qfloor_Z]. Qed.

Lemma fmod1_spec x :
  exists z, z = Qtrunc x /\ fmod1 x == x - inject_Z z /\
    ((0 <= x /\ 0 <= fmod1 x /\ fmod1 x < 1) \/ (x < 0 /\ -(1) < fmod1 x /\ fmod1 x <= 0)).
Proof.
  exists (Qtrunc x). split; [reflexivity|]. split; [reflexivity|].
  unfold fmod1, Qtrunc.
  destruct (Qltb x 0) eqn:E; [apply Qltb_true in E | apply Qltb_false in E].
  - right. destruct (Qceiling_spec x) as (c & Ec & C1 & C2). rewrite <- Ec. lra.
  - left. destruct (Qfloor_spec x) as (f & Ef & F1 & F2). rewrite <- Ef. lra.
Qed.

Lemma split_float_spec x :
  exists z, fst (split_float x) == inject_Z z /\ x == inject_Z z + snd (split_float x) /\
            - half <= snd (split_float x) /\ snd (split_float x) <= half.
Proof.
  unfold split_float, half.
  destruct (fmod1_spec x) as (z & Ez & Ep & Hr).
  set (p := fmod1 x) in *. clearbody p.
  destruct (Qltb (1#2) p) eqn:E1; [apply Qltb_true in E1 | apply Qltb_false in E1].
  - exists (z + 1)%Z. cbn [fst snd]. rewrite inject_Z_plus. change (inject_Z 1) with 1.
    repeat split; try lra.
  - destruct (Qltb p (- (1#2))) eqn:E2; [apply Qltb_true in E2 | apply Qltb_false in E2].
    + exists (z - 1)%Z. cbn [fst snd]. unfold Z.sub. rewrite inject_Z_plus, inject_Z_opp. change (inject_Z 1) with 1.
      repeat split; try lra.
    + exists z. cbn [fst snd]. repeat split; try lra.
Qed.

Lemma maybe_int_opt_some x tol z :
  maybe_int_opt x tol = Some z -> Qabs (x - inject_Z z) < tol /\ Qabs (x - inject_Z z) <= half.
Proof.
  unfold maybe_int_opt. destruct (split_float_spec x) as (w & Ew & Ex & P1 & P2).
  destruct (split_float x) as [whole part]. cbn [fst snd] in *.
  destruct (Qltb (Qabs part) tol) eqn:E; [|discriminate].
  intros H; injection H as <-. apply Qltb_true in E.
  rewrite (Qtrunc_comp _ _ Ew), Qtrunc_Z.
  assert (Ep : x - inject_Z w == part) by lra. rewrite Ep. split; [exact E|].
  apply Qabs_Qle_condition. unfold half in *. lra.
Qed.

Lemma maybe_int_opt_none x tol :
  maybe_int_opt x tol = None -> forall z : Z, tol <= Qabs (x - inject_Z z).
Proof.
  unfold maybe_int_opt. destruct (split_float_spec x) as (w & Ew & Ex & P1 & P2).
  destruct (split_float x) as [whole part]. cbn [fst snd] in *.
  destruct (Qltb (Qabs part) tol) eqn:E; [discriminate|]. intros _ z. apply Qltb_false in E.
  eapply Qle_trans; [exact E|]. unfold half in *.
  (* x = w + part with |part| <= 1/2: any integer z is at least |part| away *)
  destruct (Z_lt_le_dec z w) as [L | L]; [|destruct (Z.eq_dec z w) as [-> | N]].
  - assert (inject_Z z + 1 <= inject_Z w).
    { assert (E1 : inject_Z z + 1 == inject_Z (z + 1)) by (rewrite inject_Z_plus; reflexivity).
      rewrite E1, <- Zle_Qle. lia. }
    apply Qabs_case; intros; apply Qabs_case; intros; lra.
  - assert (Ep : x - inject_Z w == part) by lra. rewrite Ep. lra.
  - assert (inject_Z w + 1 <= inject_Z z).
    { assert (E1 : inject_Z w + 1 == inject_Z (w + 1)) by (rewrite inject_Z_plus; reflexivity).
      rewrite E1, <- Zle_Qle. lia. }
    apply Qabs_case; intros; apply Qabs_case; intros; lra.
Qed.

Lemma is_almost_int_maybe x tol :
  is_almost_int x tol = match maybe_int_opt x tol with Some _ => true | None => false end.
Proof.
  unfold is_almost_int, maybe_int_opt, split_float, half.
  destruct (fmod1_spec x) as (z & Ez & Ep & Hr).
  set (p := fmod1 x) in *. clearbody p.
  destruct (Qltb (1#2) p) eqn:E1; [apply Qltb_true in E1 | apply Qltb_false in E1].
  - assert (A1 : Qabs p == p) by (apply Qabs_pos; lra).
    rewrite (Qltb_comp (1#2) (1#2) (Qabs p) p (Qeq_refl _) A1).
    assert (T1 : Qltb (1#2) p = true) by (apply Qltb_true; exact E1). rewrite T1.
    assert (A2 : Qabs (p - 1) == 1 - Qabs p).
    { rewrite A1. rewrite Qabs_neg by lra. ring. }
    rewrite (Qltb_comp _ _ tol tol A2 (Qeq_refl _)). destruct (Qltb (1 - Qabs p) tol); reflexivity.
  - destruct (Qltb p (- (1#2))) eqn:E2; [apply Qltb_true in E2 | apply Qltb_false in E2].
    + assert (A1 : Qabs p == - p) by (apply Qabs_neg; lra).
      rewrite (Qltb_comp (1#2) (1#2) (Qabs p) (- p) (Qeq_refl _) A1).
      assert (T1 : Qltb (1#2) (- p) = true) by (apply Qltb_true; lra). rewrite T1.
      assert (A2 : Qabs (p + 1) == 1 - Qabs p).
      { rewrite A1. rewrite Qabs_pos by lra. ring. }
      rewrite (Qltb_comp _ _ tol tol A2 (Qeq_refl _)). destruct (Qltb (1 - Qabs p) tol); reflexivity.
    + assert (T1 : Qltb (1#2) (Qabs p) = false).
      { apply Qltb_false. apply Qabs_Qle_condition. lra. }
      rewrite T1. destruct (Qltb (Qabs p) tol); reflexivity.
Qed.

(** ** snapping, read scale, scale from the linear transform *)
(** an integer within 1/2 of x=±1±e is ±1 *)
Lemma near_unit_int (s : Q) (z : Z) e :
  Qabs (Qabs s - 1) < e -> e <= half -> Qabs (s - inject_Z z) <= half ->
  (0 < s -> z = 1%Z) /\ (s < 0 -> z = (-1)%Z).
Proof.
  unfold half. intros H1 He H2.
  apply Qabs_Qlt_condition in H1. apply Qabs_Qle_condition in H2.
  split; intros Hs.
  - rewrite Qabs_pos in H1 by lra.
    assert (0 < z)%Z by (rewrite Zlt_Qlt; change (inject_Z 0) with 0; lra).
    assert (z < 2)%Z by (rewrite Zlt_Qlt; change (inject_Z 2) with 2; lra). lia.
  - rewrite Qabs_neg in H1 by lra.
    assert (z < 0)%Z by (rewrite Zlt_Qlt; change (inject_Z 0) with 0; lra).
    assert (-2 < z)%Z by (rewrite Zlt_Qlt; change (inject_Z (-2)) with (-(2)); lra). lia.
Qed.

Lemma snap_scale_unit s stol :
  0 < stol -> stol <= half -> Qabs (Qabs s - 1) < stol ->
  snap_scale s stol = inject_Z (if Qltb s 0 then -1 else 1).
Proof.
  unfold half. intros H0 H1 H.
  assert (H' := H). apply Qabs_Qlt_condition in H'.
  unfold snap_scale.
  assert (E : Qle_bool (1 - stol) (Qabs s) = true) by (apply Qle_bool_iff; lra). rewrite E.
  unfold maybe_int. destruct (maybe_int_opt s stol) as [z|] eqn:Em.
  - apply maybe_int_opt_some in Em. destruct Em as [_ Em].
    destruct (near_unit_int s z stol H H1 Em) as [P N].
    destruct (Qltb s 0) eqn:Es; [apply Qltb_true in Es | apply Qltb_false in Es].
    + rewrite (N Es). reflexivity.
    + assert (0 < s).
      { destruct (Qlt_le_dec 0 s); [assumption|]. assert (s == 0) by lra. rewrite H2 in H'. change (Qabs 0) with 0 in H'. lra. }
      rewrite (P H2). reflexivity.
  - exfalso. pose proof (maybe_int_opt_none s stol Em) as Hn.
    destruct (Qlt_le_dec s 0).
    + specialize (Hn (-1)%Z). rewrite Qabs_neg in H' by lra.
      change (inject_Z (-1)) with (-(1)) in Hn.
      assert (Qabs (s - - (1)) < stol) by (apply Qabs_Qlt_condition; lra). lra.
    + specialize (Hn 1%Z). rewrite Qabs_pos in H' by lra.
      change (inject_Z 1) with 1 in Hn.
      assert (Qabs (s - 1) < stol) by (apply Qabs_Qlt_condition; lra). lra.
Qed.

Lemma maybe_int_almost x tol :
  is_almost_int x tol = true ->
  exists z, maybe_int x tol = inject_Z z /\ Qabs (x - inject_Z z) < tol /\ Qabs (x - inject_Z z) <= half.
Proof.
  rewrite is_almost_int_maybe. unfold maybe_int.
  destruct (maybe_int_opt x tol) as [z|] eqn:E; [|discriminate].
  intros _. exists z. split; [reflexivity|]. apply maybe_int_opt_some. exact E.
Qed.

(** _pick_read_scale *)
Lemma pick_read_scale_spec scale tol k :
  0 < tol -> pick_read_scale scale tol = Ok k ->
  0 < scale /\ (1 <= k)%Z /\ (scale < 1 -> k = 1%Z) /\
  (1 <= scale -> inject_Z k - tol < scale /\ scale < inject_Z k + 1).
Proof.
  intros Htol. unfold pick_read_scale.
  destruct (Qltb 0 scale) eqn:E0; [apply Qltb_true in E0 | discriminate]. cbn [negb].
  destruct (Qltb scale 1) eqn:E1; [apply Qltb_true in E1 | apply Qltb_false in E1].
  - intros H; injection H as <-. repeat split; try lra; try lia.
  - intros H; injection H as <-. split; [exact E0|].
    unfold maybe_int. destruct (maybe_int_opt scale tol) as [z|] eqn:Em.
    + rewrite Qtrunc_Z. apply maybe_int_opt_some in Em. destruct Em as [M1 M2].
      apply Qabs_Qlt_condition in M1. apply Qabs_Qle_condition in M2. unfold half in *.
      assert (0 < z)%Z by (rewrite Zlt_Qlt; change (inject_Z 0) with 0; lra).
      repeat split; try lia; try lra.
    + unfold Qtrunc. assert (Qltb scale 0 = false) by (apply Qltb_false; lra). rewrite H.
      destruct (Qfloor_spec scale) as (f & Ef & F1 & F2).
      assert (1 <= Qfloor scale)%Z by (apply Qfloor_ge_iff; change (inject_Z 1) with 1; lra).
      rewrite <- Ef. repeat split; try lia; try lra.
Qed.

Lemma pick_read_scale_err scale tol : scale <= 0 -> pick_read_scale scale tol = Err (EAssert 341).
Proof.
  intros H. unfold pick_read_scale.
  assert (E : Qltb 0 scale = false) by (apply Qltb_false; exact H). rewrite E. reflexivity.
Qed.

(** exact square roots *)
Lemma exact_sqrt_sound x r : exact_sqrt x = Some r -> 0 <= r /\ r * r == x.
Proof.
  unfold exact_sqrt. set (q := Qred x).
  assert (Eq : q == x) by apply Qred_correct.
  destruct q as [n d]. cbn [Qnum Qden] in *.
  destruct (n <? 0)%Z eqn:En; [discriminate|]. apply Z.ltb_ge in En.
  destruct ((Z.sqrt n * Z.sqrt n =? n) && (Z.sqrt (Z.pos d) * Z.sqrt (Z.pos d) =? Z.pos d))%Z eqn:E; [|discriminate].
  apply andb_true_iff in E. destruct E as [E1 E2]. apply Z.eqb_eq in E1. apply Z.eqb_eq in E2.
  intros H; injection H as <-.
  assert (Hrd : (0 < Z.sqrt (Z.pos d))%Z).
  { pose proof (Z.sqrt_nonneg (Z.pos d)). destruct (Z.eq_dec (Z.sqrt (Z.pos d)) 0) as [Z0|]; [rewrite Z0 in E2; discriminate | lia]. }
  split.
  - unfold Qle. cbn. pose proof (Z.sqrt_nonneg n). lia.
  - rewrite <- Eq. unfold Qeq, Qmult. cbn [Qnum Qden].
    rewrite E1, Pos2Z.inj_mul. change (Z.pos (Pos.sqrt d)) with (Z.sqrt (Z.pos d)). rewrite E2. reflexivity.
Qed.

Lemma Qeq_bool_true x y : Qeq_bool x y = true -> x == y.
Proof. apply Qeq_bool_eq. Qed.

Lemma scale2_spec A sx sy :
  scale2 A = Ok (sx, sy) ->
  0 < sx /\ 0 < sy /\ sx * sx == aa A * aa A + ad A * ad A /\
  sx * sy == Qabs (aa A * ae A - ab A * ad A).
Proof.
  unfold scale2.
  destruct (Qeq_bool (ab A) 0 && Qeq_bool (ad A) 0) eqn:Est.
  - apply andb_true_iff in Est. destruct Est as [Eb Ed].
    apply Qeq_bool_true in Eb. apply Qeq_bool_true in Ed.
    destruct (Qeq_bool (aa A) 0 || Qeq_bool (ae A) 0) eqn:Ez; [discriminate|].
    apply orb_false_iff in Ez. destruct Ez as [Za Ze].
    apply Qeq_bool_neq in Za. apply Qeq_bool_neq in Ze.
    intros H; injection H as <- <-.
    assert (Pa : 0 < Qabs (aa A)).
    { apply Qabs_case; intros; [|]; destruct (Qeq_dec (aa A) 0); try contradiction; lra. }
    assert (Pe : 0 < Qabs (ae A)).
    { apply Qabs_case; intros; [|]; destruct (Qeq_dec (ae A) 0); try contradiction; lra. }
    repeat split; try assumption.
    + rewrite Ed. apply Qabs_case; intros; ring.
    + rewrite Eb. rewrite <- Qabs_Qmult. apply Qabs_wd. ring.
  - destruct (exact_sqrt (aa A * aa A + ad A * ad A)) as [s1|] eqn:E1; [|discriminate].
    destruct (Qeq_bool s1 0) eqn:Z1; [discriminate|]. apply Qeq_bool_neq in Z1.
    destruct (exact_sqrt _) as [s2|] eqn:E2 in |- *; [|discriminate].
    destruct (Qeq_bool s2 0) eqn:Z2; [discriminate|]. apply Qeq_bool_neq in Z2.
    intros H; injection H as <- <-.
    apply exact_sqrt_sound in E1. apply exact_sqrt_sound in E2.
    destruct E1 as [P1 S1]. destruct E2 as [P2 S2].
    assert (Q1 : 0 < s1) by (destruct (Qeq_dec s1 0); [contradiction | lra]).
    assert (Q2 : 0 < s2) by (destruct (Qeq_dec s2 0); [contradiction | lra]).
    repeat split; try assumption.
    (* (s1 s2)^2 = det^2 and both sides non-negative *)
    set (a := aa A) in *. set (b := ab A) in *. set (d := ad A) in *. set (e := ae A) in *.
    assert (Hsq : (s1 * s2) * (s1 * s2) == (a * e - b * d) * (a * e - b * d)).
    { assert (X : (s1 * s2) * (s1 * s2) == (s1 * s1) * (s2 * s2)) by ring. rewrite X, S2.
      assert (Y : (s1 * s1) * (b * b + e * e - (a * b + d * e) / s1 * ((a * b + d * e) / s1))
                  == (s1 * s1) * (b * b + e * e) - (a * b + d * e) * (a * b + d * e)) by (field; exact Z1).
      rewrite Y, S1. ring. }
    assert (Hp : 0 < s1 * s2) by (timeout 20 nra).
    apply Qabs_case; intros Hc; timeout 20 nra.
Qed.

(** ** roi_from_points on one axis: envelope form *)
Lemma axis_from_points_env v0 vs n padding align lim (k : Z) :
  (0 <= n)%Z -> (0 <= padding)%Z -> align_ok align -> (n < lim)%Z ->
  (Qfloor (Qmin_list v0 vs) - padding <= k)%Z ->
  (k < Qceiling (Qmax_list v0 vs) + padding)%Z ->
  (0 <= k < n)%Z ->
  let r := axis_from_points (v0 :: vs) n padding align lim in
  (fst r <= k < snd r)%Z.
Proof.
  intros Hn Hp Ha Hlim H1 H2 Hk. unfold axis_from_points, Qclip_floor, Qclip_ceil.
  set (fl := Qfloor (Qmin_list v0 vs)) in *. set (ce := Qceiling (Qmax_list v0 vs)) in *.
  clearbody fl ce.
  destruct align as [a|]; cbn [fst snd].
  - simpl in Ha.
    destruct (align_down_spec (clipZ fl (- lim) lim - padding) a Ha) as (D1 & D2 & D3).
    destruct (align_up_spec (clipZ ce (- lim) lim + padding) a Ha) as (U1 & U2 & U3).
    set (lo := align_down (clipZ fl (- lim) lim - padding) a) in *.
    set (hi := align_up (clipZ ce (- lim) lim + padding) a) in *.
    clearbody lo hi. unfold clipZ in *. lia.
  - unfold clipZ. lia.
Qed.

Lemma axis_from_points_range vals n padding align lim :
  (0 <= n)%Z ->
  let r := axis_from_points vals n padding align lim in
  (0 <= fst r <= n)%Z /\ (0 <= snd r <= n)%Z.
Proof.
  intros Hn. unfold axis_from_points. destruct vals as [|v0 vs]; [cbn; lia|].
  destruct align; cbn [fst snd]; unfold clipZ; lia.
Qed.

(** separated by the margin -> empty *)
Lemma axis_from_points_empty_lo v0 vs n padding align lim :
  (0 <= n)%Z -> align_ok align -> (0 <= padding <= lim)%Z ->
  (Qceiling (Qmax_list v0 vs) + padding <= 0)%Z ->
  let r := axis_from_points (v0 :: vs) n padding align lim in
  (snd r - fst r <= 0)%Z.
Proof.
  intros Hn Ha Hlim H. unfold axis_from_points, Qclip_floor, Qclip_ceil.
  set (fl := Qfloor (Qmin_list v0 vs)) in *. set (ce := Qceiling (Qmax_list v0 vs)) in *.
  clearbody fl ce.
  destruct align as [a|]; cbn [fst snd].
  - simpl in Ha.
    destruct (align_up_spec (clipZ ce (- lim) lim + padding) a Ha) as (U1 & U2 & U3).
    set (hi := align_up (clipZ ce (- lim) lim + padding) a) in *. clearbody hi.
    assert (hi <= 0)%Z.
    { unfold clipZ in *. destruct (Z_le_gt_dec hi 0); [assumption|].
      rewrite Z.mod_small in U1 by lia. lia. }
    unfold clipZ. lia.
  - unfold clipZ. lia.
Qed.

Lemma axis_from_points_empty_hi v0 vs n padding align lim :
  (0 <= n)%Z -> align_ok align -> (0 <= padding)%Z ->
  (n + match align with None => 0 | Some a => a - 1 end <= lim - padding)%Z ->
  (n + match align with None => 0 | Some a => a - 1 end <= Qfloor (Qmin_list v0 vs) - padding)%Z ->
  let r := axis_from_points (v0 :: vs) n padding align lim in
  (snd r - fst r <= 0)%Z.
Proof.
  intros Hn Ha Hp Hlim H. unfold axis_from_points, Qclip_floor, Qclip_ceil.
  set (fl := Qfloor (Qmin_list v0 vs)) in *. set (ce := Qceiling (Qmax_list v0 vs)) in *.
  clearbody fl ce.
  destruct align as [a|]; cbn [fst snd].
  - simpl in Ha.
    destruct (align_down_spec (clipZ fl (- lim) lim - padding) a Ha) as (D1 & D2 & D3).
    set (lo := align_down (clipZ fl (- lim) lim - padding) a) in *.
    clearbody lo. unfold clipZ in *. lia.
  - unfold clipZ. lia.
Qed.

(** ** an affine functional on a rectangle is bounded by its corner values *)
Lemma Qmax_list_in v0 vs v : In v (v0 :: vs) -> v <= Qmax_list v0 vs.
Proof. intros [-> | H]; [apply Qmax_list_ge_d | apply Qmax_list_ge; exact H]. Qed.
Lemma Qmin_list_in v0 vs v : In v (v0 :: vs) -> Qmin_list v0 vs <= v.
Proof. intros [-> | H]; [apply Qmin_list_le_d | apply Qmin_list_le; exact H]. Qed.

Section Rect.
  Variables (a b c X0 X1 Y0 Y1 px py : Q).
  Let g (x y : Q) : Q := a * x + b * y + c.
  Hypothesis HX : X0 <= px /\ px <= X1.
  Hypothesis HY : Y0 <= py /\ py <= Y1.

  Lemma rect_corner_max : exists cx cy, (cx = X0 \/ cx = X1) /\ (cy = Y0 \/ cy = Y1) /\ g px py <= g cx cy.
  Proof.
    destruct HX as [x0 x1]; destruct HY as [y0 y1]. unfold g.
    destruct (Qlt_le_dec a 0); destruct (Qlt_le_dec b 0).
    - exists X0, Y0. repeat split; auto. timeout 20 nra.
    - exists X0, Y1. repeat split; auto. timeout 20 nra.
    - exists X1, Y0. repeat split; auto. timeout 20 nra.
    - exists X1, Y1. repeat split; auto. timeout 20 nra.
  Qed.

  Lemma rect_corner_min : exists cx cy, (cx = X0 \/ cx = X1) /\ (cy = Y0 \/ cy = Y1) /\ g cx cy <= g px py.
  Proof.
    destruct HX as [x0 x1]; destruct HY as [y0 y1]. unfold g.
    destruct (Qlt_le_dec a 0); destruct (Qlt_le_dec b 0).
    - exists X1, Y1. repeat split; auto. timeout 20 nra.
    - exists X1, Y0. repeat split; auto. timeout 20 nra.
    - exists X0, Y1. repeat split; auto. timeout 20 nra.
    - exists X0, Y0. repeat split; auto. timeout 20 nra.
  Qed.

  Lemma rect_corner_max_strict :
    X0 < px -> px < X1 -> Y0 < py -> py < Y1 -> ~ (a == 0 /\ b == 0) ->
    exists cx cy, (cx = X0 \/ cx = X1) /\ (cy = Y0 \/ cy = Y1) /\ g px py < g cx cy.
  Proof.
    intros x0 x1 y0 y1 Hab. unfold g.
    destruct (Qlt_le_dec a 0); destruct (Qlt_le_dec b 0).
    - exists X0, Y0. repeat split; auto. timeout 20 nra.
    - exists X0, Y1. repeat split; auto. timeout 20 nra.
    - exists X1, Y0. repeat split; auto. timeout 20 nra.
    - destruct (Qlt_le_dec 0 a).
      + exists X1, Y1. repeat split; auto. timeout 20 nra.
      + assert (a == 0) by lra. destruct (Qlt_le_dec 0 b).
        * exists X1, Y1. repeat split; auto. timeout 20 nra.
        * exfalso. apply Hab. split; lra.
  Qed.

  Definition corner_vals : list Q := [g X0 Y0; g X1 Y0; g X1 Y1; g X0 Y1].

  Lemma rect_in_corners cx cy : (cx = X0 \/ cx = X1) -> (cy = Y0 \/ cy = Y1) -> In (g cx cy) corner_vals.
  Proof. unfold corner_vals. intros [-> | ->] [-> | ->]; simpl; auto. Qed.

  Lemma rect_le_max : g px py <= Qmax_list (g X0 Y0) [g X1 Y0; g X1 Y1; g X0 Y1].
  Proof.
    destruct rect_corner_max as (cx & cy & Hx & Hy & H).
    eapply Qle_trans; [exact H|]. apply Qmax_list_in. apply (rect_in_corners cx cy Hx Hy).
  Qed.

  Lemma rect_ge_min : Qmin_list (g X0 Y0) [g X1 Y0; g X1 Y1; g X0 Y1] <= g px py.
  Proof.
    destruct rect_corner_min as (cx & cy & Hx & Hy & H).
    eapply Qle_trans; [|exact H]. apply Qmin_list_in. apply (rect_in_corners cx cy Hx Hy).
  Qed.

  Lemma rect_lt_max :
    X0 < px -> px < X1 -> Y0 < py -> py < Y1 -> ~ (a == 0 /\ b == 0) ->
    g px py < Qmax_list (g X0 Y0) [g X1 Y0; g X1 Y1; g X0 Y1].
  Proof.
    intros x0 x1 y0 y1 Hab.
    destruct (rect_corner_max_strict x0 x1 y0 y1 Hab) as (cx & cy & Hx & Hy & H).
    eapply Qlt_le_trans; [exact H|]. apply Qmax_list_in. apply (rect_in_corners cx cy Hx Hy).
  Qed.
End Rect.

Lemma boundary_pts_2 y0 y1 x0 x1 :
  boundary_pts ((y0, y1), (x0, x1)) 2 =
  [(inject_Z x0, inject_Z y0); (inject_Z x1, inject_Z y0); (inject_Z x1, inject_Z y1); (inject_Z x0, inject_Z y1)].
Proof. reflexivity. Qed.

(** ** roi_from_points: envelope form in two dimensions *)
Definition in_roi (r : roi2) (ky kx : Z) : Prop := in_sl (fst r) ky /\ in_sl (snd r) kx.
Definition roi_within (r : roi2) (shape : shape2) : Prop :=
  sl_within (fst r) (fst shape) /\ sl_within (snd r) (snd shape).

(** the integer [k] lies in the envelope [floor(min) - pad, ceil(max) + pad) of the values *)
Definition env_has (vals : list Q) (pad k : Z) : Prop :=
  match vals with
  | [] => False
  | v :: vs => (Qfloor (Qmin_list v vs) - pad <= k)%Z /\ (k < Qceiling (Qmax_list v vs) + pad)%Z
  end.

Definition xs_of (pts : list (option (Q * Q))) : list Q := map fst (keep_finite pts).
Definition ys_of (pts : list (option (Q * Q))) : list Q := map snd (keep_finite pts).

Lemma lim_gt n1 n2 padding align :
  (0 <= padding)%Z -> align_ok align ->
  let lim := (Z.max n1 n2 + padding + match align with None => 1 | Some a => a end + 1)%Z in
  (n1 < lim)%Z /\ (n2 < lim)%Z.
Proof. intros Hp Ha. destruct align; simpl in *; lia. Qed.

Lemma roi_from_points_env pts ny nx padding align ky kx :
  (0 <= ny)%Z -> (0 <= nx)%Z -> (0 <= padding)%Z -> align_ok align ->
  env_has (xs_of pts) padding kx -> env_has (ys_of pts) padding ky ->
  (0 <= kx < nx)%Z -> (0 <= ky < ny)%Z ->
  in_roi (roi_from_points pts ny nx padding align) ky kx.
Proof.
  intros Hny Hnx Hp Ha Ex Ey Hkx Hky.
  unfold roi_from_points, in_roi, in_sl. cbn [fst snd].
  destruct (lim_gt nx ny padding align Hp Ha) as [L1 L2].
  unfold xs_of, ys_of in *.
  set (lim := (Z.max nx ny + padding + match align with None => 1 | Some a => a end + 1)%Z) in *.
  clearbody lim.
  destruct (map fst (keep_finite pts)) as [|vx vxs]; [destruct Ex|].
  destruct (map snd (keep_finite pts)) as [|vy vys]; [destruct Ey|].
  destruct Ex as [Ex1 Ex2]. destruct Ey as [Ey1 Ey2].
  split.
  - apply (axis_from_points_env vy vys ny padding align lim ky); assumption.
  - apply (axis_from_points_env vx vxs nx padding align lim kx); assumption.
Qed.

Lemma roi_from_points_within2 pts ny nx padding align :
  (0 <= ny)%Z -> (0 <= nx)%Z ->
  let r := roi_from_points pts ny nx padding align in
  (0 <= fst (fst r) <= ny /\ 0 <= snd (fst r) <= ny /\ 0 <= fst (snd r) <= nx /\ 0 <= snd (snd r) <= nx)%Z.
Proof.
  intros Hny Hnx. unfold roi_from_points. cbn [fst snd].
  pose proof (axis_from_points_range (map snd (keep_finite pts)) ny padding align
               (Z.max nx ny + padding + match align with None => 1 | Some a => a end + 1) Hny) as [A1 A2].
  pose proof (axis_from_points_range (map fst (keep_finite pts)) nx padding align
               (Z.max nx ny + padding + match align with None => 1 | Some a => a end + 1) Hnx) as [B1 B2].
  cbv zeta in *. lia.
Qed.

(** ** _relative_rois: inclusion from the two envelope conditions *)
(** the source region: un-aligned envelope first, aligned only when that one meets the image *)
Definition src_region (pts : list (option (Q * Q))) (ny nx padding : Z) (align : option Z) : roi2 :=
  let roi_0 := roi_from_points pts ny nx padding None in
  match align with
  | Some _ => if roi_empty roi_0 then roi_0 else roi_from_points pts ny nx padding align
  | None => roi_0
  end.

Lemma src_region_cases pts ny nx padding align :
  (roi_empty (roi_from_points pts ny nx padding None) = true /\
   src_region pts ny nx padding align = roi_from_points pts ny nx padding None) \/
  (roi_empty (roi_from_points pts ny nx padding None) = false /\
   src_region pts ny nx padding align = roi_from_points pts ny nx padding align).
Proof.
  unfold src_region. destruct align as [a|]; destruct (roi_empty (roi_from_points pts ny nx padding None)) eqn:E; auto.
Qed.

Lemma relative_rois_eq back fwd ss ds n padding align :
  relative_rois back fwd ss ds n padding align =
  (let pts := map back (boundary_pts ((0%Z, fst ds), (0%Z, snd ds)) n) in
   let roi_s := src_region pts (fst ss) (snd ss) padding align in
   if roi_empty roi_s then (roi_s, ((0%Z, 0%Z), (0%Z, 0%Z)))
   else (roi_s, roi_from_points (map fwd (boundary_pts roi_s n)) (fst ds) (snd ds) 0 None)).
Proof. reflexivity. Qed.

Lemma in_roi_nonempty r ky kx : in_roi r ky kx -> roi_empty r = false.
Proof.
  intros [[a1 a2] [b1 b2]]. unfold roi_empty. destruct r as [[y0 y1] [x0 x1]]. cbn [fst snd] in *.
  apply orb_false_iff; split; apply Z.leb_gt; lia.
Qed.

Lemma relative_rois_incl back fwd ss ds n padding align ky kx dy dx :
  (0 <= fst ss)%Z -> (0 <= snd ss)%Z -> (0 <= fst ds)%Z -> (0 <= snd ds)%Z ->
  (0 <= padding)%Z -> align_ok align ->
  let pts1 := map back (boundary_pts ((0%Z, fst ds), (0%Z, snd ds)) n) in
  let roi_s := roi_from_points pts1 (fst ss) (snd ss) padding align in
  let pts2 := map fwd (boundary_pts roi_s n) in
  env_has (xs_of pts1) padding kx -> env_has (ys_of pts1) padding ky ->
  (0 <= kx < snd ss)%Z -> (0 <= ky < fst ss)%Z ->
  env_has (xs_of pts2) 0 dx -> env_has (ys_of pts2) 0 dy ->
  (0 <= dx < snd ds)%Z -> (0 <= dy < fst ds)%Z ->
  let r := relative_rois back fwd ss ds n padding align in
  in_roi (fst r) ky kx /\ in_roi (snd r) dy dx.
Proof.
  intros H1 H2 H3 H4 Hp Ha pts1 roi_s pts2 E1 E2 K1 K2 E3 E4 D1 D2.
  pose proof (roi_from_points_env pts1 (fst ss) (snd ss) padding align ky kx H1 H2 Hp Ha E1 E2 K1 K2) as Is.
  pose proof (roi_from_points_env pts1 (fst ss) (snd ss) padding None ky kx H1 H2 Hp I E1 E2 K1 K2) as I0.
  fold roi_s in Is.
  rewrite relative_rois_eq. cbv zeta. fold pts1.
  destruct (src_region_cases pts1 (fst ss) (snd ss) padding align) as [[C _] | [_ C]].
  { rewrite (in_roi_nonempty _ _ _ I0) in C. discriminate. }
  rewrite C. fold roi_s.
  rewrite (in_roi_nonempty _ _ _ Is). cbn [fst snd]. split; [exact Is|].
  fold pts2.
  apply roi_from_points_env; try assumption; try lia. exact I.
Qed.

Lemma relative_rois_within back fwd ss ds n padding align :
  (0 <= fst ss)%Z -> (0 <= snd ss)%Z -> (0 <= fst ds)%Z -> (0 <= snd ds)%Z ->
  let r := relative_rois back fwd ss ds n padding align in
  (0 <= fst (fst (fst r)) <= fst ss /\ 0 <= snd (fst (fst r)) <= fst ss /\
   0 <= fst (snd (fst r)) <= snd ss /\ 0 <= snd (snd (fst r)) <= snd ss)%Z /\
  (0 <= fst (fst (snd r)) <= fst ds /\ 0 <= snd (fst (snd r)) <= fst ds /\
   0 <= fst (snd (snd r)) <= snd ds /\ 0 <= snd (snd (snd r)) <= snd ds)%Z.
Proof.
  intros H1 H2 H3 H4. rewrite relative_rois_eq. cbv zeta.
  set (pts1 := map back _).
  assert (W1 : let rs := src_region pts1 (fst ss) (snd ss) padding align in
               (0 <= fst (fst rs) <= fst ss /\ 0 <= snd (fst rs) <= fst ss /\
                0 <= fst (snd rs) <= snd ss /\ 0 <= snd (snd rs) <= snd ss)%Z).
  { destruct (src_region_cases pts1 (fst ss) (snd ss) padding align) as [[_ C] | [_ C]]; rewrite C;
      apply roi_from_points_within2; assumption. }
  cbv zeta in W1. set (roi_s := src_region pts1 _ _ _ _) in *.
  destruct (roi_empty roi_s); cbn [fst snd].
  - split; [exact W1 | lia].
  - split; [exact W1|]. apply roi_from_points_within2; assumption.
Qed.

(** ** compute_reproject_roi, same CRS *)
Definition pad_default (padding : option Z) : Z := match padding with None => 1%Z | Some p => p end.
Definition src_dims (ss : shape2) (k : Z) : shape2 :=
  if (k =? 1)%Z then ss else (zoom_out_dim (fst ss) k, zoom_out_dim (snd ss) k).
Definition up_roi (r : roi2) (k : Z) : roi2 :=
  if (k =? 1)%Z then r else (scaled_up_slice (fst r) k None, scaled_up_slice (snd r) k None).

Lemma reproject_linear_cases c ss ds A F ttol stol padding align r :
  reproject_linear c ss ds A F ttol stol padding align = Ok r ->
  exists sx sy,
    scale2 A = Ok (sx, sy) /\ scale r = Qminq sx sy /\ scale_xy r = (sx, sy) /\
    pick_read_scale (scale r) (c_rs c) = Ok (read_shrink r) /\
    ((paste_ok r = false /\
      (roi_src r, roi_dst r) =
        relative_rois (aff_pt A) (aff_pt F) ss ds 2 (pad_default padding) (norm_align align)) \/
     (paste_ok r = true /\ opt_in0 (norm_align align) = true /\ opt_in0 padding = true /\
      can_paste_code c A stol ttol = Ok 0%Z /\
      exists rs rd,
        box_overlap (src_dims ss (read_shrink r)) ds (paste_affine c A ttol stol (read_shrink r)) = Ok (rs, rd) /\
        roi_src r = up_roi rs (read_shrink r) /\ roi_dst r = rd)).
Proof.
  unfold reproject_linear. intros H.
  destruct (scale2 A) as [[sx sy]|e] eqn:Es; [|discriminate]. cbn [bind] in H.
  destruct (pick_read_scale (Qminq sx sy) (c_rs c)) as [k|e] eqn:Ek; [|discriminate]. cbn [bind] in H.
  exists sx, sy. split; [reflexivity|].
  destruct (opt_in0 (norm_align align) && opt_in0 padding) eqn:Et.
  - unfold can_paste in H.
    destruct (can_paste_code c A stol ttol) as [code|e] eqn:Ec; [|discriminate]. cbn [bind] in H.
    destruct (code =? 0)%Z eqn:E0.
    + apply Z.eqb_eq in E0. subst code. apply andb_true_iff in Et. destruct Et as [T1 T2].
      destruct (k =? 1)%Z eqn:K1.
      * destruct (box_overlap ss ds (paste_affine c A ttol stol k)) as [[rs rd]|e] eqn:Eb; [|discriminate].
        cbn [bind] in H. injection H as <-. cbn.
        repeat split; try assumption. right. repeat split; try assumption.
        exists rs, rd. unfold src_dims, up_roi. rewrite K1. auto.
      * destruct (box_overlap _ ds (paste_affine c A ttol stol k)) as [[rs rd]|e] eqn:Eb; [|discriminate].
        cbn [bind] in H. injection H as <-. cbn.
        repeat split; try assumption. right. repeat split; try assumption.
        exists rs, rd. unfold src_dims, up_roi. rewrite K1. auto.
    + destruct (relative_rois _ _ _ _ _ _ _) as [rs rd] eqn:Er in H. injection H as <-. cbn.
      repeat split; try assumption. left. split; [reflexivity|]. unfold pad_default. rewrite Er. reflexivity.
  - cbn [bind] in H.
    destruct (relative_rois _ _ _ _ _ _ _) as [rs rd] eqn:Er in H. injection H as <-. cbn.
    repeat split; try assumption. left. split; [reflexivity|]. unfold pad_default. rewrite Er. reflexivity.
Qed.

Definition pix_center (dy dx : Z) : Q * Q := (inject_Z dx + (1#2), inject_Z dy + (1#2)).

Lemma Qfloor_half (d : Z) v : v == inject_Z d + (1#2) -> Qfloor v = d.
Proof.
  intros E. rewrite E.
  assert (d <= Qfloor (inject_Z d + (1#2)))%Z by (apply Qfloor_ge_iff; lra).
  assert (Qfloor (inject_Z d + (1#2)) < d + 1)%Z.
  { apply Qfloor_lt_iff. rewrite inject_Z_plus. change (inject_Z 1) with 1. lra. }
  lia.
Qed.

Lemma xs_of_aff4 A p1 p2 p3 p4 :
  xs_of (map (aff_pt A) [p1; p2; p3; p4]) =
  [fst (aff_apply A p1); fst (aff_apply A p2); fst (aff_apply A p3); fst (aff_apply A p4)].
Proof. reflexivity. Qed.
Lemma ys_of_aff4 A p1 p2 p3 p4 :
  ys_of (map (aff_pt A) [p1; p2; p3; p4]) =
  [snd (aff_apply A p1); snd (aff_apply A p2); snd (aff_apply A p3); snd (aff_apply A p4)].
Proof. reflexivity. Qed.

(** stage 1: the source location of an interior point of the destination rectangle lies in the
    envelope of the images of the four corners *)
Lemma linear_env_src A (ny nx padding : Z) (qx qy : Q) :
  (0 <= padding)%Z ->
  0 < qx -> qx < inject_Z nx -> 0 < qy -> qy < inject_Z ny ->
  ~ (aa A == 0 /\ ab A == 0) -> ~ (ad A == 0 /\ ae A == 0) ->
  let p := aff_apply A (qx, qy) in
  let pts := map (aff_pt A) (boundary_pts ((0%Z, ny), (0%Z, nx)) 2) in
  env_has (xs_of pts) padding (Qfloor (fst p)) /\ env_has (ys_of pts) padding (Qfloor (snd p)).
Proof.
  intros Hp X0 X1 Y0 Y1 R1 R2 p pts. unfold pts. rewrite boundary_pts_2, xs_of_aff4, ys_of_aff4.
  unfold aff_apply, env_has. cbn [fst snd]. change (inject_Z 0) with 0.
  assert (HX : 0 <= qx /\ qx <= inject_Z nx) by lra.
  assert (HY : 0 <= qy /\ qy <= inject_Z ny) by lra.
  split; split.
  - pose proof (rect_ge_min (aa A) (ab A) (ac A) 0 (inject_Z nx) 0 (inject_Z ny) qx qy HX HY) as H. cbv beta in H.
    apply Qfloor_mono in H. unfold p, aff_apply; cbn [fst snd]. lia.
  - pose proof (rect_lt_max (aa A) (ab A) (ac A) 0 (inject_Z nx) 0 (inject_Z ny) qx qy X0 X1 Y0 Y1 R1) as H. cbv beta in H.
    match goal with |- (_ < Qceiling ?m + _)%Z =>
      assert (Qfloor (fst p) < Qceiling m)%Z
        by (apply Qceiling_gt_iff; eapply Qle_lt_trans; [apply Qfloor_le | exact H]) end.
    lia.
  - pose proof (rect_ge_min (ad A) (ae A) (af A) 0 (inject_Z nx) 0 (inject_Z ny) qx qy HX HY) as H. cbv beta in H.
    apply Qfloor_mono in H. unfold p, aff_apply; cbn [fst snd]. lia.
  - pose proof (rect_lt_max (ad A) (ae A) (af A) 0 (inject_Z nx) 0 (inject_Z ny) qx qy X0 X1 Y0 Y1 R2) as H. cbv beta in H.
    match goal with |- (_ < Qceiling ?m + _)%Z =>
      assert (Qfloor (snd p) < Qceiling m)%Z
        by (apply Qceiling_gt_iff; eapply Qle_lt_trans; [apply Qfloor_le | exact H]) end.
    lia.
Qed.

(** stage 2: a pixel centre that is the image of a point of the source region lies in the envelope
    of the images of the region's corners *)
Lemma linear_env_dst F (roi : roi2) (px py : Q) (dy dx : Z) :
  inject_Z (fst (snd roi)) <= px -> px <= inject_Z (snd (snd roi)) ->
  inject_Z (fst (fst roi)) <= py -> py <= inject_Z (snd (fst roi)) ->
  fst (aff_apply F (px, py)) == inject_Z dx + (1#2) ->
  snd (aff_apply F (px, py)) == inject_Z dy + (1#2) ->
  let pts := map (aff_pt F) (boundary_pts roi 2) in
  env_has (xs_of pts) 0 dx /\ env_has (ys_of pts) 0 dy.
Proof.
  destruct roi as [[y0 y1] [x0 x1]]. cbn [fst snd].
  intros X0 X1 Y0 Y1 Ex Ey. rewrite boundary_pts_2, xs_of_aff4, ys_of_aff4.
  unfold aff_apply, env_has in *. cbn [fst snd] in *.
  assert (HX : inject_Z x0 <= px /\ px <= inject_Z x1) by lra.
  assert (HY : inject_Z y0 <= py /\ py <= inject_Z y1) by lra.
  split; split.
  - pose proof (rect_ge_min (aa F) (ab F) (ac F) _ _ _ _ px py HX HY) as H. cbv beta in H.
    apply Qfloor_mono in H. rewrite (Qfloor_half dx _ Ex) in H. lia.
  - pose proof (rect_le_max (aa F) (ab F) (ac F) _ _ _ _ px py HX HY) as H. cbv beta in H.
    rewrite Ex in H.
    match goal with |- (dx < Qceiling ?m + 0)%Z => assert (dx < Qceiling m)%Z by (apply Qceiling_gt_iff; lra) end.
    lia.
  - pose proof (rect_ge_min (ad F) (ae F) (af F) _ _ _ _ px py HX HY) as H. cbv beta in H.
    apply Qfloor_mono in H. rewrite (Qfloor_half dy _ Ey) in H. lia.
  - pose proof (rect_le_max (ad F) (ae F) (af F) _ _ _ _ px py HX HY) as H. cbv beta in H.
    rewrite Ey in H.
    match goal with |- (dy < Qceiling ?m + 0)%Z => assert (dy < Qceiling m)%Z by (apply Qceiling_gt_iff; lra) end.
    lia.
Qed.

Definition pt_eq (p q : Q * Q) : Prop := fst p == fst q /\ snd p == snd q.
Definition inverse_of (F A : affine) : Prop := forall p, pt_eq (aff_apply F (aff_apply A p)) p.

Lemma inverse_rows F A : inverse_of F A ->
  ~ (aa A == 0 /\ ab A == 0) /\ ~ (ad A == 0 /\ ae A == 0).
Proof.
  intros H.
  pose proof (H (0, 0)) as [H00x H00y]. pose proof (H (1, 0)) as [H10x H10y]. pose proof (H (0, 1)) as [H01x H01y].
  unfold aff_apply in *. cbn [fst snd] in *.
  set (a := aa A) in *. set (b := ab A) in *. set (c := ac A) in *.
  set (d := ad A) in *. set (e := ae A) in *. set (f := af A) in *.
  set (fa := aa F) in *. set (fb := ab F) in *. set (fc := ac F) in *.
  set (fd := ad F) in *. set (fe := ae F) in *. set (ff := af F) in *.
  clearbody a b c d e f fa fb fc fd fe ff.
  assert (L1 : fa * a + fb * d == 1) by lra.
  assert (L2 : fa * b + fb * e == 0) by lra.
  assert (L3 : fd * a + fe * d == 0) by lra.
  assert (L4 : fd * b + fe * e == 1) by lra.
  split; intros [Z1 Z2].
  - rewrite Z1 in L1, L3. rewrite Z2 in L2, L4.
    assert (fb * d == 1) by lra. assert (fb * e == 0) by lra.
    assert (fe * d == 0) by lra. assert (fe * e == 1) by lra.
    assert (X : (fb * d) * (fe * e) == (fb * e) * (fe * d)) by ring.
    rewrite H0, H1, H2, H3 in X. lra.
  - rewrite Z1 in L1, L3. rewrite Z2 in L2, L4.
    assert (fa * a == 1) by lra. assert (fa * b == 0) by lra.
    assert (fd * a == 0) by lra. assert (fd * b == 1) by lra.
    assert (X : (fa * a) * (fd * b) == (fa * b) * (fd * a)) by ring.
    rewrite H0, H1, H2, H3 in X. lra.
Qed.

Lemma floor_in_range (x : Q) (lo hi : Z) :
  (lo <= Qfloor x < hi)%Z -> inject_Z lo <= x /\ x <= inject_Z hi.
Proof.
  intros [H1 H2]. apply Qfloor_ge_iff in H1. apply Qfloor_lt_iff in H2. lra.
Qed.

(** same CRS, sampled path: every needed pixel is covered (any invertible affine) *)
Lemma sampled_inclusion c ss ds A F ttol stol padding align r :
  reproject_linear c ss ds A F ttol stol padding align = Ok r ->
  paste_ok r = false ->
  (0 <= fst ss)%Z -> (0 <= snd ss)%Z -> (0 <= fst ds)%Z -> (0 <= snd ds)%Z ->
  (0 <= pad_default padding)%Z -> align_ok (norm_align align) ->
  inverse_of F A ->
  forall dy dx, (0 <= dy < fst ds)%Z -> (0 <= dx < snd ds)%Z ->
    let p := aff_apply A (pix_center dy dx) in
    0 <= fst p -> fst p < inject_Z (snd ss) -> 0 <= snd p -> snd p < inject_Z (fst ss) ->
    in_roi (roi_dst r) dy dx /\ in_roi (roi_src r) (Qfloor (snd p)) (Qfloor (fst p)).
Proof.
  intros Hr Hpaste S1 S2 D1 D2 Hpad Hal Hinv dy dx Hdy Hdx p Px0 Px1 Py0 Py1.
  destruct (reproject_linear_cases _ _ _ _ _ _ _ _ _ _ Hr) as (sx & sy & _ & _ & _ & _ & [[_ Hroi] | [Hp _]]);
    [|congruence].
  destruct (inverse_rows F A Hinv) as [R1 R2].
  assert (Kx : (0 <= Qfloor (fst p) < snd ss)%Z).
  { split; [apply Qfloor_ge_iff; exact Px0 | apply Qfloor_lt_iff; exact Px1]. }
  assert (Ky : (0 <= Qfloor (snd p) < fst ss)%Z).
  { split; [apply Qfloor_ge_iff; exact Py0 | apply Qfloor_lt_iff; exact Py1]. }
  assert (Cx0 : 0 < inject_Z dx + (1#2)).
  { assert (0 <= inject_Z dx) by (change 0 with (inject_Z 0); rewrite <- Zle_Qle; lia). lra. }
  assert (Cy0 : 0 < inject_Z dy + (1#2)).
  { assert (0 <= inject_Z dy) by (change 0 with (inject_Z 0); rewrite <- Zle_Qle; lia). lra. }
  assert (Cx1 : inject_Z dx + (1#2) < inject_Z (snd ds)).
  { assert (inject_Z dx + 1 <= inject_Z (snd ds)).
    { assert (E : inject_Z dx + 1 == inject_Z (dx + 1)) by (rewrite inject_Z_plus; reflexivity).
      rewrite E, <- Zle_Qle. lia. }
    lra. }
  assert (Cy1 : inject_Z dy + (1#2) < inject_Z (fst ds)).
  { assert (inject_Z dy + 1 <= inject_Z (fst ds)).
    { assert (E : inject_Z dy + 1 == inject_Z (dy + 1)) by (rewrite inject_Z_plus; reflexivity).
      rewrite E, <- Zle_Qle. lia. }
    lra. }
  destruct (linear_env_src A (fst ds) (snd ds) (pad_default padding) _ _ Hpad Cx0 Cx1 Cy0 Cy1 R1 R2) as [E1 E2].
  fold (pix_center dy dx) in E1, E2. fold p in E1, E2.
  pose proof (relative_rois_incl (aff_pt A) (aff_pt F) ss ds 2 (pad_default padding) (norm_align align)
                (Qfloor (snd p)) (Qfloor (fst p)) dy dx S1 S2 D1 D2 Hpad Hal) as HI.
  cbv zeta in HI. specialize (HI E1 E2 Kx Ky).
  (* stage 2 *)
  set (pts1 := map (aff_pt A) (boundary_pts (0%Z, fst ds, (0%Z, snd ds)) 2)) in *.
  set (roi_s := roi_from_points pts1 (fst ss) (snd ss) (pad_default padding) (norm_align align)) in *.
  pose proof (roi_from_points_env pts1 (fst ss) (snd ss) (pad_default padding) (norm_align align)
                (Qfloor (snd p)) (Qfloor (fst p)) S1 S2 Hpad Hal E1 E2 Kx Ky) as Is.
  fold roi_s in Is. destruct Is as [Isy Isx]. unfold in_sl in Isy, Isx.
  destruct (floor_in_range _ _ _ Isx) as [Bx0 Bx1]. destruct (floor_in_range _ _ _ Isy) as [By0 By1].
  destruct (Hinv (pix_center dy dx)) as [Ix Iy]. fold p in Ix, Iy.
  assert (Ep : p = (fst p, snd p)) by (destruct p; reflexivity).
  rewrite Ep in Ix, Iy. unfold pix_center in Ix, Iy. cbn [fst snd] in Ix, Iy.
  destruct (linear_env_dst F roi_s (fst p) (snd p) dy dx Bx0 Bx1 By0 By1 Ix Iy) as [E3 E4].
  specialize (HI E3 E4 Hdx Hdy).
  rewrite <- Hroi in HI. cbn [fst snd] in HI. tauto.
Qed.

(** ** the paste path: what _can_paste guarantees about the snapped transform *)
Lemma maybe_int_near x tol z0 :
  Qabs (x - inject_Z z0) < tol ->
  exists z, maybe_int x tol = inject_Z z /\ Qabs (x - inject_Z z) < tol /\ Qabs (x - inject_Z z) <= half.
Proof.
  intros H. unfold maybe_int. destruct (maybe_int_opt x tol) as [z|] eqn:E.
  - exists z. split; [reflexivity|]. apply maybe_int_opt_some. exact E.
  - exfalso. pose proof (maybe_int_opt_none x tol E z0). lra.
Qed.

Definition unit_q (flip : bool) : Q := if flip then inject_Z (-1) else inject_Z 1.

Lemma snap_affine_unit B ttol stol tol :
  Qabs (ab B) <= tol -> Qabs (ad B) <= tol -> 0 < stol -> stol <= half ->
  Qabs (Qabs (aa B) - 1) < stol -> Qabs (Qabs (ae B) - 1) < stol ->
  (exists z, Qabs (ac B - inject_Z z) < ttol) -> (exists z, Qabs (af B - inject_Z z) < ttol) ->
  exists tx ty,
    snap_affine B ttol stol tol =
      mkAff (unit_q (Qltb (aa B) 0)) 0 (inject_Z tx) 0 (unit_q (Qltb (ae B) 0)) (inject_Z ty) /\
    Qabs (ac B - inject_Z tx) < ttol /\ Qabs (ac B - inject_Z tx) <= half /\
    Qabs (af B - inject_Z ty) < ttol /\ Qabs (af B - inject_Z ty) <= half.
Proof.
  intros Hb Hd S0 S1 Ha He [zx Hx] [zy Hy]. unfold snap_affine.
  assert (E1 : Qltb tol (Qabs (ab B)) = false) by (apply Qltb_false; exact Hb).
  assert (E2 : Qltb tol (Qabs (ad B)) = false) by (apply Qltb_false; exact Hd).
  rewrite E1, E2. cbn [orb].
  destruct (maybe_int_near _ _ _ Hx) as (tx & Mx & Mx1 & Mx2).
  destruct (maybe_int_near _ _ _ Hy) as (ty & My & My1 & My2).
  exists tx, ty. rewrite Mx, My.
  rewrite (snap_scale_unit _ _ S0 S1 Ha), (snap_scale_unit _ _ S0 S1 He).
  split; [|tauto]. unfold unit_q. destruct (Qltb (aa B) 0); destruct (Qltb (ae B) 0); reflexivity.
Qed.

Lemma can_paste_code_ok c A stol ttol :
  can_paste_code c A stol ttol = Ok 0%Z ->
  exists sx sy k,
    scale2 A = Ok (sx, sy) /\ is_affine_st A (c_st c) = true /\
    is_almost_int (Qminq sx sy) stol = true /\
    pick_read_scale (Qminq sx sy) (c_rs c) = Ok k /\
    let A_ := aff_scale_left (1 / inject_Z k) A in
    Qabs (Qabs (aa A_) - 1) < stol /\ Qabs (Qabs (ae A_) - 1) < stol /\
    is_almost_int (ac A_) ttol = true /\ is_almost_int (af A_) ttol = true.
Proof.
  unfold can_paste_code. intros H.
  destruct (is_affine_st A (c_st c)) eqn:Est; [|discriminate]. cbn [negb] in H.
  destruct (scale2 A) as [[sx sy]|e] eqn:Es; [|discriminate]. cbn [bind] in H.
  destruct (is_almost_int (Qminq sx sy) stol) eqn:Ei; [|discriminate]. cbn [negb] in H.
  destruct (pick_read_scale (Qminq sx sy) (c_rs c)) as [k|e] eqn:Ek; [|discriminate]. cbn [bind] in H.
  destruct (Qle_bool stol _ || Qle_bool stol _) eqn:E3 in H; [discriminate|].
  apply orb_false_iff in E3. destruct E3 as [E3a E3b].
  apply Qle_bool_false in E3a. apply Qle_bool_false in E3b.
  destruct (is_almost_int _ ttol && is_almost_int _ ttol) eqn:E4 in H; [|discriminate].
  apply andb_true_iff in E4. destruct E4 as [E4a E4b].
  exists sx, sy, k. cbv zeta. repeat split; try reflexivity; assumption.
Qed.

Lemma is_affine_st_spec A tol : is_affine_st A tol = true -> Qabs (ab A) < tol /\ Qabs (ad A) < tol.
Proof.
  unfold is_affine_st. intros H. apply andb_true_iff in H. destruct H as [H1 H2].
  apply Qltb_true in H1. apply Qltb_true in H2. split; assumption.
Qed.

Lemma inv_pos (k : Z) : (1 <= k)%Z -> 0 < 1 / inject_Z k /\ 1 / inject_Z k <= 1.
Proof.
  intros H. assert (1 <= inject_Z k) by (change 1 with (inject_Z 1); rewrite <- Zle_Qle; exact H).
  split.
  - apply Qlt_shift_div_l; lra.
  - apply Qle_shift_div_r; lra.
Qed.

Lemma Qabs_scale_le u x : 0 < u -> u <= 1 -> Qabs (u * x) <= Qabs x.
Proof.
  intros H0 H1. rewrite Qabs_Qmult. rewrite (Qabs_pos u) by lra.
  pose proof (Qabs_nonneg x). timeout 20 nra.
Qed.

(** the affine handed to box_overlap on the paste path is a unit scale + whole pixel shift *)
Lemma paste_affine_unit c A stol ttol sx sy k :
  can_paste_code c A stol ttol = Ok 0%Z ->
  scale2 A = Ok (sx, sy) -> pick_read_scale (Qminq sx sy) (c_rs c) = Ok k ->
  0 < stol -> stol <= half -> 0 < c_rs c -> c_st c <= c_snap c ->
  (1 <= k)%Z /\
  exists tx ty,
    paste_affine c A ttol stol k =
      mkAff (unit_q (Qltb (aa A) 0)) 0 (inject_Z tx) 0 (unit_q (Qltb (ae A) 0)) (inject_Z ty) /\
    Qabs (Qabs (aa A) / inject_Z k - 1) < stol /\ Qabs (Qabs (ae A) / inject_Z k - 1) < stol /\
    Qabs (ac A / inject_Z k - inject_Z tx) < ttol /\ Qabs (ac A / inject_Z k - inject_Z tx) <= half /\
    Qabs (af A / inject_Z k - inject_Z ty) < ttol /\ Qabs (af A / inject_Z k - inject_Z ty) <= half.
Proof.
  intros Hc Hs Hk S0 S1 R0 Cs.
  destruct (can_paste_code_ok _ _ _ _ Hc) as (sx' & sy' & k' & Hs' & Hst & Hai & Hk' & H).
  rewrite Hs in Hs'. injection Hs' as <- <-. rewrite Hk in Hk'. injection Hk' as <-.
  cbv zeta in H. destruct H as (Ha & He & Hx & Hy).
  destruct (pick_read_scale_spec _ _ _ R0 Hk) as (_ & K1 & _).
  split; [exact K1|].
  destruct (inv_pos k K1) as [U0 U1]. set (u := 1 / inject_Z k) in *.
  assert (Hkq : 0 < inject_Z k) by (change 0 with (inject_Z 0); rewrite <- Zlt_Qlt; lia).
  assert (Eu : forall x, u * x == x / inject_Z k) by (intros x; unfold u; field; lra).
  destruct (is_affine_st_spec _ _ Hst) as [Hb Hd].
  destruct (maybe_int_almost _ _ Hx) as (zx & _ & Zx & _).
  destruct (maybe_int_almost _ _ Hy) as (zy & _ & Zy & _).
  unfold aff_scale_left in *. cbn [aa ab ac ad ae af] in *.
  assert (Sa : Qltb (u * aa A) 0 = Qltb (aa A) 0).
  { destruct (Qltb (aa A) 0) eqn:E; [apply Qltb_true in E; apply Qltb_true | apply Qltb_false in E; apply Qltb_false]; timeout 20 nra. }
  assert (Se : Qltb (u * ae A) 0 = Qltb (ae A) 0).
  { destruct (Qltb (ae A) 0) eqn:E; [apply Qltb_true in E; apply Qltb_true | apply Qltb_false in E; apply Qltb_false]; timeout 20 nra. }
  assert (Aa : Qabs (u * aa A) == Qabs (aa A) / inject_Z k).
  { rewrite Qabs_Qmult, (Qabs_pos u) by lra. apply Eu. }
  assert (Ae : Qabs (u * ae A) == Qabs (ae A) / inject_Z k).
  { rewrite Qabs_Qmult, (Qabs_pos u) by lra. apply Eu. }
  unfold paste_affine. destruct (k =? 1)%Z eqn:K.
  - apply Z.eqb_eq in K. subst k.
    assert (E1 : forall x, u * x == x) by (intros x; unfold u; change (inject_Z 1) with 1; field).
    rewrite !E1 in Ha, He, Zx, Zy.
    destruct (snap_affine_unit A ttol stol (c_snap c)) as (tx & ty & P & Q1 & Q2 & Q3 & Q4);
      try assumption; try lra; try (eexists; eassumption).
    exists tx, ty. split; [exact P|].
    assert (E2 : forall x, x / inject_Z 1 == x) by (intros x; change (inject_Z 1) with 1; field).
    rewrite !E2. tauto.
  - destruct (snap_affine_unit (mkAff (u * aa A) (u * ab A) (u * ac A) (u * ad A) (u * ae A) (u * af A))
                               ttol stol (c_snap c)) as (tx & ty & P & Q1 & Q2 & Q3 & Q4);
      cbn [aa ab ac ad ae af]; try assumption; try (eexists; eassumption).
    + pose proof (Qabs_scale_le u (ab A) U0 U1). lra.
    + pose proof (Qabs_scale_le u (ad A) U0 U1). lra.
    + exists tx, ty. cbn [aa ab ac ad ae af] in *. unfold aff_scale_left. fold u.
      rewrite Sa, Se in P. split; [exact P|].
      rewrite <- Aa, <- Ae, <- !Eu. tauto.
Qed.

(** ** the paste path: regions from the unit transform *)
Definition nn_unit (T : Z) (flip : bool) (d : Z) : Z := if flip then (T - 1 - d)%Z else (d + T)%Z.

Definition axis_unit_facts (Ns Nd T : Z) (flip : bool) (src dst : Z * Z) : Prop :=
  sl_within src Ns /\ sl_within dst Nd /\
  (snd src - fst src = snd dst - fst dst)%Z /\
  (forall d, (0 <= d < Nd)%Z -> (in_sl dst d <-> (0 <= nn_unit T flip d < Ns)%Z)) /\
  (forall d, in_sl dst d -> paste_index src dst flip d = nn_unit T flip d /\ in_sl src (nn_unit T flip d)).

Lemma axis_unit Ns Nd T flip :
  (0 <= Ns)%Z -> (0 <= Nd)%Z ->
  exists src dst, axis_overlap Ns Nd (unit_q flip) (inject_Z T) = Ok (src, dst) /\
                  axis_unit_facts Ns Nd T flip src dst.
Proof.
  intros HNs HNd.
  destruct (axis_overlap_unit Ns Nd T flip HNs HNd) as (src & dst & E & U1 & U2 & U3).
  assert (Hs : ~ unit_q flip == 0) by (destruct flip; unfold unit_q; intros C; discriminate C).
  destruct (axis_overlap_spec Ns Nd (unit_q flip) (inject_Z T) HNs HNd Hs) as (src' & dst' & E' & W1 & W2 & _).
  unfold unit_q in *. rewrite E in E'. injection E' as <- <-.
  exists src, dst. split; [exact E|]. unfold axis_unit_facts, nn_unit.
  split; [exact W1|]. split; [exact W2|]. split; [exact U1|]. split; [exact U2|].
  intros d H. split; [apply U3; exact H|].
  specialize (U3 d H). unfold paste_index, in_sl, sl_within in *. destruct flip; lia.
Qed.

Lemma box_overlap_unit ss ds fx fy tx ty :
  (0 <= fst ss)%Z -> (0 <= snd ss)%Z -> (0 <= fst ds)%Z -> (0 <= snd ds)%Z ->
  exists rs rd,
    box_overlap ss ds (mkAff (unit_q fx) 0 (inject_Z tx) 0 (unit_q fy) (inject_Z ty)) = Ok (rs, rd) /\
    axis_unit_facts (fst ss) (fst ds) ty fy (fst rs) (fst rd) /\
    axis_unit_facts (snd ss) (snd ds) tx fx (snd rs) (snd rd).
Proof.
  intros S1 S2 D1 D2. unfold box_overlap. cbn [aa ab ac ad ae af].
  destruct (axis_unit (fst ss) (fst ds) ty fy S1 D1) as (s0 & d0 & E0 & F0).
  destruct (axis_unit (snd ss) (snd ds) tx fx S2 D2) as (s1 & d1 & E1 & F1).
  rewrite E0. cbn [bind]. rewrite E1. cbn [bind].
  exists (s0, s1), (d0, d1). split; [reflexivity|]. cbn [fst snd]. split; assumption.
Qed.

Lemma zoom_out_dim_spec n k : (0 <= n)%Z -> (1 <= k)%Z ->
  (1 <= zoom_out_dim n k)%Z /\ (n <= k * zoom_out_dim n k)%Z /\ (k * zoom_out_dim n k < n + k \/ n = 0%Z)%Z.
Proof.
  intros Hn Hk. unfold zoom_out_dim.
  assert (Hkq : 0 < inject_Z k) by (change 0 with (inject_Z 0); rewrite <- Zlt_Qlt; lia).
  assert (Hq : (inject_Z n / inject_Z k) * inject_Z k == inject_Z n) by (field; lra).
  set (q := inject_Z n / inject_Z k) in *.
  destruct (Qceiling_spec q) as (cq & Ec & C1 & C2).
  set (cz := Qceiling q) in *. clearbody q.
  assert (G1 : (n <= k * cz)%Z).
  { rewrite Zle_Qle, inject_Z_mult, <- Ec, <- Hq. timeout 20 nra. }
  assert (G2 : (k * cz < n + k)%Z).
  { rewrite Zlt_Qlt, inject_Z_mult, inject_Z_plus, <- Ec, <- Hq. timeout 20 nra. }
  split; [lia|].
  destruct (Z.eq_dec n 0) as [N0 | N0].
  - split; [|right; assumption]. subst n. lia.
  - assert (1 <= cz)%Z by nia. rewrite Z.max_r by lia. split; [lia | left; lia].
Qed.

(** floor of the native location from the floor of the overview location *)
Lemma floor_scaled (px : Q) (k h : Z) :
  (1 <= k)%Z -> Qfloor (px / inject_Z k) = h -> (k * h <= Qfloor px < k * h + k)%Z.
Proof.
  intros Hk <-.
  assert (Hkq : 0 < inject_Z k) by (change 0 with (inject_Z 0); rewrite <- Zlt_Qlt; lia).
  assert (Hq : (px / inject_Z k) * inject_Z k == px) by (field; lra).
  set (q := px / inject_Z k) in *.
  destruct (Qfloor_spec q) as (f & Ef & F1 & F2). clearbody q.
  split.
  - apply Qfloor_ge_iff. rewrite inject_Z_mult, <- Ef, <- Hq. timeout 20 nra.
  - apply Qfloor_lt_iff. rewrite inject_Z_plus, inject_Z_mult, <- Ef, <- Hq. timeout 20 nra.
Qed.

Definition tol_ok (c : consts) (stol : Q) : Prop :=
  0 < stol /\ stol <= half /\ 0 < c_rs c /\ c_st c <= c_snap c.

Lemma src_dims_nonneg ss k : (0 <= fst ss)%Z -> (0 <= snd ss)%Z -> (1 <= k)%Z ->
  (0 <= fst (src_dims ss k))%Z /\ (0 <= snd (src_dims ss k))%Z.
Proof.
  intros H1 H2 Hk. unfold src_dims. destruct (k =? 1)%Z; cbn [fst snd]; [lia|].
  destruct (zoom_out_dim_spec (fst ss) k H1 Hk) as (A1 & _). destruct (zoom_out_dim_spec (snd ss) k H2 Hk) as (B1 & _). lia.
Qed.

Lemma paste_structure c ss ds A F ttol stol padding align r :
  reproject_linear c ss ds A F ttol stol padding align = Ok r -> paste_ok r = true ->
  (0 <= fst ss)%Z -> (0 <= snd ss)%Z -> (0 <= fst ds)%Z -> (0 <= snd ds)%Z -> tol_ok c stol ->
  let k := read_shrink r in
  (1 <= k)%Z /\
  exists tx ty rs rd,
    paste_affine c A ttol stol k =
      mkAff (unit_q (Qltb (aa A) 0)) 0 (inject_Z tx) 0 (unit_q (Qltb (ae A) 0)) (inject_Z ty) /\
    axis_unit_facts (fst (src_dims ss k)) (fst ds) ty (Qltb (ae A) 0) (fst rs) (fst rd) /\
    axis_unit_facts (snd (src_dims ss k)) (snd ds) tx (Qltb (aa A) 0) (snd rs) (snd rd) /\
    roi_src r = up_roi rs k /\ roi_dst r = rd /\
    Qabs (ab A) < c_st c /\ Qabs (ad A) < c_st c /\
    Qabs (Qabs (aa A) / inject_Z k - 1) < stol /\ Qabs (Qabs (ae A) / inject_Z k - 1) < stol /\
    Qabs (ac A / inject_Z k - inject_Z tx) < ttol /\ Qabs (ac A / inject_Z k - inject_Z tx) <= half /\
    Qabs (af A / inject_Z k - inject_Z ty) < ttol /\ Qabs (af A / inject_Z k - inject_Z ty) <= half.
Proof.
  intros Hr Hp S1 S2 D1 D2 (T0 & T1 & T2 & T3) k.
  destruct (reproject_linear_cases _ _ _ _ _ _ _ _ _ _ Hr) as (sx & sy & Hs & Hsc & _ & Hk & [[Hp' _] | (_ & _ & _ & Hc & rs & rd & Hb & Hrs & Hrd)]);
    [congruence|].
  rewrite Hsc in Hk. fold k in Hk, Hb, Hrs.
  destruct (paste_affine_unit c A stol ttol sx sy k Hc Hs Hk T0 T1 T2 T3) as (K1 & tx & ty & HP & Q).
  split; [exact K1|].
  destruct (src_dims_nonneg ss k S1 S2 K1) as [N1 N2].
  destruct (box_overlap_unit (src_dims ss k) ds (Qltb (aa A) 0) (Qltb (ae A) 0) tx ty N1 N2 D1 D2)
    as (rs' & rd' & Hb' & Fy & Fx).
  rewrite HP in Hb. rewrite Hb in Hb'. injection Hb' as <- <-.
  destruct (can_paste_code_ok _ _ _ _ Hc) as (_ & _ & _ & _ & Hst & _).
  destruct (is_affine_st_spec _ _ Hst) as [Hb1 Hd1].
  exists tx, ty, rs, rd. split; [exact HP|]. split; [exact Fy|]. split; [exact Fx|]. split; [exact Hrs|]. split; [exact Hrd|]. split; [exact Hb1|]. split; [exact Hd1|]. exact Q.
Qed.

Lemma up_roi_in rs k h ky kx hy :
  (1 <= k)%Z -> in_sl (snd rs) h -> in_sl (fst rs) hy ->
  (k * h <= kx < k * h + k)%Z -> (k * hy <= ky < k * hy + k)%Z ->
  in_roi (up_roi rs k) ky kx.
Proof.
  intros Hk [X1 X2] [Y1 Y2] Hx Hy. unfold up_roi, in_roi, in_sl.
  destruct (k =? 1)%Z eqn:K.
  - apply Z.eqb_eq in K. subst k. lia.
  - unfold scaled_up_slice. cbn [fst snd]. nia.
Qed.

Lemma axis_h_range (px : Q) (k n dim : Z) :
  (1 <= k)%Z -> 0 <= px -> px < inject_Z n -> (n <= k * dim)%Z ->
  (0 <= Qfloor (px / inject_Z k) < dim)%Z.
Proof.
  intros Hk P0 P1 Hd.
  pose proof (floor_scaled px k _ Hk eq_refl) as Hf.
  assert (0 <= Qfloor px)%Z by (apply Qfloor_ge_iff; exact P0).
  assert (Qfloor px < n)%Z by (apply Qfloor_lt_iff; exact P1).
  nia.
Qed.

Lemma src_dims_cover ss k : (0 <= fst ss)%Z -> (0 <= snd ss)%Z -> (1 <= k)%Z ->
  (fst ss <= k * fst (src_dims ss k))%Z /\ (snd ss <= k * snd (src_dims ss k))%Z.
Proof.
  intros H1 H2 Hk. unfold src_dims. destruct (k =? 1)%Z eqn:K; cbn [fst snd].
  - apply Z.eqb_eq in K. lia.
  - destruct (zoom_out_dim_spec (fst ss) k H1 Hk) as (_ & A & _).
    destruct (zoom_out_dim_spec (snd ss) k H2 Hk) as (_ & B & _). lia.
Qed.

(** C03, paste path: inclusion for any true source location within half an (overview) pixel of the
    snapped transform *)
Lemma paste_inclusion c ss ds A F ttol stol padding align r :
  reproject_linear c ss ds A F ttol stol padding align = Ok r -> paste_ok r = true ->
  (0 <= fst ss)%Z -> (0 <= snd ss)%Z -> (0 <= fst ds)%Z -> (0 <= snd ds)%Z -> tol_ok c stol ->
  let k := read_shrink r in
  let P := paste_affine c A ttol stol k in
  forall dy dx, (0 <= dy < fst ds)%Z -> (0 <= dx < snd ds)%Z ->
  forall px py : Q,
    Qabs (px / inject_Z k - fst (aff_apply P (pix_center dy dx))) < 1#2 ->
    Qabs (py / inject_Z k - snd (aff_apply P (pix_center dy dx))) < 1#2 ->
    0 <= px -> px < inject_Z (snd ss) -> 0 <= py -> py < inject_Z (fst ss) ->
    in_roi (roi_dst r) dy dx /\ in_roi (roi_src r) (Qfloor py) (Qfloor px).
Proof.
  intros Hr Hp S1 S2 D1 D2 Htol k P dy dx Hdy Hdx px py Dx Dy X0 X1 Y0 Y1.
  destruct (paste_structure _ _ _ _ _ _ _ _ _ _ Hr Hp S1 S2 D1 D2 Htol) as (K1 & tx & ty & rs & rd & HP & Fy & Fx & Hrs & Hrd & _).
  fold k in K1, HP, Fy, Fx, Hrs. fold P in HP.
  destruct (src_dims_cover ss k S1 S2 K1) as [Cy Cx].
  assert (Ex : fst (aff_apply P (pix_center dy dx)) == unit_q (Qltb (aa A) 0) * (inject_Z dx + (1#2)) + inject_Z tx).
  { rewrite HP. unfold aff_apply, pix_center. cbn [fst snd aa ab ac ad ae af]. ring. }
  assert (Ey : snd (aff_apply P (pix_center dy dx)) == unit_q (Qltb (ae A) 0) * (inject_Z dy + (1#2)) + inject_Z ty).
  { rewrite HP. unfold aff_apply, pix_center. cbn [fst snd aa ab ac ad ae af]. ring. }
  rewrite Ex in Dx. rewrite Ey in Dy.
  pose proof (nn_floor_unit tx dx (Qltb (aa A) 0) (px / inject_Z k) Dx) as Nx.
  pose proof (nn_floor_unit ty dy (Qltb (ae A) 0) (py / inject_Z k) Dy) as Ny.
  fold (nn_unit tx (Qltb (aa A) 0) dx) in Nx. fold (nn_unit ty (Qltb (ae A) 0) dy) in Ny.
  pose proof (axis_h_range px k (snd ss) _ K1 X0 X1 Cx) as Rx.
  pose proof (axis_h_range py k (fst ss) _ K1 Y0 Y1 Cy) as Ry.
  rewrite Nx in Rx. rewrite Ny in Ry.
  destruct Fx as (_ & _ & _ & Fx2 & Fx3). destruct Fy as (_ & _ & _ & Fy2 & Fy3).
  assert (Ix : in_sl (snd rd) dx) by (apply Fx2; assumption).
  assert (Iy : in_sl (fst rd) dy) by (apply Fy2; assumption).
  destruct (Fx3 dx Ix) as [_ Sx]. destruct (Fy3 dy Iy) as [_ Sy].
  rewrite Hrd, Hrs. split; [split; assumption|].
  apply (up_roi_in rs k _ _ _ _ K1 Sx Sy).
  - apply floor_scaled; assumption.
  - apply floor_scaled; assumption.
Qed.

(** ... in particular for the true transform itself when the scale is exactly +-k *)
Lemma paste_drift_exact ttol (k tx : Z) (a t : Q) (flip : bool) (d : Z) :
  (1 <= k)%Z -> a == unit_q flip * inject_Z k ->
  Qabs (t / inject_Z k - inject_Z tx) < ttol -> ttol <= 1#2 ->
  Qabs ((a * (inject_Z d + (1#2)) + t) / inject_Z k - (unit_q flip * (inject_Z d + (1#2)) + inject_Z tx)) < 1#2.
Proof.
  intros Hk Ea Ht Htt.
  assert (Hkq : 0 < inject_Z k) by (change 0 with (inject_Z 0); rewrite <- Zlt_Qlt; lia).
  assert (E : (a * (inject_Z d + (1#2)) + t) / inject_Z k - (unit_q flip * (inject_Z d + (1#2)) + inject_Z tx)
              == t / inject_Z k - inject_Z tx).
  { rewrite Ea. field. lra. }
  rewrite E. lra.
Qed.

(** C03, paste path: regions inside the images (source: up to the next multiple of k) *)
Lemma paste_within c ss ds A F ttol stol padding align r :
  reproject_linear c ss ds A F ttol stol padding align = Ok r -> paste_ok r = true ->
  (0 <= fst ss)%Z -> (0 <= snd ss)%Z -> (0 <= fst ds)%Z -> (0 <= snd ds)%Z -> tol_ok c stol ->
  let k := read_shrink r in
  roi_within (roi_dst r) ds /\
  roi_within (roi_src r) (k * fst (src_dims ss k), k * snd (src_dims ss k))%Z /\
  (fst (fst (roi_src r)) mod k = 0 /\ snd (fst (roi_src r)) mod k = 0 /\
   fst (snd (roi_src r)) mod k = 0 /\ snd (snd (roi_src r)) mod k = 0)%Z /\
  (k = 1%Z -> roi_within (roi_src r) ss) /\
  (k * fst (src_dims ss k) < fst ss + k \/ fst ss = 0)%Z /\ (k * snd (src_dims ss k) < snd ss + k \/ snd ss = 0)%Z.
Proof.
  intros Hr Hp S1 S2 D1 D2 Htol k.
  destruct (paste_structure _ _ _ _ _ _ _ _ _ _ Hr Hp S1 S2 D1 D2 Htol) as (K1 & tx & ty & rs & rd & HP & Fy & Fx & Hrs & Hrd & _).
  fold k in K1, HP, Fy, Fx, Hrs.
  destruct Fx as (Wsx & Wdx & _). destruct Fy as (Wsy & Wdy & _).
  rewrite Hrd, Hrs. unfold roi_within, sl_within, up_roi, src_dims in *.
  destruct (k =? 1)%Z eqn:K.
  - apply Z.eqb_eq in K. cbn [fst snd] in *. rewrite K in *. rewrite !Z.mod_1_r.
    repeat split; try lia.
  - apply Z.eqb_neq in K. cbn [fst snd] in *. unfold scaled_up_slice. cbn [fst snd].
    destruct (zoom_out_dim_spec (fst ss) k S1 K1) as (_ & _ & A3).
    destruct (zoom_out_dim_spec (snd ss) k S2 K1) as (_ & _ & B3).
    rewrite !Z.mod_mul by lia.
    repeat split; try nia; try lia.
Qed.

(** C10: for read_shrink = k the source region is exactly k times the overview region, whose
    shape equals the destination region's *)
Lemma paste_shrink_scaled c ss ds A F ttol stol padding align r :
  reproject_linear c ss ds A F ttol stol padding align = Ok r -> paste_ok r = true ->
  (0 <= fst ss)%Z -> (0 <= snd ss)%Z -> (0 <= fst ds)%Z -> (0 <= snd ds)%Z -> tol_ok c stol ->
  let k := read_shrink r in
  (snd (fst (roi_src r)) - fst (fst (roi_src r)) = k * (snd (fst (roi_dst r)) - fst (fst (roi_dst r))))%Z /\
  (snd (snd (roi_src r)) - fst (snd (roi_src r)) = k * (snd (snd (roi_dst r)) - fst (snd (roi_dst r))))%Z.
Proof.
  intros Hr Hp S1 S2 D1 D2 Htol k.
  destruct (paste_structure _ _ _ _ _ _ _ _ _ _ Hr Hp S1 S2 D1 D2 Htol) as (K1 & tx & ty & rs & rd & HP & Fy & Fx & Hrs & Hrd & _).
  fold k in K1, HP, Fy, Fx, Hrs.
  destruct Fx as (_ & _ & Ex & _). destruct Fy as (_ & _ & Ey & _).
  rewrite Hrd, Hrs. unfold up_roi. destruct (k =? 1)%Z eqn:K.
  - apply Z.eqb_eq in K. rewrite K. lia.
  - unfold scaled_up_slice. cbn [fst snd]. nia.
Qed.

(** ** scale and read_shrink *)
Lemma Qminq_spec x y : (Qminq x y == x \/ Qminq x y == y) /\ Qminq x y <= x /\ Qminq x y <= y.
Proof.
  unfold Qminq. destruct (Qltb y x) eqn:E; [apply Qltb_true in E | apply Qltb_false in E];
    (split; [auto with qarith; (left; reflexivity) || (right; reflexivity) | split; lra]).
Qed.

Lemma reproject_scale c ss ds A F ttol stol padding align r :
  reproject_linear c ss ds A F ttol stol padding align = Ok r -> 0 < c_rs c ->
  let sx := fst (scale_xy r) in let sy := snd (scale_xy r) in
  0 < sx /\ 0 < sy /\
  sx * sx == aa A * aa A + ad A * ad A /\ sx * sy == Qabs (aa A * ae A - ab A * ad A) /\
  (ab A == 0 -> ad A == 0 -> sx == Qabs (aa A) /\ sy == Qabs (ae A)) /\
  (scale r == sx \/ scale r == sy) /\ scale r <= sx /\ scale r <= sy /\
  (1 <= read_shrink r)%Z /\ (scale r < 1 -> read_shrink r = 1%Z) /\
  (1 <= scale r -> inject_Z (read_shrink r) - c_rs c < scale r /\ scale r < inject_Z (read_shrink r) + 1).
Proof.
  intros Hr Htol sx sy.
  destruct (reproject_linear_cases _ _ _ _ _ _ _ _ _ _ Hr) as (sx' & sy' & Hs & Hsc & Hxy & Hk & _).
  unfold sx, sy. rewrite Hxy, Hsc. cbn [fst snd].
  destruct (scale2_spec _ _ _ Hs) as (P1 & P2 & P3 & P4).
  rewrite Hsc in Hk.
  destruct (pick_read_scale_spec _ _ _ Htol Hk) as (_ & K1 & K2 & K3).
  destruct (Qminq_spec sx' sy') as (M1 & M2 & M3).
  repeat split; try assumption; try tauto.
  - (* sx = |a| without rotation/shear *)
    assert (E : sx' * sx' == Qabs (aa A) * Qabs (aa A)).
    { rewrite P3, H0. apply Qabs_case; intros; ring. }
    pose proof (Qabs_nonneg (aa A)).
    destruct (Qlt_le_dec sx' (Qabs (aa A))); [exfalso; timeout 20 nra|].
    destruct (Qlt_le_dec (Qabs (aa A)) sx'); [exfalso; timeout 20 nra|]. lra.
  - assert (E : sx' * sx' == Qabs (aa A) * Qabs (aa A)).
    { rewrite P3, H0. apply Qabs_case; intros; ring. }
    pose proof (Qabs_nonneg (aa A)).
    assert (Ex : sx' == Qabs (aa A)).
    { destruct (Qlt_le_dec sx' (Qabs (aa A))); [exfalso; timeout 20 nra|].
      destruct (Qlt_le_dec (Qabs (aa A)) sx'); [exfalso; timeout 20 nra|]. lra. }
    assert (E2 : sx' * sy' == sx' * Qabs (ae A)).
    { rewrite P4, H. assert (X : aa A * ae A - 0 * ad A == aa A * ae A) by ring. rewrite X, Qabs_Qmult, Ex. reflexivity. }
    apply Qmult_inj_l in E2; [exact E2 | lra].
Qed.

(** ** same CRS, sampled path: regions inside the images; separated -> empty *)
Lemma sampled_within c ss ds A F ttol stol padding align r :
  reproject_linear c ss ds A F ttol stol padding align = Ok r -> paste_ok r = false ->
  (0 <= fst ss)%Z -> (0 <= snd ss)%Z -> (0 <= fst ds)%Z -> (0 <= snd ds)%Z ->
  (0 <= fst (fst (roi_src r)) <= fst ss /\ 0 <= snd (fst (roi_src r)) <= fst ss /\
   0 <= fst (snd (roi_src r)) <= snd ss /\ 0 <= snd (snd (roi_src r)) <= snd ss)%Z /\
  (0 <= fst (fst (roi_dst r)) <= fst ds /\ 0 <= snd (fst (roi_dst r)) <= fst ds /\
   0 <= fst (snd (roi_dst r)) <= snd ds /\ 0 <= snd (snd (roi_dst r)) <= snd ds)%Z.
Proof.
  intros Hr Hp S1 S2 D1 D2.
  destruct (reproject_linear_cases _ _ _ _ _ _ _ _ _ _ Hr) as (sx & sy & _ & _ & _ & _ & [[_ Hroi] | [Hp' _]]); [|congruence].
  pose proof (relative_rois_within (aff_pt A) (aff_pt F) ss ds 2 (pad_default padding) (norm_align align) S1 S2 D1 D2) as W.
  cbv zeta in W. rewrite <- Hroi in W. exact W.
Qed.

Definition align_slack (align : option Z) : Z := match align with None => 0%Z | Some a => (a - 1)%Z end.

(** the values are beyond the image [0, n) by more than the margin *)
Definition axis_sep (vals : list Q) (n pad : Z) (align : option Z) : Prop :=
  match vals with
  | [] => True
  | v :: vs => (Qceiling (Qmax_list v vs) + pad <= 0)%Z \/
               (n + align_slack align <= Qfloor (Qmin_list v vs) - pad)%Z
  end.

Lemma axis_from_points_sep vals n padding align lim :
  (0 <= n)%Z -> align_ok align -> (0 <= padding <= lim)%Z ->
  (n + align_slack align <= lim - padding)%Z ->
  axis_sep vals n padding align ->
  let r := axis_from_points vals n padding align lim in (snd r - fst r <= 0)%Z.
Proof.
  intros Hn Ha Hp Hl Hs. destruct vals as [|v vs]; [cbn; lia|].
  destruct Hs as [H | H].
  - apply axis_from_points_empty_lo; assumption.
  - apply axis_from_points_empty_hi; try assumption; try lia.
Qed.

Lemma roi_from_points_sep pts ny nx padding align :
  (0 <= ny)%Z -> (0 <= nx)%Z -> (0 <= padding)%Z -> align_ok align ->
  axis_sep (xs_of pts) nx padding align \/ axis_sep (ys_of pts) ny padding align ->
  roi_empty (roi_from_points pts ny nx padding align) = true.
Proof.
  intros Hny Hnx Hp Ha Hs. unfold roi_from_points, roi_empty.
  set (lim := (Z.max nx ny + padding + match align with None => 1 | Some a => a end + 1)%Z).
  assert (L1 : (0 <= padding <= lim)%Z) by (unfold lim; destruct align; simpl in Ha; lia).
  assert (L2 : (nx + align_slack align <= lim - padding)%Z) by (unfold lim, align_slack; destruct align; simpl in Ha; lia).
  assert (L3 : (ny + align_slack align <= lim - padding)%Z) by (unfold lim, align_slack; destruct align; simpl in Ha; lia).
  destruct (axis_from_points (map snd (keep_finite pts)) ny padding align lim) as [y0 y1] eqn:Ey.
  destruct (axis_from_points (map fst (keep_finite pts)) nx padding align lim) as [x0 x1] eqn:Ex.
  apply orb_true_iff. destruct Hs as [H | H].
  - right. apply Z.leb_le.
    pose proof (axis_from_points_sep _ nx padding align lim Hnx Ha L1 L2 H) as S. unfold xs_of in S.
    cbv zeta in S. rewrite Ex in S. exact S.
  - left. apply Z.leb_le.
    pose proof (axis_from_points_sep _ ny padding align lim Hny Ha L1 L3 H) as S. unfold ys_of in S.
    cbv zeta in S. rewrite Ey in S. exact S.
Qed.

Lemma relative_rois_sep back fwd ss ds n padding align :
  (0 <= fst ss)%Z -> (0 <= snd ss)%Z -> (0 <= padding)%Z ->
  let pts := map back (boundary_pts ((0%Z, fst ds), (0%Z, snd ds)) n) in
  axis_sep (xs_of pts) (snd ss) padding None \/ axis_sep (ys_of pts) (fst ss) padding None ->
  let r := relative_rois back fwd ss ds n padding align in
  roi_empty (fst r) = true /\ snd r = ((0, 0), (0, 0))%Z.
Proof.
  intros S1 S2 Hp pts Hs. rewrite relative_rois_eq. cbv zeta. fold pts.
  pose proof (roi_from_points_sep pts (fst ss) (snd ss) padding None S1 S2 Hp I Hs) as E0.
  destruct (src_region_cases pts (fst ss) (snd ss) padding align) as [[_ C] | [C _]]; [|congruence].
  rewrite C, E0. cbn [fst snd]. split; [exact E0 | reflexivity].
Qed.

(** separated by more than the padding margin (alignment does not add to it) -> both regions empty *)
Lemma sampled_disjoint c ss ds A F ttol stol padding align r :
  reproject_linear c ss ds A F ttol stol padding align = Ok r -> paste_ok r = false ->
  (0 <= fst ss)%Z -> (0 <= snd ss)%Z -> (0 <= pad_default padding)%Z ->
  let pts := map (aff_pt A) (boundary_pts ((0%Z, fst ds), (0%Z, snd ds)) 2) in
  axis_sep (xs_of pts) (snd ss) (pad_default padding) None \/
  axis_sep (ys_of pts) (fst ss) (pad_default padding) None ->
  roi_empty (roi_src r) = true /\ roi_dst r = ((0, 0), (0, 0))%Z.
Proof.
  intros Hr Hp S1 S2 Hpad pts Hs.
  destruct (reproject_linear_cases _ _ _ _ _ _ _ _ _ _ Hr) as (sx & sy & _ & _ & _ & _ & [[_ Hroi] | [Hp' _]]); [|congruence].
  pose proof (relative_rois_sep (aff_pt A) (aff_pt F) ss ds 2 _ (norm_align align) S1 S2 Hpad Hs) as W.
  cbv zeta in W. rewrite <- Hroi in W. exact W.
Qed.

(** all values on one side of the image by the margin -> separated *)
Lemma Qmax_list_mem v vs : In (Qmax_list v vs) (v :: vs).
Proof.
  revert v; induction vs as [|a l IH]; intros v; [left; reflexivity|].
  simpl. destruct (Qle_bool v a).
  - destruct (IH a) as [E | E]; [right; left; exact E | right; right; exact E].
  - destruct (IH v) as [E | E]; [left; exact E | right; right; exact E].
Qed.
Lemma Qmin_list_mem v vs : In (Qmin_list v vs) (v :: vs).
Proof.
  revert v; induction vs as [|a l IH]; intros v; [left; reflexivity|].
  simpl. destruct (Qle_bool v a).
  - destruct (IH v) as [E | E]; [left; exact E | right; right; exact E].
  - destruct (IH a) as [E | E]; [right; left; exact E | right; right; exact E].
Qed.

Lemma axis_sep_all vals n pad align :
  (forall v, In v vals -> v <= - inject_Z pad) \/
  (forall v, In v vals -> inject_Z (n + align_slack align + pad) <= v) ->
  axis_sep vals n pad align.
Proof.
  intros H. destruct vals as [|v vs]; [exact I|]. unfold axis_sep.
  destruct H as [H | H].
  - left. specialize (H _ (Qmax_list_mem v vs)).
    assert (Qceiling (Qmax_list v vs) <= - pad)%Z by (apply Qceiling_le_iff; rewrite inject_Z_opp; exact H). lia.
  - right. specialize (H _ (Qmin_list_mem v vs)).
    assert (n + align_slack align + pad <= Qfloor (Qmin_list v vs))%Z by (apply Qfloor_ge_iff; exact H). lia.
Qed.

(** ** paste path: nothing maps inside -> both regions empty *)
Lemma axis_unit_empty Ns Nd T flip src dst :
  axis_unit_facts Ns Nd T flip src dst ->
  (forall d, (0 <= d < Nd)%Z -> ~ (0 <= nn_unit T flip d < Ns)%Z) ->
  snd src = fst src /\ snd dst = fst dst.
Proof.
  intros (W1 & W2 & Es & F2 & _) H. unfold sl_within, in_sl in *.
  destruct (Z.eq_dec (snd dst) (fst dst)) as [E | N]; [lia|].
  exfalso. apply (H (fst dst)); [lia|]. apply F2; lia.
Qed.

Lemma nn_unit_half T f d :
  unit_q f * (inject_Z d + (1#2)) + inject_Z T == inject_Z (nn_unit T f d) + (1#2).
Proof.
  unfold nn_unit, unit_q. destruct f.
  - unfold Z.sub. rewrite !inject_Z_plus, !inject_Z_opp. change (inject_Z (-1)) with (-(1)). change (inject_Z 1) with 1. ring.
  - rewrite !inject_Z_plus. change (inject_Z 1) with 1. ring.
Qed.

Lemma nn_unit_inside T f d dim x :
  x == unit_q f * (inject_Z d + (1#2)) + inject_Z T ->
  ((0 <= nn_unit T f d < dim)%Z <-> (0 <= x /\ x < inject_Z dim)).
Proof.
  intros E. rewrite E, nn_unit_half. set (n := nn_unit T f d). clearbody n. split.
  - intros [H1 H2]. rewrite Zle_Qle in H1. change (inject_Z 0) with 0 in H1.
    assert (inject_Z n + 1 <= inject_Z dim).
    { assert (E1 : inject_Z n + 1 == inject_Z (n + 1)) by (rewrite inject_Z_plus; reflexivity).
      rewrite E1, <- Zle_Qle. lia. }
    lra.
  - intros [H1 H2]. split.
    + apply inject_Z_half_lt. change (inject_Z 0) with 0. lra.
    + rewrite Zlt_Qlt. lra.
Qed.

Lemma paste_disjoint c ss ds A F ttol stol padding align r :
  reproject_linear c ss ds A F ttol stol padding align = Ok r -> paste_ok r = true ->
  (0 <= fst ss)%Z -> (0 <= snd ss)%Z -> (0 <= fst ds)%Z -> (0 <= snd ds)%Z -> tol_ok c stol ->
  let k := read_shrink r in
  let P := paste_affine c A ttol stol k in
  (* no destination column (or no row) maps into the (overview of the) source under the snapped transform *)
  (forall dx, (0 <= dx < snd ds)%Z ->
     let x := fst (aff_apply P (pix_center 0 dx)) in ~ (0 <= x /\ x < inject_Z (snd (src_dims ss k)))) \/
  (forall dy, (0 <= dy < fst ds)%Z ->
     let y := snd (aff_apply P (pix_center dy 0)) in ~ (0 <= y /\ y < inject_Z (fst (src_dims ss k)))) ->
  roi_empty (roi_src r) = true /\ roi_empty (roi_dst r) = true.
Proof.
  intros Hr Hp S1 S2 D1 D2 Htol k P Hdis.
  destruct (paste_structure _ _ _ _ _ _ _ _ _ _ Hr Hp S1 S2 D1 D2 Htol) as (K1 & tx & ty & rs & rd & HP & Fy & Fx & Hrs & Hrd & _).
  fold k in K1, HP, Fy, Fx, Hrs. fold P in HP.
  assert (Hax : (snd (snd rs) = fst (snd rs) /\ snd (snd rd) = fst (snd rd)) \/
                (snd (fst rs) = fst (fst rs) /\ snd (fst rd) = fst (fst rd))).
  { destruct Hdis as [H | H]; [left | right].
    - apply (axis_unit_empty _ _ _ _ _ _ Fx). intros d Hd C. apply (H d Hd). cbv zeta.
      apply (nn_unit_inside tx (Qltb (aa A) 0) d); [|exact C].
      rewrite HP. unfold aff_apply, pix_center. cbn [fst snd aa ab ac ad ae af]. ring.
    - apply (axis_unit_empty _ _ _ _ _ _ Fy). intros d Hd C. apply (H d Hd). cbv zeta.
      apply (nn_unit_inside ty (Qltb (ae A) 0) d); [|exact C].
      rewrite HP. unfold aff_apply, pix_center. cbn [fst snd aa ab ac ad ae af]. ring. }
  rewrite Hrd, Hrs. unfold roi_empty, up_roi.
  destruct rs as [[sy0 sy1] [sx0 sx1]]. destruct rd as [[dy0 dy1] [dx0 dx1]]. cbn [fst snd] in *.
  destruct (k =? 1)%Z; unfold scaled_up_slice; cbn [fst snd];
    (split; apply orb_true_iff; destruct Hax as [[E1 E2] | [E1 E2]]; [right | left | right | left]; apply Z.leb_le; nia).
Qed.

(** ** _can_paste: what acceptance means *)
Lemma can_paste_sound c A stol ttol :
  can_paste c A stol ttol = Ok true -> tol_ok c stol ->
  exists sx sy k tx ty,
    scale2 A = Ok (sx, sy) /\ pick_read_scale (Qminq sx sy) (c_rs c) = Ok k /\ (1 <= k)%Z /\
    Qabs (ab A) < c_st c /\ Qabs (ad A) < c_st c /\
    (exists z, Qabs (Qminq sx sy - inject_Z z) < stol) /\
    Qabs (Qabs (aa A) / inject_Z k - 1) < stol /\ Qabs (Qabs (ae A) / inject_Z k - 1) < stol /\
    Qabs (ac A / inject_Z k - inject_Z tx) < ttol /\ Qabs (af A / inject_Z k - inject_Z ty) < ttol /\
    paste_affine c A ttol stol k =
      mkAff (unit_q (Qltb (aa A) 0)) 0 (inject_Z tx) 0 (unit_q (Qltb (ae A) 0)) (inject_Z ty).
Proof.
  unfold can_paste. intros H (T0 & T1 & T2 & T3).
  destruct (can_paste_code c A stol ttol) as [code|e] eqn:Ec; [|discriminate]. cbn [bind] in H.
  injection H as H. apply Z.eqb_eq in H. subst code.
  destruct (can_paste_code_ok _ _ _ _ Ec) as (sx & sy & k & Hs & Hst & Hai & Hk & _).
  destruct (paste_affine_unit c A stol ttol sx sy k Ec Hs Hk T0 T1 T2 T3) as (K1 & tx & ty & HP & Q1 & Q2 & Q3 & _ & Q5 & _).
  destruct (is_affine_st_spec _ _ Hst) as [Hb Hd].
  destruct (maybe_int_almost _ _ Hai) as (z & _ & Hz & _).
  exists sx, sy, k, tx, ty. repeat split; try assumption. exists z. exact Hz.
Qed.

Lemma can_paste_rotation c A stol ttol :
  c_st c <= Qabs (ab A) \/ c_st c <= Qabs (ad A) -> can_paste c A stol ttol = Ok false.
Proof.
  intros H. unfold can_paste, can_paste_code, is_affine_st.
  assert (E : Qltb (Qabs (ab A)) (c_st c) && Qltb (Qabs (ad A)) (c_st c) = false).
  { apply andb_false_iff. destruct H; [left | right]; apply Qltb_false; assumption. }
  rewrite E. reflexivity.
Qed.

(** ** different CRS: inclusion conditional on the enclosing hypothesis *)
Lemma reproject_nonlinear_cases c back fwd scale_at ss ds padding align r :
  reproject_nonlinear c back fwd scale_at ss ds padding align = Ok r ->
  paste_ok r = false /\
  (roi_src r, roi_dst r) = relative_rois back fwd ss ds 5 (pad_default padding) (norm_align align) /\
  ((roi_empty (roi_dst r) = true /\ read_shrink r = 1%Z /\ scale r = 0) \/
   (roi_empty (roi_dst r) = false /\
    exists sx sy, scale_xy r = (sx, sy) /\ scale r = Qminq sx sy /\
                  pick_read_scale (scale r) (c_rs c) = Ok (read_shrink r))).
Proof.
  unfold reproject_nonlinear, pad_default. intros H.
  destruct (relative_rois back fwd ss ds 5 _ _) as [rs rd] eqn:Er.
  destruct (roi_empty rd) eqn:Ee; cbn [negb] in H.
  - injection H as <-. cbn. repeat split. left. repeat split. exact Ee.
  - destruct rd as [[y0 y1] [x0 x1]].
    destruct (scale_at _) as [[sx sy]|e]; [|discriminate]. cbn [bind] in H.
    destruct (pick_read_scale (Qminq sx sy) (c_rs c)) as [k|e] eqn:Ek; [|discriminate]. cbn [bind] in H.
    injection H as <-. cbn. repeat split. right. split; [exact Ee|]. exists sx, sy. repeat split. exact Ek.
Qed.

(** H_boundary_encloses: the padded envelope of the sampled destination boundary (projected into
    the source) contains every needed source pixel, and the envelope of the sampled boundary of the
    planned source region (projected back) contains the destination pixel. *)
Definition boundary_encloses (back fwd : ptrans) (ss ds : shape2) (padding : Z) (align : option Z) : Prop :=
  let pts1 := map back (boundary_pts ((0%Z, fst ds), (0%Z, snd ds)) 5) in
  let roi_s := roi_from_points pts1 (fst ss) (snd ss) padding align in
  let pts2 := map fwd (boundary_pts roi_s 5) in
  forall dy dx p, (0 <= dy < fst ds)%Z -> (0 <= dx < snd ds)%Z ->
    back (pix_center dy dx) = Some p ->
    0 <= fst p -> fst p < inject_Z (snd ss) -> 0 <= snd p -> snd p < inject_Z (fst ss) ->
    env_has (xs_of pts1) padding (Qfloor (fst p)) /\ env_has (ys_of pts1) padding (Qfloor (snd p)) /\
    env_has (xs_of pts2) 0 dx /\ env_has (ys_of pts2) 0 dy.

Lemma nonlinear_inclusion c back fwd scale_at ss ds padding align r :
  reproject_nonlinear c back fwd scale_at ss ds padding align = Ok r ->
  (0 <= fst ss)%Z -> (0 <= snd ss)%Z -> (0 <= fst ds)%Z -> (0 <= snd ds)%Z ->
  (0 <= pad_default padding)%Z -> align_ok (norm_align align) ->
  boundary_encloses back fwd ss ds (pad_default padding) (norm_align align) ->
  forall dy dx p, (0 <= dy < fst ds)%Z -> (0 <= dx < snd ds)%Z ->
    back (pix_center dy dx) = Some p ->
    0 <= fst p -> fst p < inject_Z (snd ss) -> 0 <= snd p -> snd p < inject_Z (fst ss) ->
    in_roi (roi_dst r) dy dx /\ in_roi (roi_src r) (Qfloor (snd p)) (Qfloor (fst p)).
Proof.
  intros Hr S1 S2 D1 D2 Hpad Hal Henc dy dx p Hdy Hdx Hb X0 X1 Y0 Y1.
  destruct (reproject_nonlinear_cases _ _ _ _ _ _ _ _ _ Hr) as (_ & Hroi & _).
  destruct (Henc dy dx p Hdy Hdx Hb X0 X1 Y0 Y1) as (E1 & E2 & E3 & E4).
  assert (Kx : (0 <= Qfloor (fst p) < snd ss)%Z).
  { split; [apply Qfloor_ge_iff; exact X0 | apply Qfloor_lt_iff; exact X1]. }
  assert (Ky : (0 <= Qfloor (snd p) < fst ss)%Z).
  { split; [apply Qfloor_ge_iff; exact Y0 | apply Qfloor_lt_iff; exact Y1]. }
  pose proof (relative_rois_incl back fwd ss ds 5 (pad_default padding) (norm_align align)
                (Qfloor (snd p)) (Qfloor (fst p)) dy dx S1 S2 D1 D2 Hpad Hal E1 E2 Kx Ky E3 E4 Hdx Hdy) as HI.
  cbv zeta in HI. rewrite <- Hroi in HI. cbn [fst snd] in HI. tauto.
Qed.

Lemma nonlinear_within c back fwd scale_at ss ds padding align r :
  reproject_nonlinear c back fwd scale_at ss ds padding align = Ok r ->
  (0 <= fst ss)%Z -> (0 <= snd ss)%Z -> (0 <= fst ds)%Z -> (0 <= snd ds)%Z ->
  paste_ok r = false /\
  (0 <= fst (fst (roi_src r)) <= fst ss /\ 0 <= snd (fst (roi_src r)) <= fst ss /\
   0 <= fst (snd (roi_src r)) <= snd ss /\ 0 <= snd (snd (roi_src r)) <= snd ss)%Z /\
  (0 <= fst (fst (roi_dst r)) <= fst ds /\ 0 <= snd (fst (roi_dst r)) <= fst ds /\
   0 <= fst (snd (roi_dst r)) <= snd ds /\ 0 <= snd (snd (roi_dst r)) <= snd ds)%Z.
Proof.
  intros Hr S1 S2 D1 D2.
  destruct (reproject_nonlinear_cases _ _ _ _ _ _ _ _ _ Hr) as (Hp & Hroi & _).
  split; [exact Hp|].
  pose proof (relative_rois_within back fwd ss ds 5 (pad_default padding) (norm_align align) S1 S2 D1 D2) as W.
  cbv zeta in W. rewrite <- Hroi in W. exact W.
Qed.

Lemma nonlinear_separated c back fwd scale_at ss ds padding align r :
  reproject_nonlinear c back fwd scale_at ss ds padding align = Ok r ->
  (0 <= fst ss)%Z -> (0 <= snd ss)%Z -> (0 <= pad_default padding)%Z ->
  let pts := map back (boundary_pts ((0%Z, fst ds), (0%Z, snd ds)) 5) in
  axis_sep (xs_of pts) (snd ss) (pad_default padding) None \/
  axis_sep (ys_of pts) (fst ss) (pad_default padding) None ->
  roi_empty (roi_src r) = true /\ roi_dst r = ((0, 0), (0, 0))%Z /\ read_shrink r = 1%Z /\ scale r = 0.
Proof.
  intros Hr S1 S2 Hpad pts Hs.
  destruct (reproject_nonlinear_cases _ _ _ _ _ _ _ _ _ Hr) as (_ & Hroi & Hsc).
  pose proof (relative_rois_sep back fwd ss ds 5 _ (norm_align align) S1 S2 Hpad Hs) as W.
  cbv zeta in W. rewrite <- Hroi in W. cbn [fst snd] in W. destruct W as [W1 W2].
  split; [exact W1|]. split; [exact W2|].
  destruct Hsc as [(_ & K & Sc) | (Ne & _)]; [tauto|].
  rewrite W2 in Ne. discriminate Ne.
Qed.

Lemma nonlinear_scale c back fwd scale_at ss ds padding align r :
  reproject_nonlinear c back fwd scale_at ss ds padding align = Ok r -> 0 < c_rs c ->
  (roi_empty (roi_dst r) = true -> read_shrink r = 1%Z /\ scale r = 0) /\
  (roi_empty (roi_dst r) = false ->
     (scale r == fst (scale_xy r) \/ scale r == snd (scale_xy r)) /\
     scale r <= fst (scale_xy r) /\ scale r <= snd (scale_xy r) /\ 0 < scale r /\
     (1 <= read_shrink r)%Z /\ (scale r < 1 -> read_shrink r = 1%Z) /\
     (1 <= scale r -> inject_Z (read_shrink r) - c_rs c < scale r /\ scale r < inject_Z (read_shrink r) + 1)).
Proof.
  intros Hr Htol.
  destruct (reproject_nonlinear_cases _ _ _ _ _ _ _ _ _ Hr) as (_ & _ & [(E & K & S) | (E & sx & sy & Hxy & Hs & Hk)]).
  - split; [tauto|]. intros C. congruence.
  - split; [intros C; congruence|]. intros _. rewrite Hxy. cbn [fst snd].
    destruct (pick_read_scale_spec _ _ _ Htol Hk) as (P0 & K1 & K2 & K3).
    rewrite Hs in *. destruct (Qminq_spec sx sy) as (M1 & M2 & M3). tauto.
Qed.

(** ** the requested padding is honoured around every needed source pixel *)
Lemma env_has_pad vals k j pad :
  env_has vals 0 k -> (k - pad <= j <= k + pad)%Z -> env_has vals pad j.
Proof.
  unfold env_has. destruct vals as [|v vs]; [tauto|]. lia.
Qed.

Lemma sampled_padding c ss ds A F ttol stol padding align r :
  reproject_linear c ss ds A F ttol stol padding align = Ok r ->
  paste_ok r = false ->
  (0 <= fst ss)%Z -> (0 <= snd ss)%Z -> (0 <= fst ds)%Z -> (0 <= snd ds)%Z ->
  (0 <= pad_default padding)%Z -> align_ok (norm_align align) ->
  inverse_of F A ->
  forall dy dx, (0 <= dy < fst ds)%Z -> (0 <= dx < snd ds)%Z ->
    let p := aff_apply A (pix_center dy dx) in
    0 <= fst p -> fst p < inject_Z (snd ss) -> 0 <= snd p -> snd p < inject_Z (fst ss) ->
    forall jy jx,
      (Qfloor (snd p) - pad_default padding <= jy <= Qfloor (snd p) + pad_default padding)%Z ->
      (Qfloor (fst p) - pad_default padding <= jx <= Qfloor (fst p) + pad_default padding)%Z ->
      (0 <= jy < fst ss)%Z -> (0 <= jx < snd ss)%Z ->
      in_roi (roi_src r) jy jx.
Proof.
  intros Hr Hpaste S1 S2 D1 D2 Hpad Hal Hinv dy dx Hdy Hdx p Px0 Px1 Py0 Py1 jy jx Jy Jx Ry Rx.
  destruct (reproject_linear_cases _ _ _ _ _ _ _ _ _ _ Hr) as (sx & sy & _ & _ & _ & _ & [[_ Hroi] | [Hp _]]);
    [|congruence].
  destruct (inverse_rows F A Hinv) as [R1 R2].
  assert (Cx0 : 0 < inject_Z dx + (1#2)).
  { assert (0 <= inject_Z dx) by (change 0 with (inject_Z 0); rewrite <- Zle_Qle; lia). lra. }
  assert (Cy0 : 0 < inject_Z dy + (1#2)).
  { assert (0 <= inject_Z dy) by (change 0 with (inject_Z 0); rewrite <- Zle_Qle; lia). lra. }
  assert (Cx1 : inject_Z dx + (1#2) < inject_Z (snd ds)).
  { assert (inject_Z dx + 1 <= inject_Z (snd ds)).
    { assert (E : inject_Z dx + 1 == inject_Z (dx + 1)) by (rewrite inject_Z_plus; reflexivity).
      rewrite E, <- Zle_Qle. lia. }
    lra. }
  assert (Cy1 : inject_Z dy + (1#2) < inject_Z (fst ds)).
  { assert (inject_Z dy + 1 <= inject_Z (fst ds)).
    { assert (E : inject_Z dy + 1 == inject_Z (dy + 1)) by (rewrite inject_Z_plus; reflexivity).
      rewrite E, <- Zle_Qle. lia. }
    lra. }
  destruct (linear_env_src A (fst ds) (snd ds) 0 _ _ (Z.le_refl 0) Cx0 Cx1 Cy0 Cy1 R1 R2) as [E1 E2].
  fold (pix_center dy dx) in E1, E2. fold p in E1, E2.
  pose proof (env_has_pad _ _ jx (pad_default padding) E1 Jx) as E1'.
  pose proof (env_has_pad _ _ jy (pad_default padding) E2 Jy) as E2'.
  pose proof (roi_from_points_env _ (fst ss) (snd ss) (pad_default padding) (norm_align align)
                jy jx S1 S2 Hpad Hal E1' E2' Rx Ry) as Is.
  pose proof (roi_from_points_env _ (fst ss) (snd ss) (pad_default padding) None
                jy jx S1 S2 Hpad I E1' E2' Rx Ry) as I0.
  rewrite relative_rois_eq in Hroi. cbv zeta in Hroi.
  destruct (src_region_cases (map (aff_pt A) (boundary_pts (0%Z, fst ds, (0%Z, snd ds)) 2))
                             (fst ss) (snd ss) (pad_default padding) (norm_align align)) as [[C _] | [_ C]].
  { rewrite (in_roi_nonempty _ _ _ I0) in C. discriminate. }
  rewrite C in Hroi.
  destruct (roi_empty _) in Hroi; injection Hroi as -> _; exact Is.
Qed.
