(** Proofs about Model/Overlap.v: the per-axis overlap arithmetic (C03 core). *)
From Coq Require Import ZArith QArith Qround Qabs List Bool Lia Lqa.
From OG Require Import Base.Result Base.QZ Model.Roi Model.Overlap.
Import ListNotations.
Open Scope Q_scope.

Lemma Qltb_true x y : Qltb x y = true <-> x < y.
Proof.
  unfold Qltb. rewrite negb_true_iff. apply Qle_bool_false.
Qed.

Lemma Qltb_false x y : Qltb x y = false <-> y <= x.
Proof.
  unfold Qltb. rewrite negb_false_iff. apply Qle_bool_true.
Qed.

Lemma inject_Z_half_lt (a b : Z) : inject_Z a < inject_Z b + 1 -> (a <= b)%Z.
Proof.
  intros H. assert (E : inject_Z b + 1 == inject_Z (b + 1)) by (rewrite inject_Z_plus; reflexivity).
  rewrite E in H. rewrite <- Zlt_Qlt in H. lia.
Qed.

(** ** the positive-scale core of compute_axis_overlap *)
Lemma axis_core_eq Ns Nd s t :
  axis_core Ns Nd s t =
  (let u := 1 / s in
   let in_s := if Qltb t 0 then 0%Z else Z.min (Qfloor t) Ns in
   let in_d := if Qltb t 0 then Z.min (Qfloor (- t * u)) Nd else 0%Z in
   let a := Qceiling (inject_Z Nd * s + t) in
   let out_s := if (a <=? Ns)%Z then Z.max a 0 else Ns in
   let out_d := if (a <=? Ns)%Z then Nd else Z.max 0 (Qceiling (inject_Z Ns * u + - t * u)) in
   (in_s, out_s, in_d, out_d)).
Proof.
  unfold axis_core. destruct (Qltb t 0); destruct (_ <=? _)%Z; reflexivity.
Qed.

Lemma u_pos s : 0 < s -> 0 < 1 / s.
Proof. intros. apply Qlt_shift_div_l; lra. Qed.
Lemma su_one s : 0 < s -> s * (1 / s) == 1.
Proof. intros. field. lra. Qed.

(* facts about the four numbers, in terms of Q inequalities *)
Lemma core_facts Ns Nd s t :
  (0 <= Ns)%Z -> (0 <= Nd)%Z -> 0 < s ->
  let u := 1 / s in
  let '(in_s, out_s, in_d, out_d) := axis_core Ns Nd s t in
  (0 <= in_s <= out_s)%Z /\ (out_s <= Ns)%Z /\ (0 <= in_d <= out_d)%Z /\ (out_d <= Nd)%Z.
Proof.
  intros HNs HNd Hs u.
  rewrite axis_core_eq. cbv zeta. fold u.
  pose proof (u_pos s Hs) as Hu. pose proof (su_one s Hs) as Hsu. fold u in Hu, Hsu.
  assert (HNsq : 0 <= inject_Z Ns) by (rewrite Zle_Qle in HNs; exact HNs).
  assert (HNdq : 0 <= inject_Z Nd) by (rewrite Zle_Qle in HNd; exact HNd).
  set (a := Qceiling (inject_Z Nd * s + t)).
  set (c2 := Qceiling (inject_Z Ns * u + - t * u)).
  set (ft := Qfloor t). set (fu := Qfloor (- t * u)).
  assert (Ha : inject_Z Nd * s + t <= inject_Z a) by apply Qle_ceiling.
  assert (Hc2 : inject_Z Ns * u + - t * u <= inject_Z c2) by apply Qle_ceiling.
  assert (Hft : inject_Z ft <= t) by apply Qfloor_le.
  assert (Hfu : inject_Z fu <= - t * u) by apply Qfloor_le.
  destruct (Qltb t 0) eqn:Et; [apply Qltb_true in Et | apply Qltb_false in Et];
  (destruct (a <=? Ns)%Z eqn:Ea; [apply Z.leb_le in Ea | apply Z.leb_gt in Ea]).
  - assert (0 <= fu)%Z by (apply Qfloor_ge_iff; change (inject_Z 0) with 0; timeout 20 nra). lia.
  - assert (0 <= fu)%Z by (apply Qfloor_ge_iff; change (inject_Z 0) with 0; timeout 20 nra).
    assert (fu <= c2)%Z.
    { rewrite Zle_Qle. timeout 20 nra. }
    assert (c2 <= Nd)%Z.
    { apply Qceiling_le_iff. apply Qceiling_gt_iff in Ea. timeout 20 nra. }
    lia.
  - assert (0 <= ft)%Z by (apply Qfloor_ge_iff; exact Et).
    assert (ft <= a)%Z by (rewrite Zle_Qle; timeout 20 nra).
    lia.
  - assert (0 <= ft)%Z by (apply Qfloor_ge_iff; exact Et).
    assert (c2 <= Nd)%Z.
    { apply Qceiling_le_iff. apply Qceiling_gt_iff in Ea. timeout 20 nra. }
    lia.
Qed.

Lemma Zlt_from_half (a d : Z) : inject_Z a <= inject_Z d + (1#2) -> (a <= d)%Z.
Proof.
  intros H. apply inject_Z_half_lt. lra.
Qed.

Lemma Zgt_from_half (a d : Z) : inject_Z d + (1#2) <= inject_Z a -> (d < a)%Z.
Proof.
  intros H. rewrite Zlt_Qlt. lra.
Qed.

Lemma core_incl Ns Nd s t d :
  (0 <= Ns)%Z -> (0 <= Nd)%Z -> 0 < s -> (0 <= d < Nd)%Z ->
  let x := s * (inject_Z d + (1#2)) + t in
  let '(in_s, out_s, in_d, out_d) := axis_core Ns Nd s t in
  (0 <= x -> x <= inject_Z Ns -> (in_d <= d < out_d)%Z) /\
  (0 <= x -> x < inject_Z Ns -> inject_Z in_s <= x /\ x < inject_Z out_s) /\
  (0 < x -> x <= inject_Z Ns -> inject_Z in_s < x /\ x <= inject_Z out_s).
Proof.
  intros HNs HNd Hs Hd x.
  rewrite axis_core_eq. cbv zeta. set (u := 1 / s).
  pose proof (u_pos s Hs) as Hu. pose proof (su_one s Hs) as Hsu. fold u in Hu, Hsu.
  assert (HNsq : 0 <= inject_Z Ns) by (rewrite Zle_Qle in HNs; exact HNs).
  assert (Hd0 : 0 <= inject_Z d) by (change 0 with (inject_Z 0); rewrite <- Zle_Qle; lia).
  assert (Hd1 : inject_Z d + 1 <= inject_Z Nd).
  { assert (E : inject_Z d + 1 == inject_Z (d + 1)) by (rewrite inject_Z_plus; reflexivity).
    rewrite E. rewrite <- Zle_Qle. lia. }
  set (a := Qceiling (inject_Z Nd * s + t)).
  set (c2 := Qceiling (inject_Z Ns * u + - t * u)).
  set (ft := Qfloor t). set (fu := Qfloor (- t * u)).
  assert (Ha : inject_Z Nd * s + t <= inject_Z a) by apply Qle_ceiling.
  assert (Hc2 : inject_Z Ns * u + - t * u <= inject_Z c2) by apply Qle_ceiling.
  assert (Hft : inject_Z ft <= t) by apply Qfloor_le.
  assert (Hfu : inject_Z fu <= - t * u) by apply Qfloor_le.
  set (c := inject_Z d + (1#2)) in *.
  assert (Hc : 0 < c) by (unfold c; lra).
  assert (Hxc : (x - t) * u == c).
  { unfold x. transitivity (c * (s * u)); [ring | rewrite Hsu; ring]. }
  assert (Hxt : t < x) by (unfold x; timeout 20 nra).
  assert (HxN : x < inject_Z Nd * s + t) by (unfold x, c; timeout 20 nra).
  assert (Hcd : c == inject_Z d + (1#2)) by reflexivity.
  clearbody x c.
  assert (F1 : 0 <= x -> (fu <= d)%Z).
  { intros H0. apply Zlt_from_half. rewrite <- Hcd, <- Hxc. timeout 20 nra. }
  assert (F2 : x <= inject_Z Ns -> (d < c2)%Z).
  { intros H0. apply Zgt_from_half. rewrite <- Hcd, <- Hxc. timeout 20 nra. }
  assert (F3 : x < inject_Z (Z.max a 0)).
  { eapply Qlt_le_trans; [exact HxN|]. eapply Qle_trans; [exact Ha|]. rewrite <- Zle_Qle. lia. }
  assert (F4 : inject_Z (Z.min ft Ns) < x).
  { eapply Qle_lt_trans; [|exact Hxt]. eapply Qle_trans; [|exact Hft]. rewrite <- Zle_Qle. lia. }
  destruct (Qltb t 0) eqn:Et; [apply Qltb_true in Et | apply Qltb_false in Et];
  (destruct (a <=? Ns)%Z eqn:Ea; [apply Z.leb_le in Ea | apply Z.leb_gt in Ea]).
  all: repeat split; intros.
  all: try (change (inject_Z 0) with 0).
  all: try lra.
  all: try (specialize (F1 ltac:(lra))); try (specialize (F2 ltac:(lra))).
  all: try lia.
Qed.

Lemma core_disjoint Ns Nd s t :
  (0 <= Ns)%Z -> (0 <= Nd)%Z -> 0 < s ->
  inject_Z Nd * s + t <= 0 \/ inject_Z Ns <= t ->
  let '(in_s, out_s, in_d, out_d) := axis_core Ns Nd s t in
  out_s = in_s /\ out_d = in_d.
Proof.
  intros HNs HNd Hs Hdis.
  rewrite axis_core_eq. cbv zeta. set (u := 1 / s).
  pose proof (u_pos s Hs) as Hu. pose proof (su_one s Hs) as Hsu. fold u in Hu, Hsu.
  assert (HNsq : 0 <= inject_Z Ns) by (rewrite Zle_Qle in HNs; exact HNs).
  assert (HNdq : 0 <= inject_Z Nd) by (rewrite Zle_Qle in HNd; exact HNd).
  set (a := Qceiling (inject_Z Nd * s + t)).
  set (c2 := Qceiling (inject_Z Ns * u + - t * u)).
  set (ft := Qfloor t). set (fu := Qfloor (- t * u)).
  destruct Hdis as [H | H].
  - assert (Ha0 : (a <= 0)%Z) by (apply Qceiling_le_iff; exact H).
    assert (HNdu : inject_Z Nd <= - t * u).
    { assert (E : inject_Z Nd == inject_Z Nd * (s * u)) by (rewrite Hsu; ring). rewrite E. timeout 20 nra. }
    assert (Hfu : (Nd <= fu)%Z) by (apply Qfloor_ge_iff; exact HNdu).
    destruct (Qltb t 0) eqn:Et; [apply Qltb_true in Et | apply Qltb_false in Et].
    + destruct (a <=? Ns)%Z eqn:Ea; [|apply Z.leb_gt in Ea; lia]. split; lia.
    + assert (Nd = 0)%Z.
      { assert (inject_Z Nd <= 0) by (timeout 20 nra). change 0 with (inject_Z 0) in H0. rewrite <- Zle_Qle in H0. lia. }
      assert (Ht0 : t == 0) by (subst Nd; change (inject_Z 0) with 0 in H; lra).
      assert (ft = 0)%Z by (unfold ft; rewrite Ht0; reflexivity).
      destruct (a <=? Ns)%Z eqn:Ea; [|apply Z.leb_gt in Ea; lia]. split; lia.
  - assert (Et : Qltb t 0 = false) by (apply Qltb_false; lra). rewrite Et.
    assert (Hft : (Ns <= ft)%Z) by (apply Qfloor_ge_iff; exact H).
    destruct (a <=? Ns)%Z eqn:Ea; [apply Z.leb_le in Ea | apply Z.leb_gt in Ea].
    + assert (Nd = 0)%Z.
      { apply Qceiling_le_iff in Ea.
        assert (inject_Z Nd * s <= 0) by lra.
        assert (inject_Z Nd <= 0).
        { assert (E : inject_Z Nd == (inject_Z Nd * s) * u) by (rewrite <- Qmult_assoc, Hsu; ring). rewrite E. timeout 20 nra. }
        change 0 with (inject_Z 0) in H1. rewrite <- Zle_Qle in H1. lia. }
      assert (Ns <= a)%Z.
      { rewrite Zle_Qle. eapply Qle_trans; [exact H|]. eapply Qle_trans; [|apply Qle_ceiling]. timeout 20 nra. }
      split; lia.
    + assert (c2 <= 0)%Z.
      { apply Qceiling_le_iff. change (inject_Z 0) with 0. timeout 20 nra. }
      split; lia.
Qed.

(** ** compute_axis_overlap: bounds, inclusion, disjointness (any non-zero scale) *)
Definition in_sl (sl : Z * Z) (i : Z) : Prop := (fst sl <= i < snd sl)%Z.
Definition sl_within (sl : Z * Z) (n : Z) : Prop := (0 <= fst sl <= snd sl)%Z /\ (snd sl <= n)%Z.
Definition sl_empty (sl : Z * Z) : Prop := snd sl = fst sl.

Lemma axis_overlap_err Ns Nd s t : s == 0 -> axis_overlap Ns Nd s t = Err (EAssert 259).
Proof.
  intros H. unfold axis_overlap.
  assert (E1 : Qltb s 0 = false) by (apply Qltb_false; lra). rewrite E1.
  assert (E2 : Qltb 0 s = false) by (apply Qltb_false; lra). rewrite E2. reflexivity.
Qed.

Lemma axis_overlap_spec Ns Nd s t :
  (0 <= Ns)%Z -> (0 <= Nd)%Z -> ~ s == 0 ->
  exists src dst, axis_overlap Ns Nd s t = Ok (src, dst) /\
    sl_within src Ns /\ sl_within dst Nd /\
    (forall d, (0 <= d < Nd)%Z ->
       let x := s * (inject_Z d + (1#2)) + t in
       0 <= x -> x < inject_Z Ns -> in_sl dst d /\ in_sl src (Qfloor x)) /\
    ((t <= 0 /\ inject_Z Nd * s + t <= 0) \/ (inject_Z Ns <= t /\ inject_Z Ns <= inject_Z Nd * s + t) ->
       sl_empty src /\ sl_empty dst).
Proof.
  intros HNs HNd Hs0. unfold axis_overlap.
  destruct (Qltb s 0) eqn:Ef; [apply Qltb_true in Ef | apply Qltb_false in Ef].
  - (* mirrored *)
    assert (Hs1 : 0 < - s) by lra.
    assert (E2 : Qltb 0 (- s) = true) by (apply Qltb_true; exact Hs1). rewrite E2. cbn [negb].
    pose proof (core_facts Ns Nd (- s) (inject_Z Ns - t) HNs HNd Hs1) as HF.
    pose proof (core_disjoint Ns Nd (- s) (inject_Z Ns - t) HNs HNd Hs1) as HD.
    assert (HI := fun d Hd => core_incl Ns Nd (- s) (inject_Z Ns - t) d HNs HNd Hs1 Hd).
    cbv zeta in HF, HD, HI.
    destruct (axis_core Ns Nd (- s) (inject_Z Ns - t)) as [[[in_s out_s] in_d] out_d].
    eexists; eexists; split; [reflexivity|].
    unfold sl_within, in_sl, sl_empty; cbn [fst snd].
    split; [lia|]. split; [lia|]. split.
    + intros d Hd; set (x := s * (inject_Z d + (1 # 2)) + t); intros Hx0 HxN. specialize (HI d Hd).
      destruct HI as (I1 & _ & I3).
      assert (Ex : - s * (inject_Z d + (1 # 2)) + (inject_Z Ns - t) == inject_Z Ns - x) by (unfold x; ring).
      rewrite Ex in I1, I3.
      specialize (I1 ltac:(lra) ltac:(lra)). specialize (I3 ltac:(lra) ltac:(lra)).
      split; [exact I1|].
      split.
      * apply Qfloor_ge_iff. unfold Z.sub. rewrite inject_Z_plus, inject_Z_opp. lra.
      * apply Qfloor_lt_iff. unfold Z.sub. rewrite inject_Z_plus, inject_Z_opp. lra.
    + intros Hdis.
      assert (HD' : out_s = in_s /\ out_d = in_d).
      { apply HD. destruct Hdis as [[H1 H2] | [H1 H2]]; [right | left]; lra. }
      lia.
  - assert (Hs1 : 0 < s) by (destruct (Qlt_le_dec 0 s); [assumption | exfalso; apply Hs0; lra]).
    assert (E2 : Qltb 0 s = true) by (apply Qltb_true; exact Hs1). rewrite E2. cbn [negb].
    pose proof (core_facts Ns Nd s t HNs HNd Hs1) as HF.
    pose proof (core_disjoint Ns Nd s t HNs HNd Hs1) as HD.
    assert (HI := fun d Hd => core_incl Ns Nd s t d HNs HNd Hs1 Hd).
    cbv zeta in HF, HD, HI.
    destruct (axis_core Ns Nd s t) as [[[in_s out_s] in_d] out_d].
    eexists; eexists; split; [reflexivity|].
    unfold sl_within, in_sl, sl_empty; cbn [fst snd].
    split; [lia|]. split; [lia|]. split.
    + intros d Hd; set (x := s * (inject_Z d + (1 # 2)) + t); intros Hx0 HxN. specialize (HI d Hd).
      destruct HI as (I1 & I2 & _). fold x in I1, I2.
      specialize (I1 ltac:(lra) ltac:(lra)). specialize (I2 ltac:(lra) ltac:(lra)).
      split; [exact I1|].
      split; [apply Qfloor_ge_iff | apply Qfloor_lt_iff]; lra.
    + intros Hdis.
      assert (HD' : out_s = in_s /\ out_d = in_d).
      { apply HD. destruct Hdis as [[H1 H2] | [H1 H2]]; [left | right]; lra. }
      lia.
Qed.
