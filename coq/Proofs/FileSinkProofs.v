(** C18 — file sink and limit accessors: proofs. *)
From Coq Require Import ZArith List Bool Lia.
From OG Require Import Base.Result Model.FileSink.
Import ListNotations.
Open Scope Z_scope.

Definition get_nil (parts : list (Z * bytes)) (p : Z) : bytes :=
  match assoc_get p parts with Some b => b | None => [] end.

Lemma assoc_get_del_same k l : assoc_get k (assoc_del k l) = None.
Proof.
  induction l as [|[k' v] r IH]; simpl; auto.
  destruct (Z.eqb_spec k' k); simpl; auto.
  destruct (Z.eqb_spec k' k); auto; congruence.
Qed.

Lemma assoc_get_del_other k k' l : k' <> k -> assoc_get k' (assoc_del k l) = assoc_get k' l.
Proof.
  intros Hne. induction l as [|[k0 v] r IH]; simpl; auto.
  destruct (Z.eqb_spec k0 k); simpl.
  - destruct (Z.eqb_spec k0 k'); auto; congruence.
  - destruct (Z.eqb_spec k0 k'); auto.
Qed.

Lemma assoc_get_set k v l p :
  assoc_get p (assoc_set k v l) = if k =? p then Some v else assoc_get p l.
Proof.
  unfold assoc_set; simpl. destruct (Z.eqb_spec k p); auto.
  apply assoc_get_del_other; auto.
Qed.

Lemma assoc_get_in p l : assoc_get p l <> None <-> In p (map fst l).
Proof.
  induction l as [|[k v] r IH]; simpl.
  - split; [congruence|tauto].
  - destruct (Z.eqb_spec k p).
    + split; [auto|discriminate].
    + rewrite IH. split; [auto|intros [?|?]; [congruence|auto]].
Qed.

Lemma assoc_del_in k l x : In x (assoc_del k l) <-> In x l /\ fst x <> k.
Proof.
  unfold assoc_del. rewrite filter_In. destruct (Z.eqb_spec (fst x) k); simpl; intuition congruence.
Qed.

Definition del_all (ps : list Z) (parts : list (Z * bytes)) : list (Z * bytes) :=
  fold_left (fun l p => assoc_del p l) ps parts.

Lemma del_all_in ps : forall parts x, In x (del_all ps parts) <-> In x parts /\ ~ In (fst x) ps.
Proof.
  induction ps as [|p r IH]; simpl; intros parts x.
  - tauto.
  - unfold del_all in *; simpl. rewrite IH, assoc_del_in. intuition congruence.
Qed.

(** the appending loop of [finalise] without [keep_parts], after the empty-part fix *)
Lemma append_parts_ok ps : forall acc parts,
  NoDup ps -> (forall p, In p ps -> assoc_get p parts <> None) ->
  append_parts false false ps acc parts
  = Ok (acc ++ concat (map (get_nil parts) ps), del_all ps parts).
Proof.
  induction ps as [|p r IH]; simpl; intros acc parts Hnd Hin.
  - rewrite app_nil_r. reflexivity.
  - inversion Hnd as [|? ? Hnotin Hnd']; subst.
    destruct (assoc_get p parts) as [b|] eqn:E.
    2:{ exfalso. apply (Hin p); auto. }
    assert (Hm : map (get_nil (assoc_del p parts)) r = map (get_nil parts) r).
    { apply map_ext_in. intros q Hq. unfold get_nil.
      rewrite assoc_get_del_other; auto. intros ->. contradiction. }
    rewrite IH; auto.
    + rewrite Hm. unfold get_nil at 2. rewrite E. rewrite <- app_assoc. reflexivity.
    + intros q Hq. rewrite assoc_get_del_other; auto. intros ->. contradiction.
Qed.

(** conversely a successful loop saw pairwise distinct, existing parts *)
Lemma append_parts_ok_inv ps : forall acc parts r,
  append_parts false false ps acc parts = Ok r ->
  NoDup ps /\ forall p, In p ps -> assoc_get p parts <> None.
Proof.
  induction ps as [|p r IH]; simpl; intros acc parts res H.
  - split; [constructor|tauto].
  - destruct (assoc_get p parts) as [b|] eqn:E; [|discriminate].
    destruct (IH _ _ _ H) as (Hnd & Hin). split.
    + constructor; auto. intros Hp. apply (Hin p Hp). apply assoc_get_del_same.
    + intros q [->|Hq]; [congruence|].
      specialize (Hin q Hq). intros Eq. apply Hin.
      destruct (Z.eq_dec q p) as [->|Hne]; [apply assoc_get_del_same|].
      rewrite assoc_get_del_other; auto.
Qed.

Definition finalised (f : fs) (ps : list Z) : fs :=
  mkFS (Some (concat (map (get_nil (f_parts f)) ps))) false [].

Theorem sink_finalise_ok f ps :
  ps <> [] -> NoDup ps -> f_dir f = true ->
  (forall p, In p ps <-> In p (map fst (f_parts f))) ->
  sink_finalise false false f ps = Ok (finalised f ps).
Proof.
  intros Hne Hnd Hdir Hkeys. destruct ps as [|p1 rest]; [congruence|].
  unfold sink_finalise.
  assert (Hex : forall p, In p (p1 :: rest) -> assoc_get p (f_parts f) <> None).
  { intros p Hp. apply assoc_get_in. apply Hkeys; auto. }
  destruct (assoc_get p1 (f_parts f)) as [b1|] eqn:E1.
  2:{ exfalso. apply (Hex p1); simpl; auto. }
  inversion Hnd as [|? ? Hnotin Hnd']; subst.
  rewrite append_parts_ok; auto.
  - rewrite Hdir. simpl.
    assert (Hnil : del_all rest (assoc_del p1 (f_parts f)) = []).
    { destruct (del_all rest (assoc_del p1 (f_parts f))) as [|x l] eqn:Ed; auto.
      exfalso. assert (Hx : In x (del_all rest (assoc_del p1 (f_parts f)))) by (rewrite Ed; simpl; auto).
      apply del_all_in in Hx. destruct Hx as (Hx & Hnr). apply assoc_del_in in Hx. destruct Hx as (Hx & Hn1).
      assert (Hk : In (fst x) (map fst (f_parts f))) by (apply in_map; auto).
      apply Hkeys in Hk. destruct Hk; auto. }
    rewrite Hnil. simpl. unfold finalised. simpl. unfold get_nil at 2. rewrite E1.
    assert (Hm : map (get_nil (assoc_del p1 (f_parts f))) rest = map (get_nil (f_parts f)) rest).
    { apply map_ext_in. intros q Hq. unfold get_nil.
      rewrite assoc_get_del_other; auto. intros ->. contradiction. }
    rewrite Hm. reflexivity.
  - intros q Hq. rewrite assoc_get_del_other; [apply Hex; simpl; auto|]. intros ->. contradiction.
Qed.

(** whatever the state: if [finalise] returns at all, the destination is the
    concatenation in the given order and nothing of the parts directory is left *)
Theorem sink_finalise_result f ps f' :
  sink_finalise false false f ps = Ok f' -> f' = finalised f ps.
Proof.
  unfold sink_finalise. destruct ps as [|p1 rest]; [discriminate|].
  destruct (assoc_get p1 (f_parts f)) as [b1|] eqn:E1; [|discriminate].
  destruct (append_parts false false rest b1 (assoc_del p1 (f_parts f))) as [[acc parts']|e] eqn:Ea; [|discriminate].
  destruct (append_parts_ok_inv _ _ _ _ Ea) as (Hnd & Hin).
  rewrite append_parts_ok in Ea; auto. inversion Ea; subst; clear Ea.
  destruct (f_dir f && is_nil (del_all rest (assoc_del p1 (f_parts f)))); [|discriminate].
  intros H; inversion H; subst; clear H. unfold finalised; simpl.
  assert (Hm : map (get_nil (assoc_del p1 (f_parts f))) rest = map (get_nil (f_parts f)) rest).
  { apply map_ext_in. intros q Hq. unfold get_nil.
    destruct (Z.eq_dec q p1) as [->|Hne].
    - exfalso. apply (Hin p1 Hq). apply assoc_get_del_same.
    - rewrite assoc_get_del_other; auto. }
  rewrite Hm. unfold get_nil at 2. rewrite E1. reflexivity.
Qed.

Theorem sink_finalise_empty f : sink_finalise false false f [] = Err (EAssert 71).
Proof. reflexivity. Qed.

(** a part that is listed but has no file, or a file that is not listed, makes
    [finalise] fail (FileNotFoundError / directory not empty) *)
Theorem sink_finalise_missing f ps p :
  In p ps -> ~ In p (map fst (f_parts f)) -> exists e, sink_finalise false false f ps = Err e.
Proof.
  intros Hp Hn. destruct (sink_finalise false false f ps) as [f'|e] eqn:E; eauto.
  exfalso. unfold sink_finalise in E. destruct ps as [|p1 rest]; [discriminate|].
  destruct (assoc_get p1 (f_parts f)) as [b1|] eqn:E1; [|discriminate].
  destruct (append_parts false false rest b1 (assoc_del p1 (f_parts f))) as [[acc parts']|e] eqn:Ea; [|discriminate].
  destruct (append_parts_ok_inv _ _ _ _ Ea) as (Hnd & Hin).
  apply Hn. destruct Hp as [<-|Hp].
  - apply assoc_get_in. congruence.
  - specialize (Hin p Hp). apply assoc_get_in in Hin.
    apply in_map_iff in Hin. destruct Hin as (x & <- & Hx). apply assoc_del_in in Hx.
    apply in_map. tauto.
Qed.

Theorem sink_finalise_leftover f ps p :
  In p (map fst (f_parts f)) -> ~ In p ps -> exists e, sink_finalise false false f ps = Err e.
Proof.
  intros Hp Hn. destruct (sink_finalise false false f ps) as [f'|e] eqn:E; eauto.
  exfalso. unfold sink_finalise in E. destruct ps as [|p1 rest]; [discriminate|].
  destruct (assoc_get p1 (f_parts f)) as [b1|] eqn:E1; [|discriminate].
  destruct (append_parts false false rest b1 (assoc_del p1 (f_parts f))) as [[acc parts']|e] eqn:Ea; [|discriminate].
  destruct (append_parts_ok_inv _ _ _ _ Ea) as (Hnd & Hin).
  rewrite append_parts_ok in Ea; auto. inversion Ea; subst; clear Ea.
  apply in_map_iff in Hp. destruct Hp as (x & <- & Hx).
  assert (Hin' : In x (del_all rest (assoc_del p1 (f_parts f)))).
  { apply del_all_in. split; [apply assoc_del_in; split; auto|]; intros H; apply Hn; simpl; auto. }
  destruct (del_all rest (assoc_del p1 (f_parts f))); [contradiction|].
  rewrite andb_false_r in E. discriminate.
Qed.

(** ** writes followed by finalise *)

Lemma sink_writes_app ws w :
  sink_writes (ws ++ [w]) = sink_write (sink_writes ws) (fst w) (snd w).
Proof. unfold sink_writes. rewrite fold_left_app. reflexivity. Qed.

Lemma sink_writes_get ws p :
  assoc_get p (f_parts (sink_writes ws)) = assoc_get p (rev ws).
Proof.
  induction ws as [|w ws IH] using rev_ind; [reflexivity|].
  destruct w as [k v].
  rewrite sink_writes_app, rev_app_distr. unfold sink_write. cbn [f_parts fst snd].
  rewrite assoc_get_set, IH. reflexivity.
Qed.

Lemma sink_writes_keys ws p :
  In p (map fst (f_parts (sink_writes ws))) <-> In p (map fst ws).
Proof.
  rewrite <- assoc_get_in, sink_writes_get, assoc_get_in, map_rev, <- in_rev. tauto.
Qed.

Lemma sink_writes_dir ws : ws <> [] -> f_dir (sink_writes ws) = true.
Proof.
  destruct ws as [|w ws] using rev_ind; [congruence|]. intros _.
  rewrite sink_writes_app. reflexivity.
Qed.

Theorem sink_roundtrip ws ps :
  ps <> [] -> NoDup ps -> (forall p, In p ps <-> In p (map fst ws)) ->
  sink_finalise false false (sink_writes ws) ps
  = Ok (mkFS (Some (concat (map (last_write ws) ps))) false []).
Proof.
  intros Hne Hnd Hkeys.
  assert (Hws : ws <> []).
  { destruct ps as [|p r]; [congruence|]. intros ->. apply (Hkeys p). simpl; auto. }
  rewrite sink_finalise_ok; auto.
  - unfold finalised.
    assert (Hm : map (get_nil (f_parts (sink_writes ws))) ps = map (last_write ws) ps).
    { apply map_ext. intros p. unfold get_nil, last_write. rewrite sink_writes_get. reflexivity. }
    rewrite Hm. reflexivity.
  - apply sink_writes_dir; auto.
  - intros p. rewrite sink_writes_keys. auto.
Qed.

(** before the fix an empty part (other than the first) broke [finalise] *)
Theorem sink_old_empty_part_refuted :
  exists ws ps, ps <> [] /\ NoDup ps /\ (forall p, In p ps <-> In p (map fst ws)) /\
    sink_finalise true false (sink_writes ws) ps = Err EValue.
Proof.
  exists [(1, [97]); (2, [])], [1; 2]. repeat split; try discriminate.
  - repeat constructor; simpl; intuition congruence.
  - simpl; tauto.
  - simpl; tauto.
Qed.

(* ---------------------------------------------------------------------- *)
(** * Limits *)

Lemma lkey_eqb_spec a b : reflect (a = b) (lkey_eqb a b).
Proof.
  destruct a, b; simpl; try (constructor; congruence).
  destruct (Z.eqb_spec n n0); constructor; congruence.
Qed.

(** [v] is what the caller configured for key [k], [d] being the documented default *)
Definition configured (l : limits) (k : lkey) (d v : Z) : Prop :=
  In (k, v) l \/ (~ In k (map fst l) /\ v = d).

Lemma lim_get_configured l k d v :
  NoDup (map fst l) -> configured l k d v -> lim_get k l d = v.
Proof.
  intros Hnd [Hin|(Hn & ->)].
  - induction l as [|[k' v'] r IH]; simpl in *; [contradiction|].
    inversion Hnd as [|? ? Hnot Hnd']; subst.
    destruct (lkey_eqb_spec k' k) as [->|Hne].
    + destruct Hin as [E|Hin]; [congruence|].
      exfalso. apply Hnot. change k with (fst (k, v)). apply in_map; auto.
    + destruct Hin as [E|Hin]; [congruence|auto].
  - induction l as [|[k' v'] r IH]; simpl in *; auto.
    inversion Hnd; subst.
    destruct (lkey_eqb_spec k' k) as [->|Hne]; [tauto|]. apply IH; auto.
Qed.

Theorem fs_limits_configured l a b c d :
  NoDup (map fst l) ->
  configured l LkMinWrite 4096 a -> configured l LkMaxWrite (5 * 2 ^ 30) b ->
  configured l LkMinPart 1 c -> configured l LkMaxPart 10000 d ->
  fs_min_write_sz l = a /\ fs_max_write_sz l = b /\ fs_min_part l = c /\ fs_max_part l = d.
Proof.
  intros Hnd Ha Hb Hc Hd. unfold fs_min_write_sz, fs_max_write_sz, fs_min_part, fs_max_part.
  repeat split; apply lim_get_configured; auto.
Qed.

Theorem fs_limits_max_above_min l a b c d :
  NoDup (map fst l) ->
  configured l LkMinWrite 4096 a -> configured l LkMaxWrite (5 * 2 ^ 30) b ->
  configured l LkMinPart 1 c -> configured l LkMaxPart 10000 d ->
  (a < b -> fs_min_write_sz l < fs_max_write_sz l) /\ (c < d -> fs_min_part l < fs_max_part l).
Proof.
  intros Hnd Ha Hb Hc Hd.
  destruct (fs_limits_configured l a b c d Hnd Ha Hb Hc Hd) as (-> & -> & -> & ->). auto.
Qed.

Theorem fs_limits_defaults :
  fs_min_write_sz [] = 4096 /\ fs_max_write_sz [] = 5 * 2 ^ 30 /\ fs_min_part [] = 1 /\ fs_max_part [] = 10000 /\
  fs_min_write_sz [] < fs_max_write_sz [] /\ fs_min_part [] < fs_max_part [].
Proof. vm_compute. repeat split; reflexivity. Qed.

Theorem fs_limits_old_refuted :
  exists l a b c d, NoDup (map fst l) /\
    configured l LkMinWrite 4096 a /\ configured l LkMaxWrite (5 * 2 ^ 30) b /\
    configured l LkMinPart 1 c /\ configured l LkMaxPart 10000 d /\ a < b /\ c < d /\
    fs_max_write_sz_old l <> b /\ ~ (fs_min_write_sz l < fs_max_write_sz_old l) /\
    fs_max_part_old l <> d /\ ~ (fs_min_part l < fs_max_part_old l).
Proof.
  exists [(LkMinWrite, 100); (LkMaxWrite, 200); (LkMinPart, 2); (LkMaxPart, 50)], 100, 200, 2, 50.
  unfold configured; simpl.
  repeat split; try (left; tauto); try lia; try (vm_compute; congruence).
  repeat constructor; simpl; intuition congruence.
Qed.

Theorem s3_limits :
  s3_min_write_sz = 5242880 /\ s3_max_write_sz = 5368709120 /\ s3_min_part = 1 /\ s3_max_part = 10000 /\
  s3_min_write_sz < s3_max_write_sz /\ s3_min_part < s3_max_part.
Proof. vm_compute. repeat split; reflexivity. Qed.
