(** One-axis grid snapping (math._snap_edge_pos, _snap_edge, snap_grid):
    covering, alignment and minimality, for either sign of the resolution. *)
From Coq Require Import ZArith QArith Qround Qabs List Bool Lia Lqa.
From OG Require Import Base.Result Base.QZ Model.Roi Model.MathH Proofs.MathHBasics.
Open Scope Q_scope.

Lemma inject_Z_sub a b : inject_Z (a - b) == inject_Z a - inject_Z b.
Proof. unfold Z.sub. rewrite inject_Z_plus, inject_Z_opp. ring. Qed.

(** floor / ceiling of a maybe_int'ed value, in pixel units *)
Lemma floor_maybe_int u tol : 0 <= tol ->
  exists k, k = inject_Z (Qfloor (maybe_int u tol)) /\
            k <= u + tol /\ u - k < 1 /\ (k <= u \/ k < u + tol).
Proof.
  intros Ht. destruct (maybe_int_cases u tol) as [(n & _ & -> & Ha & H1 & H2)|(_ & -> & _)].
  - rewrite Qfloor_Z. exists (inject_Z n). split; [reflexivity|].
    destruct (Qabs_case_lra (u - inject_Z n)) as [(?&E)|(?&E)]; rewrite E in Ha;
      repeat split; first [lra | right; lra].
  - destruct (Qfloor_spec u) as (f & Ef & F1 & F2). exists f. split; [exact Ef|].
    repeat split; first [lra | left; lra].
Qed.

Lemma ceil_maybe_int u tol : 0 <= tol ->
  exists c, c = inject_Z (Qceiling (maybe_int u tol)) /\
            u - tol <= c /\ c - u < 1 /\ (u <= c \/ u - tol < c).
Proof.
  intros Ht. destruct (maybe_int_cases u tol) as [(n & _ & -> & Ha & H1 & H2)|(_ & -> & _)].
  - rewrite Qceiling_Z. exists (inject_Z n). split; [reflexivity|].
    destruct (Qabs_case_lra (u - inject_Z n)) as [(?&E)|(?&E)]; rewrite E in Ha;
      repeat split; first [lra | right; lra].
  - destruct (Qceiling_spec u) as (c & Ec & C1 & C2). exists c. split; [exact Ec|].
    repeat split; first [lra | left; lra].
Qed.

(** the arithmetic core of _snap_edge_pos, in pixel units *)
Lemma snap_pos_units u0 u1 tol : u0 <= u1 -> 0 <= tol ->
  exists k n,
    k = inject_Z (Qfloor (maybe_int u0 tol)) /\
    n = inject_Z (Z.max 1 (Qceiling (maybe_int u1 tol) - Qfloor (maybe_int u0 tol))) /\
    1 <= n /\
    k <= u0 + tol /\ u0 - k < 1 /\
    u1 - tol <= k + n /\
    k + n - u1 <= 1 + tol /\
    (u0 < u1 -> k + n - u1 < 1 + tol) /\
    (1 <= u1 - u0 -> tol < 1 -> k + n - u1 < 1).
Proof.
  intros Hu Ht.
  destruct (floor_maybe_int u0 tol Ht) as (k & Ek & K1 & K2 & K3).
  destruct (ceil_maybe_int u1 tol Ht) as (c & Ec & C1 & C2 & C3).
  exists k. eexists. split; [exact Ek|]. split; [reflexivity|].
  destruct (Z.max_spec 1 (Qceiling (maybe_int u1 tol) - Qfloor (maybe_int u0 tol))) as [[L ->]|[L ->]].
  - rewrite inject_Z_sub, <- Ek, <- Ec.
    assert (L' : 1 < c - k).
    { rewrite Zlt_Qlt, inject_Z_sub, <- Ek, <- Ec in L. exact L. }
    repeat split; try lra.
  - assert (L' : c - k <= 1).
    { rewrite Zle_Qle, inject_Z_sub, <- Ek, <- Ec in L. exact L. }
    rewrite inj1. split; [lra|]. split; [lra|]. split; [lra|]. split; [lra|]. split; [lra|].
    split; [intros S; destruct K3; lra | intros S1 S2; lra].
Qed.

(** _snap_edge_pos *)
Lemma snap_edge_pos_spec x0 x1 rs tol : 0 < rs -> x0 <= x1 -> 0 <= tol ->
  exists tx nx k,
    snap_edge_pos x0 x1 rs tol = Ok (tx, nx) /\
    (1 <= nx)%Z /\
    tx == inject_Z k * rs /\
    tx <= x0 + tol * rs /\ x0 - tx < rs /\
    x1 - tol * rs <= tx + inject_Z nx * rs /\
    tx + inject_Z nx * rs - x1 <= (1 + tol) * rs /\
    (x0 < x1 -> tx + inject_Z nx * rs - x1 < (1 + tol) * rs) /\
    (rs <= x1 - x0 -> tol < 1 -> tx + inject_Z nx * rs - x1 < rs).
Proof.
  intros Hr Hx Ht. unfold snap_edge_pos.
  assert (E1 : Qltb 0 rs = true) by (apply Qltb_true; exact Hr). rewrite E1.
  assert (E2 : Qle_bool x0 x1 = true) by (apply Qle_bool_iff; exact Hx). rewrite E2. simpl.
  assert (U0 : x0 == (x0 / rs) * rs) by (field; lra).
  assert (U1 : x1 == (x1 / rs) * rs) by (field; lra).
  assert (Hu : x0 / rs <= x1 / rs).
  { apply Qle_shift_div_l; [exact Hr|]. rewrite <- U0. exact Hx. }
  destruct (snap_pos_units (x0 / rs) (x1 / rs) tol Hu Ht) as (k & n & Ek & En & N1 & K1 & K2 & C1 & X1 & X2 & X3).
  eexists. eexists. exists (Qfloor (maybe_int (x0 / rs) tol)).
  split; [reflexivity|].
  split; [apply Z.le_max_l|].
  split; [reflexivity|].
  rewrite <- Ek, <- En.
  set (u0 := x0 / rs) in *. set (u1 := x1 / rs) in *.
  assert (P1 : 0 <= (u0 + tol - k) * rs) by (apply Qmult_le_0_compat; lra).
  assert (P2 : 0 < (1 - (u0 - k)) * rs) by (apply Qmult_lt_0_compat; lra).
  assert (P3 : 0 <= (k + n - (u1 - tol)) * rs) by (apply Qmult_le_0_compat; lra).
  assert (P4 : 0 <= (1 + tol - (k + n - u1)) * rs) by (apply Qmult_le_0_compat; lra).
  split; [lra|]. split; [lra|]. split; [lra|]. split; [lra|]. split.
  - intros S.
    assert (Su : u0 < u1).
    { apply Qlt_shift_div_l; [exact Hr|]. fold u0. rewrite <- U0. exact S. }
    assert (P5 : 0 < (1 + tol - (k + n - u1)) * rs) by (apply Qmult_lt_0_compat; [specialize (X2 Su)|]; lra).
    lra.
  - intros S T.
    assert (Su : 1 <= u1 - u0).
    { apply Qnot_lt_le. intros C.
      assert (P : 0 < (1 - (u1 - u0)) * rs) by (apply Qmult_lt_0_compat; lra). lra. }
    assert (P6 : 0 < (1 - (k + n - u1)) * rs) by (apply Qmult_lt_0_compat; [specialize (X3 Su T)|]; lra).
    lra.
Qed.

Lemma snap_edge_pos_err_res x0 x1 rs tol : rs <= 0 -> snap_edge_pos x0 x1 rs tol = Err (EAssert 173).
Proof.
  intros H. unfold snap_edge_pos. assert (E : Qltb 0 rs = false) by (apply Qltb_false; exact H).
  rewrite E. reflexivity.
Qed.

(** _snap_edge, positive resolution: [tx] is the low edge *)
Lemma snap_edge_pos_res x0 x1 rs tol : 0 < rs -> x0 <= x1 -> 0 <= tol ->
  exists tx nx k,
    snap_edge x0 x1 rs tol = Ok (tx, nx) /\
    (1 <= nx)%Z /\
    tx == inject_Z k * rs /\
    tx <= x0 + tol * rs /\ x0 - tx < rs /\
    x1 - tol * rs <= tx + inject_Z nx * rs /\
    tx + inject_Z nx * rs - x1 <= (1 + tol) * rs /\
    (x0 < x1 -> tx + inject_Z nx * rs - x1 < (1 + tol) * rs) /\
    (rs <= x1 - x0 -> tol < 1 -> tx + inject_Z nx * rs - x1 < rs).
Proof.
  intros Hr Hx Ht. unfold snap_edge.
  assert (E2 : Qle_bool x0 x1 = true) by (apply Qle_bool_iff; exact Hx). rewrite E2.
  assert (E1 : Qltb 0 rs = true) by (apply Qltb_true; exact Hr). rewrite E1. simpl.
  apply snap_edge_pos_spec; assumption.
Qed.

(** _snap_edge, negative resolution: [tx] is the high edge, the grid runs
    downwards to [tx + nx*rs] *)
Lemma snap_edge_neg_res x0 x1 rs tol : rs < 0 -> x0 <= x1 -> 0 <= tol ->
  exists tx nx k,
    snap_edge x0 x1 rs tol = Ok (tx, nx) /\
    (1 <= nx)%Z /\
    tx == inject_Z k * (- rs) /\
    tx + inject_Z nx * rs <= x0 + tol * (- rs) /\ x0 - (tx + inject_Z nx * rs) < - rs /\
    x1 - tol * (- rs) <= tx /\
    tx - x1 <= (1 + tol) * (- rs) /\
    (x0 < x1 -> tx - x1 < (1 + tol) * (- rs)) /\
    (- rs <= x1 - x0 -> tol < 1 -> tx - x1 < - rs).
Proof.
  intros Hr Hx Ht. unfold snap_edge.
  assert (E2 : Qle_bool x0 x1 = true) by (apply Qle_bool_iff; exact Hx). rewrite E2.
  assert (E1 : Qltb 0 rs = false) by (apply Qltb_false; lra). rewrite E1. simpl.
  assert (Hr' : 0 < - rs) by lra.
  destruct (snap_edge_pos_spec x0 x1 (- rs) tol Hr' Hx Ht) as (tx & nx & k & -> & N1 & A & L1 & L2 & C1 & X1 & X2 & X3).
  simpl. exists (tx + inject_Z nx * - rs), nx, (k + nx)%Z.
  split; [reflexivity|]. split; [exact N1|].
  split.
  { rewrite A, inject_Z_plus. ring. }
  split; [lra|]. split; [lra|]. split; [lra|]. split; [lra|]. split.
  - intros S; specialize (X2 S); lra.
  - intros S T; specialize (X3 S T); lra.
Qed.

Lemma snap_edge_err_order x0 x1 rs tol : x1 < x0 -> snap_edge x0 x1 rs tol = Err (EAssert 182).
Proof.
  intros H. unfold snap_edge.
  assert (E : Qle_bool x0 x1 = false) by (apply Qle_bool_false; exact H). rewrite E. reflexivity.
Qed.

Lemma snap_edge_err_zero x0 x1 rs tol : x0 <= x1 -> rs == 0 -> snap_edge x0 x1 rs tol = Err (EAssert 173).
Proof.
  intros Hx H. unfold snap_edge.
  assert (E2 : Qle_bool x0 x1 = true) by (apply Qle_bool_iff; exact Hx). rewrite E2.
  assert (E1 : Qltb 0 rs = false) by (apply Qltb_false; lra). rewrite E1. simpl.
  rewrite snap_edge_pos_err_res by lra. reflexivity.
Qed.

Definition off_ok (o : Q) : Prop := 0 <= o /\ o < 1.

Lemma off_ok_bool o : off_ok o -> negb (Qle_bool 0 o && Qltb o 1) = false.
Proof.
  intros [H1 H2]. apply negb_false_iff. apply andb_true_iff. split.
  - apply Qle_bool_iff. exact H1.
  - apply Qltb_true. exact H2.
Qed.

(** snap_grid, snapping to pixel fraction [o], positive resolution *)
Lemma snap_grid_some_pos x0 x1 rs o tol : 0 < rs -> x0 <= x1 -> off_ok o -> 0 <= tol ->
  exists tx nx k,
    snap_grid x0 x1 rs (Some o) tol = Ok (tx, nx) /\
    (1 <= nx)%Z /\
    tx == (inject_Z k + o) * rs /\
    tx <= x0 + tol * rs /\ x0 - tx < rs /\
    x1 - tol * rs <= tx + inject_Z nx * rs /\
    tx + inject_Z nx * rs - x1 <= (1 + tol) * rs /\
    (x0 < x1 -> tx + inject_Z nx * rs - x1 < (1 + tol) * rs) /\
    (rs <= x1 - x0 -> tol < 1 -> tx + inject_Z nx * rs - x1 < rs).
Proof.
  intros Hr Hx Ho Ht. unfold snap_grid. rewrite (off_ok_bool o Ho).
  assert (Ea : Qabs rs == rs) by (apply Qabs_pos; lra).
  assert (Hx' : x0 - o * Qabs rs <= x1 - o * Qabs rs) by lra.
  destruct (snap_edge_pos_res _ _ rs tol Hr Hx' Ht) as (tx & nx & k & -> & N1 & A & L1 & L2 & C1 & X1 & X2 & X3).
  simpl. exists (tx + o * Qabs rs), nx, k. split; [reflexivity|]. split; [exact N1|].
  rewrite Ea in *. split.
  { rewrite A. ring. }
  split; [lra|]. split; [lra|]. split; [lra|]. split; [lra|]. split.
  - intros S; assert (S' : x0 - o * rs < x1 - o * rs) by lra; specialize (X2 S'); lra.
  - intros S T; assert (S' : rs <= x1 - o * rs - (x0 - o * rs)) by lra; specialize (X3 S' T); lra.
Qed.

(** snap_grid, snapping to pixel fraction [o], negative resolution *)
Lemma snap_grid_some_neg x0 x1 rs o tol : rs < 0 -> x0 <= x1 -> off_ok o -> 0 <= tol ->
  exists tx nx k,
    snap_grid x0 x1 rs (Some o) tol = Ok (tx, nx) /\
    (1 <= nx)%Z /\
    tx == (inject_Z k + o) * (- rs) /\
    tx + inject_Z nx * rs <= x0 + tol * (- rs) /\ x0 - (tx + inject_Z nx * rs) < - rs /\
    x1 - tol * (- rs) <= tx /\
    tx - x1 <= (1 + tol) * (- rs) /\
    (x0 < x1 -> tx - x1 < (1 + tol) * (- rs)) /\
    (- rs <= x1 - x0 -> tol < 1 -> tx - x1 < - rs).
Proof.
  intros Hr Hx Ho Ht. unfold snap_grid. rewrite (off_ok_bool o Ho).
  assert (Ea : Qabs rs == - rs) by (apply Qabs_neg; lra).
  assert (Hx' : x0 - o * Qabs rs <= x1 - o * Qabs rs) by lra.
  destruct (snap_edge_neg_res _ _ rs tol Hr Hx' Ht) as (tx & nx & k & -> & N1 & A & L1 & L2 & C1 & X1 & X2 & X3).
  simpl. exists (tx + o * Qabs rs), nx, k. split; [reflexivity|]. split; [exact N1|].
  rewrite Ea in *. split.
  { rewrite A. ring. }
  split; [lra|]. split; [lra|]. split; [lra|]. split; [lra|]. split.
  - intros S; assert (S' : x0 - o * - rs < x1 - o * - rs) by lra; specialize (X2 S'); lra.
  - intros S T; assert (S' : - rs <= x1 - o * - rs - (x0 - o * - rs)) by lra; specialize (X3 S' T); lra.
Qed.

(** snap_grid without snapping ([off_pix = None]) *)
Lemma ceil_span_units d tol : 0 <= d -> 0 <= tol ->
  exists n, n = inject_Z (Z.max 1 (Qceiling (maybe_int d tol))) /\
            1 <= n /\ d - tol <= n /\ n - d <= 1 /\ (0 < d -> n - d < 1).
Proof.
  intros Hd Ht. destruct (ceil_maybe_int d tol Ht) as (c & Ec & C1 & C2 & C3).
  eexists. split; [reflexivity|].
  destruct (Z.max_spec 1 (Qceiling (maybe_int d tol))) as [[L ->]|[L ->]].
  - rewrite <- Ec. rewrite Zlt_Qlt, <- Ec, inj1 in L. repeat split; try lra.
  - rewrite Zle_Qle, <- Ec, inj1 in L. rewrite inj1. repeat split; try lra.
Qed.

Lemma snap_grid_none_pos x0 x1 rs tol : 0 < rs -> x0 <= x1 -> 0 <= tol ->
  exists nx,
    snap_grid x0 x1 rs None tol = Ok (x0, nx) /\
    (1 <= nx)%Z /\
    x1 - tol * rs <= x0 + inject_Z nx * rs /\
    x0 + inject_Z nx * rs - x1 <= rs /\
    (x0 < x1 -> x0 + inject_Z nx * rs - x1 < rs).
Proof.
  intros Hr Hx Ht. unfold snap_grid.
  assert (E1 : Qltb 0 rs = true) by (apply Qltb_true; exact Hr). rewrite E1.
  eexists. split; [reflexivity|].
  assert (U : x1 - x0 == ((x1 - x0) / rs) * rs) by (field; lra).
  assert (Hd : 0 <= (x1 - x0) / rs) by (apply Qle_shift_div_l; [exact Hr | lra]).
  destruct (ceil_span_units ((x1 - x0) / rs) tol Hd Ht) as (n & En & N1 & C1 & X1 & X2).
  rewrite <- En. set (d := (x1 - x0) / rs) in *.
  split; [apply Z.le_max_l|].
  assert (P1 : 0 <= (n - (d - tol)) * rs) by (apply Qmult_le_0_compat; lra).
  assert (P2 : 0 <= (1 - (n - d)) * rs) by (apply Qmult_le_0_compat; lra).
  repeat split; try lra.
  intros S.
  assert (Sd : 0 < d) by (apply Qlt_shift_div_l; [exact Hr | lra]).
  assert (P3 : 0 < (1 - (n - d)) * rs) by (apply Qmult_lt_0_compat; [specialize (X2 Sd)|]; lra).
  lra.
Qed.

Lemma snap_grid_none_neg x0 x1 rs tol : rs < 0 -> x0 <= x1 -> 0 <= tol ->
  exists nx,
    snap_grid x0 x1 rs None tol = Ok (x1, nx) /\
    (1 <= nx)%Z /\
    x1 + inject_Z nx * rs <= x0 + tol * (- rs) /\
    x0 - (x1 + inject_Z nx * rs) <= - rs /\
    (x0 < x1 -> x0 - (x1 + inject_Z nx * rs) < - rs).
Proof.
  intros Hr Hx Ht. unfold snap_grid.
  assert (E1 : Qltb 0 rs = false) by (apply Qltb_false; lra). rewrite E1.
  assert (E0 : Qeq_bool rs 0 = false).
  { destruct (Qeq_bool rs 0) eqn:E; [|reflexivity]. apply Qeq_bool_iff in E. lra. }
  rewrite E0.
  eexists. split; [reflexivity|].
  assert (U : x1 - x0 == ((x1 - x0) / (- rs)) * (- rs)) by (field; lra).
  assert (Hr' : 0 < - rs) by lra.
  assert (Hd : 0 <= (x1 - x0) / (- rs)) by (apply Qle_shift_div_l; [exact Hr' | lra]).
  destruct (ceil_span_units ((x1 - x0) / (- rs)) tol Hd Ht) as (n & En & N1 & C1 & X1 & X2).
  rewrite Z.max_comm. rewrite <- En. set (d := (x1 - x0) / (- rs)) in *.
  split; [apply Z.le_max_l|].
  assert (P1 : 0 <= (n - (d - tol)) * (- rs)) by (apply Qmult_le_0_compat; lra).
  assert (P2 : 0 <= (1 - (n - d)) * (- rs)) by (apply Qmult_le_0_compat; lra).
  repeat split; try lra.
  intros S.
  assert (Sd : 0 < d) by (apply Qlt_shift_div_l; [exact Hr' | lra]).
  assert (P3 : 0 < (1 - (n - d)) * (- rs)) by (apply Qmult_lt_0_compat; [specialize (X2 Sd)|]; lra).
  lra.
Qed.

(** when snap_grid fails *)
Lemma snap_grid_err_off x0 x1 rs o tol : ~ off_ok o -> snap_grid x0 x1 rs (Some o) tol = Err (EAssert 207).
Proof.
  intros H. unfold snap_grid.
  destruct (Qle_bool 0 o) eqn:E1; [|reflexivity].
  destruct (Qltb o 1) eqn:E2; [|reflexivity].
  exfalso. apply H. split; [apply Qle_bool_iff; exact E1 | apply Qltb_true; exact E2].
Qed.

Lemma snap_grid_err_zero x0 x1 rs o tol : rs == 0 -> exists e, snap_grid x0 x1 rs o tol = Err e.
Proof.
  intros H. unfold snap_grid. destruct o as [o|].
  - destruct (negb (Qle_bool 0 o && Qltb o 1)); [eauto|].
    unfold snap_edge. destruct (Qle_bool (x0 - o * Qabs rs) (x1 - o * Qabs rs)); simpl; [|eauto].
    assert (E1 : Qltb 0 rs = false) by (apply Qltb_false; lra). rewrite E1.
    rewrite snap_edge_pos_err_res by lra. simpl. eauto.
  - assert (E1 : Qltb 0 rs = false) by (apply Qltb_false; lra). rewrite E1.
    assert (E0 : Qeq_bool rs 0 = true) by (apply Qeq_bool_iff; exact H). rewrite E0. eauto.
Qed.

Lemma snap_grid_err_order x0 x1 rs o tol : x1 < x0 -> off_ok o ->
  snap_grid x0 x1 rs (Some o) tol = Err (EAssert 182).
Proof.
  intros H Ho. unfold snap_grid. rewrite (off_ok_bool o Ho).
  rewrite snap_edge_err_order by lra. reflexivity.
Qed.
