(** Minimality of the pixel count chosen by snap_grid: with 0 <= tol <= 1/2 the
    grid cannot start one pixel later, nor end one pixel earlier, and still
    cover the interval up to [tol] pixel.  (At the exact boundary "distance to
    the integer = tol" the code keeps the pixel, hence the non-strict bounds.) *)
From Coq Require Import ZArith QArith Qround Qabs List Bool Lia Lqa.
From OG Require Import Base.Result Base.QZ Model.Roi Model.MathH Proofs.MathHBasics Proofs.MathHSnap.
Open Scope Q_scope.

Lemma floor_maybe_int_max u tol : 0 <= tol -> tol <= 1 # 2 ->
  u + tol <= inject_Z (Qfloor (maybe_int u tol)) + 1.
Proof.
  intros Ht Hh. destruct (maybe_int_cases u tol) as [(n & _ & -> & Ha & H1 & H2)|(_ & -> & Hn)].
  - rewrite Qfloor_Z.
    destruct (Qabs_case_lra (u - inject_Z n)) as [(?&E)|(?&E)]; rewrite E in Ha; lra.
  - destruct (Qfloor_spec u) as (f & Ef & F1 & F2). rewrite <- Ef.
    specialize (Hn (Qfloor u + 1)%Z). rewrite inject_Z_plus, inj1, <- Ef in Hn.
    destruct (Qabs_case_lra (u - (f + 1))) as [(?&E)|(?&E)]; rewrite E in Hn; lra.
Qed.

Lemma ceil_maybe_int_min u tol : 0 <= tol -> tol <= 1 # 2 ->
  inject_Z (Qceiling (maybe_int u tol)) - 1 <= u - tol.
Proof.
  intros Ht Hh. destruct (maybe_int_cases u tol) as [(n & _ & -> & Ha & H1 & H2)|(_ & -> & Hn)].
  - rewrite Qceiling_Z.
    destruct (Qabs_case_lra (u - inject_Z n)) as [(?&E)|(?&E)]; rewrite E in Ha; lra.
  - destruct (Qceiling_spec u) as (c & Ec & C1 & C2). rewrite <- Ec.
    specialize (Hn (Qceiling u - 1)%Z). rewrite inject_Z_sub, inj1, <- Ec in Hn.
    destruct (Qabs_case_lra (u - (c - 1))) as [(?&E)|(?&E)]; rewrite E in Hn; lra.
Qed.

(** _snap_edge_pos *)
Lemma snap_edge_pos_min x0 x1 rs tol tx nx : 0 < rs -> 0 <= tol -> tol <= 1 # 2 ->
  snap_edge_pos x0 x1 rs tol = Ok (tx, nx) ->
  x0 + tol * rs <= tx + rs /\ ((2 <= nx)%Z -> tx + inject_Z nx * rs - rs <= x1 - tol * rs).
Proof.
  intros Hr Ht Hh. unfold snap_edge_pos.
  destruct (negb (Qltb 0 rs)); [discriminate|]. destruct (negb (Qle_bool x0 x1)); [discriminate|].
  intros H. injection H as <- <-.
  pose proof (floor_maybe_int_max (x0 / rs) tol Ht Hh) as K.
  pose proof (ceil_maybe_int_min (x1 / rs) tol Ht Hh) as C.
  assert (U0 : x0 == (x0 / rs) * rs) by (field; lra).
  assert (U1 : x1 == (x1 / rs) * rs) by (field; lra).
  set (u0 := x0 / rs) in *. set (u1 := x1 / rs) in *.
  set (k := Qfloor (maybe_int u0 tol)) in *. set (c := Qceiling (maybe_int u1 tol)) in *.
  split.
  - assert (P : 0 <= (inject_Z k + 1 - (u0 + tol)) * rs) by (apply Qmult_le_0_compat; lra). lra.
  - intros N2. rewrite Z.max_r in N2 |- * by lia. rewrite inject_Z_sub.
    assert (P : 0 <= (u1 - tol - (inject_Z c - 1)) * rs) by (apply Qmult_le_0_compat; lra). lra.
Qed.

(** _snap_edge for either sign, in terms of the low edge [lo] and the extent *)
Lemma snap_edge_min x0 x1 rs tol tx nx : ~ rs == 0 -> 0 <= tol -> tol <= 1 # 2 ->
  snap_edge x0 x1 rs tol = Ok (tx, nx) ->
  let a := Qabs rs in
  let lo := if Qltb 0 rs then tx else tx + inject_Z nx * rs in
  x0 + tol * a <= lo + a /\ ((2 <= nx)%Z -> lo + inject_Z nx * a - a <= x1 - tol * a).
Proof.
  intros Hr Ht Hh. unfold snap_edge. destruct (negb (Qle_bool x0 x1)); [discriminate|].
  destruct (Qltb 0 rs) eqn:B.
  - apply Qltb_true in B. intros H. cbv zeta.
    rewrite (Qabs_pos rs) by lra. exact (snap_edge_pos_min _ _ _ _ _ _ B Ht Hh H).
  - apply Qltb_false in B. assert (N : rs < 0) by (apply Qnot_le_lt; intros C; apply Hr; lra).
    destruct (snap_edge_pos x0 x1 (- rs) tol) as [[tx' nx']|] eqn:E; [|discriminate].
    cbn [bind]. intros H. injection H as <- <-. cbv zeta.
    assert (P : 0 < - rs) by lra.
    destruct (snap_edge_pos_min _ _ _ _ _ _ P Ht Hh E) as [A1 A2].
    rewrite (Qabs_neg rs) by lra. split; [lra | intros N2; specialize (A2 N2); lra].
Qed.

(** snap_grid, snapping to pixel fraction [o] *)
Lemma snap_grid_some_min x0 x1 rs o tol tx nx : ~ rs == 0 -> 0 <= tol -> tol <= 1 # 2 ->
  snap_grid x0 x1 rs (Some o) tol = Ok (tx, nx) ->
  let a := Qabs rs in
  let lo := if Qltb 0 rs then tx else tx + inject_Z nx * rs in
  x0 + tol * a <= lo + a /\ ((2 <= nx)%Z -> lo + inject_Z nx * a - a <= x1 - tol * a).
Proof.
  intros Hr Ht Hh. unfold snap_grid. destruct (negb (Qle_bool 0 o && Qltb o 1)); [discriminate|].
  destruct (snap_edge (x0 - o * Qabs rs) (x1 - o * Qabs rs) rs tol) as [[tx' nx']|] eqn:E; [|discriminate].
  cbn [bind]. intros H. injection H as <- <-.
  pose proof (snap_edge_min _ _ _ _ _ _ Hr Ht Hh E) as M. cbv zeta in M |- *.
  destruct (Qltb 0 rs); destruct M as [M1 M2]; (split; [lra | intros N2; specialize (M2 N2); lra]).
Qed.

(** snap_grid without snapping *)
Lemma snap_grid_none_min x0 x1 rs tol tx nx : ~ rs == 0 -> 0 <= tol -> tol <= 1 # 2 ->
  snap_grid x0 x1 rs None tol = Ok (tx, nx) ->
  (2 <= nx)%Z -> (inject_Z nx - 1) * Qabs rs <= x1 - x0 - tol * Qabs rs.
Proof.
  intros Hr Ht Hh. unfold snap_grid.
  destruct (Qltb 0 rs) eqn:B.
  - apply Qltb_true in B. intros H. injection H as _ <-. intros N2.
    rewrite Z.max_r in N2 |- * by lia. rewrite (Qabs_pos rs) by lra.
    pose proof (ceil_maybe_int_min ((x1 - x0) / rs) tol Ht Hh) as C.
    assert (U : x1 - x0 == ((x1 - x0) / rs) * rs) by (field; lra).
    set (d := (x1 - x0) / rs) in *. set (c := Qceiling (maybe_int d tol)) in *.
    assert (P : 0 <= (d - tol - (inject_Z c - 1)) * rs) by (apply Qmult_le_0_compat; lra). lra.
  - apply Qltb_false in B. assert (N : rs < 0) by (apply Qnot_le_lt; intros C; apply Hr; lra).
    destruct (Qeq_bool rs 0); [discriminate|]. intros H. injection H as _ <-. intros N2.
    rewrite Z.max_l in N2 |- * by lia. rewrite (Qabs_neg rs) by lra.
    pose proof (ceil_maybe_int_min ((x1 - x0) / (- rs)) tol Ht Hh) as C.
    assert (U : x1 - x0 == ((x1 - x0) / (- rs)) * (- rs)) by (field; lra).
    set (d := (x1 - x0) / (- rs)) in *. set (c := Qceiling (maybe_int d tol)) in *.
    assert (P : 0 <= (d - tol - (inject_Z c - 1)) * (- rs)) by (apply Qmult_le_0_compat; lra). lra.
Qed.
