(** Lemmas for property C04, block assembly part: C17's three-way slice
    intersection theorem composed with the partition theorem of TilesProofs. *)
From Coq Require Import ZArith List Bool Lia ZifyBool.
From OG Require Import Base.Result Base.ListSel Model.Roi Model.Tiles Model.Blocks
     Proofs.RoiProofs Proofs.TilesProofs.
Import ListNotations.
Open Scope Z_scope.

(** * From the list statement of C17 to index arithmetic: instantiate the array
    with [0, 1, .., K-1] *)
Definition iotaZ (K : Z) : list Z := map Z.of_nat (seq 0 (Z.to_nat K)).

Lemma len_iota K : 0 <= K -> len (iotaZ K) = K.
Proof. intros. unfold len, iotaZ. rewrite map_length, seq_length. lia. Qed.

Lemma nth_error_iota K k : Z.of_nat k < K -> nth_error (iotaZ K) k = Some (Z.of_nat k).
Proof.
  intros H. unfold iotaZ.
  rewrite (nth_error_nth' _ 0) by (rewrite map_length, seq_length; lia).
  f_equal. change 0 with (Z.of_nat 0). rewrite map_nth. rewrite seq_nth by lia. reflexivity.
Qed.

Lemma nth_error_iota_inv K k v : nth_error (iotaZ K) k = Some v -> v = Z.of_nat k.
Proof.
  intros H. assert (L : (k < length (iotaZ K))%nat) by (apply nth_error_Some; congruence).
  unfold iotaZ in L. rewrite map_length, seq_length in L.
  rewrite nth_error_iota in H by lia. congruence.
Qed.

Lemma iota_sel_eq K s e s' e' : 0 <= s -> 0 <= e <= K -> 0 <= s' -> 0 <= e' ->
  sel (iotaZ K) s e = sel (iotaZ K) s' e' ->
  Z.max 0 (e - s) = Z.max 0 (Z.min e' K - s') /\ (s < e -> s = s').
Proof.
  intros Hs He Hs' He' E. assert (HK : 0 <= K) by lia. split.
  - pose proof (f_equal len E) as L. rewrite !len_sel in L by lia. rewrite len_iota in L by lia. lia.
  - intros Hlt. pose proof (f_equal (fun l => nth_error l 0) E) as N. cbv beta in N.
    rewrite !nth_error_sel in N by lia. rewrite !Nat.add_0_r in N. change (Z.of_nat 0) with 0 in N.
    rewrite !Z.add_0_r in N. destruct (Z.ltb_spec s e); [|lia].
    rewrite nth_error_iota in N by lia.
    destruct (Z.ltb_spec s' e'); [|discriminate].
    symmetry in N. apply nth_error_iota_inv in N. lia.
Qed.

Lemma norm_mk_sl a b : 0 <= a -> 0 <= b -> norm_slice_or_error (mk_sl (a, b)) = Ok (a, b, None).
Proof.
  intros Ha Hb. unfold norm_slice_or_error, mk_sl, fill. cbn [fst snd].
  destruct (Z.ltb_spec b 0); [lia|]. destruct (Z.ltb_spec a 0); [lia|]. reflexivity.
Qed.

(** what the three-way intersection of a tile [t0,t1) with a window [w0,w1) means
    for numpy views into the block (extent t1-t0) and into the output (extent w1-w0) *)
Lemma intersect3_axis t0 t1 w0 w1 : 0 <= t0 <= t1 -> 0 <= w0 <= w1 ->
  exists s' d' ab',
    slice_intersect3 (mk_sl (t0, t1)) (mk_sl (w0, w1)) = Ok (s', d', ab') /\
    let es := eff (t1 - t0) s' in
    let ed := eff (w1 - w0) d' in
    snd es = snd ed /\
    (forall y, inside ed y = true <-> (0 <= y < w1 - w0 /\ t0 <= w0 + y < t1)) /\
    (forall y, inside ed y = true -> fst es + (y - fst ed) = w0 + y - t0).
Proof.
  intros Ht Hw. set (K := t1 + w1 + 1).
  destruct (slice_intersect3_spec (iotaZ K) (mk_sl (t0, t1)) (mk_sl (w0, w1)) t0 t1 None w0 w1 None
              (norm_mk_sl t0 t1 ltac:(lia) ltac:(lia)) (norm_mk_sl w0 w1 ltac:(lia) ltac:(lia))
              ltac:(lia) ltac:(lia))
    as (a' & b' & ab' & E & Ra & Rb & Rc & E1 & E2 & I).
  exists a', b', ab'. split; [exact E|].
  destruct a' as (p, q). destruct b' as (p2, q2). destruct ab' as (c, d). cbn [fst snd] in *.
  rewrite sel_sel in E1, E2 by lia.
  apply iota_sel_eq in E1; try (unfold K; lia). destruct E1 as (L1 & S1).
  apply iota_sel_eq in E2; try (unfold K; lia). destruct E2 as (L2 & S2).
  assert (HK : K = t1 + w1 + 1) by reflexivity. clearbody K.
  assert (HI : c < d -> t0 <= c /\ w0 <= c /\ d <= t1 /\ d <= w1).
  { intros Hcd. pose proof (proj1 (I c) ltac:(clear - Hcd; lia)) as X1.
    pose proof (proj1 (I (d - 1)) ltac:(clear - Hcd; lia)) as X2. clear - X1 X2. lia. }
  assert (HE : d <= c -> forall i, ~ (t0 <= i < t1 /\ w0 <= i < w1)).
  { intros Hdc i Hi. apply I in Hi. lia. }
  unfold eff, inside. cbn [fst snd]. cbv zeta.
  destruct (Z_lt_le_dec c d) as [Hcd | Hdc].
  - destruct (HI Hcd) as (? & ? & ? & ?).
    assert (A1 : Z.min d K = d) by (clear - HK H1 Hw; lia).
    rewrite A1 in L1, L2.
    assert (P1 : t0 + p = c) by (apply S1; clear - L1 Hcd; lia).
    assert (P2 : w0 + p2 = c) by (apply S2; clear - L2 Hcd; lia).
    assert (M1 : Z.min p (t1 - t0) = c - t0) by (clear - P1 Hcd H1; lia).
    assert (M2 : Z.min q (t1 - t0) = d - t0) by (clear - L1 P1 Hcd; lia).
    assert (M3 : Z.min p2 (w1 - w0) = c - w0) by (clear - P2 Hcd H2; lia).
    assert (M4 : Z.min q2 (w1 - w0) = d - w0) by (clear - L2 P2 Hcd; lia).
    rewrite M1, M2, M3, M4. clear L1 L2 S1 S2 M1 M2 M3 M4 HE HI A1.
    replace (Z.max 0 (d - t0 - (c - t0))) with (d - c) by (clear - Hcd; lia).
    replace (Z.max 0 (d - w0 - (c - w0))) with (d - c) by (clear - Hcd; lia).
    split; [reflexivity|]. split.
    + intros y. pose proof (I (w0 + y)) as Iy.
      destruct (Z.leb_spec (c - w0) y); destruct (Z.ltb_spec y (c - w0 + (d - c)));
        cbn [andb]; split; intros; try discriminate; try reflexivity; lia.
    + intros y Hy.
      destruct (Z.leb_spec (c - w0) y); [|discriminate].
      destruct (Z.ltb_spec y (c - w0 + (d - c))); [|discriminate]. lia.
  - assert (A1 : Z.max 0 (Z.min d K - c) = 0) by (clear - Hdc; lia).
    rewrite A1 in L1, L2.
    assert (M1 : Z.min q (t1 - t0) <= Z.min p (t1 - t0)) by (clear - L1 Ra; lia).
    assert (M2 : Z.min q2 (w1 - w0) <= Z.min p2 (w1 - w0)) by (clear - L2 Rb; lia).
    clear L1 L2 S1 S2 HI A1.
    set (mp := Z.min p (t1 - t0)) in *. set (mq := Z.min q (t1 - t0)) in *.
    set (mp2 := Z.min p2 (w1 - w0)) in *. set (mq2 := Z.min q2 (w1 - w0)) in *.
    replace (Z.max 0 (mq - mp)) with 0 by (clear - M1; lia).
    replace (Z.max 0 (mq2 - mp2)) with 0 by (clear - M2; lia).
    split; [reflexivity|]. split.
    + intros y. pose proof (HE Hdc (w0 + y)).
      destruct (Z.leb_spec mp2 y); destruct (Z.ltb_spec y (mp2 + 0));
        cbn [andb]; split; intros; try discriminate; try lia.
    + intros y Hy.
      destruct (Z.leb_spec mp2 y); [|discriminate].
      destruct (Z.ltb_spec y (mp2 + 0)); [|discriminate]. lia.
Qed.

(** * Pasting one block *)
Definition key_eqb (a b : Z * Z) : bool := (fst a =? fst b) && (snd a =? snd b).

Lemma key_eqb_spec a b : reflect (a = b) (key_eqb a b).
Proof.
  unfold key_eqb. destruct a as (a1, a2), b as (b1, b2). cbn [fst snd].
  destruct (Z.eqb_spec a1 b1); destruct (Z.eqb_spec a2 b2); cbn [andb]; constructor; congruence.
Qed.

Section Assemble.
  Context {E V W : Type}.
  Variable cast : V -> W.
  Variable esel : E -> E.
  Variable t : vtiles.
  Variable fill : W.
  Variable w : (Z * Z) * (Z * Z).
  Hypothesis Wt : rt_wf (RVar t).
  Hypothesis Hwy : 0 <= fst (fst w) <= snd (fst w).
  Hypothesis Hwx : 0 <= fst (snd w) <= snd (snd w).

  Let T := RVar t.

  (** a block fits its tile *)
  Definition block_ok (kb : (Z * Z) * arr (E:=E) V) : Prop :=
    in_grid T (fst kb) /\ a_sh (snd kb) = roi_shape2 (tile_region T (fst kb)).

  (** value of the block stored for tile [k] at mosaic pixel (Y, X) *)
  Definition block_at (k : Z * Z) (b : arr (E:=E) V) (e : E) (Y X : Z) : W :=
    cast (a_at b e (Y - By T (fst k)) (X - Bx T (snd k))).

  Lemma paste_block_spec xx k b :
    a_sh xx = roi_shape2 w -> block_ok (k, b) ->
    exists xx', paste_block cast esel t w xx (k, b) = Ok xx' /\ a_sh xx' = a_sh xx /\
      forall e y x, 0 <= y < fst (roi_shape2 w) -> 0 <= x < snd (roi_shape2 w) ->
        let P := (fst (fst w) + y, fst (snd w) + x) in
        (in_roi (tile_region T k) P -> a_at xx' e y x = block_at k b (esel e) (fst P) (snd P)) /\
        (~ in_roi (tile_region T k) P -> a_at xx' e y x = a_at xx e y x).
  Proof.
    intros Hsh (G & Hb). cbn [fst snd] in G, Hb.
    unfold paste_block. cbn [fst snd].
    change (vt_getitem t (int_idx k)) with (rt_getitem T (int_idx k)).
    rewrite rt_index_grid by assumption. cbn [bind].
    pose proof (rt_region_inside T k Wt G) as RI. cbv zeta in RI.
    destruct w as ((wy0, wy1), (wx0, wx1)). cbn [fst snd] in *.
    unfold tile_region in *. cbn [fst snd] in *.
    set (ty0 := By T (fst k)) in *. set (ty1 := By T (fst k + 1)) in *.
    set (tx0 := Bx T (snd k)) in *. set (tx1 := Bx T (snd k + 1)) in *.
    destruct (intersect3_axis ty0 ty1 wy0 wy1 ltac:(lia) ltac:(lia)) as (sy & dy & cy & Ey & Ly & Iy & Oy).
    destruct (intersect3_axis tx0 tx1 wx0 wx1 ltac:(lia) ltac:(lia)) as (sx & dx & cx & Ex & Lx & Ix & Ox).
    unfold roi_intersect3. cbn [fst snd]. rewrite Ey, Ex. cbn [bind].
    unfold np_copyto_view. rewrite Hsh, Hb. unfold roi_shape2. cbn [fst snd].
    cbv zeta in Ly, Lx, Iy, Ix, Oy, Ox.
    rewrite <- Ly, <- Lx, !Z.eqb_refl. cbn [andb].
    eexists; split; [reflexivity|]. cbn [a_sh a_at]. split; [reflexivity|].
    intros e y x Hy Hx. cbv zeta. unfold in_roi, block_at. cbn [fst snd].
    specialize (Iy y). specialize (Ix x). specialize (Oy y). specialize (Ox x).
    destruct (inside (eff (wy1 - wy0) dy) y) eqn:Iny; destruct (inside (eff (wx1 - wx0) dx) x) eqn:Inx;
      cbn [andb]; split; intros HP.
    - f_equal. rewrite Oy, Ox by reflexivity. fold ty0 tx0. f_equal; lia.
    - exfalso. apply HP. destruct Iy as (Iy & _). destruct Ix as (Ix & _).
      specialize (Iy eq_refl). specialize (Ix eq_refl). lia.
    - exfalso. destruct Ix as (_ & Ix). assert (false = true) by (apply Ix; lia). discriminate.
    - reflexivity.
    - exfalso. destruct Iy as (_ & Iy). assert (false = true) by (apply Iy; lia). discriminate.
    - reflexivity.
    - exfalso. destruct Iy as (_ & Iy). assert (false = true) by (apply Iy; lia). discriminate.
    - reflexivity.
  Qed.

  (** * Pasting all blocks *)
  Fixpoint lookup (k : Z * Z) (bl : list ((Z * Z) * arr (E:=E) V)) : option (arr (E:=E) V) :=
    match bl with
    | [] => None
    | kb :: r => if key_eqb (fst kb) k then Some (snd kb) else lookup k r
    end.

  Lemma lookup_none k bl : ~ In k (map fst bl) -> lookup k bl = None.
  Proof.
    induction bl as [|kb r IH]; cbn [lookup map]; intros H; [reflexivity|].
    destruct (key_eqb_spec (fst kb) k) as [Ek | N]; [exfalso; apply H; left; exact Ek|].
    apply IH. intros X; apply H; right; exact X.
  Qed.

  (** the mosaic: the block of the tile holding the pixel if it is present, else fill *)
  Definition mosaic (bl : list ((Z * Z) * arr (E:=E) V)) (e : E) (Y X : Z) : W :=
    match vt_locate t (Y, X) with
    | Ok rc => match lookup rc bl with
               | Some b => block_at rc b e Y X
               | None => fill
               end
    | Err _ => fill
    end.

  Lemma tile_of_cases Y X :
    (exists rc, vt_locate t (Y, X) = Ok rc /\ in_grid T rc /\ in_roi (tile_region T rc) (Y, X) /\
                forall rc', in_grid T rc' -> in_roi (tile_region T rc') (Y, X) -> rc' = rc) \/
    (vt_locate t (Y, X) = Err EIndex /\ forall rc', in_grid T rc' -> ~ in_roi (tile_region T rc') (Y, X)).
  Proof.
    change (vt_locate t (Y, X)) with (rt_locate T (Y, X)).
    destruct (Z_le_gt_dec 0 Y); [destruct (Z_lt_le_dec Y (ax_N (rt_y T)));
      [destruct (Z_le_gt_dec 0 X); [destruct (Z_lt_le_dec X (ax_N (rt_x T)))|]|]|].
    1: { left. apply rt_partition; [assumption | lia | lia]. }
    all: right; split; [apply rt_locate_outside; [assumption | lia]|];
      intros rc' G' (P1 & P2); pose proof (rt_region_inside T rc' Wt G') as RI; cbv zeta in RI;
      cbn [fst snd] in *; lia.
  Qed.

  Lemma paste_all_spec : forall bl xx,
    a_sh xx = roi_shape2 w -> NoDup (map fst bl) -> Forall block_ok bl ->
    exists out, paste_all cast esel t w xx bl = Ok out /\ a_sh out = a_sh xx /\
      forall e y x, 0 <= y < fst (roi_shape2 w) -> 0 <= x < snd (roi_shape2 w) ->
        let Y := fst (fst w) + y in
        let X := fst (snd w) + x in
        a_at out e y x =
          match vt_locate t (Y, X) with
          | Ok rc => match lookup rc bl with
                     | Some b => block_at rc b (esel e) Y X
                     | None => a_at xx e y x
                     end
          | Err _ => a_at xx e y x
          end.
  Proof.
    induction bl as [|(k, b) r IH]; intros xx Hsh ND OK.
    - exists xx. split; [reflexivity|]. split; [reflexivity|].
      intros e y x _ _. cbv zeta. cbn [lookup]. destruct (vt_locate t _); reflexivity.
    - inversion ND as [|? ? Hnotin ND']; subst. inversion OK as [|? ? OKk OK']; subst.
      destruct (paste_block_spec xx k b Hsh OKk) as (xx' & Ep & Sh' & Val).
      cbn [paste_all]. rewrite Ep. cbn [bind].
      destruct (IH xx' ltac:(congruence) ND' OK') as (out & Eo & Sho & Valo).
      exists out. split; [exact Eo|]. split; [congruence|].
      intros e y x Hy Hx. cbv zeta. rewrite (Valo e y x Hy Hx). cbv zeta.
      destruct (Val e y x Hy Hx) as (Vin & Vout). cbn [fst snd] in Vin, Vout.
      set (Y := fst (fst w) + y) in *. set (X := fst (snd w) + x) in *.
      destruct (tile_of_cases Y X) as [(rc & El & G & Pin & Uniq) | (El & Nin)]; rewrite El.
      + cbn [lookup fst snd]. destruct (key_eqb_spec k rc) as [-> | Nk].
        * rewrite lookup_none by exact Hnotin. apply Vin. exact Pin.
        * destruct (lookup rc r); [reflexivity|]. apply Vout.
          intros Pk. apply Nk. apply Uniq; [apply OKk | exact Pk].
      + apply Vout. apply Nin. apply OKk.
  Qed.

  Theorem extract_spec bl :
    NoDup (map fst bl) -> Forall block_ok bl ->
    exists out, extract_yx cast esel t bl fill w = Ok out /\ a_sh out = roi_shape2 w /\
      forall e y x, 0 <= y < fst (roi_shape2 w) -> 0 <= x < snd (roi_shape2 w) ->
        a_at out e y x = mosaic bl (esel e) (fst (fst w) + y) (fst (snd w) + x).
  Proof.
    intros ND OK. unfold extract_yx, np_full.
    assert (Hs : 0 <= fst (roi_shape2 w) /\ 0 <= snd (roi_shape2 w)) by (unfold roi_shape2; cbn [fst snd]; lia).
    destruct (Z.ltb_spec (fst (roi_shape2 w)) 0); [lia|]. destruct (Z.ltb_spec (snd (roi_shape2 w)) 0); [lia|].
    cbn [orb bind].
    destruct (paste_all_spec bl {| a_sh := roi_shape2 w; a_at := fun _ _ _ => fill |} eq_refl ND OK)
      as (out & Eo & Sho & Valo).
    exists out. split; [exact Eo|]. split; [exact Sho|].
    intros e y x Hy Hx. rewrite (Valo e y x Hy Hx). cbv zeta. unfold mosaic. cbn [a_at].
    destruct (vt_locate t _); [|reflexivity]. destruct (lookup _ bl); reflexivity.
  Qed.
End Assemble.

(** * Shape level *)
Lemma sel_app_mid {A} (a b c : list A) : sel (a ++ b ++ c) (len a) (len a + len b) = b.
Proof.
  unfold sel, drop, take, len.
  replace (Z.to_nat (Z.of_nat (length a) + Z.of_nat (length b))) with (length (a ++ b)) by (rewrite app_length; lia).
  rewrite Nat2Z.id, app_assoc, firstn_app, firstn_all.
  replace (length (a ++ b) - length (a ++ b))%nat with 0%nat by lia. cbn [firstn]. rewrite app_nil_r.
  rewrite skipn_app, skipn_all. replace (length a - length a)%nat with 0%nat by lia. reflexivity.
Qed.

Lemma py_slice_pre {A} (a r : list A) : py_slice (a ++ r) None (Some (len a)) = a.
Proof.
  unfold py_slice, py_clamp. pose proof (len_nonneg a). pose proof (len_nonneg r).
  destruct (Z.ltb_spec (len a) 0); [lia|]. rewrite len_app. rewrite Z.min_l by lia.
  pose proof (sel_app_mid (@nil A) a r) as M. cbn [app] in M. exact M.
Qed.

Lemma py_slice_mid {A} (a b c : list A) :
  py_slice (a ++ b ++ c) (Some (len a)) (Some (len a + len b)) = b.
Proof.
  unfold py_slice, py_clamp. pose proof (len_nonneg a). pose proof (len_nonneg b). pose proof (len_nonneg c).
  destruct (Z.ltb_spec (len a) 0); [lia|]. destruct (Z.ltb_spec (len a + len b) 0); [lia|].
  rewrite !len_app. rewrite !Z.min_l by lia. apply sel_app_mid.
Qed.

Lemma py_slice_post {A} (a b c : list A) : py_slice (a ++ b ++ c) (Some (len a + len b)) None = c.
Proof.
  unfold py_slice, py_clamp. pose proof (len_nonneg a). pose proof (len_nonneg b). pose proof (len_nonneg c).
  destruct (Z.ltb_spec (len a + len b) 0); [lia|]. rewrite !len_app. rewrite Z.min_l by lia.
  pose proof (sel_app_mid (a ++ b) c []) as M. rewrite app_nil_r, <- app_assoc, len_app in M.
  replace (len a + (len b + len c)) with (len a + len b + len c) by lia. exact M.
Qed.

Lemma list_eqbZ_refl l : list_eqbZ l l = true.
Proof. induction l; cbn; [reflexivity|]. rewrite Z.eqb_refl. exact IHl. Qed.

Lemma list_eqbZ_eq x : forall y, list_eqbZ x y = true -> x = y.
Proof.
  induction x as [|a x IH]; intros [|b y] H; cbn in H; try discriminate; [reflexivity|].
  apply andb_true_iff in H. destruct H as (H1 & H2). apply Z.eqb_eq in H1. f_equal; auto.
Qed.

(** the shape a well-formed block has *)
Definition block_shape (pre post chy chx : list Z) (k : Z * Z) : list Z :=
  pre ++ [nthZ chy (fst k); nthZ chx (snd k)] ++ post.

Definition key_ok (chy chx : list Z) (k : Z * Z) : Prop :=
  0 <= fst k < len chy /\ 0 <= snd k < len chx.

Lemma np_at_in l i : 0 <= i < len l -> np_at l i = Ok (nthZ l i).
Proof.
  intros H. unfold np_at. destruct (Z.leb_spec (- len l) i); [|lia]. destruct (Z.ltb_spec i (len l)); [|lia].
  destruct (Z.ltb_spec i 0); [lia|]. reflexivity.
Qed.

Lemma verify_step_ok pre post chy chx st k :
  key_ok chy chx k -> (st = None \/ st = Some (len pre + (2 + len post), pre, post)) ->
  verify_step chy chx (len pre) st (k, block_shape pre post chy chx k) =
    Ok (Some (len pre + (2 + len post), pre, post)).
Proof.
  intros (Ky & Kx) Hst. unfold verify_step, block_shape. destruct k as (iy, ix). cbn [fst snd] in *.
  set (mid := [nthZ chy iy; nthZ chx ix]).
  assert (Lm : len mid = 2) by reflexivity.
  rewrite py_slice_pre. rewrite <- Lm at 1. rewrite py_slice_post.
  pose proof (py_slice_mid pre mid post) as PM. rewrite Lm in PM. rewrite PM.
  rewrite !len_app, Lm. pose proof (len_nonneg pre). pose proof (len_nonneg post).
  assert (S1 : (st1 <- match st with
                       | None => if len pre + (2 + len post) <? len pre + 2 then Err EValue
                                 else Ok (len pre + (2 + len post), pre, post)
                       | Some s => Ok s
                       end ;; Ok st1) = Ok (len pre + (2 + len post), pre, post)).
  { destruct Hst as [-> | ->].
    - destruct (Z.ltb_spec (len pre + (2 + len post)) (len pre + 2)); [lia | reflexivity].
    - reflexivity. }
  destruct (match st with None => _ | Some s => Ok s end) as [st1|]; cbn [bind] in *; [|discriminate].
  inversion S1; subst st1. rewrite Z.eqb_refl, !list_eqbZ_refl. cbn [negb andb orb].
  rewrite !np_at_in by lia. cbn [bind]. unfold mid. rewrite list_eqbZ_refl. reflexivity.
Qed.

Lemma verify_loop_ok pre post chy chx : forall keys st,
  Forall (key_ok chy chx) keys ->
  (st = None \/ st = Some (len pre + (2 + len post), pre, post)) ->
  verify_loop chy chx (len pre) st (map (fun k => (k, block_shape pre post chy chx k)) keys) =
    Ok (match keys with [] => st | _ => Some (len pre + (2 + len post), pre, post) end).
Proof.
  induction keys as [|k r IH]; intros st HK Hst; [reflexivity|].
  inversion HK; subst. cbn [map verify_loop]. rewrite verify_step_ok by assumption. cbn [bind].
  rewrite IH by auto. destruct r; reflexivity.
Qed.

(** _verify_shape accepts every set of well-shaped blocks and returns the mosaic shape *)
Lemma verify_shape_ok pre post chy chx keys :
  Forall (key_ok chy chx) keys -> keys <> [] ->
  ba_verify_shape (map (fun k => (k, block_shape pre post chy chx k)) keys) chy chx (len pre) =
    Ok (pre ++ [sumZ chy; sumZ chx] ++ post).
Proof.
  intros HK Hne. unfold ba_verify_shape. rewrite verify_loop_ok by auto. cbn [bind].
  destruct keys; [congruence | reflexivity].
Qed.

Lemma verify_shape_empty chy chx axis : ba_verify_shape [] chy chx axis = Ok [sumZ chy; sumZ chx].
Proof. reflexivity. Qed.

(** a block whose Y/X extent differs from its chunk is rejected with ValueError *)
Lemma verify_shape_mismatch pre post chy chx k sy sx rest :
  key_ok chy chx k -> (sy, sx) <> (nthZ chy (fst k), nthZ chx (snd k)) ->
  ba_verify_shape ((k, pre ++ [sy; sx] ++ post) :: rest) chy chx (len pre) = Err EValue.
Proof.
  intros (Ky & Kx) Hne. unfold ba_verify_shape. cbn [verify_loop]. unfold verify_step.
  destruct k as (iy, ix). cbn [fst snd] in *.
  set (mid := [sy; sx]). assert (Lm : len mid = 2) by reflexivity.
  rewrite py_slice_pre. rewrite <- Lm at 1. rewrite py_slice_post.
  pose proof (py_slice_mid pre mid post) as PM. rewrite Lm in PM. rewrite PM.
  rewrite !len_app, Lm. pose proof (len_nonneg pre). pose proof (len_nonneg post).
  destruct (Z.ltb_spec (len pre + (2 + len post)) (len pre + 2)); [lia|]. cbn [bind].
  rewrite Z.eqb_refl, !list_eqbZ_refl. cbn [negb andb orb].
  rewrite !np_at_in by lia. cbn [bind]. unfold mid.
  destruct (list_eqbZ [sy; sx] [nthZ chy iy; nthZ chx ix]) eqn:Eq; [|reflexivity].
  apply list_eqbZ_eq in Eq. inversion Eq; subst. congruence.
Qed.

(** BlockAssembler.__init__ *)
Lemma ba_init_ok pre post chy chx keys :
  nonneg chy -> nonneg chx -> tot chy < two63 -> tot chx < two63 ->
  Forall (key_ok chy chx) keys -> (keys <> [] \/ (pre = [] /\ post = [])) ->
  exists a t, ba_init (map (fun k => (k, block_shape pre post chy chx k)) keys) chy chx (len pre) = Ok a /\
            vt_init chy chx = Ok t /\ rt_wf (RVar t) /\
            ba_shape a = pre ++ [sumZ chy; sumZ chx] ++ post /\ ba_axis a = len pre /\ ba_tiles a = t.
Proof.
  intros Ny Nx Ty Tx HK Hne.
  destruct (vt_init_wf chy chx Ny Nx Ty Tx) as (t & Et & Wt & Oy & Ox).
  assert (Esh : ba_verify_shape (map (fun k => (k, block_shape pre post chy chx k)) keys) chy chx (len pre)
                = Ok (pre ++ [sumZ chy; sumZ chx] ++ post)).
  { destruct keys as [|k r].
    - destruct Hne as [Hne | (-> & ->)]; [congruence | reflexivity].
    - apply verify_shape_ok; [assumption | congruence]. }
  unfold ba_init. rewrite Esh, Et. cbn [bind].
  pose proof (rt_base_axes (RVar t) Wt) as Eb. cbn [rt_base] in Eb. rewrite Eb. cbn [bind fst snd].
  pose proof Wt as (Wy & Wx). cbn [rt_y rt_x] in Wy, Wx |- *. rewrite (ax_N_var _ Wy), (ax_N_var _ Wx).
  rewrite Oy, Ox, !diffs_psum, <- !sumZ_tot.
  set (mid := [sumZ chy; sumZ chx]). assert (Lm : len mid = 2) by reflexivity.
  pose proof (py_slice_mid pre mid post) as PM. rewrite Lm in PM. rewrite PM. unfold mid.
  rewrite list_eqbZ_refl. exists {| ba_shape := pre ++ [sumZ chy; sumZ chx] ++ post; ba_axis := len pre; ba_tiles := t |}, t.
  cbn [ba_shape ba_axis ba_tiles]. split; [reflexivity|]. split; [reflexivity|]. split; [exact Wt|]. auto.
Qed.

(** _norm_roi / the plan of extract for a Y/X window given as a 2-tuple, and for roi=None *)
Lemma zip_norm_app a b : forall sa sb, length a = length sa ->
  zip_norm (a ++ b) (sa ++ sb) = zip_norm a sa ++ zip_norm b sb.
Proof.
  induction a as [|x a IH]; intros [|n sa] sb H; cbn in H; try discriminate; [reflexivity|].
  cbn [app zip_norm]. f_equal. apply IH. lia.
Qed.

Lemma zip_norm_full l : nonneg l -> zip_norm (map full_sl l) l = map (fun n => (0, n)) l.
Proof.
  induction 1 as [|n l Hn Hl IH]; [reflexivity|]. cbn [map zip_norm]. rewrite IH. f_equal.
  change (full_sl n) with (mk_sl (0, n)). apply norm_ss_mk; lia.
Qed.

Lemma squeeze_full l : forall k ax rest,
  squeeze_axes k ax (map full_sl l ++ rest) = squeeze_axes (k + len l) ax rest.
Proof.
  induction l as [|n l IH]; intros k ax rest; cbn [map app].
  - unfold len; cbn. rewrite Z.add_0_r. reflexivity.
  - cbn [squeeze_axes full_sl]. rewrite IH. f_equal. unfold len; cbn [length]. lia.
Qed.

Lemma squeeze_yx ax ry rx post :
  squeeze_axes ax ax ([ry; rx] ++ map full_sl post) = [].
Proof.
  cbn [app squeeze_axes]. rewrite Z.eqb_refl. cbn [orb].
  replace (ax + 1 =? ax) with false by (symmetry; apply Z.eqb_neq; lia). rewrite Z.eqb_refl. cbn [orb].
  pose proof (squeeze_full post (ax + 1 + 1) ax []) as S. rewrite app_nil_r in S. rewrite S.
  destruct ry; destruct rx; reflexivity.
Qed.

Lemma len_map {A B} (f : A -> B) l : len (map f l) = len l.
Proof. unfold len; rewrite map_length; reflexivity. Qed.

Lemma ba_norm_roi_yx a pre post ny nx ry rx :
  ba_shape a = pre ++ [ny; nx] ++ post -> ba_axis a = len pre -> nonneg pre -> nonneg post ->
  ba_norm_roi a (Some [ry; rx]) =
    Ok (map (fun n => (0, n)) pre ++ [norm_ss ry ny; norm_ss rx nx] ++ map (fun n => (0, n)) post, []).
Proof.
  intros Hs Ha Npre Npost. unfold ba_norm_roi. rewrite Hs, Ha.
  change (len [ry; rx] =? 2) with true. cbv iota.
  set (mid := [ny; nx]). assert (Lm : len mid = 2) by reflexivity.
  rewrite py_slice_pre. replace (len pre + 2) with (len pre + len mid) by (rewrite Lm; reflexivity).
  rewrite py_slice_post. cbn [bind].
  rewrite zip_norm_app by (rewrite map_length; reflexivity).
  rewrite zip_norm_full by assumption.
  change ([ry; rx] ++ map full_sl post) with ([ry] ++ [rx] ++ map full_sl post).
  unfold mid. change ([ny; nx] ++ post) with ([ny] ++ [nx] ++ post).
  rewrite (zip_norm_app [ry] _ [ny]) by reflexivity.
  rewrite (zip_norm_app [rx] _ [nx]) by reflexivity.
  rewrite zip_norm_full by assumption.
  rewrite squeeze_full. rewrite Z.add_0_l.
  change ([ry] ++ [rx] ++ map full_sl post) with ([ry; rx] ++ map full_sl post).
  rewrite squeeze_yx. reflexivity.
Qed.

Lemma existsb_neg_full l : nonneg l -> existsb (fun d => d <? 0) (map (fun s : Z * Z => snd s - fst s) (map (fun n => (0, n)) l)) = false.
Proof.
  induction 1 as [|n l Hn Hl IH]; [reflexivity|]. cbn [map existsb fst snd]. rewrite IH.
  destruct (Z.ltb_spec (n - 0) 0); [lia | reflexivity].
Qed.

Lemma drop_axes_nil l : forall k, drop_axes k [] l = l.
Proof. induction l; intros; cbn; [reflexivity | f_equal; auto]. Qed.

(** extract(roi=(ry, rx)) works on the window (normalise ry, normalise rx) of the Y/X plane *)
Lemma ba_plan_yx a pre post ny nx ry rx :
  ba_shape a = pre ++ [ny; nx] ++ post -> ba_axis a = len pre -> nonneg pre -> nonneg post ->
  let wy := norm_ss ry ny in
  let wx := norm_ss rx nx in
  fst wy <= snd wy -> fst wx <= snd wx ->
  exists nroi full, ba_plan a (Some [ry; rx]) = Ok (nroi, (wy, wx), full, full) /\
                    full = pre ++ [snd wy - fst wy; snd wx - fst wx] ++ post.
Proof.
  intros Hs Ha Npre Npost wy wx Hy Hx. unfold ba_plan.
  rewrite (ba_norm_roi_yx a pre post ny nx ry rx Hs Ha Npre Npost). cbn [bind].
  rewrite Hs, Ha. fold wy wx.
  rewrite !len_app, !len_map. change (len [wy; wx]) with 2. change (len [ny; nx]) with 2.
  rewrite Z.eqb_refl. cbn [negb].
  set (mid := [wy; wx]). assert (Lm : len mid = 2) by reflexivity.
  pose proof (py_slice_mid (map (fun n => (0, n)) pre) mid (map (fun n => (0, n)) post)) as PM.
  rewrite len_map, Lm in PM. rewrite PM. unfold mid.
  rewrite !map_app, existsb_app, existsb_app.
  rewrite !existsb_neg_full by assumption. cbn [map existsb fst snd orb].
  destruct (Z.ltb_spec (snd wy - fst wy) 0); [lia|]. destruct (Z.ltb_spec (snd wx - fst wx) 0); [lia|].
  cbn [orb]. rewrite drop_axes_nil. eexists; eexists; split; [reflexivity|].
  rewrite !map_map. cbn [fst snd].
  assert (M : forall l : list Z, map (fun x => x - 0) l = l)
    by (induction l; cbn; [reflexivity | f_equal; [lia | assumption]]).
  rewrite !M. reflexivity.
Qed.

(** * The working dtype *)
From Coq Require Import Permutation.

Lemma dsum_add_comm s a b : dsum_add (dsum_add s a) b = dsum_add (dsum_add s b) a.
Proof. destruct s as [u i f]; destruct a; destruct b; cbn; f_equal; lia. Qed.

Lemma dsum_fold_perm a b : Permutation a b -> forall s, fold_left dsum_add a s = fold_left dsum_add b s.
Proof.
  induction 1; intros s; cbn [fold_left]; auto.
  - rewrite dsum_add_comm. reflexivity.
  - etransitivity; eauto.
Qed.

(** the common type does not depend on the order in which the blocks were inserted *)
Lemma ba_dtype_perm a b : Permutation a b -> ba_dtype a = ba_dtype b.
Proof.
  intros H. destruct a as [|x a]; destruct b as [|y b].
  - reflexivity.
  - apply Permutation_nil_cons in H. contradiction.
  - apply Permutation_sym, Permutation_nil_cons in H. contradiction.
  - unfold ba_dtype, dsum_of. f_equal. apply dsum_fold_perm. exact H.
Qed.

(** numpy's array dtypes of the unsigned / signed / floating kinds (float16 is not used) *)
Definition dt_valid (d : dtype) : Prop :=
  match d with
  | DU b | DI b => b = 8 \/ b = 16 \/ b = 32 \/ b = 64
  | DF b => b = 32 \/ b = 64
  end.

(** every value of [d] is a value of [r] (24 / 53 bit significands) *)
Definition dt_holds (d r : dtype) : Prop :=
  match d, r with
  | DU a, DU b => a <= b
  | DU a, DI b => a < b
  | DI a, DI b => a <= b
  | DI _, DU _ => False
  | DU a, DF b | DI a, DF b => (a <= 16 /\ 32 <= b) \/ (a <= 32 /\ 64 <= b)
  | DF a, DF b => a <= b
  | DF _, _ => False
  end.

Definition narrow_int (d : dtype) : Prop :=
  match d with DU b | DI b => b <= 32 | DF _ => True end.

Definition bits_le (d : dtype) (s : dsum) : Prop :=
  match d with DU b => b <= s_ub s | DI b => b <= s_sb s | DF b => b <= s_fb s end.

Definition dsum_ok (s : dsum) : Prop :=
  (s_ub s = 0 \/ s_ub s = 8 \/ s_ub s = 16 \/ s_ub s = 32) /\
  (s_sb s = 0 \/ s_sb s = 8 \/ s_sb s = 16 \/ s_sb s = 32) /\
  (s_fb s = 0 \/ s_fb s = 32 \/ s_fb s = 64).

Lemma dsum_add_ok s d : dsum_ok s -> dt_valid d -> narrow_int d -> dsum_ok (dsum_add s d).
Proof.
  destruct s as [u i f]. unfold dsum_ok. cbn [s_ub s_sb s_fb]. intros (Hu & Hi & Hf) V N.
  destruct d as [b | b | b]; cbn in *; (split; [|split]); auto; lia.
Qed.

Lemma dsum_add_mono s d :
  s_ub s <= s_ub (dsum_add s d) /\ s_sb s <= s_sb (dsum_add s d) /\ s_fb s <= s_fb (dsum_add s d) /\
  bits_le d (dsum_add s d).
Proof. destruct s as [u i f]; destruct d; cbn; lia. Qed.

Lemma dsum_fold_spec l : forall s, dsum_ok s -> Forall dt_valid l -> Forall narrow_int l ->
  let s' := fold_left dsum_add l s in
  dsum_ok s' /\ s_ub s <= s_ub s' /\ s_sb s <= s_sb s' /\ s_fb s <= s_fb s' /\
  (forall d, In d l -> bits_le d s').
Proof.
  induction l as [|x l IH]; intros s Hs V N; cbn [fold_left].
  - cbv zeta. split; [exact Hs|]. split; [lia|]. split; [lia|]. split; [lia|]. intros d [].
  - inversion V; subst. inversion N; subst.
    pose proof (dsum_add_mono s x) as (M1 & M2 & M3 & M4).
    destruct (IH (dsum_add s x) (dsum_add_ok s x Hs H1 H3) H2 H4) as (K & A1 & A2 & A3 & A4).
    cbv zeta. split; [exact K|]. split; [lia|]. split; [lia|]. split; [lia|].
    intros d [<- | Hd]; [|apply A4; exact Hd].
    destruct x; cbn in *; lia.
Qed.

(** with integer blocks of at most 32 bits, the common type holds every value of every block
    (so the copy into the working array changes no pixel) *)
Lemma ba_dtype_holds dts d : Forall dt_valid dts -> Forall narrow_int dts -> In d dts ->
  dt_holds d (ba_dtype dts).
Proof.
  intros V N Hd. destruct dts as [|x l]; [destruct Hd|].
  unfold ba_dtype, dsum_of.
  assert (H0 : dsum_ok {| s_ub := 0; s_sb := 0; s_fb := 0 |}) by (unfold dsum_ok; cbn; auto).
  destruct (dsum_fold_spec (x :: l) _ H0 V N) as ((Hu & Hi & Hf) & _ & _ & _ & A).
  specialize (A d Hd). rewrite Forall_forall in V, N. specialize (V d Hd). specialize (N d Hd).
  set (s := fold_left dsum_add (x :: l) _) in *. unfold dsum_result.
  destruct s as [u i f]. cbn [s_ub s_sb s_fb] in *.
  destruct (Z.ltb_spec 0 f).
  - destruct (Z.ltb_spec 16 (Z.max u i)); destruct d; cbn [dt_holds bits_le dt_valid narrow_int s_ub s_sb s_fb] in *; lia.
  - destruct (Z.eqb_spec i 0); [destruct d; cbn [dt_holds bits_le dt_valid narrow_int s_ub s_sb s_fb] in *; lia|].
    destruct (Z.eqb_spec u 0); [destruct d; cbn [dt_holds bits_le dt_valid narrow_int s_ub s_sb s_fb] in *; lia|].
    destruct (Z.ltb_spec u i); [destruct d; cbn [dt_holds bits_le dt_valid narrow_int s_ub s_sb s_fb] in *; lia|].
    destruct (Z.ltb_spec u 64); destruct d; cbn [dt_holds bits_le dt_valid narrow_int s_ub s_sb s_fb] in *; lia.
Qed.

Lemma ba_extract_dtype_explicit d r f : ba_extract_dtype_opt d (Some r) f = r.
Proof. reflexivity. Qed.
