(** Lemmas for property C04, block assembly part: C17's three-way slice
    intersection theorem composed with the partition theorem of TilesProofs. *)
From Coq Require Import ZArith List Bool Lia ZifyBool.
From OG Require Import Base.Result Base.ListSel Model.Roi Model.Tiles Model.Blocks
     Proofs.RoiProofs Proofs.TilesProofs.
Import ListNotations.
Open Scope Z_scope.

(** * From the list statement of C17 to index arithmetic: instantiate the array
    with [0, 1, .., K-1] *)
Definition iotaZ (K : Z) : list Z := map Z.of_nat (seq 0 (Z.to_nat K)).

Lemma len_iota K : 0 <= K -> len (iotaZ K) = K.
Proof. intros. unfold len, iotaZ. rewrite map_length, seq_length. lia. Qed.

Lemma nth_error_iota K k : Z.of_nat k < K -> nth_error (iotaZ K) k = Some (Z.of_nat k).
Proof.
  intros H. unfold iotaZ.
  rewrite (nth_error_nth' _ 0) by (rewrite map_length, seq_length; lia).
  f_equal. change 0 with (Z.of_nat 0). rewrite map_nth. rewrite seq_nth by lia. reflexivity.
Qed.

Lemma nth_error_iota_inv K k v : nth_error (iotaZ K) k = Some v -> v = Z.of_nat k.
Proof.
  intros H. assert (L : (k < length (iotaZ K))%nat) by (apply nth_error_Some; congruence).
  unfold iotaZ in L. rewrite map_length, seq_length in L.
  rewrite nth_error_iota in H by lia. congruence.
Qed.

Lemma iota_sel_eq K s e s' e' : 0 <= s -> 0 <= e <= K -> 0 <= s' -> 0 <= e' ->
  sel (iotaZ K) s e = sel (iotaZ K) s' e' ->
  Z.max 0 (e - s) = Z.max 0 (Z.min e' K - s') /\ (s < e -> s = s').
Proof.
  intros Hs He Hs' He' E. assert (HK : 0 <= K) by lia. split.
  - pose proof (f_equal len E) as L. rewrite !len_sel in L by lia. rewrite len_iota in L by lia. lia.
  - intros Hlt. pose proof (f_equal (fun l => nth_error l 0) E) as N. cbv beta in N.
    rewrite !nth_error_sel in N by lia. rewrite !Nat.add_0_r in N. change (Z.of_nat 0) with 0 in N.
    rewrite !Z.add_0_r in N. destruct (Z.ltb_spec s e); [|lia].
    rewrite nth_error_iota in N by lia.
    destruct (Z.ltb_spec s' e'); [|discriminate].
    symmetry in N. apply nth_error_iota_inv in N. lia.
Qed.

Lemma norm_mk_sl a b : 0 <= a -> 0 <= b -> norm_slice_or_error (mk_sl (a, b)) = Ok (a, b, None).
Proof.
  intros Ha Hb. unfold norm_slice_or_error, mk_sl, fill. cbn [fst snd].
  destruct (Z.ltb_spec b 0); [lia|]. destruct (Z.ltb_spec a 0); [lia|]. reflexivity.
Qed.

(** what the three-way intersection of a tile [t0,t1) with a window [w0,w1) means
    for numpy views into the block (extent t1-t0) and into the output (extent w1-w0) *)
Lemma intersect3_axis t0 t1 w0 w1 : 0 <= t0 <= t1 -> 0 <= w0 <= w1 ->
  exists s' d' ab',
    slice_intersect3 (mk_sl (t0, t1)) (mk_sl (w0, w1)) = Ok (s', d', ab') /\
    let es := eff (t1 - t0) s' in
    let ed := eff (w1 - w0) d' in
    snd es = snd ed /\
    (forall y, inside ed y = true <-> (0 <= y < w1 - w0 /\ t0 <= w0 + y < t1)) /\
    (forall y, inside ed y = true -> fst es + (y - fst ed) = w0 + y - t0).
Proof.
  intros Ht Hw. set (K := t1 + w1 + 1).
  destruct (slice_intersect3_spec (iotaZ K) (mk_sl (t0, t1)) (mk_sl (w0, w1)) t0 t1 None w0 w1 None
              (norm_mk_sl t0 t1 ltac:(lia) ltac:(lia)) (norm_mk_sl w0 w1 ltac:(lia) ltac:(lia))
              ltac:(lia) ltac:(lia))
    as (a' & b' & ab' & E & Ra & Rb & Rc & E1 & E2 & I).
  exists a', b', ab'. split; [exact E|].
  destruct a' as (p, q). destruct b' as (p2, q2). destruct ab' as (c, d). cbn [fst snd] in *.
  rewrite sel_sel in E1, E2 by lia.
  apply iota_sel_eq in E1; try (unfold K; lia). destruct E1 as (L1 & S1).
  apply iota_sel_eq in E2; try (unfold K; lia). destruct E2 as (L2 & S2).
  assert (HK : K = t1 + w1 + 1) by reflexivity. clearbody K.
  assert (HI : c < d -> t0 <= c /\ w0 <= c /\ d <= t1 /\ d <= w1).
  { intros Hcd. pose proof (proj1 (I c) ltac:(clear - Hcd; lia)) as X1.
    pose proof (proj1 (I (d - 1)) ltac:(clear - Hcd; lia)) as X2. clear - X1 X2. lia. }
  assert (HE : d <= c -> forall i, ~ (t0 <= i < t1 /\ w0 <= i < w1)).
  { intros Hdc i Hi. apply I in Hi. lia. }
  unfold eff, inside. cbn [fst snd]. cbv zeta.
  destruct (Z_lt_le_dec c d) as [Hcd | Hdc].
  - destruct (HI Hcd) as (? & ? & ? & ?).
    assert (A1 : Z.min d K = d) by (clear - HK H1 Hw; lia).
    rewrite A1 in L1, L2.
    assert (P1 : t0 + p = c) by (apply S1; clear - L1 Hcd; lia).
    assert (P2 : w0 + p2 = c) by (apply S2; clear - L2 Hcd; lia).
    assert (M1 : Z.min p (t1 - t0) = c - t0) by (clear - P1 Hcd H1; lia).
    assert (M2 : Z.min q (t1 - t0) = d - t0) by (clear - L1 P1 Hcd; lia).
    assert (M3 : Z.min p2 (w1 - w0) = c - w0) by (clear - P2 Hcd H2; lia).
    assert (M4 : Z.min q2 (w1 - w0) = d - w0) by (clear - L2 P2 Hcd; lia).
    rewrite M1, M2, M3, M4. clear L1 L2 S1 S2 M1 M2 M3 M4 HE HI A1.
    replace (Z.max 0 (d - t0 - (c - t0))) with (d - c) by (clear - Hcd; lia).
    replace (Z.max 0 (d - w0 - (c - w0))) with (d - c) by (clear - Hcd; lia).
    split; [reflexivity|]. split.
    + intros y. pose proof (I (w0 + y)) as Iy.
      destruct (Z.leb_spec (c - w0) y); destruct (Z.ltb_spec y (c - w0 + (d - c)));
        cbn [andb]; split; intros; try discriminate; try reflexivity; lia.
    + intros y Hy.
      destruct (Z.leb_spec (c - w0) y); [|discriminate].
      destruct (Z.ltb_spec y (c - w0 + (d - c))); [|discriminate]. lia.
  - assert (A1 : Z.max 0 (Z.min d K - c) = 0) by (clear - Hdc; lia).
    rewrite A1 in L1, L2.
    assert (M1 : Z.min q (t1 - t0) <= Z.min p (t1 - t0)) by (clear - L1 Ra; lia).
    assert (M2 : Z.min q2 (w1 - w0) <= Z.min p2 (w1 - w0)) by (clear - L2 Rb; lia).
    clear L1 L2 S1 S2 HI A1.
    set (mp := Z.min p (t1 - t0)) in *. set (mq := Z.min q (t1 - t0)) in *.
    set (mp2 := Z.min p2 (w1 - w0)) in *. set (mq2 := Z.min q2 (w1 - w0)) in *.
    replace (Z.max 0 (mq - mp)) with 0 by (clear - M1; lia).
    replace (Z.max 0 (mq2 - mp2)) with 0 by (clear - M2; lia).
    split; [reflexivity|]. split.
    + intros y. pose proof (HE Hdc (w0 + y)).
      destruct (Z.leb_spec mp2 y); destruct (Z.ltb_spec y (mp2 + 0));
        cbn [andb]; split; intros; try discriminate; try lia.
    + intros y Hy.
      destruct (Z.leb_spec mp2 y); [|discriminate].
      destruct (Z.ltb_spec y (mp2 + 0)); [|discriminate]. lia.
Qed.
