(** Lemmas about Model/CrsGate.v, the bbox folds of Model/Tagged.v and the CRS gate of
    the GeoBox operations of Model/GridOps.v (property C01).  Nothing is assumed about
    [crs_eqb] unless stated. *)
From Coq Require Import ZArith QArith List Bool Lia.
From OG Require Import Base.Result Base.Aff2 Model.Tagged Model.CrsGate Model.GridOps Proofs.GridOpsProofs.
Import ListNotations.

Section GateProofs.
  Variable crs : Type.
  Variable crs_eqb : crs -> crs -> bool.
  Variables G R : Type.
  Notation tag := (option crs).
  Notation geom := (@geom crs G).

  Lemma gate_cases (c : tag) (rest : list geom) :
    (gate crs_eqb c rest = Ok tt /\ forall a, In a rest -> tag_ne crs_eqb c (gtag a) = false) \/
    (gate crs_eqb c rest = Err ECrs /\ mismatch_after crs_eqb c (map gtag rest)).
  Proof.
    induction rest as [|a rest IH]; simpl.
    - left. split; [reflexivity | intros ? []].
    - destruct (tag_ne crs_eqb c (gtag a)) eqn:E.
      + right. split; [reflexivity|]. exists (gtag a). split; [left; reflexivity | exact E].
      + destruct IH as [(H1 & H2) | (H1 & (x & Hx & Hn))].
        * left. split; [exact H1|]. intros b [<- | Hb]; [exact E | apply H2; exact Hb].
        * right. split; [exact H1|]. exists x. split; [right; exact Hx | exact Hn].
  Qed.

  Lemma no_mismatch_iff (c : tag) (rest : list geom) :
    (forall a, In a rest -> tag_ne crs_eqb c (gtag a) = false) <-> ~ mismatch_after crs_eqb c (map gtag rest).
  Proof.
    split.
    - intros H (x & Hx & Hn). apply in_map_iff in Hx. destruct Hx as (a & <- & Ha).
      rewrite (H a Ha) in Hn. discriminate.
    - intros H a Ha. destruct (tag_ne crs_eqb c (gtag a)) eqn:E; [|reflexivity].
      exfalso. apply H. exists (gtag a). split; [apply in_map; exact Ha | exact E].
  Qed.

  (** wrap_shapely, any number of operands *)
  Theorem wrapped_spec (method : G -> list G -> G + R) (first : geom) (rest : list geom) :
    (mismatch_after crs_eqb (gtag first) (map gtag rest) -> wrapped crs_eqb method first rest = Err ECrs) /\
    (~ mismatch_after crs_eqb (gtag first) (map gtag rest) ->
       wrapped crs_eqb method first rest =
       Ok (retag (gtag first) (method (ggeom first) (map ggeom rest)))).
  Proof.
    unfold wrapped.
    destruct (gate_cases (gtag first) rest) as [(H1 & H2) | (H1 & H2)]; rewrite H1; simpl; split; intros H.
    - apply no_mismatch_iff in H2. contradiction.
    - reflexivity.
    - reflexivity.
    - contradiction.
  Qed.

  Theorem wrapped_ok_inv (method : G -> list G -> G + R) (first : geom) (rest : list geom) w :
    wrapped crs_eqb method first rest = Ok w ->
    (forall a, In a rest -> tag_ne crs_eqb (gtag first) (gtag a) = false) /\
    w = retag (gtag first) (method (ggeom first) (map ggeom rest)).
  Proof.
    unfold wrapped.
    destruct (gate_cases (gtag first) rest) as [(H1 & H2) | (H1 & H2)]; rewrite H1; simpl; intros H.
    - inversion H. split; [exact H2 | reflexivity].
    - discriminate.
  Qed.

  (** the 16 binary methods *)
  Theorem binop_spec (f : G -> G -> G + R) (a b : geom) :
    binop crs_eqb f a b =
    if tag_ne crs_eqb (gtag a) (gtag b) then Err ECrs
    else Ok (retag (gtag a) (f (ggeom a) (ggeom b))).
  Proof. unfold binop, wrapped; simpl. destruct (tag_ne crs_eqb (gtag a) (gtag b)); reflexivity. Qed.

  Theorem split_spec (fsplit : G -> G -> list G) (self splitter : geom) :
    split crs_eqb fsplit self splitter =
    if tag_ne crs_eqb (gtag splitter) (gtag self) then Err ECrs
    else Ok (map (fun g => mkGeom g (gtag self)) (fsplit (ggeom self) (ggeom splitter))).
  Proof. reflexivity. Qed.

  Lemma common_loop_cases (ref : tag) (rest : list tag) :
    (common_loop crs_eqb ref rest = Ok tt /\ forall c, In c rest -> tag_ne crs_eqb c ref = false) \/
    (common_loop crs_eqb ref rest = Err ECrs /\ mismatch_before crs_eqb ref rest).
  Proof.
    induction rest as [|c rest IH]; simpl.
    - left. split; [reflexivity | intros ? []].
    - destruct (tag_ne crs_eqb c ref) eqn:E.
      + right. split; [reflexivity|]. exists c. split; [left; reflexivity | exact E].
      + destruct IH as [(H1 & H2) | (H1 & (x & Hx & Hn))].
        * left. split; [exact H1|]. intros b [<- | Hb]; [exact E | apply H2; exact Hb].
        * right. split; [exact H1|]. exists x. split; [right; exact Hx | exact Hn].
  Qed.

  Lemma no_mismatch_before_iff (ref : tag) (rest : list tag) :
    (forall c, In c rest -> tag_ne crs_eqb c ref = false) <-> ~ mismatch_before crs_eqb ref rest.
  Proof.
    split.
    - intros H (x & Hx & Hn). rewrite (H x Hx) in Hn. discriminate.
    - intros H c Hc. destruct (tag_ne crs_eqb c ref) eqn:E; [|reflexivity].
      exfalso. apply H. exists c. auto.
  Qed.

  Theorem common_crs_spec (first : geom) (rest : list geom) :
    (mismatch_before crs_eqb (gtag first) (map gtag rest) -> common_crs crs_eqb (first :: rest) = Err ECrs) /\
    (~ mismatch_before crs_eqb (gtag first) (map gtag rest) -> common_crs crs_eqb (first :: rest) = Ok (gtag first)).
  Proof.
    unfold common_crs. simpl map.
    destruct (common_loop_cases (gtag first) (map gtag rest)) as [(H1 & H2) | (H1 & H2)]; rewrite H1; simpl; split; intros H.
    - apply no_mismatch_before_iff in H2. contradiction.
    - reflexivity.
    - reflexivity.
    - contradiction.
  Qed.

  Theorem multigeom_spec (fmulti : list G -> G) (first : geom) (rest : list geom) :
    (mismatch_before crs_eqb (gtag first) (map gtag rest) ->
       multigeom crs_eqb fmulti (first :: rest) = Err ECrs) /\
    (~ mismatch_before crs_eqb (gtag first) (map gtag rest) ->
       multigeom crs_eqb fmulti (first :: rest) =
       Ok (mkGeom (fmulti (map ggeom (first :: rest))) (gtag first))).
  Proof.
    unfold multigeom. destruct (common_crs_spec first rest) as (H1 & H2).
    split; intros H; [rewrite (H1 H) | rewrite (H2 H)]; reflexivity.
  Qed.

  Theorem multigeom_empty (fmulti : list G -> G) :
    common_crs crs_eqb (@nil geom) = Ok None /\ multigeom crs_eqb fmulti [] = Ok (mkGeom (fmulti []) None).
  Proof. split; reflexivity. Qed.

  Theorem unary_union_spec (funion : list G -> G) (first : geom) (rest : list geom) :
    (mismatch_after crs_eqb (gtag first) (map gtag rest) ->
       unary_union crs_eqb funion (first :: rest) = Err ECrs) /\
    (~ mismatch_after crs_eqb (gtag first) (map gtag rest) ->
       unary_union crs_eqb funion (first :: rest) =
       Ok (Some (mkGeom (funion (map ggeom (first :: rest))) (gtag first)))).
  Proof.
    unfold unary_union.
    destruct (gate_cases (gtag first) rest) as [(H1 & H2) | (H1 & H2)]; rewrite H1; simpl; split; intros H.
    - apply no_mismatch_iff in H2. contradiction.
    - reflexivity.
    - reflexivity.
    - contradiction.
  Qed.

  (** unary_intersection: a left fold of the gated binary intersection *)
  Section Inter.
    Variable finter : G -> G -> G + R.
    (* oracle contract: shapely's intersection of two geometries is a geometry *)
    Hypothesis finter_geom : forall x y, exists g, finter x y = inl g.

    Notation raw_inter := (raw_inter finter).

    Lemma raw_inter_inl x y r : finter x y = inl r -> raw_inter x y = r.
    Proof. unfold raw_inter. intros ->. reflexivity. Qed.

    Lemma reduce_inter_cases (rest : list geom) : forall acc : geom,
      (reduce_inter crs_eqb finter acc rest =
         Ok (mkGeom (fold_left raw_inter (map ggeom rest) (ggeom acc)) (gtag acc)) /\
       forall a, In a rest -> tag_ne crs_eqb (gtag acc) (gtag a) = false) \/
      (reduce_inter crs_eqb finter acc rest = Err ECrs /\
       mismatch_after crs_eqb (gtag acc) (map gtag rest)).
    Proof.
      induction rest as [|g rest IH]; intros acc; simpl.
      - left. split; [destruct acc; reflexivity | intros ? []].
      - rewrite binop_spec.
        destruct (tag_ne crs_eqb (gtag acc) (gtag g)) eqn:E; cbn [bind].
        + right. split; [reflexivity|]. exists (gtag g). split; [left; reflexivity | exact E].
        + destruct (finter (ggeom acc) (ggeom g)) as [r | r] eqn:Er;
            [|exfalso; destruct (finter_geom (ggeom acc) (ggeom g)) as (r' & Er'); congruence].
          cbn [retag].
          destruct (IH (mkGeom r (gtag acc))) as [(H1 & H2) | (H1 & (x & Hx & Hn))]; simpl in *.
          * left. split.
            { rewrite H1, (raw_inter_inl _ _ _ Er). reflexivity. }
            intros b [<- | Hb]; [exact E | apply H2; exact Hb].
          * right. split; [exact H1|]. exists x. split; [right; exact Hx | exact Hn].
    Qed.

    Theorem unary_intersection_spec (first : geom) (rest : list geom) :
      (mismatch_after crs_eqb (gtag first) (map gtag rest) ->
         unary_intersection crs_eqb finter (first :: rest) = Err ECrs) /\
      (~ mismatch_after crs_eqb (gtag first) (map gtag rest) ->
         unary_intersection crs_eqb finter (first :: rest) =
         Ok (mkGeom (fold_left raw_inter (map ggeom rest) (ggeom first)) (gtag first))).
    Proof.
      unfold unary_intersection.
      destruct (reduce_inter_cases rest first) as [(H1 & H2) | (H1 & H2)]; rewrite H1; split; intros H.
      - apply no_mismatch_iff in H2. contradiction.
      - reflexivity.
      - reflexivity.
      - contradiction.
    Qed.
  End Inter.

  (** without any contract on shapely: whatever is returned, no value is built across a mismatch *)
  Theorem unary_intersection_ok_inv (finter : G -> G -> G + R) (rest : list geom) : forall (first r : geom),
    unary_intersection crs_eqb finter (first :: rest) = Ok r ->
    (forall a, In a rest -> tag_ne crs_eqb (gtag first) (gtag a) = false) /\ gtag r = gtag first.
  Proof.
    unfold unary_intersection.
    induction rest as [|g rest IH]; intros first r; simpl.
    - intros H; inversion H. split; [intros ? [] | reflexivity].
    - rewrite binop_spec. destruct (tag_ne crs_eqb (gtag first) (gtag g)) eqn:E; simpl; [discriminate|].
      destruct (finter (ggeom first) (ggeom g)) as [x | x]; simpl; [|discriminate].
      intros H. destruct (IH _ _ H) as (H1 & H2). simpl in *. split; [|exact H2].
      intros b [<- | Hb]; [exact E | apply H1; exact Hb].
  Qed.

  Theorem intersects2_spec (fint ftouch : G -> G -> G + R) truthy (a b : geom) :
    (tag_ne crs_eqb (gtag a) (gtag b) = true -> intersects2 crs_eqb fint ftouch truthy a b = Err ECrs) /\
    (tag_ne crs_eqb (gtag a) (gtag b) = false ->
       intersects2 crs_eqb fint ftouch truthy a b =
       Ok (truthy (retag (gtag a) (fint (ggeom a) (ggeom b))) &&
           negb (truthy (retag (gtag a) (ftouch (ggeom a) (ggeom b)))))).
  Proof.
    unfold intersects2. rewrite !binop_spec. split; intros H; rewrite H; simpl; [reflexivity|].
    destruct (truthy _); reflexivity.
  Qed.
End GateProofs.

(** * bbox_union / bbox_intersection: the CRS gate, for any coordinate type and any min/max *)
Section BoxGate.
  Variable crs : Type.
  Variable crs_eqb : crs -> crs -> bool.
  Variable A : Type.
  Variables lo hi : A -> A -> A.
  Notation bbox := (@bbox crs A).

  Notation box_mismatch := (box_mismatch crs_eqb).

  Lemma union_loop_gate (bbs : list bbox) : forall L B R T c,
    (exists u, bbox_union_loop crs_eqb lo hi L B R T c bbs = Ok u /\ bcrs u = c /\
               forall x, In x bbs -> tag_ne crs_eqb c (bcrs x) = false) \/
    (bbox_union_loop crs_eqb lo hi L B R T c bbs = Err ECrs /\ box_mismatch c bbs).
  Proof.
    induction bbs as [|x rest IH]; intros L B R T c; simpl.
    - left. eexists. split; [reflexivity|]. split; [reflexivity | intros ? []].
    - destruct (tag_ne crs_eqb c (bcrs x)) eqn:E.
      + right. split; [reflexivity|]. exists x. split; [left; reflexivity | exact E].
      + destruct (IH (lo (bl x) L) (lo (bb_ x) B) (hi (br x) R) (hi (bt x) T) c)
          as [(u & H1 & H2 & H3) | (H1 & (y & Hy & Hn))].
        * left. exists u. split; [exact H1|]. split; [exact H2|].
          intros b [<- | Hb]; [exact E | apply H3; exact Hb].
        * right. split; [exact H1|]. exists y. split; [right; exact Hy | exact Hn].
  Qed.

  Lemma inter_loop_gate (bbs : list bbox) : forall L B R T c,
    (exists u, bbox_inter_loop crs_eqb lo hi L B R T c bbs = Ok u /\ bcrs u = c /\
               forall x, In x bbs -> tag_ne crs_eqb c (bcrs x) = false) \/
    (bbox_inter_loop crs_eqb lo hi L B R T c bbs = Err ECrs /\ box_mismatch c bbs).
  Proof.
    induction bbs as [|x rest IH]; intros L B R T c; simpl.
    - left. eexists. split; [reflexivity|]. split; [reflexivity | intros ? []].
    - destruct (tag_ne crs_eqb c (bcrs x)) eqn:E.
      + right. split; [reflexivity|]. exists x. split; [left; reflexivity | exact E].
      + destruct (IH (hi (bl x) L) (hi (bb_ x) B) (lo (br x) R) (lo (bt x) T) c)
          as [(u & H1 & H2 & H3) | (H1 & (y & Hy & Hn))].
        * left. exists u. split; [exact H1|]. split; [exact H2|].
          intros b [<- | Hb]; [exact E | apply H3; exact Hb].
        * right. split; [exact H1|]. exists y. split; [right; exact Hy | exact Hn].
  Qed.

  Lemma box_no_mismatch (c : option crs) (rest : list bbox) :
    (forall x, In x rest -> tag_ne crs_eqb c (bcrs x) = false) -> ~ box_mismatch c rest.
  Proof. intros H (x & Hx & Hn). rewrite (H x Hx) in Hn. discriminate. Qed.

  Theorem bbox_folds_gate (first : bbox) (rest : list bbox) :
    (box_mismatch (bcrs first) rest <-> bbox_union crs_eqb lo hi (first :: rest) = Err ECrs) /\
    (box_mismatch (bcrs first) rest <-> bbox_intersection crs_eqb lo hi (first :: rest) = Err ECrs) /\
    (~ box_mismatch (bcrs first) rest ->
       exists u i, bbox_union crs_eqb lo hi (first :: rest) = Ok u /\
                   bbox_intersection crs_eqb lo hi (first :: rest) = Ok i /\
                   bcrs u = bcrs first /\ bcrs i = bcrs first).
  Proof.
    unfold bbox_union, bbox_intersection.
    destruct (union_loop_gate rest (bl first) (bb_ first) (br first) (bt first) (bcrs first))
      as [(u & U1 & U2 & U3) | (U1 & U2)];
    destruct (inter_loop_gate rest (bl first) (bb_ first) (br first) (bt first) (bcrs first))
      as [(i & I1 & I2 & I3) | (I1 & I2)]; rewrite ?U1, ?I1.
    - pose proof (box_no_mismatch _ _ U3) as N.
      split; [split; [contradiction | discriminate]|]. split; [split; [contradiction | discriminate]|].
      intros _. exists u, i. auto.
    - pose proof (box_no_mismatch _ _ U3). contradiction.
    - pose proof (box_no_mismatch _ _ I3). contradiction.
    - split; [split; auto|]. split; [split; auto|]. intros N. contradiction.
  Qed.

  Theorem bbox_folds_ok_inv (first : bbox) (rest : list bbox) u :
    (bbox_union crs_eqb lo hi (first :: rest) = Ok u \/ bbox_intersection crs_eqb lo hi (first :: rest) = Ok u) ->
    (forall x, In x rest -> tag_ne crs_eqb (bcrs first) (bcrs x) = false) /\ bcrs u = bcrs first.
  Proof.
    unfold bbox_union, bbox_intersection. intros [H | H].
    - destruct (union_loop_gate rest (bl first) (bb_ first) (br first) (bt first) (bcrs first))
        as [(v & U1 & U2 & U3) | (U1 & U2)]; rewrite U1 in H; [|discriminate].
      inversion H; subst. auto.
    - destruct (inter_loop_gate rest (bl first) (bb_ first) (br first) (bt first) (bcrs first))
        as [(v & U1 & U2 & U3) | (U1 & U2)]; rewrite U1 in H; [|discriminate].
      inversion H; subst. auto.
  Qed.

  Theorem bbox_folds_empty :
    bbox_union crs_eqb lo hi (@nil bbox) = Err EValue /\ bbox_intersection crs_eqb lo hi (@nil bbox) = Err EValue.
  Proof. split; reflexivity. Qed.
End BoxGate.

(** * GeoBox operations: everything goes through pixel_translation's CRS test *)
Section GeoBoxGate.
  Variable crs : Type.
  Variable crs_eqb : crs -> crs -> bool.
  Notation geobox := (geobox crs).
  Variables atol rtol tol : Q.

  Theorem geobox_pair_mismatch (fx : fixes) (a b : geobox) :
    tag_ne crs_eqb (gcrs b) (gcrs a) = true ->
    pixel_translation crs_eqb atol rtol b a = Err EValue /\
    bbox_in_pix crs_eqb atol rtol tol b a = Err EValue /\
    overlap_roi crs_eqb fx atol rtol tol a b = Err EValue /\
    snap_to crs_eqb atol rtol tol a b = Err EValue.
  Proof.
    intros H.
    assert (P : pixel_translation crs_eqb atol rtol b a = Err EValue).
    { unfold pixel_translation. rewrite H. reflexivity. }
    assert (Bp : bbox_in_pix crs_eqb atol rtol tol b a = Err EValue).
    { unfold bbox_in_pix. rewrite P. reflexivity. }
    split; [exact P|]. split; [exact Bp|]. split.
    - unfold overlap_roi. rewrite Bp. reflexivity.
    - unfold snap_to. rewrite P. reflexivity.
  Qed.

  Lemma bbox_in_pix_ok_tags (a ref : geobox) bb :
    bbox_in_pix crs_eqb atol rtol tol a ref = Ok bb -> tag_ne crs_eqb (gcrs a) (gcrs ref) = false.
  Proof.
    unfold bbox_in_pix, pixel_translation.
    destruct (tag_ne crs_eqb (gcrs a) (gcrs ref)); [discriminate | reflexivity].
  Qed.

  Lemma mapM_ok_all {X Y} (f : X -> res Y) (l : list X) ys :
    mapM f l = Ok ys -> forall x, In x l -> exists y, f x = Ok y.
  Proof.
    revert ys. induction l as [|a l IH]; intros ys H x Hx; [destruct Hx|].
    simpl in H. destruct (f a) as [y|] eqn:E; simpl in H; [|discriminate].
    destruct (mapM f l) as [ys'|] eqn:E2; simpl in H; [|discriminate].
    destruct Hx as [<- | Hx]; [eauto | eapply IH; eauto].
  Qed.

  Theorem geobox_nary_ok_inv (ref : geobox) (gs : list geobox) (u : geobox) :
    (geobox_union crs_eqb atol rtol tol (ref :: gs) = Ok u \/
     geobox_intersection crs_eqb atol rtol tol (ref :: gs) = Ok u) ->
    (forall g, In g (ref :: gs) -> tag_ne crs_eqb (gcrs g) (gcrs ref) = false) /\ gcrs u = gcrs ref.
  Proof.
    unfold geobox_union, geobox_intersection.
    intros [H | H];
      destruct (mapM (fun g => bbox_in_pix crs_eqb atol rtol tol g ref) (ref :: gs)) as [bbs|] eqn:E;
      simpl in H; try discriminate.
    - split.
      + intros g Hg. destruct (mapM_ok_all _ _ _ E g Hg) as (y & Hy). eapply bbox_in_pix_ok_tags; eauto.
      + destruct (bbox_union crs_eqb Z.min Z.max bbs); simpl in H; [|discriminate]. inversion H. reflexivity.
    - split.
      + intros g Hg. destruct (mapM_ok_all _ _ _ E g Hg) as (y & Hy). eapply bbox_in_pix_ok_tags; eauto.
      + destruct (bbox_intersection crs_eqb Z.min Z.max bbs); simpl in H; [|discriminate]. inversion H. reflexivity.
  Qed.

  (** [a | b], [a & b] with differing CRSs: the error is the ValueError of pixel_translation
      (for an invertible first operand; a degenerate one fails earlier in affine inversion) *)
  Theorem geobox_binary_mismatch (a b : geobox) :
    tag_ne crs_eqb (gcrs b) (gcrs a) = true -> ~ (aff_det (gaff a) == 0)%Q ->
    gbox_or crs_eqb atol rtol tol a b = Err EValue /\ gbox_and crs_eqb atol rtol tol a b = Err EValue.
  Proof.
    intros H Hd.
    destruct (geobox_pair_mismatch fixed a b H) as (_ & Bp & _).
    unfold gbox_or, gbox_and, geobox_union, geobox_intersection. simpl mapM.
    destruct (bbox_in_pix crs_eqb atol rtol tol a a) as [x|e] eqn:E; simpl.
    - rewrite Bp. simpl. auto.
    - destruct (bbox_in_pix_error_kind _ _ _ _ _ _ _ _ E) as [-> | (_ & _ & C)]; [auto | contradiction].
  Qed.
End GeoBoxGate.

(** * small corollaries stated in Props/C01.v *)
Lemma common_crs_multigeom_spec (crs : Type) (crs_eqb : crs -> crs -> bool) (G : Type) (fmulti : list G -> G)
      (first : geom crs G) (rest : list (geom crs G)) :
  (mismatch_before crs_eqb (gtag first) (map gtag rest) ->
     common_crs crs_eqb (first :: rest) = Err ECrs /\ multigeom crs_eqb fmulti (first :: rest) = Err ECrs) /\
  (~ mismatch_before crs_eqb (gtag first) (map gtag rest) ->
     common_crs crs_eqb (first :: rest) = Ok (gtag first) /\
     multigeom crs_eqb fmulti (first :: rest) = Ok (mkGeom (fmulti (map ggeom (first :: rest))) (gtag first))).
Proof.
  destruct (common_crs_spec crs crs_eqb G first rest) as (A1 & A2).
  destruct (multigeom_spec crs crs_eqb G fmulti first rest) as (B1 & B2).
  split; intros H; split; auto.
Qed.

Lemma gate_symmetric (crs : Type) (crs_eqb : crs -> crs -> bool) (G R : Type) (f f' : G -> G -> G + R)
      (a b : geom crs G) :
  (forall x y, crs_eqb x y = crs_eqb y x) ->
  is_ok (binop crs_eqb f a b) = is_ok (binop crs_eqb f' b a).
Proof.
  intros Hs. rewrite !binop_spec.
  assert (E : tag_ne crs_eqb (gtag a) (gtag b) = tag_ne crs_eqb (gtag b) (gtag a)).
  { destruct (gtag a), (gtag b); simpl; try reflexivity. rewrite Hs. reflexivity. }
  rewrite E. destruct (tag_ne crs_eqb (gtag b) (gtag a)); reflexivity.
Qed.

Lemma errors_are_value_errors : is_value_error ECrs = true /\ is_value_error EValue = true.
Proof. split; reflexivity. Qed.
