(** Proofs about Model/OutGeobox.v (property C11). *)
From Coq Require Import ZArith QArith Qround Qabs List Bool Lia Lqa.
From OG Require Import Base.Result Base.QZ Model.OutGeobox.
Import ListNotations.
Open Scope Q_scope.

(** * Booleans *)
Lemma Qltb_true x y : Qltb x y = true <-> x < y.
Proof.
  unfold Qltb. rewrite negb_true_iff. apply Qle_bool_false.
Qed.

Lemma Qltb_false x y : Qltb x y = false <-> y <= x.
Proof.
  unfold Qltb. rewrite negb_false_iff. apply Qle_bool_true.
Qed.

Lemma Qeq_bool_false x y : Qeq_bool x y = false <-> ~ x == y.
Proof.
  split.
  - intros H E. apply Qeq_bool_iff in E. congruence.
  - intros H. destruct (Qeq_bool x y) eqn:E; auto. apply Qeq_bool_iff in E. contradiction.
Qed.

Lemma Qabs_cases x : (0 <= x /\ Qabs x == x) \/ (x < 0 /\ Qabs x == - x).
Proof.
  destruct (Qlt_le_dec x 0) as [H|H].
  - right. split; auto. apply Qabs_neg. lra.
  - left. split; auto. apply Qabs_pos. exact H.
Qed.

(** * split_float / maybe_int *)
Lemma fmod1_spec x : exists z, fmod1 x == x - inject_Z z /\ -1 < x - inject_Z z /\ x - inject_Z z < 1.
Proof.
  unfold fmod1, Qtrunc. destruct (Qle_bool 0 x) eqn:E.
  - apply Qle_bool_true in E. exists (Qfloor x). split; [reflexivity|].
    destruct (Qfloor_spec x) as (f & Ef & H1 & H2). rewrite <- Ef. lra.
  - apply Qle_bool_false in E. exists (Qceiling x). split; [reflexivity|].
    destruct (Qceiling_spec x) as (c & Ec & H1 & H2). rewrite <- Ec. lra.
Qed.

Lemma split_float_spec x :
  exists z, fst (split_float x) == inject_Z z /\
            fst (split_float x) + snd (split_float x) == x /\
            - (1 # 2) <= snd (split_float x) /\ snd (split_float x) <= 1 # 2.
Proof.
  unfold split_float.
  destruct (fmod1_spec x) as (z & Ez & H1 & H2).
  set (p := fmod1 x) in *.
  destruct (Qltb (1 # 2) p) eqn:E1.
  - apply Qltb_true in E1. exists (z + 1)%Z. simpl. rewrite inject_Z_plus, inj1. repeat split; lra.
  - apply Qltb_false in E1. destruct (Qltb p (- (1 # 2))) eqn:E2.
    + apply Qltb_true in E2. exists (z - 1)%Z. simpl.
      unfold Z.sub. rewrite inject_Z_plus, inject_Z_opp, inj1. repeat split; lra.
    + apply Qltb_false in E2. exists z. simpl. repeat split; lra.
Qed.

Lemma Qtrunc_Z z x : x == inject_Z z -> Qtrunc x = z.
Proof.
  intros E. unfold Qtrunc. destruct (Qle_bool 0 x).
  - rewrite E. apply Qfloor_Z.
  - rewrite E. apply Qceiling_Z.
Qed.

(** the value handed to floor/ceil is [x] itself or an integer closer than
    [tol] (and never further than 1/2) *)
Lemma maybe_int_spec x tol :
  maybe_int x tol = x \/
  exists z, maybe_int x tol = inject_Z z /\
            x - tol < inject_Z z /\ inject_Z z < x + tol /\
            x - (1 # 2) <= inject_Z z /\ inject_Z z <= x + (1 # 2).
Proof.
  unfold maybe_int.
  destruct (split_float_spec x) as (z & Ew & Es & P1 & P2).
  destruct (split_float x) as [w p]. simpl in *.
  destruct (Qltb (Qabs p) tol) eqn:E; [|left; reflexivity].
  apply Qltb_true in E. right. exists z. rewrite (Qtrunc_Z z w Ew). split; [reflexivity|].
  destruct (Qabs_cases p) as [[Hp Ea]|[Hp Ea]]; rewrite Ea in E; repeat split; lra.
Qed.

Lemma floor_maybe_int x tol : 0 <= tol ->
  exists k : Z, Qfloor (maybe_int x tol) = k /\
    inject_Z k <= x + tol /\ inject_Z k <= x + (1 # 2) /\ x - 1 < inject_Z k.
Proof.
  intros Ht. exists (Qfloor (maybe_int x tol)). split; [reflexivity|].
  destruct (maybe_int_spec x tol) as [E|(z & E & H1 & H2 & H3 & H4)]; rewrite E.
  - destruct (Qfloor_spec x) as (f & Ef & F1 & F2). rewrite <- Ef. repeat split; lra.
  - rewrite Qfloor_Z. repeat split; lra.
Qed.

Lemma ceil_maybe_int x tol : 0 <= tol ->
  exists k : Z, Qceiling (maybe_int x tol) = k /\
    x - tol <= inject_Z k /\ x - (1 # 2) <= inject_Z k /\ inject_Z k < x + 1.
Proof.
  intros Ht. exists (Qceiling (maybe_int x tol)). split; [reflexivity|].
  destruct (maybe_int_spec x tol) as [E|(z & E & H1 & H2 & H3 & H4)]; rewrite E.
  - destruct (Qceiling_spec x) as (f & Ef & F1 & F2). rewrite <- Ef. repeat split; lra.
  - rewrite Qceiling_Z. repeat split; lra.
Qed.

(** an integer is left alone *)
Lemma maybe_int_of_Z (n : Z) tol : maybe_int (inject_Z n) tol == inject_Z n.
Proof.
  destruct (maybe_int_spec (inject_Z n) tol) as [E|(z & E & H1 & H2 & H3 & H4)]; rewrite E; [reflexivity|].
  assert (z = n) as ->; [|reflexivity].
  assert (inject_Z z < inject_Z n + 1) as A by lra.
  assert (inject_Z n - 1 < inject_Z z) as B by lra.
  rewrite <- inj1, <- inject_Z_plus, <- Zlt_Qlt in A.
  unfold Qminus in B. rewrite <- inj1, <- inject_Z_opp, <- inject_Z_plus, <- Zlt_Qlt in B. lia.
Qed.

(** * One-axis snapping *)

(** Everything the later statements need about one snapped axis:
    [lo = k * a] is the low edge, [lo + n * a] the high edge ([a = |res|]). *)
Definition axis_spec (x0 x1 a tol : Q) (k n : Z) : Prop :=
  let lo := inject_Z k * a in
  let hi := inject_Z k * a + inject_Z n * a in
  (1 <= n)%Z /\
  lo <= x0 + tol * a /\ lo <= x0 + (1 # 2) * a /\ x0 - a < lo /\
  x1 - tol * a <= hi /\ x1 - (1 # 2) * a <= hi /\
  (hi < x1 + a \/ n = 1%Z).

Lemma snap_edge_pos_spec x0 x1 a tol :
  0 < a -> x0 <= x1 -> 0 <= tol ->
  exists k n, snap_edge_pos x0 x1 a tol = Ok (inject_Z k * a, n) /\ axis_spec x0 x1 a tol k n.
Proof.
  intros Ha Hx Ht. unfold snap_edge_pos.
  assert (E1 : Qltb 0 a = true) by (apply Qltb_true; exact Ha).
  assert (E2 : Qle_bool x0 x1 = true) by (apply Qle_bool_true; exact Hx).
  rewrite E1, E2. cbn [guard bind].
  destruct (floor_maybe_int (x0 / a) tol Ht) as (k & Ek & K1 & K2 & K3).
  destruct (ceil_maybe_int (x1 / a) tol Ht) as (c & Ec & C1 & C2 & C3).
  rewrite Ek, Ec. exists k, (Z.max 1 (c - k)). split; [reflexivity|].
  assert (Q0 : x0 == (x0 / a) * a) by (field; lra).
  assert (Q1 : x1 == (x1 / a) * a) by (field; lra).
  set (y0 := x0 / a) in *. set (y1 := x1 / a) in *.
  set (K := inject_Z k) in *. set (C := inject_Z c) in *.
  assert (Hn : inject_Z (Z.max 1 (c - k)) == C - K \/
               (inject_Z (Z.max 1 (c - k)) == 1 /\ C - K <= 1 /\ Z.max 1 (c - k) = 1%Z)).
  { destruct (Z.max_spec 1 (c - k)) as [[L E]|[L E]]; rewrite E.
    - left. unfold Z.sub. rewrite inject_Z_plus, inject_Z_opp. unfold C, K. lra.
    - right. split; [reflexivity|]. split; [|reflexivity].
      assert (inject_Z (c - k) <= inject_Z 1) as A by (rewrite <- Zle_Qle; lia).
      unfold Z.sub in A. rewrite inject_Z_plus, inject_Z_opp in A. unfold C, K. rewrite inj1 in A. lra. }
  unfold axis_spec. split; [lia|]. fold K.
  set (N := inject_Z (Z.max 1 (c - k))) in *.
  assert (T0 : K * a <= (y0 + tol) * a) by (apply Qmult_le_compat_r; lra).
  assert (T1 : K * a <= (y0 + (1 # 2)) * a) by (apply Qmult_le_compat_r; lra).
  assert (T2 : (y0 - 1) * a < K * a) by (apply Qmult_lt_compat_r; lra).
  assert (T3 : (y1 - tol) * a <= C * a) by (apply Qmult_le_compat_r; lra).
  assert (T4 : (y1 - (1 # 2)) * a <= C * a) by (apply Qmult_le_compat_r; lra).
  assert (T5 : C * a < (y1 + 1) * a) by (apply Qmult_lt_compat_r; lra).
  destruct Hn as [Hn|(Hn & Hle & Hz)].
  - assert (HH : K * a + N * a == C * a) by (rewrite Hn; ring).
    repeat split; try lra.
  - assert (T6 : (C - K) * a <= 1 * a) by (apply Qmult_le_compat_r; lra).
    assert (HH : K * a + N * a == K * a + a) by (rewrite Hn; ring).
    repeat split; try lra. all: try (right; exact Hz).
Qed.

(** general sign: [tx] is the low edge for [res > 0], the high edge for [res < 0] *)
Lemma snap_edge_spec x0 x1 rs tol :
  ~ rs == 0 -> x0 <= x1 -> 0 <= tol ->
  exists k n tx, snap_edge x0 x1 rs tol = Ok (tx, n) /\ axis_spec x0 x1 (Qabs rs) tol k n /\
    tx == (if Qltb 0 rs then inject_Z k * Qabs rs else inject_Z k * Qabs rs + inject_Z n * Qabs rs).
Proof.
  intros Hr Hx Ht. unfold snap_edge.
  assert (E2 : Qle_bool x0 x1 = true) by (apply Qle_bool_true; exact Hx).
  rewrite E2. cbn [guard bind].
  destruct (Qltb 0 rs) eqn:E.
  - apply Qltb_true in E.
    destruct (snap_edge_pos_spec x0 x1 rs tol E Hx Ht) as (k & n & R & S).
    exists k, n, (inject_Z k * rs). split; [exact R|].
    assert (Ea : Qabs rs == rs) by (apply Qabs_pos; lra).
    split; [|rewrite Ea; reflexivity].
    unfold axis_spec in *. rewrite Ea. exact S.
  - apply Qltb_false in E.
    assert (Hn : 0 < - rs) by (destruct (Qlt_le_dec rs 0); [lra|exfalso; apply Hr; lra]).
    destruct (snap_edge_pos_spec x0 x1 (- rs) tol Hn Hx Ht) as (k & n & R & S).
    rewrite R. cbn [bind]. exists k, n, (inject_Z k * - rs + inject_Z n * - rs). split; [reflexivity|].
    assert (Ea : Qabs rs == - rs) by (apply Qabs_neg; lra).
    split; [|rewrite Ea; reflexivity].
    unfold axis_spec in *. rewrite Ea. exact S.
Qed.

Definition off_ok (off : option Q) : Prop :=
  match off with None => True | Some o => 0 <= o /\ o < 1 end.

(** low / high edge of an axis given its origin, pixel count and signed pixel size *)
Definition axis_lo (tx : Q) (n : Z) (rs : Q) : Q := qmin tx (tx + inject_Z n * rs).
Definition axis_hi (tx : Q) (n : Z) (rs : Q) : Q := qmax tx (tx + inject_Z n * rs).

Lemma qmin_l x y : x <= y -> qmin x y == x.
Proof. intros H. unfold qmin. apply Qle_bool_true in H. rewrite H. reflexivity. Qed.
Lemma qmin_r x y : y <= x -> qmin x y == y.
Proof.
  intros H. unfold qmin. destruct (Qle_bool x y) eqn:E; [|reflexivity].
  apply Qle_bool_true in E. lra.
Qed.
Lemma qmax_l x y : y <= x -> qmax x y == x.
Proof.
  intros H. unfold qmax. destruct (Qle_bool x y) eqn:E; [|reflexivity].
  apply Qle_bool_true in E. lra.
Qed.
Lemma qmax_r x y : x <= y -> qmax x y == y.
Proof. intros H. unfold qmax. apply Qle_bool_true in H. rewrite H. reflexivity. Qed.

Lemma axis_lo_hi tx n rs a lo :
  (1 <= n)%Z -> 0 < a ->
  (0 < rs /\ a == rs /\ tx == lo) \/ (rs < 0 /\ a == - rs /\ tx == lo + inject_Z n * a) ->
  axis_lo tx n rs == lo /\ axis_hi tx n rs == lo + inject_Z n * a.
Proof.
  intros Hn Ha H. unfold axis_lo, axis_hi.
  assert (HN : 1 <= inject_Z n) by (rewrite <- inj1, <- Zle_Qle; exact Hn).
  set (N := inject_Z n) in *.
  destruct H as [(H1 & H2 & H3)|(H1 & H2 & H3)].
  - assert (0 <= N * rs) by nra.
    rewrite qmin_l, qmax_r by lra. rewrite H3, H2. split; reflexivity.
  - assert (N * rs <= 0) by nra.
    rewrite qmin_r, qmax_l by lra. rewrite H3, H2. split; ring.
Qed.

(** [snap_grid] with an anchor fraction: succeeds; covers up to [tol] pixel;
    low edge is [(k + o) * |res|]; excess below one pixel *)
Lemma snap_grid_some_spec x0 x1 rs o tol :
  ~ rs == 0 -> x0 <= x1 -> 0 <= tol -> 0 <= o -> o < 1 ->
  exists k n tx, snap_grid x0 x1 rs (Some o) tol = Ok (tx, n) /\
    let a := Qabs rs in
    let lo := (inject_Z k + o) * a in
    (1 <= n)%Z /\
    axis_lo tx n rs == lo /\ axis_hi tx n rs == lo + inject_Z n * a /\
    tx == (if Qltb 0 rs then lo else lo + inject_Z n * a) /\
    lo <= x0 + tol * a /\ lo <= x0 + (1 # 2) * a /\ x0 - a < lo /\
    x1 - tol * a <= lo + inject_Z n * a /\ x1 - (1 # 2) * a <= lo + inject_Z n * a /\
    (lo + inject_Z n * a < x1 + a \/ n = 1%Z).
Proof.
  intros Hr Hx Ht Ho1 Ho2. unfold snap_grid.
  assert (E : Qle_bool 0 o && Qltb o 1 = true).
  { apply andb_true_iff. split; [apply Qle_bool_true|apply Qltb_true]; assumption. }
  rewrite E. cbn [guard bind].
  set (off := o * Qabs rs).
  assert (Hx' : x0 - off <= x1 - off) by lra.
  destruct (snap_edge_spec (x0 - off) (x1 - off) rs tol Hr Hx' Ht) as (k & n & tx & R & S & T).
  rewrite R. cbn [bind]. exists k, n, (tx + off). split; [reflexivity|].
  assert (Ha : 0 < Qabs rs).
  { destruct (Qabs_cases rs) as [[H1 H2]|[H1 H2]]; rewrite H2; [|lra].
    destruct (Qlt_le_dec 0 rs); [lra|exfalso; apply Hr; lra]. }
  unfold axis_spec in S. destruct S as (S0 & S1 & S2 & S3 & S4 & S5 & S6).
  cbv zeta. set (a := Qabs rs) in *. set (K := inject_Z k) in *. set (N := inject_Z n) in *.
  assert (Elo : (K + o) * a == K * a + off) by (unfold off; ring).
  assert (AX : axis_lo (tx + off) n rs == (K + o) * a /\ axis_hi (tx + off) n rs == (K + o) * a + N * a).
  { apply axis_lo_hi; auto. destruct (Qltb 0 rs) eqn:E0.
    - apply Qltb_true in E0. left. split; [exact E0|]. split; [apply Qabs_pos; lra|]. rewrite T, Elo. reflexivity.
    - apply Qltb_false in E0. right.
      assert (rs < 0) by (destruct (Qlt_le_dec rs 0); [assumption|exfalso; apply Hr; lra]).
      split; [assumption|]. split; [apply Qabs_neg; lra|]. rewrite T, Elo. unfold N. ring. }
  destruct AX as [AX1 AX2].
  split; [exact S0|]. split; [exact AX1|]. split; [exact AX2|].
  split. { destruct (Qltb 0 rs); rewrite T, Elo; ring. }
  rewrite Elo. repeat split; try lra.
  destruct S6 as [S6|S6]; [left; lra|right; exact S6].
Qed.

(** [snap_grid] without snapping: starts exactly at the box edge *)
Lemma snap_grid_none_spec x0 x1 rs tol :
  ~ rs == 0 -> x0 <= x1 -> 0 <= tol ->
  exists n, snap_grid x0 x1 rs None tol = Ok ((if Qltb 0 rs then x0 else x1), n) /\
    let a := Qabs rs in
    (1 <= n)%Z /\
    x1 - tol * a <= x0 + inject_Z n * a /\
    x1 - (1 # 2) * a <= x0 + inject_Z n * a /\
    (x0 + inject_Z n * a < x1 + a \/ n = 1%Z).
Proof.
  intros Hr Hx Ht. unfold snap_grid.
  assert (Ha : 0 < Qabs rs).
  { destruct (Qabs_cases rs) as [[H1 H2]|[H1 H2]]; rewrite H2; [|lra].
    destruct (Qlt_le_dec 0 rs); [lra|exfalso; apply Hr; lra]. }
  assert (G : forall a, 0 < a -> forall c : Z, (x1 - x0) / a - tol <= inject_Z c ->
              (x1 - x0) / a - (1 # 2) <= inject_Z c -> inject_Z c < (x1 - x0) / a + 1 ->
              let n := Z.max 1 c in
              (1 <= n)%Z /\ x1 - tol * a <= x0 + inject_Z n * a /\ x1 - (1 # 2) * a <= x0 + inject_Z n * a /\
              (x0 + inject_Z n * a < x1 + a \/ n = 1%Z)).
  { intros a Pa c C1 C2 C3. cbv zeta.
    assert (Q1 : x1 - x0 == ((x1 - x0) / a) * a) by (field; lra).
    set (y := (x1 - x0) / a) in *. set (C := inject_Z c) in *.
    assert (T3 : (y - tol) * a <= C * a) by (apply Qmult_le_compat_r; lra).
    assert (T4 : (y - (1 # 2)) * a <= C * a) by (apply Qmult_le_compat_r; lra).
    assert (T5 : C * a < (y + 1) * a) by (apply Qmult_lt_compat_r; lra).
    split; [lia|].
    destruct (Z.max_spec 1 c) as [[L E]|[L E]]; rewrite E.
    - fold C. split; [lra|]. split; [lra|left; lra].
    - assert (C <= 1) as A by (unfold C; rewrite <- inj1, <- Zle_Qle; lia).
      assert (T6 : C * a <= 1 * a) by (apply Qmult_le_compat_r; lra).
      rewrite inj1. split; [lra|]. split; [lra|right; reflexivity]. }
  destruct (Qltb 0 rs) eqn:E.
  - apply Qltb_true in E.
    destruct (ceil_maybe_int ((x1 - x0) / rs) tol Ht) as (c & Ec & C1 & C2 & C3).
    rewrite Ec. exists (Z.max 1 c). split; [reflexivity|].
    assert (Ea : Qabs rs == rs) by (apply Qabs_pos; lra).
    cbv zeta. rewrite Ea. apply (G rs E c C1 C2 C3).
  - apply Qltb_false in E.
    assert (Hn : rs < 0) by (destruct (Qlt_le_dec rs 0); [assumption|exfalso; apply Hr; lra]).
    assert (E0 : Qeq_bool rs 0 = false) by (apply Qeq_bool_false; exact Hr).
    rewrite E0. cbn [negb guard bind].
    destruct (ceil_maybe_int ((x1 - x0) / - rs) tol Ht) as (c & Ec & C1 & C2 & C3).
    rewrite Ec. exists (Z.max c 1). split; [reflexivity|].
    assert (Ea : Qabs rs == - rs) by (apply Qabs_neg; lra).
    cbv zeta. rewrite Ea. rewrite Z.max_comm. apply (G (- rs)); [lra|exact C1|exact C2|exact C3].
Qed.

(** * One axis, statement form used by the 2-d results *)

Lemma abs_pos_of_nonzero rs : ~ rs == 0 -> 0 < Qabs rs.
Proof.
  intros Hr. destruct (Qabs_cases rs) as [[H1 H2]|[H1 H2]]; rewrite H2; [|lra].
  destruct (Qlt_le_dec 0 rs); [lra|exfalso; apply Hr; lra].
Qed.

Lemma snap_grid_ok_inv x0 x1 rs off tol r :
  snap_grid x0 x1 rs off tol = Ok r -> ~ rs == 0 /\ off_ok off.
Proof.
  unfold snap_grid. destruct off as [o|].
  - destruct (Qle_bool 0 o && Qltb o 1) eqn:E; cbn [guard bind]; [|discriminate].
    apply andb_true_iff in E. destruct E as [E1 E2]. apply Qle_bool_true in E1. apply Qltb_true in E2.
    intros H. split; [|simpl; split; assumption].
    unfold snap_edge in H.
    destruct (Qle_bool (x0 - o * Qabs rs) (x1 - o * Qabs rs)); cbn [guard bind] in H; [|discriminate].
    destruct (Qltb 0 rs) eqn:E.
    + apply Qltb_true in E. intros C. lra.
    + unfold snap_edge_pos in H. destruct (Qltb 0 (- rs)) eqn:E'; cbn [guard bind] in H; [|discriminate].
      apply Qltb_true in E'. intros C. lra.
  - destruct (Qltb 0 rs) eqn:E.
    + apply Qltb_true in E. intros _. split; [intros C; lra|exact I].
    + destruct (Qeq_bool rs 0) eqn:E'; cbn [negb guard bind]; [discriminate|].
      apply Qeq_bool_false in E'. intros _. split; [exact E'|exact I].
Qed.

Definition axis_props (x0 x1 rs : Q) (off : option Q) (tol tx : Q) (n : Z) : Prop :=
  let a := Qabs rs in
  let lo := axis_lo tx n rs in
  let hi := axis_hi tx n rs in
  (1 <= n)%Z /\ 0 < a /\
  lo <= x0 + tol * a /\ lo <= x0 + (1 # 2) * a /\ x0 - a < lo /\
  x1 - tol * a <= hi /\ x1 - (1 # 2) * a <= hi /\ (hi < x1 + a \/ n = 1%Z) /\
  hi == lo + inject_Z n * a /\
  tx == (if Qltb 0 rs then lo else hi) /\
  match off with
  | Some o => forall i : Z, exists k : Z, tx + inject_Z i * rs == (inject_Z k + o) * a
  | None => tx == (if Qltb 0 rs then x0 else x1)
  end.

Lemma snap_grid_props x0 x1 rs off tol tx n :
  snap_grid x0 x1 rs off tol = Ok (tx, n) -> x0 < x1 -> 0 <= tol ->
  axis_props x0 x1 rs off tol tx n.
Proof.
  intros H Hx Ht. destruct (snap_grid_ok_inv _ _ _ _ _ _ H) as [Hr Ho].
  pose proof (abs_pos_of_nonzero rs Hr) as Ha.
  assert (Hx' : x0 <= x1) by lra.
  destruct off as [o|].
  - destruct Ho as [Ho1 Ho2].
    destruct (snap_grid_some_spec x0 x1 rs o tol Hr Hx' Ht Ho1 Ho2)
      as (k & n' & tx' & R & S0 & S1 & S2 & S3 & S4 & S5 & S6 & S7 & S8 & S9).
    rewrite R in H. injection H as -> ->.
    unfold axis_props. cbv zeta. cbv zeta in S1, S2, S3, S4, S5, S6, S7, S8, S9.
    set (lo := axis_lo tx n rs) in *. set (hi := axis_hi tx n rs) in *.
    split; [exact S0|]. split; [exact Ha|].
    split; [lra|]. split; [lra|]. split; [lra|]. split; [lra|]. split; [lra|].
    split. { destruct S9 as [S9|S9]; [left; lra|right; exact S9]. }
    split; [lra|].
    split. { destruct (Qltb 0 rs); rewrite S3; lra. }
    intros i. destruct (Qltb 0 rs) eqn:E.
    + apply Qltb_true in E. assert (Ea : Qabs rs == rs) by (apply Qabs_pos; lra).
      exists (k + i)%Z. rewrite S3, inject_Z_plus, Ea. ring.
    + apply Qltb_false in E. assert (Ea : Qabs rs == - rs) by (apply Qabs_neg; lra).
      exists (k + n - i)%Z. rewrite S3. unfold Z.sub. rewrite !inject_Z_plus, inject_Z_opp, Ea. ring.
  - destruct (snap_grid_none_spec x0 x1 rs tol Hr Hx' Ht) as (n' & R & S0 & S1 & S1' & S2).
    rewrite R in H. injection H as H1 H2. subst tx n'. cbv zeta in S1, S1', S2.
    unfold axis_props. cbv zeta.
    assert (HN : 1 <= inject_Z n) by (rewrite <- inj1, <- Zle_Qle; exact S0).
    destruct (Qltb 0 rs) eqn:E.
    + apply Qltb_true in E. assert (Ea : Qabs rs == rs) by (apply Qabs_pos; lra).
      destruct (axis_lo_hi x0 n rs (Qabs rs) x0 S0 Ha) as [L1 L2].
      { left. repeat split; [exact E|exact Ea]. }
      set (lo := axis_lo x0 n rs) in *. set (hi := axis_hi x0 n rs) in *.
      split; [exact S0|]. split; [exact Ha|].
      set (a := Qabs rs) in *. set (N := inject_Z n) in *.
      assert (0 <= tol * a) by nra.
      split; [lra|]. split; [lra|]. split; [lra|]. split; [lra|].
      assert (a <= N * a) by nra.
      split; [lra|].
      split. { destruct S2 as [S2|S2]; [left; lra|right; exact S2]. }
      split; [lra|]. split; [lra|]. reflexivity.
    + apply Qltb_false in E.
      assert (Hn : rs < 0) by (destruct (Qlt_le_dec rs 0); [assumption|exfalso; apply Hr; lra]).
      assert (Ea : Qabs rs == - rs) by (apply Qabs_neg; lra).
      destruct (axis_lo_hi x1 n rs (Qabs rs) (x1 - inject_Z n * Qabs rs) S0 Ha) as [L1 L2].
      { right. repeat split; [exact Hn|exact Ea|ring]. }
      set (lo := axis_lo x1 n rs) in *. set (hi := axis_hi x1 n rs) in *.
      split; [exact S0|]. split; [exact Ha|].
      set (a := Qabs rs) in *. set (N := inject_Z n) in *.
      assert (0 <= tol * a) by nra.
      assert (a <= N * a) by nra.
      split; [lra|]. split; [lra|]. split.
      { destruct S2 as [S2|S2]; [lra|]. subst n. unfold N in *. rewrite inj1 in *. lra. }
      split; [lra|]. split; [lra|]. split; [left; lra|]. split; [lra|]. split; [lra|]. reflexivity.
Qed.

Lemma snap_grid_total x0 x1 rs off tol :
  ~ rs == 0 -> x0 <= x1 -> 0 <= tol -> off_ok off -> exists tx n, snap_grid x0 x1 rs off tol = Ok (tx, n).
Proof.
  intros Hr Hx Ht Ho. destruct off as [o|].
  - destruct Ho as [Ho1 Ho2].
    destruct (snap_grid_some_spec x0 x1 rs o tol Hr Hx Ht Ho1 Ho2) as (k & n & tx & R & _). eauto.
  - destruct (snap_grid_none_spec x0 x1 rs tol Hr Hx Ht) as (n & R & _). eauto.
Qed.

(** * from_bbox *)

Definition valid_box (B : bbox) : Prop := bl B < br B /\ bb B < bt B.

(** the grid assembled from two snapped axes *)
Definition build (B : bbox) (crs : Z) (snap : option (Q * Q)) (rx ry tol : Q) : res gbox :=
  '(offx, nx) <- snap_grid (bl B) (br B) rx (option_map fst snap) tol ;;
  '(offy, ny) <- snap_grid (bb B) (bt B) ry (option_map snd snap) tol ;;
  Ok (mkG ny nx (aff_mul (aff_translation offx offy) (aff_scale rx ry)) crs).

Lemma from_bbox_resolution B crs tight rx ry anc tol :
  from_bbox B crs tight None (Some (rx, ry)) anc tol =
  (a <- norm_anchor anc ;; build B crs (snap_of tight a) rx ry tol).
Proof. unfold from_bbox, build. destruct (norm_anchor anc); reflexivity. Qed.

Definition longest_res (B : bbox) (n : Z) : Q :=
  if Qltb 1 (span_x B / span_y B) then span_x B / inject_Z n else span_y B / inject_Z n.

Lemma from_bbox_shapeN B crs tight n r anc tol :
  from_bbox B crs tight (Some (ShapeN n)) r anc tol =
  (a <- norm_anchor anc ;;
   _ <- guard (negb (Qeq_bool (span_y B) 0)) EOther ;;
   _ <- guard (negb (Z.eqb n 0)) EOther ;;
   build B crs (snap_of tight a) (longest_res B n) (- longest_res B n) tol).
Proof.
  unfold from_bbox, build, longest_res. destruct (norm_anchor anc); [|reflexivity]. cbn [bind].
  destruct (negb (Qeq_bool (span_y B) 0)); [|reflexivity]. cbn [guard bind].
  destruct (negb (Z.eqb n 0)); reflexivity.
Qed.

Lemma build_inv B crs snap rx ry tol g :
  build B crs snap rx ry tol = Ok g ->
  exists offx nx offy ny,
    snap_grid (bl B) (br B) rx (option_map fst snap) tol = Ok (offx, nx) /\
    snap_grid (bb B) (bt B) ry (option_map snd snap) tol = Ok (offy, ny) /\
    g = mkG ny nx (aff_mul (aff_translation offx offy) (aff_scale rx ry)) crs.
Proof.
  unfold build. intros H.
  apply bind_ok in H. destruct H as ([offx nx] & H1 & H).
  apply bind_ok in H. destruct H as ([offy ny] & H2 & H).
  injection H as <-. exists offx, nx, offy, ny. auto.
Qed.

Lemma aff_mul_ts offx offy rx ry :
  let m := aff_mul (aff_translation offx offy) (aff_scale rx ry) in
  aa m == rx /\ ab m == 0 /\ ac m == offx /\ ad m == 0 /\ ae m == ry /\ af m == offy.
Proof.
  unfold aff_mul, aff_translation, aff_scale. cbn [aa ab ac ad ae af].
  repeat split; ring.
Qed.

(** what a grid built from box [B] with snap offsets [snap], pixel size
    [(rx, ry)] and tolerance [tol] satisfies *)
Definition grid_props (B : bbox) (snap : option (Q * Q)) (rx ry tol : Q) (g : gbox) : Prop :=
  aa (g_aff g) == rx /\ ae (g_aff g) == ry /\ ab (g_aff g) == 0 /\ ad (g_aff g) == 0 /\
  axis_props (bl B) (br B) (aa (g_aff g)) (option_map fst snap) tol (g_x0 g) (g_nx g) /\
  axis_props (bb B) (bt B) (ae (g_aff g)) (option_map snd snap) tol (g_y0 g) (g_ny g).

Lemma Qltb_ext x y y' : y' == y -> Qltb x y' = Qltb x y.
Proof.
  intros E. destruct (Qltb x y) eqn:H.
  - apply Qltb_true in H. apply Qltb_true. lra.
  - apply Qltb_false in H. apply Qltb_false. lra.
Qed.

Lemma axis_lo_ext tx tx' n rs rs' : tx' == tx -> rs' == rs -> axis_lo tx' n rs' == axis_lo tx n rs.
Proof.
  intros E F. assert (G : inject_Z n * rs' == inject_Z n * rs) by (rewrite F; reflexivity).
  unfold axis_lo, qmin.
  destruct (Qle_bool tx' (tx' + inject_Z n * rs')) eqn:E1; destruct (Qle_bool tx (tx + inject_Z n * rs)) eqn:E2;
    try (apply Qle_bool_true in E1); try (apply Qle_bool_true in E2);
    try (apply Qle_bool_false in E1); try (apply Qle_bool_false in E2); lra.
Qed.

Lemma axis_hi_ext tx tx' n rs rs' : tx' == tx -> rs' == rs -> axis_hi tx' n rs' == axis_hi tx n rs.
Proof.
  intros E F. assert (G : inject_Z n * rs' == inject_Z n * rs) by (rewrite F; reflexivity).
  unfold axis_hi, qmax.
  destruct (Qle_bool tx' (tx' + inject_Z n * rs')) eqn:E1; destruct (Qle_bool tx (tx + inject_Z n * rs)) eqn:E2;
    try (apply Qle_bool_true in E1); try (apply Qle_bool_true in E2);
    try (apply Qle_bool_false in E1); try (apply Qle_bool_false in E2); lra.
Qed.

Lemma axis_props_ext x0 x1 rs rs' off tol tx tx' n :
  tx' == tx -> rs' == rs -> axis_props x0 x1 rs off tol tx n ->
  axis_props x0 x1 rs' off tol tx' n.
Proof.
  intros E F H. unfold axis_props in *. cbv zeta in *.
  pose proof (axis_lo_ext tx tx' n rs rs' E F) as L.
  pose proof (axis_hi_ext tx tx' n rs rs' E F) as Hh.
  assert (A : Qabs rs' == Qabs rs) by (rewrite F; reflexivity).
  rewrite (Qltb_ext 0 rs rs' F).
  set (lo' := axis_lo tx' n rs') in *. set (hi' := axis_hi tx' n rs') in *.
  set (lo := axis_lo tx n rs) in *. set (hi := axis_hi tx n rs) in *.
  set (a' := Qabs rs') in *. set (a := Qabs rs) in *.
  destruct H as (H0 & H1 & H2 & H3 & H4 & H5 & H6 & H7 & H8 & H9 & H10).
  assert (M : forall c, c * a' == c * a) by (intros c; rewrite A; reflexivity).
  pose proof (M tol) as M1. pose proof (M (1 # 2)) as M2. pose proof (M (inject_Z n)) as M3.
  split; [exact H0|]. split; [lra|].
  split; [lra|]. split; [lra|]. split; [lra|]. split; [lra|]. split; [lra|].
  split. { destruct H7 as [H7|H7]; [left; lra|right; exact H7]. }
  split; [lra|].
  split. { destruct (Qltb 0 rs); lra. }
  destruct off as [o|].
  - intros i. destruct (H10 i) as (k & Hk). exists k.
    pose proof (M (inject_Z k + o)) as M4.
    assert (inject_Z i * rs' == inject_Z i * rs) by (rewrite F; reflexivity). lra.
  - rewrite E. exact H10.
Qed.

Lemma build_props B crs snap rx ry tol g :
  build B crs snap rx ry tol = Ok g -> valid_box B -> 0 <= tol ->
  g_crs g = crs /\ grid_props B snap rx ry tol g.
Proof.
  intros H [Vx Vy] Ht. apply build_inv in H. destruct H as (offx & nx & offy & ny & H1 & H2 & ->).
  split; [reflexivity|].
  pose proof (snap_grid_props _ _ _ _ _ _ _ H1 Vx Ht) as P1.
  pose proof (snap_grid_props _ _ _ _ _ _ _ H2 Vy Ht) as P2.
  destruct (aff_mul_ts offx offy rx ry) as (A1 & A2 & A3 & A4 & A5 & A6).
  unfold grid_props, g_x0, g_y0. cbn [g_aff g_nx g_ny].
  split; [exact A1|]. split; [exact A5|]. split; [exact A2|]. split; [exact A4|].
  split.
  - apply (axis_props_ext _ _ rx _ _ _ offx); [exact A3|exact A1|exact P1].
  - apply (axis_props_ext _ _ ry _ _ _ offy); [exact A6|exact A5|exact P2].
Qed.

(** * compute_output_geobox: decision table *)

Definition shortcut (s : src) (dst : Z) (rq : res_req) (shape : option shape_req) (anc : anchor) : bool :=
  Z.eqb dst (s_crs s) && is_auto_or_same rq && is_none shape && is_default_anchor anc && s_isgeobox s.

Lemma cog_unfold s dst du B fit rq shape tight anc tol rr :
  compute_output_geobox s dst du B fit rq shape tight anc tol rr =
  if shortcut s dst rq shape anc then Ok OSame
  else r <- choose_resolution s du fit rq shape rr ;;
       g <- from_bbox B dst tight shape r anc tol ;; Ok (ONew g).
Proof. reflexivity. Qed.

Lemma shortcut_true_iff s dst rq shape anc :
  shortcut s dst rq shape anc = true <->
  dst = s_crs s /\ (rq = RAuto \/ rq = RSame) /\ shape = None /\ anc = AStr SDefault /\ s_isgeobox s = true.
Proof.
  unfold shortcut. rewrite !andb_true_iff, Z.eqb_eq. split.
  - intros ((((H1 & H2) & H3) & H4) & H5). split; [exact H1|].
    split. { destruct rq; simpl in H2; try discriminate; auto. }
    split. { destruct shape; simpl in H3; [discriminate|reflexivity]. }
    split; [|exact H5].
    destruct anc as [| | | | |[]]; simpl in H4; try discriminate. reflexivity.
  - intros (H1 & H2 & H3 & H4 & H5). subst. destruct H2; subst; simpl; auto.
Qed.

(** same CRS + default options: the input object itself, whatever tight/tol/round_resolution *)
Lemma cog_identity s du B fit rq tight tol rr :
  s_isgeobox s = true -> rq = RAuto \/ rq = RSame ->
  compute_output_geobox s (s_crs s) du B fit rq None tight (AStr SDefault) tol rr = Ok OSame.
Proof.
  intros H1 H2. rewrite cog_unfold.
  assert (E : shortcut s (s_crs s) rq None (AStr SDefault) = true) by (apply shortcut_true_iff; auto).
  rewrite E. reflexivity.
Qed.

Lemma cog_same_only s dst du B fit rq shape tight anc tol rr :
  compute_output_geobox s dst du B fit rq shape tight anc tol rr = Ok OSame ->
  dst = s_crs s /\ (rq = RAuto \/ rq = RSame) /\ shape = None /\ anc = AStr SDefault /\ s_isgeobox s = true.
Proof.
  rewrite cog_unfold. destruct (shortcut s dst rq shape anc) eqn:E.
  - intros _. apply shortcut_true_iff. exact E.
  - intros H. apply bind_ok in H. destruct H as (r & _ & H).
    apply bind_ok in H. destruct H as (g & _ & H). discriminate.
Qed.

Lemma cog_new_inv s dst du B fit rq shape tight anc tol rr g :
  compute_output_geobox s dst du B fit rq shape tight anc tol rr = Ok (ONew g) ->
  exists r, choose_resolution s du fit rq shape rr = Ok r /\ from_bbox B dst tight shape r anc tol = Ok g.
Proof.
  rewrite cog_unfold. destruct (shortcut s dst rq shape anc); [discriminate|].
  intros H. apply bind_ok in H. destruct H as (r & H1 & H).
  apply bind_ok in H. destruct H as (g' & H2 & H). injection H as <-. eauto.
Qed.

(** the resolution rounding hook *)
Definition rounded (rr : rr_mode) (fit : Q) : Q :=
  match rr with
  | RRNone | RRBool false => fit
  | RRBool true => inject_Z (round_half_even fit)
  | RRFun f => f fit
  end.

(** the decision table for the pixel size, when no shape is requested *)
Definition chosen (s : src) (du : Z) (fit : Q) (rq : res_req) (rr : rr_mode) : res (Q * Q) :=
  match rq with
  | RSame => Ok (s_res s)
  | RAuto => if Z.eqb (s_units s) du then Ok (s_res s) else Ok (rounded rr fit, - rounded rr fit)
  | RFit => Ok (rounded rr fit, - rounded rr fit)
  | RStr => Err EValue
  | RNum q => Ok (q, - q)
  | RXY x y => Ok (x, y)
  end.

Lemma choose_resolution_none s du fit rq rr :
  choose_resolution s du fit rq None rr =
  match chosen s du fit rq rr with Ok r => Ok (Some r) | Err e => Err e end.
Proof.
  unfold choose_resolution, chosen, rounded, res_. simpl.
  destruct rq; try reflexivity; try (destruct (Z.eqb (s_units s) du)); try reflexivity;
    destruct rr as [|[]|]; reflexivity.
Qed.

Lemma choose_resolution_shape s du fit rq sh rr :
  choose_resolution s du fit rq (Some sh) rr = Ok None.
Proof. reflexivity. Qed.

(** invalid resolution string: ValueError (unless a shape is given) *)
Lemma cog_bad_string s dst du B fit tight anc tol rr :
  compute_output_geobox s dst du B fit RStr None tight anc tol rr = Err EValue.
Proof.
  rewrite cog_unfold.
  assert (E : shortcut s dst RStr None anc = false).
  { unfold shortcut. simpl. rewrite andb_false_r. reflexivity. }
  rewrite E. reflexivity.
Qed.

(** * Resolution-driven and single-number-shape results *)

Definition not_yx (shape : option shape_req) : Prop :=
  match shape with Some (ShapeYX _ _) => False | _ => True end.

Lemma cog_grid s dst du B fit rq shape tight anc tol rr g :
  compute_output_geobox s dst du B fit rq shape tight anc tol rr = Ok (ONew g) ->
  not_yx shape -> valid_box B -> 0 <= tol ->
  exists na rx ry,
    norm_anchor anc = Ok na /\ g_crs g = dst /\
    grid_props B (snap_of tight na) rx ry tol g /\
    match shape with
    | None => chosen s du fit rq rr = Ok (rx, ry)
    | Some (ShapeN n) => n <> 0%Z /\ rx = longest_res B n /\ ry = - longest_res B n
    | _ => False
    end.
Proof.
  intros H NY V Ht. apply cog_new_inv in H. destruct H as (r & H1 & H2).
  destruct shape as [[n|ny nx]|]; [| destruct NY |].
  - rewrite from_bbox_shapeN in H2.
    apply bind_ok in H2. destruct H2 as (na & Ha & H2).
    apply bind_ok in H2. destruct H2 as (u1 & _ & H2).
    apply bind_ok in H2. destruct H2 as (u2 & Hn & H2).
    destruct (build_props _ _ _ _ _ _ _ H2 V Ht) as [C P].
    exists na, (longest_res B n), (- longest_res B n).
    split; [exact Ha|]. split; [exact C|]. split; [exact P|]. split; [|split; reflexivity].
    destruct (Z.eqb n 0) eqn:E; simpl in Hn; [discriminate|]. apply Z.eqb_neq in E. exact E.
  - rewrite choose_resolution_none in H1.
    destruct (chosen s du fit rq rr) as [[rx ry]|e] eqn:Ec; [|discriminate].
    injection H1 as <-. rewrite from_bbox_resolution in H2.
    apply bind_ok in H2. destruct H2 as (na & Ha & H2).
    destruct (build_props _ _ _ _ _ _ _ H2 V Ht) as [C P].
    exists na, rx, ry. split; [exact Ha|]. split; [exact C|]. split; [exact P|]. reflexivity.
Qed.

(** * Statements about a result grid *)
Definition px (g : gbox) : Q := Qabs (aa (g_aff g)).
Definition py (g : gbox) : Q := Qabs (ae (g_aff g)).

Definition axis_aligned (g : gbox) : Prop := ab (g_aff g) == 0 /\ ad (g_aff g) == 0.

(** the grid covers box [B] except at most [tol] pixel per side *)
Definition covers (B : bbox) (tol : Q) (g : gbox) : Prop :=
  g_left g <= bl B + tol * px g /\ br B - tol * px g <= g_right g /\
  g_bottom g <= bb B + tol * py g /\ bt B - tol * py g <= g_top g.

(** ... and is less than one pixel larger than necessary on every side
    (a side of exactly one pixel is the documented minimum) *)
Definition snug (B : bbox) (g : gbox) : Prop :=
  bl B - px g < g_left g /\ (g_right g < br B + px g \/ g_nx g = 1%Z) /\
  bb B - py g < g_bottom g /\ (g_top g < bt B + py g \/ g_ny g = 1%Z).

(** every pixel edge sits at (integer + anchor fraction) * pixel size *)
Definition aligned (sx sy : Q) (g : gbox) : Prop :=
  forall i : Z,
    (exists k : Z, g_x0 g + inject_Z i * aa (g_aff g) == (inject_Z k + sx) * px g) /\
    (exists k : Z, g_y0 g + inject_Z i * ae (g_aff g) == (inject_Z k + sy) * py g).

(** no snapping: the grid starts exactly at the box corner its orientation dictates *)
Definition starts_at_box (B : bbox) (g : gbox) : Prop :=
  g_x0 g == (if Qltb 0 (aa (g_aff g)) then bl B else br B) /\
  g_y0 g == (if Qltb 0 (ae (g_aff g)) then bb B else bt B).

Definition alignment_as_requested (B : bbox) (snap : option (Q * Q)) (g : gbox) : Prop :=
  match snap with
  | Some (sx, sy) => aligned sx sy g
  | None => starts_at_box B g
  end.

Lemma grid_props_facts B snap rx ry tol g :
  grid_props B snap rx ry tol g ->
  aa (g_aff g) == rx /\ ae (g_aff g) == ry /\ axis_aligned g /\
  (1 <= g_nx g)%Z /\ (1 <= g_ny g)%Z /\ 0 < px g /\ 0 < py g /\
  covers B tol g /\ snug B g /\ alignment_as_requested B snap g.
Proof.
  intros (A1 & A2 & A3 & A4 & PX & PY).
  unfold axis_props in PX, PY. cbv zeta in PX, PY.
  destruct PX as (X0 & X1 & X2 & X3 & X4 & X5 & X6 & X7 & X8 & X9 & X10).
  destruct PY as (Y0 & Y1 & Y2 & Y3 & Y4 & Y5 & Y6 & Y7 & Y8 & Y9 & Y10).
  split; [exact A1|]. split; [exact A2|]. split; [split; assumption|].
  split; [exact X0|]. split; [exact Y0|]. split; [exact X1|]. split; [exact Y1|].
  split. { unfold covers, g_left, g_right, g_bottom, g_top, px, py. repeat split; assumption. }
  split. { unfold snug, g_left, g_right, g_bottom, g_top, px, py. repeat split; assumption. }
  unfold alignment_as_requested. destruct snap as [[sx sy]|]; simpl in X10, Y10.
  - intros i. split; [apply X10|apply Y10].
  - split; assumption.
Qed.

(** * Shape (ny, nx) request *)

Definition yx_rx (B : bbox) (nx : Z) : Q := span_x B / inject_Z nx.
Definition yx_ry (B : bbox) (ny : Z) : Q := - span_y B / inject_Z ny.

Lemma from_bbox_shapeYX_inv B crs tight ny nx r anc tol g :
  from_bbox B crs tight (Some (ShapeYX ny nx)) r anc tol = Ok g -> r = None ->
  exists na offx offy,
    norm_anchor anc = Ok na /\ nx <> 0%Z /\ ny <> 0%Z /\
    g = mkG ny nx (aff_mul (aff_translation offx offy) (aff_scale (yx_rx B nx) (yx_ry B ny))) crs /\
    match snap_of tight na with
    | None => offx = bl B /\ offy = bt B
    | Some (sx, sy) =>
        exists n1 n2, snap_grid (bl B) (br B) (yx_rx B nx) (Some sx) tol = Ok (offx, n1) /\
                      snap_grid (bb B) (bt B) (yx_ry B ny) (Some sy) tol = Ok (offy, n2)
    end.
Proof.
  intros H ->. unfold from_bbox in H.
  apply bind_ok in H. destruct H as (na & Ha & H). cbn [bind] in H.
  apply bind_ok in H. destruct H as (u1 & Hnx & H).
  apply bind_ok in H. destruct H as (u2 & Hny & H).
  apply bind_ok in H. destruct H as ([offx offy] & Hoff & H).
  injection H as <-. exists na, offx, offy.
  split; [exact Ha|].
  split. { destruct (Z.eqb nx 0) eqn:E; simpl in Hnx; [discriminate|]. apply Z.eqb_neq in E. exact E. }
  split. { destruct (Z.eqb ny 0) eqn:E; simpl in Hny; [discriminate|]. apply Z.eqb_neq in E. exact E. }
  split; [reflexivity|].
  destruct (snap_of tight na) as [[sx sy]|].
  - apply bind_ok in Hoff. destruct Hoff as ([ox n1] & H1 & Hoff).
    apply bind_ok in Hoff. destruct Hoff as ([oy n2] & H2 & Hoff).
    injection Hoff as <- <-. exists n1, n2. split; assumption.
  - injection Hoff as <- <-. split; reflexivity.
Qed.

Lemma inject_Z_pos n : (0 < n)%Z -> 1 <= inject_Z n.
Proof. intros H. rewrite <- inj1, <- Zle_Qle. lia. Qed.

Lemma Qabs_lt x y : - y < x -> x < y -> Qabs x < y.
Proof. intros H1 H2. apply Qabs_Qlt_condition. split; assumption. Qed.

(** explicit (ny, nx): exact shape, pixel size = span / shape, axis aligned,
    displaced by less than one pixel (not at all without snapping), snapped as requested *)
Lemma cog_shape_yx s dst du B fit rq ny nx tight anc tol rr g :
  compute_output_geobox s dst du B fit rq (Some (ShapeYX ny nx)) tight anc tol rr = Ok (ONew g) ->
  valid_box B -> 0 <= tol -> (0 < nx)%Z -> (0 < ny)%Z ->
  g_ny g = ny /\ g_nx g = nx /\ g_crs g = dst /\ axis_aligned g /\
  aa (g_aff g) == span_x B / inject_Z nx /\ ae (g_aff g) == - (span_y B / inject_Z ny) /\
  Qabs (g_x0 g - bl B) < px g /\ Qabs (g_y0 g - bt B) < py g /\
  exists na, norm_anchor anc = Ok na /\
    match snap_of tight na with
    | None => g_x0 g == bl B /\ g_y0 g == bt B
    | Some (sx, sy) => aligned sx sy g
    end.
Proof.
  intros H [Vx Vy] Ht Hnx Hny. apply cog_new_inv in H. destruct H as (r & H1 & H2).
  rewrite choose_resolution_shape in H1. injection H1 as <-.
  destruct (from_bbox_shapeYX_inv _ _ _ _ _ _ _ _ _ H2 eq_refl) as (na & offx & offy & Ha & _ & _ & -> & Hs).
  destruct (aff_mul_ts offx offy (yx_rx B nx) (yx_ry B ny)) as (A1 & A2 & A3 & A4 & A5 & A6).
  pose proof (inject_Z_pos nx Hnx) as Px. pose proof (inject_Z_pos ny Hny) as Py.
  unfold g_x0, g_y0, px, py, axis_aligned. cbn [g_aff g_nx g_ny g_crs].
  set (m := aff_mul (aff_translation offx offy) (aff_scale (yx_rx B nx) (yx_ry B ny))) in *.
  assert (Rx : yx_rx B nx == span_x B / inject_Z nx) by reflexivity.
  assert (Ry : yx_ry B ny == - (span_y B / inject_Z ny)) by (unfold yx_ry; field; lra).
  assert (Sx : 0 < span_x B) by (unfold span_x; lra).
  assert (Sy : 0 < span_y B) by (unfold span_y; lra).
  assert (Mx : inject_Z nx * (span_x B / inject_Z nx) == span_x B) by (field; lra).
  assert (My : inject_Z ny * (span_y B / inject_Z ny) == span_y B) by (field; lra).
  set (ax := span_x B / inject_Z nx) in *. set (ay := span_y B / inject_Z ny) in *.
  assert (Pax : 0 < ax) by nra. assert (Pay : 0 < ay) by nra.
  assert (Eax : Qabs (aa m) == ax) by (rewrite A1, Rx; apply Qabs_pos; lra).
  assert (Eay : Qabs (ae m) == ay).
  { rewrite A5, Ry. rewrite Qabs_opp. apply Qabs_pos; lra. }
  split; [reflexivity|]. split; [reflexivity|]. split; [reflexivity|].
  split; [split; assumption|]. split; [rewrite A1; exact Rx|]. split; [rewrite A5; exact Ry|].
  destruct (snap_of tight na) as [[sx sy]|] eqn:Es.
  - destruct Hs as (n1 & n2 & S1 & S2).
    pose proof (snap_grid_props _ _ _ _ _ _ _ S1 Vx Ht) as P1.
    pose proof (snap_grid_props _ _ _ _ _ _ _ S2 Vy Ht) as P2.
    assert (Q1 := axis_props_ext _ _ _ (aa m) _ _ _ (ac m) _ A3 A1 P1).
    assert (Q2 := axis_props_ext _ _ _ (ae m) _ _ _ (af m) _ A6 A5 P2).
    clear P1 P2. unfold axis_props in Q1, Q2. cbv zeta in Q1, Q2.
    destruct Q1 as (X0 & X1 & X2 & X3 & X4 & X5 & X6 & X7 & X8 & X9 & X10).
    destruct Q2 as (Y0 & Y1 & Y2 & Y3 & Y4 & Y5 & Y6 & Y7 & Y8 & Y9 & Y10).
    assert (Tx : Qltb 0 (aa m) = true) by (apply Qltb_true; rewrite A1, Rx; exact Pax).
    assert (Ty : Qltb 0 (ae m) = false) by (apply Qltb_false; rewrite A5, Ry; lra).
    rewrite Tx in X9. rewrite Ty in Y9.
    set (lox := axis_lo (ac m) n1 (aa m)) in *. set (hix := axis_hi (ac m) n1 (aa m)) in *.
    set (loy := axis_lo (af m) n2 (ae m)) in *. set (hiy := axis_hi (af m) n2 (ae m)) in *.
    split. { apply Qabs_lt; lra. }
    split.
    { apply Qabs_lt; [lra|]. destruct Y7 as [Y7|Y7]; [lra|].
      subst n2. rewrite inj1 in Y8. assert (ay <= inject_Z ny * ay) by nra. unfold span_y in *. lra. }
    exists na. split; [exact Ha|]. rewrite Es. intros i. split; [apply X10|apply Y10].
  - destruct Hs as [-> ->].
    split. { apply Qabs_lt; lra. } split. { apply Qabs_lt; lra. }
    exists na. split; [exact Ha|]. rewrite Es. split; assumption.
Qed.

(** * Every new grid is translation * scale in the requested CRS (no hypotheses) *)
Lemma from_bbox_form B crs tight shape r anc tol g :
  from_bbox B crs tight shape r anc tol = Ok g ->
  exists offx offy rx ry ny nx,
    g = mkG ny nx (aff_mul (aff_translation offx offy) (aff_scale rx ry)) crs /\
    (shape = None -> exists x y, r = Some (x, y) /\ rx = x /\ ry = y).
Proof.
  intros H. destruct shape as [[n|ny nx]|].
  - rewrite from_bbox_shapeN in H.
    apply bind_ok in H. destruct H as (na & _ & H).
    apply bind_ok in H. destruct H as (u1 & _ & H).
    apply bind_ok in H. destruct H as (u2 & _ & H).
    apply build_inv in H. destruct H as (offx & nx & offy & ny & _ & _ & ->).
    exists offx, offy, (longest_res B n), (- longest_res B n), ny, nx. split; [reflexivity|discriminate].
  - destruct r as [[x y]|].
    + unfold from_bbox in H. apply bind_ok in H. destruct H as (na & _ & H). cbn [bind] in H.
      apply build_inv in H. destruct H as (offx & nx' & offy & ny' & _ & _ & ->).
      exists offx, offy, x, y, ny', nx'. split; [reflexivity|discriminate].
    + destruct (from_bbox_shapeYX_inv _ _ _ _ _ _ _ _ _ H eq_refl) as (na & offx & offy & _ & _ & _ & -> & _).
      exists offx, offy, (yx_rx B nx), (yx_ry B ny), ny, nx. split; [reflexivity|discriminate].
  - destruct r as [[x y]|].
    + rewrite from_bbox_resolution in H. apply bind_ok in H. destruct H as (na & _ & H).
      apply build_inv in H. destruct H as (offx & nx & offy & ny & _ & _ & ->).
      exists offx, offy, x, y, ny, nx. split; [reflexivity|]. intros _. exists x, y. auto.
    + unfold from_bbox in H. destruct (norm_anchor anc); discriminate.
Qed.

Lemma cog_axis_aligned s dst du B fit rq shape tight anc tol rr g :
  compute_output_geobox s dst du B fit rq shape tight anc tol rr = Ok (ONew g) ->
  axis_aligned g /\ g_crs g = dst.
Proof.
  intros H. apply cog_new_inv in H. destruct H as (r & _ & H).
  apply from_bbox_form in H. destruct H as (offx & offy & rx & ry & ny & nx & -> & _).
  destruct (aff_mul_ts offx offy rx ry) as (A1 & A2 & A3 & A4 & A5 & A6).
  split; [split; assumption|reflexivity].
Qed.

(** pixel size of a resolution-driven result = the decision table's value (no hypotheses) *)
Lemma cog_resolution s dst du B fit rq tight anc tol rr g :
  compute_output_geobox s dst du B fit rq None tight anc tol rr = Ok (ONew g) ->
  exists rx ry, chosen s du fit rq rr = Ok (rx, ry) /\ aa (g_aff g) == rx /\ ae (g_aff g) == ry.
Proof.
  intros H. apply cog_new_inv in H. destruct H as (r & H1 & H).
  apply from_bbox_form in H. destruct H as (offx & offy & rx & ry & ny & nx & -> & Hr).
  destruct (Hr eq_refl) as (x & y & -> & -> & ->).
  rewrite choose_resolution_none in H1.
  destruct (chosen s du fit rq rr) as [[cx cy]|]; [|discriminate]. injection H1 as -> ->.
  destruct (aff_mul_ts offx offy x y) as (A1 & A2 & A3 & A4 & A5 & A6).
  exists x, y. split; [reflexivity|]. split; assumption.
Qed.

(** * Resolution-driven result: covering, snugness, alignment; enclosure from the footprint contract *)
Lemma cog_covers s dst du B fit rq shape tight anc tol rr g :
  compute_output_geobox s dst du B fit rq shape tight anc tol rr = Ok (ONew g) ->
  not_yx shape -> valid_box B -> 0 <= tol ->
  (1 <= g_nx g)%Z /\ (1 <= g_ny g)%Z /\ 0 < px g /\ 0 < py g /\ covers B tol g /\ snug B g.
Proof.
  intros H NY V Ht.
  destruct (cog_grid _ _ _ _ _ _ _ _ _ _ _ _ H NY V Ht) as (na & rx & ry & Ha & C & P & _).
  destruct (grid_props_facts _ _ _ _ _ _ P) as (_ & _ & _ & F1 & F2 & F3 & F4 & F5 & F6 & _).
  split; [exact F1|]. split; [exact F2|]. split; [exact F3|]. split; [exact F4|]. split; assumption.
Qed.

Lemma cog_alignment s dst du B fit rq shape tight anc tol rr g :
  compute_output_geobox s dst du B fit rq shape tight anc tol rr = Ok (ONew g) ->
  not_yx shape -> valid_box B -> 0 <= tol ->
  exists na, norm_anchor anc = Ok na /\ alignment_as_requested B (snap_of tight na) g.
Proof.
  intros H NY V Ht.
  destruct (cog_grid _ _ _ _ _ _ _ _ _ _ _ _ H NY V Ht) as (na & rx & ry & Ha & C & P & _).
  destruct (grid_props_facts _ _ _ _ _ _ P) as (_ & _ & _ & _ & _ & _ & _ & _ & _ & F).
  exists na. split; assumption.
Qed.

(** the effective snap offsets for each way of writing the anchor *)
Lemma snap_table :
  (forall na, snap_of true na = None) /\
  snap_of false NEdge = Some (0, 0) /\ snap_of false NCenter = Some (1 # 2, 1 # 2) /\
  snap_of false NFloating = None /\ (forall x y, snap_of false (NXY x y) = Some (x, y)) /\
  norm_anchor (AStr SDefault) = Ok NEdge /\ norm_anchor (AStr SEdge) = Ok NEdge /\
  norm_anchor AEnumEdge = Ok NEdge /\ norm_anchor (AStr SCenter) = Ok NCenter /\
  norm_anchor (AStr SCentre) = Ok NCenter /\ norm_anchor AEnumCenter = Ok NCenter /\
  norm_anchor (AStr SFloating) = Ok NFloating /\ norm_anchor AEnumFloating = Ok NFloating /\
  (forall x y, norm_anchor (AXY x y) = Ok (NXY x y)) /\
  (forall q, q == 0 -> norm_anchor (ANum q) = Ok NEdge) /\
  (forall q, q == 1 # 2 -> norm_anchor (ANum q) = Ok NCenter) /\
  (forall q, ~ q == 0 -> ~ q == 1 # 2 -> norm_anchor (ANum q) = Ok (NXY q q)).
Proof.
  repeat split; try reflexivity.
  - intros q E. unfold norm_anchor. apply Qeq_bool_iff in E. rewrite E. reflexivity.
  - intros q E. unfold norm_anchor.
    assert (F : Qeq_bool q 0 = false) by (apply Qeq_bool_false; intros C; rewrite C in E; discriminate).
    apply Qeq_bool_iff in E. rewrite F, E. reflexivity.
  - intros q E F. unfold norm_anchor. apply Qeq_bool_false in E. apply Qeq_bool_false in F.
    rewrite E, F. reflexivity.
Qed.

(** default anchor, not tight: every pixel edge is an integer multiple of the pixel size *)
Lemma cog_default_anchor_multiples s dst du B fit rq shape tol rr g :
  compute_output_geobox s dst du B fit rq shape false (AStr SDefault) tol rr = Ok (ONew g) ->
  not_yx shape -> valid_box B -> 0 <= tol ->
  forall i : Z,
    (exists k : Z, g_x0 g + inject_Z i * aa (g_aff g) == inject_Z k * px g) /\
    (exists k : Z, g_y0 g + inject_Z i * ae (g_aff g) == inject_Z k * py g).
Proof.
  intros H NY V Ht i.
  destruct (cog_alignment _ _ _ _ _ _ _ _ _ _ _ _ H NY V Ht) as (na & Ha & A).
  simpl in Ha. injection Ha as <-. simpl in A. destruct (A i) as [(k1 & K1) (k2 & K2)].
  split; [exists k1|exists k2]; lra.
Qed.

(** tight: the grid starts exactly at the footprint box, whatever the anchor *)
Lemma cog_tight s dst du B fit rq shape anc tol rr g :
  compute_output_geobox s dst du B fit rq shape true anc tol rr = Ok (ONew g) ->
  not_yx shape -> valid_box B -> 0 <= tol -> starts_at_box B g.
Proof.
  intros H NY V Ht.
  destruct (cog_alignment _ _ _ _ _ _ _ _ _ _ _ _ H NY V Ht) as (na & Ha & A). exact A.
Qed.

Section Enclosure.
  (** [P x y]: (x, y) is the projection into the target CRS of a point of a
      source pixel (centre, corner, edge point).  Contract on the footprint
      oracle: the box B handed to from_bbox contains all of them. *)
  Variable P : Q -> Q -> Prop.
  Variable B : bbox.
  Hypothesis footprint_contract : forall x y, P x y -> bl B <= x /\ x <= br B /\ bb B <= y /\ y <= bt B.

  Lemma cog_encloses s dst du fit rq shape tight anc tol rr g :
    compute_output_geobox s dst du B fit rq shape tight anc tol rr = Ok (ONew g) ->
    not_yx shape -> valid_box B -> 0 <= tol ->
    forall x y, P x y ->
      g_left g - tol * px g <= x /\ x <= g_right g + tol * px g /\
      g_bottom g - tol * py g <= y /\ y <= g_top g + tol * py g.
  Proof.
    intros H NY V Ht x y Hp.
    destruct (cog_covers _ _ _ _ _ _ _ _ _ _ _ _ H NY V Ht) as (_ & _ & _ & _ & (C1 & C2 & C3 & C4) & _).
    destruct (footprint_contract x y Hp) as (F1 & F2 & F3 & F4).
    repeat split; lra.
  Qed.
End Enclosure.

(** * Single-number shape: pixel size = longest span / n; pixel count along that side *)

Lemma ceil_maybe_int_eq y tol (n : Z) : y == inject_Z n -> Qceiling (maybe_int y tol) = n.
Proof.
  intros E. destruct (maybe_int_spec y tol) as [M|(z & M & H1 & H2 & H3 & H4)]; rewrite M.
  - rewrite E. apply Qceiling_Z.
  - rewrite Qceiling_Z. rewrite E in H3, H4.
    assert (inject_Z z < inject_Z n + 1) as A by lra.
    assert (inject_Z n - 1 < inject_Z z) as C by lra.
    rewrite <- inj1, <- inject_Z_plus, <- Zlt_Qlt in A.
    unfold Qminus in C. rewrite <- inj1, <- inject_Z_opp, <- inject_Z_plus, <- Zlt_Qlt in C. lia.
Qed.

Lemma snap_grid_none_count x0 x1 rs tol tx c (n : Z) :
  snap_grid x0 x1 rs None tol = Ok (tx, c) -> (1 <= n)%Z ->
  (x1 - x0) / Qabs rs == inject_Z n -> c = n.
Proof.
  intros H Hn E. pose proof (snap_grid_ok_inv _ _ _ _ _ _ H) as [Hr _].
  unfold snap_grid in H. destruct (Qltb 0 rs) eqn:E0.
  - apply Qltb_true in E0. assert (Ea : Qabs rs == rs) by (apply Qabs_pos; lra).
    assert (E' : (x1 - x0) / rs == inject_Z n) by (rewrite <- Ea; exact E).
    rewrite (ceil_maybe_int_eq _ tol n E') in H. injection H as _ <-. lia.
  - apply Qltb_false in E0.
    assert (Hneg : rs < 0) by (destruct (Qlt_le_dec rs 0); [assumption|exfalso; apply Hr; lra]).
    assert (Ea : Qabs rs == - rs) by (apply Qabs_neg; lra).
    assert (E' : (x1 - x0) / - rs == inject_Z n) by (rewrite <- Ea; exact E).
    destruct (Qeq_bool rs 0); cbn [negb guard bind] in H; [discriminate|].
    rewrite (ceil_maybe_int_eq _ tol n E') in H. injection H as _ <-. lia.
Qed.

Lemma longest_res_cases B n :
  valid_box B -> (0 < n)%Z ->
  0 < longest_res B n /\
  (span_y B < span_x B -> longest_res B n == span_x B / inject_Z n) /\
  (span_x B <= span_y B -> longest_res B n == span_y B / inject_Z n).
Proof.
  intros [Vx Vy] Hn. pose proof (inject_Z_pos n Hn) as Pn.
  assert (Sx : 0 < span_x B) by (unfold span_x; lra).
  assert (Sy : 0 < span_y B) by (unfold span_y; lra).
  assert (Dx : 0 < span_x B / inject_Z n) by (apply Qlt_shift_div_l; lra).
  assert (Dy : 0 < span_y B / inject_Z n) by (apply Qlt_shift_div_l; lra).
  assert (Qd : span_x B == (span_x B / span_y B) * span_y B) by (field; lra).
  unfold longest_res. destruct (Qltb 1 (span_x B / span_y B)) eqn:E.
  - apply Qltb_true in E. set (q := span_x B / span_y B) in *.
    split; [exact Dx|]. split; [reflexivity|]. intros C. exfalso. nra.
  - apply Qltb_false in E. set (q := span_x B / span_y B) in *.
    split; [exact Dy|]. split; [intros C; exfalso; nra|reflexivity].
Qed.

(** extent of a grid = pixel count * pixel size (per axis) *)
Lemma grid_extent B snap rx ry tol g :
  grid_props B snap rx ry tol g ->
  g_right g == g_left g + inject_Z (g_nx g) * px g /\
  g_top g == g_bottom g + inject_Z (g_ny g) * py g.
Proof.
  intros (_ & _ & _ & _ & PX & PY). unfold axis_props in PX, PY. cbv zeta in PX, PY.
  destruct PX as (_ & _ & _ & _ & _ & _ & _ & _ & X8 & _). destruct PY as (_ & _ & _ & _ & _ & _ & _ & _ & Y8 & _).
  split; assumption.
Qed.

Lemma count_bounds lo hi x0 x1 a tol (c n : Z) :
  0 < a -> 0 <= tol -> tol < 1 # 2 -> (1 <= n)%Z ->
  x1 - x0 == inject_Z n * a -> hi == lo + inject_Z c * a ->
  lo <= x0 + tol * a -> x0 - a < lo -> x1 - tol * a <= hi -> (hi < x1 + a \/ c = 1%Z) ->
  (n <= c <= n + 1)%Z.
Proof.
  intros Ha Ht Ht2 Hn Es Eh L1 L2 H1 H2.
  set (C := inject_Z c) in *. set (N := inject_Z n) in *.
  assert (K1 : (N - 1) * a < C * a) by nra.
  assert (K1' : N - 1 < C) by nra.
  assert (G1 : (n - 1 < c)%Z).
  { rewrite Zlt_Qlt. unfold Z.sub. rewrite inject_Z_plus, inject_Z_opp, inj1. fold N C. lra. }
  destruct H2 as [H2|H2]; [|lia].
  assert (K2 : C * a < (N + 2) * a) by nra.
  assert (K2' : C < N + 2) by nra.
  assert (G2 : (c < n + 2)%Z).
  { rewrite Zlt_Qlt. rewrite inject_Z_plus. fold N C. assert (inject_Z 2 == 2) by reflexivity. lra. }
  lia.
Qed.

(** pixel count along the longest side of the footprint box *)
Definition longest_count (B : bbox) (g : gbox) : Z :=
  if Qltb (span_y B) (span_x B) then g_nx g else g_ny g.

Lemma cog_shape_n s dst du B fit rq n tight anc tol rr g :
  compute_output_geobox s dst du B fit rq (Some (ShapeN n)) tight anc tol rr = Ok (ONew g) ->
  valid_box B -> 0 <= tol -> (0 < n)%Z ->
  0 < aa (g_aff g) /\ ae (g_aff g) == - aa (g_aff g) /\
  (span_y B < span_x B -> aa (g_aff g) == span_x B / inject_Z n) /\
  (span_x B <= span_y B -> aa (g_aff g) == span_y B / inject_Z n) /\
  (tol < 1 # 2 -> (n <= longest_count B g <= n + 1)%Z) /\
  (forall na, norm_anchor anc = Ok na -> snap_of tight na = None -> longest_count B g = n).
Proof.
  intros H V Ht Hn.
  destruct (cog_grid _ _ _ _ _ _ _ _ _ _ _ _ H I V Ht) as (na & rx & ry & Ha & C & P & (_ & -> & ->)).
  destruct (longest_res_cases B n V Hn) as (L0 & L1 & L2).
  pose proof (grid_extent _ _ _ _ _ _ P) as [EX EY].
  destruct (grid_props_facts _ _ _ _ _ _ P) as (A1 & A2 & _ & _ & _ & PX & PY & CV & SN & _).
  destruct CV as (C1 & C2 & C3 & C4). destruct SN as (S1 & S2 & S3 & S4).
  pose proof (inject_Z_pos n Hn) as Pn. pose proof V as [Vx Vy].
  assert (Epx : px g == longest_res B n) by (unfold px; rewrite A1; apply Qabs_pos; lra).
  assert (Epy : py g == longest_res B n) by (unfold py; rewrite A2, Qabs_opp; apply Qabs_pos; lra).
  split; [rewrite A1; exact L0|]. split; [rewrite A1, A2; reflexivity|].
  split; [intros Hc; rewrite A1; apply L1; exact Hc|].
  split; [intros Hc; rewrite A1; apply L2; exact Hc|].
  split.
  - intros Ht2. unfold longest_count. destruct (Qltb (span_y B) (span_x B)) eqn:E.
    + apply Qltb_true in E. pose proof (L1 E) as R.
      apply (count_bounds (g_left g) (g_right g) (bl B) (br B) (px g) tol); try assumption; try lia.
      rewrite Epx, R. unfold span_x. field. lra.
    + apply Qltb_false in E. pose proof (L2 E) as R.
      apply (count_bounds (g_bottom g) (g_top g) (bb B) (bt B) (py g) tol); try assumption; try lia.
      rewrite Epy, R. unfold span_y. field. lra.
  - intros na' Ha' Hs. rewrite Ha in Ha'. injection Ha' as <-.
    apply cog_new_inv in H. destruct H as (r & _ & H2).
    rewrite from_bbox_shapeN, Ha in H2. cbn [bind] in H2.
    apply bind_ok in H2. destruct H2 as (u1 & _ & H2).
    apply bind_ok in H2. destruct H2 as (u2 & _ & H2).
    apply build_inv in H2. destruct H2 as (offx & nx & offy & ny & H1 & H2 & ->).
    rewrite Hs in H1, H2. simpl option_map in H1, H2.
    unfold longest_count. cbn [g_nx g_ny].
    destruct (Qltb (span_y B) (span_x B)) eqn:E.
    + apply Qltb_true in E. pose proof (L1 E) as R.
      apply (snap_grid_none_count _ _ _ _ _ _ n H1); [lia|].
      rewrite Qabs_pos by lra. rewrite R. unfold span_x. field. split; lra.
    + apply Qltb_false in E. pose proof (L2 E) as R.
      apply (snap_grid_none_count _ _ _ _ _ _ n H2); [lia|].
      rewrite Qabs_opp, Qabs_pos by lra. rewrite R. unfold span_y. field. split; lra.
Qed.

(** * Totality inside the domain *)

Definition anchor_valid (anc : anchor) : Prop :=
  match norm_anchor anc with
  | Ok (NXY x y) => (0 <= x /\ x < 1) /\ (0 <= y /\ y < 1)
  | Ok _ => True
  | Err _ => False
  end.

Definition shape_valid (shape : option shape_req) : Prop :=
  match shape with
  | None => True
  | Some (ShapeN n) => (0 < n)%Z
  | Some (ShapeYX ny nx) => (0 < ny)%Z /\ (0 < nx)%Z
  end.

Lemma snap_of_ok tight na :
  match na with NXY x y => (0 <= x /\ x < 1) /\ (0 <= y /\ y < 1) | _ => True end ->
  off_ok (option_map fst (snap_of tight na)) /\ off_ok (option_map snd (snap_of tight na)).
Proof.
  intros H. destruct tight; [simpl; auto|].
  destruct na; simpl; try (split; [split|split]; lra); auto.
Qed.

Lemma build_total B crs snap rx ry tol :
  valid_box B -> 0 <= tol -> ~ rx == 0 -> ~ ry == 0 ->
  off_ok (option_map fst snap) -> off_ok (option_map snd snap) ->
  exists g, build B crs snap rx ry tol = Ok g.
Proof.
  intros [Vx Vy] Ht Hx Hy O1 O2. unfold build.
  destruct (snap_grid_total (bl B) (br B) rx (option_map fst snap) tol Hx) as (tx & nx & ->); [lra|assumption|assumption|].
  destruct (snap_grid_total (bb B) (bt B) ry (option_map snd snap) tol Hy) as (ty & ny & ->); [lra|assumption|assumption|].
  cbn [bind]. eauto.
Qed.

Lemma cog_total s dst du B fit rq shape tight anc tol rr :
  valid_box B -> 0 <= tol -> anchor_valid anc -> shape_valid shape ->
  (shape = None -> exists rx ry, chosen s du fit rq rr = Ok (rx, ry) /\ ~ rx == 0 /\ ~ ry == 0) ->
  exists o, compute_output_geobox s dst du B fit rq shape tight anc tol rr = Ok o.
Proof.
  intros V Ht Ha Hs Hr. rewrite cog_unfold.
  destruct (shortcut s dst rq shape anc); [eauto|].
  unfold anchor_valid in Ha. destruct (norm_anchor anc) as [na|] eqn:En; [|contradiction].
  destruct (snap_of_ok tight na) as [O1 O2]. { destruct na; auto. }
  destruct shape as [[n|ny nx]|].
  - rewrite choose_resolution_shape. cbn [bind]. rewrite from_bbox_shapeN, En. cbn [bind].
    simpl in Hs. destruct (longest_res_cases B n V Hs) as (L0 & _ & _).
    pose proof V as [Vx Vy].
    assert (E1 : Qeq_bool (span_y B) 0 = false) by (apply Qeq_bool_false; unfold span_y; lra).
    assert (E2 : Z.eqb n 0 = false) by (apply Z.eqb_neq; lia).
    rewrite E1, E2. cbn [negb guard bind].
    destruct (build_total B dst (snap_of tight na) (longest_res B n) (- longest_res B n) tol) as (g & ->);
      try assumption; try lra. cbn [bind]. eauto.
  - rewrite choose_resolution_shape. cbn [bind]. unfold from_bbox. rewrite En. cbn [bind].
    destruct Hs as [Hny Hnx]. pose proof V as [Vx Vy].
    assert (E1 : Z.eqb nx 0 = false) by (apply Z.eqb_neq; lia).
    assert (E2 : Z.eqb ny 0 = false) by (apply Z.eqb_neq; lia).
    rewrite E1, E2. cbn [negb guard bind].
    pose proof (inject_Z_pos nx Hnx) as Px. pose proof (inject_Z_pos ny Hny) as Py.
    destruct (snap_of tight na) as [[sx sy]|]; [|cbn [bind]; eauto].
    simpl in O1, O2.
    assert (Rx : ~ span_x B / inject_Z nx == 0).
    { intros C. assert (span_x B == (span_x B / inject_Z nx) * inject_Z nx) as Q by (field; lra).
      rewrite C in Q. unfold span_x in Q. lra. }
    assert (Ry : ~ - span_y B / inject_Z ny == 0).
    { intros C. assert (- span_y B == (- span_y B / inject_Z ny) * inject_Z ny) as Q by (field; lra).
      rewrite C in Q. unfold span_y in Q. lra. }
    destruct (snap_grid_total (bl B) (br B) (span_x B / inject_Z nx) (Some sx) tol Rx) as (tx & n1 & ->);
      [lra|assumption|assumption|].
    destruct (snap_grid_total (bb B) (bt B) (- span_y B / inject_Z ny) (Some sy) tol Ry) as (ty & n2 & ->);
      [lra|assumption|assumption|].
    cbn [bind]. eauto.
  - destruct (Hr eq_refl) as (rx & ry & Hc & Hx & Hy).
    rewrite choose_resolution_none, Hc. cbn [bind]. rewrite from_bbox_resolution, En. cbn [bind].
    destruct (build_total B dst (snap_of tight na) rx ry tol) as (g & ->); try assumption. cbn [bind]. eauto.
Qed.

(** * Python round(): half to even *)
Lemma round_half_even_spec x :
  let z := inject_Z (round_half_even x) in
  x - (1 # 2) <= z /\ z <= x + (1 # 2) /\
  ((z == x - (1 # 2) \/ z == x + (1 # 2)) -> Z.even (round_half_even x) = true).
Proof.
  unfold round_half_even. destruct (Qfloor_spec x) as (f & Ef & F1 & F2).
  rewrite <- Ef. set (d := x - f).
  destruct (Qltb d (1 # 2)) eqn:E1.
  - apply Qltb_true in E1. cbv zeta. rewrite <- Ef. unfold d in *.
    split; [lra|]. split; [lra|]. intros [C|C]; lra.
  - apply Qltb_false in E1. destruct (Qltb (1 # 2) d) eqn:E2.
    + apply Qltb_true in E2. cbv zeta. rewrite inject_Z_plus, <- Ef, inj1. unfold d in *.
      split; [lra|]. split; [lra|]. intros [C|C]; lra.
    + apply Qltb_false in E2. destruct (Z.even (Qfloor x)) eqn:E3; cbv zeta.
      * rewrite <- Ef. unfold d in *. split; [lra|]. split; [lra|]. intros _. exact E3.
      * rewrite inject_Z_plus, <- Ef, inj1. unfold d in *. split; [lra|]. split; [lra|].
        intros _. rewrite Z.add_1_r, Z.even_succ, <- Z.negb_even, E3. reflexivity.
Qed.

(** * UTM requests *)
Lemma first_max_spec l : forall b,
  In (first_max b l) (b :: l) /\ forall c, In c (b :: l) -> snd c <= snd (first_max b l).
Proof.
  induction l as [|c l IH]; intros b.
  - simpl. split; [auto|]. intros c [<-|[]]. lra.
  - cbn [first_max]. destruct (IH (if Qltb (snd b) (snd c) then c else b)) as [I1 I2].
    split.
    + destruct (Qltb (snd b) (snd c)); destruct I1 as [<-|I1]; simpl; auto.
    + intros c' Hc. destruct (Qltb (snd b) (snd c)) eqn:E.
      * apply Qltb_true in E. destruct Hc as [<-|[<-|Hc]].
        -- pose proof (I2 c (or_introl eq_refl)). lra.
        -- apply I2. left. reflexivity.
        -- apply I2. right. exact Hc.
      * apply Qltb_false in E. destruct Hc as [<-|[<-|Hc]].
        -- apply I2. left. reflexivity.
        -- pose proof (I2 b (or_introl eq_refl)). lra.
        -- apply I2. right. exact Hc.
Qed.

Lemma pick_best_spec cands big e :
  pick_best_crs cands big = Ok e ->
  exists c, In c cands /\ fst c = e /\
            (big = true -> forall c', In c' cands -> snd c' <= snd c).
Proof.
  unfold pick_best_crs. destruct cands as [|c rest]; [discriminate|].
  destruct ((1 <? Z.of_nat (length (c :: rest)))%Z && big) eqn:E.
  - intros H. injection H as <-. destruct (first_max_spec rest c) as [I1 I2].
    exists (first_max c rest). split; [exact I1|]. split; [reflexivity|]. intros _. exact I2.
  - intros H. injection H as <-. exists c. split; [left; reflexivity|]. split; [reflexivity|].
    intros ->. rewrite andb_true_r in E. apply Z.ltb_ge in E.
    destruct rest; [|simpl length in E; lia].
    intros c' [<-|[]]. lra.
Qed.

Lemma pick_best_empty big : pick_best_crs [] big = Err EValue.
Proof. reflexivity. Qed.

(** contract on pyproj's database for the candidates: each is WGS84 / UTM
    zone [zone e] north (EPSG 326zz, letter N) or south (EPSG 327zz, letter S) *)
Definition utm_db_ok (cands : list (Z * Q)) (letter : Z -> zone_letter) (zone : Z -> Z) : Prop :=
  forall e, In e (map fst cands) ->
    (letter e = ZN /\ e = (32600 + zone e)%Z) \/ (letter e = ZS /\ e = (32700 + zone e)%Z).

Lemma norm_crs_utm_spec rq cands big letter zone r :
  utm_db_ok cands letter zone ->
  norm_crs_utm rq cands big letter = Ok r ->
  exists e, pick_best_crs cands big = Ok e /\ In e (map fst cands) /\
    match rq with
    | Utm => r = e
    | UtmN => r = (32600 + zone e)%Z
    | UtmS => r = (32700 + zone e)%Z
    end.
Proof.
  intros DB H. unfold norm_crs_utm in H. apply bind_ok in H. destruct H as (e & He & H).
  exists e. split; [exact He|].
  destruct (pick_best_spec _ _ _ He) as (c & Ic & Ec & _).
  assert (Ie : In e (map fst cands)) by (rewrite <- Ec; apply in_map; exact Ic).
  split; [exact Ie|].
  destruct rq.
  - injection H as <-. reflexivity.
  - destruct (DB e Ie) as [[L E]|[L E]]; rewrite L in H; injection H as <-; lia.
  - destruct (DB e Ie) as [[L E]|[L E]]; rewrite L in H; injection H as <-; lia.
Qed.

(** * The decision table in statement form *)
Lemma cog_decision_table s dst du B fit rq tight anc tol rr g :
  compute_output_geobox s dst du B fit rq None tight anc tol rr = Ok (ONew g) ->
  exists rx ry,
    aa (g_aff g) == rx /\ ae (g_aff g) == ry /\
    match rq with
    | RSame => (rx, ry) = s_res s
    | RAuto => if Z.eqb (s_units s) du then (rx, ry) = s_res s
               else rx = rounded rr fit /\ ry = - rounded rr fit
    | RFit => rx = rounded rr fit /\ ry = - rounded rr fit
    | RNum q => rx = q /\ ry = - q
    | RXY x y => rx = x /\ ry = y
    | RStr => False
    end.
Proof.
  intros H.
  destruct (cog_resolution _ _ _ _ _ _ _ _ _ _ _ H) as (rx & ry & C & A1 & A2).
  exists rx, ry. split; [exact A1|]. split; [exact A2|].
  unfold chosen in C. destruct rq.
  - injection C as C. symmetry. exact C.
  - destruct (Z.eqb (s_units s) du).
    + injection C as C. symmetry. exact C.
    + injection C as <- <-. auto.
  - injection C as <- <-. auto.
  - discriminate.
  - injection C as <- <-. auto.
  - injection C as <- <-. auto.
Qed.

Lemma cog_same_units s dst B fit tight anc tol rr g :
  compute_output_geobox s dst (s_units s) B fit RAuto None tight anc tol rr = Ok (ONew g) ->
  aa (g_aff g) == fst (s_res s) /\ ae (g_aff g) == snd (s_res s).
Proof.
  intros H.
  destruct (cog_resolution _ _ _ _ _ _ _ _ _ _ _ H) as (rx & ry & C & A1 & A2).
  unfold chosen in C. rewrite Z.eqb_refl in C. injection C as C. rewrite C. simpl. auto.
Qed.

(** * The footprint request: buffer distance and densification *)
Lemma qmax_ge x y : x <= qmax x y /\ y <= qmax x y.
Proof.
  unfold qmax. destruct (Qle_bool x y) eqn:E.
  - apply Qle_bool_true in E. lra.
  - apply Qle_bool_false in E. lra.
Qed.

Lemma footprint_buffer_grows b rx ry :
  0 < b -> ~ rx == 0 -> ~ ry == 0 ->
  0 < footprint_buffer b (rx, ry) /\
  b * Qabs rx <= footprint_buffer b (rx, ry) /\ b * Qabs ry <= footprint_buffer b (rx, ry).
Proof.
  intros Hb Hx Hy. unfold footprint_buffer. cbn [fst snd].
  pose proof (abs_pos_of_nonzero rx Hx) as Px. pose proof (abs_pos_of_nonzero ry Hy) as Py.
  destruct (qmax_ge (Qabs rx) (Qabs ry)) as [M1 M2].
  set (m := qmax (Qabs rx) (Qabs ry)) in *. set (ax := Qabs rx) in *. set (ay := Qabs ry) in *.
  repeat split; nra.
Qed.

Lemma footprint_buffer_unrepaired_shrinks :
  exists rs, ~ fst rs == 0 /\ ~ snd rs == 0 /\ footprint_buffer_unrepaired (9 # 10) rs < 0.
Proof.
  exists (-(10 # 1), -(10 # 1)). cbn [fst snd]. split; [intros C; discriminate|]. split; [intros C; discriminate|].
  vm_compute. reflexivity.
Qed.

Lemma footprint_npoints_spec ny nx :
  (100 <= footprint_npoints ny nx <= 10000)%Z /\
  (Z.max ny nx < 256 * 10001 -> Z.max ny nx < 256 * (footprint_npoints ny nx + 1))%Z.
Proof.
  unfold footprint_npoints. set (n := Z.max ny nx).
  pose proof (Z.div_mod n 256 ltac:(lia)) as D. pose proof (Z.mod_pos_bound n 256 ltac:(lia)) as M.
  lia.
Qed.
