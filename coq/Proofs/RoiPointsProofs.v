(** roi_from_points: the envelope of sample points (property C17, last sentence). *)
From Coq Require Import ZArith QArith Qround List Bool Lia Lqa.
From OG Require Import Base.Result Base.ListSel Base.QZ Model.Roi Proofs.RoiProofs.
Import ListNotations.

Lemma Qmin_list_le_d l d : (Qmin_list d l <= d)%Q.
Proof.
  revert d; induction l as [|a l IH]; intros d; simpl; [lra|].
  destruct (Qle_bool d a) eqn:E.
  - apply IH.
  - apply Qle_bool_false in E. specialize (IH a). lra.
Qed.

Lemma Qmin_list_le l d v : In v l -> (Qmin_list d l <= v)%Q.
Proof.
  revert d; induction l as [|a l IH]; intros d Hin; [destruct Hin|].
  simpl. destruct Hin as [->|Hin].
  - destruct (Qle_bool d v) eqn:E.
    + apply Qle_bool_true in E. pose proof (Qmin_list_le_d l d). lra.
    + apply Qmin_list_le_d.
  - apply IH; exact Hin.
Qed.

Lemma Qmax_list_ge_d l d : (d <= Qmax_list d l)%Q.
Proof.
  revert d; induction l as [|a l IH]; intros d; simpl; [lra|].
  destruct (Qle_bool d a) eqn:E.
  - apply Qle_bool_true in E. specialize (IH a). lra.
  - apply IH.
Qed.

Lemma Qmax_list_ge l d v : In v l -> (v <= Qmax_list d l)%Q.
Proof.
  revert d; induction l as [|a l IH]; intros d Hin; [destruct Hin|].
  simpl. destruct Hin as [->|Hin].
  - destruct (Qle_bool d v) eqn:E.
    + apply Qmax_list_ge_d.
    + apply Qle_bool_false in E. pose proof (Qmax_list_ge_d l d). lra.
  - apply IH; exact Hin.
Qed.

Definition align_ok (align : option Z) : Prop :=
  match align with None => True | Some a => (0 < a)%Z end.

Open Scope Z_scope.

(** One axis: any sample value [v] inside [0, n] is inside the returned range,
    padding and alignment are honoured, and the range stays inside the image. *)
Lemma axis_from_points_spec vals n padding align lim v :
  0 <= n -> 0 <= padding -> align_ok align -> n < lim ->
  In v vals -> (0 <= v)%Q -> (v <= inject_Z n)%Q ->
  let r := axis_from_points vals n padding align lim in
  (inject_Z (fst r) <= v)%Q /\ (v <= inject_Z (snd r))%Q /\
  fst r <= Z.max 0 (Qfloor v - padding) /\ Z.min n (Qceiling v + padding) <= snd r /\
  0 <= fst r <= n /\ 0 <= snd r <= n /\
  match align with
  | None => True
  | Some a => (fst r mod a = 0 \/ fst r = n) /\ (snd r mod a = 0 \/ snd r = n)
  end.
Proof.
  intros Hn Hp Ha Hlim Hin Hv0 Hvn.
  destruct vals as [|v0 vs]; [destruct Hin|].
  unfold axis_from_points.
  set (mn := Qmin_list v0 vs). set (mx := Qmax_list v0 vs).
  assert (Hmn : (mn <= v)%Q).
  { destruct Hin as [->|Hin]; [apply Qmin_list_le_d | apply Qmin_list_le; exact Hin]. }
  assert (Hmx : (v <= mx)%Q).
  { destruct Hin as [->|Hin]; [apply Qmax_list_ge_d | apply Qmax_list_ge; exact Hin]. }
  assert (F1 : Qfloor mn <= Qfloor v) by (apply Qfloor_mono; exact Hmn).
  assert (F2 : 0 <= Qfloor v) by (apply Qfloor_ge_iff; exact Hv0).
  assert (C1 : Qceiling v <= Qceiling mx) by (apply Qceiling_mono; exact Hmx).
  assert (C2 : Qceiling v <= n) by (apply Qceiling_le_iff; exact Hvn).
  assert (FC : Qfloor v <= Qceiling v) by apply Qfloor_le_ceiling.
  assert (Lv : (inject_Z (Qfloor v) <= v)%Q) by apply Qfloor_le.
  assert (Uv : (v <= inject_Z (Qceiling v))%Q) by apply Qle_ceiling.
  unfold Qclip_floor, Qclip_ceil.
  set (fl := Qfloor mn) in *. set (ce := Qceiling mx) in *.
  set (fv := Qfloor v) in *. set (cv := Qceiling v) in *.
  clearbody fl ce fv cv. clear Hmn Hmx mn mx Hin.
  destruct align as [a|]; cbn [fst snd].
  - simpl in Ha.
    destruct (align_down_spec (clipZ fl (- lim) lim - padding) a Ha) as (D1 & D2 & D3).
    destruct (align_up_spec (clipZ ce (- lim) lim + padding) a Ha) as (U1 & U2 & U3).
    set (lo := align_down (clipZ fl (- lim) lim - padding) a) in *.
    set (hi := align_up (clipZ ce (- lim) lim + padding) a) in *.
    clearbody lo hi. unfold clipZ in *.
    assert (G1 : Z.min (Z.max lo 0) n <= fv) by lia.
    assert (G2 : cv <= Z.min (Z.max hi 0) n) by lia.
    repeat split; try lia.
    + eapply Qle_trans; [|exact Lv]. rewrite <- Zle_Qle. exact G1.
    + eapply Qle_trans; [exact Uv|]. rewrite <- Zle_Qle. exact G2.
    + destruct (Z.min (Z.max lo 0) n =? n) eqn:E; [right; lia|left].
      assert (Z.min (Z.max lo 0) n = lo \/ Z.min (Z.max lo 0) n = 0) as [->| ->] by lia;
        [exact D1 | apply Z.mod_0_l; lia].
    + destruct (Z.min (Z.max hi 0) n =? n) eqn:E; [right; lia|left].
      assert (Z.min (Z.max hi 0) n = hi \/ Z.min (Z.max hi 0) n = 0) as [->| ->] by lia;
        [exact U1 | apply Z.mod_0_l; lia].
  - unfold clipZ in *.
    assert (G1 : Z.min (Z.max (Z.min (Z.max fl (- lim)) lim - padding) 0) n <= fv) by lia.
    assert (G2 : cv <= Z.min (Z.max (Z.min (Z.max ce (- lim)) lim + padding) 0) n) by lia.
    repeat split; try lia.
    + eapply Qle_trans; [|exact Lv]. rewrite <- Zle_Qle. exact G1.
    + eapply Qle_trans; [exact Uv|]. rewrite <- Zle_Qle. exact G2.
Qed.

Lemma keep_finite_in pts xy : In (Some xy) pts -> In xy (keep_finite pts).
Proof.
  intros H; unfold keep_finite; apply in_flat_map. exists (Some xy); split; [exact H|left; reflexivity].
Qed.

Lemma keep_finite_only pts xy : In xy (keep_finite pts) -> In (Some xy) pts.
Proof.
  unfold keep_finite; intros H; apply in_flat_map in H as (p & Hp & Hin).
  destruct p as [q|]; [|destruct Hin]. destruct Hin as [->|[]]. exact Hp.
Qed.

(** Non-finite points ([None]) never influence the result. *)
Lemma roi_from_points_ignores_nonfinite pts ny nx padding align :
  roi_from_points pts ny nx padding align =
  roi_from_points (map Some (keep_finite pts)) ny nx padding align.
Proof.
  unfold roi_from_points. f_equal; f_equal; f_equal;
    (induction pts as [|[p|] pts IH]; simpl; [reflexivity | f_equal; exact IH | exact IH]).
Qed.

Lemma roi_from_points_spec pts ny nx padding align x y :
  0 <= ny -> 0 <= nx -> 0 <= padding -> align_ok align ->
  In (Some (x, y)) pts ->
  (0 <= x)%Q -> (x <= inject_Z nx)%Q -> (0 <= y)%Q -> (y <= inject_Z ny)%Q ->
  let '((y0, y1), (x0, x1)) := roi_from_points pts ny nx padding align in
  (inject_Z x0 <= x)%Q /\ (x <= inject_Z x1)%Q /\ (inject_Z y0 <= y)%Q /\ (y <= inject_Z y1)%Q /\
  x0 <= Z.max 0 (Qfloor x - padding) /\ Z.min nx (Qceiling x + padding) <= x1 /\
  y0 <= Z.max 0 (Qfloor y - padding) /\ Z.min ny (Qceiling y + padding) <= y1 /\
  0 <= x0 <= nx /\ 0 <= x1 <= nx /\ 0 <= y0 <= ny /\ 0 <= y1 <= ny /\
  match align with
  | None => True
  | Some a => (x0 mod a = 0 \/ x0 = nx) /\ (x1 mod a = 0 \/ x1 = nx) /\
              (y0 mod a = 0 \/ y0 = ny) /\ (y1 mod a = 0 \/ y1 = ny)
  end.
Proof.
  intros Hny Hnx Hp Ha Hin Hx0 Hx1 Hy0 Hy1.
  unfold roi_from_points.
  set (lim := Z.max nx ny + padding + match align with None => 1 | Some a => a end + 1).
  assert (Hl1 : nx < lim) by (unfold lim; destruct align; simpl in Ha; lia).
  assert (Hl2 : ny < lim) by (unfold lim; destruct align; simpl in Ha; lia).
  apply keep_finite_in in Hin.
  assert (Hix : In x (map fst (keep_finite pts))) by (apply in_map_iff; exists (x, y); auto).
  assert (Hiy : In y (map snd (keep_finite pts))) by (apply in_map_iff; exists (x, y); auto).
  pose proof (axis_from_points_spec _ nx padding align lim x Hnx Hp Ha Hl1 Hix Hx0 Hx1) as HX.
  pose proof (axis_from_points_spec _ ny padding align lim y Hny Hp Ha Hl2 Hiy Hy0 Hy1) as HY.
  cbn zeta in HX, HY.
  destruct (axis_from_points (map fst (keep_finite pts)) nx padding align lim) as [x0 x1].
  destruct (axis_from_points (map snd (keep_finite pts)) ny padding align lim) as [y0 y1].
  cbn [fst snd] in HX, HY.
  destruct HX as (X1 & X2 & X3 & X4 & X5 & X6 & X7).
  destruct HY as (Y1 & Y2 & Y3 & Y4 & Y5 & Y6 & Y7).
  repeat split; try assumption; try lia.
  destruct align as [a|]; [|exact I]. tauto.
Qed.

(** Without any finite point the region is empty, and it always stays inside the image. *)
Lemma roi_from_points_no_points pts ny nx padding align :
  keep_finite pts = [] -> roi_from_points pts ny nx padding align = ((0, 0), (0, 0)).
Proof. intros H; unfold roi_from_points; rewrite H; reflexivity. Qed.

Lemma roi_from_points_within pts ny nx padding align :
  0 <= ny -> 0 <= nx ->
  let '((y0, y1), (x0, x1)) := roi_from_points pts ny nx padding align in
  0 <= x0 <= nx /\ 0 <= x1 <= nx /\ 0 <= y0 <= ny /\ 0 <= y1 <= ny.
Proof.
  intros Hny Hnx; unfold roi_from_points, axis_from_points.
  destruct (map snd (keep_finite pts)) as [|vy vys]; destruct (map fst (keep_finite pts)) as [|vx vxs];
    repeat match goal with |- context [match ?a with None => _ | Some _ => _ end] => destruct a end;
    unfold clipZ; lia.
Qed.
