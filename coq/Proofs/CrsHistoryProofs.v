(** History (in)dependence of [CRS(spec)], lossless-equivalent specifications,
    pickling of CRS instances — over Model/CrsCache.v, under the oracle
    contracts [contracts W]. *)
From Coq Require Import ZArith List Bool Lia.
From OG Require Import Base.Result Model.CrsCache Proofs.CrsCacheProofs.
Import ListNotations.
Open Scope Z_scope.

Section History.
  Variable W : oracle.
  Hypothesis K : contracts W.

  Notation step := (step W).
  Notation run := (run W).
  Notation make_crs := (make_crs W).
  Notation crs_new := (crs_new W).
  Notation peq := (o_peq W).
  Notation prep := (o_prep W).

  Definition sp_srs (sp : mspec) : option text :=
    match sp with MStr t => prep t | MInt n => prep (o_epsg_text W n) | MObj _ s => Some s end.
  Definition sp_id (sp : mspec) (nid : Z) : Z := match sp with MObj i _ => i | _ => nid end.

  (** * case analysis of [_make_crs] *)
  Lemma make_crs_cases st sp nid st1 e :
    make_crs st sp nid = Ok (st1, e) ->
    (st1 = st /\ exists k', In (k', e) (cache st) /\ key_eqb W k' (make_key W sp) = true) \/
    (exists srs e0, sp_srs sp = Some srs /\ e = norm_entry W (sp_id sp nid) srs e0 /\ (e0 = 0 \/ sp = MInt e0) /\
       cache st1 = (make_key W sp, e) :: cache st /\
       (heap st1 = heap st \/ (heap st1 = (nid, srs) :: heap st /\ ~ In nid (map fst (heap st)))) /\
       tcache st1 = tcache st /\ vars st1 = vars st /\ pys st1 = pys st).
  Proof.
    intros H. unfold CrsCache.make_crs in H.
    destruct (cache_get W (cache st) (make_key W sp)) as [e0|] eqn:G.
    - inversion H; subst. left. split; auto. apply cache_get_In in G. exact G.
    - right. destruct sp as [t|n|id srs]; simpl.
      + destruct (prep t) as [srs|]; [|discriminate].
        inv_ok H. inversion H; subst; clear H. apply alloc_ok in H0. destruct H0 as (-> & Hn).
        exists srs, 0. simpl. repeat split; auto.
      + destruct (prep (o_epsg_text W n)) as [srs|]; [|discriminate].
        inv_ok H. inversion H; subst; clear H. apply alloc_ok in H0. destruct H0 as (-> & Hn).
        exists srs, n. simpl. repeat split; auto.
      + inversion H; subst; clear H. exists srs, 0. simpl. repeat split; auto.
  Qed.

  (** * how [CRS(spec)] reaches [_make_crs] *)
  Inductive link (st : state) (nid : Z) : spec -> mspec -> state -> Prop :=
  | L_int n : link st nid (SpInt n) (MInt n) st
  | L_str t : link st nid (SpStr t) (MStr t) st
  | L_dict t srs stm : prep t = Some srs -> alloc st nid srs = Ok stm -> link st nid (SpDict t) (MObj nid srs) stm
  | L_pynew t srs stm : prep t = Some srs -> alloc st nid srs = Ok stm -> link st nid (SpPyNew t) (MObj nid srs) stm
  | L_py i p : get_py st i = Ok p -> link st nid (SpPy i) (MObj (fst p) (snd p)) st
  | L_pickle i v0 : get_var st i = Ok v0 -> link st nid (SpPickle i) (MStr (c_str v0)) st.

  Lemma crs_new_link st s nid st1 v :
    crs_new st s nid = Ok (st1, v) ->
    (exists i, s = SpCrs i /\ st1 = st /\ get_var st i = Ok v) \/
    (exists sp stm e, link st nid s sp stm /\ make_crs stm sp nid = Ok (st1, e) /\ v = crs_of_entry e).
  Proof.
    intros H. destruct s as [n|t|t|t|i|i|i]; simpl in H.
    - right. inv_ok H. destruct x as (s2 & e). inversion H; subst. exists (MInt n), st, e. repeat split; auto. constructor.
    - right. inv_ok H. destruct x as (s2 & e). inversion H; subst. exists (MStr t), st, e. repeat split; auto. constructor.
    - right. destruct (prep t) as [srs|] eqn:P; [|discriminate].
      inv_ok H. inv_ok H. destruct x0 as (s2 & e). inversion H; subst.
      exists (MObj nid srs), x, e. repeat split; auto. econstructor; eauto.
    - right. destruct (prep t) as [srs|] eqn:P; [|discriminate].
      inv_ok H. inv_ok H. destruct x0 as (s2 & e). inversion H; subst.
      exists (MObj nid srs), x, e. repeat split; auto. econstructor; eauto.
    - right. inv_ok H. inv_ok H. destruct x0 as (s2 & e). inversion H; subst.
      exists (MObj (fst x) (snd x)), st, e. repeat split; auto. constructor; auto.
    - left. inv_ok H. inversion H; subst. eauto.
    - right. inv_ok H. inv_ok H. destruct x0 as (s2 & e). inversion H; subst.
      exists (MStr (c_str x)), st, e. repeat split; auto. econstructor; eauto.
  Qed.

  Lemma link_cache st nid s sp stm : link st nid s sp stm -> cache stm = cache st.
  Proof.
    intros L; inversion L; subst; auto;
      match goal with H : alloc _ _ _ = Ok _ |- _ => apply alloc_ok in H; destruct H as (-> & _); reflexivity end.
  Qed.

  Lemma link_closed st nid s sp stm srs :
    link st nid s sp stm -> closed s = true -> spec_srs W s = Some srs -> sp = spec_mspec s nid srs /\ sp_srs sp = Some srs.
  Proof.
    intros L C S; inversion L; subst; simpl in *; try discriminate; auto.
    - rewrite H in S. inversion S; subst; auto.
    - rewrite H in S. inversion S; subst; auto.
  Qed.

  (** * string form *)
  Lemma norm_entry_str id srs e0 : e_str (norm_entry W id srs e0) = fresh_str W srs.
  Proof. unfold norm_entry, fresh_str. destruct (o_is_epsg W (o_upper W srs)); reflexivity. Qed.

  Definition coherent_for (st : state) (k : key) (str : text) : Prop :=
    forall k' e, In (k', e) (cache st) -> key_eqb W k' k = true -> e_str e = str.

  Theorem crs_str_partial st s nid st1 v srs :
    closed s = true -> spec_srs W s = Some srs ->
    crs_new st s nid = Ok (st1, v) ->
    coherent_for st (make_key W (spec_mspec s nid srs)) (fresh_str W srs) ->
    c_str v = fresh_str W srs.
  Proof.
    intros C S H Co. apply crs_new_link in H. destruct H as [(i & -> & _)|(sp & stm & e & L & M & ->)]; [discriminate|].
    destruct (link_closed _ _ _ _ _ _ L C S) as (-> & Ssp).
    pose proof (link_cache _ _ _ _ _ L) as Ec.
    apply make_crs_cases in M. destruct M as [(-> & k' & Hin & Hk)|(srs' & e0 & S' & -> & _)].
    - simpl. rewrite Ec in Hin. eapply Co; eauto.
    - simpl. rewrite Ssp in S'. inversion S'; subst. apply norm_entry_str.
  Qed.

  Corollary crs_str_fresh s nid st1 v srs :
    closed s = true -> spec_srs W s = Some srs -> crs_new init s nid = Ok (st1, v) -> c_str v = fresh_str W srs.
  Proof. intros C S H. eapply crs_str_partial; eauto. intros k' e []. Qed.

  (** * string-keyed histories: the cached [_str] is a function of the key *)
  Definition str_cache (st : state) : Prop :=
    forall k e, In (k, e) (cache st) -> exists t, k = KStr t /\ e_str e = str_of_key W t.

  Lemma epsg_upper_false t : o_is_epsg W (o_upper W t) = false -> o_is_epsg W t = false.
  Proof.
    intros H. destruct (o_is_epsg W t) eqn:E; auto. apply (k_epsg_upper W K) in E. congruence.
  Qed.

  Lemma strkey_fresh sp srs :
    (forall i s, sp <> MObj i s) -> sp_srs sp = Some srs ->
    exists p, make_key W sp = KStr p /\ str_of_key W p = fresh_str W srs.
  Proof.
    intros N S. destruct sp as [t|n|i s]; [| |exfalso; eapply N; eauto]; simpl in *.
    - destruct (o_is_epsg W (o_upper W t)) eqn:E.
      + exists (o_upper W t). split; auto. unfold str_of_key. rewrite E.
        pose proof (k_prep_epsg W K t srs E S). subst. unfold fresh_str. rewrite E. reflexivity.
      + exists t. split; auto. unfold str_of_key. rewrite (epsg_upper_false _ E), S. reflexivity.
    - destruct (k_etext W K n srs S) as (A & B & C). exists (o_epsg_text W n). split; auto.
      unfold str_of_key. rewrite A.
      assert (E : o_is_epsg W (o_upper W (o_epsg_text W n)) = true) by (rewrite B; auto).
      pose proof (k_prep_epsg W K _ _ E S). subst. unfold fresh_str. rewrite E, B. reflexivity.
  Qed.

  Lemma key_eqb_str a b : key_eqb W (KStr a) (KStr b) = true -> a = b.
  Proof. unfold key_eqb; simpl. intros H. apply andb_true_iff in H. destruct H as (_ & H). apply Z.eqb_eq; auto. Qed.

  Lemma str_cache_coherent st sp srs :
    str_cache st -> (forall i s, sp <> MObj i s) -> sp_srs sp = Some srs ->
    coherent_for st (make_key W sp) (fresh_str W srs).
  Proof.
    intros Sc N S k' e Hin Hk. destruct (strkey_fresh sp srs N S) as (p & Ep & Es).
    destruct (Sc k' e Hin) as (t & -> & Et). rewrite Ep in Hk. apply key_eqb_str in Hk. subst. congruence.
  Qed.

  Lemma str_cache_make st sp nid st1 e :
    str_cache st -> (forall i s, sp <> MObj i s) -> make_crs st sp nid = Ok (st1, e) -> str_cache st1.
  Proof.
    intros Sc N M. apply make_crs_cases in M. destruct M as [(-> & _)|(srs & e0 & S & -> & _ & Ec & _)]; auto.
    intros k e Hin. rewrite Ec in Hin. destruct Hin as [Hin|Hin]; [|apply Sc; auto].
    inversion Hin; subst. destruct (strkey_fresh sp srs N S) as (p & Ep & Es).
    exists p. split; auto. rewrite norm_entry_str. auto.
  Qed.

  Lemma str_cache_step st o st' x : strkey_op o = true -> str_cache st -> step st o = Ok (st', x) -> str_cache st'.
  Proof.
    intros So Sc H. destruct o as [t nid|s nid|i|i j|i|i| |i j xy]; simpl in H.
    - destruct (prep t) as [srs|]; [|discriminate]. inv_ok H. inversion H; subst.
      apply alloc_ok in H0. destruct H0 as (-> & _). exact Sc.
    - inv_ok H. destruct x0 as (st1 & v). inversion H; subst; clear H.
      change (str_cache st1). apply crs_new_link in H0.
      destruct H0 as [(i & -> & -> & _)|(sp & stm & e & L & M & ->)]; auto.
      inversion L; subst; simpl in So; try discriminate;
        (eapply str_cache_make; [exact Sc| |exact M]; intros; discriminate).
    - inv_ok H. inversion H; subst. exact Sc.
    - inv_ok H. inv_ok H. inversion H; subst. exact Sc.
    - inv_ok H. inversion H; subst. exact Sc.
    - inv_ok H. inversion H; subst. exact Sc.
    - inversion H; subst. exact Sc.
    - inv_ok H. inv_ok H. destruct (tc_get (tcache st) (c_id x0, c_id x1, xy)); inversion H; subst; exact Sc.
  Qed.

  Lemma str_cache_run h : forall st, forallb strkey_op h = true -> str_cache st -> str_cache (run st h).
  Proof.
    induction h as [|o r IH]; intros st F Sc; simpl; auto.
    simpl in F. apply andb_true_iff in F. destruct F as (Fo & Fr).
    destruct (step st o) as [[st' x]|e] eqn:E; auto.
    apply IH; auto. eapply str_cache_step; eauto.
  Qed.

  (** history independence for the string-keyed world (ints, strings in any spelling, CRS copies, pickled copies) *)
  Theorem crs_str_history_independent_strings h s nid nid' st1 st1' v v' :
    forallb strkey_op h = true -> (exists n, s = SpInt n) \/ (exists t, s = SpStr t) ->
    crs_new (run init h) s nid = Ok (st1, v) -> crs_new init s nid' = Ok (st1', v') ->
    c_str v = c_str v'.
  Proof.
    intros F Hs H H'.
    assert (C : closed s = true) by (destruct Hs as [(n & ->)|(t & ->)]; reflexivity).
    assert (Ssrs : exists srs, spec_srs W s = Some srs).
    { apply crs_new_link in H'. destruct H' as [(i & -> & _)|(sp & stm & e & L & M & _)]; [discriminate|].
      destruct Hs as [(n & ->)|(t & ->)]; inversion L; subst;
        apply make_crs_cases in M; destruct M as [(_ & k' & [] & _)|(srs & e0 & S & _)]; simpl in *; eauto. }
    destruct Ssrs as (srs & S).
    rewrite (crs_str_fresh _ _ _ _ _ C S H').
    eapply crs_str_partial; eauto.
    assert (Sc : str_cache (run init h)) by (apply str_cache_run; auto; intros k e []).
    destruct Hs as [(n & ->)|(t & ->)].
    - apply (str_cache_coherent _ (MInt n) srs Sc); [intros; discriminate | exact S].
    - apply (str_cache_coherent _ (MStr t) srs Sc); [intros; discriminate | exact S].
  Qed.

  (** * pyproj-equality of what is returned: invariants *)
  Definition valid_heap (st : state) : Prop := forall i s, In (i, s) (heap st) -> prep s = Some s.
  Definition peq_entry (k : key) (e : entry) : Prop :=
    match k with
    | KStr t => exists r, prep t = Some r /\ peq (e_srs e) r = true
    | KObj _ s => peq (e_srs e) s = true
    end.
  Definition entry_ok (e : entry) : Prop :=
    (e_epsg e = 0 \/ Some (e_epsg e) = o_to_epsg W (e_srs e)) /\ e_str e = fresh_str W (e_srs e).
  Definition var_ok (v : crsv) : Prop := epsg_ok W v /\ c_str v = fresh_str W (c_srs v).

  Record good (st : state) : Prop := mkGood {
    g_inv : inv st;
    g_heap : valid_heap st;
    g_cache : forall k e, In (k, e) (cache st) -> peq_entry k e /\ entry_ok e;
    g_vars : forall v, In (Some v) (vars st) -> var_ok v
  }.

  Lemma good_init : good init.
  Proof. constructor; simpl; try tauto. apply inv_init. intros i s []. Qed.

  Lemma var_ok_entry e : entry_ok e -> var_ok (crs_of_entry e).
  Proof.
    intros (A & B). split; simpl; auto. unfold epsg_ok; simpl. destruct A as [A|A]; [left; congruence | right; auto].
  Qed.

  Lemma key_content sp srs p :
    sp_srs sp = Some srs -> make_key W sp = KStr p -> exists r, prep p = Some r /\ peq srs r = true.
  Proof.
    intros S E. destruct sp as [t|n|i s]; simpl in *; [| |discriminate].
    - destruct (o_is_epsg W (o_upper W t)) eqn:Ee; inversion E; subst.
      + pose proof (k_prep_epsg W K t srs Ee S). subst.
        destruct (k_prep_upper W K t Ee S) as (A & B). eauto.
      + exists srs. split; auto. apply (k_refl W K).
    - inversion E; subst. exists srs. split; auto. apply (k_refl W K).
  Qed.

  Lemma norm_entry_ok id srs e0 :
    prep srs = Some srs ->
    (e0 = 0 \/ (o_is_epsg W (o_upper W srs) = true /\ o_code W (o_upper W srs) = e0)) ->
    entry_ok (norm_entry W id srs e0).
  Proof.
    intros V H. split; [|rewrite norm_entry_str; destruct (norm_entry_id W id srs e0) as (_ & ->); reflexivity].
    unfold norm_entry. destruct (o_is_epsg W (o_upper W srs)) eqn:E; simpl.
    - destruct (Z.eqb_spec (o_code W (o_upper W srs)) 0) as [Z0|NZ]; simpl.
      + (* not a single code (compound definition): [_epsg] stays what it was *)
        destruct H as [->|(_ & H)]; [left; reflexivity|]. left. rewrite <- H, Z0. reflexivity.
      + right. symmetry. apply (k_toepsg_code W K); auto.
    - destruct H as [->|(H & _)]; [left; reflexivity | discriminate].
  Qed.

  (** [_make_crs] preserves [good] and returns an entry pyproj-equal to the object asked for *)
  Lemma make_crs_good st sp nid st1 e srs :
    good st -> (forall i s, sp = MObj i s -> In (i, s) (heap st)) -> sp_srs sp = Some srs ->
    make_crs st sp nid = Ok (st1, e) ->
    good st1 /\ peq (e_srs e) srs = true /\ entry_ok e.
  Proof.
    intros G Hobj S M. pose proof M as M0. destruct G as [I Vh Gc Gv].
    destruct (make_crs_inv W _ _ _ _ _ I Hobj M0) as (I1 & X1 & _).
    apply make_crs_cases in M. destruct M as [(-> & k' & Hin & Hk)|(srs' & e0 & S' & -> & He0 & Ec & Eh & Et & Ev & Ep)].
    - destruct (Gc k' e Hin) as (Pe & Oe). split; [constructor; auto|]. split; auto.
      (* hit: the stored key matches the probe *)
      unfold key_eqb in Hk. apply andb_true_iff in Hk. destruct Hk as (_ & Hk).
      destruct k' as [a|i0 s0]; destruct (make_key W sp) as [p|j s'] eqn:Ek; simpl in Pe.
      + apply Z.eqb_eq in Hk. subst. destruct Pe as (r & Pr & Qr).
        destruct (key_content sp srs p S Ek) as (r' & Pr' & Qr'). rewrite Pr in Pr'. inversion Pr'; subst.
        eapply (k_trans W K); eauto. apply (k_sym W K); auto.
      + destruct sp as [t|n|i s]; simpl in Ek; try discriminate.
        * destruct (o_is_epsg W (o_upper W t)); discriminate.
        * inversion Ek; subst. simpl in S. inversion S; subst.
          unfold obj_eq_str in Hk. destruct Pe as (r & Pr & Qr). rewrite Pr in Hk.
          eapply (k_trans W K); eauto. apply (k_sym W K); auto.
      + unfold obj_eq_str in Hk. destruct (key_content sp srs p S Ek) as (r' & Pr' & Qr'). rewrite Pr' in Hk.
        eapply (k_trans W K); [exact Pe|]. eapply (k_trans W K); [exact Hk|]. apply (k_sym W K); auto.
      + destruct sp as [t|n|i s]; simpl in Ek; try discriminate.
        * destruct (o_is_epsg W (o_upper W t)); discriminate.
        * inversion Ek; subst. simpl in S. inversion S; subst.
          apply orb_true_iff in Hk. destruct Hk as [Hk|Hk].
          -- apply Z.eqb_eq in Hk. subst.
             destruct (inv_cache _ I _ _ Hin) as (_ & Hko). specialize (Hko _ _ eq_refl).
             pose proof (Hobj _ _ eq_refl) as Hpo.
             assert (s0 = srs) by (eapply NoDup_fst_fun; eauto; apply (inv_nodup _ I)). subst. exact Pe.
          -- eapply (k_trans W K); eauto.
    - rewrite S in S'. inversion S'; subst srs'. clear S'.
      assert (V : prep srs = Some srs).
      { destruct sp as [t|n|i s]; simpl in S.
        - eapply (k_prep_idem W K); eauto.
        - eapply (k_prep_idem W K); eauto.
        - inversion S; subst. eapply Vh. eapply Hobj; eauto. }
      assert (Oe : entry_ok (norm_entry W (sp_id sp nid) srs e0)).
      { apply norm_entry_ok; auto. destruct He0 as [-> | ->]; auto. right. simpl in S.
        destruct (k_etext W K e0 srs S) as (A & B & C).
        assert (E : o_is_epsg W (o_upper W (o_epsg_text W e0)) = true) by (rewrite B; auto).
        pose proof (k_prep_epsg W K _ _ E S). subst. split; [exact E|]. rewrite B. exact C. }
      destruct (norm_entry_id W (sp_id sp nid) srs e0) as (Ei & Es).
      split; [|split; auto; rewrite Es; apply (k_refl W K)].
      constructor; auto.
      + intros i s Hin. destruct Eh as [Eh|(Eh & _)]; rewrite Eh in Hin; [eapply Vh; eauto|].
        destruct Hin as [Hin|Hin]; [inversion Hin; subst; auto | eapply Vh; eauto].
      + intros k e Hin. rewrite Ec in Hin. destruct Hin as [Hin|Hin]; [|apply Gc; auto].
        inversion Hin; subst. split; auto.
        destruct (make_key W sp) as [p|j s'] eqn:Ek; simpl; rewrite Es.
        * apply (key_content sp srs p S Ek).
        * destruct sp as [t|n|i s]; simpl in Ek; try discriminate.
          -- destruct (o_is_epsg W (o_upper W t)); discriminate.
          -- inversion Ek; subst. simpl in S. inversion S; subst. apply (k_refl W K).
      + intros v Hin. rewrite Ev in Hin. apply Gv; auto.
  Qed.

  Lemma good_alloc st nid srs stm : good st -> prep srs = Some srs -> alloc st nid srs = Ok stm -> good stm /\ In (nid, srs) (heap stm).
  Proof.
    intros G V A. destruct G as [I Vh Gc Gv]. destruct (inv_alloc _ _ _ _ I A) as (I1 & X & Hin).
    apply alloc_ok in A. destruct A as (-> & _). split; auto.
    constructor; simpl; auto.
    intros i s [H|H]; [inversion H; subst; auto | eapply Vh; eauto].
  Qed.

  Lemma good_sweep st : good st -> good (sweep st).
  Proof.
    intros [I Vh Gc Gv]. constructor; auto.
    - apply inv_sweep; auto.
    - intros i s H. apply sweep_sub in H. eapply Vh; eauto.
  Qed.

  (** what a live CRS instance remembers about its object is valid *)
  Lemma var_valid st v : good st -> In (Some v) (vars st) -> prep (c_srs v) = Some (c_srs v).
  Proof. intros G H. destruct (inv_vars _ (g_inv _ G) v H) as (A & _). eapply (g_heap _ G); eauto. Qed.

  Lemma fresh_str_key srs :
    prep srs = Some srs ->
    exists r, sp_srs (MStr (fresh_str W srs)) = Some r /\ peq r srs = true.
  Proof.
    intros V. unfold fresh_str. destruct (o_is_epsg W (o_upper W srs)) eqn:E; simpl.
    - destruct (k_prep_upper W K srs E V) as (A & B). exists (o_upper W srs). split; auto. apply (k_sym W K); auto.
    - exists srs. split; auto. apply (k_refl W K).
  Qed.

  (** [CRS(spec)] in a good state: good afterwards, and the value is pyproj-equal to the object
      the specification denotes ([rs] = srs of that object) *)
  Lemma crs_new_good st s nid st1 v :
    good st -> crs_new st s nid = Ok (st1, v) ->
    good st1 /\ var_ok v /\
    (forall srs, closed s = true -> spec_srs W s = Some srs -> peq (c_srs v) srs = true) /\
    (forall i v0, s = SpPickle i -> get_var st i = Ok v0 -> peq (c_srs v) (c_srs v0) = true) /\
    (forall i p, s = SpPy i -> get_py st i = Ok p -> peq (c_srs v) (snd p) = true).
  Proof.
    intros G H. apply crs_new_link in H. destruct H as [(i & -> & -> & Hv)|(sp & stm & e & L & M & ->)].
    - split; auto. split; [apply (g_vars _ G); eapply get_var_In; eauto|].
      repeat split; intros; try discriminate.
    - inversion L; subst.
      + destruct (sp_srs (MInt n)) as [srs|] eqn:S.
        2:{ apply make_crs_cases in M. simpl in S. destruct M as [(-> & k' & Hin & Hk)|(srs' & e0 & S' & _)].
            2:{ simpl in S'. congruence. }
            (* hit although pyproj rejects the code: the entry is still good *)
            destruct (g_cache _ G _ _ Hin) as (_ & Oe). split; auto. split; [apply var_ok_entry; auto|].
            repeat split; intros; try discriminate. simpl in *. congruence. }
        destruct (make_crs_good _ (MInt n) _ _ _ _ G ltac:(intros; discriminate) S M) as (G1 & P & Oe).
        split; auto. split; [apply var_ok_entry; auto|]. repeat split; intros; try discriminate.
        simpl in *. congruence.
      + destruct (sp_srs (MStr t)) as [srs|] eqn:S.
        2:{ apply make_crs_cases in M. simpl in S. destruct M as [(-> & k' & Hin & Hk)|(srs' & e0 & S' & _)].
            2:{ simpl in S'. congruence. }
            destruct (g_cache _ G _ _ Hin) as (_ & Oe). split; auto. split; [apply var_ok_entry; auto|].
            repeat split; intros; try discriminate. simpl in *. congruence. }
        destruct (make_crs_good _ (MStr t) _ _ _ _ G ltac:(intros; discriminate) S M) as (G1 & P & Oe).
        split; auto. split; [apply var_ok_entry; auto|]. repeat split; intros; try discriminate.
        simpl in *. congruence.
      + destruct (good_alloc _ _ _ _ G (k_prep_idem W K _ _ H) H0) as (Gm & Hin).
        destruct (make_crs_good _ (MObj nid srs) _ _ _ srs Gm ltac:(intros ? ? E; inversion E; subst; auto) eq_refl M) as (G1 & P & Oe).
        split; auto. split; [apply var_ok_entry; auto|]. repeat split; intros; try discriminate.
        simpl in *. congruence.
      + destruct (good_alloc _ _ _ _ G (k_prep_idem W K _ _ H) H0) as (Gm & Hin).
        destruct (make_crs_good _ (MObj nid srs) _ _ _ srs Gm ltac:(intros ? ? E; inversion E; subst; auto) eq_refl M) as (G1 & P & Oe).
        split; auto. split; [apply var_ok_entry; auto|]. repeat split; intros; try discriminate.
        simpl in *. congruence.
      + pose proof (get_py_In _ _ _ H) as Hp. destruct p as (pid & psrs).
        assert (Hh : In (pid, psrs) (heap stm)) by (apply (inv_pys _ (g_inv _ G)); auto).
        destruct (make_crs_good _ (MObj pid psrs) _ _ _ psrs G ltac:(intros ? ? E; inversion E; subst; auto) eq_refl M) as (G1 & P & Oe).
        split; auto. split; [apply var_ok_entry; auto|]. repeat split; intros; try discriminate.
        inversion H0; subst. rewrite H in H1. inversion H1; subst. exact P.
      + pose proof (get_var_In _ _ _ H) as Hv0.
        destruct (g_vars _ G _ Hv0) as (_ & Estr).
        destruct (fresh_str_key _ (var_valid _ _ G Hv0)) as (r & Sr & Pr). rewrite <- Estr in Sr.
        destruct (make_crs_good _ (MStr (c_str v0)) _ _ _ r G ltac:(intros; discriminate) Sr M) as (G1 & P & Oe).
        split; auto. split; [apply var_ok_entry; auto|]. repeat split; intros; try discriminate.
        inversion H0; subst. rewrite H in H1. inversion H1; subst. eapply (k_trans W K); eauto.
  Qed.

  Lemma good_push st v : good st -> good_var st v -> var_ok v -> good (with_vars st (vars st ++ [Some v])).
  Proof.
    intros [I Vh Gc Gv] Gd Ov. constructor; simpl; auto.
    - apply inv_push_var; auto.
    - intros v' H. apply in_app_or in H. destruct H as [H|[H|[]]]; [apply Gv; auto | inversion H; subst; auto].
  Qed.

  Lemma to_epsg_ok v : var_ok v -> var_ok (to_epsg W v).
  Proof.
    intros (A & B). unfold to_epsg. destruct (oz_eqb (c_epsg v) (Some 0)); [|split; auto].
    split; simpl; auto. right; reflexivity.
  Qed.

  Theorem step_good st o st' x : good st -> step st o = Ok (st', x) -> good st'.
  Proof.
    intros G H. pose proof (step_inv W _ _ _ _ (g_inv _ G) H) as I'.
    destruct o as [t nid|s nid|i|i j|i|i| |i j xy]; simpl in H.
    - destruct (prep t) as [srs|] eqn:P; [|discriminate]. inv_ok H. inversion H; subst; clear H.
      destruct (good_alloc _ _ _ _ G (k_prep_idem W K _ _ P) H0) as ([I1 Vh Gc Gv] & _).
      constructor; simpl; auto.
    - inv_ok H. destruct x0 as (st1 & v). inversion H; subst; clear H. simpl in *.
      destruct (crs_new_good _ _ _ _ _ G H0) as (G1 & Ov & _).
      destruct (crs_new_inv W _ _ _ _ _ (g_inv _ G) H0) as (_ & _ & Gd).
      apply good_sweep. apply good_push; auto.
    - inv_ok H. inversion H; subst; clear H. destruct G as [I Vh Gc Gv]. constructor; simpl; auto.
      intros v' Hin. apply In_set_nth in Hin. destruct Hin as [Hin|Hin]; [|apply Gv; auto].
      inversion Hin; subst. apply to_epsg_ok. apply Gv. eapply get_var_In; eauto.
    - inv_ok H. inv_ok H. inversion H; subst; auto.
    - inv_ok H. inversion H; subst; clear H. apply good_sweep. destruct G as [I Vh Gc Gv]. constructor; simpl; auto.
      + apply inv_drop_var; auto.
      + intros v' Hin. apply In_set_nth in Hin. destruct Hin as [Hin|Hin]; [discriminate|apply Gv; auto].
    - inv_ok H. inversion H; subst; clear H. apply good_sweep. destruct G as [I Vh Gc Gv]. constructor; simpl; auto.
      apply inv_drop_py; auto.
    - inversion H; subst. apply good_sweep; auto.
    - inv_ok H. inv_ok H. destruct G as [I Vh Gc Gv].
      destruct (tc_get (tcache st) (c_id x0, c_id x1, xy)); inversion H; subst; constructor; simpl; auto.
  Qed.

  Theorem run_good h : forall st, good st -> good (run st h).
  Proof.
    induction h as [|o r IH]; intros st G; simpl; auto.
    destruct (step st o) as [[st' x]|e] eqn:E; auto. apply IH. eapply step_good; eauto.
  Qed.

  (** * equality of CRS instances *)
  Lemma truthy_some e : truthy e = true -> exists n, e = Some n /\ n <> 0.
  Proof.
    destruct e as [n|]; simpl; [|discriminate]. intros H. exists n. split; auto.
    intros ->. discriminate.
  Qed.

  Lemma oz_eqb_true a b : oz_eqb a b = true <-> a = b.
  Proof.
    destruct a, b; simpl; split; intros H; try discriminate; auto.
    - apply Z.eqb_eq in H. congruence.
    - inversion H. apply Z.eqb_refl.
  Qed.

  (** pyproj-equal instances with sane [_epsg] slots compare equal *)
  Theorem crs_eq_of_peq a b : epsg_ok W a -> epsg_ok W b -> peq (c_srs a) (c_srs b) = true -> crs_eq W a b = true.
  Proof.
    intros Ea Eb P. unfold crs_eq.
    destruct (c_id a =? c_id b); auto.
    destruct (truthy (c_epsg a) && truthy (c_epsg b) && negb (oz_eqb (c_epsg a) (c_epsg b))) eqn:T.
    - exfalso. apply andb_true_iff in T. destruct T as (T & Tn). apply andb_true_iff in T. destruct T as (Ta & Tb).
      apply truthy_some in Ta, Tb. destruct Ta as (n & En & Nn), Tb as (m & Em & Nm).
      assert (n = m).
      { destruct Ea as [Ea|Ea]; [rewrite Ea in En; inversion En; congruence|].
        destruct Eb as [Eb|Eb]; [rewrite Eb in Em; inversion Em; congruence|].
        rewrite Ea in En. rewrite Eb in Em. eapply (k_toepsg_peq W K); eauto. }
      subst. rewrite En, Em in Tn. simpl in Tn. rewrite Z.eqb_refl in Tn. discriminate.
    - destruct (c_str a =? c_str b); auto.
  Qed.

  (** conversely, with the string forms tied to the objects, equal instances are pyproj-equal *)
  Lemma fresh_str_peq s1 s2 :
    prep s1 = Some s1 -> prep s2 = Some s2 -> fresh_str W s1 = fresh_str W s2 -> peq s1 s2 = true.
  Proof.
    intros V1 V2. unfold fresh_str.
    destruct (o_is_epsg W (o_upper W s1)) eqn:E1; destruct (o_is_epsg W (o_upper W s2)) eqn:E2; intros H.
    - destruct (k_prep_upper W K s1 E1 V1) as (_ & A). destruct (k_prep_upper W K s2 E2 V2) as (_ & B).
      rewrite H in A. eapply (k_trans W K); eauto. apply (k_sym W K); auto.
    - subst s2. destruct (k_prep_upper W K s1 E1 V1) as (_ & A). exact A.
    - subst s1. destruct (k_prep_upper W K s2 E2 V2) as (_ & A). apply (k_sym W K); auto.
    - subst. apply (k_refl W K).
  Qed.

  Theorem crs_eq_iff_peq a b :
    var_ok a -> var_ok b -> prep (c_srs a) = Some (c_srs a) -> prep (c_srs b) = Some (c_srs b) ->
    (c_id a = c_id b -> c_srs a = c_srs b) ->
    (crs_eq W a b = true <-> peq (c_srs a) (c_srs b) = true).
  Proof.
    intros (Ea & Sa) (Eb & Sb) Va Vb Hid. split; [|apply crs_eq_of_peq; auto].
    unfold crs_eq. destruct (c_id a =? c_id b) eqn:Ei.
    - intros _. apply Z.eqb_eq in Ei. rewrite (Hid Ei). apply (k_refl W K).
    - destruct (truthy (c_epsg a) && truthy (c_epsg b) && negb (oz_eqb (c_epsg a) (c_epsg b))); [discriminate|].
      destruct (c_str a =? c_str b) eqn:Es; auto.
      intros _. apply Z.eqb_eq in Es. rewrite Sa, Sb in Es. apply fresh_str_peq; auto.
  Qed.

  (** lossless-equivalent specifications give equal objects, whatever happened before either construction *)
  Theorem lossless_specs_equal h1 h2 s1 s2 n1 n2 st1 st2 v1 v2 r1 r2 :
    closed s1 = true -> closed s2 = true ->
    crs_new (run init h1) s1 n1 = Ok (st1, v1) -> crs_new (run init h2) s2 n2 = Ok (st2, v2) ->
    spec_srs W s1 = Some r1 -> spec_srs W s2 = Some r2 -> peq r1 r2 = true ->
    crs_eq W v1 v2 = true /\ crs_eq W (to_epsg W v1) v2 = true /\ crs_eq W v1 (to_epsg W v2) = true /\
    crs_eq W (to_epsg W v1) (to_epsg W v2) = true.
  Proof.
    intros C1 C2 H1 H2 S1 S2 P.
    destruct (crs_new_good _ _ _ _ _ (run_good h1 _ good_init) H1) as (_ & O1 & P1 & _).
    destruct (crs_new_good _ _ _ _ _ (run_good h2 _ good_init) H2) as (_ & O2 & P2 & _).
    specialize (P1 _ C1 S1). specialize (P2 _ C2 S2).
    assert (Pv : peq (c_srs v1) (c_srs v2) = true).
    { eapply (k_trans W K); [exact P1|]. eapply (k_trans W K); [exact P|]. apply (k_sym W K); auto. }
    pose proof (to_epsg_ok _ O1) as O1'. pose proof (to_epsg_ok _ O2) as O2'.
    assert (E1 : c_srs (to_epsg W v1) = c_srs v1) by (unfold to_epsg; destruct (oz_eqb (c_epsg v1) (Some 0)); reflexivity).
    assert (E2 : c_srs (to_epsg W v2) = c_srs v2) by (unfold to_epsg; destruct (oz_eqb (c_epsg v2) (Some 0)); reflexivity).
    destruct O1, O2, O1', O2'.
    repeat split; apply crs_eq_of_peq; auto; rewrite ?E1, ?E2; auto.
  Qed.

  (** copies and pickled copies of a live instance are equal to it *)
  Theorem copy_and_pickle_equal h i v nid st1 v' s :
    get_var (run init h) i = Ok v -> s = SpCrs i \/ s = SpPickle i ->
    crs_new (run init h) s nid = Ok (st1, v') ->
    crs_eq W v' v = true /\ crs_eq W v v' = true.
  Proof.
    intros Hv Hs H. pose proof (run_good h _ good_init) as G.
    destruct (crs_new_good _ _ _ _ _ G H) as (_ & O' & _ & Pp & _).
    pose proof (get_var_In _ _ _ Hv) as Hin. destruct (g_vars _ G _ Hin) as (Ov & _). destruct O' as (O' & _).
    destruct Hs as [-> | ->].
    - simpl in H. rewrite Hv in H. simpl in H. inversion H; subst.
      split; apply crs_eq_of_peq; auto; apply (k_refl W K).
    - specialize (Pp _ _ eq_refl Hv). split; apply crs_eq_of_peq; auto. apply (k_sym W K); auto.
  Qed.

  (** a pickled copy keeps the string form (hence hash and token) when no aliasing key is cached ... *)
  Theorem pickle_str_partial st i v nid st1 v' :
    good st -> get_var st i = Ok v -> crs_new st (SpPickle i) nid = Ok (st1, v') ->
    coherent_for st (make_key W (MStr (c_str v))) (c_str v) ->
    c_str v' = c_str v.
  Proof.
    intros G Hv H Co. apply crs_new_link in H. destruct H as [(j & E & _)|(sp & stm & e & L & M & ->)]; [discriminate|].
    inversion L; subst. rewrite Hv in H0. inversion H0; subst v0. clear H0.
    pose proof (get_var_In _ _ _ Hv) as Hin. destruct (g_vars _ G _ Hin) as (_ & Estr).
    pose proof (var_valid _ _ G Hin) as V.
    apply make_crs_cases in M. destruct M as [(-> & k' & Hk & Hkk)|(srs & e0 & S & -> & _)].
    - simpl. eapply Co; eauto.
    - simpl. rewrite norm_entry_str. simpl in S. rewrite Estr in S |- *.
      unfold fresh_str in S |- *. destruct (o_is_epsg W (o_upper W (c_srs v))) eqn:E.
      + destruct (k_prep_upper W K _ E V) as (A & _). rewrite A in S. inversion S; subst.
        rewrite (k_upper_idem W K), E. reflexivity.
      + rewrite V in S. inversion S; subst. rewrite E. reflexivity.
  Qed.
End History.
