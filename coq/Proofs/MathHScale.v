(** snap_scale, snap_affine, is_affine_st, maybe_zero, clamp. *)
From Coq Require Import ZArith QArith Qround Qabs List Bool Lia Lqa.
From OG Require Import Base.Result Base.QZ Model.Roi Model.MathH Proofs.MathHBasics.
Open Scope Q_scope.

Lemma Qabs_one_over q : Qabs (1 / q) == / Qabs q.
Proof.
  unfold Qdiv. rewrite Qabs_Qmult, Qabs_Qinv.
  setoid_replace (Qabs 1) with 1 by reflexivity. ring.
Qed.

Lemma Qinv_gt_1 a : 0 < a -> a < 1 -> 1 < / a.
Proof.
  intros H0 H1. setoid_replace 1 with (/ 1) at 1 by reflexivity.
  assert (P1 : 0 < 1) by reflexivity.
  exact (proj1 (Qinv_lt_contravar a 1 H0 P1) H1).
Qed.

Lemma Qinv_le_half a : 2 <= a -> 0 < / a /\ / a <= 1 # 2.
Proof.
  intros H. assert (P : 0 < a) by lra. split.
  - apply Qinv_lt_0_compat. exact P.
  - setoid_replace (/ a) with (1 / a) by (field; lra).
    apply Qle_shift_div_r; [exact P | lra].
Qed.

Lemma Qabs_inject_Z_ge1 n : n <> 0%Z -> 1 <= Qabs (inject_Z n).
Proof.
  intros N. destruct (inject_Z_apart n 0 N) as [H|H]; change (inject_Z 0) with 0 in H;
    destruct (Qabs_case_lra (inject_Z n)) as [(?&->)|(?&->)]; lra.
Qed.

Lemma Qabs_inject_Z_ge2 n : n <> 0%Z -> ~ Qabs (inject_Z n) == 1 -> 2 <= Qabs (inject_Z n).
Proof.
  intros N N1.
  assert (A : n <> 1%Z) by (intros ->; apply N1; reflexivity).
  assert (B : n <> (-1)%Z) by (intros ->; apply N1; reflexivity).
  destruct (Z_lt_le_dec n 0) as [L|L].
  - assert (H : (n <= -2)%Z) by lia. rewrite Zle_Qle in H.
    destruct (Qabs_case_lra (inject_Z n)) as [(?&->)|(?&->)]; change (inject_Z (-2)) with (-(2)) in H; change (inject_Z 2) with 2 in H; lra.
  - assert (H : (2 <= n)%Z) by lia. rewrite Zle_Qle in H.
    destruct (Qabs_case_lra (inject_Z n)) as [(?&->)|(?&->)]; change (inject_Z (-2)) with (-(2)) in H; change (inject_Z 2) with 2 in H; lra.
Qed.

Lemma maybe_int_idem x tol : 0 < tol -> maybe_int (maybe_int x tol) tol = maybe_int x tol.
Proof.
  intros Ht. unfold maybe_int at 2 3. destruct (maybe_int_z x tol) as [n|] eqn:E.
  - unfold maybe_int. rewrite maybe_int_z_of_Z by exact Ht. reflexivity.
  - unfold maybe_int. rewrite E. reflexivity.
Qed.

Lemma maybe_int_close x tol : 0 < tol -> Qabs (maybe_int x tol - x) < tol.
Proof.
  intros Ht. destruct (maybe_int_cases x tol) as [(n & _ & -> & Ha & _)|(_ & -> & _)].
  - setoid_replace (inject_Z n - x) with (- (x - inject_Z n)) by ring. rewrite Qabs_opp. exact Ha.
  - setoid_replace (x - x) with 0 by ring. exact Ht.
Qed.

Lemma maybe_int_integer_or_same x tol :
  (exists n : Z, maybe_int x tol = inject_Z n) \/ maybe_int x tol = x.
Proof.
  destruct (maybe_int_cases x tol) as [(n & _ & E & _)|(_ & E & _)]; [left; eauto | right; exact E].
Qed.

(** what snap_scale returns *)
Inductive snap_scale_result (s tol r : Q) : Prop :=
| SS_same : r = s -> snap_scale_result s tol r
| SS_int (n : Z) : r = inject_Z n -> Qabs (s - inject_Z n) < tol -> 1 - tol <= Qabs s ->
                   snap_scale_result s tol r
| SS_inv (n : Z) : r = 1 / inject_Z n -> n <> 0%Z -> ~ s == 0 -> Qabs (1 / s - inject_Z n) < tol ->
                   Qabs s < 1 - tol -> snap_scale_result s tol r.

Lemma snap_scale_spec s tol : 0 < tol ->
  exists r, snap_scale s tol = Ok r /\ snap_scale_result s tol r.
Proof.
  intros Ht. unfold snap_scale.
  destruct (Qle_bool (1 - tol) (Qabs s)) eqn:E1.
  - apply Qle_bool_iff in E1. eexists. split; [reflexivity|].
    destruct (maybe_int_cases s tol) as [(n & _ & -> & Ha & _)|(_ & -> & _)].
    + eapply SS_int; eauto.
    + apply SS_same. reflexivity.
  - apply Qle_bool_false in E1.
    destruct (Qltb (Qabs s) tol) eqn:E2.
    + eexists. split; [reflexivity|]. apply SS_same. reflexivity.
    + apply Qltb_false in E2.
      assert (Ns : ~ s == 0).
      { intros Z0. rewrite Z0 in E2. simpl in E2. lra. }
      destruct (Qeq_bool s 0) eqn:E3; [apply Qeq_bool_iff in E3; contradiction|].
      destruct (maybe_int_z (1 / s) tol) as [n|] eqn:E4.
      * assert (Nn : n <> 0%Z).
        { intros ->. apply maybe_int_z_some in E4. destruct E4 as (Ha & _).
          setoid_replace (1 / s - inject_Z 0) with (1 / s) in Ha by (simpl; ring).
          rewrite Qabs_one_over in Ha.
          assert (P : 0 < Qabs s) by lra.
          pose proof (Qinv_gt_1 (Qabs s) P). lra. }
        destruct (n =? 0)%Z eqn:E5; [apply Z.eqb_eq in E5; contradiction|].
        eexists. split; [reflexivity|]. apply maybe_int_z_some in E4. destruct E4 as (Ha & _).
        eapply SS_inv; eauto.
      * eexists. split; [reflexivity|]. apply SS_same. reflexivity.
Qed.

(** completeness: a scale within tolerance of a snap target IS snapped *)
Lemma snap_scale_complete s tol : 0 < tol ->
  (1 - tol <= Qabs s -> forall k : Z, Qabs (s - inject_Z k) < tol ->
     exists n : Z, snap_scale s tol = Ok (inject_Z n) /\ Qabs (s - inject_Z n) < tol) /\
  (Qabs s < 1 - tol -> tol <= Qabs s -> forall k : Z, Qabs (1 / s - inject_Z k) < tol ->
     exists n : Z, n <> 0%Z /\ snap_scale s tol = Ok (1 / inject_Z n) /\ Qabs (1 / s - inject_Z n) < tol).
Proof.
  intros Ht. split.
  - intros Hs k Hk. unfold snap_scale.
    assert (E1 : Qle_bool (1 - tol) (Qabs s) = true) by (apply Qle_bool_iff; exact Hs). rewrite E1.
    destruct (maybe_int_z_complete s tol k Hk) as (n & En).
    exists n. unfold maybe_int. rewrite En. split; [reflexivity|].
    apply maybe_int_z_some in En. tauto.
  - intros Hs Hl k Hk.
    destruct (snap_scale_spec s tol Ht) as (r & E & R).
    unfold snap_scale in E |- *.
    assert (E1 : Qle_bool (1 - tol) (Qabs s) = false) by (apply Qle_bool_false; exact Hs). rewrite E1 in *.
    assert (E2 : Qltb (Qabs s) tol = false) by (apply Qltb_false; exact Hl). rewrite E2 in *.
    destruct (Qeq_bool s 0); [discriminate|].
    destruct (maybe_int_z_complete (1 / s) tol k Hk) as (n & En). rewrite En in *.
    destruct (n =? 0)%Z eqn:E5; [discriminate|].
    exists n. split; [apply Z.eqb_neq; exact E5|]. split; [reflexivity|].
    apply maybe_int_z_some in En. tauto.
Qed.

(** snap_scale of its own result changes nothing *)
Lemma snap_scale_of_Z n tol : 0 < tol -> tol < 1 # 2 -> n <> 0%Z ->
  snap_scale (inject_Z n) tol = Ok (inject_Z n).
Proof.
  intros Ht Hh N. unfold snap_scale.
  pose proof (Qabs_inject_Z_ge1 n N) as G.
  assert (E1 : Qle_bool (1 - tol) (Qabs (inject_Z n)) = true) by (apply Qle_bool_iff; lra).
  rewrite E1. unfold maybe_int. rewrite maybe_int_z_of_Z by exact Ht. reflexivity.
Qed.

Lemma snap_scale_of_inv n tol : 0 < tol -> tol < 1 # 2 -> n <> 0%Z ->
  exists r, snap_scale (1 / inject_Z n) tol = Ok r /\ r == 1 / inject_Z n.
Proof.
  intros Ht Hh N. unfold snap_scale.
  assert (Q0 : ~ inject_Z n == 0).
  { intros E. pose proof (Qabs_inject_Z_ge1 n N) as G. rewrite E in G. simpl in G. lra. }
  destruct (Qle_bool (1 - tol) (Qabs (1 / inject_Z n))) eqn:E1.
  - apply Qle_bool_iff in E1. rewrite Qabs_one_over in E1.
    (* only possible for |n| = 1, where 1/n = n *)
    destruct (Qeq_dec (Qabs (inject_Z n)) 1) as [A1|A1].
    + assert (En : 1 / inject_Z n == inject_Z n).
      { destruct (Qabs_case_lra (inject_Z n)) as [(?&E)|(?&E)]; rewrite E in A1.
        - rewrite A1. reflexivity.
        - setoid_replace (inject_Z n) with (- (1)) by lra. reflexivity. }
      eexists. split; [reflexivity|].
      rewrite (maybe_int_comp _ _ tol tol En (Qeq_refl tol)).
      unfold maybe_int. rewrite maybe_int_z_of_Z by exact Ht. rewrite En. reflexivity.
    + exfalso. pose proof (Qabs_inject_Z_ge2 n N A1) as G.
      destruct (Qinv_le_half _ G). lra.
  - apply Qle_bool_false in E1.
    destruct (Qltb (Qabs (1 / inject_Z n)) tol) eqn:E2.
    + eexists. split; reflexivity.
    + assert (E3 : Qeq_bool (1 / inject_Z n) 0 = false).
      { destruct (Qeq_bool (1 / inject_Z n) 0) eqn:E; [|reflexivity].
        apply Qeq_bool_iff in E. exfalso.
        assert (X : 1 == (1 / inject_Z n) * inject_Z n) by (field; exact Q0).
        rewrite E in X. lra. }
      rewrite E3.
      assert (Ei : 1 / (1 / inject_Z n) == inject_Z n) by (field; repeat split; try exact Q0; lra).
      rewrite (maybe_int_z_comp _ _ tol tol Ei (Qeq_refl tol)).
      rewrite maybe_int_z_of_Z by exact Ht.
      destruct (n =? 0)%Z eqn:E5; [apply Z.eqb_eq in E5; contradiction|].
      eexists. split; reflexivity.
Qed.

Lemma snap_scale_idempotent s tol r : 0 < tol -> tol < 1 # 2 ->
  snap_scale s tol = Ok r -> exists r', snap_scale r tol = Ok r' /\ r' == r.
Proof.
  intros Ht Hh H. destruct (snap_scale_spec s tol Ht) as (r0 & E & R).
  rewrite H in E. injection E as E'. subst r0.
  destruct R as [E1 | n E1 Ha Hs | n E1 Nn Ns Ha Hs]; subst r.
  - exists s. split; [exact H | reflexivity].
  - assert (N : n <> 0%Z).
    { intros ->. setoid_replace (s - inject_Z 0) with s in Ha by (simpl; ring). lra. }
    exists (inject_Z n). split; [apply snap_scale_of_Z; assumption | reflexivity].
  - apply snap_scale_of_inv; assumption.
Qed.

(** snap_affine *)
Definition rotated (A : aff) (tol : Q) : Prop := tol < Qabs (ab A) \/ tol < Qabs (ad A).

Lemma rotated_bool A tol :
  (Qltb tol (Qabs (ab A)) || Qltb tol (Qabs (ad A))) = true <-> rotated A tol.
Proof.
  unfold rotated. rewrite orb_true_iff, !Qltb_true. tauto.
Qed.

Lemma snap_affine_rotated A ttol stol tol : rotated A tol -> snap_affine A ttol stol tol = Ok A.
Proof.
  intros H. unfold snap_affine. apply rotated_bool in H. rewrite H. reflexivity.
Qed.

Lemma snap_affine_not_rotated A ttol stol tol : ~ rotated A tol -> 0 < stol ->
  exists sx sy,
    snap_affine A ttol stol tol = Ok (mkAff sx 0 (maybe_int (ac A) ttol) 0 sy (maybe_int (af A) ttol)) /\
    snap_scale (aa A) stol = Ok sx /\ snap_scale (ae A) stol = Ok sy /\
    Qabs (ab A) <= tol /\ Qabs (ad A) <= tol.
Proof.
  intros H Hs. unfold snap_affine.
  destruct (Qltb tol (Qabs (ab A)) || Qltb tol (Qabs (ad A))) eqn:E.
  - exfalso. apply H. apply rotated_bool. exact E.
  - apply orb_false_iff in E. destruct E as [E1 E2]. apply Qltb_false in E1, E2.
    destruct (snap_scale_spec (aa A) stol Hs) as (sx & -> & _).
    destruct (snap_scale_spec (ae A) stol Hs) as (sy & -> & _).
    simpl. exists sx, sy. auto.
Qed.

Lemma snap_affine_idempotent A ttol stol tol B :
  0 < ttol -> 0 < stol -> stol < 1 # 2 ->
  snap_affine A ttol stol tol = Ok B ->
  exists B', snap_affine B ttol stol tol = Ok B' /\ aff_eq B' B.
Proof.
  intros Htt Hs Hh H.
  assert (Refl : aff_eq B B) by (unfold aff_eq; repeat split; reflexivity).
  unfold snap_affine in H.
  destruct (Qltb tol (Qabs (ab A)) || Qltb tol (Qabs (ad A))) eqn:E.
  - injection H as <-. exists A. split; [|exact Refl].
    unfold snap_affine. rewrite E. reflexivity.
  - destruct (snap_scale (aa A) stol) as [sx|] eqn:Ex; [|discriminate].
    destruct (snap_scale (ae A) stol) as [sy|] eqn:Ey; [|discriminate].
    simpl in H. injection H as <-.
    unfold snap_affine. cbn [aa ab ac ad ae af].
    destruct (Qltb tol (Qabs 0) || Qltb tol (Qabs 0)) eqn:E0.
    + eexists. split; [reflexivity|]. unfold aff_eq; simpl; repeat split; reflexivity.
    + destruct (snap_scale_idempotent _ _ _ Hs Hh Ex) as (sx' & -> & Exx).
      destruct (snap_scale_idempotent _ _ _ Hs Hh Ey) as (sy' & -> & Eyy).
      simpl. eexists. split; [reflexivity|].
      rewrite !maybe_int_idem by exact Htt.
      unfold aff_eq; simpl; repeat split; try reflexivity; assumption.
Qed.

Lemma is_affine_st_iff A tol :
  is_affine_st A tol = true <-> Qabs (ab A) < tol /\ Qabs (ad A) < tol.
Proof.
  unfold is_affine_st. rewrite andb_true_iff, !Qltb_true. tauto.
Qed.

Lemma is_affine_st_not_rotated A tol : is_affine_st A tol = true -> ~ rotated A tol.
Proof.
  rewrite is_affine_st_iff. unfold rotated. intros [H1 H2] [H|H]; lra.
Qed.

(** maybe_zero, clamp *)
Lemma maybe_zero_spec x tol :
  (Qabs x < tol /\ maybe_zero x tol = 0) \/ (tol <= Qabs x /\ maybe_zero x tol = x).
Proof.
  unfold maybe_zero. destruct (Qltb (Qabs x) tol) eqn:E.
  - left. apply Qltb_true in E. auto.
  - right. apply Qltb_false in E. auto.
Qed.

Lemma clamp_spec x lo up : lo <= up ->
  exists r, clamp x lo up = Ok r /\ lo <= r /\ r <= up /\
            (lo <= x -> x <= up -> r = x) /\ (x < lo -> r = lo) /\ (up < x -> r = up).
Proof.
  intros H. unfold clamp.
  assert (E : Qle_bool lo up = true) by (apply Qle_bool_iff; exact H). rewrite E. simpl.
  eexists. split; [reflexivity|].
  destruct (Qltb x lo) eqn:E1.
  - apply Qltb_true in E1. repeat split; try lra; intros; try reflexivity; lra.
  - apply Qltb_false in E1. destruct (Qltb up x) eqn:E2.
    + apply Qltb_true in E2. repeat split; try lra; intros; try reflexivity; lra.
    + apply Qltb_false in E2. repeat split; try lra; intros; try reflexivity; lra.
Qed.

Lemma clamp_err x lo up : up < lo -> clamp x lo up = Err (EAssert 152).
Proof.
  intros H. unfold clamp.
  assert (E : Qle_bool lo up = false) by (apply Qle_bool_false; exact H). rewrite E. reflexivity.
Qed.

Lemma clampZ_spec x lo up : (lo <= up)%Z ->
  exists r, clampZ x lo up = Ok r /\ (lo <= r <= up)%Z /\ r = Z.max lo (Z.min x up).
Proof.
  intros H. unfold clampZ.
  assert (E : (lo <=? up)%Z = true) by (apply Z.leb_le; exact H). rewrite E. simpl.
  eexists. split; [reflexivity|].
  destruct (x <? lo)%Z eqn:E1; [apply Z.ltb_lt in E1 | apply Z.ltb_ge in E1].
  - lia.
  - destruct (up <? x)%Z eqn:E2; [apply Z.ltb_lt in E2 | apply Z.ltb_ge in E2]; lia.
Qed.
