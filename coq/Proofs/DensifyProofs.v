(** Property C07 — proofs about the densify / segmented / to_crs model. *)
From Coq Require Import ZArith QArith Qround Qabs List Bool Lia Lqa.
From OG Require Import Base.Result Base.QZ Model.Densify Model.DensifySpec.
Import ListNotations.
Open Scope Q_scope.

(* ------------------------------------------------------------------ basics *)
Lemma Qltb_true a b : Qltb a b = true <-> a < b.
Proof.
  unfold Qltb. rewrite negb_true_iff. apply Qle_bool_false.
Qed.

Lemma Qltb_false a b : Qltb a b = false <-> b <= a.
Proof.
  unfold Qltb. rewrite negb_false_iff. apply Qle_bool_true.
Qed.

Lemma sq_le_of_le a r : 0 <= a -> a <= r -> a * a <= r * r.
Proof. intros. timeout 20 nra. Qed.

Lemma root_unique a b : 0 <= a -> 0 <= b -> a * a == b * b -> a == b.
Proof.
  intros Ha Hb H.
  destruct (Qlt_le_dec a b) as [L|L].
  - exfalso. assert (a * a < b * b) by (timeout 20 nra). lra.
  - destruct (Qlt_le_dec b a) as [L'|L'].
    + exfalso. assert (b * b < a * a) by (timeout 20 nra). lra.
    + lra.
Qed.

Lemma pos_of_sq_pos L r : 0 <= L -> 0 < r -> r * r <= L * L -> 0 < L /\ r <= L.
Proof.
  intros HL Hr H.
  assert (0 < r * r) by (timeout 20 nra).
  split.
  - destruct (Qlt_le_dec 0 L); auto. assert (L == 0) by lra. rewrite H1 in H. lra.
  - destruct (Qlt_le_dec L r) as [C|C]; auto. exfalso.
    assert (L * L < r * r) by (timeout 20 nra). lra.
Qed.

(* ------------------------------------------------------------------ exact_sqrt *)
Lemma zsqrt_exact_spec n r : zsqrt_exact n = Some r -> (0 <= r /\ r * r = n)%Z.
Proof.
  unfold zsqrt_exact. destruct (Z.sqrt n * Z.sqrt n =? n)%Z eqn:E; intros H; inversion H; subst.
  split; [apply Z.sqrt_nonneg | apply Z.eqb_eq; exact E].
Qed.

Lemma exact_sqrt_spec : sqrt_spec exact_sqrt.
Proof.
  intros x L. unfold exact_sqrt.
  destruct (zsqrt_exact (Qnum (Qred x))) as [a|] eqn:Ea; [|discriminate].
  destruct (zsqrt_exact (Zpos (Qden (Qred x)))) as [b|] eqn:Eb; [|discriminate].
  destruct b as [|b|b]; try discriminate.
  intros H; inversion H; subst L; clear H.
  apply zsqrt_exact_spec in Ea. apply zsqrt_exact_spec in Eb.
  destruct Ea as [Ha Ea]. destruct Eb as [_ Eb].
  split.
  - unfold Qle; simpl. lia.
  - rewrite <- (Qred_correct x).
    destruct (Qred x) as [n d]; simpl in *.
    unfold Qeq; simpl. rewrite <- Ea. rewrite <- Eb. ring.
Qed.

(* ------------------------------------------------------------------ segment algebra
   [L] is any non-negative root of the squared length: a universally quantified
   variable, not the result of a computation *)
Definition pt_eq (p q : pt) : Prop := fst p == fst q /\ snd p == snd q.

Lemma pt_eq_refl p : pt_eq p p.
Proof. split; reflexivity. Qed.

Lemma lerp_0 p1 p2 : pt_eq p1 (lerp p1 p2 0).
Proof. unfold pt_eq, lerp; simpl; split; ring. Qed.

Lemma sqdist_lerp_lerp p1 p2 a s t :
  pt_eq a (lerp p1 p2 s) ->
  sqdist a (lerp p1 p2 t) == (t - s) * (t - s) * sqdist p1 p2.
Proof.
  intros [Hx Hy]. unfold sqdist. rewrite Hx, Hy. unfold lerp; simpl. ring.
Qed.

Lemma sqdist_lerp_end p1 p2 a s :
  pt_eq a (lerp p1 p2 s) ->
  sqdist a p2 == (1 - s) * (1 - s) * sqdist p1 p2.
Proof.
  intros [Hx Hy]. unfold sqdist. rewrite Hx, Hy. unfold lerp; simpl. ring.
Qed.

(** two points of the segment at arc lengths [a] and [b] are |b - a| apart *)
Lemma sqdist_at p1 p2 L x a b :
  0 < L -> L * L == sqdist p1 p2 -> pt_eq x (lerp p1 p2 (a / L)) ->
  sqdist x (lerp p1 p2 (b / L)) == (b - a) * (b - a).
Proof.
  intros HL H Hx. rewrite (sqdist_lerp_lerp _ _ _ _ _ Hx). rewrite <- H. field. lra.
Qed.

Lemma sqdist_at_end p1 p2 L x a :
  0 < L -> L * L == sqdist p1 p2 -> pt_eq x (lerp p1 p2 (a / L)) ->
  sqdist x p2 == (L - a) * (L - a).
Proof.
  intros HL H Hx. rewrite (sqdist_lerp_end _ _ _ _ Hx). rewrite <- H. field. lra.
Qed.

(* ------------------------------------------------------------------ chains *)
Fixpoint chain (R : pt -> pt -> Prop) (p : pt) (l : list pt) : Prop :=
  match l with
  | [] => True
  | q :: l' => R p q /\ chain R q l'
  end.

Lemma chain_snoc_app R p l q b :
  chain R p (l ++ [q]) -> chain R q b -> chain R p ((l ++ [q]) ++ b).
Proof.
  revert p. induction l as [|x l IH]; simpl; intros p H Hb.
  - destruct H; auto.
  - destruct H as [H1 H2]. split; auto.
Qed.

Lemma chain_nth R p l :
  chain R p l ->
  forall i a b, nth_error (p :: l) i = Some a -> nth_error (p :: l) (S i) = Some b -> R a b.
Proof.
  revert p. induction l as [|q l IH]; intros p H i a b Ha Hb.
  - destruct i; simpl in Hb; [discriminate | destruct i; discriminate].
  - destruct H as [H1 H2]. destruct i.
    + simpl in Ha, Hb. inversion Ha; inversion Hb; subst; auto.
    + simpl in Ha. eapply (IH q H2 i); eauto.
Qed.

Definition within (r : Q) (p q : pt) : Prop := sqdist p q <= r * r.

(* ------------------------------------------------------------------ the while loop *)
Lemma dloop_S f p1 p2 L r d :
  dloop (S f) p1 p2 L r d =
  if Qltb d L
  then match dloop f p1 p2 L r (d + r) with
       | Some l => Some (interpolate p1 p2 L d :: l)
       | None => None
       end
  else Some [].
Proof. reflexivity. Qed.

Section Loop.
  Variables (p1 p2 : pt) (L r : Q).
  Hypothesis HL : 0 < L.
  Hypothesis Hr : 0 < r.
  Hypothesis Hroot : L * L == sqdist p1 p2.

  (** every gap of  prev :: inserted points ++ [p2]  is at most r, where [prev]
      is the point at arc length [d - r] *)
  Lemma dloop_gap fuel : forall d prev mid,
    dloop fuel p1 p2 L r d = Some mid ->
    pt_eq prev (lerp p1 p2 ((d - r) / L)) -> d - r < L ->
    chain (within r) prev (mid ++ [p2]).
  Proof using HL Hr Hroot.
    induction fuel as [|f IH]; intros d prev mid H Hp Hd; simpl in H; [discriminate|].
    destruct (Qltb d L) eqn:E.
    - destruct (dloop f p1 p2 L r (d + r)) as [l|] eqn:El; [|discriminate].
      inversion H; subst mid; clear H. simpl. split.
      + unfold within, interpolate. rewrite (sqdist_at p1 p2 L prev (d - r) d HL Hroot Hp).
        ring_simplify. lra.
      + apply Qltb_true in E.
        apply (IH (d + r) (interpolate p1 p2 L d) l El).
        * unfold interpolate, pt_eq, lerp; simpl.
          split; (apply Qplus_comp; [reflexivity|]; apply Qmult_comp; [|reflexivity]; field; lra).
        * lra.
    - inversion H; subst mid; clear H. apply Qltb_false in E. simpl. split; auto.
      unfold within. rewrite (sqdist_at_end p1 p2 L prev (d - r) HL Hroot Hp).
      apply sq_le_of_le; lra.
  Qed.

  (** the inserted points are p1 + t (p2 - p1) with increasing parameters below 1 *)
  Lemma dloop_params fuel : forall d mid,
    dloop fuel p1 p2 L r d = Some mid ->
    exists ts, mid = map (lerp p1 p2) ts /\
               forall lo, lo < d / L -> lo < 1 -> increasing lo ts 1.
  Proof using HL Hr Hroot.
    induction fuel as [|f IH]; intros d mid H; simpl in H; [discriminate|].
    destruct (Qltb d L) eqn:E.
    - destruct (dloop f p1 p2 L r (d + r)) as [l|] eqn:El; [|discriminate].
      inversion H; subst mid; clear H. apply Qltb_true in E.
      destruct (IH _ _ El) as (ts & -> & Hts).
      exists (d / L :: ts). split; [reflexivity|].
      intros lo Hlo Hlo1. simpl. split; auto.
      apply Hts.
      + apply Qmult_lt_r; [apply Qinv_lt_0_compat; exact HL | lra].
      + apply Qlt_shift_div_r; lra.
    - inversion H; subst. exists []. split; [reflexivity|]. intros; simpl; auto.
  Qed.

  (** the loop finishes within [n + 1] rounds as soon as [L <= d + n r] *)
  Lemma dloop_total_n (n : nat) : forall d,
    L <= d + inject_Z (Z.of_nat n) * r -> exists mid, dloop (S n) p1 p2 L r d = Some mid.
  Proof using HL Hr Hroot.
    induction n as [|n IH]; intros d H.
    - change (inject_Z (Z.of_nat 0)) with 0 in H.
      assert (E : Qltb d L = false) by (apply Qltb_false; lra).
      rewrite dloop_S, E. eauto.
    - rewrite dloop_S. destruct (Qltb d L) eqn:E; [|eauto].
      destruct (IH (d + r)) as [mid Hm].
      + rewrite Nat2Z.inj_succ in H. unfold Z.succ in H. rewrite inject_Z_plus in H.
        set (k := inject_Z (Z.of_nat n)) in *. change (inject_Z 1) with 1 in H. lra.
      + rewrite Hm. eauto.
  Qed.

  Lemma dloop_total : exists mid, dloop (seg_fuel L r) p1 p2 L r r = Some mid.
  Proof using HL Hr Hroot.
    unfold seg_fuel. apply dloop_total_n.
    assert (H0 : 0 <= L / r) by (apply Qle_shift_div_l; lra).
    assert (Hc : (0 <= Qceiling (L / r))%Z).
    { change 0%Z with (Qceiling 0). apply Qceiling_resp_le. exact H0. }
    rewrite Z2Nat.id by exact Hc.
    destruct (Qceiling_spec (L / r)) as (c & Ec & H1 & H2). rewrite <- Ec.
    assert (L <= c * r).
    { assert (E : L == L / r * r) by (field; lra).
      assert (L / r * r <= c * r) by (apply Qmult_le_compat_r; lra).
      lra. }
    lra.
  Qed.
End Loop.

(** without the repair 0d98c78: for a resolution <= 0 the loop never finishes, whatever the fuel *)
Lemma dloop_diverges p1 p2 L r fuel : forall d,
  r <= 0 -> d < L -> dloop fuel p1 p2 L r d = None.
Proof.
  induction fuel as [|f IH]; intros d Hr Hd; simpl; auto.
  assert (E : Qltb d L = true) by (apply Qltb_true; exact Hd). rewrite E.
  rewrite IH; auto. lra.
Qed.

(* ------------------------------------------------------------------ densify *)
Lemma adjacent_head p q l : adjacent p q (p :: q :: l).
Proof. exists [], l. reflexivity. Qed.

Lemma adjacent_tail p q x l : adjacent p q l -> adjacent p q (x :: l).
Proof. intros (l1 & l2 & ->). exists (x :: l1), l2. reflexivity. Qed.

Section DensifyAny.
  Variable sq : Q -> option Q.
  Hypothesis Hsq : sqrt_spec sq.

  Lemma densify_segment_spec r p1 p2 a :
    0 < r -> densify_segment repaired sq (r * r) r p1 p2 = Ok a ->
    exists ts, a = map (lerp p1 p2) ts ++ [p2] /\ increasing 0 ts 1 /\ chain (within r) p1 a.
  Proof.
    intros Hr. unfold densify_segment, short_enough. cbn [fx_sqdist repaired].
    destruct (Qltb (sqdist p1 p2) (r * r)) eqn:E.
    - intros H; inversion H; subst a. apply Qltb_true in E.
      exists []. simpl. repeat split; try lra. unfold within. lra.
    - apply Qltb_false in E.
      destruct (sq (sqdist p1 p2)) as [L|] eqn:EL; [|discriminate].
      destruct (Hsq _ _ EL) as [HL0 Hroot].
      assert (HLr : r * r <= L * L) by (rewrite Hroot; exact E).
      destruct (pos_of_sq_pos L r HL0 Hr HLr) as [HL HrL].
      destruct (dloop (seg_fuel L r) p1 p2 L r r) as [mid|] eqn:Ed; [|discriminate].
      intros H; inversion H; subst a; clear H.
      destruct (dloop_params p1 p2 L r HL Hr Hroot _ _ _ Ed) as (ts & -> & Hts).
      exists ts. split; [reflexivity|]. split.
      + apply Hts; [|lra]. apply Qlt_shift_div_l; lra.
      + apply (dloop_gap p1 p2 L r HL Hr Hroot _ _ _ _ Ed).
        * unfold pt_eq, lerp; simpl. split; field; lra.
        * lra.
  Qed.

  Lemma densify_pairs_spec r : 0 < r -> forall rest p1 tl,
    densify_pairs repaired sq (r * r) r p1 rest = Ok tl ->
    refines (p1 :: rest) (p1 :: tl) /\ chain (within r) p1 tl.
  Proof.
    intros Hr. induction rest as [|p2 rest IH]; intros p1 tl H; simpl in H.
    - inversion H; subst. split; [constructor | exact I].
    - apply bind_ok in H. destruct H as (a & Ha & H).
      apply bind_ok in H. destruct H as (b & Hb & H). inversion H; subst tl; clear H.
      destruct (densify_segment_spec _ _ _ _ Hr Ha) as (ts & -> & Hts & Hch).
      destruct (IH _ _ Hb) as [Href Hchb].
      split.
      + rewrite <- app_assoc. simpl. apply refines_seg; assumption.
      + apply chain_snoc_app; assumption.
  Qed.

  Theorem densify_spec cs r out :
    densify_gen repaired sq cs r = Ok out -> 0 < r /\ refines cs out /\ max_gap r out.
  Proof.
    unfold densify_gen. cbn [fx_posres fx_empty repaired andb].
    destruct (Qle_bool r 0) eqn:Er; [discriminate|]. apply Qle_bool_false in Er.
    destruct cs as [|p0 rest].
    - intros H; inversion H; subst. repeat split; auto; [constructor|].
      intros i p q Hp. destruct i; discriminate.
    - intros H. apply bind_ok in H. destruct H as (tl & Ht & H). inversion H; subst out; clear H.
      destruct (densify_pairs_spec r Er _ _ _ Ht) as [Href Hch].
      repeat split; auto. intros i p q. apply (chain_nth _ _ _ Hch).
  Qed.

  (* --- totality and the error table --- *)
  Lemma densify_segment_total r p1 p2 :
    0 < r -> sq (sqdist p1 p2) <> None ->
    exists a, densify_segment repaired sq (r * r) r p1 p2 = Ok a.
  Proof.
    intros Hr Hs. unfold densify_segment, short_enough. cbn [fx_sqdist repaired].
    destruct (Qltb (sqdist p1 p2) (r * r)) eqn:E; [eauto|]. apply Qltb_false in E.
    destruct (sq (sqdist p1 p2)) as [L|] eqn:EL; [|congruence].
    destruct (Hsq _ _ EL) as [HL0 Hroot].
    assert (HLr : r * r <= L * L) by (rewrite Hroot; exact E).
    destruct (pos_of_sq_pos L r HL0 Hr HLr) as [HL HrL].
    destruct (dloop_total p1 p2 L r HL Hr Hroot) as [mid Hm]. rewrite Hm. eauto.
  Qed.

  Lemma densify_segment_err r p1 p2 e :
    0 < r -> densify_segment repaired sq (r * r) r p1 p2 = Err e ->
    e = EOther /\ r * r <= sqdist p1 p2 /\ sq (sqdist p1 p2) = None.
  Proof.
    intros Hr. unfold densify_segment, short_enough. cbn [fx_sqdist repaired].
    destruct (Qltb (sqdist p1 p2) (r * r)) eqn:E; [discriminate|]. apply Qltb_false in E.
    destruct (sq (sqdist p1 p2)) as [L|] eqn:EL.
    - destruct (Hsq _ _ EL) as [HL0 Hroot].
      assert (HLr : r * r <= L * L) by (rewrite Hroot; exact E).
      destruct (pos_of_sq_pos L r HL0 Hr HLr) as [HL HrL].
      destruct (dloop_total p1 p2 L r HL Hr Hroot) as [mid Hm]. rewrite Hm. discriminate.
    - intros H; inversion H. auto.
  Qed.

  Lemma densify_pairs_total r : 0 < r -> forall rest p1,
    roots_exist sq (p1 :: rest) -> exists tl, densify_pairs repaired sq (r * r) r p1 rest = Ok tl.
  Proof.
    intros Hr. induction rest as [|p2 rest IH]; intros p1 H; simpl; [eauto|].
    destruct (densify_segment_total r p1 p2 Hr) as [a Ha].
    { apply H. apply adjacent_head. }
    destruct (IH p2) as [b Hb].
    { intros p q Hpq. apply H. apply adjacent_tail. exact Hpq. }
    rewrite Ha, Hb. simpl. eauto.
  Qed.

  Lemma densify_pairs_err r : 0 < r -> forall rest p1 e,
    densify_pairs repaired sq (r * r) r p1 rest = Err e ->
    e = EOther /\ exists p q, adjacent p q (p1 :: rest) /\ r * r <= sqdist p q /\ sq (sqdist p q) = None.
  Proof.
    intros Hr. induction rest as [|p2 rest IH]; intros p1 e H; simpl in H; [discriminate|].
    destruct (densify_segment repaired sq (r * r) r p1 p2) as [a|e1] eqn:Ea; simpl in H.
    - destruct (densify_pairs repaired sq (r * r) r p2 rest) as [b|e2] eqn:Eb; simpl in H; [discriminate|].
      inversion H; subst e2. destruct (IH _ _ Eb) as (He & p & q & Hadj & H1 & H2).
      split; auto. exists p, q. split; [apply adjacent_tail; exact Hadj | auto].
    - inversion H; subst e1. destruct (densify_segment_err _ _ _ _ Hr Ea) as (He & H1 & H2).
      split; auto. exists p1, p2. split; [apply adjacent_head | auto].
  Qed.

  Theorem densify_total cs r :
    0 < r -> roots_exist sq cs -> exists out, densify_gen repaired sq cs r = Ok out.
  Proof.
    intros Hr H. unfold densify_gen. cbn [fx_posres fx_empty repaired andb].
    assert (E : Qle_bool r 0 = false) by (apply Qle_bool_false; exact Hr). rewrite E.
    destruct cs as [|p0 rest]; [eauto|].
    destruct (densify_pairs_total r Hr rest p0 H) as [tl Ht]. rewrite Ht. simpl. eauto.
  Qed.

  Theorem densify_errors cs r e :
    densify_gen repaired sq cs r = Err e ->
    (e = EValue /\ r <= 0) \/
    (e = EOther /\ 0 < r /\ exists p q, adjacent p q cs /\ r * r <= sqdist p q /\ sq (sqdist p q) = None).
  Proof.
    unfold densify_gen. cbn [fx_posres fx_empty repaired andb].
    destruct (Qle_bool r 0) eqn:Er.
    - intros H; inversion H. left. split; auto. apply Qle_bool_true; exact Er.
    - apply Qle_bool_false in Er. destruct cs as [|p0 rest]; [discriminate|].
      destruct (densify_pairs repaired sq (r * r) r p0 rest) as [tl|e1] eqn:Et; simpl; [discriminate|].
      intros H; inversion H; subst e1. right.
      destruct (densify_pairs_err r Er _ _ _ Et) as (He & Hex). auto.
  Qed.

  Theorem densify_nonpositive cs r : r <= 0 -> densify_gen repaired sq cs r = Err EValue.
  Proof.
    intros H. unfold densify_gen. cbn [fx_posres fx_empty repaired andb].
    assert (E : Qle_bool r 0 = true) by (apply Qle_bool_true; exact H). rewrite E. reflexivity.
  Qed.
End DensifyAny.

(* ------------------------------------------------------------------ consequences of [refines] *)
Lemma increasing_bounds lo ts hi : increasing lo ts hi ->
  lo < hi /\ forall t, In t ts -> lo < t /\ t < hi.
Proof.
  revert lo. induction ts as [|t0 ts IH]; simpl; intros lo H.
  - split; auto. intros t [].
  - destruct H as [H1 H2]. destruct (IH _ H2) as [H3 H4]. split; [lra|].
    intros t [->|Ht]; [split; lra|]. destruct (H4 _ Ht). split; lra.
Qed.

Lemma refines_refl l : refines l l.
Proof.
  induction l as [|p l IH]; [constructor|].
  destruct l as [|q l]; [constructor|].
  apply (refines_seg p q l [] (q :: l)); simpl; [lra | exact IH].
Qed.

Lemma refines_head p rest out : refines (p :: rest) out -> exists out', out = p :: out'.
Proof. intros H; inversion H; subst; eauto. Qed.

Lemma subseq_skip_app {A} (m l1 l2 : list A) : subseq l1 l2 -> subseq l1 (m ++ l2).
Proof. induction m; simpl; auto. intros; apply subseq_skip; auto. Qed.

Lemma refines_subseq cs out : refines cs out -> subseq cs out.
Proof.
  induction 1; try (repeat constructor).
  apply subseq_skip_app. assumption.
Qed.

Lemma refines_hd cs out : refines cs out -> hd_error out = hd_error cs.
Proof. induction 1; reflexivity. Qed.

Lemma last_app_cons {A} (m : list A) x l d : last (m ++ x :: l) d = last (x :: l) d.
Proof.
  induction m as [|y m IH]; [reflexivity|].
  change ((y :: m) ++ x :: l) with (y :: (m ++ x :: l)).
  destruct (m ++ x :: l) eqn:E.
  - destruct m; discriminate.
  - rewrite <- E at 1. rewrite <- IH. rewrite E. reflexivity.
Qed.

Lemma refines_last cs out d : refines cs out -> last out d = last cs d.
Proof.
  induction 1; try reflexivity.
  destruct (refines_head _ _ _ H0) as [out' ->].
  change (p1 :: map (lerp p1 p2) ts ++ p2 :: out') with ((p1 :: map (lerp p1 p2) ts) ++ p2 :: out').
  rewrite last_app_cons. rewrite IHrefines. reflexivity.
Qed.

Lemma refines_length cs out : refines cs out -> (length cs <= length out)%nat.
Proof.
  induction 1; simpl; auto. rewrite app_length. simpl in IHrefines. lia.
Qed.

(** every output point is an original vertex or lies strictly inside an original edge *)
Lemma refines_points cs out : refines cs out ->
  forall x, In x out ->
    In x cs \/ exists p1 p2 t, adjacent p1 p2 cs /\ 0 < t /\ t < 1 /\ x = lerp p1 p2 t.
Proof.
  induction 1; intros x Hx.
  - destruct Hx.
  - left; exact Hx.
  - destruct Hx as [<-|Hx]; [left; left; reflexivity|].
    apply in_app_or in Hx. destruct Hx as [Hx|Hx].
    + right. apply in_map_iff in Hx. destruct Hx as (t & <- & Ht).
      destruct (increasing_bounds _ _ _ H) as [_ Hb]. destruct (Hb _ Ht).
      exists p1, p2, t. repeat split; auto. apply adjacent_head.
    + destruct (IHrefines _ Hx) as [Hi|(a & b & t & Hadj & H1 & H2 & ->)].
      * left; right; exact Hi.
      * right. exists a, b, t. repeat split; auto. apply adjacent_tail; exact Hadj.
Qed.

(* --- shoelace --- *)
Definition cross (p q : pt) : Q := fst p * snd q - fst q * snd p.

Lemma shoelace2_cons2 p q l : shoelace2 (p :: q :: l) = cross p q + shoelace2 (q :: l).
Proof. reflexivity. Qed.

Lemma cross_lerp p1 p2 a s x :
  pt_eq a (lerp p1 p2 s) -> cross a (lerp p1 p2 x) == (x - s) * cross p1 p2.
Proof. intros [Hx Hy]. unfold cross. rewrite Hx, Hy. unfold lerp; simpl. ring. Qed.

Lemma cross_lerp_end p1 p2 a s :
  pt_eq a (lerp p1 p2 s) -> cross a p2 == (1 - s) * cross p1 p2.
Proof. intros [Hx Hy]. unfold cross. rewrite Hx, Hy. unfold lerp; simpl. ring. Qed.

(** inserting collinear points between p1 and p2 does not change the shoelace sum *)
Lemma shoelace_insert p1 p2 tail : forall ts a s,
  pt_eq a (lerp p1 p2 s) ->
  shoelace2 (a :: map (lerp p1 p2) ts ++ p2 :: tail) == (1 - s) * cross p1 p2 + shoelace2 (p2 :: tail).
Proof.
  induction ts as [|t ts IH]; intros a s Ha.
  - simpl app. rewrite shoelace2_cons2. rewrite (cross_lerp_end _ _ _ _ Ha). reflexivity.
  - change (a :: map (lerp p1 p2) (t :: ts) ++ p2 :: tail)
      with (a :: lerp p1 p2 t :: (map (lerp p1 p2) ts ++ p2 :: tail)).
    rewrite shoelace2_cons2. rewrite (cross_lerp _ _ _ _ t Ha).
    rewrite (IH (lerp p1 p2 t) t (pt_eq_refl _)). ring.
Qed.

Lemma refines_shoelace cs out : refines cs out -> shoelace2 out == shoelace2 cs.
Proof.
  induction 1; try reflexivity.
  destruct (refines_head _ _ _ H0) as [out' ->].
  rewrite (shoelace_insert p1 p2 out' ts p1 0 (lerp_0 p1 p2)).
  rewrite shoelace2_cons2. rewrite IHrefines. unfold cross. ring.
Qed.

(* --- length --- *)
Lemma seg_len_unique p q a b : seg_len p q a -> seg_len p q b -> a == b.
Proof.
  intros [Ha Ha2] [Hb Hb2]. apply root_unique; auto. rewrite Ha2, Hb2. reflexivity.
Qed.

Lemma path_len_unique l a b : path_len l a -> path_len l b -> a == b.
Proof.
  intros Ha. revert b.
  induction Ha as [| p | p q rest l0 m Hs Hp IH]; intros b Hb; inversion Hb; subst; try reflexivity.
  match goal with
  | [ H1 : seg_len p q ?x, H2 : path_len (q :: rest) ?y |- _ ] =>
      rewrite (seg_len_unique _ _ _ _ Hs H1), (IH _ H2)
  end.
  reflexivity.
Qed.

Lemma seg_len_piece p1 p2 l a s t :
  seg_len p1 p2 l -> pt_eq a (lerp p1 p2 s) -> s <= t ->
  seg_len a (lerp p1 p2 t) ((t - s) * l).
Proof.
  intros [Hl Hl2] Ha Hst. split.
  - apply Qmult_le_0_compat; lra.
  - rewrite (sqdist_lerp_lerp _ _ _ _ _ Ha). rewrite <- Hl2. ring.
Qed.

Lemma seg_len_piece_end p1 p2 l a s :
  seg_len p1 p2 l -> pt_eq a (lerp p1 p2 s) -> s <= 1 ->
  seg_len a p2 ((1 - s) * l).
Proof.
  intros [Hl Hl2] Ha Hs. split.
  - apply Qmult_le_0_compat; lra.
  - rewrite (sqdist_lerp_end _ _ _ _ Ha). rewrite <- Hl2. ring.
Qed.

Lemma path_len_insert p1 p2 l tail m :
  seg_len p1 p2 l -> path_len (p2 :: tail) m ->
  forall ts a s, pt_eq a (lerp p1 p2 s) -> increasing s ts 1 ->
    exists X, path_len (a :: map (lerp p1 p2) ts ++ p2 :: tail) X /\ X == (1 - s) * l + m.
Proof.
  intros Hl Hm. induction ts as [|t ts IH]; intros a s Ha Hinc; simpl in Hinc.
  - exists ((1 - s) * l + m). split; [|reflexivity]. simpl app.
    apply pl_cons; [apply (seg_len_piece_end p1 p2 l a s Hl Ha); lra | exact Hm].
  - destruct Hinc as [Hst Hinc].
    destruct (IH (lerp p1 p2 t) t (pt_eq_refl _) Hinc) as (X & HX & EX).
    exists ((t - s) * l + X). split.
    + change (a :: map (lerp p1 p2) (t :: ts) ++ p2 :: tail)
        with (a :: lerp p1 p2 t :: (map (lerp p1 p2) ts ++ p2 :: tail)).
      apply pl_cons; [apply (seg_len_piece p1 p2 l a s t Hl Ha); lra | exact HX].
    + rewrite EX. ring.
Qed.

Lemma refines_path_len cs out : refines cs out ->
  forall Lc, path_len cs Lc -> exists Lo, path_len out Lo /\ Lo == Lc.
Proof.
  induction 1; intros Lc Hc.
  - exists Lc; split; [exact Hc | reflexivity].
  - exists Lc; split; [exact Hc | reflexivity].
  - inversion Hc as [| | ? ? ? l m Hseg Hrest]; subst.
    destruct (IHrefines _ Hrest) as (mo & Hmo & Emo).
    destruct (refines_head _ _ _ H0) as [out' ->].
    destruct (path_len_insert p1 p2 l out' mo Hseg Hmo ts p1 0 (lerp_0 p1 p2) H) as (X & HX & EX).
    exists X. split; [exact HX|]. rewrite EX, Emo. ring.
Qed.

Lemma refines_paths_len ps ps' : Forall2 refines ps ps' ->
  forall L, paths_len ps L -> exists L', paths_len ps' L' /\ L' == L.
Proof.
  induction 1; intros L HL; inversion HL as [| ? ? a b Hpa Hpb]; subst.
  - exists 0; split; [constructor | reflexivity].
  - destruct (refines_path_len _ _ H _ Hpa) as (a' & Ha & Ea).
    destruct (IHForall2 _ Hpb) as (b' & Hb & Eb).
    exists (a' + b'). split; [constructor; auto|]. rewrite Ea, Eb. reflexivity.
Qed.

Lemma path_length_cons2 sq p q l :
  path_length sq (p :: q :: l) =
  match sq (sqdist p q), path_length sq (q :: l) with
  | Some a, Some b => Some (a + b)
  | _, _ => None
  end.
Proof. reflexivity. Qed.

(** the computable lengths of the model are lengths in the sense of [path_len] *)
Lemma path_length_sound sq : sqrt_spec sq -> forall l L, path_length sq l = Some L -> path_len l L.
Proof.
  intros Hsq. induction l as [|p l IH]; intros L H.
  - inversion H; constructor.
  - destruct l as [|q l].
    + inversion H; constructor.
    + rewrite path_length_cons2 in H.
      destruct (sq (sqdist p q)) as [a|] eqn:Ea; [|discriminate].
      destruct (path_length sq (q :: l)) as [b|] eqn:Eb; [|discriminate].
      inversion H; subst L. apply pl_cons; [apply Hsq; exact Ea | apply IH; reflexivity].
Qed.

(* ------------------------------------------------------------------ geometries *)
Section GeomInd.
  Variable P : geom -> Prop.
  Hypothesis HPt : forall p, P (Point p).
  Hypothesis HMP : forall ps, P (MultiPoint ps).
  Hypothesis HLn : forall cs, P (Line cs).
  Hypothesis HRg : forall cs, P (Ring cs).
  Hypothesis HPoly : forall e hs, P (Polygon e hs).
  Hypothesis HMulti : forall k ps, Forall P ps -> P (Multi k ps).

  Fixpoint geom_ind' (g : geom) : P g :=
    match g with
    | Point p => HPt p
    | MultiPoint ps => HMP ps
    | Line cs => HLn cs
    | Ring cs => HRg cs
    | Polygon e hs => HPoly e hs
    | Multi k ps =>
        HMulti k ps ((fix go (l : list geom) : Forall P l :=
                        match l with
                        | [] => Forall_nil P
                        | x :: l' => Forall_cons x (geom_ind' x) (go l')
                        end) ps)
    end.
End GeomInd.

Lemma mapM_Forall2 {A B} (f : A -> res B) : forall l l',
  mapM f l = Ok l' -> Forall2 (fun a b => f a = Ok b) l l'.
Proof.
  induction l as [|x l IH]; intros l' H; simpl in H.
  - inversion H; constructor.
  - apply bind_ok in H. destruct H as (a & Ha & H).
    apply bind_ok in H. destruct H as (b & Hb & H). inversion H; subst.
    constructor; auto.
Qed.

Lemma mapM_err {A B} (f : A -> res B) : forall l e,
  mapM f l = Err e -> exists x, In x l /\ f x = Err e.
Proof.
  induction l as [|x l IH]; intros e H; simpl in H; [discriminate|].
  destruct (f x) as [a|e1] eqn:Ex; simpl in H.
  - destruct (mapM f l) as [b|e2] eqn:El; simpl in H; [discriminate|].
    inversion H; subst. destruct (IH _ eq_refl) as (y & Hy & Hf). exists y. split; [right|]; auto.
  - inversion H; subst. exists x. split; [left|]; auto.
Qed.

Lemma max_gap_single r p : max_gap r [p].
Proof. intros i a b Ha Hb. destruct i; simpl in Hb; [discriminate | destruct i; discriminate]. Qed.

Lemma Forall2_refines_singles ps :
  Forall2 refines (map (fun p : pt => [p]) ps) (map (fun p : pt => [p]) ps).
Proof. induction ps; simpl; constructor; auto. constructor. Qed.

Lemma Forall_max_gap_singles r ps : Forall (max_gap r) (map (fun p : pt => [p]) ps).
Proof. induction ps; simpl; constructor; auto. apply max_gap_single. Qed.

Lemma ring_area_wd a b : shoelace2 a == shoelace2 b -> ring_area a == ring_area b.
Proof. intros H. unfold ring_area. rewrite H. reflexivity. Qed.

Lemma qsum_app a b : qsum (a ++ b) == qsum a + qsum b.
Proof. induction a; simpl; [ring|]. rewrite IHa. ring. Qed.

Section SegmentedAny.
  Variable sq : Q -> option Q.
  Hypothesis Hsq : sqrt_spec sq.
  Variable r : Q.

  Definition seg_post (g g' : geom) : Prop :=
    kind_skeleton g' = kind_skeleton g /\
    Forall2 refines (paths g) (paths g') /\
    Forall (max_gap r) (paths g') /\
    geom_area g' == geom_area g.

  Lemma holes_post hs hs' :
    Forall2 (fun a b => densify_gen repaired sq a r = Ok b) hs hs' ->
    map (fun _ : list pt => O) hs' = map (fun _ : list pt => O) hs /\
    Forall2 refines hs hs' /\ Forall (max_gap r) hs' /\
    qsum (map ring_area hs') == qsum (map ring_area hs).
  Proof.
    induction 1 as [|a b hs hs' Hab _ IH]; simpl.
    - repeat split; constructor.
    - destruct IH as (I1 & I2 & I3 & I4).
      destruct (densify_spec sq Hsq _ _ _ Hab) as (_ & Href & Hgap).
      repeat split; try constructor; auto.
      + f_equal; exact I1.
      + rewrite I4. rewrite (ring_area_wd _ _ (refines_shoelace _ _ Href)). reflexivity.
  Qed.

  Lemma parts_post ps ps' :
    Forall2 seg_post ps ps' ->
    map kind_skeleton ps' = map kind_skeleton ps /\
    Forall2 refines (concat (map paths ps)) (concat (map paths ps')) /\
    Forall (max_gap r) (concat (map paths ps')) /\
    qsum (map geom_area ps') == qsum (map geom_area ps).
  Proof.
    induction 1 as [|a b ps ps' (H1 & H2 & H3 & H4) _ IH]; simpl.
    - repeat split; constructor.
    - destruct IH as (I1 & I2 & I3 & I4).
      repeat split.
      + f_equal; assumption.
      + apply Forall2_app; assumption.
      + apply Forall_app; split; assumption.
      + rewrite H4, I4. reflexivity.
  Qed.

  Theorem segmented_spec : forall g g',
    segmented_gen repaired sq r g = Ok g' -> seg_post g g'.
  Proof.
    induction g as [p|ps|cs|cs|e hs|k ps IH] using geom_ind'; intros g' H; cbn [segmented_gen] in H.
    - inversion H; subst. unfold seg_post; simpl. repeat split; try reflexivity.
      + repeat constructor.
      + constructor; [apply max_gap_single | constructor].
    - inversion H; subst. unfold seg_post; simpl. repeat split; try reflexivity.
      + apply Forall2_refines_singles.
      + apply Forall_max_gap_singles.
    - apply bind_ok in H. destruct H as (c & Hc & H). inversion H; subst.
      destruct (densify_spec sq Hsq _ _ _ Hc) as (_ & Href & Hgap).
      unfold seg_post; simpl. repeat split; try reflexivity; repeat constructor; auto.
    - apply bind_ok in H. destruct H as (c & Hc & H). inversion H; subst.
      destruct (densify_spec sq Hsq _ _ _ Hc) as (_ & Href & Hgap).
      unfold seg_post; simpl. repeat split; try reflexivity; repeat constructor; auto.
    - apply bind_ok in H. destruct H as (e' & He & H).
      apply bind_ok in H. destruct H as (hs' & Hh & H). inversion H; subst.
      destruct (densify_spec sq Hsq _ _ _ He) as (_ & Href & Hgap).
      destruct (holes_post _ _ (mapM_Forall2 _ _ _ Hh)) as (I1 & I2 & I3 & I4).
      unfold seg_post; simpl. repeat split.
      + f_equal; exact I1.
      + constructor; assumption.
      + constructor; assumption.
      + rewrite I4. rewrite (ring_area_wd _ _ (refines_shoelace _ _ Href)). reflexivity.
    - apply bind_ok in H. destruct H as (ps' & Hp & H). inversion H; subst.
      assert (HF : Forall2 seg_post ps ps').
      { pose proof (mapM_Forall2 _ _ _ Hp) as HF. clear Hp H.
        induction HF as [|a b ps ps' Hab _ IHF]; constructor.
        - inversion IH; subst. auto.
        - apply IHF. inversion IH; subst; assumption. }
      destruct (parts_post _ _ HF) as (I1 & I2 & I3 & I4).
      unfold seg_post; simpl. repeat split; auto. f_equal; exact I1.
  Qed.

  (** segmented fails only where densify fails: ValueError for a non-positive
      resolution, otherwise only outside the rational-length domain of [sq] *)
  Lemma densify_err_kind cs e :
    densify_gen repaired sq cs r = Err e -> (e = EValue /\ r <= 0) \/ (e = EOther /\ 0 < r).
  Proof.
    intros H. destruct (densify_errors sq Hsq _ _ _ H) as [?|(? & ? & _)]; auto.
  Qed.

  Theorem segmented_errors : forall g e,
    segmented_gen repaired sq r g = Err e -> (e = EValue /\ r <= 0) \/ (e = EOther /\ 0 < r).
  Proof.
    induction g as [p|ps|cs|cs|e0 hs|k ps IH] using geom_ind'; intros e H; cbn [segmented_gen] in H;
      try discriminate.
    - destruct (densify_gen repaired sq cs r) eqn:E; simpl in H; [discriminate|].
      inversion H; subst. eapply densify_err_kind; eauto.
    - destruct (densify_gen repaired sq cs r) eqn:E; simpl in H; [discriminate|].
      inversion H; subst. eapply densify_err_kind; eauto.
    - destruct (densify_gen repaired sq e0 r) eqn:E; simpl in H.
      + destruct (mapM (fun h => densify_gen repaired sq h r) hs) eqn:Eh; simpl in H; [discriminate|].
        inversion H; subst. destruct (mapM_err _ _ _ Eh) as (x & _ & Hx).
        eapply densify_err_kind; eauto.
      + inversion H; subst. eapply densify_err_kind; eauto.
    - destruct (mapM (segmented_gen repaired sq r) ps) as [ps'|e1] eqn:Em; simpl in H; [discriminate|].
      inversion H; subst e1; clear H.
      destruct (mapM_err _ _ _ Em) as (x & Hin & Hx).
      rewrite Forall_forall in IH. eapply IH; eauto.
  Qed.
End SegmentedAny.

(* ------------------------------------------------------------------ totality of segmented *)
Lemma mapM_total {A B} (f : A -> res B) l :
  Forall (fun x => exists y, f x = Ok y) l -> exists l', mapM f l = Ok l'.
Proof.
  induction 1 as [|x l (y & Hy) _ (l' & Hl)]; simpl; [eauto|].
  rewrite Hy, Hl. simpl. eauto.
Qed.

Theorem segmented_total sq : sqrt_spec sq -> forall r, 0 < r -> forall g,
  Forall (roots_exist sq) (paths g) -> exists g', segmented_gen repaired sq r g = Ok g'.
Proof.
  intros Hsq r Hr.
  induction g as [p|ps|cs|cs|e hs|k ps IH] using geom_ind'; intros H; cbn [segmented_gen]; eauto.
  - simpl in H. inversion H; subst.
    destruct (densify_total sq Hsq cs r Hr) as [c Hc]; auto. rewrite Hc. simpl. eauto.
  - simpl in H. inversion H; subst.
    destruct (densify_total sq Hsq cs r Hr) as [c Hc]; auto. rewrite Hc. simpl. eauto.
  - simpl in H. inversion H as [|? ? He Hh]; subst.
    destruct (densify_total sq Hsq e r Hr He) as [c Hc]. rewrite Hc. simpl.
    destruct (mapM_total (fun h => densify_gen repaired sq h r) hs) as [hs' Hhs].
    { revert Hh. apply Forall_impl. intros a Ha. apply densify_total; auto. }
    rewrite Hhs. simpl. eauto.
  - simpl in H.
    destruct (mapM_total (segmented_gen repaired sq r) ps) as [ps' Hps].
    { clear -IH H. induction IH as [|x l Hx _ IHl]; constructor.
      - apply Hx. simpl in H. apply Forall_app in H. tauto.
      - apply IHl. simpl in H. apply Forall_app in H. tauto. }
    rewrite Hps. simpl. eauto.
Qed.

(* ------------------------------------------------------------------ ops.transform as a map *)
Lemma gmap_skeleton f : forall g, skeleton (gmap f g) = skeleton g.
Proof.
  induction g as [p|ps|cs|cs|e hs|k ps IH] using geom_ind'; simpl; try reflexivity;
    try (rewrite map_length; reflexivity).
  - rewrite map_length. f_equal. rewrite map_map. apply map_ext. intros; apply map_length.
  - f_equal. rewrite map_map. apply map_ext_Forall. exact IH.
Qed.

Lemma gmap_vertices f : forall g, vertices (gmap f g) = map f (vertices g).
Proof.
  induction g as [p|ps|cs|cs|e hs|k ps IH] using geom_ind'; simpl; try reflexivity.
  - rewrite map_app. f_equal. rewrite concat_map. reflexivity.
  - rewrite concat_map. f_equal. rewrite !map_map. apply map_ext_Forall. exact IH.
Qed.

Lemma gmap_paths f : forall g, paths (gmap f g) = map (map f) (paths g).
Proof.
  induction g as [p|ps|cs|cs|e hs|k ps IH] using geom_ind'; simpl; try reflexivity.
  - rewrite !map_map. reflexivity.
  - rewrite concat_map. f_equal. rewrite !map_map. apply map_ext_Forall. exact IH.
Qed.

Lemma gmap_id : forall g, gmap (fun p => p) g = g.
Proof.
  induction g as [p|ps|cs|cs|e hs|k ps IH] using geom_ind'; simpl; try reflexivity;
    try (rewrite map_id; reflexivity).
  - rewrite map_id. f_equal. rewrite <- (map_id hs) at 2. apply map_ext. intros; apply map_id.
  - f_equal. rewrite <- (map_id ps) at 2. apply map_ext_Forall. exact IH.
Qed.

(* ------------------------------------------------------------------ to_crs *)
Section ToCrsProofs.
  Variable crs : Type.
  Variable crs_eqb : crs -> crs -> bool.
  Variable geographic : crs -> bool.
  Variable proj : crs -> crs -> pt -> pt.
  Variable is_valid : geom -> bool.
  Variable repair chop_antimeridian clip_lon180 : geom -> geom.
  Variable sq : Q -> option Q.

  Let to_crs := to_crs_gen crs crs_eqb geographic proj is_valid repair chop_antimeridian clip_lon180
                           repaired sq.

  Theorem to_crs_none_target self g rs w cf : to_crs self g None rs w cf = Err EValue.
  Proof. reflexivity. Qed.

  Theorem to_crs_same s c g rs w cf :
    crs_eqb s c = true -> to_crs (Some s) g (Some c) rs w cf = Ok Same.
  Proof. intros H. unfold to_crs, to_crs_gen. rewrite H. reflexivity. Qed.

  Theorem to_crs_no_crs c g rs w cf : to_crs None g (Some c) rs w cf = Err EValue.
  Proof. reflexivity. Qed.

  (** the flags at their defaults, or without effect *)
  Definition plain (w cf : bool) (c : crs) (projected : geom) : Prop :=
    w && geographic c = false /\ (negb cf || is_valid projected = true).

  Theorem to_crs_undensified s c g rs w cf :
    crs_eqb s c = false -> rs = RNone \/ rs = RNonFinite ->
    plain w cf c (gmap (proj s c) g) ->
    to_crs (Some s) g (Some c) rs w cf = Ok (Fresh (gmap (proj s c) g) c).
  Proof.
    intros H Hrs [Hw Hv]. unfold to_crs, to_crs_gen. rewrite H.
    destruct Hrs; subst rs; simpl; rewrite Hw, Hv; reflexivity.
  Qed.

  Theorem to_crs_nonpositive s c g r w cf :
    crs_eqb s c = false -> r <= 0 ->
    plain w cf c (gmap (proj s c) g) ->
    to_crs (Some s) g (Some c) (RNum r) w cf = Ok (Fresh (gmap (proj s c) g) c).
  Proof.
    intros H Hr [Hw Hv]. unfold to_crs, to_crs_gen. rewrite H. simpl.
    assert (E : Qltb 0 r = false) by (apply Qltb_false; exact Hr). rewrite E. simpl.
    rewrite Hw, Hv; reflexivity.
  Qed.

  Theorem to_crs_densified s c g r g1 w cf :
    crs_eqb s c = false -> 0 < r ->
    segmented_gen repaired sq r g = Ok g1 ->
    plain w cf c (gmap (proj s c) g1) ->
    to_crs (Some s) g (Some c) (RNum r) w cf = Ok (Fresh (gmap (proj s c) g1) c).
  Proof.
    intros H Hr Hg [Hw Hv]. unfold to_crs, to_crs_gen. rewrite H. simpl.
    assert (E : Qltb 0 r = true) by (apply Qltb_true; exact Hr). rewrite E, Hg. simpl.
    rewrite Hw, Hv; reflexivity.
  Qed.

  Theorem to_crs_auto s c g a w cf :
    crs_eqb s c = false -> auto_resolution sq g = Ok a ->
    to_crs (Some s) g (Some c) RAuto w cf = to_crs (Some s) g (Some c) (RNum a) w cf.
  Proof.
    intros H Ha. unfold to_crs, to_crs_gen. rewrite H. simpl. rewrite Ha. reflexivity.
  Qed.

  (** whatever the resolution: with default flags a successful conversion is the
      point-wise image of the geometry itself or of its densification *)
  Theorem to_crs_faithful self g target rs g' c' :
    to_crs self g target rs false false = Ok (Fresh g' c') ->
    exists s, self = Some s /\ target = Some c' /\ crs_eqb s c' = false /\
      exists g1, g' = gmap (proj s c') g1 /\
                 (g1 = g \/ exists r, 0 < r /\ segmented_gen repaired sq r g = Ok g1).
  Proof.
    unfold to_crs, to_crs_gen. destruct target as [c|]; [|discriminate].
    destruct self as [s|]; [|discriminate].
    destruct (crs_eqb s c) eqn:E; [discriminate|].
    intros H. apply bind_ok in H. destruct H as (rs' & Hrs & H).
    apply bind_ok in H. destruct H as (g1 & Hg1 & H). simpl in H. inversion H; subst g' c'; clear H.
    exists s. repeat split; auto. exists g1. split; [reflexivity|].
    destruct rs' as [| |r|]; try (inversion Hg1; subst; left; reflexivity).
    cbn [fx_autopos repaired negb orb] in Hg1.
    destruct (Qltb 0 r) eqn:Er.
    - right. exists r. split; [apply Qltb_true; exact Er | exact Hg1].
    - inversion Hg1; subst; left; reflexivity.
  Qed.

  (** [self] is returned only for equal CRSs *)
  Theorem to_crs_same_only self g target rs w cf :
    to_crs self g target rs w cf = Ok Same ->
    exists s c, self = Some s /\ target = Some c /\ crs_eqb s c = true.
  Proof.
    unfold to_crs, to_crs_gen. destruct target as [c|]; [|discriminate].
    destruct self as [s|]; [|discriminate].
    destruct (crs_eqb s c) eqn:E; [eauto|].
    intros H. apply bind_ok in H. destruct H as (rs' & Hrs & H).
    apply bind_ok in H. destruct H as (g1 & Hg1 & H).
    destruct (w && geographic c); discriminate.
  Qed.
End ToCrsProofs.

(** before ecfe9c0: "auto" on a zero-area geometry reaches densify with resolution 0,
    whose loop never finishes *)
Lemma unrepaired_auto_zero_area crs crs_eqb geographic proj is_valid repair chop clip (s c : crs) w cf :
  crs_eqb s c = false ->
  to_crs_gen crs crs_eqb geographic proj is_valid repair chop clip
             (Build_fixes true false true false) exact_sqrt
             (Some s) (Line [(0, 0); (3, 4)]) (Some c) RAuto w cf = Err ERuntime.
Proof.
  intros H. unfold to_crs_gen. rewrite H. vm_compute. reflexivity.
Qed.
