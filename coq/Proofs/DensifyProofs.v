(** Property C07 — proofs about the densify / segmented / to_crs model. *)
From Coq Require Import ZArith QArith Qround Qabs List Bool Lia Lqa.
From OG Require Import Base.Result Base.QZ Model.Densify Model.DensifySpec.
Import ListNotations.
Open Scope Q_scope.

(* ------------------------------------------------------------------ basics *)
Lemma Qltb_true a b : Qltb a b = true <-> a < b.
Proof.
  unfold Qltb. rewrite negb_true_iff. apply Qle_bool_false.
Qed.

Lemma Qltb_false a b : Qltb a b = false <-> b <= a.
Proof.
  unfold Qltb. rewrite negb_false_iff. apply Qle_bool_true.
Qed.

Lemma sq_le_of_le a r : 0 <= a -> a <= r -> a * a <= r * r.
Proof. intros. timeout 20 nra. Qed.

Lemma root_unique a b : 0 <= a -> 0 <= b -> a * a == b * b -> a == b.
Proof.
  intros Ha Hb H.
  destruct (Qlt_le_dec a b) as [L|L].
  - exfalso. assert (a * a < b * b) by (timeout 20 nra). lra.
  - destruct (Qlt_le_dec b a) as [L'|L'].
    + exfalso. assert (b * b < a * a) by (timeout 20 nra). lra.
    + lra.
Qed.

Lemma pos_of_sq_pos L r : 0 <= L -> 0 < r -> r * r <= L * L -> 0 < L /\ r <= L.
Proof.
  intros HL Hr H.
  assert (0 < r * r) by (timeout 20 nra).
  split.
  - destruct (Qlt_le_dec 0 L); auto. assert (L == 0) by lra. rewrite H1 in H. lra.
  - destruct (Qlt_le_dec L r) as [C|C]; auto. exfalso.
    assert (L * L < r * r) by (timeout 20 nra). lra.
Qed.

(* ------------------------------------------------------------------ exact_sqrt *)
Lemma zsqrt_exact_spec n r : zsqrt_exact n = Some r -> (0 <= r /\ r * r = n)%Z.
Proof.
  unfold zsqrt_exact. destruct (Z.sqrt n * Z.sqrt n =? n)%Z eqn:E; intros H; inversion H; subst.
  split; [apply Z.sqrt_nonneg | apply Z.eqb_eq; exact E].
Qed.

Lemma exact_sqrt_spec : sqrt_spec exact_sqrt.
Proof.
  intros x L. unfold exact_sqrt.
  destruct (zsqrt_exact (Qnum (Qred x))) as [a|] eqn:Ea; [|discriminate].
  destruct (zsqrt_exact (Zpos (Qden (Qred x)))) as [b|] eqn:Eb; [|discriminate].
  destruct b as [|b|b]; try discriminate.
  intros H; inversion H; subst L; clear H.
  apply zsqrt_exact_spec in Ea. apply zsqrt_exact_spec in Eb.
  destruct Ea as [Ha Ea]. destruct Eb as [_ Eb].
  split.
  - unfold Qle; simpl. lia.
  - rewrite <- (Qred_correct x).
    destruct (Qred x) as [n d]; simpl in *.
    unfold Qeq; simpl. rewrite <- Ea. rewrite <- Eb. ring.
Qed.

(* ------------------------------------------------------------------ segment algebra
   [L] is any non-negative root of the squared length: a universally quantified
   variable, not the result of a computation *)
Definition pt_eq (p q : pt) : Prop := fst p == fst q /\ snd p == snd q.

Lemma pt_eq_refl p : pt_eq p p.
Proof. split; reflexivity. Qed.

Lemma lerp_0 p1 p2 : pt_eq p1 (lerp p1 p2 0).
Proof. unfold pt_eq, lerp; simpl; split; ring. Qed.

Lemma sqdist_lerp_lerp p1 p2 a s t :
  pt_eq a (lerp p1 p2 s) ->
  sqdist a (lerp p1 p2 t) == (t - s) * (t - s) * sqdist p1 p2.
Proof.
  intros [Hx Hy]. unfold sqdist. rewrite Hx, Hy. unfold lerp; simpl. ring.
Qed.

Lemma sqdist_lerp_end p1 p2 a s :
  pt_eq a (lerp p1 p2 s) ->
  sqdist a p2 == (1 - s) * (1 - s) * sqdist p1 p2.
Proof.
  intros [Hx Hy]. unfold sqdist. rewrite Hx, Hy. unfold lerp; simpl. ring.
Qed.

(** two points of the segment at arc lengths [a] and [b] are |b - a| apart *)
Lemma sqdist_at p1 p2 L x a b :
  0 < L -> L * L == sqdist p1 p2 -> pt_eq x (lerp p1 p2 (a / L)) ->
  sqdist x (lerp p1 p2 (b / L)) == (b - a) * (b - a).
Proof.
  intros HL H Hx. rewrite (sqdist_lerp_lerp _ _ _ _ _ Hx). rewrite <- H. field. lra.
Qed.

Lemma sqdist_at_end p1 p2 L x a :
  0 < L -> L * L == sqdist p1 p2 -> pt_eq x (lerp p1 p2 (a / L)) ->
  sqdist x p2 == (L - a) * (L - a).
Proof.
  intros HL H Hx. rewrite (sqdist_lerp_end _ _ _ _ Hx). rewrite <- H. field. lra.
Qed.

(* ------------------------------------------------------------------ chains *)
Fixpoint chain (R : pt -> pt -> Prop) (p : pt) (l : list pt) : Prop :=
  match l with
  | [] => True
  | q :: l' => R p q /\ chain R q l'
  end.

Lemma chain_snoc_app R p l q b :
  chain R p (l ++ [q]) -> chain R q b -> chain R p ((l ++ [q]) ++ b).
Proof.
  revert p. induction l as [|x l IH]; simpl; intros p H Hb.
  - destruct H; auto.
  - destruct H as [H1 H2]. split; auto.
Qed.

Lemma chain_nth R p l :
  chain R p l ->
  forall i a b, nth_error (p :: l) i = Some a -> nth_error (p :: l) (S i) = Some b -> R a b.
Proof.
  revert p. induction l as [|q l IH]; intros p H i a b Ha Hb.
  - destruct i; simpl in Hb; [discriminate | destruct i; discriminate].
  - destruct H as [H1 H2]. destruct i.
    + simpl in Ha, Hb. inversion Ha; inversion Hb; subst; auto.
    + simpl in Ha. eapply (IH q H2 i); eauto.
Qed.

Definition within (r : Q) (p q : pt) : Prop := sqdist p q <= r * r.

(* ------------------------------------------------------------------ the while loop *)
Lemma dloop_S f p1 p2 L r d :
  dloop (S f) p1 p2 L r d =
  if Qltb d L
  then match dloop f p1 p2 L r (d + r) with
       | Some l => Some (interpolate p1 p2 L d :: l)
       | None => None
       end
  else Some [].
Proof. reflexivity. Qed.

Section Loop.
  Variables (p1 p2 : pt) (L r : Q).
  Hypothesis HL : 0 < L.
  Hypothesis Hr : 0 < r.
  Hypothesis Hroot : L * L == sqdist p1 p2.

  (** every gap of  prev :: inserted points ++ [p2]  is at most r, where [prev]
      is the point at arc length [d - r] *)
  Lemma dloop_gap fuel : forall d prev mid,
    dloop fuel p1 p2 L r d = Some mid ->
    pt_eq prev (lerp p1 p2 ((d - r) / L)) -> d - r < L ->
    chain (within r) prev (mid ++ [p2]).
  Proof using HL Hr Hroot.
    induction fuel as [|f IH]; intros d prev mid H Hp Hd; simpl in H; [discriminate|].
    destruct (Qltb d L) eqn:E.
    - destruct (dloop f p1 p2 L r (d + r)) as [l|] eqn:El; [|discriminate].
      inversion H; subst mid; clear H. simpl. split.
      + unfold within, interpolate. rewrite (sqdist_at p1 p2 L prev (d - r) d HL Hroot Hp).
        ring_simplify. lra.
      + apply Qltb_true in E.
        apply (IH (d + r) (interpolate p1 p2 L d) l El).
        * unfold interpolate, pt_eq, lerp; simpl.
          split; (apply Qplus_comp; [reflexivity|]; apply Qmult_comp; [|reflexivity]; field; lra).
        * lra.
    - inversion H; subst mid; clear H. apply Qltb_false in E. simpl. split; auto.
      unfold within. rewrite (sqdist_at_end p1 p2 L prev (d - r) HL Hroot Hp).
      apply sq_le_of_le; lra.
  Qed.

  (** the inserted points are p1 + t (p2 - p1) with increasing parameters below 1 *)
  Lemma dloop_params fuel : forall d mid,
    dloop fuel p1 p2 L r d = Some mid ->
    exists ts, mid = map (lerp p1 p2) ts /\
               forall lo, lo < d / L -> lo < 1 -> increasing lo ts 1.
  Proof using HL Hr Hroot.
    induction fuel as [|f IH]; intros d mid H; simpl in H; [discriminate|].
    destruct (Qltb d L) eqn:E.
    - destruct (dloop f p1 p2 L r (d + r)) as [l|] eqn:El; [|discriminate].
      inversion H; subst mid; clear H. apply Qltb_true in E.
      destruct (IH _ _ El) as (ts & -> & Hts).
      exists (d / L :: ts). split; [reflexivity|].
      intros lo Hlo Hlo1. simpl. split; auto.
      apply Hts.
      + apply Qmult_lt_r; [apply Qinv_lt_0_compat; exact HL | lra].
      + apply Qlt_shift_div_r; lra.
    - inversion H; subst. exists []. split; [reflexivity|]. intros; simpl; auto.
  Qed.

  (** the loop finishes within [n + 1] rounds as soon as [L <= d + n r] *)
  Lemma dloop_total_n (n : nat) : forall d,
    L <= d + inject_Z (Z.of_nat n) * r -> exists mid, dloop (S n) p1 p2 L r d = Some mid.
  Proof using HL Hr Hroot.
    induction n as [|n IH]; intros d H.
    - change (inject_Z (Z.of_nat 0)) with 0 in H.
      assert (E : Qltb d L = false) by (apply Qltb_false; lra).
      rewrite dloop_S, E. eauto.
    - rewrite dloop_S. destruct (Qltb d L) eqn:E; [|eauto].
      destruct (IH (d + r)) as [mid Hm].
      + rewrite Nat2Z.inj_succ in H. unfold Z.succ in H. rewrite inject_Z_plus in H.
        set (k := inject_Z (Z.of_nat n)) in *. change (inject_Z 1) with 1 in H. lra.
      + rewrite Hm. eauto.
  Qed.

  Lemma dloop_total : exists mid, dloop (seg_fuel L r) p1 p2 L r r = Some mid.
  Proof using HL Hr Hroot.
    unfold seg_fuel. apply dloop_total_n.
    assert (H0 : 0 <= L / r) by (apply Qle_shift_div_l; lra).
    assert (Hc : (0 <= Qceiling (L / r))%Z).
    { change 0%Z with (Qceiling 0). apply Qceiling_resp_le. exact H0. }
    rewrite Z2Nat.id by exact Hc.
    destruct (Qceiling_spec (L / r)) as (c & Ec & H1 & H2). rewrite <- Ec.
    assert (L <= c * r).
    { assert (E : L == L / r * r) by (field; lra).
      assert (L / r * r <= c * r) by (apply Qmult_le_compat_r; lra).
      lra. }
    lra.
  Qed.
End Loop.

(** without the repair 90667bc: for a resolution <= 0 the loop never finishes, whatever the fuel *)
Lemma dloop_diverges p1 p2 L r fuel : forall d,
  r <= 0 -> d < L -> dloop fuel p1 p2 L r d = None.
Proof.
  induction fuel as [|f IH]; intros d Hr Hd; simpl; auto.
  assert (E : Qltb d L = true) by (apply Qltb_true; exact Hd). rewrite E.
  rewrite IH; auto. lra.
Qed.

(* ------------------------------------------------------------------ densify *)
Lemma adjacent_head p q l : adjacent p q (p :: q :: l).
Proof. exists [], l. reflexivity. Qed.

Lemma adjacent_tail p q x l : adjacent p q l -> adjacent p q (x :: l).
Proof. intros (l1 & l2 & ->). exists (x :: l1), l2. reflexivity. Qed.

Section DensifyAny.
  Variable sq : Q -> option Q.
  Hypothesis Hsq : sqrt_spec sq.

  Lemma densify_segment_spec r p1 p2 a :
    0 < r -> densify_segment repaired sq (r * r) r p1 p2 = Ok a ->
    exists ts, a = map (lerp p1 p2) ts ++ [p2] /\ increasing 0 ts 1 /\ chain (within r) p1 a.
  Proof.
    intros Hr. unfold densify_segment, short_enough. cbn [fx_sqdist repaired].
    destruct (Qltb (sqdist p1 p2) (r * r)) eqn:E.
    - intros H; inversion H; subst a. apply Qltb_true in E.
      exists []. simpl. repeat split; try lra. unfold within. lra.
    - apply Qltb_false in E.
      destruct (sq (sqdist p1 p2)) as [L|] eqn:EL; [|discriminate].
      destruct (Hsq _ _ EL) as [HL0 Hroot].
      assert (HLr : r * r <= L * L) by (rewrite Hroot; exact E).
      destruct (pos_of_sq_pos L r HL0 Hr HLr) as [HL HrL].
      destruct (dloop (seg_fuel L r) p1 p2 L r r) as [mid|] eqn:Ed; [|discriminate].
      intros H; inversion H; subst a; clear H.
      destruct (dloop_params p1 p2 L r HL Hr Hroot _ _ _ Ed) as (ts & -> & Hts).
      exists ts. split; [reflexivity|]. split.
      + apply Hts; [|lra]. apply Qlt_shift_div_l; lra.
      + apply (dloop_gap p1 p2 L r HL Hr Hroot _ _ _ _ Ed).
        * unfold pt_eq, lerp; simpl. split; field; lra.
        * lra.
  Qed.

  Lemma densify_pairs_spec r : 0 < r -> forall rest p1 tl,
    densify_pairs repaired sq (r * r) r p1 rest = Ok tl ->
    refines (p1 :: rest) (p1 :: tl) /\ chain (within r) p1 tl.
  Proof.
    intros Hr. induction rest as [|p2 rest IH]; intros p1 tl H; simpl in H.
    - inversion H; subst. split; [constructor | exact I].
    - apply bind_ok in H. destruct H as (a & Ha & H).
      apply bind_ok in H. destruct H as (b & Hb & H). inversion H; subst tl; clear H.
      destruct (densify_segment_spec _ _ _ _ Hr Ha) as (ts & -> & Hts & Hch).
      destruct (IH _ _ Hb) as [Href Hchb].
      split.
      + rewrite <- app_assoc. simpl. apply refines_seg; assumption.
      + apply chain_snoc_app; assumption.
  Qed.

  Theorem densify_spec cs r out :
    densify_gen repaired sq cs r = Ok out -> 0 < r /\ refines cs out /\ max_gap r out.
  Proof.
    unfold densify_gen. cbn [fx_posres fx_empty repaired andb].
    destruct (Qle_bool r 0) eqn:Er; [discriminate|]. apply Qle_bool_false in Er.
    destruct cs as [|p0 rest].
    - intros H; inversion H; subst. repeat split; auto; [constructor|].
      intros i p q Hp. destruct i; discriminate.
    - intros H. apply bind_ok in H. destruct H as (tl & Ht & H). inversion H; subst out; clear H.
      destruct (densify_pairs_spec r Er _ _ _ Ht) as [Href Hch].
      repeat split; auto. intros i p q. apply (chain_nth _ _ _ Hch).
  Qed.

  (* --- totality and the error table --- *)
  Lemma densify_segment_total r p1 p2 :
    0 < r -> sq (sqdist p1 p2) <> None ->
    exists a, densify_segment repaired sq (r * r) r p1 p2 = Ok a.
  Proof.
    intros Hr Hs. unfold densify_segment, short_enough. cbn [fx_sqdist repaired].
    destruct (Qltb (sqdist p1 p2) (r * r)) eqn:E; [eauto|]. apply Qltb_false in E.
    destruct (sq (sqdist p1 p2)) as [L|] eqn:EL; [|congruence].
    destruct (Hsq _ _ EL) as [HL0 Hroot].
    assert (HLr : r * r <= L * L) by (rewrite Hroot; exact E).
    destruct (pos_of_sq_pos L r HL0 Hr HLr) as [HL HrL].
    destruct (dloop_total p1 p2 L r HL Hr Hroot) as [mid Hm]. rewrite Hm. eauto.
  Qed.

  Lemma densify_segment_err r p1 p2 e :
    0 < r -> densify_segment repaired sq (r * r) r p1 p2 = Err e ->
    e = EOther /\ r * r <= sqdist p1 p2 /\ sq (sqdist p1 p2) = None.
  Proof.
    intros Hr. unfold densify_segment, short_enough. cbn [fx_sqdist repaired].
    destruct (Qltb (sqdist p1 p2) (r * r)) eqn:E; [discriminate|]. apply Qltb_false in E.
    destruct (sq (sqdist p1 p2)) as [L|] eqn:EL.
    - destruct (Hsq _ _ EL) as [HL0 Hroot].
      assert (HLr : r * r <= L * L) by (rewrite Hroot; exact E).
      destruct (pos_of_sq_pos L r HL0 Hr HLr) as [HL HrL].
      destruct (dloop_total p1 p2 L r HL Hr Hroot) as [mid Hm]. rewrite Hm. discriminate.
    - intros H; inversion H. auto.
  Qed.

  Lemma densify_pairs_total r : 0 < r -> forall rest p1,
    roots_exist sq (p1 :: rest) -> exists tl, densify_pairs repaired sq (r * r) r p1 rest = Ok tl.
  Proof.
    intros Hr. induction rest as [|p2 rest IH]; intros p1 H; simpl; [eauto|].
    destruct (densify_segment_total r p1 p2 Hr) as [a Ha].
    { apply H. apply adjacent_head. }
    destruct (IH p2) as [b Hb].
    { intros p q Hpq. apply H. apply adjacent_tail. exact Hpq. }
    rewrite Ha, Hb. simpl. eauto.
  Qed.

  Lemma densify_pairs_err r : 0 < r -> forall rest p1 e,
    densify_pairs repaired sq (r * r) r p1 rest = Err e ->
    e = EOther /\ exists p q, adjacent p q (p1 :: rest) /\ r * r <= sqdist p q /\ sq (sqdist p q) = None.
  Proof.
    intros Hr. induction rest as [|p2 rest IH]; intros p1 e H; simpl in H; [discriminate|].
    destruct (densify_segment repaired sq (r * r) r p1 p2) as [a|e1] eqn:Ea; simpl in H.
    - destruct (densify_pairs repaired sq (r * r) r p2 rest) as [b|e2] eqn:Eb; simpl in H; [discriminate|].
      inversion H; subst e2. destruct (IH _ _ Eb) as (He & p & q & Hadj & H1 & H2).
      split; auto. exists p, q. split; [apply adjacent_tail; exact Hadj | auto].
    - inversion H; subst e1. destruct (densify_segment_err _ _ _ _ Hr Ea) as (He & H1 & H2).
      split; auto. exists p1, p2. split; [apply adjacent_head | auto].
  Qed.

  Theorem densify_total cs r :
    0 < r -> roots_exist sq cs -> exists out, densify_gen repaired sq cs r = Ok out.
  Proof.
    intros Hr H. unfold densify_gen. cbn [fx_posres fx_empty repaired andb].
    assert (E : Qle_bool r 0 = false) by (apply Qle_bool_false; exact Hr). rewrite E.
    destruct cs as [|p0 rest]; [eauto|].
    destruct (densify_pairs_total r Hr rest p0 H) as [tl Ht]. rewrite Ht. simpl. eauto.
  Qed.

  Theorem densify_errors cs r e :
    densify_gen repaired sq cs r = Err e ->
    (e = EValue /\ r <= 0) \/
    (e = EOther /\ 0 < r /\ exists p q, adjacent p q cs /\ r * r <= sqdist p q /\ sq (sqdist p q) = None).
  Proof.
    unfold densify_gen. cbn [fx_posres fx_empty repaired andb].
    destruct (Qle_bool r 0) eqn:Er.
    - intros H; inversion H. left. split; auto. apply Qle_bool_true; exact Er.
    - apply Qle_bool_false in Er. destruct cs as [|p0 rest]; [discriminate|].
      destruct (densify_pairs repaired sq (r * r) r p0 rest) as [tl|e1] eqn:Et; simpl; [discriminate|].
      intros H; inversion H; subst e1. right.
      destruct (densify_pairs_err r Er _ _ _ Et) as (He & Hex). auto.
  Qed.

  Theorem densify_nonpositive cs r : r <= 0 -> densify_gen repaired sq cs r = Err EValue.
  Proof.
    intros H. unfold densify_gen. cbn [fx_posres fx_empty repaired andb].
    assert (E : Qle_bool r 0 = true) by (apply Qle_bool_true; exact H). rewrite E. reflexivity.
  Qed.
End DensifyAny.
